//go:build verif

// C01 correspondence + mutation harness. External test package of vcr/verifier so that the real issuer (vcr/issuer) and the
// real wallet (vcr/holder, which imports vcr/verifier) can be used next to the real verifier.
//
// Two nodes share one DID-document history (harness-owned resolver with versions: key added / removed / replaced /
// deactivated) but nothing else: the ISSUER node (issuer.Issue, issuer.Revoke, wallet.BuildPresentation, own key store, own
// trust file) and the VERIFIER node (verifier.Verify / VerifyVP / RegisterRevocation, own leia revocation store, own trust
// file, real json-gold with the embedded contexts).  Every op is written to ops.jsonl with the view of the document as the
// Go code reads it (typed members after go-did parsing), the measured canonical digests (real canonicaliser), the set of
// keys for which the real signature check passes, and to impl.out the verdict class of the real call.
package verifier_test

import (
	"bytes"
	"context"
	"crypto"
	"crypto/ecdsa"
	"crypto/elliptic"
	crand "crypto/rand"
	"crypto/sha256"
	"crypto/sha512"
	"encoding/base64"
	"encoding/hex"
	"encoding/json"
	"errors"
	"fmt"
	"io"
	"math/big"
	"math/rand"
	"net/http"
	"net/http/httptest"
	"net/url"
	"os"
	"path"
	"reflect"
	"sort"
	"strconv"
	"strings"
	"testing"
	"time"
	"unicode"

	"github.com/lestrrat-go/jwx/v2/jwa"
	"github.com/lestrrat-go/jwx/v2/jwk"
	"github.com/lestrrat-go/jwx/v2/jws"
	"github.com/lestrrat-go/jwx/v2/jwt"
	ssi "github.com/nuts-foundation/go-did"
	"github.com/nuts-foundation/go-did/did"
	"github.com/nuts-foundation/go-did/vc"
	"github.com/nuts-foundation/nuts-node/audit"
	"github.com/nuts-foundation/nuts-node/auth/api/iam"
	"github.com/nuts-foundation/nuts-node/core"
	nutsCrypto "github.com/nuts-foundation/nuts-node/crypto"
	"github.com/nuts-foundation/nuts-node/crypto/storage/spi"
	"github.com/nuts-foundation/nuts-node/jsonld"
	"github.com/nuts-foundation/nuts-node/storage"
	testio "github.com/nuts-foundation/nuts-node/test/io"
	"github.com/nuts-foundation/nuts-node/vcr"
	vcrapi "github.com/nuts-foundation/nuts-node/vcr/api/vcr/v2"
	"github.com/nuts-foundation/nuts-node/vcr/credential"
	"github.com/nuts-foundation/nuts-node/vcr/holder"
	"github.com/nuts-foundation/nuts-node/vcr/issuer"
	"github.com/nuts-foundation/nuts-node/vcr/revocation"
	"github.com/nuts-foundation/nuts-node/vcr/signature"
	"github.com/nuts-foundation/nuts-node/vcr/signature/proof"
	"github.com/nuts-foundation/nuts-node/vcr/trust"
	"github.com/nuts-foundation/nuts-node/vcr/verifier"
	"github.com/nuts-foundation/nuts-node/vdr/resolver"
	"github.com/piprate/json-gold/ld"
	"github.com/sirupsen/logrus"
	"gorm.io/gorm"
)

const (
	c01T0 = int64(1_700_000_000) // seconds
	didI  = "did:nuts:issuer1"
	didJ  = "did:web:example.com:iam:issuer2"
	didH  = "did:web:example.com:iam:holder"
	didO  = "did:nuts:other"
	didD  = "did:web:example.com:iam:deact"
	didU  = "did:web:example.com:iam:unknown"
	// look-alike DIDs: textual prefixes / extensions of the issuers' DIDs, controlled by other parties (own keys)
	didIp  = "did:nuts:issuer"
	didIx  = "did:nuts:issuer10"
	didJp  = "did:web:example.com:iam:issuer"
	didJx  = "did:web:example.com:iam:issuer20"
	// wave 9: DIDs that differ from the issuers' DIDs ONLY in letter case, controlled by other parties (own keys)
	didJc = "did:web:example.com:iam:Issuer2"
	didIc = "did:nuts:Issuer1"
	didRt  = "did:web:example.com"
	didB   = "did:web:based.example.com"    // its document uses @base + relative key ids
	didE   = "did:web:example.com:iam:p384" // its assertion key is a P-384 key
	ctxVC  = "https://www.w3.org/2018/credentials/v1"
	ctxNut = "https://nuts.nl/credentials/v1"
	ctxEx  = "http://example.org/credentials/V1"
)

// ---------------------------------------------------------------- DID history

type c01Version struct {
	From   int64       `json:"from"` // unix ms
	Deact  bool        `json:"deact"`
	Assert [][2]string `json:"assertion"` // (verification method id, key name)
	Auth   [][2]string `json:"-"`
	CapInv [][2]string `json:"-"`    // capabilityInvocation only
	KeyAgr [][2]string `json:"-"`    // keyAgreement only
	Base   string      `json:"base"` // non-empty: the document declares this "@base" and writes its verification method ids relative ("#k")
}

type c01World struct {
	t       *testing.T
	ctx     context.Context
	ks      *nutsCrypto.Crypto
	backend spi.Storage
	kinds   map[string]string           // key name -> curve, for keys that are not P-256
	keys    map[string]crypto.PublicKey // key name -> public key
	order   []string
	hist    map[string][]c01Version
	docs    map[string]*did.Document
	asOf    int64 // ms; used for requests without ResolveTime
	ldm     jsonld.JSONLD
	loader  ld.DocumentLoader
}

// newKey creates a DETERMINISTIC P-256 key for the given key id (so that documents in replay files verify in a later run),
// stores it in the real key store and links it to the key id.
func (w *c01World) newKey(storageKid string) string { return w.newKeyOn(storageKid, elliptic.P256()) }

func (w *c01World) newKeyOn(storageKid string, curve elliptic.Curve) string {
	h := sha256.Sum256([]byte("verif-c01-key:" + storageKid))
	d := new(big.Int).SetBytes(h[:])
	d.Mod(d, new(big.Int).Sub(curve.Params().N, big.NewInt(1)))
	d.Add(d, big.NewInt(1))
	priv := &ecdsa.PrivateKey{D: d}
	priv.Curve = curve
	priv.X, priv.Y = curve.ScalarBaseMult(d.Bytes())
	if err := w.backend.SavePrivateKey(w.ctx, storageKid, priv); err != nil {
		w.t.Fatal(err)
	}
	if err := w.ks.Link(w.ctx, storageKid, storageKid, "1"); err != nil {
		w.t.Fatal(err)
	}
	var pub crypto.PublicKey = &priv.PublicKey
	k, _ := jwk.FromRaw(pub)
	tp, _ := k.Thumbprint(crypto.SHA256)
	name := "K" + hex.EncodeToString(tp)[:8]
	w.keys[name] = pub
	w.order = append(w.order, name)
	if curve.Params().Name != "P-256" {
		w.kinds[name] = curve.Params().Name
	}
	return name
}

func (w *c01World) Resolve(id did.DID, md *resolver.ResolveMetadata) (*did.Document, *resolver.DocumentMetadata, error) {
	vs, ok := w.hist[id.String()]
	if !ok {
		return nil, nil, resolver.ErrNotFound
	}
	t := w.asOf
	if md != nil && md.ResolveTime != nil {
		t = md.ResolveTime.UnixMilli()
	}
	idx := -1
	for i, v := range vs {
		if v.From <= t {
			idx = i
		}
	}
	if idx < 0 {
		return nil, nil, resolver.ErrNotFound
	}
	v := vs[idx]
	if v.Deact && !(md != nil && md.AllowDeactivated) {
		return nil, nil, resolver.ErrDeactivated
	}
	ck := id.String() + "/" + strconv.Itoa(idx)
	if d, ok := w.docs[ck]; ok {
		return d, &resolver.DocumentMetadata{}, nil
	}
	if v.Base != "" {
		// a document as some did:web vendors publish it: "@base" in the @context, relative verification method ids,
		// every key in verificationMethod, the relationships refer to them
		asJWK := func(name string) map[string]any {
			k, _ := jwk.FromRaw(w.keys[name])
			data, _ := json.Marshal(k)
			var r map[string]any
			_ = json.Unmarshal(data, &r)
			return r
		}
		var vms, ass, auth []any
		seen := map[string]bool{}
		for _, p := range append(append([][2]string{}, v.Assert...), v.Auth...) {
			if !seen[p[0]] {
				seen[p[0]] = true
				vms = append(vms, map[string]any{"id": p[0], "type": "JsonWebKey2020", "controller": id.String(), "publicKeyJwk": asJWK(p[1])})
			}
		}
		for _, p := range v.Assert {
			ass = append(ass, p[0])
		}
		for _, p := range v.Auth {
			auth = append(auth, p[0])
		}
		js, _ := json.Marshal(map[string]any{"@context": []any{"https://www.w3.org/ns/did/v1", map[string]any{"@base": v.Base}},
			"id": id.String(), "verificationMethod": vms, "assertionMethod": ass, "authentication": auth})
		doc, err := did.ParseDocument(string(js))
		if err != nil {
			w.t.Fatal(err)
		}
		w.docs[ck] = doc
		return doc, &resolver.DocumentMetadata{}, nil
	}
	doc := &did.Document{ID: id}
	mk := func(p [2]string) *did.VerificationMethod {
		vm, err := did.NewVerificationMethod(did.MustParseDIDURL(p[0]), ssi.JsonWebKey2020, id, w.keys[p[1]])
		if err != nil {
			w.t.Fatal(err)
		}
		return vm
	}
	for _, p := range v.Assert {
		doc.AddAssertionMethod(mk(p))
	}
	for _, p := range v.Auth {
		doc.AddAuthenticationMethod(mk(p))
	}
	for _, p := range v.CapInv {
		doc.AddCapabilityInvocation(mk(p))
	}
	for _, p := range v.KeyAgr {
		doc.AddKeyAgreement(mk(p))
	}
	w.docs[ck] = doc
	return doc, &resolver.DocumentMetadata{}, nil
}

// ---------------------------------------------------------------- nodes

type c01Publisher struct{ revs []credential.Revocation }

func (p *c01Publisher) PublishCredential(context.Context, vc.VerifiableCredential, bool) error {
	return nil
}
func (p *c01Publisher) PublishRevocation(_ context.Context, r credential.Revocation) error {
	p.revs = append(p.revs, r)
	return nil
}

// c01HTTP is the verifier node's HTTP client: it fetches status list credentials from the issuer node (issuer.StatusList),
// optionally tampering with what is served.
type c01HTTP struct {
	n      *c01Nodes
	mode   string            // "", "fold" (inject a case-folding variant of encodedList), "down" (HTTP 500)
	zero   map[string]string // url -> encodedList captured before any revocation (mode fold)
	static map[string][]byte // url -> body (mode static)
	served int
}

func (h *c01HTTP) fetch(url string) ([]byte, error) {
	parts := strings.Split(strings.TrimPrefix(url, "https://issuer.example.com/statuslist/"), "/")
	if len(parts) != 2 {
		return nil, errors.New("not a status list url")
	}
	page, _ := strconv.Atoi(parts[1])
	id, err := did.ParseDID(parts[0])
	if err != nil {
		return nil, err
	}
	saved := h.n.w.asOf
	h.n.w.asOf = time.Now().UnixMilli()
	cred, err := h.n.iss.StatusList(h.n.w.ctx, *id, page)
	h.n.w.asOf = saved
	if err != nil {
		return nil, err
	}
	return json.Marshal(cred)
}

func (h *c01HTTP) Do(req *http.Request) (*http.Response, error) {
	h.served++
	resp := func(code int, body []byte) (*http.Response, error) {
		return &http.Response{StatusCode: code, Body: io.NopCloser(bytes.NewReader(body)), Header: http.Header{}}, nil
	}
	if h.mode == "down" {
		return resp(500, []byte("down"))
	}
	if h.mode == "static" { // a cached / static copy is served, the issuer node is not asked
		if b, ok := h.static[req.URL.String()]; ok {
			return resp(200, b)
		}
		return resp(404, []byte("no copy"))
	}
	body, err := h.fetch(req.URL.String())
	if err != nil {
		return resp(404, []byte(err.Error()))
	}
	if h.mode == "fold" {
		var m map[string]any
		_ = json.Unmarshal(body, &m)
		if cs, ok := m["credentialSubject"].(map[string]any); ok {
			cs["encodedLiſt"] = h.zero[req.URL.String()]
		}
		body, _ = json.Marshal(m)
	}
	return resp(200, body)
}

// c01FaultStore wraps the verifier node's revocation store; when `fail` is set it cannot answer
type c01FaultStore struct {
	verifier.Store
	fail bool
	// wave 8: the fault happens INSIDE the real leia store: `closed` is a real leiaVerifierStore whose database has been closed (what a
	// verification racing with vcr.Shutdown, or an I/O error of verifier-store.db, looks like); failInner routes the read to it, so the
	// error branches of leiaVerifierStore.GetRevocations themselves are executed
	failInner bool
	closed    verifier.Store
}

func (f *c01FaultStore) GetRevocations(id ssi.URI) ([]*credential.Revocation, error) {
	if f.fail {
		return nil, errors.New("verif-store-down")
	}
	if f.failInner {
		return f.closed.GetRevocations(id)
	}
	return f.Store.GetRevocations(id)
}

var _ core.Diagnosable = (*c01FaultStore)(nil)

// c01VCR is just enough of vcr.VCR for the REST API wrapper's verify handlers
type c01VCR struct {
	vcr.VCR
	n *c01Nodes
}

func (v c01VCR) Verifier() verifier.Verifier { return v.n.ver }

type c01Nodes struct {
	revleg     *c01RevLeg
	fstore     *c01FaultStore
	iver       verifier.Verifier
	vstore     verifier.Store
	kr         resolver.KeyResolver
	vTrustFile string
	vdb        *gorm.DB
	idb        *gorm.DB // the issuer node's SQL database (managed status lists)
	http       *c01HTTP
	w          *c01World
	ver        verifier.Verifier
	vTrust     *trust.Config
	iss        issuer.Issuer
	pub        *c01Publisher
	wallet     holder.Wallet
}

// ---------------------------------------------------------------- output

type c01Out struct {
	ops, impl *os.File
	n         int
	stats     map[string]int
}

func (o *c01Out) emit(op map[string]any, line string) {
	b, err := json.Marshal(op)
	if err != nil {
		panic(err)
	}
	o.ops.Write(append(b, '\n'))
	o.impl.WriteString(line + "\n")
	o.n++
}

func ms(t time.Time) int64 { return t.UnixMilli() }

func sha(b []byte) string { h := sha256.Sum256(b); return hex.EncodeToString(h[:])[:16] }

// ---------------------------------------------------------------- error classes

func c01Class(err error) string {
	if err == nil {
		return "ok"
	}
	s := err.Error()
	if i := strings.Index(s, "invalid VC (id="); i >= 0 {
		rest := s[i:]
		if j := strings.Index(rest, "): "); j >= 0 {
			rest = rest[j+3:]
		}
		return "err:vc:" + c01Msg(rest)
	}
	return "err:" + c01Msg(s)
}

func c01Msg(s string) string {
	has := func(x string) bool { return strings.Contains(s, x) }
	switch {
	case has("verif-store-down"), has("error while getting revocation by id"):
		return "store-error"
	case has("presenter is credential subject"), has("cannot determine subject of VP"):
		return "vp-subject-error"
	case has("credential(s) must be presented by subject"):
		return "vp-not-by-subject"
	case has("presentation holder must equal credential subject"):
		return "vp-holder-mismatch"
	case has("must list at most 2 types"):
		return "too-many-types"
	case has("credential is revoked"):
		return "revoked"
	case has("credential issuer is untrusted"):
		return "untrusted"
	case has("credential not valid at given time"):
		return "not-valid-at-time"
	case has("could not validate issuer"):
		return "issuer-unresolvable"
	case has("unable to validate JWT signature"):
		switch {
		case has("signing algorithm is not supported"):
			return "jwt-alg"
		case has("does not fit the key"):
			return "jwt-alg-key"
		case has("not satisfied"):
			return "jwt-time"
		case has("key not found in DID document"), has("unable to find the DID document"), has("has been deactivated"), has("invalid key ID"):
			return "jwt-key-unresolvable"
		}
		return "jwt-bad-signature"
	case has("verification method is not of issuer"):
		return "vm-not-of-issuer"
	case has("only differs by case"):
		return "ambiguous-member"
	case has("missing proof"):
		return "missing-proof"
	case has("unsupported proof type"):
		return "bad-proof"
	case has("presentation not valid at given time"):
		return "proof-not-valid-at-time"
	case has("unable to resolve valid signing key"):
		return "key-unresolvable"
	case has("invalid signature"):
		return "bad-signature"
	case has("unsupported credential proof format"), has("unsupported presentation proof format"):
		return "unsupported-format"
	case has("validation failed"), has("invalid DID"):
		return "invalid"
	}
	return "other:" + strings.Map(func(r rune) rune {
		if unicode.IsLetter(r) || unicode.IsDigit(r) {
			return r
		}
		return '_'
	}, s[:min(len(s), 60)])
}

// ---------------------------------------------------------------- views (what the Go code reads)

type c01Recorder struct {
	inner  signature.JSONWebSignature2020
	rec    [][]byte
	replay [][]byte
}

func (r *c01Recorder) Sign(ctx context.Context, doc []byte, keyID string) ([]byte, error) {
	return r.inner.Sign(ctx, doc, keyID)
}
func (r *c01Recorder) CanonicalizeDocument(doc interface{}) ([]byte, error) {
	if len(r.replay) > 0 {
		b := r.replay[0]
		r.replay = r.replay[1:]
		return b, nil
	}
	b, err := r.inner.CanonicalizeDocument(doc)
	if err == nil {
		r.rec = append(r.rec, b)
	}
	return b, err
}
func (r *c01Recorder) CalculateDigest(doc []byte) []byte { return r.inner.CalculateDigest(doc) }
func (r *c01Recorder) GetType() ssi.ProofType            { return r.inner.GetType() }

type c01Tables struct {
	urls map[string]any
	dids map[string]any
}

func (tb *c01Tables) url(s string) {
	if d, err := resolver.GetDIDFromURL(s); err == nil {
		tb.urls[s] = d.String()
	} else {
		tb.urls[s] = nil
	}
}
func (tb *c01Tables) did(s string) {
	if d, err := did.ParseDID(s); err == nil {
		tb.dids[s] = d.String()
	} else {
		tb.dids[s] = nil
	}
}

func optStr(p *string) any {
	if p == nil {
		return nil
	}
	return *p
}

func proofView(p proof.LDProof) map[string]any {
	var exp any
	if p.Expires != nil {
		exp = ms(*p.Expires)
	}
	return map[string]any{"shape": "one", "typ": string(p.Type), "vm": p.VerificationMethod.String(), "purpose": p.ProofPurpose,
		"created": ms(p.Created), "expires": exp, "domain": optStr(p.Domain), "challenge": optStr(p.Challenge), "nonce": optStr(p.Nonce), "jws": sha([]byte(p.JWS))}
}

// ldMeasure decodes the proof the way jsonldProof does and measures canonical digests and the keys whose signature check passes.
func (w *c01World) ldMeasure(document any, view map[string]any, tb *c01Tables) {
	sd, err := proof.NewSignedDocument(document)
	if err != nil {
		view["proof"] = map[string]any{"shape": "malformed"}
		return
	}
	known := []string{"@context", "id", "type", "issuer", "issuanceDate", "expirationDate", "credentialStatus", "credentialSubject", "proof"}
	if _, isVP := document.(vc.VerifiablePresentation); isVP {
		known = []string{"@context", "id", "type", "holder", "verifiableCredential", "proof"}
	}
	cv := false
	for k := range sd {
		for _, n := range known {
			if k != n && strings.EqualFold(k, n) {
				cv = true
			}
		}
	}
	view["caseVariant"] = cv || ambiguousNames(map[string]any(sd))
	raw, has := sd["proof"]
	ldp := proof.LDProof{}
	if !has || raw == nil {
		view["proof"] = map[string]any{"shape": "absent"}
	} else if err := sd.UnmarshalProofValue(&ldp); err != nil {
		view["proof"] = map[string]any{"shape": "malformed"}
		return
	} else {
		view["proof"] = proofView(ldp)
		tb.url(ldp.VerificationMethod.String())
	}
	rec := &c01Recorder{inner: signature.JSONWebSignature2020{ContextLoader: w.loader}}
	var sigKeys []string
	first := true
	for _, name := range w.order {
		var err error
		if first {
			err = ldp.Verify(sd.DocumentWithoutProof(), rec, w.keys[name])
			first = false
			if len(rec.rec) != 2 {
				view["cd"], view["cp"] = "canon-error", "canon-error"
				break
			}
			view["cd"], view["cp"] = sha(rec.rec[0]), sha(rec.rec[1])
		} else {
			rep := &c01Recorder{inner: rec.inner, replay: [][]byte{rec.rec[0], rec.rec[1]}}
			err = ldp.Verify(sd.DocumentWithoutProof(), rep, w.keys[name])
		}
		if err == nil {
			sigKeys = append(sigKeys, name)
		}
	}
	view["sigKeys"] = sigKeys
}

// ambiguousNames: some object (at any depth) has two member names that are equal under Unicode case folding
func ambiguousNames(v any) bool {
	switch x := v.(type) {
	case map[string]any:
		keys := make([]string, 0, len(x))
		for k := range x {
			keys = append(keys, k)
		}
		for i := range keys {
			for j := i + 1; j < len(keys); j++ {
				if strings.EqualFold(keys[i], keys[j]) {
					return true
				}
			}
		}
		for _, c := range x {
			if ambiguousNames(c) {
				return true
			}
		}
	case []any:
		for _, c := range x {
			if ambiguousNames(c) {
				return true
			}
		}
	}
	return false
}

func jwtView(raw string, w *c01World, view map[string]any, tb *c01Tables) {
	kid, alg, err := nutsCrypto.JWTKidAlg(raw)
	view["jwtParses"] = err == nil
	if err != nil {
		return
	}
	j := map[string]any{"kid": kid, "alg": alg.String()}
	tok, err := jwt.Parse([]byte(raw), jwt.WithVerify(false), jwt.WithValidate(false))
	if err == nil {
		tm := func(k string, t time.Time) {
			if _, ok := tok.Get(k); ok {
				j[k] = ms(t)
			}
		}
		tm("nbf", tok.NotBefore())
		tm("exp", tok.Expiration())
		tm("iat", tok.IssuedAt())
	}
	parts := strings.Split(raw, ".")
	if len(parts) == 3 {
		view["raw"] = sha([]byte(parts[0] + "." + parts[1]))
		j["sig"] = sha([]byte(parts[2]))
	}
	var sigKeys []string
	for _, name := range w.order {
		if _, err := jws.Verify([]byte(raw), jws.WithKey(alg, w.keys[name])); err == nil {
			sigKeys = append(sigKeys, name)
		}
	}
	view["jwt"] = j
	view["sigKeys"] = sigKeys
	tb.url(kid)
}

func flatten(prefix string, v any, out *[][2]string) {
	switch x := v.(type) {
	case map[string]any:
		keys := make([]string, 0, len(x))
		for k := range x {
			keys = append(keys, k)
		}
		sort.Strings(keys)
		for _, k := range keys {
			flatten(prefix+"/"+k, x[k], out)
		}
		if len(keys) == 0 {
			*out = append(*out, [2]string{prefix, "{}"})
		}
	case []any:
		for i, e := range x {
			flatten(prefix+"/"+strconv.Itoa(i), e, out)
		}
		if len(x) == 0 {
			*out = append(*out, [2]string{prefix, "[]"})
		}
	default:
		b, _ := json.Marshal(x)
		*out = append(*out, [2]string{prefix, string(b)})
	}
}

// shapeOK: the type-specific credentialSubject requirements, computed independently of the validators
func shapeOK(c vc.VerifiableCredential) bool {
	bs, _ := json.Marshal(c.CredentialSubject)
	isOrg, isAuth := false, false
	for _, t := range c.Type {
		if t.String() == "VerifiableCredential" {
			continue
		}
		if t.String() == "NutsOrganizationCredential" {
			isOrg = true
			break
		}
		if t.String() == "NutsAuthorizationCredential" {
			isAuth = true
			break
		}
	}
	blank := func(s string) bool { return strings.TrimSpace(s) == "" }
	switch {
	case isOrg:
		var l []struct {
			ID           string            `json:"id"`
			Organization map[string]string `json:"organization"`
		}
		_ = json.Unmarshal(bs, &l)
		if len(l) != 1 || l[0].Organization == nil || l[0].ID == "" {
			return false
		}
		if _, err := did.ParseDID(l[0].ID); err != nil {
			return false
		}
		return !blank(l[0].Organization["name"]) && !blank(l[0].Organization["city"])
	case isAuth:
		var l []struct {
			ID           string `json:"id"`
			PurposeOfUse string `json:"purposeOfUse"`
			Resources    []struct {
				Path       string   `json:"path"`
				Operations []string `json:"operations"`
			} `json:"resources"`
		}
		_ = json.Unmarshal(bs, &l)
		if len(l) != 1 || blank(l[0].ID) || blank(l[0].PurposeOfUse) {
			return false
		}
		if _, err := did.ParseDID(l[0].ID); err != nil {
			return false
		}
		okOps := map[string]bool{"read": true, "vread": true, "update": true, "patch": true, "delete": true, "history": true, "create": true, "search": true, "document": true}
		for _, r := range l[0].Resources {
			if blank(r.Path) || len(r.Operations) == 0 {
				return false
			}
			for _, o := range r.Operations {
				if !okOps[strings.ToLower(o)] {
					return false
				}
			}
		}
		return true
	}
	return true
}

func (w *c01World) viewVC(c vc.VerifiableCredential, tb *c01Tables) map[string]any {
	v := map[string]any{"fmt": c.Format()}
	strs := func(l []ssi.URI) []string {
		r := []string{}
		for _, u := range l {
			r = append(r, u.String())
		}
		return r
	}
	v["ctx"] = strs(c.Context)
	v["types"] = strs(c.Type)
	if c.ID != nil {
		v["id"] = c.ID.String()
		tb.url(c.ID.String())
	} else {
		v["id"] = nil
	}
	v["issuer"] = c.Issuer.String()
	tb.did(c.Issuer.String())
	v["issued"] = ms(c.IssuanceDate)
	if c.ExpirationDate != nil {
		v["expires"] = ms(*c.ExpirationDate)
	} else {
		v["expires"] = nil
	}
	// subjects as SubjectDID decodes them
	var subs []struct {
		ID did.DID `json:"id"`
	}
	if err := c.UnmarshalCredentialSubject(&subs); err != nil {
		v["subjects"] = nil
	} else {
		l := []string{}
		for _, s := range subs {
			if s.ID.Empty() {
				l = append(l, "")
			} else {
				l = append(l, s.ID.String())
			}
		}
		v["subjects"] = l
	}
	// credentialStatus
	if c.CredentialStatus == nil {
		v["statuses"] = []any{}
	} else if sts, err := c.CredentialStatuses(); err != nil {
		v["statuses"] = nil
	} else {
		l := []any{}
		for _, s := range sts {
			e := map[string]any{"id": s.ID.String(), "typ": s.Type, "purpose": "", "index": nil, "listCred": "", "entryValid": true}
			if s.Type == revocation.StatusList2021EntryType {
				var en revocation.StatusList2021Entry
				if err := json.Unmarshal(s.Raw(), &en); err != nil {
					e["entryValid"] = false
					e["unmarshals"], e["urlOK"], e["entryId"] = false, false, ""
				} else {
					e["purpose"], e["listCred"] = en.StatusPurpose, en.StatusListCredential
					// deepening round 2: the index TEXT; the model computes strconv.Atoi itself (NutsModel/C01/Atoi.lean), "index" below stays as a cross-check
					e["indexText"] = en.StatusListIndex
					// deepening round: the inputs of StatusList2021Entry.Validate the model computes the verdict from (net/url is a contract)
					_, uerr := url.ParseRequestURI(en.StatusListCredential)
					e["unmarshals"], e["urlOK"], e["entryId"] = true, uerr == nil, en.ID
					if i, err := strconv.Atoi(en.StatusListIndex); err == nil && i >= 0 {
						e["index"] = i
					}
					e["entryValid"] = en.Validate() == nil
				}
			}
			l = append(l, e)
		}
		v["statuses"] = l
	}
	v["nProofs"] = len(c.Proof)
	v["shapeOK"] = shapeOK(c)
	// deepening round: the typed subjects exactly as the validators decode them (errors ignored, as the validators do); the model
	// COMPUTES the type-specific shape verdict from these (NutsModel/C01/Subject.lean), `shapeOK` above stays as an independent cross-check
	{
		orgT := make([]credential.NutsOrganizationCredentialSubject, 0)
		_ = c.UnmarshalCredentialSubject(&orgT)
		so := map[string]any{"n": len(orgT)}
		if len(orgT) > 0 {
			so["id"] = orgT[0].ID
			tb.did(orgT[0].ID)
			so["orgNil"] = orgT[0].Organization == nil
			if n, ok := orgT[0].Organization["name"]; ok {
				so["orgName"] = n
			}
			if n, ok := orgT[0].Organization["city"]; ok {
				so["orgCity"] = n
			}
		}
		v["subjOrg"] = so
		authT := make([]credential.NutsAuthorizationCredentialSubject, 0)
		_ = c.UnmarshalCredentialSubject(&authT)
		sa := map[string]any{"n": len(authT)}
		if len(authT) > 0 {
			sa["id"] = authT[0].ID
			tb.did(authT[0].ID)
			sa["purposeOfUse"] = authT[0].PurposeOfUse
			rs := []any{}
			for _, r := range authT[0].Resources {
				ops := append([]string{}, r.Operations...)
				rs = append(rs, map[string]any{"path": r.Path, "operations": ops})
			}
			sa["resources"] = rs
		}
		v["subjAuth"] = sa
	}
	claims := [][2]string{}
	var cs any
	bs, _ := json.Marshal(c.CredentialSubject)
	_ = json.Unmarshal(bs, &cs)
	flatten("", cs, &claims)
	v["claims"] = claims
	switch c.Format() {
	case vc.JWTCredentialProofFormat:
		jwtView(c.Raw(), w, v, tb)
		kid := ""
		if j, ok := v["jwt"].(map[string]any); ok {
			kid, _ = j["kid"].(string)
		}
		if kid == "" {
			k := c.Issuer.String()
			if strings.HasPrefix(k, "did:jwk:") && !strings.Contains(k, "#") {
				k += "#0"
			}
			tb.url(k)
		}
	default:
		w.ldMeasure(c, v, tb)
	}
	// what the node would report for this credential
	rep, _ := json.Marshal(c)
	v["report"] = sha(rep)
	if err := jsonld.AllFieldsDefined(w.loader, rep); err != nil {
		v["allDefined"] = false
	} else {
		v["allDefined"] = true
	}
	return v
}

func (w *c01World) viewVP(p vc.VerifiablePresentation, tb *c01Tables) map[string]any {
	v := map[string]any{"fmt": p.Format()}
	if p.Holder != nil {
		v["holder"] = p.Holder.String()
	} else {
		v["holder"] = nil
	}
	vcs := []any{}
	for _, c := range p.VerifiableCredential {
		vcs = append(vcs, w.viewVC(c, tb))
	}
	v["vcs"] = vcs
	v["nProofs"] = len(p.Proof)
	switch p.Format() {
	case vc.JWTPresentationProofFormat:
		jwtView(p.Raw(), w, v, tb)
	default:
		var proofs []proof.LDProof
		err := p.UnmarshalProofValue(&proofs)
		v["proofDecodes"] = err == nil
		v["signerVM"] = ""
		if err == nil && len(proofs) == 1 {
			v["signerVM"] = proofs[0].VerificationMethod.String()
			tb.url(proofs[0].VerificationMethod.String())
		}
		w.ldMeasure(p, v, tb)
	}
	rep, _ := json.Marshal(p)
	v["report"] = sha(rep)
	if err := jsonld.AllFieldsDefined(w.loader, rep); err != nil {
		v["allDefined"] = false
	} else {
		v["allDefined"] = true
	}
	ids := []string{}
	if p.ID != nil {
		ids = append(ids, p.ID.String())
	}
	v["id"] = ids
	ty := []string{}
	for _, t := range p.Type {
		ty = append(ty, t.String())
	}
	v["types"] = ty
	return v
}

// ---------------------------------------------------------------- running one verification

type c01Call struct {
	kind           string // "vc" | "vp"
	text           string // document as received (JSON text or compact JWT)
	at             *int64 // seconds; nil = now
	allowUntrusted bool
	checkSig       bool // vc: checkSignature; vp: verifyVCs
	label, base    string
	mut, path      string
	via            string            // "" = verifier.Verify / VerifyVP directly, "api" = the REST API wrapper's handlers, "sig" = VerifySignature only
	ver            verifier.Verifier // nil = the verifier node's long-lived instance
	option         *bool             // api: allowUntrustedIssuer (vc) / verifyCredentials (vp)
}

func (n *c01Nodes) run(o *c01Out, c c01Call) string {
	tb := &c01Tables{urls: map[string]any{}, dids: map[string]any{}}
	op := map[string]any{"op": c.kind, "label": c.label, "base": c.base, "mut": c.mut, "path": c.path,
		"allowUntrusted": c.allowUntrusted, "checkSig": c.checkSig, "now": time.Now().UnixMilli(), "storeFails": n.fstore.fail || n.fstore.failInner, "storeFault": map[bool]string{true: "inside-leia-store", false: ""}[n.fstore.failInner]}
	if c.via != "" {
		op["via"] = c.via
		op["option"] = nil
		if c.option != nil {
			op["option"] = *c.option
		}
	}
	api := vcrapi.Wrapper{VCR: c01VCR{n: n}}
	var at *time.Time
	if c.at != nil {
		t := time.Unix(*c.at, 0)
		at = &t
		op["at"] = *c.at * 1000
	} else {
		op["at"] = nil
	}
	line := ""
	func() {
		defer func() {
			if r := recover(); r != nil {
				line = "panic"
				o.stats["panic"]++
			}
		}()
		switch c.kind {
		case "vc":
			cred, err := vc.ParseVerifiableCredential(c.text)
			if err != nil {
				op["doc"] = nil
				line = "unparseable"
				return
			}
			op["doc"] = n.w.viewVC(*cred, tb)
			if c.via == "api" {
				req := vcrapi.VerifyVCRequestObject{Body: &vcrapi.VerifyVCJSONRequestBody{VerifiableCredential: *cred}}
				if c.option != nil {
					req.Body.VerificationOptions = &vcrapi.VCVerificationOptions{AllowUntrustedIssuer: c.option}
				}
				resp, herr := api.VerifyVC(n.w.ctx, req)
				err = herr
				op["apiStatus"] = "error"
				if r, ok := resp.(vcrapi.VerifyVC200JSONResponse); ok && herr == nil {
					op["apiStatus"] = "200"
					op["apiValidity"] = r.Validity
					if !r.Validity {
						msg := "invalid without message"
						if r.Message != nil {
							msg = *r.Message
						}
						err = errors.New(msg)
					}
				}
			} else if c.via == "sig" {
				err = n.ver.VerifySignature(*cred, at)
			} else if c.ver != nil {
				err = c.ver.Verify(*cred, c.allowUntrusted, c.checkSig, at)
			} else {
				err = n.ver.Verify(*cred, c.allowUntrusted, c.checkSig, at)
			}
			if err != nil && os.Getenv("VERIF_DEBUG") != "" {
				op["err"] = err.Error()
			}
			line = c01Class(err)
		case "vp":
			vp, err := vc.ParseVerifiablePresentation(c.text)
			if err != nil {
				op["doc"] = nil
				line = "unparseable"
				return
			}
			op["doc"] = n.w.viewVP(*vp, tb)
			var got []vc.VerifiableCredential
			if c.via == "api" {
				req := vcrapi.VerifyVPRequestObject{Body: &vcrapi.VerifyVPJSONRequestBody{VerifiablePresentation: *vp, VerifyCredentials: c.option}}
				if at != nil {
					s := at.UTC().Format(time.RFC3339)
					req.Body.ValidAt = &s
				}
				resp, herr := api.VerifyVP(n.w.ctx, req)
				err = herr
				op["apiStatus"] = "error"
				if r, ok := resp.(vcrapi.VerifyVP200JSONResponse); ok && herr == nil {
					op["apiStatus"] = "200"
					op["apiValidity"] = r.Validity
					if r.Validity && r.Credentials != nil {
						got = *r.Credentials
					}
					if !r.Validity {
						msg := "invalid without message"
						if r.Message != nil {
							msg = *r.Message
						}
						err = errors.New(msg)
					}
				}
			} else {
				got, err = n.ver.VerifyVP(*vp, c.checkSig, c.allowUntrusted, at)
			}
			if err != nil && os.Getenv("VERIF_DEBUG") != "" {
				op["err"] = err.Error()
			}
			line = c01Class(err)
			if err == nil {
				line += " n=" + strconv.Itoa(len(got))
			}
		}
	}()
	op["urls"], op["dids"] = tb.urls, tb.dids
	if os.Getenv("VERIF_KEEP_TEXT") != "" || c.mut == "" {
		op["text"] = c.text
	} else {
		op["text"] = c.text // replay needs the document; kept (documents are a few KB)
	}
	o.emit(op, line)
	o.stats[c.kind+":"+strings.SplitN(line, " ", 2)[0]]++
	return line
}

// deepening round 3: one step of the first loop of auth/api/iam handleS2SAccessTokenRequest on a presentation: the real
// validateS2SPresentationMaxValidity and validatePresentationSigner(presentation, expected). Returns the subject to thread on, "" on refusal.
func (n *c01Nodes) runS2S(o *c01Out, text, expected, label string) string {
	tb := &c01Tables{urls: map[string]any{}, dids: map[string]any{}}
	op := map[string]any{"op": "s2s-vp", "label": label, "expected": expected, "text": text, "now": time.Now().UnixMilli(), "at": nil}
	line, next := "", ""
	func() {
		defer func() {
			if r := recover(); r != nil {
				line = "panic"
			}
		}()
		vp, err := vc.ParseVerifiablePresentation(text)
		if err != nil {
			op["doc"] = nil
			line = "unparseable"
			return
		}
		op["doc"] = n.w.viewVP(*vp, tb)
		validity := "ok"
		if err := iam.VerifValidateS2SPresentationMaxValidity(*vp); err != nil {
			switch {
			case strings.Contains(err.Error(), "missing creation or expiration"):
				validity = "missing-date"
			case strings.Contains(err.Error(), "valid for too long"):
				validity = "too-long"
			default:
				validity = "other-error"
			}
		}
		var exp did.DID
		if expected != "" {
			exp = did.MustParseDID(expected)
		}
		signer := ""
		d, err := iam.VerifValidatePresentationSigner(*vp, exp)
		switch {
		case err == nil && d != nil:
			signer = d.String()
			if validity == "ok" {
				next = signer
			}
		case err == nil:
			signer = "nil"
		case err.Error() == "presentation signer is not credential subject":
			signer = "err:not-subject"
		case err.Error() == "not all presentations have the same credential subject ID":
			signer = "err:not-same"
		default:
			signer = "err:resolve"
		}
		line = "validity=" + validity + " signer=" + signer
	}()
	op["urls"], op["dids"] = tb.urls, tb.dids
	o.emit(op, line)
	return next
}

// deepening round 3: one RegisterRevocation call on a scratch verifier (own empty leia store; the node's resolver, key resolver and JSON-LD
// engine), followed by IsRevoked for the revocation's subject. The view carries what the model's registerRevocation reads, the signature
// outcome is measured per key of the world.
func (n *c01Nodes) regRev(o *c01Out, label string, rev credential.Revocation) {
	tb := &c01Tables{urls: map[string]any{}, dids: map[string]any{}}
	text, _ := json.Marshal(rev)
	op := map[string]any{"op": "regrev", "label": label, "text": string(text), "now": time.Now().UnixMilli(), "at": nil}
	line := ""
	func() {
		defer func() {
			if r := recover(); r != nil {
				line = "panic"
			}
		}()
		typeOK := false
		for _, t := range rev.Type {
			if t == credential.RevocationType {
				typeOK = true
			}
		}
		view := map[string]any{"subject": rev.Subject.String(), "fragment": rev.Subject.Fragment, "hasContext": len(rev.Context) != 0, "typeOK": typeOK,
			"issuer": rev.Issuer.String(), "date": ms(rev.Date), "hasProof": rev.Proof != nil, "vm": "", "proofDecodes": false}
		var sigKeys []string
		if rev.Proof != nil {
			vm := rev.Proof.VerificationMethod.String()
			view["vm"] = vm
			tb.url(vm)
			sd := proof.SignedDocument{}
			ldp := proof.LDProof{}
			if json.Unmarshal(text, &sd) == nil && sd.UnmarshalProofValue(&ldp) == nil {
				view["proofDecodes"] = true
				for _, name := range n.w.order {
					if ldp.Verify(sd.DocumentWithoutProof(), signature.JSONWebSignature2020{ContextLoader: n.w.loader}, n.w.keys[name]) == nil {
						sigKeys = append(sigKeys, name)
					}
				}
			}
		}
		view["sigKeys"] = sigKeys
		op["rev"] = view
		dir := testio.TestDirectory(n.w.t)
		st, err := verifier.NewLeiaVerifierStore(path.Join(dir, "rr.db"), storage.CreateTestBBoltStore(n.w.t, path.Join(dir, "rrb.db")))
		if err != nil {
			n.w.t.Fatal(err)
		}
		defer st.Close()
		v := verifier.NewVerifier(st, n.w, n.kr, n.w.ldm, nil, revocation.NewStatusList2021(nil, nil, ""))
		n.w.asOf = time.Now().UnixMilli()
		err = v.RegisterRevocation(rev)
		switch {
		case err == nil:
			line = "ok"
		case strings.Contains(err.Error(), "validation failed"):
			line = "rejected:invalid"
		case err.Error() == "issuer of revocation is not the same as issuer of credential":
			line = "rejected:issuer-not-credential-issuer"
		case err.Error() == "verification method is not of issuer":
			line = "rejected:vm-not-of-issuer"
		case strings.HasPrefix(err.Error(), "unable to resolve key for revocation"):
			line = "rejected:no-key"
		case strings.HasPrefix(err.Error(), "unable to verify revocation signature"):
			line = "rejected:bad-signature"
		case strings.HasPrefix(err.Error(), "unable to store revocation"):
			line = "rejected:store"
		default:
			line = "rejected:proof-malformed"
		}
		revoked, rerr := v.IsRevoked(rev.Subject)
		line += " revoked=" + strconv.FormatBool(revoked)
		if rerr != nil {
			line += "+error"
		}
	}()
	op["urls"], op["dids"] = tb.urls, tb.dids
	o.emit(op, line)
}

// ---------------------------------------------------------------- mutation engine (generic JSON trees)

type c01Mut struct {
	kind, path string
	tree       any    // mutated tree (nil when text is set)
	text       string // spliced text
}

func deepCopy(v any) any {
	switch x := v.(type) {
	case map[string]any:
		m := make(map[string]any, len(x))
		for k, e := range x {
			m[k] = deepCopy(e)
		}
		return m
	case []any:
		l := make([]any, len(x))
		for i, e := range x {
			l[i] = deepCopy(e)
		}
		return l
	}
	return v
}

// at returns the node at path (sequence of keys / indexes) inside root
func nodeAt(root any, p []any) any {
	cur := root
	for _, s := range p {
		switch k := s.(type) {
		case string:
			cur = cur.(map[string]any)[k]
		case int:
			cur = cur.([]any)[k]
		}
	}
	return cur
}

func pathStr(p []any) string {
	var sb strings.Builder
	for _, s := range p {
		switch k := s.(type) {
		case string:
			sb.WriteString("/" + k)
		case int:
			sb.WriteString("/" + strconv.Itoa(k))
		}
	}
	if sb.Len() == 0 {
		return "/"
	}
	return sb.String()
}

func altString(s string, rnd *rand.Rand) []string {
	if t, err := time.Parse(time.RFC3339Nano, s); err == nil {
		return []string{t.Add(time.Second).Format(time.RFC3339Nano), t.Add(-24 * time.Hour).Format(time.RFC3339Nano),
			t.Add(24 * time.Hour * 400).Format(time.RFC3339Nano), t.UTC().Format("2006-01-02T15:04:05.000Z07:00"),
			t.In(time.FixedZone("x", 3600)).Format(time.RFC3339Nano)}
	}
	if strings.HasPrefix(s, "did:") {
		alts := []string{didO, "https://example.com/not-a-did", didH, didJ, didU, s + "x"}
		if i := strings.Index(s, "#"); i >= 0 {
			alts = []string{didO + s[i:], s + "x", s[:i] + "#k2", s[:i], didI + "#k3"}
		}
		var r []string
		for _, a := range alts {
			if a != s {
				r = append(r, a)
			}
		}
		return r[:min(len(r), 4)]
	}
	if strings.HasPrefix(s, "ey") && strings.Count(s, ".") == 2 { // embedded JWT: handled by the JWT mutator, here only a blunt change
		return []string{s[:len(s)-2] + "AA"}
	}
	return []string{s + "x", ""}
}

func foldVariants(k string) []string {
	set := map[string]bool{}
	add := func(s string) {
		if s != k && strings.EqualFold(s, k) {
			set[s] = true
		}
	}
	add(strings.ToLower(k))
	add(strings.ToUpper(k))
	if len(k) > 0 {
		r := []rune(k)
		if unicode.IsUpper(r[0]) {
			r[0] = unicode.ToLower(r[0])
		} else {
			r[0] = unicode.ToUpper(r[0])
		}
		add(string(r))
	}
	add(strings.ReplaceAll(k, "s", "ſ"))
	add(strings.ReplaceAll(k, "k", "K"))
	add(strings.ReplaceAll(k, "K", "K"))
	var l []string
	for s := range set {
		l = append(l, s)
	}
	sort.Strings(l)
	return l
}

func altValue(v any, rnd *rand.Rand) any {
	switch x := v.(type) {
	case string:
		return altString(x, rnd)[0]
	case float64:
		return x + 1
	case bool:
		return !x
	case []any:
		if len(x) > 0 {
			return x[:len(x)-1]
		}
		return []any{"x"}
	case map[string]any:
		return map[string]any{}
	}
	return "x"
}

// mutations enumerates single-point mutations of every member at every depth
func mutations(root any, rnd *rand.Rand, extraAdds map[string][]any) []c01Mut {
	var out []c01Mut
	emit := func(kind string, p []any, f func(cp any)) {
		cp := deepCopy(root)
		f(cp)
		out = append(out, c01Mut{kind: kind, path: pathStr(p), tree: cp})
	}
	var walk func(v any, p []any)
	walk = func(v any, p []any) {
		switch x := v.(type) {
		case map[string]any:
			keys := make([]string, 0, len(x))
			for k := range x {
				keys = append(keys, k)
			}
			sort.Strings(keys)
			// add an undefined member
			emit("add-undefined", append(append([]any{}, p...), "zzUndefined"), func(cp any) { nodeAt(cp, p).(map[string]any)["zzUndefined"] = "u" })
			for name, vals := range extraAdds {
				parts := strings.Split(name, "|") // "<path>|<member>"
				if parts[0] != pathStr(p) {
					continue
				}
				if _, exists := x[parts[1]]; exists {
					continue
				}
				for i, val := range vals {
					val := val
					emit("add-member#"+strconv.Itoa(i), append(append([]any{}, p...), parts[1]), func(cp any) { nodeAt(cp, p).(map[string]any)[parts[1]] = deepCopy(val) })
				}
			}
			for _, k := range keys {
				k := k
				kp := append(append([]any{}, p...), k)
				emit("del", kp, func(cp any) { delete(nodeAt(cp, p).(map[string]any), k) })
				emit("rename", kp, func(cp any) {
					m := nodeAt(cp, p).(map[string]any)
					m[k+"X"] = m[k]
					delete(m, k)
				})
				for _, fv := range foldVariants(k) {
					fv := fv
					emit("fold-add:"+fv, kp, func(cp any) { nodeAt(cp, p).(map[string]any)[fv] = altValue(x[k], rnd) })
					emit("fold-rename:"+fv, kp, func(cp any) {
						m := nodeAt(cp, p).(map[string]any)
						m[fv] = m[k]
						delete(m, k)
					})
				}
				switch val := x[k].(type) {
				case string:
					for i, a := range altString(val, rnd) {
						a := a
						emit("value#"+strconv.Itoa(i), kp, func(cp any) { nodeAt(cp, p).(map[string]any)[k] = a })
					}
					emit("retype", kp, func(cp any) { nodeAt(cp, p).(map[string]any)[k] = 5.0 })
					emit("wrap", kp, func(cp any) { nodeAt(cp, p).(map[string]any)[k] = []any{val} })
				case float64:
					emit("value#0", kp, func(cp any) { nodeAt(cp, p).(map[string]any)[k] = val + 1 })
					emit("value#1", kp, func(cp any) { nodeAt(cp, p).(map[string]any)[k] = val - 100000 })
					emit("value#2", kp, func(cp any) { nodeAt(cp, p).(map[string]any)[k] = val + 100000 })
					emit("retype", kp, func(cp any) { nodeAt(cp, p).(map[string]any)[k] = "5" })
				case bool:
					emit("value#0", kp, func(cp any) { nodeAt(cp, p).(map[string]any)[k] = !val })
				case nil:
					emit("value#0", kp, func(cp any) { nodeAt(cp, p).(map[string]any)[k] = "x" })
				case map[string]any:
					emit("wrap", kp, func(cp any) { nodeAt(cp, p).(map[string]any)[k] = []any{val} })
					emit("retype", kp, func(cp any) { nodeAt(cp, p).(map[string]any)[k] = "x" })
				case []any:
					if len(val) == 1 {
						emit("unwrap", kp, func(cp any) { nodeAt(cp, p).(map[string]any)[k] = val[0] })
					}
					emit("retype", kp, func(cp any) { nodeAt(cp, p).(map[string]any)[k] = "x" })
				}
				walk(x[k], kp)
			}
		case []any:
			for i := range x {
				i := i
				ip := append(append([]any{}, p...), i)
				setParent := func(cp any, nv []any) {
					if len(p) == 0 {
						return
					}
					par := nodeAt(cp, p[:len(p)-1])
					switch k := p[len(p)-1].(type) {
					case string:
						par.(map[string]any)[k] = nv
					case int:
						par.([]any)[k] = nv
					}
				}
				emit("elem-del", ip, func(cp any) {
					l := nodeAt(cp, p).([]any)
					setParent(cp, append(append([]any{}, l[:i]...), l[i+1:]...))
				})
				emit("elem-dup", ip, func(cp any) {
					l := nodeAt(cp, p).([]any)
					setParent(cp, append(append([]any{}, l...), deepCopy(l[i])))
				})
				if i+1 < len(x) {
					emit("elem-swap", ip, func(cp any) {
						l := nodeAt(cp, p).([]any)
						l[i], l[i+1] = l[i+1], l[i]
					})
				}
				if s, ok := x[i].(string); ok {
					for j, a := range altString(s, rnd) {
						a := a
						emit("value#"+strconv.Itoa(j), ip, func(cp any) { nodeAt(cp, p).([]any)[i] = a })
					}
				}
				walk(x[i], ip)
			}
			ap := append(append([]any{}, p...), len(x))
			emit("elem-add", ap, func(cp any) {
				l := nodeAt(cp, p).([]any)
				var nv any = "zzExtra"
				if len(l) > 0 {
					if _, isStr := l[0].(string); !isStr {
						nv = map[string]any{"zzUndefined": "u"}
					}
				}
				if len(p) > 0 {
					par := nodeAt(cp, p[:len(p)-1])
					switch k := p[len(p)-1].(type) {
					case string:
						par.(map[string]any)[k] = append(l, nv)
					case int:
						par.([]any)[k] = append(l, nv)
					}
				}
			})
		}
	}
	walk(root, nil)
	return out
}

// dupKeySplices appends a second occurrence of every top-level member (encoding/json: last wins)
func dupKeySplices(text string, root map[string]any, rnd *rand.Rand) []c01Mut {
	var out []c01Mut
	trim := strings.TrimSpace(text)
	if !strings.HasSuffix(trim, "}") {
		return nil
	}
	keys := make([]string, 0, len(root))
	for k := range root {
		keys = append(keys, k)
	}
	sort.Strings(keys)
	for _, k := range keys {
		kb, _ := json.Marshal(k)
		vb, _ := json.Marshal(altValue(root[k], rnd))
		out = append(out, c01Mut{kind: "dup-key", path: "/" + k, text: trim[:len(trim)-1] + "," + string(kb) + ":" + string(vb) + "}"})
	}
	return out
}

func mustJSON(v any) string {
	var buf bytes.Buffer
	enc := json.NewEncoder(&buf)
	enc.SetEscapeHTML(false)
	if err := enc.Encode(v); err != nil {
		panic(err)
	}
	return strings.TrimSpace(buf.String())
}

// ---------------------------------------------------------------- JWT helpers

func jwtParts(raw string) (hdr, pl map[string]any, sig string, ok bool) {
	parts := strings.Split(raw, ".")
	if len(parts) != 3 {
		return nil, nil, "", false
	}
	hb, err1 := base64.RawURLEncoding.DecodeString(parts[0])
	pb, err2 := base64.RawURLEncoding.DecodeString(parts[1])
	if err1 != nil || err2 != nil || json.Unmarshal(hb, &hdr) != nil || json.Unmarshal(pb, &pl) != nil {
		return nil, nil, "", false
	}
	return hdr, pl, parts[2], true
}

func jwtJoin(hdr, pl any, sig string) string {
	return base64.RawURLEncoding.EncodeToString([]byte(mustJSON(hdr))) + "." + base64.RawURLEncoding.EncodeToString([]byte(mustJSON(pl))) + "." + sig
}

// ---------------------------------------------------------------- the test

// ---------------------------------------------------------------- deepening round: caseVariantMember / ambiguousMember as a function

// c01Tree encodes a decoded JSON value for the model: null = leaf, {"o": [[foldedName, child], ...]} (members sorted by raw name),
// {"a": [...]}; the folded names come from the real foldRune (unicode.SimpleFold orbits are a library contract)
func c01Tree(v any) any {
	switch x := v.(type) {
	case map[string]any:
		names := make([]string, 0, len(x))
		for k := range x {
			names = append(names, k)
		}
		sort.Strings(names)
		ms := []any{}
		for _, k := range names {
			ms = append(ms, []any{strings.Map(verifier.VerifFoldRune, k), c01Tree(x[k])})
		}
		return map[string]any{"o": ms}
	case []any:
		xs := []any{}
		for _, e := range x {
			xs = append(xs, c01Tree(e))
		}
		return map[string]any{"a": xs}
	}
	return nil
}

func c01CaseVariantOp(o *c01Out, label, text, into string) {
	op := map[string]any{"op": "case-variant", "label": label, "text": text, "into": into}
	var doc map[string]any
	if err := json.Unmarshal([]byte(text), &doc); err != nil {
		o.emit(op, "unparseable")
		return
	}
	var target any
	switch into {
	case "vc":
		target = vc.VerifiableCredential{}
	case "*vp":
		target = &vc.VerifiablePresentation{}
	case "**vc":
		p := &vc.VerifiableCredential{}
		target = &p
	case "map":
		target = map[string]any{}
	default:
		target = nil
	}
	// the json names of the struct the document was decoded into, and per top-level member the names it is EqualFold to
	fields := []string{}
	st := reflect.TypeOf(target)
	for st != nil && st.Kind() == reflect.Pointer {
		st = st.Elem()
	}
	if st != nil && st.Kind() == reflect.Struct {
		for i := 0; i < st.NumField(); i++ {
			name, _, _ := strings.Cut(st.Field(i).Tag.Get("json"), ",")
			if name != "" && name != "-" {
				fields = append(fields, name)
			}
		}
	}
	members := make([]string, 0, len(doc))
	for k := range doc {
		members = append(members, k)
	}
	sort.Strings(members)
	top := []any{}
	for _, m := range members {
		eq := []string{}
		for _, f := range fields {
			if strings.EqualFold(m, f) {
				eq = append(eq, f)
			}
		}
		top = append(top, []any{m, eq})
	}
	op["fields"], op["top"], op["tree"] = fields, top, c01Tree(doc)
	line := "clean"
	func() {
		defer func() {
			if r := recover(); r != nil {
				line = "panic"
			}
		}()
		if verifier.VerifCaseVariantMember(proof.SignedDocument(doc), target) != "" {
			line = "variant"
		}
	}()
	o.emit(op, line)
}

func c01CaseVariantLeg(o *c01Out, rnd *rand.Rand, n int) {
	pool := []string{"id", "ID", "Id", "issuer", "Issuer", "type", "TYPE", "proof", "Proof", "credentialSubject", "credentialsubject", "holder", "Holder",
		"verifiableCredential", "VerifiableCredential", "name", "Name", "NAME", "\u017f", "S", "s", "\u212a", "k", "K", "x1", "x2", "@context", "@Context", "issuanceDate", "expirationdate"}
	var gen func(depth int) any
	gen = func(depth int) any {
		switch k := rnd.Intn(7); {
		case depth > 0 && k <= 2:
			m := map[string]any{}
			for i, nm := 0, rnd.Intn(4); i < nm; i++ {
				m[pool[rnd.Intn(len(pool))]] = gen(depth - 1)
			}
			return m
		case depth > 0 && k == 3:
			l := []any{}
			for i, nm := 0, rnd.Intn(3); i < nm; i++ {
				l = append(l, gen(depth-1))
			}
			return l
		case k == 4:
			return nil
		case k == 5:
			return rnd.Intn(10)
		}
		return "v"
	}
	intos := []string{"vc", "vc", "*vp", "**vc", "map", "nil"}
	for i := 0; i < n; i++ {
		doc := map[string]any{}
		// mostly distinct-folding top-level names so that clean documents are frequent; the variants come from depth
		for j, nm := 0, 1+rnd.Intn(4); j < nm; j++ {
			name := pool[rnd.Intn(len(pool))]
			if rnd.Intn(3) != 0 {
				name = []string{"id", "issuer", "type", "proof", "credentialSubject", "@context", "x1", "x2", "holder"}[rnd.Intn(9)]
			}
			doc[name] = gen(3)
		}
		c01CaseVariantOp(o, "case-variant", mustJSON(doc), intos[rnd.Intn(len(intos))])
	}
}

// ---------------------------------------------------------------- deepening round 3: the revocation lookup on the real leia store

// c01RevLeg runs leiaVerifierStore.GetRevocations, verifier.IsRevoked and verifier.GetRevocation on a real store that holds, for the
// op's credential id, the given documents (decodable ones through StoreRevocation, undecodable ones inserted raw), next to revocations of
// look-alike ids; `fault` reads from a real store whose database is closed.
type c01RevLeg struct {
	open, closed verifier.Store
	n            int
	tag          string
}

func newC01RevLeg(t *testing.T, tag string) *c01RevLeg {
	dir := testio.TestDirectory(t)
	mk := func(name string) verifier.Store {
		s, err := verifier.NewLeiaVerifierStore(path.Join(dir, name+".db"), storage.CreateTestBBoltStore(t, path.Join(dir, name+"-b.db")))
		if err != nil {
			t.Fatal(err)
		}
		return s
	}
	r := &c01RevLeg{open: mk("revleg"), closed: mk("revleg-closed"), tag: tag}
	_ = r.closed.Close()
	t.Cleanup(func() { _ = r.open.Close() })
	return r
}

func (r *c01RevLeg) op(o *c01Out, label string, docs []bool, fault, near bool) {
	r.n++
	op := map[string]any{"op": "revstore", "label": label, "docs": docs, "fault": fault, "near": near}
	line := func() (line string) {
		defer func() {
			if p := recover(); p != nil {
				line = "panic:revstore"
			}
		}()
		id := "urn:verif:rev:" + r.tag + strconv.Itoa(r.n) + ":x"
		add := func(subject string, i int, decodes bool) {
			if decodes {
				if err := r.open.StoreRevocation(credential.Revocation{Issuer: ssi.MustParseURI("did:x:i"), Subject: ssi.MustParseURI(subject), Reason: strconv.Itoa(i), Date: time.Unix(1700000000+int64(i), 0).UTC()}); err != nil {
					panic(err)
				}
				return
			}
			bad := []string{`"not-a-date"`, `12`, `"2023-13-45T00:00:00Z"`}[i%3]
			if err := verifier.VerifAddRawRevocation(r.open, []byte(`{"issuer":"did:x:i","subject":"`+subject+`","reason":"`+strconv.Itoa(i)+`","date":`+bad+`}`)); err != nil {
				panic(err)
			}
		}
		for i, d := range docs {
			add(id, i, d)
		}
		if near {
			add(id+"y", 100, true)
			add(strings.TrimSuffix(id, "x"), 101, true)
			add(strings.ToUpper(id), 102, true)
			add(strings.TrimSuffix(id, ":x"), 103, false)
		}
		st := r.open
		if fault {
			st = r.closed
		}
		uri := ssi.MustParseURI(id)
		revs, err := st.GetRevocations(uri)
		get := ""
		switch {
		case err == nil:
			get = "found:" + strconv.Itoa(len(revs))
			for _, rv := range revs {
				if rv == nil || rv.Subject.String() != id {
					get += "!foreign"
				}
			}
		case errors.Is(err, verifier.ErrNotFound):
			get = "not-found"
		case strings.HasPrefix(err.Error(), "error while getting revocation by id"):
			get = "read-error"
		default:
			get = "decode-error"
		}
		v := verifier.VerifRevLookup(st)
		revoked, err := v.IsRevoked(uri)
		rs := strconv.FormatBool(revoked)
		if err != nil {
			rs = "error"
			if revoked {
				rs = "error+true"
			}
		}
		one := "ok"
		func() {
			defer func() {
				if p := recover(); p != nil {
					one = "panic"
				}
			}()
			if rv, err := v.GetRevocation(uri); err != nil {
				one = "err"
			} else if rv == nil || rv.Subject.String() != id {
				one = "ok!foreign"
			}
		}()
		return "get=" + get + " revoked=" + rs + " one=" + one
	}()
	o.emit(op, line)
}

func c01RevStoreLeg(t *testing.T, o *c01Out, rnd *rand.Rand, n int) {
	r := newC01RevLeg(t, "g")
	// every shape once, then random ones
	fixed := []struct {
		docs        []bool
		fault, near bool
	}{{nil, false, false}, {nil, false, true}, {nil, true, false}, {[]bool{true}, false, false}, {[]bool{true}, true, true}, {[]bool{false}, false, false},
		{[]bool{true, true}, false, true}, {[]bool{true, false}, false, false}, {[]bool{false, true}, false, true}, {[]bool{true, true, true, false}, false, false}}
	for _, f := range fixed {
		r.op(o, "revstore", f.docs, f.fault, f.near)
	}
	for i := len(fixed); i < n; i++ {
		var docs []bool
		for j, k := 0, []int{0, 0, 1, 1, 2, 3, 5}[rnd.Intn(7)]; j < k; j++ {
			docs = append(docs, rnd.Intn(4) != 0)
		}
		r.op(o, "revstore", docs, rnd.Intn(5) == 0, rnd.Intn(2) == 0)
	}
}

func TestVerifC01(t *testing.T) {
	outDir := os.Getenv("VERIF_OUT")
	if outDir == "" {
		t.Skip("VERIF_OUT not set")
	}
	logrus.SetLevel(logrus.PanicLevel)
	if dn, err := os.OpenFile(os.DevNull, os.O_WRONLY, 0); err == nil && os.Getenv("VERIF_DEBUG") == "" {
		os.Stderr = dn // the audit logger (created lazily) writes every signing operation to stderr
	}
	seed, _ := strconv.ParseInt(os.Getenv("VERIF_SEED"), 10, 64)
	thorough := os.Getenv("VERIF_TIER") == "thorough"
	rnd := rand.New(rand.NewSource(seed*7919 + 1))
	opsF, err := os.Create(path.Join(outDir, "ops.jsonl"))
	if err != nil {
		t.Fatal(err)
	}
	defer opsF.Close()
	implF, err := os.Create(path.Join(outDir, "impl.out"))
	if err != nil {
		t.Fatal(err)
	}
	defer implF.Close()
	o := &c01Out{ops: opsF, impl: implF, stats: map[string]int{}}

	if rp := os.Getenv("VERIF_REPLAY"); rp != "" {
		newC01Nodes(t).replay(o, rp, "")
		return
	}
	if dir := os.Getenv("VERIF_CORPUS"); dir != "" {
		// past witnesses first, each on nodes of its own (keys are deterministic, so their documents still verify)
		files, _ := os.ReadDir(dir)
		for _, f := range files {
			if strings.HasSuffix(f.Name(), ".jsonl") {
				newC01Nodes(t).replay(o, path.Join(dir, f.Name()), "corpus:"+strings.TrimSuffix(f.Name(), ".jsonl")+":")
				o.emit(map[string]any{"op": "reset"}, "reset")
			}
		}
	}
	n := newC01Nodes(t)
	n.generate(o, rnd, thorough)
	c01CaseVariantLeg(o, rnd, map[bool]int{false: 600, true: 5000}[thorough])
	c01RevStoreLeg(t, o, rnd, map[bool]int{false: 150, true: 1200}[thorough])
	statusScenario(t, o, rnd, "", true)
	statusScenario(t, o, rnd, "fold-after-cache", false)
	statusScenario(t, o, rnd, "down-after-cache", false)
	statusScenario(t, o, rnd, "down-cold", false)
	statusScenario(t, o, rnd, "revoke-late", false)
	statusScenario(t, o, rnd, "stale-expired", false)
	statusScenario(t, o, rnd, "stale-future", false)
	sb, _ := json.Marshal(o.stats)
	os.WriteFile(path.Join(outDir, "stats.json"), sb, 0o644)
}

func newC01Nodes(t *testing.T) *c01Nodes {
	ctx := audit.TestContext()
	backend := nutsCrypto.NewMemoryStorage()
	// the key store shares the issuer node's SQL database (the status list issuer signs inside its own SQL transaction)
	iEng := storage.NewTestStorageEngine(t)
	idb := iEng.GetSQLDatabase()
	w := &c01World{t: t, ctx: ctx, backend: backend, ks: nutsCrypto.NewTestCryptoInstance(idb, backend), kinds: map[string]string{}, keys: map[string]crypto.PublicKey{}, hist: map[string][]c01Version{}, docs: map[string]*did.Document{}}
	w.ldm = jsonld.NewTestJSONLDManager(t)
	w.loader = w.ldm.DocumentLoader()
	T := func(s int64) int64 { return (c01T0 + s) * 1000 }
	// issuer I: k1 from the start, k2 added at +1000, k1 removed at +2000, k1's id re-bound to other key material at +3000; k3 only for authentication
	i1, i2, i3, i1b := w.newKey(didI+"#k1"), w.newKey(didI+"#k2"), w.newKey(didI+"#k3"), w.newKey(didI+"#k1b")
	i4, i5 := w.newKey(didI+"#k4"), w.newKey(didI+"#k5") // #k4: capabilityInvocation only, #k5: keyAgreement only
	w.hist[didI] = []c01Version{
		{From: T(-1000), Assert: [][2]string{{didI + "#k1", i1}}, Auth: [][2]string{{didI + "#k1", i1}, {didI + "#k3", i3}},
			CapInv: [][2]string{{didI + "#k4", i4}}, KeyAgr: [][2]string{{didI + "#k5", i5}}},
		{From: T(1000), Assert: [][2]string{{didI + "#k1", i1}, {didI + "#k2", i2}}, Auth: [][2]string{{didI + "#k3", i3}}},
		{From: T(2000), Assert: [][2]string{{didI + "#k2", i2}}, Auth: [][2]string{{didI + "#k3", i3}}},
		{From: T(3000), Assert: [][2]string{{didI + "#k2", i2}, {didI + "#k1", i1b}}, Auth: [][2]string{{didI + "#k3", i3}}},
	}
	// issuer J: signs with #k10 at first; later a key whose id (#k1) is a PREFIX of that id is listed before it
	// (key ids are compared for equality, not by prefix)
	j1, j10 := w.newKey(didJ+"#k1"), w.newKey(didJ+"#k10")
	w.hist[didJ] = []c01Version{{From: T(-1000), Assert: [][2]string{{didJ + "#k10", j10}}},
		{From: T(110), Assert: [][2]string{{didJ + "#k1", j1}, {didJ + "#k10", j10}}}}
	for _, la := range []string{didIp, didIx, didJp, didJx, didRt, didJc, didIc} {
		w.hist[la] = []c01Version{{From: T(-1000), Assert: [][2]string{{la + "#k1", w.newKey(la + "#k1")}}}}
	}
	// issuer B: @base document; #k1 assertion; #k2 authentication ONLY; #k3 assertion at first, demoted to authentication at +1500
	// (it stays in verificationMethod)
	b1, b2, b3 := w.newKey(didB+"#k1"), w.newKey(didB+"#k2"), w.newKey(didB+"#k3")
	w.hist[didB] = []c01Version{
		{From: T(-1000), Base: didB, Assert: [][2]string{{"#k1", b1}, {"#k3", b3}}, Auth: [][2]string{{"#k2", b2}}},
		{From: T(1500), Base: didB, Assert: [][2]string{{"#k1", b1}}, Auth: [][2]string{{"#k2", b2}, {"#k3", b3}}},
	}
	w.hist[didE] = []c01Version{{From: T(-1000), Assert: [][2]string{{didE + "#k1", w.newKeyOn(didE+"#k1", elliptic.P384())}}}}
	h1 := w.newKey(didH + "#k1")
	w.hist[didH] = []c01Version{{From: T(-1000), Assert: [][2]string{{didH + "#k1", h1}}, Auth: [][2]string{{didH + "#k2", w.newKey(didH + "#k2")}}}} // #k2: authentication only
	o1 := w.newKey(didO + "#k1")
	// the other party's document also lists an assertion method whose id names the issuer's key id (bound to its own key)
	w.hist[didO] = []c01Version{{From: T(-1000), Assert: [][2]string{{didO + "#k1", o1}, {didI + "#k1", o1}}}}
	d1 := w.newKey(didD + "#k1")
	w.hist[didD] = []c01Version{{From: T(-1000), Assert: [][2]string{{didD + "#k1", d1}}}, {From: T(500), Deact: true, Assert: [][2]string{{didD + "#k1", d1}}}}
	w.asOf = T(100)

	dir := testio.TestDirectory(t)
	kr := resolver.DIDKeyResolver{Resolver: w}
	// verifier node
	vEng := storage.NewTestStorageEngine(t)
	vstore, err := verifier.NewLeiaVerifierStore(path.Join(dir, "vs.db"), storage.CreateTestBBoltStore(t, path.Join(dir, "vsb.db")))
	if err != nil {
		t.Fatal(err)
	}
	vTrust := trust.NewConfig(path.Join(dir, "vtrust.yaml"))
	httpStub := &c01HTTP{zero: map[string]string{}, static: map[string][]byte{}}
	closedStore, err := verifier.NewLeiaVerifierStore(path.Join(dir, "vs-closed.db"), storage.CreateTestBBoltStore(t, path.Join(dir, "vsb-closed.db")))
	if err != nil {
		t.Fatal(err)
	}
	_ = closedStore.Close()
	fstore := &c01FaultStore{Store: vstore, closed: closedStore}
	ver := verifier.NewVerifier(fstore, w, kr, w.ldm, vTrust, revocation.NewStatusList2021(vEng.GetSQLDatabase(), httpStub, ""))
	// issuer node
	storage.AddDIDtoSQLDB(t, idb, did.MustParseDID(didI), did.MustParseDID(didJ), did.MustParseDID(didH), did.MustParseDID(didD))
	istore, err := issuer.NewStore(idb, path.Join(dir, "is.db"), storage.CreateTestBBoltStore(t, path.Join(dir, "isb.db")))
	if err != nil {
		t.Fatal(err)
	}
	pub := &c01Publisher{}
	iTrust := trust.NewConfig(path.Join(dir, "itrust.yaml"))
	iss := issuer.NewIssuer(istore, nil, pub, nil, w, w.ks, w.ldm, iTrust, revocation.NewStatusList2021(idb, nil, "https://issuer.example.com"))
	ivstore, err := verifier.NewLeiaVerifierStore(path.Join(dir, "ivs.db"), storage.CreateTestBBoltStore(t, path.Join(dir, "ivsb.db")))
	if err != nil {
		t.Fatal(err)
	}
	iver := verifier.NewVerifier(ivstore, w, kr, w.ldm, iTrust, revocation.NewStatusList2021(idb, nil, ""))
	wallet := holder.NewSQLWallet(kr, w.ks, iver, w.ldm, iEng)
	n := &c01Nodes{w: w, ver: ver, vTrust: vTrust, iss: iss, pub: pub, wallet: wallet, http: httpStub, vdb: vEng.GetSQLDatabase(), idb: idb,
		vstore: fstore, fstore: fstore, iver: iver, kr: kr, vTrustFile: path.Join(dir, "vtrust.yaml")}
	httpStub.n = n
	return n
}

func (n *c01Nodes) emitWorld(o *c01Out) {
	o.emit(map[string]any{"op": "world", "hist": n.w.hist, "asOf": n.w.asOf, "keyKinds": n.w.kinds}, "world")
}

func (n *c01Nodes) setTrust(o *c01Out, typ, iss string, add bool) {
	var err error
	if add {
		err = n.vTrust.AddTrust(ssi.MustParseURI(typ), ssi.MustParseURI(iss))
	} else {
		err = n.vTrust.RemoveTrust(ssi.MustParseURI(typ), ssi.MustParseURI(iss))
	}
	if err != nil {
		n.w.t.Fatal(err)
	}
	o.emit(map[string]any{"op": "trust", "type": typ, "issuer": iss, "add": add}, "trust")
}

// restartVerifier: the verifier node starts again — a fresh trust.Config loaded from the trust file, a new verifier on the same stores
func (n *c01Nodes) restartVerifier(o *c01Out) {
	tc := trust.NewConfig(n.vTrustFile)
	if err := tc.Load(); err != nil {
		n.w.t.Fatal(err)
	}
	n.vTrust = tc
	n.ver = verifier.NewVerifier(n.vstore, n.w, n.kr, n.w.ldm, tc, revocation.NewStatusList2021(n.vdb, n.http, ""))
	o.emit(map[string]any{"op": "restart"}, "restart")
}

// trustFile: an operator replaces the trust file by a hand-written one (duplicates, any order) and the node starts with it
func (n *c01Nodes) trustFile(o *c01Out, content [][]string) { // rows: type, issuer...
	var sb strings.Builder
	m := map[string][]string{}
	for _, row := range content {
		sb.WriteString(strconv.Quote(row[0]) + ":\n")
		for _, iss := range row[1:] {
			sb.WriteString("  - " + strconv.Quote(iss) + "\n")
		}
		m[row[0]] = row[1:]
	}
	if err := os.WriteFile(n.vTrustFile, []byte(sb.String()), 0o644); err != nil {
		n.w.t.Fatal(err)
	}
	tc := trust.NewConfig(n.vTrustFile)
	if err := tc.Load(); err != nil {
		n.w.t.Fatal(err)
	}
	n.vTrust = tc
	n.ver = verifier.NewVerifier(n.vstore, n.w, n.kr, n.w.ldm, tc, revocation.NewStatusList2021(n.vdb, n.http, ""))
	o.emit(map[string]any{"op": "trustfile", "content": m}, "trustfile")
}

// trustScenario: hand-edited trust files (the same issuer listed more than once, other issuers in between, the issuer under
// several types), then RemoveTrust / AddTrust, Verify with trust required on the running node and after a restart.
func (n *c01Nodes) trustScenario(o *c01Out, rnd *rand.Rand, bases []c01Base, thorough bool) {
	at := c01T0 + 130
	org, human := "NutsOrganizationCredential", "HumanCredential"
	var docs []c01Base
	for _, b := range bases {
		if strings.HasPrefix(b.label, "org:") || strings.HasPrefix(b.label, "human:") || b.label == "vp-ld[org-ld]" || b.label == "vp-jwt[org-ld,plain-jwt]" {
			docs = append(docs, b)
		}
	}
	step := 0
	verifyAll := func(tag string) {
		step++
		for _, b := range docs {
			for _, au := range []bool{false, true} {
				n.run(o, c01Call{kind: b.kind, text: b.text, at: &at, allowUntrusted: au, checkSig: true, label: b.label + "@trustfile" + strconv.Itoa(step) + ":" + tag, base: b.label, mut: "trust", path: tag})
			}
		}
	}
	files := [][][]string{
		{{org, didI, didO, didI}, {human, didI}},
		{{org, didI, didI}, {human, didI, didI}},
		{{org, didI}, {human, didO, didI, didJ, didI, didI}, {"NutsAuthorizationCredential", didO, didI}},
		{{human, didI}, {org, didO, didI, didJ, didI, didI}},
		{{org, didI, didO}, {human, didI}}, // no duplicates
	}
	if thorough {
		for k := 0; k < 12; k++ {
			var rows [][]string
			for _, t := range []string{org, human} {
				row := []string{t}
				for j, m := 0, 1+rnd.Intn(6); j < m; j++ {
					row = append(row, []string{didI, didI, didO, didJ}[rnd.Intn(4)])
				}
				rows = append(rows, row)
			}
			files = append(files, rows)
		}
	}
	for _, f := range files {
		n.trustFile(o, f)
		verifyAll("loaded")
		n.setTrust(o, org, didI, false)
		verifyAll("org-untrusted")
		n.restartVerifier(o)
		verifyAll("org-untrusted-restarted")
		n.setTrust(o, human, didI, false)
		verifyAll("both-untrusted")
		n.setTrust(o, org, didI, true)
		n.restartVerifier(o)
		verifyAll("org-trusted-again")
		n.setTrust(o, org, didI, false)
		n.setTrust(o, org, didI, false) // idempotent
		verifyAll("org-untrusted-again")
	}
	// leave the trust the later scenarios expect
	n.trustFile(o, [][]string{{org, didI}, {human, didI}, {"NutsAuthorizationCredential", didI}})
}

// revoke: the issuer node builds and signs the revocation (issuer.Revoke), the verifier node checks and stores it (RegisterRevocation)
func (n *c01Nodes) revoke(o *c01Out, id string) {
	before := len(n.pub.revs)
	saved := n.w.asOf
	n.w.asOf = time.Now().UnixMilli()
	_, err := n.iss.Revoke(n.w.ctx, ssi.MustParseURI(id))
	n.w.asOf = saved
	line := "revocation:rejected"
	if err == nil && len(n.pub.revs) == before+1 && n.ver.RegisterRevocation(n.pub.revs[before]) == nil {
		line = "revocation:ok"
	}
	o.emit(map[string]any{"op": "revoke", "id": id, "registered": line == "revocation:ok"}, line)
}

type c01Base struct {
	label, kind, text string
	issued            int64 // seconds
	expires           *int64
}

func (n *c01Nodes) issue(tmpl vc.VerifiableCredential, format string, at int64) string {
	return n.issueOpt(tmpl, format, at, false)
}

func (n *c01Nodes) issueOpt(tmpl vc.VerifiableCredential, format string, at int64, withStatus bool) string {
	n.w.asOf = at * 1000
	issuer.TimeFunc = func() time.Time { return time.Unix(at, 0).UTC() }
	defer func() { issuer.TimeFunc = time.Now }()
	c, err := n.iss.Issue(n.w.ctx, tmpl, issuer.CredentialOptions{Format: format, WithStatusListRevocation: withStatus})
	if err != nil {
		n.w.t.Fatalf("issue %s: %v", format, err)
	}
	if format == vc.JWTCredentialProofFormat {
		return c.Raw()
	}
	b, _ := json.Marshal(c)
	return string(b)
}

func (n *c01Nodes) present(creds []string, format string, signer string, holderDID *string, at int64, exp *int64, withOpts bool) string {
	n.w.asOf = at * 1000
	var l []vc.VerifiableCredential
	for _, c := range creds {
		p, err := vc.ParseVerifiableCredential(c)
		if err != nil {
			n.w.t.Fatal(err)
		}
		l = append(l, *p)
	}
	opts := holder.PresentationOptions{Format: format, ProofOptions: proof.ProofOptions{Created: time.Unix(at, 0).UTC()}}
	if holderDID != nil {
		u := ssi.MustParseURI(*holderDID)
		opts.Holder = &u
	}
	if exp != nil {
		e := time.Unix(*exp, 0).UTC()
		opts.ProofOptions.Expires = &e
	}
	if withOpts {
		ch, dom, non := "challenge-1", "https://verifier.example.com", "nonce-1"
		opts.ProofOptions.Challenge, opts.ProofOptions.Domain, opts.ProofOptions.Nonce = &ch, &dom, &non
	}
	s := did.MustParseDID(signer)
	vp, err := n.wallet.BuildPresentation(n.w.ctx, l, opts, &s, false)
	if err != nil {
		n.w.t.Fatalf("present %s: %v", format, err)
	}
	if format == holder.JWTPresentationFormat {
		return vp.Raw()
	}
	b, _ := json.Marshal(vp)
	return string(b)
}

func p64(v int64) *int64 { return &v }

func (n *c01Nodes) templates() map[string]vc.VerifiableCredential {
	u := ssi.MustParseURI
	exp := time.Unix(c01T0+5000, 0).UTC()
	return map[string]vc.VerifiableCredential{
		"org": {Context: []ssi.URI{u(ctxVC), u(ctxNut)}, Type: []ssi.URI{u("NutsOrganizationCredential")}, Issuer: u(didI), ExpirationDate: &exp,
			CredentialSubject: []any{map[string]any{"id": didH, "organization": map[string]any{"name": "Care", "city": "Town"}}}},
		"human": {Context: []ssi.URI{u(ctxVC), u(ctxEx)}, Type: []ssi.URI{u("VerifiableCredential"), u("HumanCredential")}, Issuer: u(didI),
			CredentialSubject: []any{map[string]any{"id": didH, "human": map[string]any{"eyeColour": "blue", "hairColour": "fair"}}}},
		"plain": {Context: []ssi.URI{u(ctxVC)}, Type: []ssi.URI{u("VerifiableCredential")}, Issuer: u(didJ), ExpirationDate: &exp,
			CredentialSubject: []any{map[string]any{"id": didH}}},
		"auth": {Context: []ssi.URI{u(ctxVC), u(ctxNut)}, Type: []ssi.URI{u("NutsAuthorizationCredential")}, Issuer: u(didI),
			CredentialSubject: []any{map[string]any{"id": didH, "purposeOfUse": "eOverdracht-receiver",
				"resources": []any{map[string]any{"path": "/Task/1", "operations": []any{"read", "update"}, "userContext": true}}}}},
	}
}

func (n *c01Nodes) generate(o *c01Out, rnd *rand.Rand, thorough bool) {
	n.emitWorld(o)
	tmpls := n.templates()
	issuedAt := c01T0 + 100
	var bases []c01Base
	creds := map[string]string{}
	for _, name := range []string{"org", "human", "plain", "auth"} {
		for _, f := range []string{vc.JSONLDCredentialProofFormat, vc.JWTCredentialProofFormat} {
			text := n.issue(tmpls[name], f, issuedAt)
			label := name + ":" + f
			creds[label] = text
			b := c01Base{label: label, kind: "vc", text: text, issued: issuedAt}
			if tmpls[name].ExpirationDate != nil {
				b.expires = p64(tmpls[name].ExpirationDate.Unix())
			}
			bases = append(bases, b)
		}
	}
	// credentials of issuer B (its document has @base + relative key ids; the node's own issuer cannot use such a document, so these
	// are signed with the proof builder / SignJWT directly, with the ABSOLUTE key id the verifier has to match against "#k1")
	for _, f := range []string{vc.JSONLDCredentialProofFormat, vc.JWTCredentialProofFormat} {
		text := n.handIssue(didB, didB+"#k1", f, issuedAt)
		creds["based:"+f] = text
		bases = append(bases, c01Base{label: "based:" + f, kind: "vc", text: text, issued: issuedAt})
	}
	// issuer E signs with a P-384 key: ES384 is fine, ES256 over that key (and ES384 over a P-256 key) must be refused
	for _, f := range []string{vc.JSONLDCredentialProofFormat, vc.JWTCredentialProofFormat} {
		text := n.handIssue(didE, didE+"#k1", f, issuedAt)
		creds["p384:"+f] = text
		bases = append(bases, c01Base{label: "p384:" + f, kind: "vc", text: text, issued: issuedAt})
	}
	// trust on the verifier node (the issuer's own trust file is a different node's)
	for _, tr := range [][2]string{{"NutsOrganizationCredential", didI}, {"HumanCredential", didI}, {"NutsAuthorizationCredential", didI}} {
		n.setTrust(o, tr[0], tr[1], true)
	}
	// presentations by the holder: combinations of formats, with and without holder / options
	hd := didH
	vpExp := issuedAt + 600
	type pc struct {
		label  string
		creds  []string
		format string
		holder *string
		opts   bool
	}
	for _, p := range []pc{
		{"vp-ld[org-ld]", []string{"org:ldp_vc"}, holder.JSONLDPresentationFormat, &hd, true},
		{"vp-ld[org-jwt,human-ld]", []string{"org:jwt_vc", "human:ldp_vc"}, holder.JSONLDPresentationFormat, nil, true},
		{"vp-ld[]", nil, holder.JSONLDPresentationFormat, &hd, false},
		{"vp-jwt[org-ld,plain-jwt]", []string{"org:ldp_vc", "plain:jwt_vc"}, holder.JWTPresentationFormat, &hd, true},
		{"vp-jwt[human-jwt]", []string{"human:jwt_vc"}, holder.JWTPresentationFormat, nil, false},
	} {
		var cl []string
		for _, c := range p.creds {
			cl = append(cl, creds[c])
		}
		text := n.present(cl, p.format, didH, p.holder, issuedAt+20, &vpExp, p.opts)
		bases = append(bases, c01Base{label: p.label, kind: "vp", text: text, issued: issuedAt + 20, expires: &vpExp})
	}

	// 1. own output verifies (sampled): every base at a time inside every window, trust required
	okAt := issuedAt + 30
	for _, b := range bases {
		n.run(o, c01Call{kind: b.kind, text: b.text, at: &okAt, allowUntrusted: false, checkSig: true, label: b.label, base: b.label})
	}
	// 2. systematic mutation
	for _, b := range bases {
		n.mutate(o, rnd, b, okAt, thorough)
	}
	// 2a. presentations that mix a PROOF-LESS SELF-ATTESTED credential (issuer = holder = signer; exempt from the signature
	// check) with other credentials, in every order; the other credentials genuine, tampered, unsigned or signed by the wrong key
	n.mixedPresentations(o, rnd, creds, issuedAt, okAt, thorough)
	// 2a'. JWTs whose algorithm does not fit the signing key's curve (the ECDSA signature itself is made with the real key over the
	// digest the claimed algorithm prescribes, so a library that only looks at the header would verify it)
	for _, m := range []struct{ base, kid, alg string }{{"p384:jwt_vc", didE + "#k1", "ES256"}, {"p384:jwt_vc", didE + "#k1", "ES512"},
		{"org:jwt_vc", didI + "#k1", "ES384"}, {"vp-jwt[human-jwt]", didH + "#k1", "ES384"}, {"vp-jwt[org-ld,plain-jwt]", didH + "#k1", "ES512"}} {
		var b c01Base
		for _, x := range bases {
			if x.label == m.base {
				b = x
			}
		}
		hdr, pl, _, ok := jwtParts(b.text)
		if !ok {
			n.w.t.Fatal("alg/key mismatch: base not a JWT: " + m.base)
		}
		h2 := deepCopy(map[string]any(hdr)).(map[string]any)
		h2["alg"] = m.alg
		input := base64.RawURLEncoding.EncodeToString([]byte(mustJSON(h2))) + "." + base64.RawURLEncoding.EncodeToString([]byte(mustJSON(pl)))
		signer, err := n.w.backend.GetPrivateKey(n.w.ctx, m.kid, "1")
		if err != nil {
			n.w.t.Fatal(err)
		}
		priv := signer.(*ecdsa.PrivateKey)
		var digest []byte
		switch m.alg {
		case "ES256":
			d := sha256.Sum256([]byte(input))
			digest = d[:]
		case "ES384":
			d := sha512.Sum384([]byte(input))
			digest = d[:]
		default:
			d := sha512.Sum512([]byte(input))
			digest = d[:]
		}
		r, sg, err := ecdsa.Sign(crand.Reader, priv, digest)
		if err != nil {
			n.w.t.Fatal(err)
		}
		for _, size := range []int{(priv.Curve.Params().BitSize + 7) / 8, map[string]int{"ES256": 32, "ES384": 48, "ES512": 66}[m.alg]} {
			raw := make([]byte, 2*size)
			if len(r.Bytes()) > size || len(sg.Bytes()) > size {
				continue
			}
			r.FillBytes(raw[:size])
			sg.FillBytes(raw[size:])
			text := input + "." + base64.RawURLEncoding.EncodeToString(raw)
			n.run(o, c01Call{kind: b.kind, text: text, at: &okAt, allowUntrusted: false, checkSig: true,
				label: b.label + "~alg-key-mismatch:" + m.alg + ":" + strconv.Itoa(size), base: b.label, mut: "alg-key-mismatch", path: m.alg})
		}
	}
	// 2b. random multi-point mutations (seeded): two or three single mutations stacked
	nMulti, nTimes := 160, 120
	if thorough {
		nMulti, nTimes = 12000, 6000
	}
	for i := 0; i < nMulti; i++ {
		b := bases[rnd.Intn(len(bases))]
		n.multiMutate(o, rnd, b, okAt, i)
	}
	// 2c. random validation times over the whole DID history, random flags
	for i := 0; i < nTimes; i++ {
		b := bases[rnd.Intn(len(bases))]
		t := c01T0 - 1100 + rnd.Int63n(6400)
		if rnd.Intn(3) == 0 { // near a boundary
			bnd := []int64{-1000, 0, 100, 120, 720, 1000, 2000, 3000, 5000}[rnd.Intn(9)]
			t = c01T0 + bnd - 7 + rnd.Int63n(15)
		}
		n.run(o, c01Call{kind: b.kind, text: b.text, at: &t, allowUntrusted: rnd.Intn(2) == 0, checkSig: rnd.Intn(6) != 0, label: b.label + "@rt", base: b.label, mut: "time", path: strconv.FormatInt(t-c01T0, 10)})
	}
	// 2f. sibling entry points and edges (API handlers, wallet, store failure, tampered revocations); uses the current time
	defer n.auditLegs(o, rnd, creds)
	// 2e. hand-edited trust files, untrust, restart
	n.trustScenario(o, rnd, bases, thorough)
	// 2d. Issue on accepted and refused templates
	n.issueScenario(o, rnd)
	// credentials signed by B's key #k3, an assertion key until +1500 and an authentication-only key afterwards (scanned over time only)
	for _, f := range []string{vc.JSONLDCredentialProofFormat, vc.JWTCredentialProofFormat} {
		b := c01Base{label: "based-k3:" + f, kind: "vc", text: n.handIssue(didB, didB+"#k3", f, issuedAt), issued: issuedAt}
		n.run(o, c01Call{kind: b.kind, text: b.text, at: &okAt, allowUntrusted: false, checkSig: true, label: b.label, base: b.label})
		bases = append(bases, b)
	}
	// documents whose signing key is authorised only for PART of the history (scanned over time on the one long-lived verifier):
	// I#k2 (added at +1000), D#k1 (DID deactivated at +500: a credential and a presentation signed by it)
	for _, f := range []string{vc.JSONLDCredentialProofFormat, vc.JWTCredentialProofFormat} {
		for _, x := range []struct{ label, did, kid string }{{"late-key:", didI, didI + "#k2"}, {"deact:", didD, didD + "#k1"}} {
			b := c01Base{label: x.label + f, kind: "vc", text: n.handIssue(x.did, x.kid, f, issuedAt), issued: issuedAt}
			when := okAt
			if x.did == didI {
				when = c01T0 + 1100 // #k2 is an assertion key from +1000
			}
			n.run(o, c01Call{kind: "vc", text: b.text, at: &when, allowUntrusted: false, checkSig: true, label: b.label, base: b.label})
			bases = append(bases, b)
		}
	}
	{
		dd := didD
		exp := c01T0 + 4000
		for _, f := range []string{holder.JSONLDPresentationFormat, holder.JWTPresentationFormat} {
			b := c01Base{label: "vp-deact:" + f, kind: "vp", text: n.present(nil, f, didD, &dd, issuedAt+20, &exp, false), issued: issuedAt + 20, expires: &exp}
			n.run(o, c01Call{kind: "vp", text: b.text, at: &okAt, allowUntrusted: false, checkSig: true, label: b.label, base: b.label})
			bases = append(bases, b)
		}
	}
	// 2g. the node as it is CONFIGURED at start-up: the real jsonld module in strict mode (the default) must not fetch contexts that are
	// not on its allow list — a sender-chosen context could map renamed members back onto the signed IRIs
	n.strictNode(o, creds, okAt)
	// 3. time / key-history / trust / revocation scan on the unmodified documents
	n.scan(o, rnd, bases, thorough)
}

// auditLegs: the sibling entry points and edges of the same clauses — the REST API handlers (POST /internal/vcr/v2/verifier/vc
// and /vp: which flags they pass, how they turn errors into `validity`), the wallet (List filter, BuildPresentation with
// validateVC), a revocation store that cannot answer, tampered revocations offered to RegisterRevocation.
func (n *c01Nodes) auditLegs(o *c01Out, rnd *rand.Rand, creds map[string]string) {
	nowS := time.Now().Unix()
	n.w.asOf = nowS * 1000
	n.emitWorld(o)
	u := ssi.MustParseURI
	tm := n.templates()
	noExp := func(t vc.VerifiableCredential) vc.VerifiableCredential { t.ExpirationDate = nil; return t }
	humanJ := tm["human"]
	humanJ.Issuer = u(didJ)
	fresh := map[string]string{}
	for name, t := range map[string]vc.VerifiableCredential{"org": noExp(tm["org"]), "humanJ": humanJ, "human": tm["human"]} {
		for _, f := range []string{vc.JSONLDCredentialProofFormat, vc.JWTCredentialProofFormat} {
			fresh[name+":"+f] = n.issue(t, f, nowS-100)
		}
	}
	n.w.asOf = nowS * 1000
	tamper := func(text string) string {
		if strings.HasPrefix(text, "{") {
			var m map[string]any
			_ = json.Unmarshal([]byte(text), &m)
			m["credentialSubject"].(map[string]any)["id"] = didO
			return mustJSON(m)
		}
		h, p, sg, _ := jwtParts(text)
		p["sub"] = didO
		return jwtJoin(h, p, sg)
	}
	tr, fl := true, false
	names := make([]string, 0, len(fresh))
	for k := range fresh {
		names = append(names, k)
	}
	sort.Strings(names)
	apiVC := func(tag string) {
		for _, k := range names {
			for _, v := range []struct {
				tag, text string
			}{{"genuine", fresh[k]}, {"tampered", tamper(fresh[k])}} {
				for _, opt := range []*bool{nil, &tr, &fl} {
					ot := "default"
					if opt != nil {
						ot = strconv.FormatBool(*opt)
					}
					lbl := "api-vc:" + k + ":" + v.tag + ":" + tag + ":opt=" + ot
					n.run(o, c01Call{kind: "vc", text: v.text, label: lbl, base: lbl, mut: "api:" + v.tag, path: tag, via: "api", option: opt, checkSig: true})
				}
			}
		}
	}
	apiVC("trusted")
	n.setTrust(o, "NutsOrganizationCredential", didI, false)
	n.setTrust(o, "HumanCredential", didI, false)
	apiVC("untrusted")
	// presentations through the API: signer did:web (trust of credential issuers not required), genuine / carrying a tampered credential
	hd := didH
	exp := nowS + 3600
	self := mustJSON(map[string]any{"@context": []any{ctxVC}, "id": didH + "#self-api", "type": []any{"VerifiableCredential"},
		"issuer": didH, "issuanceDate": time.Unix(nowS-100, 0).UTC().Format(time.RFC3339), "credentialSubject": map[string]any{"id": didH}})
	forgedLD := func() string {
		var m map[string]any
		_ = json.Unmarshal([]byte(fresh["org:ldp_vc"]), &m)
		m["credentialSubject"].(map[string]any)["organization"].(map[string]any)["name"] = "Forged"
		return mustJSON(m)
	}()
	for _, f := range []string{holder.JSONLDPresentationFormat, holder.JWTPresentationFormat} {
		for _, v := range []struct {
			tag   string
			creds []string
		}{{"genuine", []string{fresh["org:ldp_vc"], fresh["humanJ:jwt_vc"]}}, {"self+forged", []string{self, forgedLD}}, {"forged", []string{forgedLD}}} {
			text := n.present(v.creds, f, didH, &hd, nowS-80, &exp, true)
			n.w.asOf = nowS * 1000
			for _, opt := range []*bool{nil, &tr, &fl} {
				ot := "default"
				if opt != nil {
					ot = strconv.FormatBool(*opt)
				}
				for _, at := range []*int64{nil, p64(nowS - 10), p64(nowS + 7200)} {
					ats := "now"
					if at != nil {
						ats = strconv.FormatInt(*at-nowS, 10)
					}
					lbl := "api-vp:" + f + ":" + v.tag + ":verifyCredentials=" + ot + ":at=" + ats
					n.run(o, c01Call{kind: "vp", text: text, at: at, label: lbl, base: lbl, mut: "api:" + v.tag, path: ats, via: "api", option: opt,
						checkSig: opt == nil || *opt, allowUntrusted: true})
				}
			}
		}
	}
	n.setTrust(o, "NutsOrganizationCredential", didI, true)
	n.setTrust(o, "HumanCredential", didI, true)

	at9 := nowS
	// wave 9: trust is given to an EXACT issuer string. A genuine credential of a never-trusted issuer whose DID differs only in letter
	// case from a trusted one must be refused when trust is required; and trusting that DID explicitly (and dropping the other) works.
	for _, pr := range [][2]string{{didJ, didJc}, {didI, didIc}} {
		trustedDID, variant := pr[0], pr[1]
		n.setTrust(o, "HumanCredential", trustedDID, true)
		texts := map[string]string{}
		for _, f := range []string{vc.JSONLDCredentialProofFormat, vc.JWTCredentialProofFormat} {
			texts[f] = n.handIssueHuman(variant, variant+"#k1", f, nowS-100)
			lbl := "trust-case:" + variant + ":" + f
			n.run(o, c01Call{kind: "vc", text: texts[f], at: &at9, allowUntrusted: true, checkSig: true, label: lbl + "@untrusted-allowed", base: lbl})
			n.run(o, c01Call{kind: "vc", text: texts[f], at: &at9, allowUntrusted: false, checkSig: true, label: lbl, base: lbl, mut: "trust-case-variant"})
			n.run(o, c01Call{kind: "vc", text: texts[f], at: &at9, allowUntrusted: false, checkSig: false, label: lbl + "@nosig", base: lbl, mut: "trust-case-variant"})
		}
		n.setTrust(o, "HumanCredential", variant, true)
		n.setTrust(o, "HumanCredential", trustedDID, false)
		for _, f := range []string{vc.JSONLDCredentialProofFormat, vc.JWTCredentialProofFormat} {
			lbl := "trust-case:" + variant + ":" + f
			n.run(o, c01Call{kind: "vc", text: texts[f], at: &at9, allowUntrusted: false, checkSig: true, label: lbl + "@itself-trusted", base: lbl, mut: "trust-case-itself"})
		}
		n.setTrust(o, "HumanCredential", variant, false)
	}
	n.setTrust(o, "HumanCredential", didI, true)

	// the revocation store cannot answer: nothing is reported valid (credentials with an id), directly and through the API
	n.fstore.fail = true
	at := nowS
	for _, k := range names {
		lbl := "store-down:" + k
		n.run(o, c01Call{kind: "vc", text: fresh[k], at: &at, allowUntrusted: true, checkSig: true, label: lbl, base: lbl, mut: "store-down"})
		n.run(o, c01Call{kind: "vc", text: fresh[k], label: "api-" + lbl, base: "api-" + lbl, mut: "store-down", via: "api", checkSig: true})
	}
	n.fstore.fail = false
	// wave 8: the same with the fault INSIDE the real leia store (closed database): direct, without signature check (the flags of
	// vcr.Resolve / Search / wallet.List), through the API, and for a credential carried by a presentation
	n.fstore.failInner = true
	for _, k := range names {
		lbl := "store-fault:" + k
		n.run(o, c01Call{kind: "vc", text: fresh[k], at: &at, allowUntrusted: true, checkSig: true, label: lbl, base: lbl, mut: "store-down"})
		n.run(o, c01Call{kind: "vc", text: fresh[k], at: &at, allowUntrusted: false, checkSig: false, label: lbl + "@nosig", base: lbl + "@nosig", mut: "store-down"})
		n.run(o, c01Call{kind: "vc", text: fresh[k], label: "api-" + lbl, base: "api-" + lbl, mut: "store-down", via: "api", checkSig: true})
	}
	n.fstore.failInner = false

	// tampered revocations offered to RegisterRevocation: other subject, other issuer, signed by another party, vm of another party
	before := len(n.pub.revs)
	victim, _ := vc.ParseVerifiableCredential(fresh["human:ldp_vc"])
	other, _ := vc.ParseVerifiableCredential(fresh["org:ldp_vc"])
	n.w.asOf = time.Now().UnixMilli()
	if _, err := n.iss.Revoke(n.w.ctx, *other.ID); err != nil || len(n.pub.revs) != before+1 {
		n.w.t.Fatalf("audit: revoke: %v", err)
	}
	genuine := n.pub.revs[before]
	revJSON, _ := json.Marshal(genuine)
	toRev := func(m map[string]any) credential.Revocation {
		b, _ := json.Marshal(m)
		var r credential.Revocation
		_ = json.Unmarshal(b, &r)
		return r
	}
	base := func(f func(m map[string]any)) map[string]any {
		var m map[string]any
		_ = json.Unmarshal(revJSON, &m)
		f(m)
		return m
	}
	resign := func(m map[string]any, kid string) map[string]any {
		delete(m, "proof")
		signed, err := proof.NewLDProof(proof.ProofOptions{Created: time.Now()}).Sign(n.w.ctx, m, signature.JSONWebSignature2020{ContextLoader: n.w.loader, Signer: n.w.ks}, kid)
		if err != nil {
			n.w.t.Fatal(err)
		}
		b, _ := json.Marshal(signed)
		var r map[string]any
		_ = json.Unmarshal(b, &r)
		return r
	}
	tampered := []struct {
		tag string
		rev credential.Revocation
	}{
		{"other-subject-old-proof", toRev(base(func(m map[string]any) { m["subject"] = victim.ID.String() }))},
		{"date-changed", toRev(base(func(m map[string]any) { m["date"] = time.Now().Add(-time.Hour).UTC().Format(time.RFC3339) }))},
		{"signed-by-other-party", toRev(resign(base(func(m map[string]any) { m["subject"] = victim.ID.String() }), didO+"#k1"))},
		{"issued-by-other-party", toRev(resign(base(func(m map[string]any) { m["subject"] = victim.ID.String(); m["issuer"] = didO }), didO+"#k1"))},
		{"other-party-key-claims-issuer-vm", toRev(func() map[string]any {
			r2 := resign(base(func(m map[string]any) { m["subject"] = victim.ID.String() }), didO+"#k1")
			r2["proof"].(map[string]any)["verificationMethod"] = didI + "#k2"
			return r2
		}())},
	}
	for _, tc := range tampered {
		line := "revocation:rejected"
		if n.ver.RegisterRevocation(tc.rev) == nil {
			line = "revocation:ok"
		}
		o.emit(map[string]any{"op": "expect", "label": "tampered-revocation:" + tc.tag, "expect": "revocation:rejected", "kind": "tampered-revocation"}, line)
	}
	// deepening round 3: the same and more revocations, each offered to RegisterRevocation of a scratch verifier (model correspondence)
	n.regRev(o, "regrev:genuine", genuine)
	for _, tc := range tampered {
		n.regRev(o, "regrev:"+tc.tag, tc.rev)
	}
	for _, tc := range []struct {
		tag string
		m   map[string]any
	}{
		{"resigned-by-issuer-other-key", resign(base(func(m map[string]any) {}), didI+"#k2")},
		{"resigned-victim-by-issuer", resign(base(func(m map[string]any) { m["subject"] = victim.ID.String() }), didI+"#k1")},
		{"no-fragment", resign(base(func(m map[string]any) { m["subject"] = didI }), didI+"#k1")},
		{"no-type", resign(base(func(m map[string]any) { m["type"] = []any{"Other"} }), didI+"#k1")},
		{"no-context-no-type", resign(base(func(m map[string]any) { delete(m, "@context"); delete(m, "type") }), didI+"#k1")},
		{"no-issuer", base(func(m map[string]any) { delete(m, "issuer") })},
		{"no-proof", base(func(m map[string]any) { delete(m, "proof") })},
		{"year-1-date", base(func(m map[string]any) { m["date"] = "0001-01-01T00:00:00Z" })},
		{"dated-before-the-key", resign(base(func(m map[string]any) { m["date"] = time.Unix(c01T0-5000, 0).UTC().Format(time.RFC3339) }), didI+"#k1")},
		{"dated-before-the-signing-key-was-added", resign(base(func(m map[string]any) { m["date"] = time.Unix(c01T0-5000, 0).UTC().Format(time.RFC3339) }), didI+"#k2")},
		{"other-party-whole", resign(base(func(m map[string]any) { m["subject"] = didO + "#1"; m["issuer"] = didO }), didO+"#k1")},
		{"subject-prefix-lookalike", resign(base(func(m map[string]any) { m["subject"] = didI + "x#1" }), didI+"#k1")},
		{"vm-prefix-lookalike", func() map[string]any {
			r2 := resign(base(func(m map[string]any) {}), didI+"#k1")
			r2["proof"].(map[string]any)["verificationMethod"] = didI + "x#k1"
			return r2
		}()},
		{"unknown-vm-fragment", func() map[string]any {
			r2 := resign(base(func(m map[string]any) {}), didI+"#k1")
			r2["proof"].(map[string]any)["verificationMethod"] = didI + "#nokey"
			return r2
		}()},
		{"garbage-jws", func() map[string]any {
			r2 := resign(base(func(m map[string]any) {}), didI+"#k1")
			r2["proof"].(map[string]any)["jws"] = "eyJhbGciOiJFUzI1NiJ9..AAAA"
			return r2
		}()},
		{"reason-changed-after-signing", func() map[string]any {
			r2 := resign(base(func(m map[string]any) {}), didI+"#k1")
			r2["reason"] = "changed"
			return r2
		}()},
	} {
		n.regRev(o, "regrev:"+tc.tag, toRev(tc.m))
	}
	// ... so the victim is still valid, and the genuinely revoked credential is revoked once the genuine revocation is registered
	n.run(o, c01Call{kind: "vc", text: fresh["human:ldp_vc"], at: &at, allowUntrusted: true, checkSig: true, label: "victim-after-tampered-revocations", base: "victim-after-tampered-revocations"})
	line := "revocation:rejected"
	if n.ver.RegisterRevocation(genuine) == nil {
		line = "revocation:ok"
	}
	o.emit(map[string]any{"op": "revoke", "id": other.ID.String(), "registered": line == "revocation:ok"}, line)
	n.run(o, c01Call{kind: "vc", text: fresh["org:ldp_vc"], at: &at, allowUntrusted: true, checkSig: true, label: "revoked-after-genuine-revocation", base: "revoked-after-genuine-revocation", mut: "revoked"})

	// the wallet on the issuer node: List keeps only what is inside its window and not revoked (signatures are not checked there);
	// BuildPresentation(validateVC) refuses credentials whose signature does not verify
	if err := n.iver.RegisterRevocation(genuine); err != nil {
		n.w.t.Fatalf("audit: issuer node RegisterRevocation: %v", err)
	}
	future := n.issue(noExp(tm["org"]), vc.JSONLDCredentialProofFormat, nowS+7200)
	n.w.asOf = nowS * 1000
	stored := []string{fresh["human:ldp_vc"], fresh["human:jwt_vc"], fresh["humanJ:ldp_vc"], fresh["org:ldp_vc"] /* revoked */, fresh["org:jwt_vc"],
		creds["org:ldp_vc"] /* expired in 2023 */, creds["plain:jwt_vc"] /* expired */, future}
	var parsed []vc.VerifiableCredential
	tb := &c01Tables{urls: map[string]any{}, dids: map[string]any{}}
	var views []any
	for _, text := range stored {
		c, err := vc.ParseVerifiableCredential(text)
		if err != nil {
			n.w.t.Fatal(err)
		}
		parsed = append(parsed, *c)
		views = append(views, n.w.viewVC(*c, tb))
	}
	if err := n.wallet.Put(n.w.ctx, parsed...); err != nil {
		n.w.t.Fatalf("audit: wallet.Put: %v", err)
	}
	listed, err := n.wallet.List(n.w.ctx, did.MustParseDID(didH))
	if err != nil {
		n.w.t.Fatalf("audit: wallet.List: %v", err)
	}
	var ids []string
	for _, c := range listed {
		ids = append(ids, c.ID.String())
	}
	sort.Strings(ids)
	o.emit(map[string]any{"op": "wallet-list", "label": "wallet-list", "creds": views, "revoked": []string{other.ID.String()}, "lists": []any{},
		"now": time.Now().UnixMilli(), "urls": tb.urls, "dids": tb.dids}, "wallet:"+strings.Join(ids, ","))
	for _, v := range []struct {
		tag   string
		texts []string
	}{{"genuine", []string{fresh["human:ldp_vc"], fresh["humanJ:jwt_vc"]}}, {"one-tampered", []string{fresh["human:ldp_vc"], tamper(fresh["humanJ:ldp_vc"])}},
		{"tampered-jwt-last", []string{fresh["human:jwt_vc"], fresh["humanJ:ldp_vc"], tamper(fresh["humanJ:jwt_vc"])}}} {
		var l []vc.VerifiableCredential
		tb := &c01Tables{urls: map[string]any{}, dids: map[string]any{}}
		var vs []any
		for _, t := range v.texts {
			c, err := vc.ParseVerifiableCredential(t)
			if err != nil {
				n.w.t.Fatal(err)
			}
			l = append(l, *c)
			vs = append(vs, n.w.viewVC(*c, tb))
		}
		created := time.Unix(nowS-50, 0).UTC()
		signer := did.MustParseDID(didH)
		_, err := n.wallet.BuildPresentation(n.w.ctx, l, holder.PresentationOptions{ProofOptions: proof.ProofOptions{Created: created}}, &signer, true)
		line := "ok"
		if err != nil {
			line = "err:invalid-credential"
		}
		o.emit(map[string]any{"op": "wallet-present", "label": "wallet-present:" + v.tag, "creds": vs, "created": created.UnixMilli(),
			"now": time.Now().UnixMilli(), "urls": tb.urls, "dids": tb.dids, "expectOK": v.tag == "genuine"}, line)
	}
}

// issueScenario: the real issuer.Issue on accepted and refused templates (both formats); the model's `issue` must agree on
// the outcome class, and everything that is issued must verify on the verifier node (own_output_verifies, sampled).
func (n *c01Nodes) issueScenario(o *c01Out, rnd *rand.Rand) {
	u := ssi.MustParseURI
	base := n.templates()
	type tc struct {
		name string
		t    vc.VerifiableCredential
		at   int64
	}
	with := func(t vc.VerifiableCredential, f func(*vc.VerifiableCredential)) vc.VerifiableCredential {
		bs, _ := json.Marshal(t.CredentialSubject)
		var cs []any
		_ = json.Unmarshal(bs, &cs)
		t.CredentialSubject = cs
		t.Context = append([]ssi.URI{}, t.Context...)
		t.Type = append([]ssi.URI{}, t.Type...)
		f(&t)
		return t
	}
	subj := func(t *vc.VerifiableCredential) map[string]any { return t.CredentialSubject[0].(map[string]any) }
	at := c01T0 + 100
	cases := []tc{
		{"org", base["org"], at}, {"human", base["human"], at}, {"plain", base["plain"], at}, {"auth", base["auth"], at},
		{"undefined-claim", with(base["org"], func(t *vc.VerifiableCredential) { subj(t)["zzUndefined"] = "u" }), at},
		{"undefined-nested", with(base["human"], func(t *vc.VerifiableCredential) { subj(t)["human"].(map[string]any)["zz"] = 1.0 }), at},
		{"case-variant-claim", with(base["org"], func(t *vc.VerifiableCredential) { subj(t)["ID"] = didO }), at},
		{"three-types", with(base["human"], func(t *vc.VerifiableCredential) { t.Type = append(t.Type, u("NutsOrganizationCredential")) }), at},
		{"two-types-no-vc", with(base["org"], func(t *vc.VerifiableCredential) {
			t.Type = []ssi.URI{u("NutsOrganizationCredential"), u("HumanCredential")}
		}), at},
		{"no-types", with(base["plain"], func(t *vc.VerifiableCredential) { t.Type = nil }), at},
		{"issuer-unknown", with(base["plain"], func(t *vc.VerifiableCredential) { t.Issuer = u(didU) }), at},
		{"issuer-not-a-did", with(base["plain"], func(t *vc.VerifiableCredential) { t.Issuer = u("https://example.com/issuer") }), at},
		{"issuer-deactivated", with(base["plain"], func(t *vc.VerifiableCredential) { t.Issuer = u(didD) }), c01T0 + 600},
		{"issuer-before-deactivation", with(base["plain"], func(t *vc.VerifiableCredential) { t.Issuer = u(didD) }), c01T0 + 100},
		{"no-subject-id", with(base["plain"], func(t *vc.VerifiableCredential) { delete(subj(t), "id") }), at},
		{"org-bad-shape", with(base["org"], func(t *vc.VerifiableCredential) { delete(subj(t)["organization"].(map[string]any), "city") }), at},
		{"org-issued-by-other", with(base["org"], func(t *vc.VerifiableCredential) { t.Issuer = u(didJ) }), at},
		{"no-vc-context", with(base["human"], func(t *vc.VerifiableCredential) { t.Context = []ssi.URI{u(ctxEx)} }), at},
		{"key-rotated", base["org"], c01T0 + 2500},
	}
	for _, c := range cases {
		for _, f := range []string{vc.JSONLDCredentialProofFormat, vc.JWTCredentialProofFormat} {
			n.w.asOf = c.at * 1000
			tb := &c01Tables{urls: map[string]any{}, dids: map[string]any{}}
			// the unsigned credential as buildAndSignVC assembles it (id with a placeholder uuid), for the model and for AllFieldsDefined
			un := c.t
			un.Context = append([]ssi.URI{}, c.t.Context...)
			un.Type = append([]ssi.URI{}, c.t.Type...)
			if !un.ContainsContext(u(ctxVC)) {
				un.Context = append([]ssi.URI{u(ctxVC)}, un.Context...)
			}
			if !un.IsType(u("VerifiableCredential")) {
				un.Type = append(un.Type, u("VerifiableCredential"))
			}
			issuerDID := c.t.Issuer.String()
			if d, err := did.ParseDID(issuerDID); err == nil {
				issuerDID = d.String()
			}
			id := u(issuerDID + "#u")
			un.ID = &id
			un.IssuanceDate = time.Unix(c.at, 0).UTC()
			js, _ := json.Marshal(un)
			allDef := jsonld.AllFieldsDefined(n.w.loader, js) == nil
			parsed, perr := vc.ParseVerifiableCredential(string(js))
			var view map[string]any
			if perr == nil {
				view = n.w.viewVC(*parsed, tb)
				view["fmt"] = f
			}
			tb.did(c.t.Issuer.String())
			tb.url(id.String())
			op := map[string]any{"op": "issue", "label": "issue:" + c.name + ":" + f, "fmt": f, "asOf": c.at * 1000, "now": c.at * 1000,
				"template": view, "templateTypes": func() []string {
					r := []string{}
					for _, t := range c.t.Type {
						r = append(r, t.String())
					}
					return r
				}(), "templateCtx": func() []string {
					r := []string{}
					for _, t := range c.t.Context {
						r = append(r, t.String())
					}
					return r
				}(), "allDefined": allDef, "urls": tb.urls, "dids": tb.dids}
			issuer.TimeFunc = func() time.Time { return time.Unix(c.at, 0).UTC() }
			cred, err := n.iss.Issue(n.w.ctx, c.t, issuer.CredentialOptions{Format: f})
			issuer.TimeFunc = time.Now
			line := "ok"
			if err != nil {
				e := err.Error()
				has := func(x string) bool { return strings.Contains(e, x) }
				switch {
				case has("failed to parse issuer"):
					line = "err:issuer-not-a-did"
				case has("could not resolve an assertionKey"):
					line = "err:no-assertion-key"
				case has("at most 1 extra type"):
					line = "err:types"
				case has("unable to get subject DID"), has("unable to sign JWT credential"):
					line = "err:no-subject"
				case has("jsonld:"):
					line = "err:undefined-fields"
				case has("validation failed"), has("invalid DID"):
					line = "err:invalid"
				default:
					line = "err:other:" + e[:min(len(e), 50)]
				}
				if os.Getenv("VERIF_DEBUG") != "" {
					op["err"] = e
				}
			}
			o.emit(op, line)
			o.stats["issue:"+strings.SplitN(line, ":", 3)[0]]++
			if err == nil {
				// own output verifies on the other node (trust not required here: the verifier node has its own trust file)
				text := cred.Raw()
				if f != vc.JWTCredentialProofFormat {
					b, _ := json.Marshal(cred)
					text = string(b)
				}
				t := c.at + 30
				lbl := "issued:" + c.name + ":" + f
				n.run(o, c01Call{kind: "vc", text: text, at: &t, allowUntrusted: true, checkSig: true, label: lbl, base: lbl})
			}
		}
	}
}

// statusScenario: credentials with a StatusList2021 entry issued by the did:web issuer; the verifier node downloads the
// status list credential from the issuer node (real signature check on it).  One credential is revoked on the issuer node
// BEFORE the verifier first fetches the list.  mode: "" honest (+ systematic mutation of a credential with status entry);
// "fold-after-cache": after the verifier cached the honest list and an hour passed, the served list carries an extra member
// "encodedLiſt" (all zeros) that encoding/json folds onto encodedList; "down-after-cache": idem, HTTP 500;
// "down-cold": the list can never be fetched (soft fail: the node reports valid).
func statusScenario(t *testing.T, o *c01Out, rnd *rand.Rand, mode string, mutate bool) {
	n := newC01Nodes(t)
	o.emit(map[string]any{"op": "reset"}, "reset")
	n.emitWorld(o)
	u := ssi.MustParseURI
	tmpl := vc.VerifiableCredential{Context: []ssi.URI{u(ctxVC), u(ctxEx)}, Type: []ssi.URI{u("VerifiableCredential"), u("HumanCredential")}, Issuer: u(didJ),
		CredentialSubject: []any{map[string]any{"id": didH, "human": map[string]any{"eyeColour": "green", "hairColour": "dark"}}}}
	issuedAt := c01T0 + 100
	okAt := issuedAt + 30
	okT := time.Unix(okAt, 0)
	n.setTrust(o, "HumanCredential", didJ, true)
	type sc struct {
		label, text string
		revoke      bool
	}
	var list []sc
	for _, f := range []string{vc.JSONLDCredentialProofFormat, vc.JWTCredentialProofFormat} {
		list = append(list, sc{"status-keep:" + f + ":" + mode, n.issueOpt(tmpl, f, issuedAt, true), false})
		list = append(list, sc{"status-revoke:" + f + ":" + mode, n.issueOpt(tmpl, f, issuedAt, true), true})
	}
	// capture the all-zero list, then revoke on the issuer node
	truth := map[string][]int{}
	var late []func() // mode revoke-late: the revocations happen after the verifier has stored the list
	revokedNow := mode != "revoke-late"
	for _, c := range list {
		cred, _ := vc.ParseVerifiableCredential(c.text)
		sts, _ := cred.CredentialStatuses()
		for _, st := range sts {
			var en revocation.StatusList2021Entry
			_ = json.Unmarshal(st.Raw(), &en)
			if _, ok := n.http.zero[en.StatusListCredential]; !ok {
				if body, err := n.http.fetch(en.StatusListCredential); err == nil {
					var m map[string]any
					_ = json.Unmarshal(body, &m)
					if cs, ok := m["credentialSubject"].(map[string]any); ok {
						n.http.zero[en.StatusListCredential], _ = cs["encodedList"].(string)
					}
				}
				truth[en.StatusListCredential] = []int{}
			}
			if c.revoke {
				credID, url := *cred.ID, en.StatusListCredential
				idx, _ := strconv.Atoi(en.StatusListIndex)
				doRevoke := func() {
					saved := n.w.asOf
					n.w.asOf = time.Now().UnixMilli()
					_, err := n.iss.Revoke(n.w.ctx, credID)
					n.w.asOf = saved
					if err != nil {
						t.Fatalf("status list revoke: %v", err)
					}
					truth[url] = append(truth[url], idx)
				}
				if mode == "revoke-late" {
					late = append(late, doRevoke)
				} else {
					doRevoke()
				}
			}
		}
	}
	if mode == "" {
		// credentials with SEVERAL credentialStatus entries (signed by the issuer's own key): the revoked entry is found whatever
		// precedes it — an entry of another purpose, an entry of an unknown type, a revocation entry that is not set
		var keepEntry, revokedEntry any
		var doc map[string]any
		for _, c := range list {
			if !strings.HasPrefix(c.text, "{") {
				continue
			}
			var m map[string]any
			_ = json.Unmarshal([]byte(c.text), &m)
			if c.revoke {
				revokedEntry = m["credentialStatus"]
				delete(m, "proof")
				doc = m
			} else {
				keepEntry = m["credentialStatus"]
			}
		}
		url, _ := revokedEntry.(map[string]any)["statusListCredential"].(string)
		suspension := map[string]any{"id": url + "#99", "type": "StatusList2021Entry", "statusPurpose": "suspension", "statusListIndex": "99", "statusListCredential": url}
		unknown := map[string]any{"id": "https://example.com/status/1", "type": "SomeOtherStatus2030"}
		for _, v := range []struct {
			tag     string
			entries []any
			revoked bool
		}{{"suspension,revoked", []any{suspension, revokedEntry}, true}, {"unknown,revoked", []any{unknown, revokedEntry}, true},
			{"unset,revoked", []any{keepEntry, revokedEntry}, true}, {"revoked,unset", []any{revokedEntry, keepEntry}, true},
			{"suspension,unknown,unset", []any{suspension, unknown, keepEntry}, false}} {
			d := deepCopy(doc).(map[string]any)
			d["credentialStatus"] = v.entries
			d["id"] = didJ + "#multi-" + strconv.Itoa(len(list))
			n.w.asOf = issuedAt * 1000
			signed, err := proof.NewLDProof(proof.ProofOptions{Created: time.Unix(issuedAt, 0).UTC()}).Sign(n.w.ctx, d, signature.JSONWebSignature2020{ContextLoader: n.w.loader, Signer: n.w.ks}, didJ+"#k1")
			if err != nil {
				t.Fatal(err)
			}
			list = append(list, sc{"status-multi[" + v.tag + "]:" + mode, mustJSON(signed), v.revoked})
		}
	}
	if strings.HasPrefix(mode, "stale-") {
		// the issuer node is gone; what is served is a static copy of its list — correctly signed by the issuer, the revoked bits set —
		// that is itself past its expirationDate (stale-expired) or not yet valid (stale-future).  This verifier has no earlier copy.
		for url := range truth {
			body, err := n.http.fetch(url)
			if err != nil {
				t.Fatal(err)
			}
			var m map[string]any
			_ = json.Unmarshal(body, &m)
			delete(m, "proof")
			from, until := time.Now().Add(-48*time.Hour), time.Now().Add(-24*time.Hour)
			if mode == "stale-future" {
				from, until = time.Now().Add(24*time.Hour), time.Now().Add(48*time.Hour)
			}
			m["issuanceDate"], m["expirationDate"] = from.UTC().Format(time.RFC3339), until.UTC().Format(time.RFC3339)
			n.w.asOf = time.Now().UnixMilli()
			signed, err := proof.NewLDProof(proof.ProofOptions{Created: time.Now().Add(-49 * time.Hour)}).Sign(n.w.ctx, m, signature.JSONWebSignature2020{ContextLoader: n.w.loader, Signer: n.w.ks}, didJ+"#k1")
			if err != nil {
				t.Fatal(err)
			}
			n.http.static[url] = []byte(mustJSON(signed))
		}
		n.http.mode = "static"
	}
	cold := mode == "down-cold"
	if cold {
		n.http.mode = "down"
	}
	for url, revoked := range truth {
		o.emit(map[string]any{"op": "statuslist", "url": url, "purpose": "revocation", "revoked": revoked, "available": !cold}, "statuslist")
	}
	verifyAll := func(tag string) {
		n.w.asOf = time.Now().UnixMilli() // the verifier checks a downloaded status list credential at the current time
		for _, c := range list {
			n.run(o, c01Call{kind: "vc", text: c.text, at: &okAt, allowUntrusted: false, checkSig: true, label: c.label + tag, base: c.label,
				mut: map[bool]string{true: "status-revoked", false: tag}[c.revoke && revokedNow], path: tag})
		}
	}
	verifyAll("")
	if mutate {
		for _, c := range list {
			if !c.revoke {
				n.mutate(o, rnd, c01Base{label: c.label, kind: "vc", text: c.text, issued: issuedAt}, okAt, false)
			}
		}
	}
	if mode == "" {
		// NETWORK revocation × credentialStatus: a did:nuts credential is revoked by a revocation published on the network whatever
		// credentialStatus it carries — none, an entry of an unknown type, a StatusList2021 entry whose list cannot be fetched (soft
		// fail), a StatusList2021 entry whose bit is clear.  Verified before (valid) and after the revocation was registered.
		var keepEntry any
		for _, c := range list {
			if strings.HasPrefix(c.text, "{") && !c.revoke && keepEntry == nil {
				var m map[string]any
				_ = json.Unmarshal([]byte(c.text), &m)
				if _, many := m["credentialStatus"].([]any); !many {
					keepEntry = m["credentialStatus"]
				}
			}
		}
		unknown := map[string]any{"id": "https://example.com/status/7", "type": "SomeOtherStatus2030"}
		unfetchable := map[string]any{"id": "https://unreachable.example.com/statuslist/1#3", "type": "StatusList2021Entry", "statusPurpose": "revocation",
			"statusListIndex": "3", "statusListCredential": "https://unreachable.example.com/statuslist/1"}
		type nr struct{ label, id, text string }
		var nrs []nr
		for i, v := range []struct {
			tag    string
			status any
		}{{"absent", nil}, {"unknown-type", unknown}, {"unfetchable-list", unfetchable}, {"bit-clear", keepEntry}, {"unknown+unfetchable", []any{unknown, unfetchable}}} {
			for _, f := range []string{vc.JSONLDCredentialProofFormat, vc.JWTCredentialProofFormat} {
				id := ssi.MustParseURI(didI + "#0000000" + strconv.Itoa(i) + "-0000-4000-8000-00000000000" + map[string]string{vc.JSONLDCredentialProofFormat: "1", vc.JWTCredentialProofFormat: "2"}[f])
				un := vc.VerifiableCredential{Context: []ssi.URI{u(ctxVC), u("https://w3id.org/vc/status-list/2021/v1")}, ID: &id, Type: []ssi.URI{u("VerifiableCredential")},
					Issuer: u(didI), IssuanceDate: time.Unix(issuedAt, 0).UTC(), CredentialSubject: []any{map[string]any{"id": didH}}}
				if v.status != nil {
					if l, ok := v.status.([]any); ok {
						un.CredentialStatus = l
					} else {
						un.CredentialStatus = []any{v.status}
					}
				}
				n.w.asOf = issuedAt * 1000
				var text string
				if f == vc.JWTCredentialProofFormat {
					c, err := vc.CreateJWTVerifiableCredential(n.w.ctx, un, func(ctx context.Context, claims map[string]interface{}, headers map[string]interface{}) (string, error) {
						return n.w.ks.SignJWT(ctx, claims, headers, didI+"#k1")
					})
					if err != nil {
						t.Fatal(err)
					}
					text = c.Raw()
				} else {
					b, _ := json.Marshal(un)
					var m map[string]any
					_ = json.Unmarshal(b, &m)
					signed, err := proof.NewLDProof(proof.ProofOptions{Created: un.IssuanceDate}).Sign(n.w.ctx, m, signature.JSONWebSignature2020{ContextLoader: n.w.loader, Signer: n.w.ks}, didI+"#k1")
					if err != nil {
						t.Fatal(err)
					}
					text = mustJSON(signed)
				}
				nrs = append(nrs, nr{"netrev[" + v.tag + "]:" + f, id.String(), text})
			}
		}
		n.w.asOf = time.Now().UnixMilli()
		for _, x := range nrs {
			n.run(o, c01Call{kind: "vc", text: x.text, at: &okAt, allowUntrusted: false, checkSig: true, label: x.label, base: x.label})
		}
		for _, x := range nrs {
			n.revoke(o, x.id)
		}
		n.w.asOf = time.Now().UnixMilli()
		for _, x := range nrs {
			n.run(o, c01Call{kind: "vc", text: x.text, at: &okAt, allowUntrusted: false, checkSig: true, label: x.label + "@network-revoked", base: x.label, mut: "revoked"})
			n.run(o, c01Call{kind: "vc", text: x.text, at: &okAt, allowUntrusted: true, checkSig: false, label: x.label + "@network-revoked-nosig", base: x.label, mut: "revoked"})
		}
	}
	if strings.HasPrefix(mode, "stale-") {
		verifyAll("@again") // the rejected-or-not list: the second verification answers like the first
		for _, c := range list {
			n.run(o, c01Call{kind: "vc", text: c.text, at: &okAt, allowUntrusted: true, checkSig: false, label: c.label + "@nosig", base: c.label,
				mut: map[bool]string{true: "status-revoked", false: "flags"}[c.revoke], path: "nosig"})
		}
	}
	if mode == "revoke-late" {
		// download 1 happened above (nothing revoked yet, everything reported valid).  Now the issuer revokes, the stored copy
		// ages past the 15 minutes, a check refreshes it (download 2) — and EVERY check from then on reports revoked:
		// the one that triggered the refresh, the following ones that read the stored copy, and those after it aged again.
		for _, f := range late {
			f()
		}
		revokedNow = true
		for url, revoked := range truth {
			o.emit(map[string]any{"op": "statuslist", "url": url, "purpose": "revocation", "revoked": revoked, "available": true}, "statuslist")
		}
		age := func() {
			if err := n.vdb.Exec("UPDATE status_list_credential SET created_at = created_at - 3600").Error; err != nil {
				t.Fatal(err)
			}
		}
		age()
		before := n.http.served
		verifyAll("@refreshed")
		if n.http.served == before {
			t.Fatal("status scenario: the verifier did not refresh the aged status list")
		}
		verifyAll("@again")
		verifyAll("@again2")
		age()
		verifyAll("@aged-again")
		verifyAll("@aged-again2")
		// 18 hours pass without another revocation: the issuer's stored list is about to expire, so the next GET makes the issuer
		// node RENEW (rebuild + re-sign) it.  The renewed list still carries every revocation: on the second node (which downloads
		// it) and on the issuing node itself (which reads the rewritten record).
		issuerNode := func(tag string) {
			for _, c := range list {
				cred, _ := vc.ParseVerifiableCredential(c.text)
				want := "ok"
				if c.revoke {
					want = "err:revoked"
				}
				o.emit(map[string]any{"op": "expect", "label": "issuer-node:" + c.label + tag, "expect": want, "kind": "issuer-node-status"},
					c01Class(n.iver.Verify(*cred, true, true, &okT)))
			}
		}
		issuerNode("@before-renewal")
		rawBefore := ""
		_ = n.idb.Raw("SELECT raw FROM status_list_credential LIMIT 1").Scan(&rawBefore).Error
		if err := n.idb.Exec("UPDATE status_list_credential SET expires = ?", time.Now().Add(5*time.Hour).Unix()).Error; err != nil {
			t.Fatal(err)
		}
		age()
		verifyAll("@renewed")
		verifyAll("@renewed2")
		rawAfter := ""
		_ = n.idb.Raw("SELECT raw FROM status_list_credential LIMIT 1").Scan(&rawAfter).Error
		if rawBefore == "" || rawBefore == rawAfter {
			t.Fatal("status scenario: the issuer node did not renew the almost expired status list")
		}
		issuerNode("@after-renewal")
	}
	if strings.HasSuffix(mode, "-after-cache") {
		// an hour passes (the verifier refreshes status lists older than 15 minutes), then only a tampered list / nothing is served:
		// the verifier keeps using the list it verified before, so what was revoked stays revoked
		if err := n.vdb.Exec("UPDATE status_list_credential SET created_at = created_at - 3600").Error; err != nil {
			t.Fatal(err)
		}
		before := n.http.served
		n.http.mode = strings.TrimSuffix(mode, "-after-cache")
		verifyAll("@later")
		if n.http.served == before {
			t.Fatal("status scenario: the verifier did not try to refresh the aged status list")
		}
	}
}

var c01ExtraAddsVC = map[string][]any{
	"/|expirationDate":        {"2020-01-01T00:00:00Z", "2090-01-01T00:00:00Z"},
	"/|credentialStatus":      {map[string]any{"id": "https://example.com/s#1", "type": "StatusList2021Entry", "statusPurpose": "revocation", "statusListIndex": "1", "statusListCredential": "https://example.com/s"}},
	"/|evidence":              {map[string]any{"id": "https://example.com/evidence/1", "type": []any{"DocumentVerification"}}},
	"/|termsOfUse":            {map[string]any{"type": "IssuerPolicy", "id": "https://example.com/policy"}},
	"/|holder":                {didO},
	"/|name":                  {"a name"},
	"/proof|expires":          {"2020-01-01T00:00:00Z", "2090-01-01T00:00:00Z"},
	"/proof|domain":           {"evil.example.com"},
	"/proof|challenge":        {"c"},
	"/proof|nonce":            {"n"},
	"/proof|proofValue":       {"zz"},
	"/credentialSubject|name": {"injected"},
}

var c01ExtraAddsJWT = map[string][]any{
	"/|exp":                {float64(c01T0 - 100), float64(c01T0 + 100000)},
	"/|iat":                {float64(c01T0 + 100000)},
	"/|aud":                {"evil"},
	"/|iss":                {didO},
	"/vc|credentialStatus": c01ExtraAddsVC["/|credentialStatus"],
	"/vp|holder":           {didO},
}

func (n *c01Nodes) mutate(o *c01Out, rnd *rand.Rand, b c01Base, at int64, thorough bool) {
	call := func(m c01Mut, text string) {
		n.run(o, c01Call{kind: b.kind, text: text, at: &at, allowUntrusted: false, checkSig: true, label: b.label + "~" + m.kind + "@" + m.path, base: b.label, mut: m.kind, path: m.path})
	}
	if strings.HasPrefix(strings.TrimSpace(b.text), "{") {
		var root map[string]any
		if err := json.Unmarshal([]byte(b.text), &root); err != nil {
			n.w.t.Fatal(err)
		}
		for _, m := range mutations(root, rnd, c01ExtraAddsVC) {
			call(m, mustJSON(m.tree))
		}
		for _, m := range dupKeySplices(b.text, root, rnd) {
			call(m, m.text)
		}
		// embedded credentials of a presentation: replace / inject / remove whole credentials
		if b.kind == "vp" {
			n.mutateEmbedded(o, b, root, at)
		}
		n.resignLD(o, b, root, at)
		if b.label == "org:ldp_vc" || b.label == "vp-ld[org-ld]" || b.label == "vp-ld[]" || b.label == "based:ldp_vc" {
			n.resignPurposes(o, b, root, at)
		}
		return
	}
	hdr, pl, sig, ok := jwtParts(b.text)
	if !ok {
		n.w.t.Fatal("base JWT does not decode")
	}
	for _, m := range mutations(map[string]any(hdr), rnd, nil) {
		m.kind, m.path = "hdr-"+m.kind, "hdr:"+m.path
		call(m, jwtJoin(m.tree, pl, sig))
	}
	for _, m := range mutations(map[string]any(pl), rnd, c01ExtraAddsJWT) {
		m.kind, m.path = "claim-"+m.kind, "claim:"+m.path
		call(m, jwtJoin(hdr, m.tree, sig))
	}
	// signature part
	flip := []byte(sig)
	if flip[3] == 'A' {
		flip[3] = 'B'
	} else {
		flip[3] = 'A'
	}
	call(c01Mut{kind: "sig-flip", path: "sig"}, jwtJoin(hdr, pl, string(flip)))
	call(c01Mut{kind: "sig-empty", path: "sig"}, jwtJoin(hdr, pl, ""))
	none := deepCopy(map[string]any(hdr)).(map[string]any)
	none["alg"] = "none"
	call(c01Mut{kind: "alg-none", path: "hdr:/alg"}, jwtJoin(none, pl, ""))
	hs := deepCopy(map[string]any(hdr)).(map[string]any)
	hs["alg"] = "HS256"
	call(c01Mut{kind: "alg-hs256", path: "hdr:/alg"}, jwtJoin(hs, pl, sig))
	call(c01Mut{kind: "ws-suffix", path: "text"}, b.text+" ")
	n.resignJWT(o, b, hdr, pl, at)
}

// mixedPresentations: the holder (real wallet, real key) signs presentations whose credential list mixes proof-less
// self-attested credentials with third-party credentials.  The exemption from the signature check is PER CREDENTIAL: a forged
// third-party credential must be rejected wherever it stands in the list.
func (n *c01Nodes) mixedPresentations(o *c01Out, rnd *rand.Rand, creds map[string]string, issuedAt, okAt int64, thorough bool) {
	self := func(i int) string {
		return mustJSON(map[string]any{"@context": []any{ctxVC}, "id": didH + "#self-" + strconv.Itoa(i), "type": []any{"VerifiableCredential"},
			"issuer": didH, "issuanceDate": time.Unix(issuedAt, 0).UTC().Format(time.RFC3339), "credentialSubject": map[string]any{"id": didH}})
	}
	tamperLD := func(text string, f func(m map[string]any)) string {
		var m map[string]any
		_ = json.Unmarshal([]byte(text), &m)
		f(m)
		return mustJSON(m)
	}
	orgLD, orgJWT, humanLD := creds["org:ldp_vc"], creds["org:jwt_vc"], creds["human:ldp_vc"]
	hdr, pl, sig, _ := jwtParts(orgJWT)
	forgedJWT := func() string {
		p2 := deepCopy(map[string]any(pl)).(map[string]any)
		p2["vc"].(map[string]any)["credentialSubject"].([]any)[0].(map[string]any)["organization"].(map[string]any)["name"] = "Forged Hospital"
		return jwtJoin(hdr, p2, sig)
	}()
	var docNoProof map[string]any
	_ = json.Unmarshal([]byte(orgLD), &docNoProof)
	delete(docNoProof, "proof")
	wrongKey, err := proof.NewLDProof(proof.ProofOptions{Created: time.Unix(issuedAt, 0).UTC()}).Sign(n.w.ctx, deepCopy(docNoProof).(map[string]any),
		signature.JSONWebSignature2020{ContextLoader: n.w.loader, Signer: n.w.ks}, didO+"#k1")
	if err != nil {
		n.w.t.Fatal(err)
	}
	others := []struct {
		name, text string
		genuine    bool
	}{
		{"org-ld", orgLD, true}, {"org-jwt", orgJWT, true}, {"human-ld", humanLD, true},
		{"FORGED-tampered-ld", tamperLD(orgLD, func(m map[string]any) {
			m["credentialSubject"].(map[string]any)["organization"].(map[string]any)["name"] = "Forged Hospital"
		}), false},
		{"FORGED-unsigned-ld", mustJSON(docNoProof), false},
		{"FORGED-wrong-key-ld", mustJSON(wrongKey), false},
		{"FORGED-garbage-jws-ld", tamperLD(orgLD, func(m map[string]any) { m["proof"].(map[string]any)["jws"] = "eyJhbGciOiJFUzI1NiJ9..AAAA" }), false},
		{"FORGED-tampered-jwt", forgedJWT, false},
	}
	hd := didH
	exp := issuedAt + 600
	n.setTrust(o, "NutsOrganizationCredential", didI, true)
	emit := func(names []string, texts []string, genuine bool, format string) {
		text := n.present(texts, format, didH, &hd, issuedAt+20, &exp, false)
		label := "vpmix-" + strings.TrimSuffix(strings.TrimPrefix(format, ""), "") + "[" + strings.Join(names, ",") + "]"
		mut := ""
		if !genuine {
			mut = "vp-mix-forged"
		}
		n.run(o, c01Call{kind: "vp", text: text, at: &okAt, allowUntrusted: false, checkSig: true, label: label, base: label, mut: mut, path: strings.Join(names, ",")})
	}
	formats := []string{holder.JSONLDPresentationFormat, holder.JWTPresentationFormat}
	for _, f := range formats {
		emit([]string{"self"}, []string{self(0)}, true, f)
		emit([]string{"self", "self"}, []string{self(0), self(1)}, true, f)
		for _, x := range others {
			emit([]string{"self", x.name}, []string{self(0), x.text}, x.genuine, f)
			emit([]string{x.name, "self"}, []string{x.text, self(0)}, x.genuine, f)
			if !x.genuine {
				emit([]string{x.name}, []string{x.text}, false, f)
				emit([]string{"org-ld", "self", x.name}, []string{orgLD, self(0), x.text}, false, f)
				emit([]string{"self", "human-ld", x.name}, []string{self(0), humanLD, x.text}, false, f)
				emit([]string{"self", x.name, "self"}, []string{self(0), x.text, self(1)}, false, f)
			}
		}
	}
	// wave 8: credentials of MIXED SUBJECTS. The holder signs a presentation that carries credentials about itself together with
	// genuine, valid credentials about somebody else (a copy of a victim's credential), in every position and both formats, with
	// and without a `holder` member: the signer must be the subject of EVERY credential, not of one of them.
	{
		ownLD, ownJWT := creds["plain:ldp_vc"], creds["plain:jwt_vc"]
		victims := []struct{ name, text string }{
			{"VICTIM-ld", n.handIssueTo(didJ, didJ+"#k10", vc.JSONLDCredentialProofFormat, issuedAt, didO, "-victim")},
			{"VICTIM-jwt", n.handIssueTo(didJ, didJ+"#k10", vc.JWTCredentialProofFormat, issuedAt, didO, "-victim")},
			{"VICTIM2-ld", n.handIssueTo(didJ, didJ+"#k10", vc.JSONLDCredentialProofFormat, issuedAt, didI, "-victim2")},
		}
		emitS := func(names, texts []string, foreign bool, format string, withHolder bool) {
			var hp *string
			if withHolder {
				hp = &hd
			}
			text := n.present(texts, format, didH, hp, issuedAt+20, &exp, false)
			label := "vpmixsubj-" + format + map[bool]string{true: "+holder", false: ""}[withHolder] + "[" + strings.Join(names, ",") + "]"
			mut := ""
			if foreign {
				mut = "vp-mix-foreign-subject"
			}
			for _, cs := range []bool{true, false} {
				n.run(o, c01Call{kind: "vp", text: text, at: &okAt, allowUntrusted: true, checkSig: cs, label: label + map[bool]string{true: "", false: "@nosig"}[cs], base: label, mut: mut, path: strings.Join(names, ",")})
			}
		}
		for _, f := range formats {
			for _, wh := range []bool{true, false} {
				emitS([]string{"own-ld", "own-jwt"}, []string{ownLD, ownJWT}, false, f, wh)
				for _, v := range victims {
					emitS([]string{"own-ld", v.name}, []string{ownLD, v.text}, true, f, wh)
					emitS([]string{v.name, "own-jwt"}, []string{v.text, ownJWT}, true, f, wh)
					emitS([]string{"own-ld", v.name, "own-jwt"}, []string{ownLD, v.text, ownJWT}, true, f, wh)
					emitS([]string{v.name, "own-ld", v.name}, []string{v.text, ownLD, v.text}, true, f, wh)
					emitS([]string{"self", v.name}, []string{self(0), v.text}, true, f, wh)
					emitS([]string{v.name}, []string{v.text}, true, f, wh)
				}
				emitS([]string{"VICTIM-ld", "VICTIM2-ld", "own-ld"}, []string{victims[0].text, victims[2].text, ownLD}, true, f, wh)
			}
		}
	}
	// deepening round 3: ENVELOPES of presentations through the first loop of the S2S token handler (auth/api/iam): validity window of the
	// signed dates (3 s, exactly 5 s, 6 s, no expiry) x presenter = subject of every credential x one subject across all presentations
	{
		ownLD, ownJWT := creds["plain:ldp_vc"], creds["plain:jwt_vc"]
		victimO := n.handIssueTo(didJ, didJ+"#k10", vc.JSONLDCredentialProofFormat, issuedAt, didO, "-s2s-victim")
		aboutI := n.handIssueTo(didJ, didJ+"#k10", vc.JSONLDCredentialProofFormat, issuedAt, didI, "-s2s-about-i")
		type s2sVP struct {
			signer string
			names  []string
			texts  []string
			window int64 // seconds between created and expires; <0: no expiry
			holder bool
		}
		envs := []struct {
			tag string
			vps []s2sVP
		}{
			{"same-subject", []s2sVP{{didH, []string{"own-ld", "own-jwt"}, []string{ownLD, ownJWT}, 3, true}, {didH, []string{"own-ld"}, []string{ownLD}, 5, false}}},
			{"other-subject-second", []s2sVP{{didH, []string{"own-ld"}, []string{ownLD}, 3, false}, {didI, []string{"about-i"}, []string{aboutI}, 3, false}}},
			{"empty-first", []s2sVP{{didH, nil, nil, 3, false}, {didH, []string{"own-jwt"}, []string{ownJWT}, 3, true}}},
			{"empty-other-signer-second", []s2sVP{{didH, []string{"own-ld"}, []string{ownLD}, 3, false}, {didI, nil, nil, 3, false}}},
			{"empty-first-other-subject-second", []s2sVP{{didI, nil, nil, 3, false}, {didH, []string{"own-ld"}, []string{ownLD}, 3, false}}},
			{"mixed-subjects", []s2sVP{{didH, []string{"own-ld", "VICTIM"}, []string{ownLD, victimO}, 3, false}}},
			{"mixed-subjects-victim-first", []s2sVP{{didH, []string{"VICTIM", "own-jwt"}, []string{victimO, ownJWT}, 3, true}}},
			{"victim-only", []s2sVP{{didH, []string{"VICTIM"}, []string{victimO}, 3, false}}},
			{"too-long", []s2sVP{{didH, []string{"own-ld"}, []string{ownLD}, 6, false}}},
			{"too-long-second", []s2sVP{{didH, []string{"own-ld"}, []string{ownLD}, 5, false}, {didH, []string{"own-jwt"}, []string{ownJWT}, 600, false}}},
			{"no-expiry", []s2sVP{{didH, []string{"own-ld"}, []string{ownLD}, -1, false}}},
			{"three", []s2sVP{{didH, []string{"own-ld"}, []string{ownLD}, 1, false}, {didH, nil, nil, 0, false}, {didH, []string{"own-ld", "VICTIM", "own-jwt"}, []string{ownLD, victimO, ownJWT}, 2, true}}},
		}
		for _, f := range formats {
			for _, e := range envs {
				expected := ""
				for k, p := range e.vps {
					var hp *string
					if p.holder {
						h := p.signer
						hp = &h
					}
					var ex *int64
					if p.window >= 0 {
						ex = p64(issuedAt + 20 + p.window)
					}
					text := n.present(p.texts, f, p.signer, hp, issuedAt+20, ex, false)
					label := "s2s-" + e.tag + ":" + f + "#" + strconv.Itoa(k) + "[" + strings.Join(p.names, ",") + "]"
					expected = n.runS2S(o, text, expected, label)
					if expected == "" {
						break // the handler returns the error
					}
				}
			}
		}
	}
	// random longer lists
	nRand := 24
	if thorough {
		nRand = 400
	}
	for i := 0; i < nRand; i++ {
		k := 2 + rnd.Intn(3)
		var names, texts []string
		genuine := true
		for j := 0; j < k; j++ {
			if rnd.Intn(3) == 0 {
				names, texts = append(names, "self"), append(texts, self(j))
			} else {
				x := others[rnd.Intn(len(others))]
				names, texts = append(names, x.name), append(texts, x.text)
				genuine = genuine && x.genuine
			}
		}
		emit(names, texts, genuine, formats[rnd.Intn(2)])
	}
}

// multiMutate stacks 2-3 random single-point mutations
func (n *c01Nodes) multiMutate(o *c01Out, rnd *rand.Rand, b c01Base, at int64, i int) {
	depth := 2 + rnd.Intn(2)
	var kinds, paths []string
	step := func(tree map[string]any, extra map[string][]any) map[string]any {
		for d := 0; d < depth; d++ {
			ms := mutations(tree, rnd, extra)
			if len(ms) == 0 {
				break
			}
			m := ms[rnd.Intn(len(ms))]
			next, ok := m.tree.(map[string]any)
			if !ok {
				break
			}
			tree = next
			kinds = append(kinds, m.kind)
			paths = append(paths, m.path)
		}
		return tree
	}
	var text string
	if strings.HasPrefix(strings.TrimSpace(b.text), "{") {
		var root map[string]any
		_ = json.Unmarshal([]byte(b.text), &root)
		text = mustJSON(step(root, c01ExtraAddsVC))
	} else {
		hdr, pl, sig, ok := jwtParts(b.text)
		if !ok {
			return
		}
		if rnd.Intn(4) == 0 {
			text = jwtJoin(step(hdr, nil), pl, sig)
		} else {
			text = jwtJoin(hdr, step(pl, c01ExtraAddsJWT), sig)
		}
	}
	n.run(o, c01Call{kind: b.kind, text: text, at: &at, allowUntrusted: false, checkSig: true,
		label: b.label + "~multi" + strconv.Itoa(i) + ":" + strings.Join(kinds, "+"), base: b.label, mut: "multi:" + strings.Join(kinds, "+"), path: strings.Join(paths, "+")})
}

const c01AttackerContext = `{"@context": {"@version": 1.1,
  "ORGANIZATION": {"@id": "http://schema.org/organization", "@type": "@id",
    "@context": {"@version": 1.1, "city": "http://schema.org/legalname", "name": "http://schema.org/city"}},
  "notTheUserContext": "https://nuts.nl/credentials/v1#userContext"}}`

// strictNode: a verifier wired like vcr.Configure does, with jsonld.NewJSONLDInstance().Configure(core.NewServerConfig()) (strict mode)
func (n *c01Nodes) strictNode(o *c01Out, creds map[string]string, okAt int64) {
	cfg := core.NewServerConfig()
	if !cfg.Strictmode {
		n.w.t.Fatal("strict mode is expected to be the default")
	}
	sj := jsonld.NewJSONLDInstance()
	if err := sj.(core.Configurable).Configure(*cfg); err != nil {
		n.w.t.Fatal(err)
	}
	requests := 0
	attacker := httptest.NewServer(http.HandlerFunc(func(w http.ResponseWriter, r *http.Request) {
		requests++
		w.Header().Set("Content-Type", "application/ld+json")
		_, _ = w.Write([]byte(c01AttackerContext))
	}))
	defer attacker.Close()
	url := attacker.URL + "/context.jsonld"
	sver := verifier.NewVerifier(n.vstore, n.w, n.kr, sj, n.vTrust, revocation.NewStatusList2021(n.vdb, n.http, ""))
	edit := func(text string, f func(m map[string]any)) string {
		var m map[string]any
		_ = json.Unmarshal([]byte(text), &m)
		m["@context"] = append(m["@context"].([]any), url)
		f(m)
		return mustJSON(m)
	}
	org, auth := creds["org:ldp_vc"], creds["auth:ldp_vc"]
	legs := []struct{ label, text, mut string }{
		{"strict:org:ldp_vc", org, ""},
		{"strict:auth:ldp_vc", auth, ""},
		{"strict:org~extra-remote-context", edit(org, func(m map[string]any) {}), "remote-context"},
		{"strict:org~claims-swapped-via-remote-context", edit(org, func(m map[string]any) {
			cs := m["credentialSubject"].(map[string]any)
			o := cs["organization"].(map[string]any)
			delete(cs, "organization")
			cs["ORGANIZATION"] = map[string]any{"name": o["city"], "city": o["name"]}
		}), "remote-context"},
		{"strict:auth~restriction-hidden-via-remote-context", edit(auth, func(m map[string]any) {
			r := m["credentialSubject"].(map[string]any)["resources"]
			var res map[string]any
			if l, ok := r.([]any); ok {
				res = l[0].(map[string]any)
			} else {
				res = r.(map[string]any)
			}
			res["notTheUserContext"] = res["userContext"]
			delete(res, "userContext")
		}), "remote-context"},
	}
	for _, l := range legs {
		n.run(o, c01Call{kind: "vc", text: l.text, at: &okAt, allowUntrusted: false, checkSig: true, label: l.label, base: map[bool]string{true: l.label, false: "strict:org:ldp_vc"}[l.mut == ""], mut: l.mut, ver: sver})
	}
	o.emit(map[string]any{"op": "expect", "label": "strict-mode:no-request-to-unlisted-context-host", "expect": "requests=0", "kind": "strict-mode-context-fetch"},
		"requests="+strconv.Itoa(requests))
}

// handIssue: a plain credential of `issuerDID` for the holder, signed with key `kid` through the real proof builder / JWT signer
func (n *c01Nodes) handIssue(issuerDID, kid, format string, at int64) string {
	return n.handIssueTo(issuerDID, kid, format, at, didH, "")
}

// handIssueTo: a genuine credential of `issuerDID` about `subject` (wave 8: credentials of ANOTHER subject inside a presentation)
func (n *c01Nodes) handIssueTo(issuerDID, kid, format string, at int64, subject, suffix string) string {
	u := ssi.MustParseURI
	id := u(issuerDID + "#" + strings.ReplaceAll(kid[strings.Index(kid, "#")+1:], "#", "") + "-" + format + suffix)
	un := vc.VerifiableCredential{Context: []ssi.URI{u(ctxVC)}, ID: &id, Type: []ssi.URI{u("VerifiableCredential")}, Issuer: u(issuerDID),
		IssuanceDate: time.Unix(at, 0).UTC(), CredentialSubject: []any{map[string]any{"id": subject}}}
	if format == vc.JWTCredentialProofFormat {
		c, err := vc.CreateJWTVerifiableCredential(n.w.ctx, un, func(ctx context.Context, claims map[string]interface{}, headers map[string]interface{}) (string, error) {
			return n.w.ks.SignJWT(ctx, claims, headers, kid)
		})
		if err != nil {
			n.w.t.Fatal(err)
		}
		return c.Raw()
	}
	b, _ := json.Marshal(un)
	var m map[string]any
	_ = json.Unmarshal(b, &m)
	signed, err := proof.NewLDProof(proof.ProofOptions{Created: un.IssuanceDate}).Sign(n.w.ctx, m, signature.JSONWebSignature2020{ContextLoader: n.w.loader, Signer: n.w.ks}, kid)
	if err != nil {
		n.w.t.Fatal(err)
	}
	return mustJSON(signed)
}

// handIssueHuman: a HumanCredential (trust is required for its type) about the holder, signed by hand with the given issuer's key
func (n *c01Nodes) handIssueHuman(issuerDID, kid, format string, at int64) string {
	u := ssi.MustParseURI
	id := u(issuerDID + "#human-" + format)
	un := vc.VerifiableCredential{Context: []ssi.URI{u(ctxVC), u(ctxEx)}, ID: &id, Type: []ssi.URI{u("VerifiableCredential"), u("HumanCredential")}, Issuer: u(issuerDID),
		IssuanceDate: time.Unix(at, 0).UTC(), CredentialSubject: []any{map[string]any{"id": didH, "human": map[string]any{"eyeColour": "grey", "hairColour": "red"}}}}
	if format == vc.JWTCredentialProofFormat {
		c, err := vc.CreateJWTVerifiableCredential(n.w.ctx, un, func(ctx context.Context, claims map[string]interface{}, headers map[string]interface{}) (string, error) {
			return n.w.ks.SignJWT(ctx, claims, headers, kid)
		})
		if err != nil {
			n.w.t.Fatal(err)
		}
		return c.Raw()
	}
	b, _ := json.Marshal(un)
	var m map[string]any
	_ = json.Unmarshal(b, &m)
	signed, err := proof.NewLDProof(proof.ProofOptions{Created: un.IssuanceDate}).Sign(n.w.ctx, m, signature.JSONWebSignature2020{ContextLoader: n.w.loader, Signer: n.w.ks}, kid)
	if err != nil {
		n.w.t.Fatal(err)
	}
	return mustJSON(signed)
}

// resignJWT: the same claims signed again by other keys (the attacker's, the issuer's authentication-only key, a key of another version)
func (n *c01Nodes) resignJWT(o *c01Out, b c01Base, hdr, pl map[string]any, at int64) {
	for _, kid := range []string{didO + "#k1", didI + "#k3", didI + "#k2", didI + "#k1b", didIp + "#k1", didIx + "#k1", didJp + "#k1", didJx + "#k1", didRt + "#k1", didB + "#k2", didB + "#k3"} {
		h := map[string]any{}
		for k, v := range hdr {
			if k != "kid" && k != "alg" {
				h[k] = v
			}
		}
		tok, err := n.w.ks.SignJWT(n.w.ctx, pl, h, kid)
		if err != nil {
			n.w.t.Fatal(err)
		}
		n.run(o, c01Call{kind: b.kind, text: tok, at: &at, allowUntrusted: false, checkSig: true, label: b.label + "~resign:" + kid, base: b.label, mut: "resign", path: kid})
		// and the same token but with the kid header naming the original key id / no kid
		th, tp, ts, _ := jwtParts(tok)
		th2 := deepCopy(map[string]any(th)).(map[string]any)
		th2["kid"] = hdr["kid"]
		n.run(o, c01Call{kind: b.kind, text: jwtJoin(th2, tp, ts), at: &at, allowUntrusted: false, checkSig: true, label: b.label + "~resign-kid-orig:" + kid, base: b.label, mut: "resign-kid-orig", path: kid})
		th3 := deepCopy(map[string]any(th)).(map[string]any)
		delete(th3, "kid")
		n.run(o, c01Call{kind: b.kind, text: jwtJoin(th3, tp, ts), at: &at, allowUntrusted: false, checkSig: true, label: b.label + "~resign-no-kid:" + kid, base: b.label, mut: "resign-no-kid", path: kid})
	}
}

// resignPurposes: fresh proofs with every proofPurpose value, by keys that sit in exactly one verification relationship each.  Which
// relationship the verifier consults is NOT the signer's choice: only assertionMethod keys sign credentials and presentations.
func (n *c01Nodes) resignPurposes(o *c01Out, b c01Base, root map[string]any, at int64) {
	doc := map[string]any{}
	for k, v := range root {
		if k != "proof" {
			doc[k] = deepCopy(v)
		}
	}
	kids := []string{didI + "#k1" /* assertion (+authentication) */, didI + "#k3" /* authentication */, didI + "#k4" /* capabilityInvocation */, didI + "#k5" /* keyAgreement */}
	if b.kind == "vp" {
		kids = []string{didH + "#k1" /* assertion */, didH + "#k2" /* authentication */}
	}
	if strings.HasPrefix(b.label, "based:") {
		kids = []string{didB + "#k1" /* assertion */, didB + "#k2" /* authentication */}
	}
	for _, kid := range kids {
		for _, purpose := range []string{"assertionMethod", "authentication", "capabilityInvocation", "capabilityDelegation", "keyAgreement", "anythingElse"} {
			opts := proof.ProofOptions{Created: time.Unix(b.issued, 0).UTC(), ProofPurpose: purpose}
			signed, err := proof.NewLDProof(opts).Sign(n.w.ctx, deepCopy(doc).(map[string]any), signature.JSONWebSignature2020{ContextLoader: n.w.loader, Signer: n.w.ks}, kid)
			if err != nil {
				n.w.t.Fatal(err)
			}
			n.run(o, c01Call{kind: b.kind, text: mustJSON(signed), at: &at, allowUntrusted: false, checkSig: true,
				label: b.label + "~resign-purpose:" + purpose + ":" + kid, base: b.label, mut: "resign-purpose", path: purpose + ":" + kid})
			if b.kind == "vc" {
				n.run(o, c01Call{kind: "vc", text: mustJSON(signed), at: &at, allowUntrusted: true, checkSig: true, via: "sig",
					label: b.label + "~resign-purpose-sig:" + purpose + ":" + kid, base: b.label, mut: "resign-purpose", path: purpose + ":" + kid})
			}
		}
	}
}

// resignLD: the same document with a fresh proof by other keys
func (n *c01Nodes) resignLD(o *c01Out, b c01Base, root map[string]any, at int64) {
	doc := map[string]any{}
	for k, v := range root {
		if k != "proof" {
			doc[k] = deepCopy(v)
		}
	}
	for _, kid := range []string{didO + "#k1", didI + "#k3", didI + "#k2", didI + "#k1b", didH + "#k1", didIp + "#k1", didIx + "#k1", didJp + "#k1", didJx + "#k1", didRt + "#k1", didB + "#k2", didB + "#k3"} {
		opts := proof.ProofOptions{Created: time.Unix(b.issued, 0).UTC()}
		signed, err := proof.NewLDProof(opts).Sign(n.w.ctx, deepCopy(doc).(map[string]any), signature.JSONWebSignature2020{ContextLoader: n.w.loader, Signer: n.w.ks}, kid)
		if err != nil {
			n.w.t.Fatal(err)
		}
		text := mustJSON(signed)
		n.run(o, c01Call{kind: b.kind, text: text, at: &at, allowUntrusted: false, checkSig: true, label: b.label + "~resign:" + kid, base: b.label, mut: "resign", path: kid})
		// proof claims the original verification method although another key signed
		var m map[string]any
		_ = json.Unmarshal([]byte(text), &m)
		if op, ok := root["proof"].(map[string]any); ok {
			m["proof"].(map[string]any)["verificationMethod"] = op["verificationMethod"]
			n.run(o, c01Call{kind: b.kind, text: mustJSON(m), at: &at, allowUntrusted: false, checkSig: true, label: b.label + "~resign-vm-orig:" + kid, base: b.label, mut: "resign-vm-orig", path: kid})
		}
	}
}

func (n *c01Nodes) mutateEmbedded(o *c01Out, b c01Base, root map[string]any, at int64) {
	// other credentials with the same subject (issued by the same issuer), and one for another subject
	u := ssi.MustParseURI
	other := vc.VerifiableCredential{Context: []ssi.URI{u(ctxVC), u(ctxNut)}, Type: []ssi.URI{u("NutsOrganizationCredential")}, Issuer: u(didI),
		CredentialSubject: []any{map[string]any{"id": didH, "organization": map[string]any{"name": "Injected", "city": "Elsewhere"}}}}
	foreign := other
	foreign.CredentialSubject = []any{map[string]any{"id": didO, "organization": map[string]any{"name": "Foreign", "city": "Elsewhere"}}}
	var inj []any
	for _, t := range []vc.VerifiableCredential{other, foreign} {
		for _, f := range []string{vc.JSONLDCredentialProofFormat, vc.JWTCredentialProofFormat} {
			text := n.issue(t, f, b.issued-10)
			if f == vc.JWTCredentialProofFormat {
				inj = append(inj, text)
			} else {
				var m any
				_ = json.Unmarshal([]byte(text), &m)
				inj = append(inj, m)
			}
		}
	}
	names := []string{"same-subject-ld", "same-subject-jwt", "other-subject-ld", "other-subject-jwt"}
	cur, _ := root["verifiableCredential"]
	var list []any
	switch x := cur.(type) {
	case []any:
		list = x
	case nil:
	default:
		list = []any{x}
	}
	call := func(kind, p string, tree map[string]any) {
		n.run(o, c01Call{kind: "vp", text: mustJSON(tree), at: &at, allowUntrusted: false, checkSig: true, label: b.label + "~" + kind + "@" + p, base: b.label, mut: kind, path: p})
	}
	for i, c := range inj {
		cp := deepCopy(root).(map[string]any)
		cp["verifiableCredential"] = append(append([]any{}, list...), c)
		call("vc-inject:"+names[i], "/verifiableCredential", cp)
		cp = deepCopy(root).(map[string]any)
		cp["verifiableCredential"] = []any{c}
		call("vc-replace:"+names[i], "/verifiableCredential", cp)
		// the same, but smuggled in under member names that only differ by case from the signed member
		for _, fv := range foldVariants("verifiableCredential") {
			cp = deepCopy(root).(map[string]any)
			cp[fv] = []any{c}
			call("vc-fold-replace:"+names[i]+":"+fv, "/verifiableCredential", cp)
		}
	}
}

func (n *c01Nodes) scan(o *c01Out, rnd *rand.Rand, bases []c01Base, thorough bool) {
	skew := int64(5)
	for _, b := range bases {
		times := []int64{b.issued - skew - 1, b.issued - skew, b.issued - 1, b.issued, b.issued + 1,
			c01T0 + 999, c01T0 + 1000, c01T0 + 1499, c01T0 + 1500, c01T0 + 1501, c01T0 + 1999, c01T0 + 2000, c01T0 + 2001, c01T0 + 2999, c01T0 + 3000, c01T0 - 1000, c01T0 - 1001}
		if b.expires != nil {
			e := *b.expires
			times = append(times, e-1, e, e+1, e+skew, e+skew+1)
		}
		for _, t := range times {
			t := t
			n.run(o, c01Call{kind: b.kind, text: b.text, at: &t, allowUntrusted: false, checkSig: true, label: b.label + "@t", base: b.label, mut: "time", path: strconv.FormatInt(t-c01T0, 10)})
		}
		// ... and back again on the SAME long-lived verifier: after verifications at times at which later keys / later document versions
		// were valid, an earlier validation time still gets the answer of that earlier time (nothing is remembered across calls)
		for _, t := range []int64{b.issued + 2, c01T0 + 2500, b.issued + 3, c01T0 + 3500} {
			t := t
			n.run(o, c01Call{kind: b.kind, text: b.text, at: &t, allowUntrusted: false, checkSig: true, label: b.label + "@t-again", base: b.label, mut: "time", path: strconv.FormatInt(t-c01T0, 10)})
			if b.kind == "vc" {
				n.run(o, c01Call{kind: "vc", text: b.text, at: &t, allowUntrusted: true, checkSig: true, via: "sig", label: b.label + "@t-sig", base: b.label, mut: "time", path: strconv.FormatInt(t-c01T0, 10)})
			}
		}
		t := b.issued + 30
		n.run(o, c01Call{kind: b.kind, text: b.text, at: &t, allowUntrusted: true, checkSig: false, label: b.label + "@nosig", base: b.label, mut: "flags", path: "allowUntrusted,noSig"})
	}
	// trust removed -> untrusted when trust is required, accepted when not
	n.setTrust(o, "NutsOrganizationCredential", didI, false)
	t := c01T0 + 130
	for _, b := range bases {
		for _, au := range []bool{false, true} {
			n.run(o, c01Call{kind: b.kind, text: b.text, at: &t, allowUntrusted: au, checkSig: true, label: b.label + "@trust", base: b.label, mut: "trust", path: strconv.FormatBool(au)})
		}
	}
	n.setTrust(o, "NutsOrganizationCredential", didI, true)
	// revocation by the issuer node, registered on the verifier node
	for _, b := range bases {
		if b.kind != "vc" || !strings.HasPrefix(b.label, "org:") && !strings.HasPrefix(b.label, "human:ldp") {
			continue
		}
		c, err := vc.ParseVerifiableCredential(b.text)
		if err != nil || c.ID == nil {
			continue
		}
		n.revoke(o, c.ID.String())
	}
	for _, b := range bases {
		n.run(o, c01Call{kind: b.kind, text: b.text, at: &t, allowUntrusted: false, checkSig: true, label: b.label + "@revoked", base: b.label, mut: "revoked", path: ""})
	}
}

// replay re-runs the verification ops of an ops file (documents are carried in the ops)
func (n *c01Nodes) replay(o *c01Out, file string, prefix string) {
	data, err := os.ReadFile(file)
	if err != nil {
		n.w.t.Fatal(err)
	}
	for _, ln := range strings.Split(string(data), "\n") {
		if strings.TrimSpace(ln) == "" {
			continue
		}
		var op map[string]any
		if json.Unmarshal([]byte(ln), &op) != nil {
			continue
		}
		str := func(k string) string { s, _ := op[k].(string); return s }
		switch str("op") {
		case "world":
			n.emitWorld(o)
		case "trust":
			add, _ := op["add"].(bool)
			n.setTrust(o, str("type"), str("issuer"), add)
		case "revoke":
			n.revoke(o, str("id"))
		case "restart":
			n.restartVerifier(o)
		case "trustfile":
			var rows [][]string
			if m, ok := op["content"].(map[string]any); ok {
				for t, l := range m {
					row := []string{t}
					if arr, ok := l.([]any); ok {
						for _, x := range arr {
							if sx, ok := x.(string); ok {
								row = append(row, sx)
							}
						}
					}
					rows = append(rows, row)
				}
			}
			n.trustFile(o, rows)
		case "case-variant":
			c01CaseVariantOp(o, prefix+str("label"), str("text"), str("into"))
		case "regrev":
			var rv credential.Revocation
			if json.Unmarshal([]byte(str("text")), &rv) == nil {
				n.regRev(o, prefix+str("label"), rv)
			}
		case "s2s-vp":
			n.runS2S(o, str("text"), str("expected"), prefix+str("label"))
		case "revstore":
			var docs []bool
			if arr, ok := op["docs"].([]any); ok {
				for _, x := range arr {
					b, _ := x.(bool)
					docs = append(docs, b)
				}
			}
			fault, _ := op["fault"].(bool)
			near, _ := op["near"].(bool)
			if n.revleg == nil {
				n.revleg = newC01RevLeg(n.w.t, "r")
			}
			n.revleg.op(o, prefix+str("label"), docs, fault, near)
		case "vc", "vp":
			c := c01Call{kind: str("op"), text: str("text"), label: prefix + str("label"), base: prefix + str("base"), mut: str("mut"), path: str("path")}
			c.allowUntrusted, _ = op["allowUntrusted"].(bool)
			c.checkSig, _ = op["checkSig"].(bool)
			if f, ok := op["at"].(float64); ok {
				c.at = p64(int64(f) / 1000)
			}
			c.via = str("via")
			if b, ok := op["option"].(bool); ok {
				c.option = &b
			}
			if sf, ok := op["storeFails"].(bool); ok {
				inner := str("storeFault") != ""
				n.fstore.fail, n.fstore.failInner = sf && !inner, sf && inner
			}
			n.run(o, c)
		}
	}
}

var _ = errors.New
var _ = fmt.Sprintf
var _ = jwa.ES256
