//go:build verif

package verifier

// C17 (deepening round): JSON-LD documents with members that encoding/json reads as ANOTHER member (names equal under Unicode
// simple case folding: LONG S U+017F -> s, KELVIN SIGN U+212A -> k, ASCII case) while the JSON-LD canonicalisation drops them as
// undefined, hence unsigned, terms. Two legs, called from TestVerifC17VcJwt:
//   ambig     the real ambiguousMember on random JSON trees over a colliding name pool      vs model ambVal
//   vcldfold  the real signatureVerifier.jsonldProof on an issuer-signed document to which a third party added such a member at
//             every nesting level (top, subject, subject.inner, subject.items[0], proof)     vs model vcJsonLdDoc
// Verdicts for the oracle: `conflated` (pairwise strings.EqualFold over every object), `reads_differ` (what a Go struct decode of
// the document reads differs from what it reads of the signed document).

import (
	"bufio"
	"encoding/json"
	"fmt"
	"math/rand"
	"reflect"
	"strings"
	"time"
	"testing"

	govc "github.com/nuts-foundation/go-did/vc"
	"github.com/nuts-foundation/nuts-node/audit"
	"github.com/nuts-foundation/nuts-node/vcr/signature"
	"github.com/nuts-foundation/nuts-node/vcr/signature/proof"
	"github.com/nuts-foundation/nuts-node/vdr/resolver"
	"go.uber.org/mock/gomock"
	"crypto"
)

// independent statement of "encoding/json would conflate two members of one object", at any depth
type vcVerifiableCredential = govc.VerifiableCredential
type vcVerifiablePresentation = govc.VerifiablePresentation

func vC17Conflated(v interface{}) bool {
	switch x := v.(type) {
	case map[string]interface{}:
		names := make([]string, 0, len(x))
		for n := range x {
			names = append(names, n)
		}
		for i := range names {
			for j := i + 1; j < len(names); j++ {
				if strings.EqualFold(names[i], names[j]) {
					return true
				}
			}
		}
		for _, c := range x {
			if vC17Conflated(c) {
				return true
			}
		}
	case []interface{}:
		for _, c := range x {
			if vC17Conflated(c) {
				return true
			}
		}
	}
	return false
}

var vC17NamePool = []string{"encodedList", "encodedLiſt", "ENCODEDLIST", "encodedlist", "ENCODEDLIſT", "kind", "Kind", "Kind", "KIND", "id", "ID", "Id", "type",
	"中", "中2", "s", "S", "ſ", "k", "K", "K", "x", "y", "statusPurpose", "statuſPurpose", "sk", "SK", "ſk", "", "a.b", "Z", "z"}

func vC17RandTree(r *rand.Rand, depth int) interface{} {
	switch k := r.Intn(10); {
	case depth >= 3 || k < 3:
		return []interface{}{"v", 1.0, true, nil}[r.Intn(4)]
	case k < 5:
		n := r.Intn(4)
		a := make([]interface{}, n)
		for i := range a {
			a[i] = vC17RandTree(r, depth+1)
		}
		return a
	default:
		n := r.Intn(5)
		m := map[string]interface{}{}
		for i := 0; i < n; i++ {
			m[vC17NamePool[r.Intn(len(vC17NamePool))]] = vC17RandTree(r, depth+1)
		}
		return m
	}
}

type vC17ProbeInner struct {
	Kind        string `json:"kind"`
	EncodedList string `json:"encodedList"`
}
type vC17Probe struct {
	Title   string `json:"title"`
	Issuer  string `json:"issuer"`
	Subject struct {
		Kind        string           `json:"kind"`
		EncodedList string           `json:"encodedList"`
		Inner       vC17ProbeInner   `json:"inner"`
		Items       []vC17ProbeInner `json:"items"`
	} `json:"subject"`
	Proof struct {
		JWS          string `json:"jws"`
		ProofPurpose string `json:"proofPurpose"`
	} `json:"proof"`
}

func vC17Reads(doc interface{}) vC17Probe {
	var p vC17Probe
	b, _ := json.Marshal(doc)
	_ = json.Unmarshal(b, &p)
	return p
}

func vC17FoldLeg(t *testing.T, ops, impl *bufio.Writer, only map[string]bool, seed int64, tier string, svld *signatureVerifier, newParty func(string) string,
	signSuite signature.JSONWebSignature2020, now time.Time, ctrl *gomock.Controller) int {
	n := 0
	emit := func(op map[string]interface{}, res string) {
		b, _ := json.Marshal(op)
		ops.Write(b)
		ops.WriteByte('\n')
		impl.WriteString(res + "\n")
		n++
	}
	// ---------------- resolvekid: the REAL resolveSigningKey with a resolver that records the kid it is asked for
	{
		asked := ""
		rec := resolver.NewMockKeyResolver(ctrl)
		rec.EXPECT().ResolveKeyByID(gomock.Any(), gomock.Any(), resolver.NutsSigningKeyType).DoAndReturn(
			func(kid string, _ *resolver.ResolveMetadata, _ resolver.RelationType) (crypto.PublicKey, error) {
				asked = kid
				return nil, resolver.ErrKeyNotFound
			}).AnyTimes()
		svk := signatureVerifier{keyResolver: rec}
		issuers := []string{"did:jwk:eyJrdHkiOiJFQyJ9", "did:web:example.com:iam:alice", "did:nuts:alice", "did:jwk:", "did:jwk", "DID:JWK:x", "did:jwk:a#0", "did:jwkx:a", "", "x#y", "did:web:example.com:did:jwk:users"}
		i := 0
		for _, iss := range issuers {
			for _, kid := range []string{"", iss, iss + "#0", iss + "#key-1", iss + "2", iss + "#", "#0", "did:jwk:other", "did:jwk:other#0", "did:jwk:" + iss, "did:web:mallory#did:jwk:", iss + "#a#b", "did:web:x:did:jwk:y", "xdid:jwk:a", iss + ":did:jwk:z", "did:jwk"} {
				name := fmt.Sprintf("resolvekid-%d", i)
				i++
				if len(only) > 0 && !only["|"+name] {
					continue
				}
				asked = "<not asked>"
				res := "panic"
				func() {
					defer func() { _ = recover() }()
					_, _ = svk.resolveSigningKey(kid, iss, &resolver.ResolveMetadata{})
					res = asked
				}()
				passes := kid == "" || strings.Split(kid, "#")[0] == iss
				emit(map[string]interface{}{"op": "resolvekid", "name": name, "kid": kid, "issuer": iss, "passes_issuer_test": passes}, res)
			}
		}
	}

	// ---------------- ambig
	r := rand.New(rand.NewSource(seed*31 + 7))
	trees := 300
	if tier == "thorough" {
		trees = 3000
	}
	for i := 0; i < trees; i++ {
		tree := vC17RandTree(r, 0)
		if i%3 == 0 { // always an object at the top, with a nested subject
			tree = map[string]interface{}{"credentialSubject": vC17RandTree(r, 1), "proof": vC17RandTree(r, 1), "type": []interface{}{vC17RandTree(r, 2)}}
		}
		name := fmt.Sprintf("ambig-%d", i)
		if len(only) > 0 && !only["|"+name] {
			continue
		}
		res := "clean"
		func() {
			defer func() {
				if p := recover(); p != nil {
					res = "panic"
				}
			}()
			if ambiguousMember(tree) != "" {
				res = "ambiguous"
			}
		}()
		emit(map[string]interface{}{"op": "ambig", "name": name, "doc": tree, "conflated": vC17Conflated(tree)}, res)
	}

	// ---------------- casevar (deepening round 3): the REAL caseVariantMember(document, decodedInto) — the reflect loop over the json tags of
	// the decoded Go type in front of ambiguousMember — vs model CaseVar.caseVariantMember. Types: go-did's VerifiableCredential /
	// VerifiablePresentation as value, pointer, pointer to pointer; nil; a map; a string; a local struct with every tag shape. Documents: top-level
	// members drawn from case / LONG S / KELVIN variants of the field names, with random subtrees (so the ambiguousMember tail also speaks).
	{
		type tagStruct struct {
			A string `json:"issuer"`
			B string `json:"kind,omitempty"`
			C string `json:"-"`
			D string `json:",omitempty"`
			E string
			F string `json:"-,"`
			G string `json:"statusPurpose,string"`
			H string `xml:"x" json:"encodedList"`
			i string `json:"sk"`
			J string `json:"a.b,omitempty,string"`
		}
		var vcNilPtr *vcVerifiableCredential
		vcPtr := &vcVerifiableCredential{}
		types := []struct {
			name string
			v    any
		}{
			{"vc-value", vcVerifiableCredential{}}, {"vc-ptr", vcPtr}, {"vc-ptrptr", &vcPtr}, {"vc-nilptr", vcNilPtr}, {"vp-value", vcVerifiablePresentation{}},
			{"vp-ptr", &vcVerifiablePresentation{}}, {"tagstruct", tagStruct{}}, {"tagstruct-ptr", &tagStruct{}}, {"nil", nil}, {"map", map[string]interface{}{}},
			{"string", "x"}, {"ptr-to-map", &map[string]interface{}{}}, {"empty-struct", struct{}{}},
		}
		describe := func(v any) map[string]interface{} {
			ty := reflect.TypeOf(v)
			ptr := 0
			for ty != nil && ty.Kind() == reflect.Pointer {
				ty = ty.Elem()
				ptr++
			}
			d := map[string]interface{}{"ptr": ptr, "kind": "other", "tags": []string{}}
			if ty == nil {
				d["kind"] = "nil"
			} else if ty.Kind() == reflect.Struct {
				d["kind"] = "struct"
				tags := []string{}
				for i := 0; i < ty.NumField(); i++ {
					tags = append(tags, ty.Field(i).Tag.Get("json"))
				}
				d["tags"] = tags
			}
			return d
		}
		// independent statement: some top-level member is not the JSON name of a field but strings.EqualFold to one
		variantOf := func(doc map[string]interface{}, d map[string]interface{}) bool {
			tags, _ := d["tags"].([]string)
			for _, tg := range tags {
				f := tg
				if i := strings.IndexByte(tg, ','); i >= 0 {
					f = tg[:i]
				}
				if f == "" || f == "-" {
					continue
				}
				for m := range doc {
					if m != f && strings.EqualFold(m, f) {
						return true
					}
				}
			}
			return false
		}
		pool := []string{"issuer", "Issuer", "ISSUER", "iſsuer", "type", "Type", "TYPE", "@context", "@Context", "proof", "Proof", "PROOF", "credentialSubject", "credentialſubject",
			"CredentialSubject", "id", "ID", "Id", "kind", "Kind", "KIND", "encodedList", "encodedLiſt", "ENCODEDLIST", "statusPurpose", "ſtatusPurpose", "sk", "SK", "ſK",
			"-", "", "x", "holder", "Holder", "verifiableCredential", "VerifiableCredential", "issuanceDate", "iſſuanceDate", "expirationDate", "credentialStatus", "CredentialStatuſ",
			"a.b", "A.B", "E", "e", "A", "a", "d", "D", "kind,omitempty", "中"}
		rc := rand.New(rand.NewSource(seed*131 + 19))
		docs := 12
		if tier == "thorough" {
			docs = 80
		}
		i := 0
		for _, ty := range types {
			d := describe(ty.v)
			for k := 0; k < docs; k++ {
				doc := map[string]interface{}{}
				for nm := rc.Intn(5); nm > 0; nm-- {
					var val interface{} = true
					if rc.Intn(4) == 0 {
						val = vC17RandTree(rc, 2)
					}
					doc[pool[rc.Intn(len(pool))]] = val
				}
				if k == 0 {
					doc = map[string]interface{}{}
				}
				name := fmt.Sprintf("casevar-%d-%s", i, ty.name)
				i++
				if len(only) > 0 && !only["|"+name] {
					continue
				}
				res := "clean"
				func() {
					defer func() {
						if p := recover(); p != nil {
							res = "panic"
						}
					}()
					if caseVariantMember(proof.SignedDocument(doc), ty.v) != "" {
						res = "found"
					}
				}()
				emit(map[string]interface{}{"op": "casevar", "name": name, "ty": d, "doc": doc, "variant": variantOf(doc, d), "conflated": vC17Conflated(doc)}, res)
			}
		}
	}

	// ---------------- vcldfold
	issuer := "did:web:example.com:iam:alice"
	kid := newParty(issuer)
	document := map[string]interface{}{
		"@context": []interface{}{map[string]interface{}{"title": "http://schema.org#title", "issuer": "http://schema.org#author", "subject": "http://schema.org#about",
			"kind": "http://schema.org#kind", "encodedList": "http://schema.org#list", "inner": "http://schema.org#inner", "items": "http://schema.org#items"}},
		"title": "status list", "issuer": issuer,
		"subject": map[string]interface{}{"kind": "StatusList2021", "encodedList": "SIGNED-LIST",
			"inner": map[string]interface{}{"kind": "inner-kind", "encodedList": "SIGNED-INNER"},
			"items": []interface{}{map[string]interface{}{"kind": "item-kind", "encodedList": "SIGNED-ITEM"}}},
	}
	res0, err := proof.NewLDProof(proof.ProofOptions{Created: now.Add(-time.Second), ProofPurpose: "assertionMethod"}).Sign(audit.TestContext(), document, signSuite, kid)
	if err != nil {
		t.Fatal(err)
	}
	signedJSON, _ := json.Marshal(res0)
	signedReads := vC17Reads(res0)
	if signedReads.Subject.Inner.EncodedList != "SIGNED-INNER" || len(signedReads.Subject.Items) != 1 || signedReads.Proof.JWS == "" {
		t.Fatalf("probe does not read the signed document: %+v", signedReads)
	}
	longS := func(s string) string { return strings.Replace(s, "s", "ſ", 1) }
	kelvin := func(s string) string { return strings.Replace(s, "k", "K", 1) }
	variants := []struct {
		name string
		f    func(string) string
	}{
		{"long-s", longS}, {"kelvin", kelvin}, {"upper", strings.ToUpper}, {"lower", strings.ToLower}, {"title", func(s string) string { return strings.ToUpper(s[:1]) + s[1:] }},
		{"upper-long-s", func(s string) string { return strings.Replace(strings.ToUpper(s), "S", "ſ", 1) }},
		{"upper-kelvin", func(s string) string { return strings.Replace(strings.ToUpper(s), "K", "K", 1) }},
		{"control-suffix", func(s string) string { return s + "2" }}, {"control-other-letter", func(s string) string { return "q" + s[1:] }},
	}
	levels := []struct {
		name  string
		path  []interface{}
		bases []string
	}{
		{"top", nil, []string{"issuer", "title", "subject"}},
		{"subject", []interface{}{"subject"}, []string{"encodedList", "kind"}},
		{"subject.inner", []interface{}{"subject", "inner"}, []string{"encodedList", "kind"}},
		{"subject.items[0]", []interface{}{"subject", "items", 0}, []string{"encodedList", "kind"}},
		{"proof", []interface{}{"proof"}, []string{"jws", "proofPurpose"}},
	}
	run := func(name, class string, doc map[string]interface{}) {
		if len(only) > 0 && !only["vcldfold|"+name] {
			return
		}
		res := "reject"
		func() {
			defer func() {
				if p := recover(); p != nil {
					res = "panic"
				}
			}()
			if err := svld.jsonldProof(doc, issuer, nil); err == nil {
				res = "accept"
			}
		}()
		emit(map[string]interface{}{"op": "consume", "c": "vcldfold", "name": name, "class": class, "halg": "ES256", "by": "signer", "issuer": issuer, "doc": doc,
			"conflated": vC17Conflated(doc), "reads_differ": !reflect.DeepEqual(vC17Reads(doc), signedReads),
			"v": map[string]interface{}{"docok": true, "structvariant": false, "vm": kid, "keyfound": true, "validat": true, "keyalg": "ES256", "fits": true, "canon": true,
				"parts": 2, "sigdecodes": true, "verified": true, "proofobj": true, "nproofs": 1}}, res)
	}
	fresh := func() map[string]interface{} {
		d := map[string]interface{}{}
		_ = json.Unmarshal(signedJSON, &d)
		return d
	}
	run("fold-untouched", "valid", fresh())
	for _, lv := range levels {
		for _, base := range lv.bases {
			for _, vr := range variants {
				added := vr.f(base)
				if added == base {
					continue
				}
				doc := fresh()
				var at interface{} = doc
				for _, p := range lv.path {
					switch k := p.(type) {
					case string:
						at = at.(map[string]interface{})[k]
					case int:
						at = at.([]interface{})[k]
					}
				}
				at.(map[string]interface{})[added] = "ATTACKER-CHOSEN"
				class := "fold-variant"
				if strings.HasPrefix(vr.name, "control") {
					class = "undefined-member"
				}
				run(fmt.Sprintf("fold-%s-%s-%s", lv.name, base, vr.name), class, doc)
			}
		}
	}
	return n
}
