//go:build verif

package verifier

import "github.com/nuts-foundation/go-leia/v4"

// C01: in-package shim (export_test pattern) that lets the external C01 harness (package verifier_test) call the unexported
// case-variant guard of jsonldProof directly.
var VerifCaseVariantMember = caseVariantMember
var VerifFoldRune = foldRune

// deepening round 3: the revocation lookup on a bare verifier over a given store (IsRevoked / GetRevocation use v.store only), and a raw
// insert into the real store's revocation collection (a stored document that does not decode cannot be made through StoreRevocation)
func VerifRevLookup(s Store) Verifier { return &verifier{store: s} }

func VerifAddRawRevocation(s Store, doc []byte) error {
	return s.(*leiaVerifierStore).revocationCollection().Add([]leia.Document{doc})
}
