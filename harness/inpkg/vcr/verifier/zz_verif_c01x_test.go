//go:build verif

package verifier

// C01: in-package shim (export_test pattern) that lets the external C01 harness (package verifier_test) call the unexported
// case-variant guard of jsonldProof directly.
var VerifCaseVariantMember = caseVariantMember
var VerifFoldRune = foldRune
