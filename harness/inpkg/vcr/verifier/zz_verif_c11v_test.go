//go:build verif

// C11 correspondence harness, verifier side (injected with `go test -overlay`; nothing is written into /repo).
// Real vcr/verifier (RegisterRevocation, IsRevoked, Verify with soft-failing credentialStatus check) on a real leia store
// with really signed (JsonWebSignature2020) and forged revocation documents.
package verifier

import (
	"bufio"
	"bytes"
	"compress/gzip"
	"context"
	"crypto"
	"crypto/ecdsa"
	"encoding/base64"
	"encoding/json"
	"errors"
	"fmt"
	"io"
	"math/rand"
	"net/http"
	"os"
	"path"
	"path/filepath"
	"sort"
	"strconv"
	"strings"
	"testing"
	"time"

	ssi "github.com/nuts-foundation/go-did"
	"github.com/nuts-foundation/go-did/did"
	"github.com/nuts-foundation/go-did/vc"
	"github.com/nuts-foundation/nuts-node/audit"
	nutsCrypto "github.com/nuts-foundation/nuts-node/crypto"
	"github.com/nuts-foundation/nuts-node/crypto/dpop"
	"github.com/nuts-foundation/nuts-node/crypto/storage/spi"
	"github.com/nuts-foundation/nuts-node/jsonld"
	"github.com/nuts-foundation/nuts-node/storage"
	"github.com/nuts-foundation/nuts-node/storage/orm"
	testio "github.com/nuts-foundation/nuts-node/test/io"
	"github.com/nuts-foundation/nuts-node/vcr/credential"
	"github.com/nuts-foundation/nuts-node/vcr/revocation"
	"github.com/nuts-foundation/nuts-node/vcr/signature"
	"github.com/nuts-foundation/nuts-node/vcr/signature/proof"
	"github.com/nuts-foundation/nuts-node/vcr/trust"
	"github.com/nuts-foundation/nuts-node/vcr/types"
	"github.com/nuts-foundation/nuts-node/vdr/resolver"
	"github.com/sirupsen/logrus"
)

// ---------- operations

type c11vStatus struct {
	URL string `json:"url"`
	Idx string `json:"idx"`
	// Mal: how the entry is malformed: "" | noid | idislist | notype | othertype | nopurpose | suspension | badurl
	Mal string `json:"mal,omitempty"`
}

type c11vOp struct {
	Op string `json:"op"` // vreset | vregister | vverify | visrevoked | vhost
	Sc int    `json:"sc"`
	// vregister: a revocation of `subject` naming `issuer`, proof.verificationMethod = `vm`, really signed with the key `signer`
	Subject string `json:"subject,omitempty"`
	Issuer  string `json:"issuer,omitempty"`
	VM      string `json:"vm,omitempty"`
	Signer  string `json:"signer,omitempty"`
	Tamper  string `json:"tamper,omitempty"` // "" | reason | subject | date | issuer-field
	Drop    string `json:"drop,omitempty"`   // "" | proof | date | type
	// vverify: credential id / issuer / kind (other | nutsorg), optional status entries
	ID       string       `json:"id,omitempty"`
	Kind     string       `json:"kind,omitempty"`
	Statuses []c11vStatus `json:"statuses,omitempty"`
	// vhost: what a status list URL serves
	URL      string `json:"url,omitempty"`
	HostKind string `json:"hostkind,omitempty"` // ok | badsig | fail
	// StoreFault: the revocation store cannot be read during this verification
	StoreFault bool `json:"storefault,omitempty"`
	// NoSLCtx: the credential does not list the StatusList2021 JSON-LD context
	NoSLCtx bool `json:"noslctx,omitempty"`
	// At: verify with an explicit validAt = now + At minutes (0: validAt == nil). The credential is issued one hour ago and
	// does not expire; revocations are dated at the moment they are built.
	At int `json:"at,omitempty"`
	Bits     []int  `json:"bits,omitempty"`
	// vvp: a presentation signed by Presenter (holder member = Holder, "" absent) with the credentials Creds, verified with
	// VerifyVP(vp, verifyVCs = !NoVerifyVCs, true, validAt). VPSig "bad": the proof names the presenter's key, another key signed.
	Presenter   string       `json:"presenter,omitempty"`
	Holder      string       `json:"holder,omitempty"`
	Creds       []c11vVPCred `json:"creds,omitempty"`
	NoVerifyVCs bool         `json:"noverifyvcs,omitempty"`
	VPSig       string       `json:"vpsig,omitempty"`
}

// c11vVPCred: a NutsOrganizationCredential inside a presentation. Proof: "" (none: self-attested shape) | good | bad (other key signed)
type c11vVPCred struct {
	ID      string `json:"id"`
	Issuer  string `json:"issuer"`
	Subject string `json:"subject"`
	Proof   string `json:"proof,omitempty"`
}

// c11vDIDRes resolves every DID (Verify with checkSignature only asks whether the issuer resolves)
type c11vDIDRes struct{}

func (c11vDIDRes) Resolve(id did.DID, _ *resolver.ResolveMetadata) (*did.Document, *resolver.DocumentMetadata, error) {
	return &did.Document{ID: id}, &resolver.DocumentMetadata{}, nil
}

func (w *c11vWorld) signLD(doc map[string]interface{}, kid, signer string, created time.Time) (map[string]interface{}, error) {
	ldProof := proof.NewLDProof(proof.ProofOptions{Created: created})
	webSig := signature.JSONWebSignature2020{ContextLoader: w.ld.DocumentLoader(), Signer: w.keys}
	ctx := context.WithValue(audit.TestContext(), c11vSignerKey{}, signer)
	res, err := ldProof.Sign(ctx, doc, webSig, kid)
	if err != nil {
		return nil, err
	}
	b, _ := json.Marshal(res)
	out := map[string]interface{}{}
	err = json.Unmarshal(b, &out)
	return out, err
}

func (w *c11vWorld) buildVP(op c11vOp) (*vc.VerifiablePresentation, error) {
	other := func(d string) string {
		if d == c11vA {
			return c11vB
		}
		return c11vA
	}
	var creds []interface{}
	for _, c := range op.Creds {
		m := map[string]interface{}{
			"@context":          []interface{}{vc.VCContextV1URI().String(), credential.NutsV1Context},
			"type":              []interface{}{"VerifiableCredential", credential.NutsOrganizationCredentialType},
			"id":                c.ID,
			"issuer":            c.Issuer,
			"issuanceDate":      time.Now().Add(-time.Hour).Format(time.RFC3339),
			"credentialSubject": map[string]interface{}{"id": c.Subject, "organization": map[string]interface{}{"name": "Org", "city": "Town"}},
		}
		if c.Proof != "" {
			signer := c.Issuer + "#k1"
			if c.Proof == "bad" {
				signer = other(c.Issuer) + "#k1"
			}
			signed, err := w.signLD(m, c.Issuer+"#k1", signer, time.Now().Add(-time.Hour))
			if err != nil {
				return nil, err
			}
			m = signed
		}
		creds = append(creds, m)
	}
	vp := map[string]interface{}{
		"@context":             []interface{}{vc.VCContextV1URI().String(), signature.JSONWebSignature2020Context.String()},
		"type":                 "VerifiablePresentation",
		"id":                   op.Presenter + "#vp",
		"verifiableCredential": creds,
	}
	if op.Holder != "" {
		vp["holder"] = op.Holder
	}
	signer := op.Presenter + "#k1"
	if op.VPSig == "bad" {
		signer = other(op.Presenter) + "#k1"
	}
	signed, err := w.signLD(vp, op.Presenter+"#k1", signer, time.Now().Add(-50*time.Minute))
	if err != nil {
		return nil, err
	}
	b, _ := json.Marshal(signed)
	return vc.ParseVerifiablePresentation(string(b))
}

func c11vVPClass(err error) string {
	if err == nil {
		return "ok"
	}
	msg := err.Error()
	if strings.Contains(msg, "invalid VC (id=") {
		switch {
		case strings.Contains(msg, types.ErrRevoked.Error()):
			return "revoked"
		case strings.Contains(msg, types.ErrCredentialNotValidAtTime.Error()):
			return "err:vc:not-valid-at-time"
		case strings.Contains(msg, "invalid signature"), strings.Contains(msg, "missing proof"):
			return "err:vc:signature"
		case strings.Contains(msg, "credential ID must start with issuer"):
			return "err:vc:validation"
		}
		return "err:vc:other:" + msg
	}
	switch {
	case strings.Contains(msg, "not all VCs have the same credentialSubject.id"):
		return "err:presenter"
	case strings.Contains(msg, "credential(s) must be presented by subject"):
		return "err:not-subject"
	case strings.Contains(msg, "presentation holder must equal credential subject"):
		return "err:holder"
	case strings.Contains(msg, "invalid signature"), strings.Contains(msg, types.ErrPresentationNotValidAtTime.Error()):
		return "err:vp-signature"
	}
	return "err:other:" + msg
}

// ---------- keys and resolvers

const (
	c11vA = "did:nuts:AAAAAAAAAAAAAAAAAAAAAAAAAAAAAAAAAAAAAAAAAAAA"
	c11vB = "did:nuts:BBBBBBBBBBBBBBBBBBBBBBBBBBBBBBBBBBBBBBBBBBBB"
	c11vC = "did:nuts:CCCCCCCCCCCCCCCCCCCCCCCCCCCCCCCCCCCCCCCCCCCC"
	c11vW = "did:web:example.com:iam:alice"
)

// the first three are the parties of the ordinary cases; the others are DIDs that are textual prefixes of A, B, W
// (an identifier minus its last character, the parent did:web, another domain that is a string prefix)
var c11vDIDs = []string{c11vA, c11vB, c11vC, c11vW, c11vA[:len(c11vA)-1], c11vB[:len(c11vB)-1], "did:web:example.com", "did:web:example.co"}

// c11vPrefixDIDs: for a DID, the other known DIDs that are proper string prefixes of it
func c11vPrefixDIDs(d string) []string {
	var out []string
	for _, p := range c11vDIDs {
		if p != d && strings.HasPrefix(d, p) {
			out = append(out, p)
		}
	}
	return out
}

type c11vKeys struct {
	priv map[string]*ecdsa.PrivateKey // kid -> key
}

func (k *c11vKeys) ResolveKeyByID(keyID string, _ *resolver.ResolveMetadata, _ resolver.RelationType) (crypto.PublicKey, error) {
	if p, ok := k.priv[keyID]; ok {
		return p.Public(), nil
	}
	return nil, resolver.ErrKeyNotFound
}
func (k *c11vKeys) ResolveKey(id did.DID, _ *time.Time, _ resolver.RelationType) (string, crypto.PublicKey, error) {
	kid := id.String() + "#k1"
	if p, ok := k.priv[kid]; ok {
		return kid, p.Public(), nil
	}
	return "", nil, resolver.ErrKeyNotFound
}
func (k *c11vKeys) SignJWT(context.Context, map[string]interface{}, map[string]interface{}, string) (string, error) {
	return "", errors.New("not used")
}
func (k *c11vKeys) SignDPoP(context.Context, dpop.DPoP, string) (string, error) {
	return "", errors.New("not used")
}

// SignJWS signs with the key named by the context value "signer" if present (forgery: kid header says one key, another signs)
func (k *c11vKeys) SignJWS(ctx context.Context, payload []byte, headers map[string]interface{}, kid string, detached bool) (string, error) {
	signer := kid
	if s, ok := ctx.Value(c11vSignerKey{}).(string); ok && s != "" {
		signer = s
	}
	p, ok := k.priv[signer]
	if !ok {
		return "", nutsCrypto.ErrPrivateKeyNotFound
	}
	return nutsCrypto.SignJWS(ctx, payload, headers, p, detached)
}

type c11vSignerKey struct{}

// ---------- world

// c11vStore is the real leia store; reads can be made to fail
type c11vStore struct {
	Store
	readFault bool
}

func (s *c11vStore) GetRevocations(id ssi.URI) ([]*credential.Revocation, error) {
	if s.readFault {
		return nil, errors.New("verif: revocation store unavailable")
	}
	return s.Store.GetRevocations(id)
}

type c11vWorld struct {
	fstore *c11vStore
	t     *testing.T
	v     *verifier
	keys  *c11vKeys
	ld    jsonld.JSONLD
	hosts map[string]c11vOp
	dir   string
	n     int
}

func (w *c11vWorld) Do(req *http.Request) (*http.Response, error) {
	h, ok := w.hosts[req.URL.String()]
	if !ok || h.HostKind == "fail" {
		return nil, errors.New("verif: no such host")
	}
	n := 16 * 1024
	bs := make([]byte, n)
	for _, i := range h.Bits {
		bs[i/8] |= 1 << (7 - uint(i%8))
	}
	enc, err := c11vCompress(bs)
	if err != nil {
		return nil, err
	}
	now := time.Now()
	m := map[string]interface{}{
		"@context":          []interface{}{vc.VCContextV1URI().String(), revocation.StatusList2021ContextURI.String()},
		"type":              []interface{}{"VerifiableCredential", revocation.StatusList2021CredentialType},
		"id":                c11vDIDs[2] + "#list",
		"issuer":            c11vDIDs[2],
		"issuanceDate":      now.Format(time.RFC3339Nano),
		"expirationDate":    now.Add(time.Hour).Format(time.RFC3339Nano),
		"credentialSubject": map[string]interface{}{"id": h.URL, "type": revocation.StatusList2021CredentialSubjectType, "statusPurpose": "revocation", "encodedList": enc},
		"proof":             map[string]interface{}{"type": "VerifFake", "good": h.HostKind == "ok"},
	}
	body, _ := json.Marshal(m)
	return &http.Response{StatusCode: 200, Body: io.NopCloser(bytes.NewReader(body)), Header: http.Header{}}, nil
}

func c11vCompress(bs []byte) (string, error) {
	var buf bytes.Buffer
	gz := gzip.NewWriter(&buf)
	if _, err := gz.Write(bs); err != nil {
		return "", err
	}
	if err := gz.Close(); err != nil {
		return "", err
	}
	return base64.RawURLEncoding.EncodeToString(buf.Bytes()), nil
}

func c11vFakeVerifySignature(cred vc.VerifiableCredential, _ *time.Time) error {
	if len(cred.Proof) == 1 {
		if p, ok := cred.Proof[0].(map[string]interface{}); ok && p["good"] == true {
			return nil
		}
	}
	return errors.New("verif: invalid signature")
}

func (w *c11vWorld) reset() {
	if w.v != nil {
		_ = w.v.store.Close()
	}
	w.n++
	backup := storage.CreateTestBBoltStore(w.t, path.Join(w.dir, fmt.Sprintf("backup-%d.db", w.n)))
	store, err := NewLeiaVerifierStore(path.Join(w.dir, fmt.Sprintf("verifier-store-%d.db", w.n)), backup)
	if err != nil {
		w.t.Fatal(err)
	}
	db := orm.NewTestDatabase(w.t)
	trustConfig := trust.NewConfig(path.Join(w.dir, fmt.Sprintf("trust-%d.yaml", w.n)))
	sl := revocation.NewStatusList2021(db, w, "https://verifier.example")
	w.fstore = &c11vStore{Store: store}
	w.v = NewVerifier(w.fstore, nil, w.keys, w.ld, trustConfig, sl).(*verifier)
	sl.VerifySignature = c11vFakeVerifySignature // status lists of this harness carry a fake proof
	w.v.didResolver = c11vDIDRes{}
	w.hosts = map[string]c11vOp{}
}

func (w *c11vWorld) buildRevocation(op c11vOp) (*credential.Revocation, error) {
	rev := credential.BuildRevocation(ssi.MustParseURI(op.Issuer), ssi.MustParseURI(op.Subject))
	asMap := map[string]interface{}{}
	b, _ := json.Marshal(rev)
	_ = json.Unmarshal(b, &asMap)
	ldProof := proof.NewLDProof(proof.ProofOptions{Created: time.Now()})
	webSig := signature.JSONWebSignature2020{ContextLoader: w.ld.DocumentLoader(), Signer: w.keys}
	ctx := context.WithValue(audit.TestContext(), c11vSignerKey{}, op.Signer)
	res, err := ldProof.Sign(ctx, asMap, webSig, op.VM)
	if err != nil {
		return nil, err
	}
	b, _ = json.Marshal(res.(proof.SignedDocument))
	signed := credential.Revocation{}
	if err = json.Unmarshal(b, &signed); err != nil {
		return nil, err
	}
	switch op.Tamper {
	case "reason":
		signed.Reason = "changed after signing"
	case "subject":
		signed.Subject = ssi.MustParseURI(op.Subject + "x")
	case "date":
		signed.Date = signed.Date.Add(time.Hour)
	}
	switch op.Drop {
	case "proof":
		signed.Proof = nil
	case "date":
		signed.Date = time.Time{}
	case "type":
		signed.Type = nil
	}
	return &signed, nil
}

func c11vClass(err error) string {
	switch {
	case err == nil:
		return "ok"
	case errors.Is(err, types.ErrRevoked):
		return "revoked"
	case errors.Is(err, types.ErrCredentialNotValidAtTime):
		return "err:not-valid-at-time"
	case errors.Is(err, errVerificationMethodNotOfIssuer):
		return "err:vm-not-of-issuer"
	case strings.Contains(err.Error(), "issuer of revocation is not the same as issuer of credential"):
		return "err:issuer-mismatch"
	case strings.Contains(err.Error(), "unable to resolve key for revocation"):
		return "err:key"
	case strings.Contains(err.Error(), "unable to verify revocation signature"):
		return "err:signature"
	case strings.Contains(err.Error(), "'subject' is required"):
		return "err:validation:subject"
	case strings.Contains(err.Error(), "'type' does not contain"):
		return "err:validation:type"
	case strings.Contains(err.Error(), "'date' is required"):
		return "err:validation:date"
	case strings.Contains(err.Error(), "'proof' is required"):
		return "err:validation:proof"
	case strings.Contains(err.Error(), "verif: revocation store unavailable"):
		return "err:store"
	case strings.Contains(err.Error(), "invalid credentialStatus"):
		return "err:validation:status"
	case strings.Contains(err.Error(), "credential ID must start with issuer"), strings.Contains(err.Error(), "'ID' is required"):
		return "err:validation"
	}
	return "err:other:" + err.Error()
}

func (w *c11vWorld) buildCredential(op c11vOp) (*vc.VerifiableCredential, error) {
	m := map[string]interface{}{
		"@context":          []interface{}{vc.VCContextV1URI().String(), credential.NutsV1Context, revocation.StatusList2021ContextURI.String()},
		"type":              []interface{}{"VerifiableCredential", "TestCredential"},
		"issuer":            op.Issuer,
		"issuanceDate":      time.Now().Add(-time.Hour).Format(time.RFC3339),
		"credentialSubject": map[string]interface{}{"id": c11vDIDs[2]},
	}
	if op.ID != "" {
		m["id"] = op.ID
	}
	if op.Kind == "nutsorg" {
		m["type"] = []interface{}{"VerifiableCredential", credential.NutsOrganizationCredentialType}
		m["credentialSubject"] = map[string]interface{}{"id": c11vDIDs[2], "organization": map[string]interface{}{"name": "Org", "city": "Town"}}
	}
	if len(op.Statuses) > 0 {
		var sts []interface{}
		for i, s := range op.Statuses {
			url := s.URL
			if s.Mal == "badurl" {
				url = "lists.example/not-a-request-uri"
			}
			e := map[string]interface{}{"id": fmt.Sprintf("%s#%s-%d", url, s.Idx, i), "type": revocation.StatusList2021EntryType,
				"statusPurpose": "revocation", "statusListIndex": s.Idx, "statusListCredential": url}
			switch s.Mal {
			case "noid":
				delete(e, "id")
			case "idislist":
				e["id"] = url
			case "notype":
				delete(e, "type")
			case "othertype":
				e["type"] = "OtherStatus"
			case "nopurpose":
				delete(e, "statusPurpose")
			case "suspension":
				e["statusPurpose"] = "suspension"
			case "numidx": // the index as a JSON number / bool / object / null instead of a string
				if n, err := strconv.Atoi(s.Idx); err == nil {
					e["statusListIndex"] = n
				} else {
					e["statusListIndex"] = 1.5
				}
			case "boolidx":
				e["statusListIndex"] = true
			case "objidx":
				e["statusListIndex"] = map[string]interface{}{"value": s.Idx}
			case "nullidx":
				e["statusListIndex"] = nil
			case "numpurpose":
				e["statusPurpose"] = 1
			}
			sts = append(sts, e)
		}
		m["credentialStatus"] = sts
		if op.NoSLCtx {
			m["@context"] = []interface{}{vc.VCContextV1URI().String(), credential.NutsV1Context}
		}
	}
	raw, _ := json.Marshal(m)
	return vc.ParseVerifiableCredential(string(raw))
}

func (w *c11vWorld) exec(op c11vOp) (line string) {
	defer func() {
		if r := recover(); r != nil {
			line = fmt.Sprintf("%s panic:%v", op.Op, r)
		}
	}()
	switch op.Op {
	case "vreset":
		w.reset()
		return "vreset"
	case "vregister":
		rev, err := w.buildRevocation(op)
		if err != nil {
			return "vregister err:build:" + err.Error()
		}
		return "vregister " + c11vClass(w.v.RegisterRevocation(*rev))
	case "visrevoked":
		r, err := w.v.IsRevoked(ssi.MustParseURI(op.ID))
		if err != nil {
			return "visrevoked err:" + err.Error()
		}
		return fmt.Sprintf("visrevoked %v", r)
	case "vverify":
		cred, err := w.buildCredential(op)
		if err != nil {
			return "vverify err:build:" + err.Error()
		}
		w.fstore.readFault = op.StoreFault
		var validAt *time.Time
		if op.At != 0 {
			t := time.Now().Add(time.Duration(op.At) * time.Minute)
			validAt = &t
		}
		err = w.v.Verify(*cred, true, false, validAt)
		w.fstore.readFault = false
		return "vverify " + c11vClass(err)
	case "vhost":
		w.hosts[op.URL] = op
		return "vhost"
	case "vvp":
		vp, err := w.buildVP(op)
		if err != nil {
			return "vvp err:build:" + err.Error()
		}
		var validAt *time.Time
		if op.At != 0 {
			t := time.Now().Add(time.Duration(op.At) * time.Minute)
			validAt = &t
		}
		creds, err := w.v.VerifyVP(*vp, !op.NoVerifyVCs, true, validAt)
		if err == nil {
			return fmt.Sprintf("vvp ok n=%d", len(creds))
		}
		if creds != nil {
			return "vvp credentials-returned-with-error"
		}
		return "vvp " + c11vVPClass(err)
	}
	return "bad-op:" + op.Op
}

// ---------- generator

type c11vGen struct {
	pending []c11vOp // follow-up operations, run before anything else is chosen
	rng   *rand.Rand
	ids   []string
	hosts []string
}

func (g *c11vGen) did() string {
	if g.rng.Intn(4) == 0 {
		return []string{c11vW, c11vDIDs[4], c11vDIDs[6]}[g.rng.Intn(3)]
	}
	return c11vDIDs[g.rng.Intn(2)]
}

func (g *c11vGen) credID() string {
	// ids prefixed by A or B (issuer chosen independently when verifying: foreign prefixes occur)
	// fragments of which one is a string prefix of another (1 / 12 / 123): the revocation store must match the id exactly
	id := fmt.Sprintf("%s#%s", g.did(), []string{"0", "1", "12", "123", "2"}[g.rng.Intn(5)])
	return id
}

func (g *c11vGen) next() c11vOp {
	r := g.rng
	if len(g.pending) > 0 {
		op := g.pending[0]
		g.pending = g.pending[1:]
		return op
	}
	op := g.choose()
	if op.Op == "vregister" && r.Intn(3) == 0 {
		// hostile sequence: right after a revocation was delivered, verify the credential it names asking about moments
		// before and after the revocation's own date (a received revocation counts whatever validAt is)
		issuer := strings.Split(op.Subject, "#")[0]
		for _, at := range [][]int{{-30, 30}, {-5, 0}, {-45, -120}, {100000, -30}}[r.Intn(4)] {
			g.pending = append(g.pending, c11vOp{Op: "vverify", ID: op.Subject, Issuer: issuer, Kind: "other", At: at})
		}
		if (issuer == c11vA || issuer == c11vB) && strings.Contains(op.Subject, "#") {
			// … and present it, among other credentials, in a presentation verified at a moment before / after that date
			vp := g.vp(op.Subject)
			vp.At = []int{-30, -5, 0, 30}[r.Intn(4)]
			if r.Intn(4) > 0 { // mostly: everything else about the presentation is in order
				vp.Holder, vp.VPSig, vp.NoVerifyVCs = vp.Presenter, "", false
				for k := range vp.Creds {
					c := &vp.Creds[k]
					c.Subject, c.Issuer = vp.Presenter, strings.Split(c.ID, "#")[0]
					if c.Issuer != vp.Presenter || c.Proof != "" {
						c.Proof = "good"
					}
				}
			}
			g.pending = append(g.pending, vp)
		}
	}
	return op
}

// vp: a presentation of 1-3 credentials by A or B; `must` (if not empty) is the id of a credential that has to be among them
func (g *c11vGen) vp(must string) c11vOp {
	r := g.rng
	p := c11vDIDs[r.Intn(2)]
	op := c11vOp{Op: "vvp", Presenter: p, Holder: p}
	n := 1 + r.Intn(3)
	pos := r.Intn(n)
	for j := 0; j < n; j++ {
		issuer := c11vDIDs[r.Intn(2)]
		c := c11vVPCred{ID: fmt.Sprintf("%s#%s", issuer, []string{"0", "1", "12", "123", "2"}[r.Intn(5)]), Issuer: issuer, Subject: p}
		if j == pos && must != "" {
			c.ID, c.Issuer = must, strings.Split(must, "#")[0]
		}
		if c.Issuer != p || r.Intn(3) == 0 {
			c.Proof = "good" // not self-attested: the credential's own signature is checked
		}
		switch r.Intn(14) {
		case 0:
			c.Proof = "bad"
		case 1:
			c.Subject = c11vC // another subject than the presenter
		case 2:
			c.Issuer = map[string]string{c11vA: c11vB, c11vB: c11vA}[c.Issuer] // id not prefixed by the issuer: refused by the validator
		}
		op.Creds = append(op.Creds, c)
	}
	switch r.Intn(12) {
	case 0:
		op.Holder = ""
	case 1:
		op.Holder = c11vC
	case 2:
		op.VPSig = "bad"
	case 3:
		op.NoVerifyVCs = true
	}
	if r.Intn(2) == 0 {
		op.At = []int{-100000, -120, -45, -30, -5, 5, 30}[r.Intn(7)]
	}
	return op
}

func (g *c11vGen) choose() c11vOp {
	r := g.rng
	switch k := r.Intn(100); {
	case k < 45:
		subject := g.credID()
		prefix := strings.Split(subject, "#")[0]
		other := c11vDIDs[0]
		if prefix == other {
			other = c11vDIDs[1]
		}
		if pre := c11vPrefixDIDs(prefix); len(pre) > 0 && r.Intn(5) == 0 {
			// a party whose DID is a proper textual prefix of the id's DID revokes with its own, resolvable key
			p := pre[r.Intn(len(pre))]
			return c11vOp{Op: "vregister", Subject: subject, Issuer: p, VM: p + "#k1", Signer: p + "#k1"}
		}
		op := c11vOp{Op: "vregister", Subject: subject, Issuer: prefix, VM: prefix + "#k1", Signer: prefix + "#k1"}
		switch r.Intn(16) {
		case 0: // revocation names another issuer than the id prefix (that issuer signs it properly)
			op.Issuer, op.VM, op.Signer = other, other+"#k1", other+"#k1"
		case 1: // key of another party named in the proof
			op.VM, op.Signer = other+"#k1", other+"#k1"
		case 2: // proof names the issuer's key, but another key signed
			op.Signer = other + "#k1"
		case 3: // unknown key
			op.VM, op.Signer = prefix+"#k9", prefix+"#k1"
		case 4:
			op.Tamper = "reason"
		case 5:
			op.Tamper = "subject"
		case 6:
			op.Tamper = "date"
		case 7:
			op.Drop = "proof"
		case 8:
			op.Drop = "date"
		case 9:
			op.Drop = "type"
		case 10:
			op.Subject = prefix // no fragment
		case 11: // third party revokes
			op.Issuer, op.VM, op.Signer = c11vDIDs[2], c11vDIDs[2]+"#k1", c11vDIDs[2]+"#k1"
		}
		return op
	case k < 50:
		return c11vOp{Op: "visrevoked", ID: g.credID()}
	case k >= 94:
		return g.vp("")
	case k < 58:
		url := []string{"https://lists.example/1", "https://lists.example/2"}[r.Intn(2)]
		op := c11vOp{Op: "vhost", URL: url, HostKind: []string{"ok", "ok", "ok", "badsig", "fail"}[r.Intn(5)]}
		for j := r.Intn(3); j > 0; j-- {
			op.Bits = append(op.Bits, r.Intn(4))
		}
		g.hosts = append(g.hosts, url)
		return op
	default:
		id := g.credID()
		issuer := strings.Split(id, "#")[0]
		if r.Intn(4) == 0 {
			issuer = g.did() // possibly a credential whose id is not prefixed by its issuer
		}
		op := c11vOp{Op: "vverify", ID: id, Issuer: issuer, Kind: "other"}
		if r.Intn(30) == 0 {
			op.ID = ""
		}
		op.StoreFault = r.Intn(6) == 0
		if r.Intn(3) == 0 { // explicit validAt: long before issuance, before issuance, before / shortly before / after any revocation date, far future
			op.At = []int{-100000, -120, -45, -30, -5, 5, 30, 100000}[r.Intn(8)]
		}
		if r.Intn(6) == 0 {
			op.Kind = "nutsorg"
		}
		if r.Intn(3) == 0 {
			n := 1 + r.Intn(2)
			for j := 0; j < n; j++ {
				st := c11vStatus{URL: []string{"https://lists.example/1", "https://lists.example/2", "https://lists.example/3"}[r.Intn(3)], Idx: strconv.Itoa(r.Intn(4))}
				if r.Intn(5) == 0 { // other spellings / unparsable / negative / out-of-range indexes
					st.Idx = []string{"+" + st.Idx, "0" + st.Idx, "-1", "-0", "abc", "", "1_0", " 1", "9223372036854775808", "131072", "99999999999"}[r.Intn(11)]
				}
				if r.Intn(5) == 0 {
					st.Mal = []string{"noid", "idislist", "notype", "othertype", "nopurpose", "suspension", "badurl", "numidx", "numidx", "boolidx", "objidx", "nullidx", "numpurpose"}[r.Intn(13)]
				}
				op.Statuses = append(op.Statuses, st)
			}
			op.NoSLCtx = r.Intn(15) == 0
		}
		return op
	}
}

// ---------- test entry point

func TestVerifC11v(t *testing.T) {
	outDir := os.Getenv("VERIF_OUT")
	if outDir == "" {
		t.Skip("VERIF_OUT not set")
	}
	logrus.SetLevel(logrus.PanicLevel)
	seed, _ := strconv.ParseInt(os.Getenv("VERIF_SEED"), 10, 64)
	nScen, _ := strconv.Atoi(os.Getenv("VERIF_SCENARIOS"))
	if nScen == 0 {
		nScen = 10
	}
	keys := &c11vKeys{priv: map[string]*ecdsa.PrivateKey{}}
	for _, d := range c11vDIDs {
		kp, err := spi.GenerateKeyPair()
		if err != nil {
			t.Fatal(err)
		}
		keys.priv[d+"#k1"] = kp
	}
	w := &c11vWorld{t: t, keys: keys, ld: jsonld.NewTestJSONLDManager(t), dir: testio.TestDirectory(t)}
	w.reset()
	fo, err := os.Create(filepath.Join(outDir, "ops.jsonl"))
	if err != nil {
		t.Fatal(err)
	}
	defer fo.Close()
	fi, err := os.Create(filepath.Join(outDir, "impl.out"))
	if err != nil {
		t.Fatal(err)
	}
	defer fi.Close()
	bo, bi := bufio.NewWriter(fo), bufio.NewWriter(fi)
	defer bo.Flush()
	defer bi.Flush()
	run := func(op c11vOp) {
		line := w.exec(op)
		js, _ := json.Marshal(op)
		bo.Write(js)
		bo.WriteByte('\n')
		bi.WriteString(line)
		bi.WriteByte('\n')
	}
	readOps := func(p string) {
		f, err := os.Open(p)
		if err != nil {
			t.Fatal(err)
		}
		defer f.Close()
		sc := bufio.NewScanner(f)
		sc.Buffer(make([]byte, 1<<20), 1<<26)
		for sc.Scan() {
			var op c11vOp
			if json.Unmarshal(sc.Bytes(), &op) == nil && strings.HasPrefix(op.Op, "v") {
				run(op)
			}
		}
	}
	if rp := os.Getenv("VERIF_REPLAY"); rp != "" {
		readOps(rp)
		return
	}
	if cd := os.Getenv("VERIF_CORPUS"); cd != "" {
		files, _ := filepath.Glob(filepath.Join(cd, "v*.jsonl"))
		sort.Strings(files)
		for _, fn := range files {
			readOps(fn)
		}
	}
	g := &c11vGen{rng: rand.New(rand.NewSource(seed*104729 + 5))}
	for sc := 0; sc < nScen; sc++ {
		run(c11vOp{Op: "vreset", Sc: sc})
		g.pending = nil
		steps := 10 + g.rng.Intn(25)
		for i := 0; i < steps; i++ {
			op := g.next()
			op.Sc = sc
			run(op)
		}
	}
}
