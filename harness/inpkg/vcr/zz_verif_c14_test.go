//go:build verif

// C14 receiver-classification leg (injected with `go test -overlay`): the REAL vcr ambassador.handleError decides whether
// a failed credential/revocation event is retried, dropped as done, or marked fatal. Each class of error is fed through
// handleError inside a REAL persistent dag notifier on bbolt, and what the notifier then does is observed: job gone
// (done), retry loop alive and retries growing (retried), or one call + retries over the budget + listed as failed (fatal).
package vcr

import (
	"context"
	"errors"
	"fmt"
	"io"
	"os"
	"path/filepath"
	"strings"
	"sync"
	"testing"
	"time"

	"github.com/nuts-foundation/go-stoabs"
	"github.com/nuts-foundation/go-stoabs/bbolt"
	"github.com/nuts-foundation/nuts-node/jsonld"
	"github.com/nuts-foundation/nuts-node/network/dag"
	"github.com/piprate/json-gold/ld"
	"github.com/sirupsen/logrus"
)

func TestVerifC14Classification(t *testing.T) {
	outDir := os.Getenv("VERIF_OUT")
	if outDir == "" {
		t.Skip("VERIF_OUT not set")
	}
	logrus.StandardLogger().SetOutput(io.Discard)
	dir := filepath.Join(outDir, "db-vcr")
	_ = os.MkdirAll(dir, 0o755)
	defer os.RemoveAll(dir)
	cases := []struct {
		name string
		err  error
	}{
		{"context.Canceled", context.Canceled},
		{"wrapped-context.Canceled", fmt.Errorf("storing credential: %w", context.Canceled)},
		{"context.DeadlineExceeded", fmt.Errorf("storing credential: %w", context.DeadlineExceeded)},
		{"context-not-allowed", fmt.Errorf("validating: %w", ld.NewJsonLdError(ld.LoadingDocumentFailed, jsonld.ContextURLNotAllowedErr))},
		{"remote-context-load-failed", fmt.Errorf("validating: %w", ld.NewJsonLdError(ld.LoadingRemoteContextFailed, errors.New("connection refused")))},
		{"invalid-credential", errors.New("credential is invalid")},
		{"jsonld-other-code", ld.NewJsonLdError(ld.InvalidLocalContext, errors.New("bad context"))},
	}
	var lines []string
	for ci, c := range cases {
		db, err := bbolt.CreateBBoltStore(filepath.Join(dir, fmt.Sprintf("c%d.db", ci)), stoabs.WithNoSync())
		if err != nil {
			t.Fatal(err)
		}
		var mu sync.Mutex
		calls := 0
		var returned []string
		n := dag.NewNotifier("vcr_vcs", func(ev dag.Event) (bool, error) {
			done, rerr := ambassador{}.handleError(c.err) // the real classification
			mu.Lock()
			calls++
			if len(returned) < 1 {
				returned = append(returned, fmt.Sprintf("done=%v err=%v fatal=%v", done, rerr != nil, rerr != nil && errors.As(rerr, new(dag.EventFatal))))
			}
			mu.Unlock()
			return done, rerr
		}, dag.WithPersistency(db), dag.WithRetryDelay(time.Nanosecond))
		tx := dag.CreateSignedTestTransaction(uint32(ci+1), time.Now(), nil, "application/vc+json", true)
		ev := dag.Event{Type: dag.PayloadEventType, Hash: tx.Ref(), Transaction: tx, Payload: []byte{1}}
		if err := db.Write(context.Background(), func(wtx stoabs.WriteTx) error { return n.Save(wtx, ev) }); err != nil {
			t.Fatal(err)
		}
		n.Notify(ev)
		// a retried event gets further attempts within microseconds (1ns retry delay); give it a moment
		// settled = called at least 3 times (retried), or called once and the job is gone (done) / marked failed (fatal)
		deadline := time.Now().Add(5 * time.Second)
		for time.Now().Before(deadline) {
			mu.Lock()
			k := calls
			mu.Unlock()
			if k >= 3 {
				break
			}
			settled := false
			_ = db.ReadShelf(context.Background(), "_vcr_vcs_jobs", func(r stoabs.Reader) error {
				v, err := r.Get(stoabs.BytesKey(tx.Ref().Slice()))
				settled = err != nil || strings.Contains(string(v), `"retries":21`)
				return nil
			})
			if settled && k >= 1 {
				time.Sleep(20 * time.Millisecond) // a wrongly retried event would show further calls now
				break
			}
			time.Sleep(time.Millisecond)
		}
		// observe BEFORE Close(): cancelling the notifier's context while its retry goroutine is acquiring the store lock can
		// leave go-stoabs' lock unusable for the configured lock timeout (seen here as "unable to obtain BBolt read lock")
		failed, _ := n.GetFailedEvents()
		onShelf := false
		_ = db.ReadShelf(context.Background(), "_vcr_vcs_jobs", func(r stoabs.Reader) error {
			_, err := r.Get(stoabs.BytesKey(tx.Ref().Slice()))
			onShelf = err == nil
			return nil
		})
		_ = n.Close()
		mu.Lock()
		retries := -1
		if len(failed) == 1 {
			retries = failed[0].Retries
		}
		lines = append(lines, fmt.Sprintf("%s %s calledAgain=%v onShelf=%v listedFailed=%v failedRetries=%d", c.name, strings.Join(returned, ""), calls >= 3, onShelf, len(failed) == 1, retries))
		mu.Unlock()
		_ = db.Close(context.Background())
	}
	if err := os.WriteFile(filepath.Join(outDir, "classification.out"), []byte(strings.Join(lines, "\n")+"\n"), 0o644); err != nil {
		t.Fatal(err)
	}
}
