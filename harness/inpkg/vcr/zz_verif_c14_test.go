//go:build verif

// C14 receiver-classification leg (injected with `go test -overlay`): the REAL vcr ambassador.handleError decides whether
// a failed credential/revocation event is retried, dropped as done, or marked fatal. Each class of error is fed through
// handleError inside a REAL persistent dag notifier on bbolt, and what the notifier then does is observed: job gone
// (done), retry loop alive and retries growing (retried), or one call + retries over the budget + listed as failed (fatal).
package vcr

import (
	"context"
	"errors"
	"fmt"
	"encoding/json"
	"io"
	"math/rand"
	"os"
	"path/filepath"
	"strconv"
	"strings"
	"sync"
	"testing"
	"time"

	"github.com/nuts-foundation/go-stoabs"
	"github.com/nuts-foundation/go-stoabs/bbolt"
	"github.com/nuts-foundation/nuts-node/jsonld"
	"github.com/nuts-foundation/nuts-node/network/dag"
	"github.com/piprate/json-gold/ld"
	"github.com/sirupsen/logrus"
)

func TestVerifC14Classification(t *testing.T) {
	outDir := os.Getenv("VERIF_OUT")
	if outDir == "" {
		t.Skip("VERIF_OUT not set")
	}
	logrus.StandardLogger().SetOutput(io.Discard)
	dir := filepath.Join(outDir, "db-vcr")
	_ = os.MkdirAll(dir, 0o755)
	defer os.RemoveAll(dir)
	cases := []struct {
		name string
		err  error
	}{
		{"context.Canceled", context.Canceled},
		{"wrapped-context.Canceled", fmt.Errorf("storing credential: %w", context.Canceled)},
		{"context.DeadlineExceeded", fmt.Errorf("storing credential: %w", context.DeadlineExceeded)},
		{"context-not-allowed", fmt.Errorf("validating: %w", ld.NewJsonLdError(ld.LoadingDocumentFailed, jsonld.ContextURLNotAllowedErr))},
		{"remote-context-load-failed", fmt.Errorf("validating: %w", ld.NewJsonLdError(ld.LoadingRemoteContextFailed, errors.New("connection refused")))},
		{"invalid-credential", errors.New("credential is invalid")},
		{"jsonld-other-code", ld.NewJsonLdError(ld.InvalidLocalContext, errors.New("bad context"))},
	}
	var lines []string
	for ci, c := range cases {
		db, err := bbolt.CreateBBoltStore(filepath.Join(dir, fmt.Sprintf("c%d.db", ci)), stoabs.WithNoSync())
		if err != nil {
			t.Fatal(err)
		}
		var mu sync.Mutex
		calls := 0
		var returned []string
		n := dag.NewNotifier("vcr_vcs", func(ev dag.Event) (bool, error) {
			done, rerr := ambassador{}.handleError(c.err) // the real classification
			mu.Lock()
			calls++
			if len(returned) < 1 {
				returned = append(returned, fmt.Sprintf("done=%v err=%v fatal=%v", done, rerr != nil, rerr != nil && errors.As(rerr, new(dag.EventFatal))))
			}
			mu.Unlock()
			return done, rerr
		}, dag.WithPersistency(db), dag.WithRetryDelay(time.Nanosecond))
		tx := dag.CreateSignedTestTransaction(uint32(ci+1), time.Now(), nil, "application/vc+json", true)
		ev := dag.Event{Type: dag.PayloadEventType, Hash: tx.Ref(), Transaction: tx, Payload: []byte{1}}
		if err := db.Write(context.Background(), func(wtx stoabs.WriteTx) error { return n.Save(wtx, ev) }); err != nil {
			t.Fatal(err)
		}
		n.Notify(ev)
		// a retried event gets further attempts within microseconds (1ns retry delay); give it a moment
		// settled = called at least 3 times (retried), or called once and the job is gone (done) / marked failed (fatal)
		deadline := time.Now().Add(5 * time.Second)
		for time.Now().Before(deadline) {
			mu.Lock()
			k := calls
			mu.Unlock()
			if k >= 3 {
				break
			}
			settled := false
			_ = db.ReadShelf(context.Background(), "_vcr_vcs_jobs", func(r stoabs.Reader) error {
				v, err := r.Get(stoabs.BytesKey(tx.Ref().Slice()))
				settled = err != nil || strings.Contains(string(v), `"retries":21`)
				return nil
			})
			if settled && k >= 1 {
				time.Sleep(20 * time.Millisecond) // a wrongly retried event would show further calls now
				break
			}
			time.Sleep(time.Millisecond)
		}
		// observe BEFORE Close(): cancelling the notifier's context while its retry goroutine is acquiring the store lock can
		// leave go-stoabs' lock unusable for the configured lock timeout (seen here as "unable to obtain BBolt read lock")
		failed, _ := n.GetFailedEvents()
		onShelf := false
		_ = db.ReadShelf(context.Background(), "_vcr_vcs_jobs", func(r stoabs.Reader) error {
			_, err := r.Get(stoabs.BytesKey(tx.Ref().Slice()))
			onShelf = err == nil
			return nil
		})
		_ = n.Close()
		mu.Lock()
		retries := -1
		if len(failed) == 1 {
			retries = failed[0].Retries
		}
		lines = append(lines, fmt.Sprintf("%s %s calledAgain=%v onShelf=%v listedFailed=%v failedRetries=%d", c.name, strings.Join(returned, ""), calls >= 3, onShelf, len(failed) == 1, retries))
		mu.Unlock()
		_ = db.Close(context.Background())
	}
	if err := os.WriteFile(filepath.Join(outDir, "classification.out"), []byte(strings.Join(lines, "\n")+"\n"), 0o644); err != nil {
		t.Fatal(err)
	}
}

// ---- deepening round 2: GENERATED error chains through the real handleError, compared with NutsModel.C14.Receivers ----
// An error is described by its Unwrap chain, outermost first (see Layer in Receivers.lean). c14Build makes the real Go
// error; c14Chain reads a real error back into that description by walking errors.Unwrap.

func c14Build(chain []string) error {
	var err error
	for i := len(chain) - 1; i >= 0; i-- {
		switch chain[i] {
		case "msg":
			if err == nil {
				err = errors.New("c14 leaf")
			} else {
				err = fmt.Errorf("c14 wrap %d: %w", i, err)
			}
		case "canceled":
			err = context.Canceled
		case "deadline":
			err = context.DeadlineExceeded
		case "ctx":
			err = jsonld.ContextURLNotAllowedErr
		case "ld:remote":
			err = c14Ld(ld.LoadingRemoteContextFailed, err)
		case "ld:doc":
			err = c14Ld(ld.LoadingDocumentFailed, err)
		case "ld:other":
			err = c14Ld(ld.InvalidLocalContext, err)
		case "db":
			err = stoabs.DatabaseError(err)
		case "fatal":
			err = dag.EventFatal{Err: err}
		}
	}
	return err
}

func c14Ld(code ld.ErrorCode, inner error) error {
	if inner == nil {
		return ld.NewJsonLdError(code, nil)
	}
	return ld.NewJsonLdError(code, inner)
}

func c14Chain(err error) string {
	var l []string
	for err != nil {
		switch t := err.(type) {
		case *ld.JsonLdError:
			switch t.Code {
			case ld.LoadingRemoteContextFailed:
				l = append(l, "ld:remote")
			case ld.LoadingDocumentFailed:
				l = append(l, "ld:doc")
			default:
				l = append(l, "ld:other")
			}
		case stoabs.ErrDatabase:
			l = append(l, "db")
		case dag.EventFatal:
			l = append(l, "fatal")
		default:
			switch err {
			case context.Canceled:
				l = append(l, "canceled")
			case context.DeadlineExceeded:
				l = append(l, "deadline")
			case jsonld.ContextURLNotAllowedErr:
				l = append(l, "ctx")
			default:
				l = append(l, "msg")
			}
		}
		err = errors.Unwrap(err)
	}
	if len(l) == 0 {
		return "-"
	}
	return strings.Join(l, ">")
}

// c14GenChain: 1-5 layers; sentinels only innermost; at most one ErrDatabase (stoabs.DatabaseError wraps once)
func c14GenChain(rng *rand.Rand) []string {
	wrappers := []string{"msg", "msg", "ld:remote", "ld:doc", "ld:other", "db", "fatal"}
	leaves := []string{"msg", "msg", "canceled", "deadline", "ctx", "ctx", "ld:remote", "ld:other", "db"}
	n := rng.Intn(5)
	var c []string
	db := false
	for i := 0; i < n; i++ {
		w := wrappers[rng.Intn(len(wrappers))]
		if w == "fatal" && rng.Intn(3) != 0 {
			w = "msg"
		}
		if w == "db" {
			if db {
				w = "msg"
			}
			db = true
		}
		c = append(c, w)
	}
	lf := leaves[rng.Intn(len(leaves))]
	if lf == "db" && db {
		lf = "msg"
	}
	return append(c, lf)
}

func TestVerifC14Receivers(t *testing.T) {
	outDir := os.Getenv("VERIF_OUT")
	if outDir == "" {
		t.Skip("VERIF_OUT not set")
	}
	logrus.StandardLogger().SetOutput(io.Discard)
	seed, _ := strconv.ParseInt(os.Getenv("VERIF_SEED"), 10, 64)
	rng := rand.New(rand.NewSource(seed*7919 + 14))
	n := 160
	if os.Getenv("VERIF_TIER") == "thorough" {
		n = 1200
	}
	var chains [][]string
	// every single layer as a leaf, and the documented shapes, first
	for _, c := range [][]string{{"msg"}, {"canceled"}, {"deadline"}, {"ctx"}, {"ld:remote"}, {"ld:doc"}, {"ld:other"}, {"db"}, {"fatal"},
		{"msg", "ld:doc", "ctx"}, {"msg", "ld:remote", "msg"}, {"ld:remote", "ctx"}, {"ld:other", "ld:remote", "msg"}, {"ld:remote", "ld:other", "msg"},
		{"fatal", "canceled"}, {"msg", "db", "deadline"}, {"ld:remote", "canceled"}, {"msg", "msg", "ctx"}} {
		chains = append(chains, c)
	}
	if rp := os.Getenv("VERIF_REPLAY"); rp != "" {
		chains = nil
		data, err := os.ReadFile(rp)
		if err != nil {
			t.Fatal(err)
		}
		for _, l := range strings.Split(string(data), "\n") {
			var op struct {
				Cb []string `json:"cb"`
			}
			if strings.TrimSpace(l) != "" && json.Unmarshal([]byte(l), &op) == nil && len(op.Cb) > 0 {
				chains = append(chains, op.Cb)
			}
		}
	} else {
		for len(chains) < n {
			chains = append(chains, c14GenChain(rng))
		}
	}
	dir := filepath.Join(outDir, "db-vcr-recv")
	_ = os.MkdirAll(dir, 0o755)
	defer os.RemoveAll(dir)
	db, err := bbolt.CreateBBoltStore(filepath.Join(dir, "r.db"), stoabs.WithNoSync())
	if err != nil {
		t.Fatal(err)
	}
	// ONE real persistent notifier; its receiver answers with the real handleError of the case that owns the event.
	// The retry delay is an hour: Notify runs the first notifyNow synchronously, the retry goroutine it may start sleeps
	// until Close() cancels it - the shelf after Notify shows how the notifier read the answer.
	byRef := map[string]error{}
	answered := map[string]string{}
	var mu sync.Mutex
	nt := dag.NewNotifier("vcr_vcs", func(ev dag.Event) (bool, error) {
		mu.Lock()
		defer mu.Unlock()
		done, rerr := ambassador{}.handleError(byRef[ev.Hash.String()]) // the real classification
		answered[ev.Hash.String()] = fmt.Sprintf("done=%v|err=%s", done, c14Chain(rerr))
		return done, rerr
	}, dag.WithPersistency(db), dag.WithRetryDelay(time.Hour))
	var ops, lines []string
	for i, c := range chains {
		tx := dag.CreateSignedTestTransaction(uint32(1000+i), time.Now(), nil, "application/vc+json", true)
		ev := dag.Event{Type: dag.PayloadEventType, Hash: tx.Ref(), Transaction: tx, Payload: []byte{1}}
		mu.Lock()
		byRef[tx.Ref().String()] = c14Build(c)
		mu.Unlock()
		if got := c14Chain(c14Build(c)); got != strings.Join(c, ">") {
			t.Fatalf("generator: chain %v builds an error that reads back as %s", c, got)
		}
		if err := db.Write(context.Background(), func(wtx stoabs.WriteTx) error { return nt.Save(wtx, ev) }); err != nil {
			t.Fatal(err)
		}
		nt.Notify(ev)
		class := "done"
		_ = db.ReadShelf(context.Background(), "_vcr_vcs_jobs", func(r stoabs.Reader) error {
			v, err := r.Get(stoabs.BytesKey(tx.Ref().Slice()))
			if err != nil || v == nil {
				return nil
			}
			job := struct {
				Retries int    `json:"retries"`
				Error   string `json:"error"`
			}{}
			_ = json.Unmarshal(v, &job)
			switch {
			case job.Retries > 20:
				class = "fatal"
			case job.Retries < 1 || job.Retries > 2:
				// 1 = Notify's own notifyNow; 2 = the retry goroutine's immediate first attempt came in as well
				class = fmt.Sprintf("retries=%d", job.Retries)
			case job.Error == "receiver did not finish or fail":
				class = "notDone"
			case strings.HasSuffix(job.Error, jsonld.ContextURLNotAllowedErr.Error()):
				class = "failCtx"
			default:
				class = "fail"
			}
			return nil
		})
		mu.Lock()
		a := answered[tx.Ref().String()]
		mu.Unlock()
		b, _ := json.Marshal(map[string]interface{}{"op": "rvcr", "cb": c})
		ops = append(ops, string(b))
		lines = append(lines, "recv|"+a+"|class="+class)
	}
	time.Sleep(30 * time.Millisecond) // let the immediate first attempts of the retry goroutines finish before the store goes away
	_ = nt.Close()
	_ = db.Close(context.Background())
	if err := os.WriteFile(filepath.Join(outDir, "ops.jsonl"), []byte(strings.Join(ops, "\n")+"\n"), 0o644); err != nil {
		t.Fatal(err)
	}
	if err := os.WriteFile(filepath.Join(outDir, "impl.out"), []byte(strings.Join(lines, "\n")+"\n"), 0o644); err != nil {
		t.Fatal(err)
	}
}
