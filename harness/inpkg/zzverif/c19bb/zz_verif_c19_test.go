//go:build verif

// C19 exploration harness (crash/timeout oracle only, no model): entry points that parse untrusted bytes and are cheap to
// call from outside their package: did:key / did:jwk / did:web resolvers, crypto.ParseJWT / ParseJWS / JWTKidAlg,
// go-did VC/VP unmarshalling followed by the vcr/credential helpers the verifier and the OpenID4VP handlers run on them.
package c19bb

import (
	"bytes"
	"crypto"
	"crypto/ecdsa"
	"crypto/ed25519"
	"crypto/rsa"
	"crypto/elliptic"
	"crypto/rand"
	"crypto/sha256"
	"crypto/x509"
	"encoding/base64"
	"encoding/binary"
	"encoding/json"
	"errors"
	"fmt"
	"io"
	mrand "math/rand"
	"net/http"
	"os"
	"strings"
	"testing"
	"time"

	"github.com/lestrrat-go/jwx/v2/jwk"
	"github.com/lestrrat-go/jwx/v2/jws"
	"github.com/lestrrat-go/jwx/v2/jwt"
	nutsJwx "github.com/nuts-foundation/nuts-node/crypto/jwx"
	"github.com/mr-tron/base58"
	ssi "github.com/nuts-foundation/go-did"
	"github.com/nuts-foundation/go-did/did"
	"github.com/nuts-foundation/go-did/vc"
	nutsCrypto "github.com/nuts-foundation/nuts-node/crypto"
	"github.com/nuts-foundation/nuts-node/crypto/hash"
	"github.com/nuts-foundation/nuts-node/jsonld"
	"github.com/nuts-foundation/nuts-node/network/dag"
	"github.com/piprate/json-gold/ld"
	"github.com/nuts-foundation/nuts-node/vcr/credential"
	"github.com/nuts-foundation/nuts-node/vcr/pe"
	"github.com/nuts-foundation/nuts-node/vcr/signature/proof"
	"github.com/nuts-foundation/nuts-node/vdr/didjwk"
	"github.com/nuts-foundation/nuts-node/vdr/didkey"
	"github.com/nuts-foundation/nuts-node/vdr/didweb"
	"github.com/nuts-foundation/nuts-node/vdr/resolver"
)

type fakeDoer struct {
	status int
	ct     string
	body   []byte
}

func (f fakeDoer) Do(req *http.Request) (*http.Response, error) {
	if f.status == 0 {
		return nil, errors.New("connection refused")
	}
	h := http.Header{}
	if f.ct != "-" {
		h.Set("Content-Type", f.ct)
	}
	return &http.Response{StatusCode: f.status, Status: fmt.Sprint(f.status), Header: h, Body: io.NopCloser(bytes.NewReader(f.body))}, nil
}

const validWebDoc = `{"@context":["https://www.w3.org/ns/did/v1",{"@base":"did:web:example.com"},"https://w3id.org/security/suites/jws-2020/v1"],
"id":"did:web:example.com",
"verificationMethod":[{"id":"did:web:example.com#key-1","type":"JsonWebKey2020","controller":"did:web:example.com","publicKeyJwk":{"kty":"EC","crv":"P-256","x":"VovYU-43esqZaDLPBhbV44G6nvSYXHv0_pXFkLL5wWw","y":"kD-ev_48d7JSh-Ig2Rt0qDf_7OrGSPNbMbHxXsfgmVo"}},
{"id":"did:web:example.com#key-2","type":"Ed25519VerificationKey2020","controller":"did:web:example.com","publicKeyMultibase":"z6MkhaXgBZDvotDkL5257faiztiGiC2QtKLGpbnnEGta2doK"}],
"authentication":["did:web:example.com#key-1"],"assertionMethod":["did:web:example.com#key-1","#key-2"],"keyAgreement":[{"id":"did:web:example.com#key-3","type":"JsonWebKey2020","controller":"did:web:example.com","publicKeyJwk":{"kty":"EC","crv":"P-256","x":"VovYU-43esqZaDLPBhbV44G6nvSYXHv0_pXFkLL5wWw","y":"kD-ev_48d7JSh-Ig2Rt0qDf_7OrGSPNbMbHxXsfgmVo"}}],
"service":[{"id":"did:web:example.com#s1","type":"node","serviceEndpoint":"https://example.com/x"}]}`

const validVC = `{"@context":["https://www.w3.org/2018/credentials/v1","https://nuts.nl/credentials/v1"],"id":"did:web:example.com#1","type":["VerifiableCredential","NutsOrganizationCredential"],
"issuer":"did:web:example.com","issuanceDate":"2024-01-01T00:00:00Z","expirationDate":"2034-01-01T00:00:00Z",
"credentialSubject":{"id":"did:web:holder.example.com","organization":{"name":"x","city":"y"}},
"credentialStatus":{"id":"https://example.com/statuslist/1#5","type":"StatusList2021Entry","statusPurpose":"revocation","statusListIndex":"5","statusListCredential":"https://example.com/statuslist/1"},
"proof":{"type":"JsonWebSignature2020","created":"2024-01-01T00:00:00Z","verificationMethod":"did:web:example.com#key-1","proofPurpose":"assertionMethod","jws":"eyJhbGciOiJFUzI1NiJ9..AAAA"}}`

func validVP() string {
	return `{"@context":["https://www.w3.org/2018/credentials/v1"],"type":"VerifiablePresentation","holder":"did:web:holder.example.com","verifiableCredential":[` + validVC + `],
"proof":{"type":"JsonWebSignature2020","created":"2024-01-01T00:00:00Z","expires":"2034-01-01T00:00:00Z","verificationMethod":"did:web:holder.example.com#key-1","proofPurpose":"authentication","challenge":"n1","domain":"https://verifier.example.com","jws":"eyJhbGciOiJFUzI1NiJ9..AAAA"}}`
}

// useKey does what the node does with a key it resolved for a remote party: verify a JWT / JWS that names the key, with every
// algorithm of the key's family (crypto.ParseJWT / ParseJWS; the signature is garbage: the result must be an error, never a panic)
func useKey(key crypto.PublicKey) {
	var algs []string
	switch key.(type) {
	case ed25519.PublicKey, *ed25519.PublicKey:
		algs = []string{"EdDSA"}
	case *ecdsa.PublicKey, ecdsa.PublicKey:
		algs = []string{"ES256", "ES384", "ES512"}
	case *rsa.PublicKey, rsa.PublicKey:
		algs = []string{"PS256", "RS256"}
	default:
		algs = []string{"EdDSA", "ES256", "PS256"}
	}
	b64 := base64.RawURLEncoding
	for _, alg := range algs {
		tok := b64.EncodeToString([]byte(`{"alg":"`+alg+`","typ":"JWT","kid":"k"}`)) + "." + b64.EncodeToString([]byte(`{"iss":"x","exp":4102444800}`)) + "." + b64.EncodeToString(make([]byte, 64))
		kf := func(string) (crypto.PublicKey, error) { return key, nil }
		nutsCrypto.ParseJWT(tok, kf)
		nutsCrypto.ParseJWS([]byte(tok), kf)
	}
}

// all resolvers' documents go through the code that the rest of the node runs on a resolved document
func afterResolve(doc *did.Document, id did.DID) {
	// (go-did's PublicKey() itself panics on a JsonWebKey2020 method without publicKeyJwk — the open third-party finding, observed through
	// ResolveKey/ResolveKeyByID below; the direct calls here only fetch keys to use them)
	pub := func(f func() (crypto.PublicKey, error)) (k crypto.PublicKey, err error) {
		defer func() {
			if r := recover(); r != nil {
				err = errors.New("library panic")
			}
		}()
		return f()
	}
	for _, vm := range doc.VerificationMethod {
		if vm != nil && (vm.PublicKeyJwk != nil || vm.PublicKeyMultibase != "" || vm.PublicKeyBase58 != "") {
			if k, err := pub(vm.PublicKey); err == nil {
				useKey(k)
			}
		}
	}
	for _, rels := range []did.VerificationRelationships{doc.AssertionMethod, doc.Authentication} {
		for _, rel := range rels {
			if rel.VerificationMethod != nil && (rel.PublicKeyJwk != nil || rel.PublicKeyMultibase != "" || rel.PublicKeyBase58 != "") {
				if k, err := pub(rel.PublicKey); err == nil {
					useKey(k)
				}
			}
		}
	}
	kr := resolver.DIDKeyResolver{Resolver: staticResolver{doc}}
	for rt := resolver.RelationType(0); rt < 5; rt++ {
		kr.ResolveKey(id, nil, rt)
		for _, vm := range doc.VerificationMethod {
			if vm != nil {
				kr.ResolveKeyByID(vm.ID.String(), nil, rt)
			}
		}
		kr.ResolveKeyByID(id.String()+"#key-1", nil, rt)
	}
	sr := resolver.DIDServiceResolver{Resolver: staticResolver{doc}}
	sr.Resolve(resolver.MakeServiceReference(id, "node"), resolver.DefaultMaxServiceReferenceDepth)
	resolver.IsDeactivated(*doc)
	doc.MarshalJSON()
}

type staticResolver struct{ doc *did.Document }

func (s staticResolver) Resolve(id did.DID, _ *resolver.ResolveMetadata) (*did.Document, *resolver.DocumentMetadata, error) {
	return s.doc, &resolver.DocumentMetadata{}, nil
}

type signer struct {
	key *ecdsa.PrivateKey
	jwk string
}

func newSigner() *signer {
	k, _ := ecdsa.GenerateKey(elliptic.P256(), rand.Reader)
	pub, _ := jwk.FromRaw(k.Public())
	b, _ := json.Marshal(pub)
	return &signer{k, string(b)}
}

func (s *signer) compact(header, payload []byte, good bool) string {
	b64 := base64.RawURLEncoding
	in := b64.EncodeToString(header) + "." + b64.EncodeToString(payload)
	h := sha256.Sum256([]byte(in))
	r, ss, _ := ecdsa.Sign(rand.Reader, s.key, h[:])
	sig := make([]byte, 64)
	r.FillBytes(sig[:32])
	ss.FillBytes(sig[32:])
	if !good {
		sig[3] ^= 1
	}
	return in + "." + b64.EncodeToString(sig)
}

func TestVerifC19(t *testing.T) {
	dir := os.Getenv("VERIF_OUT")
	if dir == "" {
		t.Skip("VERIF_OUT not set")
	}
	o := c19Open(dir)
	defer o.close(dir)
	r := mrand.New(mrand.NewSource(c19Seed()*49979687 + 5))
	m := jmut{r}
	n := c19Env("VERIF_N", 400)
	webID := did.MustParseDID("did:web:example.com")
	sg := newSigner()

	web := func(in string) string {
		var f fakeDoer
		if json.Unmarshal([]byte(in), &struct {
			S *int    `json:"status"`
			C *string `json:"ct"`
			B *string `json:"body"`
		}{&f.status, &f.ct, (*string)(nil)}) != nil {
			return "err:harness"
		}
		var w struct{ Body string `json:"body"` }
		json.Unmarshal([]byte(in), &w)
		f.body = []byte(w.Body)
		doc, _, err := didweb.Resolver{HttpClient: f}.Resolve(webID, nil)
		if err != nil {
			return "err"
		}
		afterResolve(doc, webID)
		return "ok"
	}
	webIn := func(status int, ct string, body []byte) string {
		b, _ := json.Marshal(map[string]any{"status": status, "ct": ct, "body": string(body)})
		return string(b)
	}
	key := func(in string) string {
		id, err := did.ParseDID(in)
		if err != nil {
			return "err:parse"
		}
		doc, _, err := didkey.NewResolver().Resolve(*id, nil)
		if err != nil {
			return "err"
		}
		afterResolve(doc, *id)
		return "ok"
	}
	jwkR := func(in string) string {
		id, err := did.ParseDID(in)
		if err != nil {
			return "err:parse"
		}
		doc, _, err := didjwk.NewResolver().Resolve(*id, nil)
		if err != nil {
			return "err"
		}
		afterResolve(doc, *id)
		return "ok"
	}
	parseJWT := func(in string) string {
		kf := func(kid string) (crypto.PublicKey, error) {
			if kid == "" {
				return nil, errors.New("no kid")
			}
			return sg.key.Public(), nil
		}
		nutsCrypto.JWTKidAlg(in)
		_, e2 := nutsCrypto.ParseJWS([]byte(in), kf)
		tok, err := nutsCrypto.ParseJWT(in, kf)
		if err != nil {
			return "err"
		}
		_ = e2
		tok.Audience()
		tok.PrivateClaims()
		return "ok"
	}
	vpPath := func(in string) string {
		vp, err := vc.ParseVerifiablePresentation(in)
		if err != nil {
			return "err:parse"
		}
		credential.PresentationSigner(*vp)
		credential.PresenterIsCredentialSubject(*vp)
		credential.PresentationIssuanceDate(*vp)
		credential.PresentationExpirationDate(*vp)
		credential.ParseLDProof(*vp)
		credential.ResolveSubjectDID(vp.VerifiableCredential...)
		for _, c := range vp.VerifiableCredential {
			c.CredentialStatuses()
			credential.AutoCorrectSelfAttestedCredential(c, webID)
			c.SubjectDID()
			c.Issuer.String()
		}
		credential.FilterOnDIDMethod(vp.VerifiableCredential, []string{"web"})
		vp.MarshalJSON()
		return "ok"
	}
	vcPath := func(in string) string {
		c, err := vc.ParseVerifiableCredential(in)
		if err != nil {
			return "err:parse"
		}
		c.CredentialStatuses()
		credential.ResolveSubjectDID(*c)
		credential.AutoCorrectSelfAttestedCredential(*c, webID)
		validator := credential.FindValidator(*c)
		if validator != nil {
			validator.Validate(*c)
		}
		c.MarshalJSON()
		return "ok"
	}
	// did:key, modelled part: the checks between the DID string and the library calls (NutsModel/C19/DidKey.lean)
	didKeyOp := func(in string) {
		op := map[string]any{"op": "didkey", "method": "", "id": "", "b58Ok": false, "keyType": nil, "keyLength": 0, "rsaSize": nil, "vmOk": true}
		id, err := did.ParseDID(in)
		if err != nil {
			if in != "did:key:" {
				return
			}
			id = &did.DID{Method: "key"} // the parser refuses an empty id; Resolve takes a did.DID value, so its own guard is exercised directly
		}
		op["method"], op["id"] = id.Method, id.ID
		if len(id.ID) > 0 {
			if mc, err := base58.DecodeAlphabet(id.ID[1:], base58.BTCAlphabet); err == nil {
				op["b58Ok"] = true
				rd := bytes.NewReader(mc)
				if kt, err := binary.ReadUvarint(rd); err == nil {
					op["keyType"] = fmt.Sprint(kt)
					rest, _ := io.ReadAll(rd)
					op["keyLength"] = len(rest)
					if k, err := x509.ParsePKCS1PublicKey(rest); err == nil {
						op["rsaSize"] = k.Size()
					}
				}
			}
		}
		kind := ""
		res := c19Guard(func() string {
			_, _, err := didkey.NewResolver().Resolve(*id, nil)
			if err == nil {
				return "ok"
			}
			m := err.Error()
			for _, p := range [][2]string{{"unsupported DID method", "method"}, {"does not start with 'z'", "z"}, {"invalid base58btc", "base58"}, {"invalid multicodec", "multicodec"},
				{"bls12381", "bls"}, {"invalid public key length", "length"}, {"secp256k1 public keys are not supported", "secp256k1"}, {"invalid PKCS#1", "pkcs1"},
				{"too small", "rsa-small"}, {"unsupported public key type", "unsupported"}} {
				if strings.Contains(m, p[0]) {
					kind = p[1]
					return "err:" + p[1]
				}
			}
			kind = "vm"
			return "err:vm"
		})
		op["vmOk"] = kind != "vm"
		if len(in) > 600 {
			op["id"] = c19Short(id.ID, 600) // (only the first character of the id matters to the model)
		}
		o.emit(op, c19Class(res))
	}
	// network/dag/parser.go (the parser MODEL belongs to C06; here only the crash/timeout oracle on header mutants)
	parseTx := func(in string) string {
		tx, err := dag.ParseTransaction([]byte(in))
		if err != nil {
			return "err"
		}
		tx.Ref()
		tx.PAL()
		tx.Previous()
		tx.Clock()
		tx.SigningTime()
		tx.PayloadType()
		tx.SigningKey()
		tx.SigningKeyID()
		return "ok"
	}
	// Presentation Exchange, well-formed-but-adversarial inputs (the PE MODEL belongs to C12; here: crash/timeout oracle plus the
	// parallel-array invariant every caller of Match relies on). Input: {"pd":…, "vcs":[…], "sub":… (optional)}.
	// Match → len(credentials) == len(mappings) → wallet side (builder) → verifier side (Validate of the wallet's own submission and of
	// the given/mutated one) → what discovery's Search does with the two Match results.
	pePath := func(in string) string {
		var w struct {
			PD  json.RawMessage   `json:"pd"`
			VCs []json.RawMessage `json:"vcs"`
			Sub json.RawMessage   `json:"sub"`
		}
		if json.Unmarshal([]byte(in), &w) != nil {
			return "err:harness"
		}
		def, err := pe.ParsePresentationDefinition(w.PD)
		if err != nil {
			return "err:pd"
		}
		var creds []vc.VerifiableCredential
		var rawVCs []string
		for _, r := range w.VCs {
			c, err := vc.ParseVerifiableCredential(string(r))
			if err != nil {
				return "err:vc"
			}
			creds = append(creds, *c)
			rawVCs = append(rawVCs, string(r))
		}
		res := "ok"
		matched, mappings, err := def.Match(creds)
		if err != nil {
			res = "err:match"
		} else {
			if len(matched) != len(mappings) {
				// show what the callers do with it (discovery Search's loop, Validate of the wallet's own submission)
				consequence := "no panic observed in the callers"
				func() {
					defer func() {
						if r := recover(); r != nil {
							consequence = fmt.Sprintf("the callers' parallel indexing PANICS: %v", r)
						}
					}()
					for i := range mappings {
						_ = matched[i]
					}
				}()
				return fmt.Sprintf("INVARIANT-BROKEN Match returned %d credential(s) and %d descriptor mapping(s); Validate and discovery Search index one with the other; %s", len(matched), len(mappings), consequence)
			}
			// discovery/module.go Search: credentialMap[inputDescriptorMappingObjects[i].Id] = submissionVCs[i]
			credentialMap := map[string]vc.VerifiableCredential{}
			for i := range mappings {
				credentialMap[mappings[i].Id] = matched[i]
			}
			def.ResolveConstraintsFields(credentialMap)
		}
		// the presentation a wallet sends: all its credentials in one JSON-LD VP
		vp := `{"@context":["https://www.w3.org/2018/credentials/v1"],"type":["VerifiablePresentation"],"verifiableCredential":[` + strings.Join(rawVCs, ",") + `],"proof":{"type":"JsonWebSignature2020","verificationMethod":"did:nuts:holder#key-1","proofPurpose":"authentication","created":"2024-01-01T00:00:00Z","jws":"e30..c2ln"}}`
		if len(rawVCs) == 1 {
			vp = strings.Replace(vp, `"verifiableCredential":[`+rawVCs[0]+`]`, `"verifiableCredential":`+rawVCs[0], 1)
		}
		envelope, err := pe.ParseEnvelope([]byte(vp))
		if err != nil {
			return "err:envelope"
		}
		// wallet side: build the submission, verifier side: validate it
		builder := def.PresentationSubmissionBuilder()
		builder.AddWallet(did.MustParseDID("did:nuts:holder"), creds)
		if built, _, err := builder.Build("ldp_vp"); err == nil {
			if _, err := built.Validate(*envelope, *def); err != nil && res == "ok" {
				res = "err:validate-own"
			}
			built.Resolve(*envelope)
		}
		if len(w.Sub) > 0 {
			sub, err := pe.ParsePresentationSubmission(w.Sub)
			if err != nil {
				return "err:submission"
			}
			if _, err := sub.Validate(*envelope, *def); err != nil && res == "ok" {
				res = "err:validate"
			}
			sub.Resolve(*envelope)
		}
		return res
	}
	// pe.ParseEnvelope (first step of the OpenID4VP authorization response and of the s2s token request, before anything is verified)
	// and what the handlers then read from the envelope
	envelopePath := func(in string) string {
		env, err := pe.ParseEnvelope([]byte(in))
		if err != nil {
			return "err"
		}
		for _, p := range env.Presentations {
			credential.PresentationSigner(p)
			credential.PresenterIsCredentialSubject(p)
			credential.PresentationIssuanceDate(p)
			credential.PresentationExpirationDate(p)
			p.MarshalJSON()
		}
		env.MarshalJSON()
		return "ok"
	}
	// crypto/jwx.go, modelled part (NutsModel/C19/Jwx.lean): the check order of JWTKidAlg / ParseJWT / ParseJWS; the jwx library's
	// results are observed independently as data
	jwxOp := func(in string) {
		op := map[string]any{"op": "jwx.parse", "input": in, "parseOk": false, "nSigs": 0, "keyOk": false, "algSupported": false, "algFitsKey": false, "verifyJWT": false, "verifyJWS": false}
		kf := func(kid string) (crypto.PublicKey, error) {
			if kid == "" {
				return nil, errors.New("no kid")
			}
			return sg.key.Public(), nil
		}
		c19Guard(func() string {
			m, err := jws.ParseString(in)
			if err != nil {
				return ""
			}
			op["parseOk"], op["nSigs"] = true, len(m.Signatures())
			if len(m.Signatures()) == 0 {
				return ""
			}
			h := m.Signatures()[0].ProtectedHeaders()
			alg := h.Algorithm()
			op["keyOk"] = h.KeyID() != ""
			op["algSupported"] = nutsJwx.IsAlgorithmSupported(alg)
			op["algFitsKey"] = nutsJwx.AlgorithmFitsKey(alg, sg.key.Public())
			if _, err := jwt.ParseString(in, jwt.WithKey(alg, sg.key.Public()), jwt.WithVerify(true)); err == nil {
				op["verifyJWT"] = true
			}
			if _, err := jws.Verify([]byte(in), jws.WithKey(alg, sg.key.Public())); err == nil {
				op["verifyJWS"] = true
			}
			return ""
		})
		parsed := op["parseOk"] == true
		cls := func(err error) string {
			m := err.Error()
			switch {
			case strings.Contains(m, "incorrect number of signatures in JWT") || errors.Is(err, nutsCrypto.ErrorInvalidNumberOfSignatures):
				return "err:signatures"
			case m == "no kid":
				return "err:key"
			case strings.Contains(m, "token signing algorithm is not supported"):
				return "err:alg"
			case strings.Contains(m, "token signing algorithm does not fit the key"):
				return "err:alg-key"
			case !parsed:
				return "err:jws"
			}
			return "err:verify"
		}
		c19Mark(op)
		part := func(fn func() error) string {
			return c19Class(c19Guard(func() string {
				if err := fn(); err != nil {
					return cls(err)
				}
				return "ok"
			}))
		}
		line := "kidalg=" + part(func() error { _, _, err := nutsCrypto.JWTKidAlg(in); return err }) +
			" jwt=" + part(func() error { _, err := nutsCrypto.ParseJWT(in, kf); return err }) +
			" jws=" + part(func() error { _, err := nutsCrypto.ParseJWS([]byte(in), kf); return err })
		if len(in) > 6000 {
			op["input"] = c19Short(in, 6000)
		}
		o.emit(op, line)
	}
	// vcr/credential helpers, modelled part (NutsModel/C19/Cred.lean): ResolveSubjectDID, PresentationSigner (+ ParseLDProof),
	// PresenterIsCredentialSubject on every presentation go-did parses; library results are observed independently as data
	// vcr/credential helpers, second modelled part (NutsModel/C19/CredMore.lean): PresentationIssuanceDate / PresentationExpirationDate,
	// AutoCorrectSelfAttestedCredential, FilterOnDIDMethod.  The real functions run on EVERY input; an (abstract data, outcome) pair that was
	// already emitted is not emitted again.
	credMoreSeen := map[string]bool{}
	emitOnce := func(op map[string]any, in string, line string) {
		b, _ := json.Marshal(op)
		k := string(b) + "|" + line
		if credMoreSeen[k] {
			o.dist[fmt.Sprint(op["op"])+":repeat-not-emitted"]++
			return
		}
		credMoreSeen[k] = true
		op["input"] = in
		if len(in) > 6000 {
			op["input"] = c19Short(in, 6000)
		}
		o.emit(op, line)
	}
	tmStr := func(t time.Time) any {
		if t.IsZero() {
			return nil
		}
		return t.UTC().Format(time.RFC3339Nano)
	}
	tmRes := func(t *time.Time) string {
		if t == nil {
			return "nil"
		}
		if t.IsZero() {
			return "ZERO-TIME-RETURNED"
		}
		return t.UTC().Format(time.RFC3339Nano)
	}
	credAutoOp := func(c vc.VerifiableCredential, in string, src string) {
		op := map[string]any{"op": "cred.autocorrect", "src": src, "nProof": len(c.Proof), "idNil": c.ID == nil, "issuerEmpty": c.Issuer.String() == "", "issuanceZero": c.IssuanceDate.IsZero(), "nCS": len(c.CredentialSubject)}
		var cs []map[string]interface{}
		_ = c.UnmarshalCredentialSubject(&cs)
		subj := []any{}
		for _, m := range cs {
			if m == nil {
				subj = append(subj, nil)
			} else {
				_, has := m["id"]
				subj = append(subj, has)
			}
		}
		op["subj"] = subj
		beforeID, beforeIssuer, beforeDate := "", c.Issuer.String(), c.IssuanceDate
		if c.ID != nil {
			beforeID = c.ID.String()
		}
		beforeSubj, _ := json.Marshal(c.CredentialSubject)
		c19Mark(map[string]any{"op": "cred.autocorrect", "src": src, "input": in})
		line := c19Class(c19Guard(func() string {
			out := credential.AutoCorrectSelfAttestedCredential(c, webID)
			afterID := ""
			if out.ID != nil {
				afterID = out.ID.String()
			}
			afterSubj, _ := json.Marshal(out.CredentialSubject)
			res := fmt.Sprintf("ok id=%v issuer=%v date=%v subject=%v", afterID != beforeID, out.Issuer.String() != beforeIssuer, !out.IssuanceDate.Equal(beforeDate), string(afterSubj) != string(beforeSubj))
			// clause S on the implementation's own output: a credential that carries a proof comes back unchanged; a member the client supplied is never replaced
			if len(c.Proof) > 0 && strings.Contains(res, "true") {
				res += " INVARIANT-BROKEN a signed credential was modified"
			}
			if (beforeID != "" && afterID != beforeID) || (beforeIssuer != "" && out.Issuer.String() != beforeIssuer) || (!beforeDate.IsZero() && !out.IssuanceDate.Equal(beforeDate)) {
				res += " INVARIANT-BROKEN a supplied member was overwritten"
			}
			return res
		}))
		emitOnce(op, in, line)
	}
	credFilterOps := func(creds []vc.VerifiableCredential, in string, src string) {
		data := []any{}
		tagged := make([]vc.VerifiableCredential, len(creds))
		for i, c := range creds {
			row := map[string]any{"issuer": nil, "subjOk": false, "subjects": []any{}}
			if d, err := did.ParseDID(c.Issuer.String()); err == nil {
				row["issuer"] = d.Method
			}
			bl := make([]credential.BaseCredentialSubject, 0)
			if c.UnmarshalCredentialSubject(&bl) == nil {
				row["subjOk"] = true
				subs := []any{}
				for _, b := range bl {
					e := map[string]any{"idEmpty": b.ID == "", "method": nil}
					if d, err := did.ParseDID(b.ID); err == nil {
						e["method"] = d.Method
					}
					subs = append(subs, e)
				}
				row["subjects"] = subs
			}
			data = append(data, row)
			tagged[i] = c
			u := ssi.MustParseURI(fmt.Sprintf("urn:c19:%d", i))
			tagged[i].ID = &u
		}
		for _, ms := range [][]string{{}, {"web"}, {"nuts", "jwk"}, {"web", "nuts"}} {
			op := map[string]any{"op": "cred.filter", "src": src, "methods": ms, "creds": data}
			c19Mark(map[string]any{"op": "cred.filter", "src": src, "input": in})
			line := c19Class(c19Guard(func() string {
				out := credential.FilterOnDIDMethod(tagged, ms)
				var idx []string
				last := -1
				bad := ""
				for _, c := range out {
					n := -1
					if c.ID != nil {
						fmt.Sscanf(c.ID.String(), "urn:c19:%d", &n)
					}
					if n <= last || n >= len(creds) {
						bad = " INVARIANT-BROKEN the result is not a subsequence of the input"
					}
					last = n
					idx = append(idx, fmt.Sprint(n))
					// soundness on the implementation's own output (constant expectation, not the model): a kept credential has no DID of a method that was not asked for
					if len(ms) > 0 && n >= 0 && n < len(creds) {
						row := data[n].(map[string]any)
						okm := func(m any) bool {
							if m == nil {
								return true
							}
							for _, x := range ms {
								if x == m {
									return true
								}
							}
							return false
						}
						if !okm(row["issuer"]) {
							bad = " INVARIANT-BROKEN a credential of an issuer with another DID method was kept"
						}
						for _, b := range row["subjects"].([]any) {
							if e := b.(map[string]any); e["idEmpty"] == false && !okm(e["method"]) {
								bad = " INVARIANT-BROKEN a credential of a subject with another DID method was kept"
							}
						}
					}
				}
				return "kept=[" + strings.Join(idx, ",") + "]" + bad
			}))
			emitOnce(op, in, line)
		}
	}
	credDatesOp := func(vp *vc.VerifiablePresentation, base map[string]any, in string) {
		op := map[string]any{"op": "cred.dates", "src": "vp", "nbf": nil, "iat": nil, "exp": nil, "created": nil, "expiresNil": true, "expires": nil}
		for _, k := range []string{"format", "kid", "proofsOk", "nProofs", "parsedDID"} {
			op[k] = base[k]
		}
		if vp.Format() == vc.JWTPresentationProofFormat && vp.JWT() != nil {
			op["nbf"], op["iat"], op["exp"] = tmStr(vp.JWT().NotBefore()), tmStr(vp.JWT().IssuedAt()), tmStr(vp.JWT().Expiration())
		}
		var proofs []proof.LDProof
		if vp.UnmarshalProofValue(&proofs) == nil && len(proofs) > 0 {
			op["created"] = tmStr(proofs[0].Created)
			if proofs[0].Expires != nil {
				op["expiresNil"], op["expires"] = false, tmStr(*proofs[0].Expires)
			}
		}
		c19Mark(map[string]any{"op": "cred.dates", "src": "vp", "input": in})
		line := "iss=" + c19Class(c19Guard(func() string { return tmRes(credential.PresentationIssuanceDate(*vp)) })) +
			" exp=" + c19Class(c19Guard(func() string { return tmRes(credential.PresentationExpirationDate(*vp)) }))
		if strings.Contains(line, "ZERO-TIME") {
			line += " INVARIANT-BROKEN a zero time was returned as a date"
		}
		emitOnce(op, in, line)
	}
	credVCOp := func(in string) {
		c, err := vc.ParseVerifiableCredential(in)
		if err != nil {
			return
		}
		credFilterOps([]vc.VerifiableCredential{*c}, in, "vc")
		credAutoOp(*c, in, "vc")
	}
	// jsonld: the recover guard around json-gold (NutsModel/C19/JsonLd.lean). What the processor does with the document is observed on the
	// processor ITSELF (same options, under the harness's own recover) and is data for the model; then the three REAL guarded functions run.
	ldLoader := jsonld.NewTestJSONLDManager(t).DocumentLoader()
	jsonldOp := func(in string) {
		if len(in) == 0 || in[0] != '{' && in[0] != '[' && in[0] != '"' {
			return
		}
		probe := func(fn func() error) string {
			return c19Guard(func() (res string) {
				defer func() {
					if r := recover(); r != nil {
						res = "panic"
					}
				}()
				if fn() != nil {
					return "err"
				}
				return "ok"
			})
		}
		var asMap map[string]interface{}
		jsonOk := json.Unmarshal([]byte(in), &asMap) == nil
		op := map[string]any{"op": "jsonld.guard", "jsonOk": jsonOk, "docOk": false, "normalize": "ok", "expand": "ok", "expandDoc": "ok"}
		if jsonOk {
			op["normalize"] = probe(func() error {
				opts := ld.NewJsonLdOptions("")
				opts.DocumentLoader, opts.Format, opts.Algorithm = ldLoader, "application/n-quads", "URDNA2015"
				var m map[string]interface{}
				json.Unmarshal([]byte(in), &m)
				_, err := ld.NewJsonLdProcessor().Normalize(m, opts)
				return err
			})
			op["expand"] = probe(func() error {
				opts := ld.NewJsonLdOptions(jsonld.JSONLdBase)
				opts.DocumentLoader, opts.SafeMode = ldLoader, true
				var m map[string]interface{}
				json.Unmarshal([]byte(in), &m)
				_, err := ld.NewJsonLdProcessor().Expand(m, opts)
				return err
			})
		}
		if doc, err := ld.DocumentFromReader(strings.NewReader(in)); err == nil {
			op["docOk"] = true
			op["expandDoc"] = probe(func() error {
				opts := ld.NewJsonLdOptions("")
				opts.DocumentLoader, opts.SafeMode = ldLoader, true
				_, err := ld.NewJsonLdProcessor().Expand(doc, opts)
				return err
			})
		}
		for _, k := range []string{"normalize", "expand", "expandDoc"} {
			if s, _ := op[k].(string); s != "ok" && s != "err" && s != "panic" {
				op[k] = "err" // (a probe that timed out: not data the model can use)
			}
		}
		cls := func(err error, parsed bool, result bool) string {
			switch {
			case err == nil:
				return "ok"
			case result:
				return "INVARIANT-BROKEN a result was returned together with an error"
			case strings.Contains(err.Error(), "jsonld: invalid document"):
				return "err:invalid-document"
			case !parsed:
				return "err:json"
			}
			return "err:processor"
		}
		c19Mark(map[string]any{"op": "jsonld.guard", "input": in})
		line := "canon=" + c19Class(c19Guard(func() string {
			res, err := jsonld.LDUtil{LDDocumentLoader: ldLoader}.Canonicalize(json.RawMessage(in))
			return cls(err, jsonOk, err != nil && res != nil)
		})) + " read=" + c19Class(c19Guard(func() string {
			doc, err := jsonld.Reader{DocumentLoader: ldLoader}.ReadBytes([]byte(in))
			return cls(err, jsonOk, err != nil && doc != nil)
		})) + " fields=" + c19Class(c19Guard(func() string {
			return cls(jsonld.AllFieldsDefined(ldLoader, []byte(in)), op["docOk"] == true, false)
		}))
		o.dist["jsonld.guard:processor="+fmt.Sprint(op["normalize"], "/", op["expand"], "/", op["expandDoc"])]++
		emitOnce(op, in, line)
	}
	credOp := func(in string) {
		vp, err := vc.ParseVerifiablePresentation(in)
		if err != nil {
			return
		}
		op := map[string]any{"op": "cred.presenter", "input": in, "format": "other", "kid": nil, "proofsOk": false, "nProofs": 0, "parsedDID": nil}
		didOf := func(s string) any {
			var out any
			c19Guard(func() string {
				if u, err := did.ParseDIDURL(s); err == nil {
					out = ""
					if !u.DID.Empty() {
						out = u.DID.String()
					}
				}
				return ""
			})
			return out
		}
		switch vp.Format() {
		case vc.JWTPresentationProofFormat:
			op["format"] = "jwt"
			if kid, _, err := nutsCrypto.JWTKidAlg(vp.Raw()); err == nil {
				op["kid"] = kid
				op["parsedDID"] = didOf(kid)
			}
		case vc.JSONLDPresentationProofFormat:
			op["format"] = "ldp"
		}
		var proofs []proof.LDProof
		if vp.UnmarshalProofValue(&proofs) == nil {
			op["proofsOk"], op["nProofs"] = true, len(proofs)
			if len(proofs) > 0 && op["format"] == "ldp" {
				op["parsedDID"] = didOf(proofs[0].VerificationMethod.String())
			}
		}
		subjects := []any{}
		for _, c := range vp.VerifiableCredential {
			if sid, err := c.SubjectDID(); err == nil {
				subjects = append(subjects, sid.String())
			} else {
				subjects = append(subjects, nil)
			}
		}
		op["subjects"] = subjects
		cls := func(err error) string {
			m := err.Error()
			for _, p := range [][2]string{{"not all VCs have the same credentialSubject.id", "not-same-subject"}, {"unable to get subject DID from VC", "subject"}, {"no kid header in JWT", "no-kid"},
				{"cannot parse kid as did", "kid-not-did"}, {"invalid LD-proof for presentation", "proof-unmarshal"}, {"presentation should have exactly 1 proof", "proof-count"},
				{"invalid verification method for JSON-LD presentation", "verification-method"}, {"unsupported presentation format", "format"}} {
				if strings.Contains(m, p[0]) {
					return "err:" + p[1]
				}
			}
			return "err:jws"
		}
		c19Mark(op)
		part := func(fn func() string) string { return c19Class(c19Guard(fn)) }
		line := "subj=" + part(func() string {
			d, err := credential.ResolveSubjectDID(vp.VerifiableCredential...)
			if err != nil {
				return cls(err)
			}
			if d.Empty() {
				return "ok()"
			}
			return "ok(" + c19Show(d.String()) + ")"
		}) + " signer=" + part(func() string {
			d, err := credential.PresentationSigner(*vp)
			if err != nil {
				return cls(err)
			}
			if d.Empty() {
				return "ok()"
			}
			return "ok(" + c19Show(d.String()) + ")"
		}) + " presenter=" + part(func() string {
			d, err := credential.PresenterIsCredentialSubject(*vp)
			if err != nil {
				return cls(err)
			}
			if d == nil {
				return "ok:nil"
			}
			if d.Empty() {
				return "ok()"
			}
			return "ok(" + c19Show(d.String()) + ")"
		})
		if len(in) > 6000 {
			op["input"] = c19Short(in, 6000)
		}
		o.emit(op, line)
		credDatesOp(vp, op, in)
		credFilterOps(vp.VerifiableCredential, in, "vp")
		for _, c := range vp.VerifiableCredential {
			credAutoOp(c, in, "vp")
		}
	}
	eps := map[string]func(string) string{"pe.ParseEnvelope": envelopePath, "pe.match+validate": pePath, "dag.ParseTransaction": parseTx, "didweb.Resolve": web, "didkey.Resolve": key, "didjwk.Resolve": jwkR, "crypto.ParseJWT": parseJWT, "credential.vp": vpPath, "credential.vc": vcPath}

	replay, isReplay := c19ReadOps()
	for _, op := range replay {
		if op["op"] == "jwx.parse" {
			in, _ := op["input"].(string)
			jwxOp(in)
		}
		if op["op"] == "cred.presenter" {
			in, _ := op["input"].(string)
			credOp(in)
		}
		if op["op"] == "jsonld.guard" {
			in, _ := op["input"].(string)
			jsonldOp(in)
		}
		if op["op"] == "cred.dates" || op["op"] == "cred.autocorrect" || op["op"] == "cred.filter" {
			in, _ := op["input"].(string)
			if op["src"] == "vc" {
				credVCOp(in)
			} else {
				credOp(in)
			}
		}
		if op["op"] == "didkey" {
			m, _ := op["method"].(string)
			i, _ := op["id"].(string)
			didKeyOp("did:" + m + ":" + i)
		}
		name, _ := op["op"].(string)
		if fn, ok := eps[strings.TrimPrefix(name, "x.")]; ok && strings.HasPrefix(name, "x.") {
			in, _ := op["input"].(string)
			o.explore(strings.TrimPrefix(name, "x."), in, func() string { return fn(in) })
		}
	}
	if isReplay {
		return
	}
	jsonldSeq := 0
	run := func(ep string, in string, kind string) {
		o.dist[ep+":"+kind]++
		fn := eps[ep]
		o.explore(ep, in, func() string { return fn(in) })
		if ep == "didkey.Resolve" {
			didKeyOp(in)
		}
		if ep == "credential.vp" {
			credOp(in)
		}
		if ep == "credential.vc" {
			credVCOp(in)
		}
		if (ep == "credential.vc" || ep == "credential.vp") && !strings.HasPrefix(kind, "rand:") && !strings.HasPrefix(kind, "jwt-") {
			// (six processor runs per document: the quick tier takes every fourth systematic mutant, the table below is always run in full)
			if jsonldSeq++; n > 1000 || jsonldSeq%4 == 0 {
				jsonldOp(in)
			}
		}
		if ep == "crypto.ParseJWT" {
			jwxOp(in)
		}
	}

	// ---- PEX envelopes: JWT presentations with every registered claim (and vp) present / absent / null / of another type, in combination;
	// bare, as JSON string and inside arrays; not really signed (parsing comes first)
	{
		b64 := base64.RawURLEncoding
		mkJWT := func(claims string) string {
			return b64.EncodeToString([]byte(`{"alg":"ES256","typ":"JWT","kid":"did:nuts:holder#key-1"}`)) + "." + b64.EncodeToString([]byte(claims)) + "." + b64.EncodeToString(make([]byte, 64))
		}
		innerVP := `{"@context":["https://www.w3.org/2018/credentials/v1"],"type":["VerifiablePresentation"],"verifiableCredential":[]}`
		vpVals := []string{"-", "null", "{}", innerVP, "[]", `"x"`, "5", "true", `{"verifiableCredential":null}`, `{"id":5,"type":null}`}
		jtiVals := []string{"-", `"did:nuts:holder#1"`, "null", "5", `""`, `["a"]`, `{"a":1}`}
		other := []string{``, `"iss":"did:nuts:holder","sub":"did:nuts:holder","aud":"v","nbf":1,"exp":4102444800,"iat":1,"nonce":"n",`, `"iss":null,"sub":null,"aud":null,"nbf":null,"exp":null,"iat":null,`, `"iss":5,"sub":[],"aud":{},"nbf":"x","exp":"y",`}
		var jwts []string
		for _, vp := range vpVals {
			for _, jti := range jtiVals {
				for oi, o := range other {
					if oi > 1 && !(vp == "null" || vp == "-" || vp == innerVP) {
						continue
					}
					c := "{" + o
					if vp != "-" {
						c += `"vp":` + vp + ","
					}
					if jti != "-" {
						c += `"jti":` + jti + ","
					}
					c = strings.TrimSuffix(c, ",") + "}"
					j := mkJWT(c)
					jwts = append(jwts, j)
					run("pe.ParseEnvelope", j, "jwt-claims")
				}
			}
		}
		for i := 0; i < len(jwts); i += 7 {
			run("pe.ParseEnvelope", `"`+jwts[i]+`"`, "jwt-as-json-string")
			run("pe.ParseEnvelope", `["`+jwts[i]+`"]`, "jwt-in-array")
			run("pe.ParseEnvelope", `["`+jwts[i]+`",`+validVP()+`]`, "jwt-and-jsonld-in-array")
		}
		jsystematic([]byte(validVP()), func(b []byte, kind string) { run("pe.ParseEnvelope", string(b), kind) })
		jsystematic([]byte(`{"iss":"did:nuts:holder","jti":"did:nuts:holder#1","nbf":1,"exp":4102444800,"vp":`+innerVP+`}`), func(b []byte, kind string) { run("pe.ParseEnvelope", mkJWT(string(b)), "jwt:"+kind) })
		for _, sIn := range []string{"", " ", "[]", "[[]]", "[null]", "[5]", `[""]`, `""`, `"x"`, "a.b.c", "a.b", "{}", "null", "5", `{"type":"VerifiablePresentation"}`, "[" + validVP() + ",[]]"} {
			run("pe.ParseEnvelope", sIn, "shape")
		}
	}

	// ---- Presentation Exchange: definitions with and without submission_requirements × overlapping descriptors × credential sets
	{
		org := func(id, name, city string) string {
			return `{"@context":["https://www.w3.org/2018/credentials/v1","https://nuts.nl/credentials/v1"],"id":"did:nuts:issuer#` + id + `","type":["VerifiableCredential","NutsOrganizationCredential"],"issuer":"did:nuts:issuer","issuanceDate":"2024-01-01T00:00:00Z","credentialSubject":{"id":"did:nuts:holder","organization":{"name":"` + name + `","city":"` + city + `"}},"proof":{"type":"JsonWebSignature2020","verificationMethod":"did:nuts:issuer#key-1","proofPurpose":"assertionMethod","created":"2024-01-01T00:00:00Z","jws":"e30..c2ln"}}`
		}
		other := `{"@context":["https://www.w3.org/2018/credentials/v1"],"id":"did:nuts:issuer#9","type":["VerifiableCredential","OtherCredential"],"issuer":"did:nuts:issuer","issuanceDate":"2024-01-01T00:00:00Z","credentialSubject":{"id":"did:nuts:holder","x":"y","n":5,"arr":["A","B"],"flag":true,"obj":{"a":1}},"proof":{"type":"JsonWebSignature2020","verificationMethod":"did:nuts:issuer#key-1","proofPurpose":"assertionMethod","created":"2024-01-01T00:00:00Z","jws":"e30..c2ln"}}`
		credSets := [][]string{{org("1", "Care BV", "Caretown")}, {org("1", "Care BV", "Caretown"), org("2", "Cure BV", "Curetown")}, {org("1", "Care BV", "Caretown"), other},
			{other}, {}, {org("1", "Care BV", "Caretown"), org("1", "Care BV", "Caretown")}, {org("1", "Care BV", "Caretown"), org("2", "Cure BV", "Curetown"), other}}
		// descriptor bodies: several are satisfied by the SAME credential
		descBodies := []string{
			`"constraints":{"fields":[{"path":["$.type"],"filter":{"type":"string","const":"NutsOrganizationCredential"}}]}`,
			`"constraints":{"fields":[{"path":["$.credentialSubject.organization.city"],"filter":{"type":"string"}}]}`,
			`"constraints":{"fields":[{"path":["$.credentialSubject.organization.name"],"filter":{"type":"string","const":"Care BV"}}]}`,
			`"constraints":{"fields":[{"path":["$.issuer"],"filter":{"type":"string","pattern":"^did:nuts:"}}]}`,
			`"constraints":{"fields":[{"path":["$.credentialSubject.nope"],"filter":{"type":"string"}}]}`,
			`"constraints":{"fields":[{"path":["$.type"],"filter":{"type":"string","const":"OtherCredential"}}]}`,
			`"constraints":{"fields":[{"id":"city","path":["$.credentialSubject.organization.city","$.credentialSubject.x"]}]}`,
			// schema-valid filters whose type is NOT string but that carry string keywords, on values of every JSON type
			`"constraints":{"fields":[{"path":["$.credentialSubject.n"],"filter":{"type":"number","pattern":"^5$"}}]}`,
			`"constraints":{"fields":[{"path":["$.credentialSubject.arr"],"filter":{"type":"array","pattern":"^C$"}}]}`,
			`"constraints":{"fields":[{"path":["$.credentialSubject.flag","$.credentialSubject.obj","$.credentialSubject.n"],"filter":{"type":"boolean","pattern":"x","const":"true"}}]}`,
			`"constraints":{"fields":[{"path":["$.credentialSubject.arr","$.credentialSubject.n"],"filter":{"type":"string","pattern":"^A$","enum":["A"]}}]}`,
		}
		reqs := []string{``, `"submission_requirements":[{"name":"r","rule":"pick","count":1,"from":"A"}],`, `"submission_requirements":[{"name":"r","rule":"all","from":"A"}],`,
			`"submission_requirements":[{"name":"r","rule":"pick","min":1,"from":"A"}],`, `"submission_requirements":[{"name":"r","rule":"pick","min":1,"max":2,"from":"A"}],`,
			`"submission_requirements":[{"name":"r","rule":"pick","count":2,"from":"A"}],`, `"submission_requirements":[{"name":"r","rule":"pick","max":1,"from":"A"}],`,
			`"submission_requirements":[{"name":"r","rule":"all","from":"A"},{"name":"s","rule":"pick","count":1,"from":"B"}],`,
			`"submission_requirements":[{"name":"r","rule":"pick","count":1,"from_nested":[{"name":"n1","rule":"all","from":"A"},{"name":"n2","rule":"pick","count":1,"from":"B"}]}],`,
			`"submission_requirements":[{"name":"r","rule":"all","from_nested":[{"name":"n1","rule":"pick","min":1,"from":"A"},{"name":"n2","rule":"all","from":"B"}]}],`,
			`"submission_requirements":[{"name":"r","rule":"all","from":"Z"}],`}
		reqsTyped := []string{``, `"submission_requirements":[{"name":"r","rule":"pick","count":1,"from":"A"}],`}
		groupings := [][]string{{"A", "A"}, {"A", "B"}, {"A", "A", "A"}, {"A", "A", "B"}, {"A", "B", "B"}, {"A,B", "A"}, {"A", "A", "B", "B"}}
		mkPD := func(req string, bodies []int, groups []string) string {
			var ds []string
			for i, b := range bodies {
				g := ""
				if req != "" {
					g = `"group":["` + strings.ReplaceAll(groups[i%len(groups)], ",", `","`) + `"],`
				}
				ds = append(ds, fmt.Sprintf(`{"id":"d%d",%s%s}`, i, g, descBodies[b]))
			}
			return `{"id":"pd",` + req + `"input_descriptors":[` + strings.Join(ds, ",") + `]}`
		}
		mkIn := func(pd string, vcs []string, sub string) string {
			m := map[string]any{"pd": json.RawMessage(pd), "vcs": []json.RawMessage{}}
			l := []json.RawMessage{}
			for _, v := range vcs {
				l = append(l, json.RawMessage(v))
			}
			m["vcs"] = l
			if sub != "" {
				m["sub"] = json.RawMessage(sub)
			}
			b, _ := json.Marshal(m)
			return string(b)
		}
		bodySets := [][]int{{0, 1}, {0, 1, 2}, {0, 4}, {0, 5}, {1, 3}, {0, 1, 2, 3}, {4, 4}, {0, 0}, {6, 1}, {5, 0, 1}}
		// filters of every type against the credential with values of every type, with and without submission requirements
		for _, b := range []int{7, 8, 9, 10} {
			for _, req := range []string{reqsTyped[0], reqsTyped[1]} {
				pd := `{"id":"pd",` + req + `"input_descriptors":[{"id":"d0",` + map[bool]string{true: `"group":["A"],`, false: ""}[req != ""] + descBodies[b] + `}]}`
				for _, cs := range [][]string{{other}, {other, org("1", "Care BV", "Caretown")}} {
					bs, _ := json.Marshal(map[string]any{"pd": json.RawMessage(pd), "vcs": func() []json.RawMessage {
						var l []json.RawMessage
						for _, v := range cs {
							l = append(l, json.RawMessage(v))
						}
						return l
					}()})
					run("pe.match+validate", string(bs), "typed-filter×typed-value")
				}
			}
		}
		demoSub := `{"id":"s","definition_id":"pd","descriptor_map":[{"id":"d0","format":"ldp_vc","path":"$.verifiableCredential"}]}`
		arrSub := `{"id":"s","definition_id":"pd","descriptor_map":[{"id":"d0","format":"ldp_vc","path":"$.verifiableCredential[0]"},{"id":"d1","format":"ldp_vc","path":"$.verifiableCredential[0]"}]}`
		cnt := 0
		for ri, req := range reqs {
			for bi, bodies := range bodySets {
				for gi, groups := range groupings {
					if req == "" && gi > 0 {
						continue
					}
					// keep the quick tier small: every (requirement, body set) pair with a rotating grouping/credential set, all of them in thorough
					if !c19Thorough() && gi != (ri+bi)%len(groupings) && req != "" {
						continue
					}
					for ci, cs := range credSets {
						if !c19Thorough() && ci != (ri+bi+gi)%len(credSets) && ci > 1 {
							continue
						}
						pd := mkPD(req, bodies, groups)
						run("pe.match+validate", mkIn(pd, cs, ""), "pd×credentials")
						if len(cs) == 1 {
							run("pe.match+validate", mkIn(pd, cs, demoSub), "pd×credentials×submission")
						} else if len(cs) > 1 {
							run("pe.match+validate", mkIn(pd, cs, arrSub), "pd×credentials×submission")
						}
						cnt++
					}
				}
			}
		}
		// submission mutants against the overlapping definition
		basePD := mkPD(reqs[1], []int{0, 1}, []string{"A", "A"})
		jsystematic([]byte(arrSub), func(b []byte, kind string) {
			run("pe.match+validate", mkIn(basePD, []string{org("1", "Care BV", "Caretown"), org("2", "Cure BV", "Curetown")}, string(b)), "submission:"+kind)
		})
		jsystematic([]byte(basePD), func(b []byte, kind string) {
			run("pe.match+validate", mkIn(string(b), []string{org("1", "Care BV", "Caretown")}, demoSub), "definition:"+kind)
		})
		for i := 0; i < n/2; i++ {
			b, kind := m.mutate([]byte(basePD))
			run("pe.match+validate", mkIn(string(b), credSets[r.Intn(len(credSets))], ""), "rand-definition:"+kind)
		}
	}

	// ---- dag transactions: mutated protected header under the original payload/signature (the parser does not verify signatures)
	{
		validTx, _, _ := dag.CreateTestTransactionEx(1, hash.SHA256Sum([]byte("payload")), [][]byte{{1, 2, 3}})
		parts := strings.Split(string(validTx.Data()), ".")
		hdrB, _ := base64.RawURLEncoding.DecodeString(parts[0])
		mkTx := func(h []byte) string { return base64.RawURLEncoding.EncodeToString(h) + "." + parts[1] + "." + parts[2] }
		if parseTx(mkTx(hdrB)) != "ok" {
			t.Fatal("valid transaction is not accepted")
		}
		jsystematic(hdrB, func(b []byte, kind string) { run("dag.ParseTransaction", mkTx(b), kind) })
		for i := 0; i < n; i++ {
			b, kind := m.mutate(hdrB)
			run("dag.ParseTransaction", mkTx(b), "rand:"+kind)
		}
		for _, sIn := range []string{"", ".", "..", parts[0], parts[0] + "." + parts[1], parts[0] + ".." + parts[2], "{}", "[]", mkTx([]byte("null")), mkTx([]byte("[]")), mkTx([]byte("{}")), mkTx(hdrB) + ".x"} {
			run("dag.ParseTransaction", sIn, "serialisation")
		}
	}

	// ---- did:web: transport-level variants, then systematic + random mutations of the document
	if res := c19Guard(func() string { return web(webIn(200, "application/json", []byte(validWebDoc))) }); res != "ok" {
		t.Fatal("valid did:web document is not accepted")
	}
	for _, ct := range []string{"application/json", "application/did+json", "application/did+ld+json; charset=utf-8", "text/html", "", "-", ";;;", "application/json; charset", strings.Repeat("a", 5000)} {
		for _, st := range []int{0, 199, 200, 204, 299, 300, 404, 500} {
			run("didweb.Resolve", webIn(st, ct, []byte(validWebDoc)), "transport")
		}
	}
	for _, b := range []string{"", " ", "null", "[]", "{}", "5", `"x"`, "\xff\xfe", `{"id":"did:web:example.com"}`, `{"id":"did:web:other.example.com"}`, `{"id":5}`, strings.Repeat("[", 100000)} {
		run("didweb.Resolve", webIn(200, "application/json", []byte(b)), "body-shape")
	}
	jsystematic([]byte(validWebDoc), func(b []byte, kind string) { run("didweb.Resolve", webIn(200, "application/json", b), kind) })
	for i := 0; i < n*2; i++ {
		b, kind := m.mutate([]byte(validWebDoc))
		run("didweb.Resolve", webIn(200, "application/json", b), "rand:"+kind)
	}

	// ---- did:key: every multicodec the resolver knows × key lengths around the expected one × random / zero / 0xff content
	mk := func(code uint64, body []byte) string {
		buf := binary.AppendUvarint(nil, code)
		return "did:key:z" + base58.EncodeAlphabet(append(buf, body...), base58.BTCAlphabet)
	}
	valid := "did:key:z6MkhaXgBZDvotDkL5257faiztiGiC2QtKLGpbnnEGta2doK"
	if res := c19Guard(func() string { return key(valid) }); res != "ok" {
		t.Fatal("valid did:key is not accepted")
	}
	codes := []uint64{0xeb, 0xec, 0xed, 0xe7, 0x1200, 0x1201, 0x1202, 0x1205, 0x00, 0x01, 0xffffffffffffffff, 0x1203}
	for _, c := range codes {
		for _, l := range []int{0, 1, 31, 32, 33, 34, 48, 49, 50, 66, 67, 68, 133, 270, 1000} {
			for fill := 0; fill < 4; fill++ {
				body := make([]byte, l)
				switch fill {
				case 0:
					r.Read(body)
				case 1: // zero
				case 2:
					for i := range body {
						body[i] = 0xff
					}
				case 3: // plausible compressed-point prefix
					r.Read(body)
					if l > 0 {
						body[0] = byte(2 + r.Intn(2))
					}
				}
				run("didkey.Resolve", mk(c, body), fmt.Sprintf("codec-0x%x", c))
			}
		}
	}
	for _, s := range []string{"did:key:", "did:key:z", "did:key:z0", "did:key:zO0Il", "did:key:x6Mk", "did:key:z" + strings.Repeat("1", 500), "did:key:z6Mk#frag", "did:key:z6Mk?x=1", "did:key:zé", "did:web:example.com", valid + "#" + valid[8:], valid[:20], "did:key:" + strings.Repeat("z", 10000)} {
		run("didkey.Resolve", s, "string-shape")
	}
	for i := 0; i < n; i++ {
		b := []byte(valid)
		for k := 0; k < 1+r.Intn(3); k++ {
			b[8+r.Intn(len(b)-8)] = "123456789ABCDEFGHJKLMNPQRSTUVWXYZabcdefghijkmnopqrstuvwxyz0OIl-_"[r.Intn(64)]
		}
		run("didkey.Resolve", string(b), "rand-char")
	}

	// ---- did:jwk: mutated JWK JSON (all key types)
	jwks := []string{sg.jwk,
		`{"kty":"OKP","crv":"Ed25519","x":"11qYAYKxCrfVS_7TyWQHOg7hcvPapiMlrwIaaPcHURo"}`,
		`{"kty":"RSA","n":"0vx7agoebGcQSuuPiLJXZptN9nndrQmbXEps2aiAFbWhM78LhWx4cbbfAAtVT86zwu1RK7aPFFxuhDR1L6tSoc_BJECPebWKRXjBZCiFV4n3oknjhMstn64tZ_2W-5JsGY4Hc5n9yBXArwl93lqt7_RN5w6Cf0h4QyQ5v-65YGjQR0_FDW2QvzqY368QQMicAtaSqzs8KJZgnYb9c7d0zgdAZHzu6qMQvRL5hajrn1n91CbOpbISD08qNLyrdkt-bFTWhAI4vMQFh6WeZu0fM4lFd2NcRwr3XPksINHaQ-G_xBniIqbw0Ls1jF44-csFCur-kEgU8awapJzKnqDKgw","e":"AQAB"}`,
		`{"kty":"oct","k":"AyM1SysPpbyDfgZld3umj1qzKObwVMkoqQ-EstJQLr_T-1qS0gZH75aKtMN3Yj0iPS4hcgUuTwjAzZr1Z9CAow"}`,
		`{"kty":"EC","crv":"P-256","x":"VovYU-43esqZaDLPBhbV44G6nvSYXHv0_pXFkLL5wWw","y":"kD-ev_48d7JSh-Ig2Rt0qDf_7OrGSPNbMbHxXsfgmVo","d":"870MB6gfuTJ4HtUnUvYMyJpr5eUZNP4Bk43bVdj3eAE"}`}
	enc := func(b []byte) string { return "did:jwk:" + base64.RawURLEncoding.EncodeToString(b) }
	if res := c19Guard(func() string { return jwkR(enc([]byte(sg.jwk))) }); res != "ok" {
		t.Fatal("valid did:jwk is not accepted")
	}
	for _, j := range jwks {
		jsystematic([]byte(j), func(b []byte, kind string) { run("didjwk.Resolve", enc(b), kind) })
		for i := 0; i < n/4; i++ {
			b, kind := m.mutate([]byte(j))
			run("didjwk.Resolve", enc(b), "rand:"+kind)
		}
	}
	// keys of the wrong length per key type (the JWK parser does not check OKP lengths), resolved and then USED
	for _, nbytes := range []int{0, 1, 31, 32, 33, 64, 255} {
		x := base64.RawURLEncoding.EncodeToString(bytes.Repeat([]byte{7}, nbytes))
		run("didjwk.Resolve", enc([]byte(`{"kty":"OKP","crv":"Ed25519","x":"`+x+`"}`)), "okp-length")
		run("didjwk.Resolve", enc([]byte(`{"kty":"OKP","crv":"X25519","x":"`+x+`"}`)), "okp-length")
		run("didjwk.Resolve", enc([]byte(`{"kty":"OKP","crv":"Ed448","x":"`+x+`"}`)), "okp-length")
		// the same keys in a did:web document: as JWK and as multibase Ed25519VerificationKey2020
		mb := "z" + base58.EncodeAlphabet(append([]byte{0xed, 0x01}, bytes.Repeat([]byte{7}, nbytes)...), base58.BTCAlphabet)
		mbRaw := "z" + base58.EncodeAlphabet(bytes.Repeat([]byte{7}, nbytes), base58.BTCAlphabet)
		for _, vmJSON := range []string{
			`{"id":"did:web:example.com#key-1","type":"JsonWebKey2020","controller":"did:web:example.com","publicKeyJwk":{"kty":"OKP","crv":"Ed25519","x":"` + x + `"}}`,
			`{"id":"did:web:example.com#key-1","type":"Ed25519VerificationKey2020","controller":"did:web:example.com","publicKeyMultibase":"` + mb + `"}`,
			`{"id":"did:web:example.com#key-1","type":"Ed25519VerificationKey2020","controller":"did:web:example.com","publicKeyMultibase":"` + mbRaw + `"}`,
			`{"id":"did:web:example.com#key-1","type":"Ed25519VerificationKey2018","controller":"did:web:example.com","publicKeyBase58":"` + mbRaw[1:] + `"}`} {
			doc := `{"@context":["https://www.w3.org/ns/did/v1"],"id":"did:web:example.com","verificationMethod":[` + vmJSON + `],"assertionMethod":["#key-1"],"authentication":["#key-1"]}`
			run("didweb.Resolve", webIn(200, "application/json", []byte(doc)), "key-length")
		}
	}
	for _, s := range []string{"did:jwk:", "did:jwk:!!!", "did:jwk:e30", "did:jwk:bnVsbA", "did:jwk:W10", "did:jwk:" + base64.StdEncoding.EncodeToString([]byte(sg.jwk)), enc([]byte(sg.jwk)) + "#0", enc([]byte(sg.jwk)) + "==", "did:jwk:" + strings.Repeat("A", 100000)} {
		run("didjwk.Resolve", s, "string-shape")
	}

	// ---- JWT / JWS: mutated header and claims under a real signature, serialisation variants
	hdr := []byte(`{"alg":"ES256","typ":"JWT","kid":"did:web:example.com#key-1"}`)
	cl := []byte(`{"iss":"did:web:example.com","sub":"did:web:example.com","aud":["a","b"],"exp":4102444800,"nbf":1,"iat":1,"jti":"x","nonce":"n","vp":{"type":"VerifiablePresentation"}}`)
	if parseJWT(sg.compact(hdr, cl, true)) != "ok" {
		t.Fatal("valid JWT is not accepted")
	}
	jsystematic(hdr, func(b []byte, kind string) { run("crypto.ParseJWT", sg.compact(b, cl, true), "header:"+kind) })
	jsystematic(cl, func(b []byte, kind string) { run("crypto.ParseJWT", sg.compact(hdr, b, true), "claims:"+kind) })
	for i := 0; i < n; i++ {
		h, c := hdr, cl
		if r.Intn(2) == 0 {
			h, _ = m.mutate(hdr)
		} else {
			c, _ = m.mutate(cl)
		}
		run("crypto.ParseJWT", sg.compact(h, c, r.Intn(8) > 0), "rand")
	}
	good := sg.compact(hdr, cl, true)
	p := strings.Split(good, ".")
	for _, s := range []string{"", ".", "..", "...", p[0], p[0] + "." + p[1], p[0] + ".." + p[2], good + ".", good[:len(good)/3], "{}", "[]", "null",
		`{"payload":"` + p[1] + `","signatures":[]}`, `{"payload":"` + p[1] + `","signatures":[{"protected":"` + p[0] + `","signature":"` + p[2] + `"},{"protected":"` + p[0] + `","signature":"` + p[2] + `"}]}`,
		`{"payload":"` + p[1] + `","signatures":[{"protected":"` + p[0] + `","header":{"kid":5},"signature":"` + p[2] + `"}]}`,
		`{"payload":5,"signatures":[null]}`, p[0] + "." + p[1] + "." + strings.Repeat("A", 100000), strings.Repeat("a.", 1000)} {
		run("crypto.ParseJWT", s, "serialisation")
	}

	{
		// crypto/jwx.go check order: every algorithm family × kid present/empty/absent under a P-256 key (alg does not fit the key, alg not
		// supported, no key for the kid), good and bad signatures, JSON serialisations with 0 / 1 / 2 / 3 signatures
		b64 := base64.RawURLEncoding
		claims := []byte(`{"iss":"did:web:example.com","exp":4102444800,"nbf":1}`)
		for _, alg := range []string{`"ES256"`, `"ES384"`, `"ES512"`, `"RS256"`, `"PS256"`, `"PS512"`, `"EdDSA"`, `"ES256K"`, `"HS256"`, `"none"`, `""`, `"es256"`, `5`, `null`, `-`} {
			for _, kid := range []string{`"k1"`, `""`, `-`, `5`} {
				h := `{"typ":"JWT"`
				if alg != "-" {
					h += `,"alg":` + alg
				}
				if kid != "-" {
					h += `,"kid":` + kid
				}
				h += `}`
				for _, good := range []bool{true, false} {
					o.dist["jwx.parse:alg-kid-table"]++
					jwxOp(sg.compact([]byte(h), claims, good))
				}
			}
		}
		tok := strings.Split(sg.compact([]byte(`{"alg":"ES256","typ":"JWT","kid":"k1"}`), claims, true), ".")
		sigObj := `{"protected":"` + tok[0] + `","signature":"` + tok[2] + `"}`
		for _, sigs := range []string{``, sigObj, sigObj + `,` + sigObj, sigObj + `,` + sigObj + `,` + sigObj, `null`, `{}`, sigObj + `,null`, `{"protected":"` + b64.EncodeToString([]byte(`{"alg":"RS256","kid":"k1"}`)) + `","signature":"` + tok[2] + `"},` + sigObj} {
			o.dist["jwx.parse:signature-count"]++
			jwxOp(`{"payload":"` + tok[1] + `","signatures":[` + sigs + `]}`)
		}
		jwxOp(`{"payload":"` + tok[1] + `","protected":"` + tok[0] + `","signature":"` + tok[2] + `"}`)
	}
	// ---- credentials and presentations (JSON-LD and JWT forms)
	if vpPath(validVP()) != "ok" || vcPath(validVC) != "ok" {
		t.Fatal("valid VC/VP not accepted")
	}
	{
		// presentations with 0..3 credentials whose subjects agree / differ / are missing / are arrays, 0..2 proofs, verification methods and kids of every shape
		vcWith := func(subject string) string {
			return strings.Replace(validVC, `"credentialSubject":{"id":"did:web:holder.example.com",`, `"credentialSubject":`+subject+`,"x":{`, 1)
		}
		subjectVals := []string{`{"id":"did:web:holder.example.com"}`, `{"id":"did:web:other.example.com"}`, `{}`, `{"id":""}`, `{"id":5}`, `[{"id":"did:web:holder.example.com"},{"id":"did:web:holder.example.com"}]`,
			`[{"id":"did:web:holder.example.com"},{"id":"did:web:other.example.com"}]`, `[]`, `null`, `"did:web:holder.example.com"`, `{"id":"DID:web:holder.example.com"}`, `{"id":"did:web:holder.example.com#frag"}`}
		var credSets []string
		credSets = append(credSets, ``, `null`)
		for _, a := range subjectVals {
			credSets = append(credSets, vcWith(a))
			for _, b := range subjectVals[:4] {
				credSets = append(credSets, vcWith(a)+`,`+vcWith(b), vcWith(b)+`,`+vcWith(a)+`,`+vcWith(b))
			}
		}
		prf := func(vm string) string {
			return `{"type":"JsonWebSignature2020","created":"2024-01-01T00:00:00Z","verificationMethod":` + vm + `,"proofPurpose":"authentication","challenge":"n1","jws":"eyJhbGciOiJFUzI1NiJ9..AAAA"}`
		}
		vms := []string{`"did:web:holder.example.com#key-1"`, `"did:web:other.example.com#key-1"`, `"#key-1"`, `""`, `"not a did"`, `"did:web:holder.example.com"`, `5`, `null`}
		var proofSets []string
		proofSets = append(proofSets, `[]`, `null`, `5`, `"x"`, `{}`)
		for _, vm := range vms {
			proofSets = append(proofSets, prf(vm), `[`+prf(vm)+`]`, `[`+prf(vm)+`,`+prf(vm)+`]`)
		}
		for ci, cs := range credSets {
			for pi, ps := range proofSets {
				if ci > 6 && pi > 8 && (ci+pi)%5 != 0 {
					continue
				}
				in := `{"@context":["https://www.w3.org/2018/credentials/v1"],"type":"VerifiablePresentation","verifiableCredential":[` + cs + `],"proof":` + ps + `}`
				o.dist["cred.presenter:table"]++
				credOp(in)
			}
		}
		for _, kid := range []string{`"did:web:holder.example.com#key-1"`, `"did:web:other.example.com#key-1"`, `"#key-1"`, `""`, `"not a did"`, `"did:web:holder.example.com"`, `5`, `null`, `-`} {
			h := `{"alg":"ES256","typ":"JWT","kid":` + kid + `}`
			if kid == "-" {
				h = `{"alg":"ES256","typ":"JWT"}`
			}
			for ci, cs := range credSets {
				if ci > 12 && ci%4 != 0 {
					continue
				}
				claims := `{"iss":"did:web:holder.example.com","nonce":"n1","exp":4102444800,"nbf":1,"vp":{"@context":["https://www.w3.org/2018/credentials/v1"],"type":"VerifiablePresentation","verifiableCredential":[` + cs + `]}}`
				o.dist["cred.presenter:jwt-table"]++
				credOp(sg.compact([]byte(h), []byte(claims), true))
			}
		}
	}
	{
		// self-attested credentials as an API client posts them: credentialSubject of every shape x members present/absent x proof present/absent/empty
		for _, subj := range []string{`-`, `null`, `"x"`, `5`, `true`, `[]`, `{}`, `{"id":"did:web:holder.example.com"}`, `{"id":null}`, `{"id":5}`, `{"name":"y"}`, `[null]`, `["x"]`, `[{}]`, `[{"id":"did:nuts:abc"}]`, `[{},{}]`, `[{"name":"y"},{"id":"did:web:holder.example.com"}]`, `[{"id":"did:web:holder.example.com"},{"id":"did:nuts:abc"}]`, `[{"id":"did:nuts:abc"},{"id":"did:web:holder.example.com"}]`, `[{"id":"did:web:a"},{"id":"not a did"},{"id":""},{"id":"did:jwk:x"}]`, `[[]]`, `[[{"id":"x"}]]`} {
			for _, prf := range []string{`-`, `null`, `[]`, `{}`, `{"type":"JsonWebSignature2020","jws":"e30..AAAA"}`, `[{"type":"x"},{"type":"y"}]`} {
				for _, members := range []int{0, 1, 2, 4, 7} {
					for _, iss := range []string{`"did:web:example.com"`, `"did:nuts:issuer"`, `"https://example.com/issuer"`, `""`} {
						doc := `{"@context":["https://www.w3.org/2018/credentials/v1"],"type":["VerifiableCredential","SelfAttested"]`
						if members&1 != 0 {
							doc += `,"id":"did:web:example.com#1"`
						}
						if members&2 != 0 {
							doc += `,"issuer":` + iss
						} else if iss != `"did:web:example.com"` {
							continue
						}
						if members&4 != 0 {
							doc += `,"issuanceDate":"2024-01-01T00:00:00Z"`
						}
						if subj != `-` {
							doc += `,"credentialSubject":` + subj
						}
						if prf != `-` {
							doc += `,"proof":` + prf
						}
						o.dist["cred.autocorrect:table"]++
						credVCOp(doc + `}`)
					}
				}
			}
		}
		// presentations whose proof carries created / expires of every shape, JWT presentations with nbf / iat / exp present, absent, zero
		for _, created := range []string{`-`, `"2024-01-01T00:00:00Z"`, `"0001-01-01T00:00:00Z"`, `null`} {
			for _, expires := range []string{`-`, `"2034-01-01T00:00:00Z"`, `"0001-01-01T00:00:00Z"`, `null`} {
				for _, wrap := range []string{`%s`, `[%s]`, `[%s,%s]`, `[]`} {
					p := `{"type":"JsonWebSignature2020","verificationMethod":"did:web:holder.example.com#key-1","proofPurpose":"authentication","jws":"e30..AAAA"`
					if created != `-` {
						p += `,"created":` + created
					}
					if expires != `-` {
						p += `,"expires":` + expires
					}
					p += `}`
					o.dist["cred.dates:ld-table"]++
					credOp(`{"@context":["https://www.w3.org/2018/credentials/v1"],"type":"VerifiablePresentation","proof":` + strings.ReplaceAll(wrap, `%s`, p) + `}`)
				}
			}
		}
		for mask := 0; mask < 27; mask++ {
			claims := `{"iss":"did:web:holder.example.com","vp":{"@context":["https://www.w3.org/2018/credentials/v1"],"type":"VerifiablePresentation"}`
			for i, name := range []string{"nbf", "iat", "exp"} {
				switch (mask / []int{1, 3, 9}[i]) % 3 {
				case 1:
					claims += fmt.Sprintf(`,"%s":%d`, name, 1700000000+i)
				case 2:
					claims += `,"` + name + `":0`
				}
			}
			o.dist["cred.dates:jwt-table"]++
			credOp(sg.compact([]byte(`{"alg":"ES256","typ":"JWT","kid":"did:web:holder.example.com#key-1"}`), []byte(claims+`}`), true))
		}
	}
	{
		// documents json-gold is known to PANIC on (a scalar where the context defines a @graph container, a number where it expects a string), as
		// credential, as credential inside a presentation, and the same members at the top level; plus plain malformed JSON
		for _, member := range []string{`"proof":true`, `"proof":5`, `"proof":"x"`, `"proof":null`, `"proof":[true]`, `"type":5`, `"type":[5]`, `"@type":5`, `"@id":5`, `"id":5`, `"issuer":{"@id":5}`, `"@context":5`, `"@context":[5]`,
			`"credentialSubject":{"@type":5}`, `"credentialSubject":{"@id":5}`, `"issuanceDate":{"@value":5,"@type":5}`, `"@graph":true`, `"@reverse":5`, `"@included":5`, `"@nest":5`, `"proof":{"@graph":5}`, `"proof":{"@list":5}`, `"@language":5`} {
			vcDoc := strings.Replace(validVC, `"issuer":"did:web:example.com",`, `"issuer":"did:web:example.com",`+member+`,`, 1)
			key := member[:strings.Index(member, ":")]
			if strings.Count(validVC, key+":") > 0 && key != `"id"` && key != `"type"` {
				// replace the existing member instead of duplicating it
				var m map[string]json.RawMessage
				json.Unmarshal([]byte(validVC), &m)
				m[strings.Trim(key, `"`)] = json.RawMessage(member[len(key)+1:])
				b, _ := json.Marshal(m)
				vcDoc = string(b)
			}
			for _, doc := range []string{vcDoc, `{"@context":["https://www.w3.org/2018/credentials/v1"],"type":"VerifiablePresentation","verifiableCredential":` + vcDoc + `}`, `{"@context":["https://www.w3.org/2018/credentials/v1"],` + member + `}`} {
				o.dist["jsonld.guard:table"]++
				jsonldOp(doc)
			}
		}
		for _, doc := range []string{`{`, `[]`, `[{}]`, `"x"`, `{}`, `{"@context":"https://www.w3.org/2018/credentials/v1"}`, `{"@context":"https://unknown.example.com/ctx"}`, `{"a":"b"}`, validVC, validVP()} {
			o.dist["jsonld.guard:table"]++
			jsonldOp(doc)
		}
	}
	jsystematic([]byte(validVC), func(b []byte, kind string) { run("credential.vc", string(b), kind) })
	jsystematic([]byte(validVP()), func(b []byte, kind string) { run("credential.vp", string(b), kind) })
	for i := 0; i < n; i++ {
		b, kind := m.mutate([]byte(validVC))
		run("credential.vc", string(b), "rand:"+kind)
		b, kind = m.mutate([]byte(validVP()))
		run("credential.vp", string(b), "rand:"+kind)
	}
	// JWT forms: the "vc"/"vp" claim carries the mutated document
	jh := []byte(`{"alg":"ES256","typ":"JWT","kid":"did:web:holder.example.com#key-1"}`)
	for i := 0; i < n; i++ {
		b, kind := m.mutate([]byte(validVP()))
		claims := []byte(`{"iss":"did:web:holder.example.com","sub":"did:web:holder.example.com","aud":"https://verifier.example.com","nonce":"n1","exp":4102444800,"nbf":1,"jti":"did:web:holder.example.com#1","vp":` + string(b) + `}`)
		if r.Intn(3) == 0 {
			claims, _ = m.mutate(claims)
		}
		run("credential.vp", sg.compact(jh, claims, true), "jwt-vp:"+kind)
		b, kind = m.mutate([]byte(validVC))
		claims = []byte(`{"iss":"did:web:example.com","sub":"did:web:holder.example.com","exp":4102444800,"nbf":1,"jti":"did:web:example.com#1","vc":` + string(b) + `}`)
		if r.Intn(3) == 0 {
			claims, _ = m.mutate(claims)
		}
		run("credential.vc", sg.compact(jh, claims, true), "jwt-vc:"+kind)
	}
}
