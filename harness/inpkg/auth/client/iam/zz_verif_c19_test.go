//go:build verif

// C19 exploration harness (crash/timeout oracle) for auth/client/iam: what the node does with a presentation definition served by a
// remote verifier at presentation_definition_uri — the REAL HTTPClient.PresentationDefinition over a fake HTTP doer, followed by what
// the wallet does with the result (PresentationDefinition.Match against a credential).
package iam

import (
	"bytes"
	"context"
	"encoding/json"
	"errors"
	"io"
	mrand "math/rand"
	"net/http"
	"net/url"
	"os"
	"testing"

	"github.com/nuts-foundation/go-did/vc"
)

type c19Doer struct {
	status int
	body   []byte
}

func (f *c19Doer) Do(req *http.Request) (*http.Response, error) {
	if f.status == 0 {
		return nil, errors.New("connection refused")
	}
	return &http.Response{StatusCode: f.status, Header: http.Header{"Content-Type": []string{"application/json"}}, Body: io.NopCloser(bytes.NewReader(f.body))}, nil
}

func TestVerifC19(t *testing.T) {
	dir := os.Getenv("VERIF_OUT")
	if dir == "" {
		t.Skip("VERIF_OUT not set")
	}
	o := c19Open(dir)
	defer o.close(dir)
	r := mrand.New(mrand.NewSource(c19Seed()*472882027 + 23))
	m := jmut{r}
	doer := &c19Doer{}
	client := HTTPClient{httpClient: doer}
	pdURL, _ := url.Parse("https://verifier.example.com/presentation_definition?scope=test")
	var walletVC vc.VerifiableCredential
	_ = json.Unmarshal([]byte(`{"@context":["https://www.w3.org/2018/credentials/v1"],"id":"did:web:example.com#1","type":["VerifiableCredential","NutsOrganizationCredential"],"issuer":"did:web:example.com","issuanceDate":"2024-01-01T00:00:00Z","credentialSubject":{"id":"did:web:example.com:iam:holder","organization":{"name":"x","city":"y"}}}`), &walletVC)

	remote := func(in string) string {
		var w struct {
			Status int
			Body   string
		}
		if json.Unmarshal([]byte(in), &w) != nil {
			return "err:harness"
		}
		doer.status, doer.body = w.Status, []byte(w.Body)
		pd, err := client.PresentationDefinition(context.Background(), *pdURL)
		if err != nil {
			return "err"
		}
		if _, _, err := pd.Match([]vc.VerifiableCredential{walletVC}); err != nil {
			return "err:match"
		}
		return "ok"
	}
	mk := func(status int, body []byte) string {
		b, _ := json.Marshal(map[string]any{"Status": status, "Body": string(body)})
		return string(b)
	}
	replay, isReplay := c19ReadOps()
	for _, op := range replay {
		if op["op"] == "x.iamclient.PresentationDefinition" {
			in, _ := op["input"].(string)
			o.explore("iamclient.PresentationDefinition", in, func() string { return remote(in) })
		}
	}
	if isReplay {
		return
	}
	validPD := `{"id":"1","input_descriptors":[{"id":"1","constraints":{"fields":[{"path":["$.type"],"filter":{"type":"string","const":"NutsOrganizationCredential"}}]}}]}`
	if res := c19Guard(func() string { return remote(mk(200, []byte(validPD))) }); res != "ok" {
		t.Fatalf("valid presentation definition is not accepted: %s", res)
	}
	run := func(in, kind string) {
		o.dist["remote-pd:"+kind]++
		o.explore("iamclient.PresentationDefinition", in, func() string { return remote(in) })
	}
	// definitions that plain JSON decoding accepts but the PE schema forbids (null entries → nil pointers)
	for _, v := range []string{`{"id":"1","input_descriptors":[null]}`, `{"input_descriptors":[null,null]}`, `{"id":"1","input_descriptors":[{"id":"1","constraints":null}]}`,
		`{"id":"1","input_descriptors":[{"id":"1","constraints":{"fields":[null]}}]}`, `{"id":"1","input_descriptors":[{"id":"1","constraints":{"fields":[{"path":["$.type"],"filter":null}]}}]}`,
		`{"id":"1","input_descriptors":[{"id":"1","constraints":{"fields":[{"path":null}]}}]}`,
		`{"id":"1","submission_requirements":[null],"input_descriptors":[{"id":"1","group":["A"],"constraints":{"fields":[{"path":["$.type"]}]}}]}`,
		`{"id":"1","submission_requirements":[{"rule":"all","from_nested":[null]}],"input_descriptors":[{"id":"1","constraints":{"fields":[{"path":["$.type"]}]}}]}`,
		`{"id":"1","submission_requirements":[{"rule":"all","from_nested":[{"rule":"pick","from_nested":[null]}]}],"input_descriptors":[{"id":"1","constraints":{"fields":[{"path":["$.type"]}]}}]}`,
		`{"id":"1","submission_requirements":[{"rule":"pick","from":"A"}],"input_descriptors":[{"id":"1","group":["A"],"constraints":{"fields":[{"path":["$.type"]}]}}]}`,
		`{"id":"1","format":null,"input_descriptors":[{"id":"1","format":null,"constraints":{"fields":[{"path":["$.type"]}]}}]}`, `{"id":"1","input_descriptors":null}`, `{"id":"1","input_descriptors":[]}`, `null`, `[]`, `{}`} {
		for _, st := range []int{200, 0, 400, 500} {
			run(mk(st, []byte(v)), "schema-invalid")
		}
	}
	jsystematic([]byte(validPD), func(b []byte, kind string) { run(mk(200, b), kind) })
	n := c19Env("VERIF_N", 400)
	for i := 0; i < n; i++ {
		b, kind := m.mutate([]byte(validPD))
		run(mk(200, b), "rand:"+kind)
	}
}
