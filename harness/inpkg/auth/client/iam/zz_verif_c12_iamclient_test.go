//go:build verif

package iam

// C12 producer probe: a presentation definition fetched from a remote verifier (HTTPClient.PresentationDefinition decodes
// it without JSON-schema validation): do null entries survive the client's own check and reach Match?

import (
	"context"
	"fmt"
	"net/http"
	"net/http/httptest"
	"net/url"
	"os"
	"path/filepath"
	"sort"
	"testing"
)

func TestVerifC12IamClient(t *testing.T) {
	outDir := os.Getenv("VERIF_OUT")
	if outDir == "" {
		t.Skip("VERIF_OUT not set")
	}
	variants := map[string]string{
		"descriptor-null":  `{"id":"x","input_descriptors":[null]}`,
		"requirement-null": `{"id":"x","input_descriptors":[{"id":"d","group":["A"],"constraints":{}}],"submission_requirements":[null]}`,
		"nested-null":      `{"id":"x","input_descriptors":[{"id":"d","group":["A"],"constraints":{}}],"submission_requirements":[{"rule":"all","from_nested":[null]}]}`,
	}
	lines := []string{}
	for name, def := range variants {
		body := def
		srv := httptest.NewServer(http.HandlerFunc(func(w http.ResponseWriter, _ *http.Request) {
			w.Header().Set("Content-Type", "application/json")
			w.Write([]byte(body))
		}))
		u, _ := url.Parse(srv.URL)
		client := HTTPClient{strictMode: false, httpClient: srv.Client()}
		verdict := "rejected-by-client"
		pd, err := client.PresentationDefinition(context.Background(), *u)
		if err == nil && pd != nil {
			verdict = func() (v string) {
				defer func() {
					if r := recover(); r != nil {
						v = "returned:Match-panics"
					}
				}()
				if _, _, err := pd.Match(nil); err != nil {
					return "returned:Match-error"
				}
				return "returned:Match-ok"
			}()
		}
		srv.Close()
		lines = append(lines, fmt.Sprintf("iam-client-remote %s -> %s", name, verdict))
	}
	sort.Strings(lines)
	f, _ := os.Create(filepath.Join(outDir, "producers.iamclient.out"))
	defer f.Close()
	for _, l := range lines {
		fmt.Fprintln(f, l)
	}
}
