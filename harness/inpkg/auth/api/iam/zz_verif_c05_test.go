//go:build verif

package iam

// C05: the REAL consumers of one-time secrets (handleAccessTokenRequest, RequestJWTByGet/Post, validatePresentationNonce,
// validateS2SPresentationNonce, ValidateDPoPProof) on the REAL session database, under a gate that parks every request
// before each underlying store call; every interleaving of two (quick) / three (thorough) requests presenting one secret.

import (
	"context"
	stdcrypto "crypto"
	"crypto/ecdsa"
	"crypto/elliptic"
	crand "crypto/rand"
	"encoding/base64"
	"encoding/json"
	"errors"
	"fmt"
	"math/rand"
	"net/http"
	"net/http/httptest"
	"os"
	"path/filepath"
	"sort"
	"strconv"
	"strings"
	"testing"
	"time"

	"github.com/labstack/echo/v4"
	"github.com/lestrrat-go/jwx/v2/jwa"
	"github.com/lestrrat-go/jwx/v2/jwt"
	"github.com/nuts-foundation/go-did/vc"
	"github.com/nuts-foundation/nuts-node/auth/oauth"
	"github.com/nuts-foundation/nuts-node/crypto/dpop"
	"github.com/nuts-foundation/nuts-node/storage"
	"github.com/nuts-foundation/nuts-node/vcr/pe"
	"github.com/nuts-foundation/nuts-node/vcr/signature/proof"
	"github.com/nuts-foundation/nuts-node/vcr/test"
	"go.uber.org/mock/gomock"
)

type c05Engine struct {
	storage.Engine
	db storage.SessionDatabase
}

func (e c05Engine) GetSessionDatabase() storage.SessionDatabase { return e.db }

func c05Outcome(err error, table map[string]string) string {
	if err == nil {
		return "ok"
	}
	var oe oauth.OAuth2Error
	desc := err.Error()
	if errors.As(err, &oe) {
		desc = oe.Description
	}
	for frag, out := range table {
		if strings.Contains(desc, frag) {
			return out
		}
	}
	if strings.Contains(err.Error(), "injected store failure") {
		return "store-error"
	}
	return "other:" + desc
}

func c05LDPresentation(field, value string) vc.VerifiablePresentation {
	raw := fmt.Sprintf(`{"@context":["https://www.w3.org/2018/credentials/v1"],"type":"VerifiablePresentation","proof":{"type":"JsonWebSignature2020","%s":%q,"created":"2024-01-01T00:00:00Z","proofPurpose":"authentication","verificationMethod":"did:web:example.com#1","jws":"x"}}`, field, value)
	vp, err := vc.ParseVerifiablePresentation(raw)
	if err != nil {
		panic(err)
	}
	return *vp
}

type c05DPoP struct {
	proof      string
	thumbprint string
}

var c05DPoPCache = map[string]c05DPoP{}

// a correctly signed DPoP proof whose jti is `id`
func c05SignedDPoP(id string) c05DPoP {
	if d, ok := c05DPoPCache[id]; ok {
		return d
	}
	httpRequest, _ := http.NewRequest("POST", "https://server.example.com/token", nil)
	p := dpop.New(*httpRequest)
	_ = p.GenerateProof("token")
	_ = p.Token.Set(jwt.JwtIDKey, id)
	keyPair, _ := ecdsa.GenerateKey(elliptic.P256(), crand.Reader)
	if _, err := p.Sign("kid", keyPair, jwa.ES256); err != nil {
		panic(err)
	}
	tp, _ := p.Headers.JWK().Thumbprint(stdcrypto.SHA256)
	d := c05DPoP{proof: p.String(), thumbprint: base64.RawURLEncoding.EncodeToString(tp)}
	c05DPoPCache[id] = d
	return d
}

func c05ClientID(want string) string {
	switch want {
	case "clientA":
		return "https://example.com/oauth2/holder"
	case "clientA/":
		return "https://example.com/oauth2/holder/"
	}
	return "https://attacker.example.com/oauth2/" + want
}

func c05Scope(post bool) string {
	if post {
		return "example-scope"
	}
	return "other-scope example-scope"
}

// fixtures for the s2s token request (as TestWrapper_handleS2SAccessTokenRequest builds them)
var c05S2S struct {
	t              *testing.T
	submissionJSON string
	mapping        pe.WalletOwnerMapping
	credential     vc.VerifiableCredential
	presentations  map[string]vc.VerifiablePresentation
	decoys         int
}

func c05S2SInit(t *testing.T, tc *testCtx) {
	var definition pe.PresentationDefinition
	if err := json.Unmarshal([]byte(`{"format":{"ldp_vc":{"proof_type":["JsonWebSignature2020"]}},"input_descriptors":[{"id":"1","constraints":{"fields":[{"path":["$.type"],"filter":{"type":"string","const":"NutsOrganizationCredential"}}]}}]}`), &definition); err != nil {
		t.Fatal(err)
	}
	c05S2S.t = t
	c05S2S.mapping = pe.WalletOwnerMapping{pe.WalletOwnerOrganization: definition}
	c05S2S.submissionJSON = `{"id":"","definition_id":"","descriptor_map":[{"id":"1","path":"$.verifiableCredential","format":"ldp_vc"}]}`
	c05S2S.credential = test.ValidNutsOrganizationCredential(t)
	c05S2S.presentations = map[string]vc.VerifiablePresentation{}
	tc.policy.EXPECT().PresentationDefinitions(gomock.Any(), gomock.Any()).Return(c05S2S.mapping, nil).AnyTimes()
	tc.subjectManager.EXPECT().Exists(gomock.Any(), issuerSubjectID).Return(true, nil).AnyTimes()
	tc.vcVerifier.EXPECT().VerifyVP(gomock.Any(), true, true, gomock.Any()).DoAndReturn(
		func(vp vc.VerifiablePresentation, _ bool, _ bool, _ *time.Time) ([]vc.VerifiableCredential, error) {
			return vp.VerifiableCredential, nil
		}).AnyTimes()
}

// one signed-looking presentation per (format, nonce); the signature check is the mocked verifier's.
// format "": JSON-LD with proof.nonce; "jwt": JWT with nonce claim
func c05S2SPresentation(format, nonce string) vc.VerifiablePresentation {
	if vp, ok := c05S2S.presentations[format+"|"+nonce]; ok {
		return vp
	}
	subjectDID, _ := c05S2S.credential.SubjectDID()
	var vp vc.VerifiablePresentation
	if format == "jwt" {
		vp, _ = test.CreateJWTPresentation(c05S2S.t, *subjectDID, func(token jwt.Token) {
			_ = token.Set(jwt.AudienceKey, issuerClientID)
			_ = token.Set("nonce", nonce)
		}, c05S2S.credential)
	} else {
		vp = test.CreateJSONLDPresentation(c05S2S.t, *subjectDID, test.LDProofVisitor(func(p *proof.LDProof) {
			p.Domain = &issuerClientID
			n := nonce
			p.Nonce = &n
		}), c05S2S.credential)
	}
	c05S2S.presentations[format+"|"+nonce] = vp
	return vp
}

// the presentation of an OpenID4VP authorization response: format "": LD-proof challenge, "ldnonce": LD-proof nonce
// (the fallback of validatePresentationNonce), "jwt": JWT nonce claim
func c05NoncePresentation(format, nonce string) vc.VerifiablePresentation {
	switch format {
	case "ldnonce":
		return c05LDPresentation("nonce", nonce)
	case "jwt":
		return c05S2SPresentation("jwt", nonce)
	}
	return c05LDPresentation("challenge", nonce)
}

func c05IamLevel(base *Wrapper) storage.VerifC05Level {
	return func(b *storage.VerifC05Backend, scn *storage.VerifC05Scn) ([]func() string, error) {
		w := *base
		w.storageEngine = c05Engine{Engine: base.storageEngine, db: b.DB}
		c05CurrentExec = b.Gate.Exec
		pkce := generatePKCEParams()
		for _, i := range scn.Init {
			var err error
			switch i.Kind {
			case "code":
				err = w.oauthCodeStore().Put(i.ID, OAuthSession{ClientID: i.Val, OwnSubject: &verifierSubject, RedirectURI: "https://example.com/cb",
					Scope: "scope", OpenID4VPVerifier: &PEXConsumer{}, PKCEParams: pkce})
			case "reqobj":
				u := w.subjectToBaseURL(i.Val)
				method := "get"
				if i.Fmt == "post" {
					method = "post"
				}
				err = w.authzRequestObjectStore().Put(i.ID, jarRequest{Claims: oauthParameters{"a": "b"}, Client: u.String(), RequestURIMethod: method})
			case "vpnonce":
				err = w.oauthNonceStore().Put(i.ID, i.Val)
			case "s2s":
				err = w.s2sNonceStore().Put(i.ID, true)
			case "jti":
				err = w.useNonceOnceStore().Put(i.ID, struct{}{})
			case "redirect":
				err = w.userRedirectStore().Put(i.ID, RedirectSession{SubjectID: holderSubjectID, AccessTokenRequest: RequestUserAccessTokenRequestObject{
					SubjectID: holderSubjectID, Body: &RequestUserAccessTokenJSONRequestBody{Scope: "first second", AuthorizationServer: "https://example.com/oauth2/verifier",
						PreauthorizedUser: &UserDetails{Id: "test", Name: "John Doe", Role: "Caregiver"}}}})
			default:
				err = fmt.Errorf("kind %s is not driven at iam level", i.Kind)
			}
			if err != nil {
				return nil, err
			}
		}
		// the OpenID4VP response endpoint finds its session through the state parameter
		for _, state := range []string{"clientA", "clientB"} {
			if err := w.oauthClientStateStore().Put(state, OAuthSession{OwnSubject: &verifierSubject, RedirectURI: "https://example.com/cb", ClientState: state},
				storage.WithTTL(24*time.Hour)); err != nil { // outlives the nonce, so the TTL replays observe the nonce and not the session
				return nil, err
			}
		}
		storedMethod := map[string]string{}
		for _, i := range scn.Init {
			storedMethod[i.ID] = "get"
			if i.Fmt == "post" {
				storedMethod[i.ID] = "post"
			}
		}
		httpCtx := context.WithValue(context.Background(), httpRequestContextKey{}, &http.Request{Header: http.Header{}})
		var fns []func() string
		seeded := w
		for ti, r := range scn.Threads {
			r := r
			// the node that serves this request
			w := seeded
			w.storageEngine = c05Engine{Engine: base.storageEngine, db: b.DBFor(ti)}
			switch r.Kind {
			case "code":
				fns = append(fns, func() string {
					body := HandleTokenRequestFormdataRequestBody{Code: &r.ID, ClientId: &r.Want}
					verifier := pkce.Verifier
					if !r.Post {
						verifier = "wrong-" + verifier
					}
					if r.Pre {
						body.CodeVerifier = &verifier
					}
					// through the token endpoint's entry point (grant type dispatch)
					body.GrantType = oauth.AuthorizationCodeGrantType
					_, err := w.HandleTokenRequest(httpCtx, HandleTokenRequestRequestObject{SubjectID: verifierSubject, Body: &body})
					return c05Outcome(err, map[string]string{"missing code_verifier": "missing-param", "missing client_id": "missing-param",
						"invalid authorization code": "not-found", "client_id does not match": "mismatch", "invalid code_verifier": "post-check"})
				})
			case "reqobj":
				fns = append(fns, func() string {
					var err error
					// Post: the request uses the request_uri_method the object was stored for (get or post), else the other one
					method := storedMethod[r.ID]
					if method == "" {
						method = "get"
					}
					if !r.Post {
						method = map[string]string{"get": "post", "post": "get"}[method]
					}
					if method == "get" {
						_, err = w.RequestJWTByGet(context.Background(), RequestJWTByGetRequestObject{SubjectID: r.Want, Id: r.ID})
					} else {
						_, err = w.RequestJWTByPost(context.Background(), RequestJWTByPostRequestObject{SubjectID: r.Want, Id: r.ID})
					}
					return c05Outcome(err, map[string]string{"request object not found": "not-found", "client_id does not match request": "mismatch",
						"used request_uri_method": "post-check"})
				})
			case "vpnonce":
				// through the OpenID4VP response endpoint; the nonce travels as LD-proof challenge, LD-proof nonce or JWT nonce claim
				fns = append(fns, func() string {
					raw := c05NoncePresentation(r.Fmt, r.ID).Raw()
					if !r.Pre {
						raw = "[" + raw + "," + c05NoncePresentation(r.Fmt, "another-nonce").Raw() + "]"
					}
					state := r.Want
					_, err := w.handleAuthorizeResponseSubmission(context.Background(), HandleAuthorizeResponseRequestObject{SubjectID: verifierSubject,
						Body: &HandleAuthorizeResponseFormdataRequestBody{State: &state, VpToken: &raw}})
					// the nonce check is followed by the check for the presentation_submission parameter, which these requests leave out
					return c05Outcome(err, map[string]string{"missing presentation_submission": "ok", "invalid or missing nonce/challenge": "missing-param",
						"invalid or expired session": "not-found", "invalid nonce/state": "mismatch"})
				})
			case "s2s":
				// the whole vp_token-bearer token request; client_id and scope are request parameters that the signature of
				// the presentation does not cover: Want/Post select variants of them
				fns = append(fns, func() string {
					cid, scope, sub, raw := c05ClientID(r.Want), c05Scope(r.Post), c05S2S.submissionJSON, c05S2SPresentation(r.Fmt, r.ID).Raw()
					if r.Fmt == "multi" {
						// an envelope of two presentations: a decoy with a nonce of its own first, the presentation under test second
						c05S2S.decoys++
						decoy := c05S2SPresentation("", fmt.Sprintf("decoy-%d", c05S2S.decoys))
						raw = "[" + decoy.Raw() + "," + c05S2SPresentation("", r.ID).Raw() + "]"
						sub = `{"id":"","definition_id":"","descriptor_map":[{"id":"1","path":"$[0]","format":"ldp_vp","path_nested":{"id":"1","path":"$.verifiableCredential","format":"ldp_vc"}}]}`
					}
					_, err := w.HandleTokenRequest(httpCtx, HandleTokenRequestRequestObject{SubjectID: issuerSubjectID, Body: &HandleTokenRequestFormdataRequestBody{
						GrantType: oauth.VpTokenGrantType, ClientId: &cid, Scope: &scope, PresentationSubmission: &sub, Assertion: &raw}})
					return c05Outcome(err, map[string]string{"presentation nonce has already been used": "used", "unable to store nonce": "store-error"})
				})
			case "jti":
				d := c05SignedDPoP(r.ID)
				fns = append(fns, func() string {
					resp, err := w.ValidateDPoPProof(nil, ValidateDPoPProofRequestObject{Body: &ValidateDPoPProofJSONRequestBody{
						DpopProof: d.proof, Method: "POST", Thumbprint: d.thumbprint, Token: "token", Url: "https://server.example.com/token"}})
					if err != nil {
						return c05Outcome(err, nil)
					}
					v := resp.(ValidateDPoPProof200JSONResponse)
					if v.Valid {
						return "ok"
					}
					if v.Reason != nil && *v.Reason == "jti already used" {
						return "used"
					}
					if v.Reason != nil {
						return "other:" + *v.Reason
					}
					return "other"
				})
			case "redirect":
				// the real landing page handler; once the token is accepted it goes on to the user session (none here: an error)
				fns = append(fns, func() string {
					rec := httptest.NewRecorder()
					ectx := echo.New().NewContext(httptest.NewRequest(http.MethodGet, "/oauth2/holder/user?token="+r.ID, nil), rec)
					err := w.handleUserLanding(ectx)
					if err == nil && rec.Code == http.StatusForbidden {
						return "not-found"
					}
					return "ok"
				})
			default:
				return nil, fmt.Errorf("kind %s is not driven at iam level", r.Kind)
			}
		}
		return fns, nil
	}
}

func c05Scn(name, backend string, init []storage.VerifC05Init, threads ...storage.VerifC05Req) *storage.VerifC05Scn {
	return &storage.VerifC05Scn{Op: "run", Name: name, Level: "iam", Backend: backend, Init: init, Threads: threads}
}

func c05Variants(kind, id string) []storage.VerifC05Req {
	good := storage.VerifC05Req{Kind: kind, ID: id, Want: "clientA", Pre: true, Post: true}
	v := []storage.VerifC05Req{good}
	switch kind {
	case "code":
		v = append(v, storage.VerifC05Req{Kind: kind, ID: id, Want: "clientB", Pre: true, Post: true},
			storage.VerifC05Req{Kind: kind, ID: id, Want: "clientA", Pre: false, Post: true},
			storage.VerifC05Req{Kind: kind, ID: id, Want: "clientA", Pre: true, Post: false})
	case "reqobj":
		v = append(v, storage.VerifC05Req{Kind: kind, ID: id, Want: "clientB", Pre: true, Post: true},
			storage.VerifC05Req{Kind: kind, ID: id, Want: "clientA", Pre: true, Post: false})
	case "vpnonce":
		// also: the nonce carried as LD-proof nonce (fallback) and as JWT nonce claim
		v = append(v, storage.VerifC05Req{Kind: kind, ID: id, Want: "clientB", Pre: true, Post: true},
			storage.VerifC05Req{Kind: kind, ID: id, Want: "clientA", Pre: false, Post: true},
			storage.VerifC05Req{Kind: kind, ID: id, Want: "clientA", Pre: true, Post: true, Fmt: "ldnonce"},
			storage.VerifC05Req{Kind: kind, ID: id, Want: "clientA", Pre: true, Post: true, Fmt: "jwt"})
	case "s2s":
		// the same nonce with other unsigned request parameters: client_id (also only a trailing slash), scope; and in a JWT presentation
		v = append(v, storage.VerifC05Req{Kind: kind, ID: id, Want: "clientB", Pre: true, Post: true},
			storage.VerifC05Req{Kind: kind, ID: id, Want: "clientA/", Pre: true, Post: true},
			storage.VerifC05Req{Kind: kind, ID: id, Want: "clientA", Pre: true, Post: false},
			storage.VerifC05Req{Kind: kind, ID: id, Want: "clientA", Pre: true, Post: true, Fmt: "jwt"},
			storage.VerifC05Req{Kind: kind, ID: id, Want: "clientA", Pre: true, Post: true, Fmt: "multi"})
	}
	return v
}

func TestVerifC05(t *testing.T) {
	outDir := os.Getenv("VERIF_OUT")
	if outDir == "" {
		t.Skip("VERIF_OUT not set")
	}
	seed, _ := strconv.ParseInt(os.Getenv("VERIF_SEED"), 10, 64)
	thorough := os.Getenv("VERIF_TIER") == "thorough"
	maxRuns, _ := strconv.Atoi(os.Getenv("VERIF_MAXRUNS"))
	if maxRuns == 0 {
		maxRuns = 40000
	}
	rng := rand.New(rand.NewSource(seed*104729 + 11))
	w, err := storage.VerifC05NewWriter(outDir)
	if err != nil {
		t.Fatal(err)
	}
	defer w.Close()

	tc := newTestClient(t)
	// the signer is a collaborator the request-object handlers call after the object has been taken from the store:
	// a handler-level parking point (the request is still in flight there)
	tc.jar.EXPECT().Sign(gomock.Any(), gomock.Any()).DoAndReturn(func(_ context.Context, _ oauthParameters) (string, error) {
		storage.VerifC05ExtPark(c05CurrentExec)
		return "signed-request-object", nil
	}).AnyTimes()
	c05S2SInit(t, tc)
	level := c05IamLevel(tc.client)
	c05TheLevel = level

	if rp := os.Getenv("VERIF_REPLAY"); rp != "" {
		scns, err := storage.VerifC05ReadScenarios(rp, "iam")
		if err != nil {
			t.Fatal(err)
		}
		for _, s := range scns {
			w.Replay(level, s)
		}
		c05ReplayWindows(w, tc.client, rp)
		c05ReplayForms(w, tc.client, rp)
		return
	}
	if cd := os.Getenv("VERIF_CORPUS"); cd != "" {
		files, _ := filepath.Glob(filepath.Join(cd, "*.jsonl"))
		sort.Strings(files)
		for _, fn := range files {
			scns, err := storage.VerifC05ReadScenarios(fn, "iam")
			if err != nil {
				t.Fatalf("%s: %v", fn, err)
			}
			for _, s := range scns {
				w.Replay(level, s)
			}
			c05ReplayWindows(w, tc.client, fn)
			c05ReplayForms(w, tc.client, fn)
		}
	}

	kinds := []string{"code", "reqobj", "vpnonce", "redirect", "s2s", "jti"}
	var scns, three []*storage.VerifC05Scn
	for _, k := range kinds {
		vs := c05Variants(k, "s1")
		init := []storage.VerifC05Init{{Kind: k, ID: "s1", Val: "clientA"}}
		burn := k != "s2s" && k != "jti"
		for i, a := range vs {
			for _, b := range vs[i:] {
				if burn {
					scns = append(scns, c05Scn(k+"-2", "mem", init, a, b))
				} else {
					scns = append(scns, c05Scn(k+"-2", "mem", nil, a, b))
				}
			}
		}
		if burn {
			scns = append(scns, c05Scn(k+"-2-absent", "mem", nil, vs[0], vs[0]))
		} else {
			scns = append(scns, c05Scn(k+"-2-used", "mem", init, vs[0], vs[0]))
			init = nil
		}
		scns = append(scns, c05Scn(k+"-2-redis", "redis", init, vs[0], vs[rng.Intn(len(vs))]))
		scns = append(scns, c05Scn(k+"-2-multinode", "redis-multinode", init, vs[0], vs[0]))
		three = append(three, c05Scn(k+"-3", "mem", init, vs[0], vs[0], vs[0]))
		if len(vs) > 1 {
			three = append(three, c05Scn(k+"-3-mixed", "mem", init, vs[0], vs[rng.Intn(len(vs))], vs[1+rng.Intn(len(vs)-1)]))
		}
	}
	// store faults: the Get / Set / Delete of one request fails; nobody may be honoured because of it (fail closed)
	for _, k := range kinds {
		vs := c05Variants(k, "s1")
		init := []storage.VerifC05Init{{Kind: k, ID: "s1", Val: "clientA"}}
		mark := k == "s2s" || k == "jti"
		faults := []string{"get", "del"}
		if mark {
			faults = []string{"get", "set"}
		}
		f := faults[rng.Intn(2)]
		if thorough {
			f = faults[0]
		}
		for {
			bad := vs[0]
			bad.Fail = f
			if mark {
				scns = append(scns, c05Scn(k+"-2-fault-"+f, "mem", nil, bad, vs[rng.Intn(len(vs))]))
			} else {
				scns = append(scns, c05Scn(k+"-2-fault-"+f, "mem", init, bad, vs[rng.Intn(len(vs))]))
			}
			if !thorough || f == faults[1] {
				break
			}
			f = faults[1]
		}
	}
	// a request object stored for request_uri_method=post, fetched through RequestJWTByPost (and wrongly through ...ByGet)
	{
		vs := c05Variants("reqobj", "s1")
		init := []storage.VerifC05Init{{Kind: "reqobj", ID: "s1", Val: "clientA", Fmt: "post"}}
		scns = append(scns, c05Scn("reqobj-2-post", "mem", init, vs[0], vs[rng.Intn(len(vs))]))
	}
	if thorough {
		scns = append(scns, three...)
		for _, k := range kinds {
			vs := c05Variants(k, "s1")
			init := []storage.VerifC05Init{{Kind: k, ID: "s1", Val: "clientA"}}
			if k == "s2s" || k == "jti" {
				init = nil
			}
			scns = append(scns, c05Scn(k+"-4", "mem", init, vs[0], vs[rng.Intn(len(vs))], vs[0], vs[len(vs)-1]))
			scns = append(scns, c05Scn(k+"-3-multinode", "redis-multinode", init, vs[0], vs[0], vs[rng.Intn(len(vs))]))
		}
		codeInit := []storage.VerifC05Init{{Kind: "code", ID: "s1", Val: "clientA"}}
		scns = append(scns, c05Scn("mixed-3", "mem", codeInit, c05Variants("code", "s1")[0], c05Variants("code", "s1")[2], c05Variants("s2s", "s1")[0]))
		scns = append(scns, c05Scn("mixed-4", "redis", codeInit, c05Variants("code", "s1")[0], c05Variants("jti", "s1")[0], c05Variants("jti", "s1")[0], c05Variants("code", "s1")[1]))
	} else {
		scns = append(scns, three[rng.Intn(len(three))])
	}
	for _, s := range scns {
		// quick tier: scenarios of three and more requests get a smaller budget (the large ones are enumerated in the thorough tier)
		budget := maxRuns
		if !thorough && len(s.Threads) >= 3 && budget > 700 {
			budget = 700
		}
		n, cut := w.Explore(level, s, budget)
		if cut {
			// too many schedules to enumerate: add random walks through the schedule tree
			w.Sample(level, s, budget/2, rng.Intn)
		}
		w.Count(s, n, cut)
	}

	// sequential replays around the real TTLs (clock control: miniredis)
	for _, k := range kinds {
		vs := c05Variants(k, "s1")
		for _, dt := range []int{9, 10, 11, 59, 60, 61, 899, 900, 901, 1 + rng.Intn(1000)} {
			if k == "s2s" || k == "jti" {
				s := c05Scn(k+"-ttl", "redis", nil, vs[0], vs[0], vs[0])
				s.Sched = []int{0, 0, 0, -dt, 1, 1, 1, -dt, 2, 2, 2}
				w.Replay(level, s)
			} else {
				s := c05Scn(k+"-ttl", "redis", []storage.VerifC05Init{{Kind: k, ID: "s1", Val: "clientA"}}, vs[0], vs[0])
				s.Sched = []int{-dt, 0, 0, 0, 0, -1, 1, 1, 1, 1}
				w.Replay(level, s)
			}
		}
	}
	// replays of length >= 3 in the quick tier too: every interleaving of three requests for the mark consumers (small under the
	// mutex), and four sequential requests with one secret for every kind ("tokens issued per secret <= 1")
	if !thorough {
		for _, k := range []string{"s2s", "jti"} {
			vs := c05Variants(k, "s1")
			s := c05Scn(k+"-3", "mem", nil, vs[0], vs[rng.Intn(len(vs))], vs[0])
			n, cut := w.Explore(level, s, maxRuns)
			w.Count(s, n, cut)
		}
	}
	for _, k := range kinds {
		vs := c05Variants(k, "s1")
		init := []storage.VerifC05Init{{Kind: k, ID: "s1", Val: "clientA"}}
		if k == "s2s" || k == "jti" {
			init = nil
		}
		s := c05Scn(k+"-4-sequential", []string{"mem", "redis"}[rng.Intn(2)], init, vs[0], vs[rng.Intn(len(vs))], vs[0], vs[rng.Intn(len(vs))])
		for ti := 0; ti < 4; ti++ {
			for n := 0; n < 5; n++ {
				s.Sched = append(s.Sched, ti)
			}
		}
		w.Replay(level, s)
	}

	// secrets of every length class the input validation admits (a DPoP jti may be up to 256 characters; the others are unbounded):
	// presented twice in a row, and every interleaving of two requests for one length chosen by the seed
	for _, k := range kinds {
		lengths := []int{1, 43, 200, 240, 241, 250, 256}
		if k != "jti" {
			lengths = append(lengths, 1000)
		}
		for li, n := range lengths {
			id := c05LongID(n)
			good := c05Variants(k, id)[0]
			var init []storage.VerifC05Init
			if k != "s2s" && k != "jti" {
				init = []storage.VerifC05Init{{Kind: k, ID: id, Val: "clientA"}}
			}
			s := c05Scn(fmt.Sprintf("%s-2-len%d", k, n), "mem", init, good, good)
			if li == int(seed+int64(len(k)))%len(lengths) {
				cnt, cut := w.Explore(level, s, maxRuns)
				w.Count(s, cnt, cut)
				continue
			}
			s.Sched = []int{0, 0, 0, 0, 0, 1, 1, 1, 1, 1}
			w.Replay(level, s)
		}
	}

	// hostile OpenID4VP responses: after the first use of a secret of ANY kind, an authorization response with several presentations
	// whose challenges disagree is posted (validatePresentationNonce then deletes every challenge, before any signature check);
	// the challenges are every "/"-tail of every key the session database has seen.  Then the secret is replayed.
	for _, k := range kinds {
		c05Cross(w, level, tc.client, k)
	}

	// nonce memory vs. the acceptance window of a JSON-LD presentation (created - skew .. expires + skew):
	// the real validity check, the real proof.ValidAt and the real nonce check under clock control (miniredis)
	validity, _ := strconv.Atoi(os.Getenv("VERIF_C05_VALIDITY"))
	skew, _ := strconv.Atoi(os.Getenv("VERIF_C05_SKEW"))
	if validity == 0 {
		validity = 5
	}
	if skew == 0 {
		skew = 5
	}
	window := validity + 2*skew
	for _, first := range []int{0, 1 + rng.Intn(skew), skew} {
		for _, replay := range []int{first + 1, first + 9, first + 10, first + 11, window - 1, window, window + 1, first + 1 + rng.Intn(window)} {
			if replay <= first {
				continue
			}
			c05Window(w, tc.client, validity, skew, first, replay)
		}
	}
	// request-level sequences (op "forms", zz_verif_c05b_test.go)
	c05Forms(w, tc.client, rng, thorough)
	t.Logf("C05 iam harness: %d runs, %d goroutine dumps, %d diverged re-executions repeated", w.Runs, w.Dumps, storage.VerifC05Diverged)
}

// c05Window: a JSON-LD presentation with the maximum validity, created `skew` seconds after the origin; it is presented at
// origin+first and again at origin+replay.  Prints what the real code decides at both instants.
func c05Window(w *storage.VerifC05Writer, base *Wrapper, validity, skew, first, replay int) {
	origin := time.Date(2024, 1, 1, 0, 0, 0, 0, time.UTC)
	created := origin.Add(time.Duration(skew) * time.Second)
	expires := created.Add(time.Duration(validity) * time.Second)
	nonce := fmt.Sprintf("w-%d-%d", first, replay)
	raw := fmt.Sprintf(`{"@context":["https://www.w3.org/2018/credentials/v1"],"type":"VerifiablePresentation","proof":{"type":"JsonWebSignature2020","nonce":%q,"created":%q,"expires":%q,"proofPurpose":"authentication","verificationMethod":"did:web:example.com#1","jws":"x"}}`,
		nonce, created.Format(time.RFC3339), expires.Format(time.RFC3339))
	vp, err := vc.ParseVerifiablePresentation(raw)
	if err != nil {
		panic(err)
	}
	maxValidity := "ok"
	if err := validateS2SPresentationMaxValidity(*vp); err != nil {
		maxValidity = "refused"
	}
	opts := proof.ProofOptions{Created: created, Expires: &expires}
	sk := time.Duration(skew) * time.Second
	a1 := opts.ValidAt(origin.Add(time.Duration(first)*time.Second), sk)
	a2 := opts.ValidAt(origin.Add(time.Duration(replay)*time.Second), sk)
	b, err := storage.VerifC05RedisBackend(nil, nil)
	if err != nil {
		panic(err)
	}
	wr := *base
	wr.storageEngine = c05Engine{Engine: base.storageEngine, db: b.DB}
	table := map[string]string{"presentation nonce has already been used": "used"}
	httpCtx := context.WithValue(context.Background(), httpRequestContextKey{}, &http.Request{Header: http.Header{}})
	present := func(client string) string {
		_, err := wr.handleS2SAccessTokenRequest(httpCtx, c05ClientID(client), issuerSubjectID, c05Scope(true), c05S2S.submissionJSON, c05S2SPresentation("", nonce).Raw())
		return c05Outcome(err, table)
	}
	n1 := present("clientA")
	b.Advance(time.Duration(replay-first) * time.Second)
	n2 := present([]string{"clientA", "clientB", "clientA/"}[(first+replay)%3])
	w.Raw(map[string]interface{}{"op": "window", "validity": validity, "skew": skew, "first": first, "replay": replay},
		fmt.Sprintf("window maxvalidity=%s accept1=%v accept2=%v nonce1=%s nonce2=%s", maxValidity, a1, a2, n1, n2))
}

var c05TheLevel storage.VerifC05Level
var c05CurrentExec *storage.VerifC05Exec

func c05ReplayWindows(w *storage.VerifC05Writer, base *Wrapper, path string) {
	data, err := os.ReadFile(path)
	if err != nil {
		return
	}
	for _, line := range strings.Split(string(data), "\n") {
		var op struct {
			Op, Kind                       string
			Validity, Skew, First, Replay int
		}
		if json.Unmarshal([]byte(line), &op) == nil && op.Op == "window" {
			c05Window(w, base, op.Validity, op.Skew, op.First, op.Replay)
		}
		if json.Unmarshal([]byte(line), &op) == nil && op.Op == "cross" {
			c05Cross(w, c05TheLevel, base, op.Kind)
		}
	}
}

func c05LongID(n int) string {
	if n <= 2 {
		return strings.Repeat("z", n)
	}
	return strings.Repeat("k", n-2) + "s1"
}

func c05Cross(w *storage.VerifC05Writer, level storage.VerifC05Level, base *Wrapper, kind string) {
	good := c05Variants(kind, "s1")[0]
	var init []storage.VerifC05Init
	if kind != "s2s" && kind != "jti" {
		init = []storage.VerifC05Init{{Kind: kind, ID: "s1", Val: "clientA"}}
	}
	scn := c05Scn(kind+"-cross", "mem", init, good, good)
	b, fns, err := scn.Build(level)
	if err != nil {
		panic(err)
	}
	first := fns[0]()
	// hostile keys: every "/"-tail of every key the session database has seen, and "../"-relative paths to those keys from
	// stores of depth 1..3 (a join that normalises paths would resolve them)
	hostile := map[string]bool{}
	for _, key := range b.Gate.SeenKeys() {
		for i, c := range key {
			if c == '/' && i+1 < len(key) {
				hostile[key[i+1:]] = true
			}
		}
		for d := 1; d <= 3; d++ {
			hostile[strings.Repeat("../", d)+key] = true
		}
	}
	var keys []string
	for k := range hostile {
		keys = append(keys, k)
	}
	sort.Strings(keys)
	wr := *base
	wr.storageEngine = c05Engine{Engine: base.storageEngine, db: b.DB}
	httpCtx := context.WithValue(context.Background(), httpRequestContextKey{}, &http.Request{Header: http.Header{}})
	state := "clientA"
	// (1) the OpenID4VP response endpoint: all hostile keys as disagreeing challenges of one response (burn-all), plus a decoy
	raws := []string{c05LDPresentation("challenge", "decoy-challenge").Raw()}
	for _, k := range keys {
		raws = append(raws, c05LDPresentation("challenge", k).Raw())
	}
	vpToken := "[" + strings.Join(raws, ",") + "]"
	_, _ = wr.handleAuthorizeResponseSubmission(context.Background(), HandleAuthorizeResponseRequestObject{SubjectID: verifierSubject,
		Body: &HandleAuthorizeResponseFormdataRequestBody{State: &state, VpToken: &vpToken}})
	for _, k := range keys {
		k := k
		// (2) the same endpoint with a single presentation (GetAndDelete of the challenge)
		one := c05LDPresentation("challenge", k).Raw()
		_, _ = wr.handleAuthorizeResponseSubmission(context.Background(), HandleAuthorizeResponseRequestObject{SubjectID: verifierSubject,
			Body: &HandleAuthorizeResponseFormdataRequestBody{State: &state, VpToken: &one}})
		// (3) the token endpoint burns every code it is shown: without code_verifier (deferred Delete only) and as a full request
		client, verifier := "clientA", "verifier"
		_, _ = wr.HandleTokenRequest(httpCtx, HandleTokenRequestRequestObject{SubjectID: verifierSubject,
			Body: &HandleTokenRequestFormdataRequestBody{GrantType: oauth.AuthorizationCodeGrantType, Code: &k}})
		_, _ = wr.HandleTokenRequest(httpCtx, HandleTokenRequestRequestObject{SubjectID: verifierSubject,
			Body: &HandleTokenRequestFormdataRequestBody{GrantType: oauth.AuthorizationCodeGrantType, Code: &k, ClientId: &client, CodeVerifier: &verifier}})
		// (4) request objects by id, both methods
		_, _ = wr.RequestJWTByGet(context.Background(), RequestJWTByGetRequestObject{SubjectID: "clientA", Id: k})
		_, _ = wr.RequestJWTByPost(context.Background(), RequestJWTByPostRequestObject{SubjectID: "clientA", Id: k})
		// (5) the landing page with the key as redirect token
		func() {
			defer func() { _ = recover() }()
			rec := httptest.NewRecorder()
			req := httptest.NewRequest(http.MethodGet, "/oauth2/holder/user", nil)
			q := req.URL.Query()
			q.Set("token", k)
			req.URL.RawQuery = q.Encode()
			_ = wr.handleUserLanding(echo.New().NewContext(req, rec))
		}()
	}
	hostileResult := fmt.Sprintf("%d-keys", len(keys))
	_ = hostileResult
	replay := fns[1]()
	op := map[string]interface{}{"op": "cross", "kind": kind, "init": init, "threads": []storage.VerifC05Req{good, good}}
	w.Raw(op, fmt.Sprintf("cross kind=%s first=%s hostile=done replay=%s", kind, first, replay))
}
