//go:build verif

package iam

// C05: the REAL consumers of one-time secrets (handleAccessTokenRequest, RequestJWTByGet/Post, validatePresentationNonce,
// validateS2SPresentationNonce, ValidateDPoPProof) on the REAL session database, under a gate that parks every request
// before each underlying store call; every interleaving of two (quick) / three (thorough) requests presenting one secret.

import (
	"context"
	stdcrypto "crypto"
	"crypto/ecdsa"
	"crypto/elliptic"
	crand "crypto/rand"
	"encoding/base64"
	"errors"
	"fmt"
	"math/rand"
	"net/http"
	"os"
	"path/filepath"
	"sort"
	"strconv"
	"strings"
	"testing"

	"github.com/lestrrat-go/jwx/v2/jwa"
	"github.com/lestrrat-go/jwx/v2/jwt"
	"github.com/nuts-foundation/go-did/vc"
	"github.com/nuts-foundation/nuts-node/auth/oauth"
	"github.com/nuts-foundation/nuts-node/crypto/dpop"
	"github.com/nuts-foundation/nuts-node/storage"
	"go.uber.org/mock/gomock"
)

type c05Engine struct {
	storage.Engine
	db storage.SessionDatabase
}

func (e c05Engine) GetSessionDatabase() storage.SessionDatabase { return e.db }

func c05Outcome(err error, table map[string]string) string {
	if err == nil {
		return "ok"
	}
	var oe oauth.OAuth2Error
	desc := err.Error()
	if errors.As(err, &oe) {
		desc = oe.Description
	}
	for frag, out := range table {
		if strings.Contains(desc, frag) {
			return out
		}
	}
	return "other:" + desc
}

func c05LDPresentation(field, value string) vc.VerifiablePresentation {
	raw := fmt.Sprintf(`{"@context":["https://www.w3.org/2018/credentials/v1"],"type":"VerifiablePresentation","proof":{"type":"JsonWebSignature2020","%s":%q,"created":"2024-01-01T00:00:00Z","proofPurpose":"authentication","verificationMethod":"did:web:example.com#1","jws":"x"}}`, field, value)
	vp, err := vc.ParseVerifiablePresentation(raw)
	if err != nil {
		panic(err)
	}
	return *vp
}

type c05DPoP struct {
	proof      string
	thumbprint string
}

var c05DPoPCache = map[string]c05DPoP{}

// a correctly signed DPoP proof whose jti is `id`
func c05SignedDPoP(id string) c05DPoP {
	if d, ok := c05DPoPCache[id]; ok {
		return d
	}
	httpRequest, _ := http.NewRequest("POST", "https://server.example.com/token", nil)
	p := dpop.New(*httpRequest)
	_ = p.GenerateProof("token")
	_ = p.Token.Set(jwt.JwtIDKey, id)
	keyPair, _ := ecdsa.GenerateKey(elliptic.P256(), crand.Reader)
	if _, err := p.Sign("kid", keyPair, jwa.ES256); err != nil {
		panic(err)
	}
	tp, _ := p.Headers.JWK().Thumbprint(stdcrypto.SHA256)
	d := c05DPoP{proof: p.String(), thumbprint: base64.RawURLEncoding.EncodeToString(tp)}
	c05DPoPCache[id] = d
	return d
}

func c05IamLevel(base *Wrapper) storage.VerifC05Level {
	return func(b *storage.VerifC05Backend, scn *storage.VerifC05Scn) ([]func() string, error) {
		w := *base
		w.storageEngine = c05Engine{Engine: base.storageEngine, db: b.DB}
		pkce := generatePKCEParams()
		for _, i := range scn.Init {
			var err error
			switch i.Kind {
			case "code":
				err = w.oauthCodeStore().Put(i.ID, OAuthSession{ClientID: i.Val, OwnSubject: &verifierSubject, RedirectURI: "https://example.com/cb",
					Scope: "scope", OpenID4VPVerifier: &PEXConsumer{}, PKCEParams: pkce})
			case "reqobj":
				u := w.subjectToBaseURL(i.Val)
				err = w.authzRequestObjectStore().Put(i.ID, jarRequest{Claims: oauthParameters{"a": "b"}, Client: u.String(), RequestURIMethod: "get"})
			case "vpnonce":
				err = w.oauthNonceStore().Put(i.ID, i.Val)
			case "s2s":
				err = w.s2sNonceStore().Put(i.ID, true)
			case "jti":
				err = w.useNonceOnceStore().Put(i.ID, struct{}{})
			default:
				err = fmt.Errorf("kind %s is not driven at iam level", i.Kind)
			}
			if err != nil {
				return nil, err
			}
		}
		httpCtx := context.WithValue(context.Background(), httpRequestContextKey{}, &http.Request{Header: http.Header{}})
		var fns []func() string
		for _, r := range scn.Threads {
			r := r
			switch r.Kind {
			case "code":
				fns = append(fns, func() string {
					body := HandleTokenRequestFormdataRequestBody{Code: &r.ID, ClientId: &r.Want}
					verifier := pkce.Verifier
					if !r.Post {
						verifier = "wrong-" + verifier
					}
					if r.Pre {
						body.CodeVerifier = &verifier
					}
					_, err := w.handleAccessTokenRequest(httpCtx, body)
					return c05Outcome(err, map[string]string{"missing code_verifier": "missing-param", "missing client_id": "missing-param",
						"invalid authorization code": "not-found", "client_id does not match": "mismatch", "invalid code_verifier": "post-check"})
				})
			case "reqobj":
				fns = append(fns, func() string {
					var err error
					if r.Post {
						_, err = w.RequestJWTByGet(context.Background(), RequestJWTByGetRequestObject{SubjectID: r.Want, Id: r.ID})
					} else {
						_, err = w.RequestJWTByPost(context.Background(), RequestJWTByPostRequestObject{SubjectID: r.Want, Id: r.ID})
					}
					return c05Outcome(err, map[string]string{"request object not found": "not-found", "client_id does not match request": "mismatch",
						"used request_uri_method": "post-check"})
				})
			case "vpnonce":
				fns = append(fns, func() string {
					vps := []vc.VerifiablePresentation{c05LDPresentation("challenge", r.ID)}
					if !r.Pre {
						vps = append(vps, c05LDPresentation("challenge", "another-nonce"))
					}
					err := w.validatePresentationNonce(vps, r.Want)
					return c05Outcome(err, map[string]string{"invalid or missing nonce/challenge": "missing-param", "invalid or expired session": "not-found",
						"invalid nonce/state": "mismatch"})
				})
			case "s2s":
				fns = append(fns, func() string {
					err := w.validateS2SPresentationNonce(c05LDPresentation("nonce", r.ID))
					return c05Outcome(err, map[string]string{"presentation nonce has already been used": "used"})
				})
			case "jti":
				d := c05SignedDPoP(r.ID)
				fns = append(fns, func() string {
					resp, err := w.ValidateDPoPProof(nil, ValidateDPoPProofRequestObject{Body: &ValidateDPoPProofJSONRequestBody{
						DpopProof: d.proof, Method: "POST", Thumbprint: d.thumbprint, Token: "token", Url: "https://server.example.com/token"}})
					if err != nil {
						return "other:" + err.Error()
					}
					v := resp.(ValidateDPoPProof200JSONResponse)
					if v.Valid {
						return "ok"
					}
					if v.Reason != nil && *v.Reason == "jti already used" {
						return "used"
					}
					if v.Reason != nil {
						return "other:" + *v.Reason
					}
					return "other"
				})
			default:
				return nil, fmt.Errorf("kind %s is not driven at iam level", r.Kind)
			}
		}
		return fns, nil
	}
}

func c05Scn(name, backend string, init []storage.VerifC05Init, threads ...storage.VerifC05Req) *storage.VerifC05Scn {
	return &storage.VerifC05Scn{Op: "run", Name: name, Level: "iam", Backend: backend, Init: init, Threads: threads}
}

func c05Variants(kind, id string) []storage.VerifC05Req {
	good := storage.VerifC05Req{Kind: kind, ID: id, Want: "clientA", Pre: true, Post: true}
	v := []storage.VerifC05Req{good}
	switch kind {
	case "code":
		v = append(v, storage.VerifC05Req{Kind: kind, ID: id, Want: "clientB", Pre: true, Post: true},
			storage.VerifC05Req{Kind: kind, ID: id, Want: "clientA", Pre: false, Post: true},
			storage.VerifC05Req{Kind: kind, ID: id, Want: "clientA", Pre: true, Post: false})
	case "reqobj":
		v = append(v, storage.VerifC05Req{Kind: kind, ID: id, Want: "clientB", Pre: true, Post: true},
			storage.VerifC05Req{Kind: kind, ID: id, Want: "clientA", Pre: true, Post: false})
	case "vpnonce":
		v = append(v, storage.VerifC05Req{Kind: kind, ID: id, Want: "clientB", Pre: true, Post: true},
			storage.VerifC05Req{Kind: kind, ID: id, Want: "clientA", Pre: false, Post: true})
	}
	return v
}

func TestVerifC05(t *testing.T) {
	outDir := os.Getenv("VERIF_OUT")
	if outDir == "" {
		t.Skip("VERIF_OUT not set")
	}
	seed, _ := strconv.ParseInt(os.Getenv("VERIF_SEED"), 10, 64)
	thorough := os.Getenv("VERIF_TIER") == "thorough"
	maxRuns, _ := strconv.Atoi(os.Getenv("VERIF_MAXRUNS"))
	if maxRuns == 0 {
		maxRuns = 40000
	}
	rng := rand.New(rand.NewSource(seed*104729 + 11))
	w, err := storage.VerifC05NewWriter(outDir)
	if err != nil {
		t.Fatal(err)
	}
	defer w.Close()

	tc := newTestClient(t)
	tc.jar.EXPECT().Sign(gomock.Any(), gomock.Any()).Return("signed-request-object", nil).AnyTimes()
	level := c05IamLevel(tc.client)

	if rp := os.Getenv("VERIF_REPLAY"); rp != "" {
		scns, err := storage.VerifC05ReadScenarios(rp, "iam")
		if err != nil {
			t.Fatal(err)
		}
		for _, s := range scns {
			w.Replay(level, s)
		}
		return
	}
	if cd := os.Getenv("VERIF_CORPUS"); cd != "" {
		files, _ := filepath.Glob(filepath.Join(cd, "*.jsonl"))
		sort.Strings(files)
		for _, fn := range files {
			scns, err := storage.VerifC05ReadScenarios(fn, "iam")
			if err != nil {
				t.Fatalf("%s: %v", fn, err)
			}
			for _, s := range scns {
				w.Replay(level, s)
			}
		}
	}

	kinds := []string{"code", "reqobj", "vpnonce", "s2s", "jti"}
	var scns, three []*storage.VerifC05Scn
	for _, k := range kinds {
		vs := c05Variants(k, "s1")
		init := []storage.VerifC05Init{{Kind: k, ID: "s1", Val: "clientA"}}
		burn := k != "s2s" && k != "jti"
		for i, a := range vs {
			for _, b := range vs[i:] {
				if burn {
					scns = append(scns, c05Scn(k+"-2", "mem", init, a, b))
				} else {
					scns = append(scns, c05Scn(k+"-2", "mem", nil, a, b))
				}
			}
		}
		if burn {
			scns = append(scns, c05Scn(k+"-2-absent", "mem", nil, vs[0], vs[0]))
		} else {
			scns = append(scns, c05Scn(k+"-2-used", "mem", init, vs[0], vs[0]))
			init = nil
		}
		scns = append(scns, c05Scn(k+"-2-redis", "redis", init, vs[0], vs[rng.Intn(len(vs))]))
		three = append(three, c05Scn(k+"-3", "mem", init, vs[0], vs[0], vs[0]))
		if len(vs) > 1 {
			three = append(three, c05Scn(k+"-3-mixed", "mem", init, vs[0], vs[rng.Intn(len(vs))], vs[1+rng.Intn(len(vs)-1)]))
		}
	}
	if thorough {
		scns = append(scns, three...)
	} else {
		scns = append(scns, three[rng.Intn(len(three))])
	}
	for _, s := range scns {
		n, cut := w.Explore(level, s, maxRuns)
		w.Comment(fmt.Sprintf("scenario %s threads=%d schedules=%d truncated=%v", s.Name, len(s.Threads), n, cut))
	}

	// sequential replays around the real TTLs (clock control: miniredis)
	for _, k := range kinds {
		vs := c05Variants(k, "s1")
		for _, dt := range []int{9, 10, 11, 59, 60, 61, 899, 900, 901, 1 + rng.Intn(1000)} {
			if k == "s2s" || k == "jti" {
				s := c05Scn(k+"-ttl", "redis", nil, vs[0], vs[0], vs[0])
				s.Sched = []int{0, 0, 0, -dt, 1, 1, 1, -dt, 2, 2, 2}
				w.Replay(level, s)
			} else {
				s := c05Scn(k+"-ttl", "redis", []storage.VerifC05Init{{Kind: k, ID: "s1", Val: "clientA"}}, vs[0], vs[0])
				s.Sched = []int{-dt, 0, 0, 0, 0, -1, 1, 1, 1, 1}
				w.Replay(level, s)
			}
		}
	}
	t.Logf("C05 iam harness: %d runs, %d goroutine dumps", w.Runs, w.Dumps)
}
