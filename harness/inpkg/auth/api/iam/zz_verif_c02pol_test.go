//go:build verif

package iam

// C02 deepening: where the scope -> presentation definition mapping comes from. The REAL policy.LocalPDP is configured on a
// generated directory (several files, non-.json names, sub directories, broken / schema-invalid files, a scope defined in two
// files) and asked for the definitions of probe scopes; the model (NutsModel/C02/Policy.lean) gets the directory listing in the
// order Readdir returns it and the parse verdict of every file.

import (
	"context"
	"encoding/json"
	"fmt"
	"os"
	"path/filepath"
	"sort"
	"strings"

	"github.com/nuts-foundation/nuts-node/core"
	"github.com/nuts-foundation/nuts-node/policy"
)

type c02PolScope struct {
	Scope string   `json:"scope"`
	Defs  []c02Def `json:"defs"`
}

type c02PolEntry struct {
	Name   string        `json:"name"`
	IsDir  bool          `json:"is_dir,omitempty"`
	Kind   string        `json:"kind,omitempty"` // valid | broken-json | schema-invalid | not-an-object | empty-object
	Raw    string        `json:"raw,omitempty"`
	OK     bool          `json:"ok,omitempty"`     // generator ground truth: the file unmarshals and passes the schema
	Scopes []c02PolScope `json:"scopes,omitempty"` // what plain encoding/json reads from Raw (no schema), scopes sorted
}

const c02PolicyDefaultDir = "./config/policy"

func c02PolDefinition(id string) string {
	return fmt.Sprintf(`{"id":%q,"input_descriptors":[{"id":"d1","constraints":{"fields":[{"path":["$.type"],"filter":{"type":"string","const":"X"}}]}}]}`, id)
}

// abstract: scope -> owner -> definition id, by plain JSON decoding
func c02PolAbstract(raw string) []c02PolScope {
	var m map[string]map[string]struct {
		Id string `json:"id"`
	}
	if json.Unmarshal([]byte(raw), &m) != nil {
		return nil
	}
	var out []c02PolScope
	for scope, owners := range m {
		s := c02PolScope{Scope: scope}
		for owner, d := range owners {
			s.Defs = append(s.Defs, c02Def{Owner: owner, ID: d.Id})
		}
		sort.Slice(s.Defs, func(i, j int) bool { return s.Defs[i].Owner < s.Defs[j].Owner })
		out = append(out, s)
	}
	sort.Slice(out, func(i, j int) bool { return out[i].Scope < out[j].Scope })
	return out
}

func (g *c02Gen) polLoad() c02Op {
	rng := g.rng
	op := c02Op{Op: "polload", Dir: "present"}
	switch rng.Intn(12) {
	case 0:
		op.Dir = "unset"
	case 1:
		op.Dir = "missing-default"
	case 2:
		op.Dir = "unreadable"
	}
	scopes := []string{"care", "Care", "care2", "eOverdracht", "zorginzage", "x"}
	nFiles := 1 + rng.Intn(4)
	seq := 0
	used := map[string]bool{}
	names := map[string]bool{}
	addName := func(n string) bool {
		if names[n] {
			return false
		}
		names[n] = true
		return true
	}
	for f := 0; f < nFiles; f++ {
		e := c02PolEntry{Name: fmt.Sprintf("p%d.json", f), Kind: "valid"}
		if rng.Intn(6) == 0 {
			e.Name = g.pick([]string{".json", "policy.v2.json", "a.JSON.json", "z z.json"})
		}
		if !addName(e.Name) {
			continue
		}
		var parts []string
		n := 1 + rng.Intn(3)
		for k := 0; k < n; k++ {
			sc := scopes[rng.Intn(len(scopes))]
			// mostly fresh scopes; a scope another file (or this one) already defines 1 time in 5
			if used[sc] && rng.Intn(5) > 0 {
				continue
			}
			used[sc] = true
			seq++
			owners := fmt.Sprintf(`"organization":%s`, c02PolDefinition(fmt.Sprintf("pd%d", seq)))
			if rng.Intn(3) == 0 {
				seq++
				owners += fmt.Sprintf(`,"user":%s`, c02PolDefinition(fmt.Sprintf("pd%d", seq)))
			}
			parts = append(parts, fmt.Sprintf("%q:{%s}", sc, owners))
		}
		e.Raw = "{" + strings.Join(parts, ",") + "}"
		switch rng.Intn(14) {
		case 0:
			e.Kind, e.Raw = "broken-json", e.Raw[:len(e.Raw)-1]
		case 1:
			e.Kind, e.Raw = "schema-invalid", `{"care9":{"organization":{"input_descriptors":[]}}}`
		case 2:
			e.Kind, e.Raw = "not-an-object", `[]`
		case 3:
			e.Kind, e.Raw = "empty-object", `{}`
		case 4:
			// the schema admits further wallet owner types (additionalProperties: object)
			e.Kind, e.Raw = "other-owner", `{"care9":{"admin":`+c02PolDefinition("pdx")+`}}`
		case 5:
			e.Kind, e.Raw = "schema-invalid", g.pick([]string{`{"care9":{"organization":"pd"}}`, `{"care9":{"extra":5}}`, `{"care9":[]}`,
				`{"care9":{"user":{"id":"u","input_descriptors":"none"}}}`})
		}
		e.OK = e.Kind == "valid" || e.Kind == "empty-object" || e.Kind == "other-owner"
		op.Entries = append(op.Entries, e)
	}
	// entries that must be skipped: other suffixes (their content would break the load or define a scope twice), directories
	for _, n := range []string{"readme.txt", "p0.json.bak", "policy.JSON", "json", "p1.jsonx"} {
		if rng.Intn(3) == 0 && addName(n) {
			raw := g.pick([]string{"{", `{"care":{"organization":` + c02PolDefinition("shadow") + `}}`, "not json"})
			op.Entries = append(op.Entries, c02PolEntry{Name: n, Kind: "other-suffix", Raw: raw})
		}
	}
	for _, n := range []string{"sub.json", "dir"} {
		if rng.Intn(3) == 0 && addName(n) {
			op.Entries = append(op.Entries, c02PolEntry{Name: n, IsDir: true})
		}
	}
	op.Probes = append([]string{}, scopes...)
	op.Probes = append(op.Probes, "care9", "")
	return op
}

func (w *c02World) execPolLoad(op *c02Op) string {
	pdp := policy.New()
	cfg := pdp.Config().(*policy.Config)
	switch op.Dir {
	case "unset":
		cfg.Directory = ""
	case "missing-default":
		if _, err := os.Stat(c02PolicyDefaultDir); err == nil {
			return "default-policy-directory-exists-here"
		}
		cfg.Directory = c02PolicyDefaultDir
	case "unreadable":
		cfg.Directory = filepath.Join(w.t.TempDir(), "does-not-exist")
	default:
		dir := w.t.TempDir()
		for i := range op.Entries {
			e := &op.Entries[i]
			p := filepath.Join(dir, e.Name)
			if e.IsDir {
				if err := os.Mkdir(p, 0o700); err != nil {
					w.t.Fatal(err)
				}
				// a file inside the sub directory is not looked at
				_ = os.WriteFile(filepath.Join(p, "inner.json"), []byte("{"), 0o600)
				continue
			}
			if err := os.WriteFile(p, []byte(e.Raw), 0o600); err != nil {
				w.t.Fatal(err)
			}
			e.Scopes = c02PolAbstract(e.Raw)
		}
		// the order in which the loader will see the entries
		if d, err := os.Open(dir); err == nil {
			infos, _ := d.Readdir(0)
			_ = d.Close()
			pos := map[string]int{}
			for i, fi := range infos {
				pos[fi.Name()] = i
			}
			sort.SliceStable(op.Entries, func(i, j int) bool { return pos[op.Entries[i].Name] < pos[op.Entries[j].Name] })
		}
		cfg.Directory = dir
	}
	return c02Recover(func() string {
		if err := pdp.Configure(core.ServerConfig{}); err != nil {
			s := err.Error()
			switch {
			case strings.Contains(s, "already exists"):
				return "err:duplicate-scope"
			case strings.Contains(s, "failed to unmarshal"):
				return "err:unmarshal"
			}
			return "err:directory"
		}
		var parts []string
		for _, scope := range op.Probes {
			m, err := pdp.PresentationDefinitions(context.Background(), scope)
			if err != nil {
				if err == policy.ErrNotFound {
					parts = append(parts, scope+"=-")
				} else {
					parts = append(parts, scope+"=error")
				}
				continue
			}
			var owners []string
			for owner, d := range m {
				owners = append(owners, string(owner)+":"+d.Id)
			}
			sort.Strings(owners)
			parts = append(parts, scope+"="+strings.Join(owners, ","))
		}
		return "ok " + strings.Join(parts, " ")
	})
}
