//go:build verif

package iam

// C02 correspondence harness (injected with `go test -overlay`; nothing is written into /repo).
//
// Real code under test: Wrapper.HandleTokenRequest (vp_token-bearer and authorization_code grants),
// Wrapper.HandleAuthorizeResponse, Wrapper.IntrospectAccessToken / IntrospectAccessTokenExtended with the real
// response marshalling (Visit…Response on a recorder), the real in-memory session store, the real local policy
// backend (policy.LocalPDP loaded from generated files), the real PEX engine, real PKCE, real DPoP parsing.
// Scripted (gomock, same fixtures as the package's own tests): Verifier.VerifyVP verdicts, subject manager,
// public URL. The clock cannot be replaced (time.Now is called directly), so "advance the clock by d" is realised
// by ageing every stored entry by d (storage.VerifSessionDB.Age) - time translation.

import (
	"context"
	"crypto/ecdsa"
	"crypto/elliptic"
	crand "crypto/rand"
	"crypto/sha256"
	"encoding/base64"
	"encoding/json"
	"errors"
	"fmt"
	"io"
	"math/rand"
	"net/http"
	"net/http/httptest"
	"net/url"
	"os"
	"path/filepath"
	"sort"
	"strconv"
	"strings"
	"testing"
	"time"

	"github.com/alicebob/miniredis/v2"
	"github.com/labstack/echo/v4"
	"github.com/lestrrat-go/jwx/v2/jwa"
	"github.com/sirupsen/logrus"
	"github.com/nuts-foundation/go-did/did"
	"github.com/nuts-foundation/go-did/vc"
	"github.com/redis/go-redis/v9"
	"github.com/nuts-foundation/nuts-node/auth"
	iamclient "github.com/nuts-foundation/nuts-node/auth/client/iam"
	"github.com/nuts-foundation/nuts-node/auth/oauth"
	"github.com/nuts-foundation/nuts-node/core"
	"github.com/nuts-foundation/nuts-node/crypto/dpop"
	"github.com/nuts-foundation/nuts-node/policy"
	"github.com/nuts-foundation/nuts-node/storage"
	"github.com/nuts-foundation/nuts-node/vcr"
	"github.com/nuts-foundation/nuts-node/vcr/credential"
	"github.com/nuts-foundation/nuts-node/vcr/pe"
	"github.com/nuts-foundation/nuts-node/vcr/signature/proof"
	"github.com/nuts-foundation/nuts-node/vcr/verifier"
	"github.com/nuts-foundation/nuts-node/vdr/didsubject"
	"go.uber.org/mock/gomock"
)

// ---------------------------------------------------------------------------------------------- op format

type c02VP struct {
	ID        string    `json:"id"`
	Created   *int64    `json:"created"` // ns (virtual), nil = absent
	Expires   *int64    `json:"expires"`
	Signer    *string   `json:"signer"`
	Subjects  []*string `json:"subjects"`
	Aud       []string  `json:"aud"`
	Nonce     string    `json:"nonce"`
	Challenge string    `json:"challenge"`
	Verifies  bool      `json:"verifies"` // the VerifyVP(vp, true, true, nil) verdict = sig_ok && vcs_ok
	SigOK     *bool     `json:"sig_ok,omitempty"` // presentation signature verdict (absent in old corpus files: = verifies)
	VCsOK     *bool     `json:"vcs_ok,omitempty"` // verdict on the contained credentials (revoked / expired / untrusted): only asked for with verifyVCs
	JWT       bool      `json:"jwt,omitempty"`
}

type c02Def struct {
	Owner string `json:"owner"`
	ID    string `json:"id"`
	Key   int    `json:"key"`
}

type c02Policy struct {
	Scope string   `json:"scope"`
	Defs  []c02Def `json:"defs"`
}

type c02ClaimSet struct {
	Key    int         `json:"key"`
	Claims [][2]string `json:"claims"`
}

type c02DPoP struct {
	Kind string `json:"kind"` // absent | invalid | valid
	Kid  string `json:"kid,omitempty"`
	Jkt  string `json:"jkt,omitempty"`
	Idx  int    `json:"idx,omitempty"`
}

type c02Session struct {
	ClientID    string   `json:"client_id"`
	Scope       string   `json:"scope"`
	OwnSubject  string   `json:"own_subject"`
	Challenge   string   `json:"challenge"`
	Method      string   `json:"method"`
	ClientState string   `json:"client_state"`
	Required    []c02Def `json:"required"`
}

type c02Sha struct {
	In  string `json:"in"`
	Out string `json:"out"`
}

type c02Op struct {
	Op string `json:"op"`
	T  int64  `json:"t"`
	// cfg
	PublicURL string      `json:"publicURL,omitempty"`
	Subjects  []string    `json:"subjects,omitempty"`
	Policy    []c02Policy `json:"policy,omitempty"`
	PolicyRaw string      `json:"policy_raw,omitempty"` // the policy file content (scope -> owner -> definition)
	Backend   string      `json:"backend,omitempty"`    // session store back-end of the world: "" = in-memory, "redis" = the Redis session database on miniredis
	DefsRaw   []string    `json:"defs_raw,omitempty"`   // definition JSON by key
	Sha       []c02Sha    `json:"sha,omitempty"`
	// s2s / authresp / code
	Subject      string        `json:"subject,omitempty"`
	Params       bool          `json:"params,omitempty"`
	ClientID     *string       `json:"client_id,omitempty"`
	Scope        string        `json:"scope,omitempty"`
	EnvelopeOK   bool          `json:"envelope_ok,omitempty"`
	SubmissionOK bool          `json:"submission_ok,omitempty"`
	VPs          []c02VP       `json:"vps,omitempty"`
	DefID        string        `json:"def_id,omitempty"`
	Pex          []int         `json:"pex"`
	PexExpected  *bool         `json:"pex_expected,omitempty"` // generator ground truth for the definition named by def_id
	Claims       []c02ClaimSet `json:"claims,omitempty"`
	DPoP         *c02DPoP      `json:"dpop,omitempty"`
	Assertion    *string       `json:"raw_assertion,omitempty"`
	Submission   *string       `json:"raw_submission,omitempty"`
	Defects      []string      `json:"defects,omitempty"`
	// seed / authresp / code
	State      *string     `json:"state,omitempty"`
	Nonce      string      `json:"nonce,omitempty"`
	Session    *c02Session `json:"session,omitempty"`
	VpToken    bool        `json:"vp_token,omitempty"`
	SubmissionPresent bool `json:"submission,omitempty"`
	Code       *string     `json:"code,omitempty"`
	Verifier   *string     `json:"verifier,omitempty"`
	// authreq
	RedirectURI string `json:"redirect_uri,omitempty"`
	Aud         string `json:"aud,omitempty"`
	ClientState string `json:"client_state,omitempty"`
	Challenge   string `json:"challenge,omitempty"`
	Method      string `json:"method,omitempty"`
	ExtraForm [][2]string `json:"extra_form,omitempty"` // further form parameters of a token request (the handler's request type admits them; over HTTP also unknown and duplicated ones, appended AFTER the regular ones)
	Schedule []int `json:"schedule,omitempty"` // race: the order in which the two overlapping requests take their steps on the nonce entry (the replay IS the schedule)
	Trace    []string `json:"trace,omitempty"`  // race: the store methods that were gated, in schedule order (information)
	Fault string `json:"fault,omitempty"` // "nonce-get": the session store fails the first read of an s2s nonce entry during this request (Redis worlds)
	HTTP bool `json:"http,omitempty"` // the operation goes through the real echo routes (form binding, strict handler, error writers)
	// token endpoint: the grant_type the request is sent with (absent = the flow's own)
	Grant *string `json:"grant_type,omitempty"`
	// authz: a request at the authorization endpoint (request object delivery + scripted environment), see zz_verif_c02jar_test.go
	Enabled    bool           `json:"enabled,omitempty"`
	Q          *c02JarQ       `json:"q,omitempty"`
	Get        []c02Fetch     `json:"get,omitempty"`
	Post       []c02Fetch     `json:"post,omitempty"`
	Tokens     []c02JarToken  `json:"tokens,omitempty"`
	Configs    []c02JarConfig `json:"configs,omitempty"`
	Resolver   []c02KidKey    `json:"resolver,omitempty"`
	JarDefects []string       `json:"jar_defects,omitempty"`
	// reqobj: a fetch of one of the server's own request objects (RequestJWTByGet / RequestJWTByPost), see zz_verif_c02ro_test.go
	ID           string  `json:"id,omitempty"`
	WalletIssuer *string `json:"wallet_issuer,omitempty"`
	WalletNonce  *string `json:"wallet_nonce,omitempty"`
	// polload: the policy directory (policy/local.go), see zz_verif_c02pol_test.go
	Dir     string        `json:"dir,omitempty"`
	Entries []c02PolEntry `json:"entries,omitempty"`
	Probes  []string      `json:"probes,omitempty"`
	// dpopval: a proof of possession at the resource-server endpoint (ValidateDPoPProof), see zz_verif_c02dpop_test.go
	DPV *c02DPoPVal `json:"dpv,omitempty"`
	// introspect / probe / advance
	Token    string `json:"token,omitempty"`
	Extended bool   `json:"extended,omitempty"`
	Store    string `json:"store,omitempty"`
	Key      string `json:"key,omitempty"`
	Ms       int64  `json:"ms,omitempty"`
}

// ---------------------------------------------------------------------------------------------- world

type c02World struct {
	t        *testing.T
	ctrl     *gomock.Controller
	w        *Wrapper
	db       c02Ager
	shiftMs  int64
	verdicts map[string]bool // VP id -> presentation signature verdict
	vcVerdicts map[string]bool // VP id -> verdict on its credentials
	tokNames map[string]string
	tokReal  map[string]string
	codeNames map[string]string
	codeReal  map[string]string
	nonceNames map[string]string
	nonceReal  map[string]string
	stateNames map[string]string
	stateReal  map[string]string
	dpopKeys []*ecdsa.PrivateKey
	dpopJkt  map[string]string // real thumbprint -> jkt#i
	defs     map[int]pe.PresentationDefinition
	policy   []c02Policy
	dir      string
	echo     *echo.Echo
	redis    bool
	sched    *c02Sched
	failNonceGet bool // armed: the next GET of an s2s nonce key fails
	failKeyPart  string // when set: the armed failure also hits a GET of a key containing this (the nonceonce store of ValidateDPoPProof)
	verifyArgsBad bool
	// authz leg
	jarOp        *c02Op
	jarReal      map[string]string // token name -> compact JWT
	jarCalls     []string
	inJar        bool
	authzEnabled bool
	// reqobj leg
	roReal        map[string]string // "ro:<nonce name>" -> real request id
	lastSigned    map[string]interface{}
	lastSignedKid string
}

// c02Ager ages every stored session entry by d (time translation); rewrite may adjust time stamps inside a value
type c02Ager interface {
	Age(d time.Duration, rewrite func(fullKey string, value []byte) []byte)
}

// ---- schedule exploration: two overlapping posts of the same authorization response ------------------------------------
// Only one of the two requests runs at any time; a request parks whenever it is about to call Get / Delete / GetAndDelete on
// the nonce entry it presents, and the controller decides who goes next. One store method call = one atomic step.

type c02SchedEvent struct {
	thread int
	done   bool
	method string
}

type c02Sched struct {
	key     string // full key part: the real nonce
	cur     int
	release [2]chan struct{}
	events  chan c02SchedEvent
}

func (w *c02World) gate(prefix, method, key string) {
	s := w.sched
	if s == nil || prefix != "oauth/nonce" || key != s.key || (method != "Get" && method != "Delete" && method != "GetAndDelete") {
		return
	}
	th := s.cur
	s.events <- c02SchedEvent{thread: th, method: method}
	<-s.release[th]
}

// execRace posts the same response twice, overlapping, under the schedule op.Schedule (a preference list: at step k thread
// Schedule[k] goes if it is parked, else the other one); the schedule actually taken replaces it.
func (w *c02World) execRace(op *c02Op) string {
	if w.redis {
		return "race-needs-in-memory-world"
	}
	body := w.authRespBody(op)
	nonce := ""
	for _, v := range op.VPs {
		if nonce = v.Challenge; nonce == "" {
			nonce = v.Nonce
		}
		break
	}
	if r, ok := w.nonceReal[nonce]; ok {
		nonce = r
	}
	s := &c02Sched{key: nonce, events: make(chan c02SchedEvent)}
	s.release[0], s.release[1] = make(chan struct{}), make(chan struct{})
	w.sched = s
	defer func() { w.sched = nil; w.verifyArgsBad = false }()
	op.T = w.nowNs()
	var results [2]string
	parked := map[int]bool{}
	wait := func() bool {
		select {
		case ev := <-s.events:
			if ev.done {
				delete(parked, ev.thread)
			} else {
				parked[ev.thread] = true
				op.Trace = append(op.Trace, fmt.Sprintf("%c:%s", 'A'+ev.thread, ev.method))
			}
			return true
		case <-time.After(10 * time.Second):
			return false
		}
	}
	op.Trace = nil
	for i := 0; i < 2; i++ {
		i := i
		s.cur = i
		direct := *op
		direct.HTTP = false
		go func() {
			results[i] = w.postAuthResp(&direct, body)
			s.events <- c02SchedEvent{thread: i, done: true}
		}()
		if !wait() {
			return "race-timeout"
		}
	}
	pref := op.Schedule
	var taken []int
	for k := 0; len(parked) > 0; k++ {
		i := 0
		if k < len(pref) {
			i = pref[k] % 2
		}
		if !parked[i] {
			i = 1 - i
		}
		taken = append(taken, i)
		delete(parked, i)
		s.cur = i
		s.release[i] <- struct{}{}
		if !wait() {
			return "race-timeout"
		}
	}
	op.Schedule = taken
	return fmt.Sprintf("race A[%s] B[%s]", results[0], results[1])
}

// c02FaultHook fails exactly one GET of an s2s nonce entry when armed (a transient read failure of the store)
type c02FaultHook struct{ w *c02World }

func (h c02FaultHook) DialHook(next redis.DialHook) redis.DialHook { return next }
func (h c02FaultHook) ProcessPipelineHook(next redis.ProcessPipelineHook) redis.ProcessPipelineHook {
	return next
}
func (h c02FaultHook) ProcessHook(next redis.ProcessHook) redis.ProcessHook {
	return func(ctx context.Context, cmd redis.Cmder) error {
		if h.w.failNonceGet && strings.EqualFold(cmd.Name(), "get") && len(cmd.Args()) > 1 && (strings.Contains(fmt.Sprint(cmd.Args()[1]), "s2s.nonce") || (h.w.failKeyPart != "" && strings.Contains(fmt.Sprint(cmd.Args()[1]), h.w.failKeyPart))) {
			h.w.failNonceGet = false
			err := errors.New("verif: injected read failure (i/o timeout)")
			cmd.SetErr(err)
			return err
		}
		return next(ctx, cmd)
	}
}

// miniredis has no clock of its own: Sync lets it follow the wall clock (called before every operation), Age adds the
// virtual advance - so its notion of time is "real + shift" like everything else, also on a slow, busy machine
type c02RedisAger struct {
	mr   *miniredis.Miniredis
	last *time.Time
}

func (a c02RedisAger) Sync() {
	now := time.Now()
	if el := now.Sub(*a.last); el > 0 {
		a.mr.FastForward(el)
	}
	*a.last = now
}

func (a c02RedisAger) Age(d time.Duration, rewrite func(fullKey string, value []byte) []byte) {
	a.Sync()
	for _, k := range a.mr.Keys() {
		if v, err := a.mr.Get(k); err == nil {
			if nv := rewrite(k, []byte(v)); string(nv) != v {
				ttl := a.mr.TTL(k)
				_ = a.mr.Set(k, string(nv))
				a.mr.SetTTL(k, ttl)
			}
		}
	}
	a.mr.FastForward(d)
}

const c02PublicURL = "https://as.example"

func c02NewWorld(t *testing.T, cfg c02Op) *c02World {
	ctrl := gomock.NewController(t)
	w := &c02World{t: t, ctrl: ctrl, verdicts: map[string]bool{}, vcVerdicts: map[string]bool{}, tokNames: map[string]string{}, tokReal: map[string]string{},
		codeNames: map[string]string{}, codeReal: map[string]string{}, nonceNames: map[string]string{}, nonceReal: map[string]string{}, stateNames: map[string]string{}, stateReal: map[string]string{}, dpopJkt: map[string]string{}, defs: map[int]pe.PresentationDefinition{}}
	var sessionDB storage.SessionDatabase
	if cfg.Backend == "redis" {
		// the OTHER back-end: the real Redis session database (go-redis client) against miniredis, whose clock only moves
		// when told to (FastForward) - the same time translation
		mr := miniredis.RunT(t)
		client := redis.NewClient(&redis.Options{Addr: mr.Addr()})
		client.AddHook(c02FaultHook{w})
		w.redis = true
		sessionDB = storage.NewRedisSessionDatabase(client, "nuts")
		start := time.Now()
		w.db = c02RedisAger{mr, &start}
		t.Cleanup(func() { _ = client.Close() })
	} else {
		// pass-through wrapper that announces every session-store method call: used to force interleavings of two requests
		mem := storage.NewVerifSessionDB()
		sessionDB, w.db = &storage.VerifGatedSessionDB{Inner: mem, Gate: w.gate}, mem
	}
	engine := storage.NewMockEngine(ctrl)
	engine.EXPECT().GetSessionDatabase().Return(sessionDB).AnyTimes()
	authn := auth.NewMockAuthenticationServices(ctrl)
	pub, _ := url.Parse(cfg.PublicURL)
	authn.EXPECT().PublicURL().Return(pub).AnyTimes()
	authn.EXPECT().AuthorizationEndpointEnabled().DoAndReturn(func() bool { return w.authzEnabled }).AnyTimes()
	authn.EXPECT().SupportedDIDMethods().Return([]string{"web"}).AnyTimes()
	sm := didsubject.NewMockManager(ctrl)
	sm.EXPECT().Exists(gomock.Any(), gomock.Any()).DoAndReturn(func(_ context.Context, s string) (bool, error) {
		for _, k := range cfg.Subjects {
			if k == s {
				return true, nil
			}
		}
		return false, nil
	}).AnyTimes()
	ver := verifier.NewMockVerifier(ctrl)
	ver.EXPECT().VerifyVP(gomock.Any(), gomock.Any(), gomock.Any(), gomock.Any()).DoAndReturn(
		func(p vc.VerifiablePresentation, verifyVCs bool, allowUntrusted bool, validAt *time.Time) ([]vc.VerifiableCredential, error) {
			if !verifyVCs || !allowUntrusted || validAt != nil {
				w.verifyArgsBad = true
			}
			id := ""
			if p.ID != nil {
				id = p.ID.String()
			}
			if ok, known := w.verdicts[id]; !known || !ok {
				return nil, errors.New("scripted: verification failed")
			}
			// the credentials are only looked at when the caller asks for it (a revoked credential passes otherwise)
			if verifyVCs && !w.vcVerdicts[id] {
				return nil, errors.New("scripted: credential revoked/expired")
			}
			// the time window of the JSON-LD proof: the real ProofOptions.ValidAt, called the way
			// signatureVerifier.jsonldProof calls it (current time, verifier maxSkew) - on the virtual clock
			// like the real verifier: everything is judged at validAt when the caller passes one, at the current time otherwise
			// (the time stamps inside presentations are on the virtual clock, so a validAt taken from one is too)
			at := time.Now().Add(time.Duration(w.shiftMs) * time.Millisecond)
			if validAt != nil {
				at = *validAt
			}
			if ldProof, err := credential.ParseLDProof(p); err == nil {
				if !ldProof.ValidAt(at, c02VerifierSkew()) {
					return nil, errors.New("presentation not valid at time")
				}
			} else if p.Format() == vc.JWTPresentationProofFormat {
				// JWT presentations: the same window rule applied to nbf/exp. This is wider than what the real verifier
				// accepts for a JWT (nbf <= now <= exp, no skew), i.e. the scripted verifier errs on the permissive side.
				opts := proof.ProofOptions{}
				if created := credential.PresentationIssuanceDate(p); created != nil {
					opts.Created = *created // nbf, or iat when there is no nbf
				}
				if exp := p.JWT().Expiration(); !exp.IsZero() {
					opts.Expires = &exp
				}
				if !opts.ValidAt(at, c02VerifierSkew()) {
					return nil, errors.New("presentation not valid at time")
				}
			}
			return p.VerifiableCredential, nil
		}).AnyTimes()
	mvcr := vcr.NewMockVCR(ctrl)
	mvcr.EXPECT().Verifier().Return(ver).AnyTimes()
	// the real local policy backend, loaded from a generated directory
	w.dir = t.TempDir()
	if err := os.WriteFile(filepath.Join(w.dir, "policy.json"), []byte(cfg.PolicyRaw), 0o600); err != nil {
		t.Fatal(err)
	}
	pdp := policy.New()
	pdp.Config().(*policy.Config).Directory = w.dir
	if err := pdp.Configure(core.ServerConfig{}); err != nil {
		t.Fatalf("policy: %v\n%s", err, cfg.PolicyRaw)
	}
	for i, raw := range cfg.DefsRaw {
		var d pe.PresentationDefinition
		if err := json.Unmarshal([]byte(raw), &d); err != nil {
			t.Fatal(err)
		}
		w.defs[i] = d
	}
	w.policy = cfg.Policy
	// the "next wallet" leg of the authorization-code flow (nextOpenID4VPFlow): the subject's DIDs, the client's OpenID
	// configuration, and the real (unsigned) request-object builder
	sm.EXPECT().ListDIDs(gomock.Any(), gomock.Any()).DoAndReturn(func(_ context.Context, s string) ([]did.DID, error) {
		return []did.DID{did.MustParseDID("did:web:as.example:iam:" + s)}, nil
	}).AnyTimes()
	ic := iamclient.NewMockClient(ctrl)
	ic.EXPECT().RequestObjectByGet(gomock.Any(), gomock.Any()).DoAndReturn(w.jarRequestObjectByGet).AnyTimes()
	ic.EXPECT().RequestObjectByPost(gomock.Any(), gomock.Any(), gomock.Any()).DoAndReturn(w.jarRequestObjectByPost).AnyTimes()
	ic.EXPECT().OpenIDConfiguration(gomock.Any(), gomock.Any()).DoAndReturn(func(_ context.Context, issuer string) (*oauth.OpenIDConfiguration, error) {
		if w.inJar && w.jarOp != nil {
			return w.jarOpenIDConfiguration(issuer)
		}
		return &oauth.OpenIDConfiguration{Issuer: issuer, Metadata: oauth.EntityStatementMetadata{OpenIDProvider: oauth.AuthorizationServerMetadata{
			Issuer: issuer, AuthorizationEndpoint: issuer + "/authorize", ClientIdSchemesSupported: clientIdSchemesSupported}}}, nil
	}).AnyTimes()
	authn.EXPECT().IAMClient().Return(ic).AnyTimes()
	w.w = &Wrapper{auth: authn, subjectManager: sm, vcr: mvcr, storageEngine: engine, policyBackend: pdp,
		jar: c02JarSpy{JAR: jar{auth: authn, keyResolver: c02KeyResolver{w}, jwtSigner: c02JWTSigner{w}}, w: w}}
	// the HTTP face: the node's error handler and the routes exactly as Wrapper.Routes registers them
	w.echo = echo.New()
	w.echo.HTTPErrorHandler = core.CreateHTTPErrorHandler()
	w.w.Routes(w.echo)
	for i := 0; i < 3; i++ {
		k, _ := ecdsa.GenerateKey(elliptic.P256(), crand.Reader)
		w.dpopKeys = append(w.dpopKeys, k)
	}
	return w
}

func c02VerifierSkew() time.Duration {
	if ms, err := strconv.Atoi(os.Getenv("VERIF_C02_SKEW_MS")); err == nil {
		return time.Duration(ms) * time.Millisecond
	}
	return 5 * time.Second
}

// nowMs is the virtual time in ms (generator); nowNs the virtual time in ns (operation time stamps)
func (w *c02World) nowMs() int64 { return time.Now().UnixMilli() + w.shiftMs }
func (w *c02World) nowNs() int64 { return time.Now().UnixNano() + w.shiftMs*1000000 }

func (w *c02World) dpopHeader(d *c02DPoP) (string, *c02DPoP) {
	if d == nil || d.Kind == "absent" {
		return "", &c02DPoP{Kind: "absent"}
	}
	if d.Kind == "invalid" {
		return "not.a.dpop", &c02DPoP{Kind: "invalid"}
	}
	req, _ := http.NewRequest("POST", c02PublicURL+"/oauth2/alpha/token", nil)
	tok := dpop.New(*req)
	kid := fmt.Sprintf("kid-%d", d.Idx)
	s, err := tok.Sign(kid, w.dpopKeys[d.Idx%len(w.dpopKeys)], jwa.ES256)
	if err != nil {
		w.t.Fatal(err)
	}
	parsed, err := dpop.Parse(s)
	if err != nil {
		w.t.Fatal(err)
	}
	tp, _ := parsed.Headers.JWK().Thumbprint(5) // crypto.SHA256
	jkt := fmt.Sprintf("jkt#%d", d.Idx%len(w.dpopKeys))
	w.dpopJkt[base64.RawURLEncoding.EncodeToString(tp)] = jkt
	// the kid the handler reports is whatever dpop.Parse leaves in the Kid member
	return s, &c02DPoP{Kind: "valid", Kid: parsed.Kid, Jkt: jkt, Idx: d.Idx}
}

func (w *c02World) ctx(dpopHeader string, contentType string) context.Context {
	h := http.Header{}
	if dpopHeader != "" {
		h.Set("DPoP", dpopHeader)
	}
	if contentType != "" {
		h.Set("Content-Type", contentType)
	}
	return context.WithValue(context.Background(), httpRequestContextKey{}, &http.Request{Header: h})
}

// ---------------------------------------------------------------------------------------------- canonical errors

var c02ErrTags = [][2]string{
	{"assertion parameter is invalid", "assertion-invalid"},
	{"invalid presentation submission", "submission-invalid"},
	{"invalid presentation_submission", "submission-invalid"},
	{"presentation is missing creation or expiration date", "vp-missing-dates"},
	{"presentation is valid for too long", "vp-valid-too-long"},
	{"not all VCs have the same credentialSubject.id", "vcs-mixed-subjects"},
	{"presentation signer is not credential subject", "signer-not-subject"},
	{"not all presentations have the same credential subject ID", "vps-mixed-subjects"},
	{"unable to get subject DID from VC", "subject-unresolvable"},
	{"invalid verification method for JSON-LD presentation", "signer-unresolvable"},
	{"invalid LD-proof for presentation", "signer-unresolvable"},
	{"presentation should have exactly 1 proof", "signer-unresolvable"},
	{"no kid header in JWT", "signer-unresolvable"},
	{"cannot parse kid as did", "signer-unresolvable"},
	{"presentation audience/domain is missing or does not match", "audience"},
	{"unsupported scope", "unsupported-scope"},
	{"presentation definition being fulfilled is not required", "pd-not-required"},
	{"presentation definition is already fulfilled", "pd-already-fulfilled"},
	{"presentation submission does not conform", "pd-not-conform"},
	{"presentation has invalid/missing nonce", "nonce-missing"},
	{"presentation nonce has already been used", "nonce-reused"},
	{"DPoP header is invalid", "dpop"},
	{"presentation(s) or contained credential(s) are invalid", "vp-invalid"},
	{"missing required parameters", "missing-params"},
	{"duplicate mapped field", "duplicate-claim"},
	{"missing code parameter", "missing-code"},
	{"missing code_verifier parameter", "missing-code_verifier"},
	{"missing client_id parameter", "missing-client_id"},
	{"invalid authorization code", "invalid-code"},
	{"client_id does not match", "client_id-mismatch"},
	{"invalid code_verifier", "invalid-code_verifier"},
	{"missing state", "missing-state"},
	{"missing vp_token", "missing-vp_token"},
	{"invalid vp_token", "invalid-vp_token"},
	{"invalid or expired session", "invalid-session"},
	{"incorrect tenant", "incorrect-tenant"},
	{"invalid or missing nonce/challenge in presentation", "nonce-invalid"},
	{"invalid nonce/state", "nonce-state-mismatch"},
	{"missing presentation_submission", "missing-submission"},
	{"missing redirect_uri parameter", "missing-redirect_uri"},
	{"invalid audience, expected", "invalid-audience"},
	{"missing code_challenge parameter", "missing-code_challenge"},
	{"invalid value for code_challenge_method", "invalid-code_challenge_method"},
}

func c02Err(err error) string {
	var oe oauth.OAuth2Error
	if errors.As(err, &oe) {
		if rest, ok := strings.CutPrefix(oe.Description, "failed to create access token: "); ok {
			// the wrapped error is rendered as "<code> - <description>"
			if code, desc, ok := strings.Cut(rest, " - "); ok {
				inner := c02Err(oauth.OAuth2Error{Code: oauth.ErrorCode(code), Description: desc})
				return "err:" + string(oe.Code) + "/create-access-token:" + strings.TrimPrefix(inner, "err:")
			}
		}
		for _, p := range c02ErrTags {
			if strings.Contains(oe.Description, p[0]) {
				return "err:" + string(oe.Code) + "/" + p[1]
			}
		}
		d := oe.Description
		if len(d) > 60 {
			d = d[:60]
		}
		return "err:" + string(oe.Code) + "/other:" + d
	}
	if errors.Is(err, didsubject.ErrSubjectNotFound) {
		return "err:subject-not-found"
	}
	s := err.Error()
	if strings.HasPrefix(s, "unable to store nonce") {
		return "err:nonce-store-error"
	}
	if strings.Contains(s, "InputDescriptorConstraintIdMap contains reserved claim name: ") {
		return "err:reserved-claim:" + s[strings.LastIndex(s, ": ")+2:]
	}
	if len(s) > 60 {
		s = s[:60]
	}
	return "err:go:" + s
}

func c02Recover(f func() string) (out string) {
	defer func() {
		if r := recover(); r != nil {
			out = fmt.Sprintf("panic:%v", r)
			if len(out) > 120 {
				out = out[:120]
			}
		}
	}()
	return f()
}

// ---------------------------------------------------------------------------------------------- execution

func (w *c02World) tokenResponse(resp HandleTokenRequestResponseObject) string {
	r, ok := resp.(HandleTokenRequest200JSONResponse)
	if !ok {
		return fmt.Sprintf("unexpected-response:%T", resp)
	}
	name, known := w.tokNames[r.AccessToken]
	if !known {
		name = fmt.Sprintf("tok#%d", len(w.tokNames))
		w.tokNames[r.AccessToken] = name
		w.tokReal[name] = r.AccessToken
	}
	kid := "-"
	if r.DPoPKid != nil {
		kid = *r.DPoPKid
	}
	scope, exp := "<nil>", -1
	if r.Scope != nil {
		scope = *r.Scope
	}
	if r.ExpiresIn != nil {
		exp = *r.ExpiresIn
	}
	return fmt.Sprintf("200 token=%s type=%s kid=%s scope=%s expires_in=%d", name, r.TokenType, kid, scope, exp)
}

// issuedAt reads the issue time of a freshly issued token back from the store (virtual ms): it is the value
// time.Now() had inside the handler, i.e. the schedule time of the operation.
func (w *c02World) issuedAt(name string) (int64, bool) {
	var rec AccessToken
	if err := w.w.accessTokenServerStore().Get(w.tokReal[name], &rec); err != nil {
		return 0, false
	}
	return rec.IssuedAt.UnixNano() + w.shiftMs*1000000, true
}

func (w *c02World) pexVerdicts(scope string, assertion, submission *string) []int {
	res := []int{}
	if assertion == nil || submission == nil {
		return res
	}
	env, err := pe.ParseEnvelope([]byte(*assertion))
	if err != nil {
		return res
	}
	sub, err := pe.ParsePresentationSubmission([]byte(*submission))
	if err != nil {
		return res
	}
	for _, p := range w.policy {
		if p.Scope != scope {
			continue
		}
		for _, d := range p.Defs {
			if _, err := sub.Validate(*env, w.defs[d.Key]); err == nil {
				res = append(res, d.Key)
			}
		}
	}
	sort.Ints(res)
	return res
}

func (w *c02World) script(vps []c02VP) {
	for _, v := range vps {
		w.verdicts[v.ID], w.vcVerdicts[v.ID] = v.Verifies, true
		if v.SigOK != nil && v.VCsOK != nil {
			w.verdicts[v.ID], w.vcVerdicts[v.ID] = *v.SigOK, *v.VCsOK
		}
	}
}

// post sends a form to the real routes and returns status and body
func (w *c02World) post(path string, form url.Values, dpopHeader string) (int, []byte) {
	req := httptest.NewRequest(http.MethodPost, path, strings.NewReader(form.Encode()))
	req.Header.Set("Content-Type", "application/x-www-form-urlencoded")
	req.Header.Set("Accept", "application/json")
	if dpopHeader != "" {
		req.Header.Set("DPoP", dpopHeader)
	}
	rec := httptest.NewRecorder()
	w.echo.ServeHTTP(rec, req)
	return rec.Code, rec.Body.Bytes()
}

// httpToken renders the answer of the token endpoint like the direct call does
func (w *c02World) httpToken(status int, body []byte) string {
	if status == http.StatusOK {
		var r HandleTokenRequest200JSONResponse
		if err := json.Unmarshal(body, &r); err != nil {
			return "unparsable-200:" + string(body)
		}
		return w.tokenResponse(r)
	}
	var e struct {
		Error       string `json:"error"`
		Description string `json:"error_description"`
	}
	if err := json.Unmarshal(body, &e); err != nil || e.Error == "" {
		b := string(body)
		if len(b) > 80 {
			b = b[:80]
		}
		return fmt.Sprintf("http-%d:%s", status, b)
	}
	return c02Err(oauth.OAuth2Error{Code: oauth.ErrorCode(e.Error), Description: e.Description})
}

// applyExtra puts the extra form parameters on a token request: on the typed body where the request type has the member and it
// is not set yet (direct call), on the form in any case (HTTP; appended, so a duplicate comes second)
func c02ApplyExtra(op *c02Op, body *HandleTokenRequestFormdataRequestBody, form url.Values) {
	for _, kv := range op.ExtraForm {
		k, v := kv[0], kv[1]
		if form != nil {
			form.Add(k, v)
			continue
		}
		for name, member := range map[string]**string{"scope": &body.Scope, "assertion": &body.Assertion, "presentation_submission": &body.PresentationSubmission,
			"code": &body.Code, "code_verifier": &body.CodeVerifier, "client_id": &body.ClientId} {
			if name == k && *member == nil {
				val := v
				*member = &val
			}
		}
	}
}

func (w *c02World) execS2S(op *c02Op) string {
	w.script(op.VPs)
	if op.Fault == "nonce-get" {
		if !w.redis {
			return "fault-needs-redis-world"
		}
		w.failNonceGet = true
		defer func() { w.failNonceGet = false }()
	}
	hdr, d := w.dpopHeader(op.DPoP)
	op.DPoP = d
	op.Pex = w.pexVerdicts(op.Scope, op.Assertion, op.Submission)
	body := HandleTokenRequestFormdataRequestBody{GrantType: oauth.VpTokenGrantType}
	if op.Grant != nil {
		body.GrantType = *op.Grant
	}
	if op.Params {
		body.Assertion, body.PresentationSubmission, body.ClientId = op.Assertion, op.Submission, op.ClientID
		body.Scope = &op.Scope
	} else {
		// one required parameter missing
		body.Assertion, body.PresentationSubmission, body.ClientId = op.Assertion, op.Submission, nil
		body.Scope = &op.Scope
	}
	op.T = w.nowNs()
	out := c02Recover(func() string {
		if op.HTTP {
			form := url.Values{"grant_type": {body.GrantType}}
			for k, v := range map[string]*string{"assertion": body.Assertion, "presentation_submission": body.PresentationSubmission,
				"scope": body.Scope, "client_id": body.ClientId} {
				if v != nil {
					form.Set(k, *v)
				}
			}
			c02ApplyExtra(op, nil, form)
			return w.httpToken(w.post("/oauth2/"+url.PathEscape(op.Subject)+"/token", form, hdr))
		}
		c02ApplyExtra(op, &body, nil)
		resp, err := w.w.HandleTokenRequest(w.ctx(hdr, ""), HandleTokenRequestRequestObject{SubjectID: op.Subject, Body: &body})
		if err != nil {
			return c02Err(err)
		}
		return w.tokenResponse(resp)
	})
	if strings.HasPrefix(out, "200 token=") {
		name := strings.Fields(out)[1][len("token="):]
		if t, ok := w.issuedAt(name); ok {
			op.T = t
		}
	}
	if w.verifyArgsBad {
		out += " VERIFYVP-ARGS-CHANGED"
	}
	return out
}

func (w *c02World) execIntrospect(op *c02Op) string {
	real := op.Token
	for _, m := range []map[string]string{w.tokReal, w.codeReal, w.nonceReal} {
		if r, ok := m[op.Token]; ok {
			real = r
		}
	}
	op.T = w.nowNs()
	return c02Recover(func() string {
		if op.HTTP {
			path := "/internal/auth/v2/accesstoken/introspect"
			if op.Extended {
				path += "_extended"
			}
			status, body := w.post(path, url.Values{"token": {real}}, "")
			if status == http.StatusOK {
				return "ok " + w.canonIntrospection(body)
			}
			var problem struct {
				Detail string `json:"detail"`
			}
			_ = json.Unmarshal(body, &problem)
			if i := strings.Index(problem.Detail, "InputDescriptorConstraintIdMap contains reserved claim name: "); i >= 0 {
				return "err:reserved-claim:" + problem.Detail[i+len("InputDescriptorConstraintIdMap contains reserved claim name: "):]
			}
			return fmt.Sprintf("http-%d:%s", status, problem.Detail)
		}
		rec := httptest.NewRecorder()
		ctx := w.ctx("", "application/x-www-form-urlencoded")
		if op.Extended {
			resp, err := w.w.IntrospectAccessTokenExtended(ctx, IntrospectAccessTokenExtendedRequestObject{Body: &TokenIntrospectionRequest{Token: real}})
			if err != nil {
				return c02Err(err)
			}
			if err := resp.VisitIntrospectAccessTokenExtendedResponse(rec); err != nil {
				return "err:visit:" + err.Error()
			}
		} else {
			resp, err := w.w.IntrospectAccessToken(ctx, IntrospectAccessTokenRequestObject{Body: &TokenIntrospectionRequest{Token: real}})
			if err != nil {
				return c02Err(err)
			}
			if err := resp.VisitIntrospectAccessTokenResponse(rec); err != nil {
				return "err:visit:" + err.Error()
			}
		}
		return "ok " + w.canonIntrospection(rec.Body.Bytes())
	})
}

// canonIntrospection renders the JSON object as sorted key=value pairs; time stamps are translated to virtual
// time, thumbprints to key indexes, the three large members to digests.
func (w *c02World) canonIntrospection(body []byte) string {
	var obj map[string]json.RawMessage
	if err := json.Unmarshal(body, &obj); err != nil {
		return "unparsable:" + string(body)
	}
	keys := make([]string, 0, len(obj))
	for k := range obj {
		keys = append(keys, k)
	}
	sort.Strings(keys)
	var parts []string
	for _, k := range keys {
		v := strings.TrimSpace(string(obj[k]))
		switch k {
		case "iat", "exp":
			if n, err := strconv.ParseInt(v, 10, 64); err == nil {
				v = strconv.FormatInt(n+w.shiftMs/1000, 10)
			}
		case "cnf":
			for real, name := range w.dpopJkt {
				v = strings.ReplaceAll(v, real, name)
			}
		case "vps":
			var l []json.RawMessage
			if json.Unmarshal(obj[k], &l) == nil && (len(l) == 0 || l[0][0] == '{' || l[0][0] == '"') && c02LooksLikeVPs(l) {
				v = strconv.Itoa(len(l))
			}
		case "presentation_definitions":
			var m map[string]struct {
				Id               *string          `json:"id"`
				InputDescriptors *json.RawMessage `json:"input_descriptors"`
			}
			if json.Unmarshal(obj[k], &m) == nil && c02AllDefs(m) {
				var owners []string
				for o := range m {
					owners = append(owners, o)
				}
				sort.Strings(owners)
				var l []string
				for _, o := range owners {
					l = append(l, o+":"+*m[o].Id)
				}
				v = "{" + strings.Join(l, ",") + "}"
			}
		case "presentation_submissions":
			var m map[string]struct {
				DefinitionId *string `json:"definition_id"`
			}
			if json.Unmarshal(obj[k], &m) == nil && c02AllSubs(m) {
				var ids []string
				for id := range m {
					ids = append(ids, id)
				}
				sort.Strings(ids)
				v = "[" + strings.Join(ids, ",") + "]"
			}
		}
		parts = append(parts, k+"="+v)
	}
	return strings.Join(parts, " ")
}

func c02LooksLikeVPs(l []json.RawMessage) bool {
	for _, e := range l {
		var jwt string
		if json.Unmarshal(e, &jwt) == nil && strings.Count(jwt, ".") == 2 {
			continue // a JWT presentation
		}
		var m map[string]json.RawMessage
		if json.Unmarshal(e, &m) != nil {
			return false
		}
		if _, ok := m["proof"]; !ok {
			return false
		}
	}
	return true
}

func c02AllDefs(m map[string]struct {
	Id               *string          `json:"id"`
	InputDescriptors *json.RawMessage `json:"input_descriptors"`
}) bool {
	for _, d := range m {
		if d.Id == nil || d.InputDescriptors == nil {
			return false
		}
	}
	return true
}

func c02AllSubs(m map[string]struct {
	DefinitionId *string `json:"definition_id"`
}) bool {
	for k, d := range m {
		if d.DefinitionId == nil || *d.DefinitionId != k {
			return false
		}
	}
	return true
}

func (w *c02World) execProbe(op *c02Op) string {
	op.T = w.nowNs()
	var err error
	switch op.Store {
	case "s2snonce":
		err = w.w.s2sNonceStore().Get(op.Key, new(bool))
	case "oauthnonce":
		k := op.Key
		if r, ok := w.nonceReal[k]; ok {
			k = r
		}
		err = w.w.oauthNonceStore().Get(k, new(string))
	case "code":
		err = w.w.oauthCodeStore().Get(w.realCode(op.Key), new(OAuthSession))
	case "state":
		err = w.w.oauthClientStateStore().Get(*w.realState(&op.Key), new(OAuthSession))
	case "token":
		k := op.Key
		if r, ok := w.tokReal[k]; ok {
			k = r
		}
		err = w.w.accessTokenServerStore().Get(k, new(AccessToken))
	default:
		return "bad-store:" + op.Store
	}
	if err == nil {
		return "present"
	}
	if errors.Is(err, storage.ErrNotFound) {
		return "absent"
	}
	return "err:" + err.Error()
}

func (w *c02World) realCode(name string) string {
	for _, m := range []map[string]string{w.codeReal, w.nonceReal, w.tokReal, w.stateReal} {
		if r, ok := m[name]; ok {
			return r
		}
	}
	return name
}

func (w *c02World) execAdvance(op *c02Op) string {
	d := time.Duration(op.Ms) * time.Millisecond
	w.db.Age(d, func(key string, val []byte) []byte {
		if !strings.Contains(key, "serveraccesstoken") {
			return val
		}
		var m map[string]json.RawMessage
		if json.Unmarshal(val, &m) != nil {
			return val
		}
		for _, f := range []string{"issued_at", "expiration"} {
			var ts time.Time
			if json.Unmarshal(m[f], &ts) == nil {
				m[f], _ = json.Marshal(ts.Add(-d))
			}
		}
		out, _ := json.Marshal(m)
		return out
	})
	w.shiftMs += op.Ms
	op.T = w.nowNs()
	return "advanced"
}

func (w *c02World) execSeed(op *c02Op) string {
	s := op.Session
	required := pe.WalletOwnerMapping{}
	for _, d := range s.Required {
		required[pe.WalletOwnerType(d.Owner)] = w.defs[d.Key]
	}
	own := s.OwnSubject
	session := OAuthSession{
		ClientID: s.ClientID, Scope: s.Scope, OwnSubject: &own, ClientState: s.ClientState,
		RedirectURI:       "https://client.example/callback",
		PKCEParams:        PKCEParams{Challenge: s.Challenge, ChallengeMethod: s.Method},
		OpenID4VPVerifier: newPEXConsumer(required),
	}
	op.T = w.nowNs()
	if err := w.w.oauthClientStateStore().Put(*op.State, session); err != nil {
		return "err:" + err.Error()
	}
	if err := w.w.oauthNonceStore().Put(op.Nonce, *op.State); err != nil {
		return "err:" + err.Error()
	}
	return "seeded"
}

func (w *c02World) nonceName(real string) string {
	name, known := w.nonceNames[real]
	if !known {
		name = fmt.Sprintf("on#%d", len(w.nonceNames))
		w.nonceNames[real] = name
		w.nonceReal[name] = real
	}
	return name
}

// execAuthReq runs the real authorization-request handler (after JAR parsing: it takes the parameter map)
func (w *c02World) execAuthReq(op *c02Op) string {
	params := oauthParameters{}
	set := func(k, v string) {
		if v != "" {
			params[k] = v
		}
	}
	set(oauth.RedirectURIParam, op.RedirectURI)
	set("aud", op.Aud)
	if op.ClientID != nil {
		set(oauth.ClientIDParam, *op.ClientID)
	}
	set(oauth.ScopeParam, op.Scope)
	set(oauth.StateParam, op.ClientState)
	set(oauth.CodeChallengeParam, op.Challenge)
	set(oauth.CodeChallengeMethodParam, op.Method)
	set(oauth.ResponseTypeParam, "code")
	op.T = w.nowNs()
	return c02Recover(func() string {
		return w.canonAuthorize(w.w.handleAuthorizeRequestFromHolder(context.Background(), op.Subject, params))
	})
}

func (w *c02World) realState(name *string) *string {
	if name == nil {
		return nil
	}
	if r, ok := w.stateReal[*name]; ok {
		return &r
	}
	return name
}

func (w *c02World) execAuthResp(op *c02Op) string {
	body := w.authRespBody(op)
	op.T = w.nowNs()
	defer func() { w.verifyArgsBad = false }()
	return w.postAuthResp(op, body)
}

// authRespBody scripts the verifier, computes the PEX verdicts and builds the form body of an authorization response
func (w *c02World) authRespBody(op *c02Op) HandleAuthorizeResponseFormdataRequestBody {
	w.script(op.VPs)
	op.Pex = []int{}
	// PEX verdicts of this submission + envelope against every definition of the world (the model looks up the one it needs)
	if op.Assertion != nil && op.Submission != nil {
		env, e1 := pe.ParseEnvelope([]byte(*op.Assertion))
		sub, e2 := pe.ParsePresentationSubmission([]byte(*op.Submission))
		if e1 == nil && e2 == nil {
			for key := 0; key < len(w.defs); key++ {
				if _, err := sub.Validate(*env, w.defs[key]); err == nil {
					op.Pex = append(op.Pex, key)
				}
			}
		}
	}
	body := HandleAuthorizeResponseFormdataRequestBody{State: w.realState(op.State)}
	if op.VpToken && op.Assertion != nil {
		// server-generated nonces are known to the generator by name only
		raw := *op.Assertion
		for name, real := range w.nonceReal {
			raw = strings.ReplaceAll(raw, `"`+name+`"`, `"`+real+`"`)
		}
		body.VpToken = &raw
	}
	if op.SubmissionPresent {
		body.PresentationSubmission = op.Submission
	}
	return body
}

// postAuthResp posts the response to the real handler (directly or over HTTP) and renders the answer
func (w *c02World) postAuthResp(op *c02Op, body HandleAuthorizeResponseFormdataRequestBody) string {
	return c02Recover(func() string {
		var r HandleAuthorizeResponse200JSONResponse
		if op.HTTP {
			form := url.Values{}
			for k, v := range map[string]*string{"state": body.State, "vp_token": body.VpToken, "presentation_submission": body.PresentationSubmission} {
				if v != nil {
					form.Set(k, *v)
				}
			}
			req := httptest.NewRequest(http.MethodPost, "/oauth2/"+url.PathEscape(op.Subject)+"/response", strings.NewReader(form.Encode()))
			req.Header.Set("Content-Type", "application/x-www-form-urlencoded")
			req.Header.Set("Accept", "application/json")
			rec := httptest.NewRecorder()
			w.echo.ServeHTTP(rec, req)
			switch rec.Code {
			case http.StatusOK:
				if err := json.Unmarshal(rec.Body.Bytes(), &r); err != nil {
					return "unparsable-200"
				}
			case http.StatusFound:
				// errors that can be reported to the wallet's callback are redirects carrying error / error_description
				loc, err := url.Parse(rec.Header().Get("Location"))
				if err != nil {
					return "unparsable-location"
				}
				return c02Err(oauth.OAuth2Error{Code: oauth.ErrorCode(loc.Query().Get("error")), Description: loc.Query().Get("error_description")})
			default:
				return w.httpToken(rec.Code, rec.Body.Bytes())
			}
		} else {
			resp, err := w.w.HandleAuthorizeResponse(context.Background(), HandleAuthorizeResponseRequestObject{SubjectID: op.Subject, Body: &body})
			if err != nil {
				return c02Err(err)
			}
			var ok bool
			if r, ok = resp.(HandleAuthorizeResponse200JSONResponse); !ok {
				return fmt.Sprintf("unexpected-response:%T", resp)
			}
		}
		u, err := url.Parse(r.RedirectURI)
		if err != nil {
			return "unparsable-redirect"
		}
		if code := u.Query().Get("code"); code != "" {
			name, known := w.codeNames[code]
			if !known {
				name = fmt.Sprintf("code#%d", len(w.codeNames))
				w.codeNames[code] = name
				w.codeReal[name] = code
			}
			return fmt.Sprintf("200 code=%s state=%s", name, u.Query().Get("state"))
		}
		// another wallet has to present first: the redirect carries the fresh nonce and the definition to fulfil
		owner := "?"
		if pd, err := url.Parse(u.Query().Get("presentation_definition_uri")); err == nil {
			owner = pd.Query().Get("wallet_owner_type")
		}
		w.noteRequestURI(u)
		return fmt.Sprintf("200 next=%s nonce=%s", owner, w.nonceName(u.Query().Get("nonce")))
	})
}

func (w *c02World) execCode(op *c02Op) string {
	hdr, d := w.dpopHeader(op.DPoP)
	op.DPoP = d
	body := HandleTokenRequestFormdataRequestBody{GrantType: oauth.AuthorizationCodeGrantType, CodeVerifier: op.Verifier, ClientId: op.ClientID}
	if op.Grant != nil {
		body.GrantType = *op.Grant
	}
	if op.Code != nil {
		c := w.realCode(*op.Code)
		body.Code = &c
	}
	op.T = w.nowNs()
	out := c02Recover(func() string {
		if op.HTTP {
			form := url.Values{"grant_type": {body.GrantType}}
			for k, v := range map[string]*string{"code": body.Code, "code_verifier": body.CodeVerifier, "client_id": body.ClientId} {
				if v != nil {
					form.Set(k, *v)
				}
			}
			c02ApplyExtra(op, nil, form)
			return w.httpToken(w.post("/oauth2/"+url.PathEscape(op.Subject)+"/token", form, hdr))
		}
		c02ApplyExtra(op, &body, nil)
		resp, err := w.w.HandleTokenRequest(w.ctx(hdr, ""), HandleTokenRequestRequestObject{SubjectID: op.Subject, Body: &body})
		if err != nil {
			return c02Err(err)
		}
		return w.tokenResponse(resp)
	})
	if strings.HasPrefix(out, "200 token=") {
		name := strings.Fields(out)[1][len("token="):]
		if t, ok := w.issuedAt(name); ok {
			op.T = t
		}
	}
	return out
}

func (w *c02World) exec(op *c02Op) string {
	if ra, ok := w.db.(c02RedisAger); ok {
		ra.Sync()
	}
	switch op.Op {
	case "s2s":
		return w.execS2S(op)
	case "introspect":
		return w.execIntrospect(op)
	case "probe":
		return w.execProbe(op)
	case "advance":
		return w.execAdvance(op)
	case "seed":
		return w.execSeed(op)
	case "authresp":
		return w.execAuthResp(op)
	case "authreq":
		return w.execAuthReq(op)
	case "race":
		return w.execRace(op)
	case "code":
		return w.execCode(op)
	case "authz":
		return w.execAuthz(op)
	case "polload":
		return w.execPolLoad(op)
	case "reqobj":
		return w.execReqObj(op)
	case "dpopval":
		return w.execDPoPVal(op)
	case "tokskew":
		return w.execTokSkew(op)
	case "onceonly":
		return w.execOnceOnly(op)
	}
	return "bad-op:" + op.Op
}

// ---------------------------------------------------------------------------------------------- generator

type c02FieldSpec struct {
	ID   string // "" = no id (not a claim)
	Name string // credentialSubject member
}

type c02Descriptor struct {
	ID     string
	Type   string
	Fields []c02FieldSpec
}

type c02DefSpec struct {
	Key         int
	ID          string
	Descriptors []c02Descriptor
}

func (d c02DefSpec) json() string {
	var ds []string
	for _, in := range d.Descriptors {
		fields := []string{fmt.Sprintf(`{"path":["$.type"],"filter":{"type":"string","const":%q}}`, in.Type)}
		for _, f := range in.Fields {
			if f.ID != "" {
				fields = append(fields, fmt.Sprintf(`{"id":%q,"path":["$.credentialSubject.%s"]}`, f.ID, f.Name))
			} else {
				fields = append(fields, fmt.Sprintf(`{"path":["$.credentialSubject.%s"]}`, f.Name))
			}
		}
		ds = append(ds, fmt.Sprintf(`{"id":%q,"constraints":{"fields":[%s]}}`, in.ID, strings.Join(fields, ",")))
	}
	return fmt.Sprintf(`{"id":%q,"input_descriptors":[%s]}`, d.ID, strings.Join(ds, ","))
}

type c02Gen struct {
	ros      []*c02GenRO // the request objects the legs of this world announced
	rng      *rand.Rand
	defs     []c02DefSpec
	policy   []c02Policy
	subjects []string
	seq      int
	vpSeq    int
	nonceSeq int
	usedNonces []string
	issued   []string // token names issued so far in this world
	dpv      c02DPVGen
	accepted []c02Op  // requests that were answered 200 (for verbatim replays)
	lastVPs  []c02VPSpec
	baseMs   int64
	sessions []*c02GenSession
	codes    []c02GenCode
	forceDomain  *string // audience of the main presentation, when set (targeted audience scenarios)
	forceFormat  *int    // 0 JSON-LD, 1 JWT (aud string), 2 JWT (aud array), when set
	forceSubject *string
	forceCreated *int64 // offset of `created` relative to now, when set
	forceExpires *int64 // validity, when set
}

var c02ClaimNames = []string{"org_name", "org_city", "role", "level", "cnf", "aud", "iss", "client_id", "scope", "exp", "iat", "active", "sub",
	"vps", "presentation_definitions", "presentation_submissions", "jti", "nbf"}

// h1 is a textual prefix of h12 (a DID comparison weakened to a prefix match must not go unnoticed)
var c02Holders = []string{"did:web:holder.example:h1", "did:web:holder.example:h12", "did:web:holder.example:h2", "did:web:holder.example:h3"}

func (g *c02Gen) pick(l []string) string { return l[g.rng.Intn(len(l))] }

func (g *c02Gen) value() interface{} {
	switch g.rng.Intn(6) {
	case 0:
		return g.rng.Intn(1000)
	case 1:
		return g.rng.Intn(2) == 0
	case 2:
		return map[string]interface{}{"jkt": "ATTACKER"}
	case 3:
		return []interface{}{"a", g.rng.Intn(9)}
	default:
		return fmt.Sprintf("v%d", g.rng.Intn(100))
	}
}

// newConfig generates definitions + policy: scopes s0..s2 with an organization definition, sometimes also a user definition
func (g *c02Gen) newConfig(hostile bool) c02Op {
	g.defs = nil
	g.policy = nil
	nDefs := 3 + g.rng.Intn(3)
	for k := 0; k < nDefs; k++ {
		d := c02DefSpec{Key: k, ID: fmt.Sprintf("pd%d", k)}
		nDesc := 1 + g.rng.Intn(2)
		usedIDs := map[string]bool{}
		for j := 0; j < nDesc; j++ {
			in := c02Descriptor{ID: fmt.Sprintf("d%d_%d", k, j), Type: fmt.Sprintf("Cred%d_%d", k, j)}
			for f := 0; f < g.rng.Intn(3); f++ {
				var id string
				if hostile || g.rng.Intn(4) == 0 {
					id = g.pick(c02ClaimNames)
				} else {
					id = g.pick(c02ClaimNames[:4])
				}
				if usedIDs[id] {
					continue
				}
				usedIDs[id] = true
				in.Fields = append(in.Fields, c02FieldSpec{ID: id, Name: "f_" + id})
			}
			if g.rng.Intn(3) == 0 {
				in.Fields = append(in.Fields, c02FieldSpec{Name: "plain"})
			}
			d.Descriptors = append(d.Descriptors, in)
		}
		g.defs = append(g.defs, d)
	}
	// user definitions sometimes map a claim name that an organization definition maps too: when both are fulfilled
	// (authorization-code flow) resolveInputDescriptorValues refuses the duplicate
	for k := 3; k < len(g.defs); k++ {
		src := g.defs[g.rng.Intn(3)]
		if g.rng.Intn(3) == 0 && len(src.Descriptors[0].Fields) > 0 && src.Descriptors[0].Fields[0].ID != "" {
			f := src.Descriptors[0].Fields[0]
			dup := false
			for _, in := range g.defs[k].Descriptors {
				for _, x := range in.Fields {
					if x.ID == f.ID {
						dup = true
					}
				}
			}
			if !dup {
				g.defs[k].Descriptors[0].Fields = append(g.defs[k].Descriptors[0].Fields, f)
			}
		}
	}
	policyMap := map[string]map[string]json.RawMessage{}
	for s := 0; s < 3; s++ {
		scope := fmt.Sprintf("s%d", s)
		org := g.defs[s%len(g.defs)]
		p := c02Policy{Scope: scope, Defs: []c02Def{{Owner: "organization", ID: org.ID, Key: org.Key}}}
		policyMap[scope] = map[string]json.RawMessage{"organization": json.RawMessage(org.json())}
		if g.rng.Intn(4) == 0 && len(g.defs) > 3 {
			u := g.defs[3+g.rng.Intn(len(g.defs)-3)]
			p.Defs = append(p.Defs, c02Def{Owner: "user", ID: u.ID, Key: u.Key})
			policyMap[scope]["user"] = json.RawMessage(u.json())
		}
		g.policy = append(g.policy, p)
	}
	raw, _ := json.Marshal(policyMap)
	op := c02Op{Op: "cfg", PublicURL: c02PublicURL, Subjects: g.subjects, Policy: g.policy, PolicyRaw: string(raw)}
	for _, d := range g.defs {
		op.DefsRaw = append(op.DefsRaw, d.json())
	}
	return op
}

type c02CredSpec struct {
	Type    string
	Subject *string
	Fields  map[string]interface{}
}

type c02VPSpec struct {
	ID        string
	Created   *int64
	Expires   *int64
	Signer    *string
	Creds     []c02CredSpec
	Domain    *string
	Nonce     *string
	Challenge *string
	Verifies  bool
	VCRevoked bool     // a contained credential is revoked/expired: VerifyVP fails iff it is asked to verify the credentials
	NoProof   bool
	JWT       bool     // JWT presentation (unsigned compact JWS; the verifier is scripted): times are whole seconds
	AudExtra  bool     // JWT: aud is an array with a second, foreign audience
	JWTIat    bool     // JWT: the creation time is carried by iat instead of nbf
}

func c02Time(ms int64) string { return time.UnixMilli(ms).UTC().Format("2006-01-02T15:04:05.000Z") }

// element renders the presentation as an element of a JSON array envelope (a JWT is a JSON string there)
func (v c02VPSpec) element() string {
	if v.JWT && !v.NoProof {
		b, _ := json.Marshal(v.json())
		return string(b)
	}
	return v.json()
}

func (v c02VPSpec) jwt(creds []string) string {
	hdr := map[string]interface{}{"alg": "ES256", "typ": "JWT"}
	if v.Signer != nil {
		hdr["kid"] = *v.Signer + "#key-1"
	} else {
		hdr["kid"] = "not-a-did"
	}
	claims := map[string]interface{}{"jti": v.ID,
		"vp": json.RawMessage(fmt.Sprintf(`{"@context":["https://www.w3.org/2018/credentials/v1"],"type":["VerifiablePresentation"],"verifiableCredential":[%s]}`, strings.Join(creds, ",")))}
	if v.Signer != nil {
		claims["iss"], claims["sub"] = *v.Signer, *v.Signer
	}
	if v.Created != nil {
		if v.JWTIat {
			claims["iat"] = *v.Created / 1000
		} else {
			claims["nbf"] = *v.Created / 1000
		}
	}
	if v.Expires != nil {
		claims["exp"] = *v.Expires / 1000
	}
	if v.Domain != nil {
		if v.AudExtra {
			claims["aud"] = []string{"https://other.example", *v.Domain}
		} else {
			claims["aud"] = *v.Domain
		}
	}
	if v.Nonce != nil {
		claims["nonce"] = *v.Nonce
	} else if v.Challenge != nil {
		claims["nonce"] = *v.Challenge
	}
	h, _ := json.Marshal(hdr)
	c, _ := json.Marshal(claims)
	enc := base64.RawURLEncoding.EncodeToString
	return enc(h) + "." + enc(c) + "." + enc([]byte("scripted-verifier-no-signature"))
}

func (v c02VPSpec) json() string {
	var creds []string
	for i, c := range v.Creds {
		sub := map[string]interface{}{}
		for k, val := range c.Fields {
			sub[k] = val
		}
		if c.Subject != nil {
			sub["id"] = *c.Subject
		}
		sj, _ := json.Marshal(sub)
		creds = append(creds, fmt.Sprintf(`{"@context":["https://www.w3.org/2018/credentials/v1"],"id":"did:web:issuer.example#%s-%d","type":["VerifiableCredential",%q],"issuer":"did:web:issuer.example","issuanceDate":"2024-01-01T00:00:00Z","credentialSubject":%s}`,
			v.ID, i, c.Type, sj))
	}
	if v.JWT && !v.NoProof {
		return v.jwt(creds)
	}
	proof := ""
	if !v.NoProof {
		p := map[string]interface{}{"type": "JsonWebSignature2020", "proofPurpose": "assertionMethod", "jws": "e30..c2ln"}
		if v.Signer != nil {
			p["verificationMethod"] = *v.Signer + "#key-1"
		} else {
			p["verificationMethod"] = "not-a-did"
		}
		if v.Created != nil {
			p["created"] = c02Time(*v.Created)
		}
		if v.Expires != nil {
			p["expires"] = c02Time(*v.Expires)
		}
		if v.Domain != nil {
			p["domain"] = *v.Domain
		}
		if v.Nonce != nil {
			p["nonce"] = *v.Nonce
		}
		if v.Challenge != nil {
			p["challenge"] = *v.Challenge
		}
		pj, _ := json.Marshal(p)
		proof = `,"proof":` + string(pj)
	}
	return fmt.Sprintf(`{"@context":["https://www.w3.org/2018/credentials/v1"],"id":%q,"type":"VerifiablePresentation","verifiableCredential":[%s]%s}`,
		v.ID, strings.Join(creds, ","), proof)
}

// abstract gives the model's view of the presentation - by construction, not by asking the code under test
func (v c02VPSpec) abstract() c02VP {
	a := c02VP{ID: v.ID, Verifies: v.Verifies && !v.VCRevoked, SigOK: c02Ptr(v.Verifies), VCsOK: c02Ptr(!v.VCRevoked), Aud: []string{}}
	if v.NoProof {
		// no proof: no dates, no signer, nothing
		for range v.Creds {
			a.Subjects = append(a.Subjects, nil)
		}
		return a
	}
	// JSON-LD time stamps are parsed with millisecond precision as written; JWT NumericDates are whole seconds
	if v.Created != nil {
		a.Created = c02Ptr(*v.Created * 1000000)
	}
	if v.Expires != nil {
		a.Expires = c02Ptr(*v.Expires * 1000000)
	}
	if v.JWT {
		a.JWT = true
		if v.Created != nil {
			a.Created = c02Ptr(*v.Created / 1000 * 1000000000)
		}
		if v.Expires != nil {
			a.Expires = c02Ptr(*v.Expires / 1000 * 1000000000)
		}
	}
	a.Signer = v.Signer
	for _, c := range v.Creds {
		a.Subjects = append(a.Subjects, c.Subject)
	}
	if v.Domain != nil {
		a.Aud = []string{*v.Domain}
		if v.JWT && v.AudExtra {
			a.Aud = []string{"https://other.example", *v.Domain}
		}
	}
	if v.Nonce != nil {
		a.Nonce = *v.Nonce
	}
	if v.Challenge != nil {
		a.Challenge = *v.Challenge
	}
	if v.JWT {
		// one claim serves as nonce and as challenge
		if v.Nonce == nil && v.Challenge != nil {
			a.Nonce = *v.Challenge
		}
		a.Challenge = ""
	}
	return a
}

func c02Ptr[T any](v T) *T { return &v }

// baseline builds a request that satisfies every check for (subject, scope, the scope's definition `d`)
func (g *c02Gen) baselineVP(subject string, d c02DefSpec, holder string, now int64) c02VPSpec {
	g.vpSeq++
	g.nonceSeq++
	// creation time relative to the server clock: mostly now, sometimes in the past, sometimes post-dated within
	// (or just beyond) the verifier's skew
	created := now
	switch g.rng.Intn(10) {
	case 0:
		created = now - 3000
	case 1:
		created = now + 2500
	case 2:
		created = now + 4800
	case 3:
		if g.rng.Intn(3) == 0 {
			created = now + 5300 // beyond the skew: not yet valid
		}
	case 4:
		// post-dated: seconds ... days ahead of the server clock (not valid now, whatever it will be then)
		if g.rng.Intn(2) == 0 {
			created = now + []int64{6000, 10000, 60000, 3600000, 86400000, 7 * 86400000}[g.rng.Intn(6)]
		}
	}
	validity := int64(g.rng.Intn(3)) * 2500 // 0, 2.5 or exactly 5 s
	if g.forceCreated != nil {
		created = now + *g.forceCreated
	}
	if g.forceExpires != nil {
		validity = *g.forceExpires
	}
	vp := c02VPSpec{ID: fmt.Sprintf("%s#vp%d", holder, g.vpSeq), Signer: &holder, Verifies: true,
		Created: c02Ptr(created), Expires: c02Ptr(created + validity),
		Domain: c02Ptr(c02PublicURL + "/oauth2/" + subject), Nonce: c02Ptr(fmt.Sprintf("n%d", g.nonceSeq))}
	if g.rng.Intn(4) == 0 {
		vp.JWT, vp.AudExtra, vp.JWTIat = true, g.rng.Intn(2) == 0, g.rng.Intn(3) == 0
	}
	if g.forceFormat != nil {
		vp.JWT, vp.AudExtra = *g.forceFormat > 0, *g.forceFormat == 2
	}
	for _, in := range d.Descriptors {
		c := c02CredSpec{Type: in.Type, Subject: &holder, Fields: map[string]interface{}{}}
		for _, f := range in.Fields {
			c.Fields[f.Name] = g.value()
		}
		vp.Creds = append(vp.Creds, c)
	}
	return vp
}

func c02Submission(d c02DefSpec, vpIndex int, multi bool, credOffset int) string {
	var maps []string
	for j, in := range d.Descriptors {
		path := fmt.Sprintf("$.verifiableCredential[%d]", j+credOffset)
		if multi {
			path = fmt.Sprintf("$[%d].verifiableCredential[%d]", vpIndex, j+credOffset)
		}
		maps = append(maps, fmt.Sprintf(`{"id":%q,"path":%q,"format":"ldp_vc"}`, in.ID, path))
	}
	return fmt.Sprintf(`{"id":"sub-1","definition_id":%q,"descriptor_map":[%s]}`, d.ID, strings.Join(maps, ","))
}

// expectedClaims: for every definition of the scope's mapping, the constraint-id map its fulfilment yields for
// these presentations (by construction: descriptor type const -> first credential of that type)
func (g *c02Gen) expectedClaims(defs []c02Def, vps []c02VPSpec) []c02ClaimSet {
	var res []c02ClaimSet
	for _, ref := range defs {
		d := g.defs[ref.Key]
		cs := c02ClaimSet{Key: d.Key, Claims: [][2]string{}}
		for _, in := range d.Descriptors {
			var cred *c02CredSpec
			for vi := range vps {
				for ci := range vps[vi].Creds {
					if vps[vi].Creds[ci].Type == in.Type && cred == nil {
						cred = &vps[vi].Creds[ci]
					}
				}
			}
			if cred == nil {
				continue
			}
			for _, f := range in.Fields {
				if f.ID == "" {
					continue
				}
				if val, ok := cred.Fields[f.Name]; ok {
					raw, _ := json.Marshal(val)
					cs.Claims = append(cs.Claims, [2]string{f.ID, string(raw)})
				}
			}
		}
		sort.Slice(cs.Claims, func(i, j int) bool { return cs.Claims[i][0] < cs.Claims[j][0] })
		res = append(res, cs)
	}
	return res
}

type c02GenSession struct {
	State    string
	Spec     c02Session
	Verifier string
	Nonces   []string // nonces mapped to this state (seeded one first, then server-generated names)
	Used     bool     // an authorization response has been posted for the newest nonce
	Scope    string
}

type c02GenCode struct {
	Name    string
	Session *c02GenSession
	Used    bool
}

func c02S256(verifier string) string {
	h := sha256.Sum256([]byte(verifier))
	return base64.RawURLEncoding.EncodeToString(h[:])
}

var c02AuthDefects = []string{"missing-state", "unknown-state", "missing-vp_token", "garbage-assertion", "other-tenant", "wrong-challenge",
	"foreign-challenge", "missing-challenge", "two-challenges", "signer-not-subject", "mixed-subjects", "mixed-vps", "wrong-audience",
	"verify-fails", "unfulfilled", "foreign-definition", "forged-submission", "missing-submission", "garbage-submission", "stale",
	"empty-envelope", "empty-vp-between", "revoked-credential"}

var c02CodeDefects = []string{"missing-code", "bogus-code", "missing-verifier", "wrong-verifier", "missing-client_id", "wrong-client_id",
	"unknown-subject", "bad-dpop"}

func (g *c02Gen) seed() c02Op {
	g.seq++
	pol := g.policy[g.rng.Intn(len(g.policy))]
	sess := &c02GenSession{State: fmt.Sprintf("st%d", g.seq), Verifier: fmt.Sprintf("verifier-%d-%d", g.seq, g.rng.Intn(1000)), Scope: pol.Scope}
	sess.Spec = c02Session{ClientID: "https://client.example/oauth2/" + g.pick([]string{"c1", "c2"}), Scope: pol.Scope,
		OwnSubject: g.pick(g.subjects), Challenge: c02S256(sess.Verifier), Method: "S256", ClientState: fmt.Sprintf("cs%d", g.seq), Required: pol.Defs}
	switch g.rng.Intn(12) {
	case 0:
		sess.Spec.Method = "plain" // not supported by validatePKCEParams
		sess.Spec.Challenge = sess.Verifier
	case 1:
		sess.Spec.Method = ""
	}
	nonce := fmt.Sprintf("sn%d", g.seq)
	sess.Nonces = []string{nonce}
	g.sessions = append(g.sessions, sess)
	return c02Op{Op: "seed", State: &sess.State, Nonce: nonce, Session: &sess.Spec}
}

var c02GrantTypes = []string{"authorization_code", "vp_token-bearer", "urn:ietf:params:oauth:grant-type:pre-authorized_code", "refresh_token", "",
	"Authorization_Code", "VP_TOKEN-BEARER", "vp_token-bearer ", "vp_token", "authorization_code,vp_token-bearer", "urn:ietf:params:oauth:grant-type:jwt-bearer", "client_credentials"}

var c02AuthReqDefects = []string{"missing-redirect_uri", "wrong-audience", "missing-challenge", "method-plain", "method-missing", "wrong-scope"}

// authRequest builds an authorization request (the parameters a parsed request object carries) from a valid one plus defects
func (g *c02Gen) authRequest(defects []string) (c02Op, *c02GenSession) {
	has := func(x string) bool {
		for _, y := range defects {
			if x == y {
				return true
			}
		}
		return false
	}
	g.seq++
	pol := g.policy[g.rng.Intn(len(g.policy))]
	subject := g.pick(g.subjects)
	sess := &c02GenSession{Verifier: fmt.Sprintf("verifier-%d-%d", g.seq, g.rng.Intn(1000)), Scope: pol.Scope}
	client := "https://client.example/oauth2/" + g.pick([]string{"c1", "c2"})
	sess.Spec = c02Session{ClientID: client, Scope: pol.Scope, OwnSubject: subject, Challenge: c02S256(sess.Verifier), Method: "S256",
		ClientState: fmt.Sprintf("cs%d", g.seq), Required: pol.Defs}
	op := c02Op{Op: "authreq", Subject: subject, RedirectURI: "https://client.example/callback", Aud: c02PublicURL + "/oauth2/" + subject,
		ClientID: &client, Scope: pol.Scope, ClientState: sess.Spec.ClientState, Challenge: sess.Spec.Challenge, Method: "S256", Defects: defects}
	if has("missing-redirect_uri") {
		op.RedirectURI = ""
	}
	if has("wrong-audience") {
		op.Aud = g.wrongAudience(subject)
	}
	if has("missing-challenge") {
		op.Challenge = ""
	}
	if has("method-plain") {
		op.Method = g.pick([]string{"plain", "s256", "S256 ", "S25"})
	}
	if has("method-missing") {
		op.Method = ""
	}
	if has("wrong-scope") {
		op.Scope = g.pick([]string{"nope", g.nearMiss(pol.Scope)})
		for _, p := range g.policy {
			if p.Scope == op.Scope {
				op.Scope = "nope"
			}
		}
	}
	return op, sess
}

// authResponse builds a direct_post authorization response for a session from a valid one plus defects
func (g *c02Gen) authResponse(sess *c02GenSession, defects []string, now int64) c02Op {
	has := func(x string) bool {
		for _, y := range defects {
			if x == y {
				return true
			}
		}
		return false
	}
	subject := sess.Spec.OwnSubject
	target := sess.Spec.Required[g.rng.Intn(len(sess.Spec.Required))]
	d := g.defs[target.Key]
	holder := g.pick(c02Holders)
	other := g.otherHolder(holder)
	nonce := sess.Nonces[len(sess.Nonces)-1]
	if g.rng.Intn(6) == 0 {
		nonce = sess.Nonces[g.rng.Intn(len(sess.Nonces))] // possibly a burned one
	}
	mk := func(def c02DefSpec, h string) c02VPSpec {
		vp := g.baselineVP(subject, def, h, now)
		// this flow has no maximum validity: also long-lived presentations
		if g.rng.Intn(3) == 0 {
			vp.Expires = c02Ptr(*vp.Created + 3600000)
		}
		if g.rng.Intn(2) == 0 {
			vp.Challenge, vp.Nonce = &nonce, nil
		} else {
			vp.Nonce = &nonce
		}
		if strings.HasPrefix(nonce, "on#") {
			// a server-generated nonce is known by name only and substituted textually at execution time:
			// not possible inside the base64 payload of a JWT
			vp.JWT = false
		}
		return vp
	}
	vps := []c02VPSpec{mk(d, holder)}
	if g.rng.Intn(6) == 0 {
		vps = append(vps, mk(c02DefSpec{}, holder))
	}
	m := &vps[0]
	expectPex := true
	if has("other-tenant") {
		for _, s := range g.subjects {
			if s != sess.Spec.OwnSubject {
				subject = s
			}
		}
	}
	if has("wrong-challenge") {
		x := "nonce-nobody-issued"
		m.Challenge, m.Nonce = &x, nil
	}
	if has("foreign-challenge") {
		for _, o := range g.sessions {
			if o != sess {
				x := o.Nonces[len(o.Nonces)-1]
				m.Challenge, m.Nonce = &x, nil
			}
		}
	}
	if has("missing-challenge") {
		m.Challenge, m.Nonce = nil, nil
	}
	if has("two-challenges") {
		x := "another-nonce"
		extra := mk(c02DefSpec{}, holder)
		extra.Challenge, extra.Nonce = &x, nil
		vps = append(vps, extra)
		m = &vps[0]
	}
	if has("signer-not-subject") {
		m.Signer = &other
	}
	if has("mixed-subjects") && len(m.Creds) > 0 {
		m.Creds = append(m.Creds, c02CredSpec{Type: "ExtraCred", Subject: &other, Fields: map[string]interface{}{}})
	}
	if has("mixed-vps") || has("empty-vp-between") {
		if has("empty-vp-between") {
			vps = append(vps, mk(c02DefSpec{}, other))
		}
		vps = append(vps, mk(c02DefSpec{Descriptors: []c02Descriptor{{ID: "x", Type: "OtherCred"}}}, other))
		m = &vps[0]
	}
	if has("wrong-audience") {
		m.Domain = c02Ptr(g.wrongAudience(subject))
	}
	if has("verify-fails") {
		vps[g.rng.Intn(len(vps))].Verifies = false
	}
	if has("revoked-credential") {
		vps[g.rng.Intn(len(vps))].VCRevoked = true
	}
	if has("stale") {
		m.Created, m.Expires = c02Ptr(now-60000), c02Ptr(now-30000)
	}
	if has("unfulfilled") && len(m.Creds) > 0 {
		m.Creds[0].Type = "WrongType"
		expectPex = false
	}
	if g.forceDomain != nil {
		m.Domain = g.forceDomain
	}
	for i := range vps {
		// server-generated nonces (known by name only) cannot be substituted inside a JWT
		for _, n := range []*string{vps[i].Nonce, vps[i].Challenge} {
			if n != nil && strings.HasPrefix(*n, "on#") {
				vps[i].JWT = false
			}
		}
	}
	multi := len(vps) > 1
	sub := c02Submission(d, 0, multi, 0)
	if has("forged-submission") && len(d.Descriptors) > 0 {
		sub = c02Submission(d, 0, multi, 7)
		expectPex = false
	}
	defID := d.ID
	if has("foreign-definition") {
		foreign := "pd-unknown"
		inSess := map[string]bool{}
		for _, x := range sess.Spec.Required {
			inSess[x.ID] = true
		}
		for _, x := range g.defs {
			if !inSess[x.ID] {
				foreign = x.ID
			}
		}
		sub = strings.Replace(sub, fmt.Sprintf(`"definition_id":%q`, d.ID), fmt.Sprintf(`"definition_id":%q`, foreign), 1)
		defID = foreign
	}
	var env string
	if multi {
		var l []string
		for _, v := range vps {
			l = append(l, v.element())
		}
		env = "[" + strings.Join(l, ",") + "]"
	} else {
		env = vps[0].json()
	}
	op := c02Op{Op: "authresp", Subject: subject, State: &sess.State, VpToken: true, EnvelopeOK: true, SubmissionPresent: true, SubmissionOK: true,
		DefID: defID, Defects: defects}
	if has("missing-state") {
		op.State = nil
	}
	if has("unknown-state") {
		op.State = c02Ptr("state-nobody-issued")
	}
	if has("missing-vp_token") {
		op.VpToken = false
	}
	if has("garbage-assertion") {
		env = `{"not":"a presentation"`
		op.EnvelopeOK = false
		vps = nil
	}
	if has("empty-envelope") {
		env = `[]`
		vps = nil
	}
	if has("missing-submission") {
		op.SubmissionPresent = false
	}
	if has("garbage-submission") {
		sub = `{"descriptor_map": 5}`
		op.SubmissionOK = false
	}
	for _, v := range vps {
		op.VPs = append(op.VPs, v.abstract())
	}
	if op.VPs == nil {
		op.VPs = []c02VP{}
	}
	op.Assertion, op.Submission = &env, &sub
	op.Claims = g.expectedClaims(sess.Spec.Required, vps)
	pexKnown := !has("mixed-subjects") && !has("garbage-assertion") && !has("garbage-submission") && !has("foreign-definition") &&
		!has("signer-not-subject") && !has("empty-envelope") && !has("missing-state") && !has("unknown-state")
	if pexKnown {
		op.PexExpected = &expectPex
	}
	return op
}

func (g *c02Gen) codeRequest(defects []string) c02Op {
	has := func(x string) bool {
		for _, y := range defects {
			if x == y {
				return true
			}
		}
		return false
	}
	op := c02Op{Op: "code", Subject: g.pick(g.subjects), Defects: defects, DPoP: &c02DPoP{Kind: "absent"}}
	if g.rng.Intn(2) == 0 {
		op.DPoP = &c02DPoP{Kind: "valid", Idx: g.rng.Intn(3)}
	}
	verifier, client, code := "no-verifier", "https://client.example/oauth2/c1", "bogus-code"
	if len(g.codes) > 0 {
		c := &g.codes[g.rng.Intn(len(g.codes))]
		if g.rng.Intn(4) > 0 {
			for i := range g.codes {
				if !g.codes[i].Used {
					c = &g.codes[i]
				}
			}
		}
		c.Used = true
		verifier, client, code = c.Session.Verifier, c.Session.Spec.ClientID, c.Name
	}
	op.Code, op.Verifier, op.ClientID = &code, &verifier, &client
	if has("missing-code") {
		op.Code = nil
	}
	if has("bogus-code") {
		op.Code = c02Ptr("bogus-code")
		// a value that lives in ANOTHER session store: a nonce, a state, an access token
		// (with the client id and PKCE verifier of the session that value belongs to: nothing but the store it lives in
		// must keep it from being redeemed)
		switch r := g.rng.Intn(4); {
		case r == 0 && len(g.sessions) > 0:
			sess := g.sessions[len(g.sessions)-1-g.rng.Intn(min(3, len(g.sessions)))]
			op.Code = c02Ptr(sess.Nonces[g.rng.Intn(len(sess.Nonces))])
			verifier, client = sess.Verifier, sess.Spec.ClientID
			op.Verifier, op.ClientID = &verifier, &client
		case r == 1 && len(g.sessions) > 0:
			sess := g.sessions[len(g.sessions)-1-g.rng.Intn(min(3, len(g.sessions)))]
			op.Code = c02Ptr(sess.State)
			verifier, client = sess.Verifier, sess.Spec.ClientID
			op.Verifier, op.ClientID = &verifier, &client
		case r == 2 && len(g.issued) > 0:
			op.Code = c02Ptr(g.issued[g.rng.Intn(len(g.issued))])
		}
	}
	if has("missing-verifier") {
		op.Verifier = nil
	}
	if has("wrong-verifier") {
		op.Verifier = c02Ptr(g.nearMiss(verifier))
		if g.rng.Intn(4) == 0 {
			op.Verifier = c02Ptr("")
		}
	}
	if has("missing-client_id") {
		op.ClientID = nil
	}
	if has("wrong-client_id") {
		op.ClientID = c02Ptr("https://client.example/oauth2/mallory")
		switch g.rng.Intn(3) {
		case 0:
			op.ClientID = c02Ptr(g.nearMiss(client))
		case 1:
			// another client whose id differs from the authorised one only in letter case / Unicode case folding
			v := c02CaseVariants(client)
			op.ClientID = c02Ptr(v[g.rng.Intn(len(v))])
		}
	}
	if has("unknown-subject") {
		op.Subject = "ghost"
	}
	if has("bad-dpop") {
		op.DPoP = &c02DPoP{Kind: "invalid"}
	}
	if op.Verifier != nil {
		op.Sha = []c02Sha{{In: *op.Verifier, Out: c02S256(*op.Verifier)}}
	}
	if g.rng.Intn(2) == 0 {
		// (a regular parameter that this request lacks must stay missing)
		for _, kv := range g.extraForm("code") {
			if (kv[0] == "code" && op.Code == nil) || (kv[0] == "code_verifier" && op.Verifier == nil) || (kv[0] == "client_id" && op.ClientID == nil) {
				continue
			}
			op.ExtraForm = append(op.ExtraForm, kv)
		}
	}
	return op
}

// extraForm: hostile values for every OTHER form parameter a token request can carry - the members the request type has for
// the other grant, parameters of RFC 6749 / 7521 / 8707 the handler does not know, empty values, duplicates of the regular ones
func (g *c02Gen) extraForm(grant string) [][2]string {
	scopes := []string{"admin", "nope", ""}
	for _, p := range g.policy {
		scopes = append(scopes, p.Scope, p.Scope+" admin")
	}
	pool := [][2]string{
		{"scope", scopes[g.rng.Intn(len(scopes))]}, {"scope", "admin"},
		{"resource", "https://evil.example/api"}, {"audience", "https://evil.example"}, {"client_assertion", "eyJhbGciOiJub25lIn0.e30."},
		{"client_assertion_type", "urn:ietf:params:oauth:client-assertion-type:jwt-bearer"}, {"redirect_uri", "https://evil.example/cb"},
		{"client_secret", "s3cr3t"}, {"requested_token_type", "urn:ietf:params:oauth:token-type:jwt"}, {"grant_type", "vp_token-bearer"}, {"subjectID", "beta"},
	}
	if grant == "code" {
		pool = append(pool, [2]string{"assertion", `{"not":"a presentation"}`}, [2]string{"presentation_submission", `{"id":"x","definition_id":"pd0","descriptor_map":[]}`},
			[2]string{"client_id", "https://client.example/oauth2/mallory"}, [2]string{"code_verifier", "another-verifier"}, [2]string{"code", "bogus-code"})
	} else {
		pool = append(pool, [2]string{"code", "bogus-code"}, [2]string{"code_verifier", "another-verifier"}, [2]string{"client_id", "https://client.example/oauth2/mallory"},
			[2]string{"scope", "admin"}, [2]string{"assertion", `{"not":"a presentation"}`})
	}
	var res [][2]string
	for n := 1 + g.rng.Intn(3); n > 0; n-- {
		res = append(res, pool[g.rng.Intn(len(pool))])
	}
	return res
}

func (g *c02Gen) unusedCode() bool {
	for _, c := range g.codes {
		if !c.Used {
			return true
		}
	}
	return false
}

func (g *c02Gen) subsetOf(pool []string, maxN int) []string {
	n := 0
	switch r := g.rng.Intn(100); {
	case r < 40:
		n = 0
	case r < 72:
		n = 1
	case r < 90:
		n = 2
	default:
		n = 3
	}
	if n > maxN {
		n = maxN
	}
	seen := map[string]bool{}
	var res []string
	for len(res) < n {
		d := pool[g.rng.Intn(len(pool))]
		if !seen[d] {
			seen[d] = true
			res = append(res, d)
		}
	}
	sort.Strings(res)
	return res
}

var c02Defects = []string{"wrong-audience", "overlong", "missing-expiry", "reused-nonce", "missing-nonce", "signer-not-subject",
	"mixed-subjects", "mixed-vps", "unfulfilled", "foreign-definition", "forged-submission", "verify-fails", "wrong-scope",
	"unknown-subject", "bad-dpop", "garbage-assertion", "garbage-submission", "missing-param", "subject-without-id", "no-proof",
	"other-tenant-audience", "empty-vp-between", "revoked-credential", "wrong-audience"}

// wrongAudience returns an audience that is NOT the authorization server URL of `subject`: unrelated, another tenant of
// this node (also one whose id extends / is a prefix of this one), the URL extended (suffix, trailing slash, path,
// query, fragment), a proper prefix of the URL, a case variant.
func (g *c02Gen) wrongAudience(subject string) string {
	exp := c02PublicURL + "/oauth2/" + subject
	var others []string
	for _, o := range g.subjects {
		if o != subject {
			others = append(others, c02PublicURL+"/oauth2/"+o)
			if strings.HasPrefix(o, subject) || strings.HasPrefix(subject, o) {
				// the prefix-related tenant, weighted
				others = append(others, c02PublicURL+"/oauth2/"+o, c02PublicURL+"/oauth2/"+o)
			}
		}
	}
	variants := []string{
		"https://evil.example/oauth2/" + subject,
		exp + "2", exp + "-test", exp + "/", exp + "/token", exp + "?x=1", exp + "#f", exp + " ",
		exp[:len(exp)-1], c02PublicURL + "/oauth2/", c02PublicURL + "/oauth2", c02PublicURL,
		strings.ToUpper(exp), strings.Replace(exp, "https://", "http://", 1), "",
	}
	variants = append(variants, others...)
	return variants[g.rng.Intn(len(variants))]
}

// otherHolder: a different DID; the one that extends / is a prefix of `holder` is preferred
func (g *c02Gen) otherHolder(holder string) string {
	var l []string
	for _, h := range c02Holders {
		if h != holder {
			l = append(l, h)
			if strings.HasPrefix(h, holder) || strings.HasPrefix(holder, h) {
				l = append(l, h, h, h)
			}
		}
	}
	return l[g.rng.Intn(len(l))]
}

// c02CaseVariants: strings that differ from s, but only in letter case (whole string, one path letter, host, scheme) or by
// Unicode simple case folding (long s, Kelvin sign) - equal under strings.EqualFold / ToLower comparisons, different clients
func c02CaseVariants(s string) []string {
	var out []string
	add := func(v string) {
		if v != s {
			out = append(out, v)
		}
	}
	add(strings.ToUpper(s))
	add(strings.ToLower(s))
	if n := len(s); n > 1 {
		// the last letter of the path
		for i := n - 1; i >= 0; i-- {
			c := s[i]
			if c >= 'a' && c <= 'z' {
				add(s[:i] + string(c-32) + s[i+1:])
				break
			}
			if c >= 'A' && c <= 'Z' {
				add(s[:i] + string(c+32) + s[i+1:])
				break
			}
		}
	}
	if i := strings.Index(s, "://"); i > 0 {
		add(strings.ToUpper(s[:i]) + s[i:])
		rest := s[i+3:]
		host, path, _ := strings.Cut(rest, "/")
		if len(host) > 0 {
			add(s[:i+3] + strings.ToUpper(host[:1]) + host[1:] + "/" + path)
		}
	}
	if i := strings.IndexByte(s, 's'); i >= 0 {
		add(s[:i] + "\u017f" + s[i+1:]) // LATIN SMALL LETTER LONG S folds to s
	}
	if i := strings.IndexByte(s, 'k'); i >= 0 {
		add(s[:i] + "\u212a" + s[i+1:]) // KELVIN SIGN folds to k
	}
	if len(out) == 0 {
		out = append(out, s+"X")
	}
	return out
}

// nearMiss returns a string that is not `s` but close to it: extended, a proper prefix, other case, padded
func (g *c02Gen) nearMiss(s string) string {
	v := []string{s + "x", s + "0", s + " ", " " + s, strings.ToUpper(s), s + "/", s + " " + s}
	if len(s) > 1 {
		v = append(v, s[:len(s)-1], s[1:])
	}
	return v[g.rng.Intn(len(v))]
}

func (g *c02Gen) scopeDefs(scope string) []c02Def {
	for _, p := range g.policy {
		if p.Scope == scope {
			return p.Defs
		}
	}
	return nil
}

// s2sRequest builds a vp_token-bearer request from a valid one plus the given defects
func (g *c02Gen) s2sRequest(defects []string, now int64) c02Op {
	subject := g.pick(g.subjects)
	if g.forceSubject != nil {
		subject = *g.forceSubject
	}
	pol := g.policy[g.rng.Intn(len(g.policy))]
	scope := pol.Scope
	target := pol.Defs[g.rng.Intn(len(pol.Defs))] // the definition the submission fulfils
	d := g.defs[target.Key]
	holder := g.pick(c02Holders)
	client := "https://client.example/oauth2/" + g.pick([]string{"c1", "c2"})
	has := func(x string) bool {
		for _, y := range defects {
			if x == y {
				return true
			}
		}
		return false
	}
	main := g.baselineVP(subject, d, holder, now)
	vps := []c02VPSpec{main}
	mainIdx := 0
	// harmless variation: an extra empty presentation of the same holder, before or after
	if g.rng.Intn(5) == 0 {
		extra := g.baselineVP(subject, c02DefSpec{}, holder, now)
		if g.rng.Intn(2) == 0 {
			vps = []c02VPSpec{extra, main}
			mainIdx = 1
		} else {
			vps = append(vps, extra)
		}
	}
	other := g.otherHolder(holder)
	m := &vps[mainIdx]
	expectPex := true
	if has("wrong-audience") {
		m.Domain = c02Ptr(g.wrongAudience(subject))
		if g.rng.Intn(6) == 0 {
			m.Domain = nil
		}
	}
	if has("other-tenant-audience") {
		var o []string
		for _, x := range g.subjects {
			if x != subject {
				o = append(o, x)
				if strings.HasPrefix(x, subject) || strings.HasPrefix(subject, x) {
					o = append(o, x, x)
				}
			}
		}
		m.Domain = c02Ptr(c02PublicURL + "/oauth2/" + o[g.rng.Intn(len(o))])
	}
	if has("overlong") {
		m.Expires = c02Ptr(*m.Created + 5001 + int64(g.rng.Intn(2))*60000)
		if m.JWT {
			m.Expires = c02Ptr(*m.Created/1000*1000 + 6000)
		}
	}
	if has("missing-expiry") {
		if g.rng.Intn(2) == 0 {
			m.Expires = nil
		} else {
			m.Created = nil
		}
	}
	if has("reused-nonce") && len(g.usedNonces) > 0 {
		m.Nonce = c02Ptr(g.usedNonces[g.rng.Intn(len(g.usedNonces))])
	}
	if has("missing-nonce") {
		if g.rng.Intn(2) == 0 {
			m.Nonce = nil
		} else {
			m.Nonce = c02Ptr("")
		}
	}
	if has("signer-not-subject") {
		m.Signer = &other
	}
	if has("mixed-subjects") && len(m.Creds) > 0 {
		extra := c02CredSpec{Type: "ExtraCred", Subject: &other, Fields: map[string]interface{}{}}
		m.Creds = append(m.Creds, extra)
	}
	if has("subject-without-id") && len(m.Creds) > 0 {
		m.Creds[len(m.Creds)-1].Subject = nil
		expectPex = true
	}
	if has("mixed-vps") || has("empty-vp-between") {
		// a second, self-consistent presentation of another holder
		if has("empty-vp-between") {
			vps = append(vps, g.baselineVP(subject, c02DefSpec{}, other, now))
		}
		o := g.baselineVP(subject, c02DefSpec{Descriptors: []c02Descriptor{{ID: "x", Type: "OtherCred"}}}, other, now)
		vps = append(vps, o)
		m = &vps[mainIdx]
	}
	if has("unfulfilled") && len(m.Creds) > 0 {
		m.Creds[0].Type = "WrongType"
		expectPex = false
	}
	if has("verify-fails") {
		vps[g.rng.Intn(len(vps))].Verifies = false
	}
	if has("revoked-credential") {
		vps[g.rng.Intn(len(vps))].VCRevoked = true
	}
	if has("no-proof") {
		m.NoProof = true
	}
	if g.forceDomain != nil {
		m.Domain = g.forceDomain
	}
	multi := len(vps) > 1
	sub := c02Submission(d, mainIdx, multi, 0)
	if has("forged-submission") && len(d.Descriptors) > 0 {
		switch g.rng.Intn(3) {
		case 0: // point at a credential that is not there
			sub = c02Submission(d, mainIdx, multi, 7)
		case 1: // claim another descriptor id
			sub = strings.Replace(sub, fmt.Sprintf("%q", d.Descriptors[0].ID), `"forged"`, 1)
		default: // empty descriptor map
			sub = fmt.Sprintf(`{"id":"sub-1","definition_id":%q,"descriptor_map":[]}`, d.ID)
		}
		expectPex = false
	}
	if has("foreign-definition") {
		// a definition id that is configured, but not for this scope
		foreign := ""
		inScope := map[string]bool{}
		for _, x := range pol.Defs {
			inScope[x.ID] = true
		}
		for _, x := range g.defs {
			if !inScope[x.ID] {
				foreign = x.ID
			}
		}
		if foreign == "" {
			foreign = "pd-unknown"
		}
		if g.rng.Intn(2) == 0 {
			foreign = g.nearMiss(d.ID)
			for _, x := range pol.Defs {
				if x.ID == foreign {
					foreign = "pd-unknown"
				}
			}
		}
		sub = strings.Replace(sub, fmt.Sprintf(`"definition_id":%q`, d.ID), fmt.Sprintf(`"definition_id":%q`, foreign), 1)
		target = c02Def{ID: foreign, Key: -1}
	}
	if has("wrong-scope") {
		if r := g.rng.Intn(3); r == 0 {
			scope = "nope"
		} else if r == 1 {
			// near misses of a configured scope, two scopes at once
			scope = g.nearMiss(scope)
			for _, p := range g.policy {
				if p.Scope == scope {
					scope = "nope"
				}
			}
		} else {
			// another configured scope whose mapping does not contain the fulfilled definition
			for _, p := range g.policy {
				found := false
				for _, x := range p.Defs {
					if x.ID == d.ID {
						found = true
					}
				}
				if !found {
					scope = p.Scope
				}
			}
		}
	}
	if has("unknown-subject") {
		subject = "ghost"
	}
	var env string
	if multi {
		var l []string
		for _, v := range vps {
			l = append(l, v.element())
		}
		env = "[" + strings.Join(l, ",") + "]"
	} else {
		env = vps[0].json()
	}
	op := c02Op{Op: "s2s", Subject: subject, Params: true, ClientID: &client, Scope: scope, EnvelopeOK: true, SubmissionOK: true,
		DefID: target.ID, Defects: defects, DPoP: &c02DPoP{Kind: "absent"}}
	if g.rng.Intn(2) == 0 {
		op.DPoP = &c02DPoP{Kind: "valid", Idx: g.rng.Intn(3)}
	}
	if has("bad-dpop") {
		op.DPoP = &c02DPoP{Kind: "invalid"}
	}
	if has("garbage-assertion") {
		env = `{"not":"a presentation"`
		op.EnvelopeOK = false
		vps = nil
	}
	if has("garbage-submission") {
		sub = `{"descriptor_map": 5}`
		op.SubmissionOK = false
	}
	if has("missing-param") {
		op.Params = false
	}
	for _, v := range vps {
		op.VPs = append(op.VPs, v.abstract())
	}
	if op.VPs == nil {
		op.VPs = []c02VP{}
	}
	op.Assertion, op.Submission = &env, &sub
	op.Claims = g.expectedClaims(g.scopeDefs(scope), vps)
	pexKnown := !has("mixed-subjects") && !has("subject-without-id") && !has("no-proof") && !has("garbage-assertion") &&
		!has("garbage-submission") && !has("foreign-definition") && !has("wrong-scope") && !has("signer-not-subject")
	if pexKnown {
		op.PexExpected = &expectPex
	}
	if op.Params && g.rng.Intn(3) == 0 {
		op.ExtraForm = g.extraForm("s2s")
	}
	g.lastVPs = vps
	return op
}

func (g *c02Gen) noteNonces(op c02Op) {
	for _, v := range op.VPs {
		if v.Nonce != "" {
			g.usedNonces = append(g.usedNonces, v.Nonce)
		}
	}
}

func (g *c02Gen) defectSubset() []string {
	n := 0
	switch r := g.rng.Intn(100); {
	case r < 30:
		n = 0
	case r < 65:
		n = 1
	case r < 88:
		n = 2
	default:
		n = 3
	}
	seen := map[string]bool{}
	var res []string
	for len(res) < n {
		d := g.pick(c02Defects)
		if !seen[d] {
			seen[d] = true
			res = append(res, d)
		}
	}
	sort.Strings(res)
	return res
}

var c02Advances = []int64{1000, 4000, 5000, 6000, 9000, 10000, 11000, 14000, 15000, 16000, 59000, 60000, 61000, 880000, 899000, 900000, 901000}

// ---------------------------------------------------------------------------------------------- driver

type c02Out struct {
	ops  *os.File
	impl *os.File
}

func (o *c02Out) emit(op *c02Op, line string) {
	b, _ := json.Marshal(op)
	fmt.Fprintln(o.ops, string(b))
	fmt.Fprintln(o.impl, line)
}

func c02RunOps(t *testing.T, out *c02Out, ops []c02Op) {
	var w *c02World
	for i := range ops {
		op := &ops[i]
		if op.Op == "cfg" {
			w = c02NewWorld(t, *op)
			if op.T != 0 {
				// replay: the virtual clock continues from the recorded time, so that the time stamps inside the
				// recorded presentations keep their meaning
				// (whole seconds: iat/exp are truncated to seconds before they are translated back)
				d := op.T/1000000 - time.Now().UnixMilli()
				w.shiftMs = d - ((d%1000)+1000)%1000
			}
			op.T = w.nowNs()
			out.emit(op, "cfg")
			continue
		}
		if w == nil {
			out.emit(op, "no-world")
			continue
		}
		out.emit(op, w.exec(op))
	}
}

func c02ReadOps(t *testing.T, path string) []c02Op {
	data, err := os.ReadFile(path)
	if err != nil {
		t.Fatal(err)
	}
	var ops []c02Op
	for _, line := range strings.Split(string(data), "\n") {
		line = strings.TrimSpace(line)
		if line == "" || strings.HasPrefix(line, "#") {
			continue
		}
		var op c02Op
		if err := json.Unmarshal([]byte(line), &op); err != nil {
			t.Fatalf("bad op in %s: %v", path, err)
		}
		ops = append(ops, op)
	}
	return ops
}

// c02Targeted runs the scenarios that aim at the property's sharp edges on every run:
// (a) one definition per standard member name of the introspection response (VERIF_C02_FIELDS, regenerated) whose
//     constraint field id is that name: issue (with and without DPoP), introspect plain and extended;
// (b) the replay window: accept a presentation created now+d valid for v, let a pass, present it again - for a grid of
//     d, v, a around nonce TTL and acceptance window.
func c02Targeted(t *testing.T, out *c02Out, seed int64) {
	fields := strings.Split(os.Getenv("VERIF_C02_FIELDS"), ",")
	if len(fields) < 2 {
		fields = []string{"active", "aud", "client_id", "cnf", "exp", "iat", "iss", "presentation_definitions", "presentation_submissions", "scope", "vps"}
	}
	fields = append(fields, "sub", "jti", "org_name")
	rng := rand.New(rand.NewSource(seed*31 + 5))
	// (a)
	for _, name := range fields {
		g := &c02Gen{rng: rng, subjects: []string{"alpha", "alpha2", "beta"}}
		d := c02DefSpec{Key: 0, ID: "pd0", Descriptors: []c02Descriptor{{ID: "d0", Type: "Cred0", Fields: []c02FieldSpec{{ID: name, Name: "f_" + name}}}}}
		g.defs = []c02DefSpec{d}
		g.policy = []c02Policy{{Scope: "s0", Defs: []c02Def{{Owner: "organization", ID: d.ID, Key: 0}}}}
		raw, _ := json.Marshal(map[string]map[string]json.RawMessage{"s0": {"organization": json.RawMessage(d.json())}})
		cfg := c02Op{Op: "cfg", PublicURL: c02PublicURL, Subjects: g.subjects, Policy: g.policy, PolicyRaw: string(raw), DefsRaw: []string{d.json()}}
		w := c02NewWorld(t, cfg)
		cfg.T = w.nowNs()
		out.emit(&cfg, "cfg")
		for k := 0; k < 2; k++ {
			var op c02Op
			for {
				op = g.s2sRequest(nil, w.nowMs())
				if len(op.VPs) == 1 {
					break
				}
			}
			op.DPoP = &c02DPoP{Kind: "absent"}
			if k == 1 {
				op.DPoP = &c02DPoP{Kind: "valid", Idx: 1}
			}
			line := w.exec(&op)
			out.emit(&op, line)
			if strings.HasPrefix(line, "200 token=") {
				tok := strings.Fields(line)[1][len("token="):]
				for _, ext := range []bool{false, true} {
					in := c02Op{Op: "introspect", Token: tok, Extended: ext}
					out.emit(&in, w.exec(&in))
				}
			}
		}
		w.ctrl.Finish()
	}
	// (c) audiences that are not exactly this authorization server: the URL of a tenant whose id extends / is a prefix of
	//     this one, the URL with something appended, proper prefixes - JSON-LD proof domain, JWT aud (string, array), and
	//     the OpenID4VP response step; the exact URL as control
	{
		g := &c02Gen{rng: rng, subjects: []string{"alpha", "alpha2", "beta"}}
		cfg := g.newConfig(false)
		w := c02NewWorld(t, cfg)
		cfg.T = w.nowNs()
		out.emit(&cfg, "cfg")
		for _, subject := range []string{"alpha", "alpha2"} {
			exp := c02PublicURL + "/oauth2/" + subject
			other := c02PublicURL + "/oauth2/alpha2"
			if subject == "alpha2" {
				other = c02PublicURL + "/oauth2/alpha"
			}
			for _, aud := range []string{exp, other, exp + "/token", exp + "/", exp + "?x", exp + "x", exp[:len(exp)-1], c02PublicURL + "/oauth2/"} {
				for f := 0; f < 3; f++ {
					g.forceSubject, g.forceDomain, g.forceFormat = c02Ptr(subject), c02Ptr(aud), c02Ptr(f)
					op := g.s2sRequest(nil, w.nowMs())
					op.Defects = []string{"audience:" + aud}
					out.emit(&op, w.exec(&op))
					g.forceSubject = nil
					seed := g.seed()
					seed.Session.OwnSubject = subject
					out.emit(&seed, w.exec(&seed))
					ar := g.authResponse(g.sessions[len(g.sessions)-1], nil, w.nowMs())
					ar.Defects = []string{"audience:" + aud}
					line := w.exec(&ar)
					out.emit(&ar, line)
				}
			}
		}
		w.ctrl.Finish()
	}
	// (d) post-dated presentations (window entirely ahead of the server clock), JSON-LD and JWT, and their replay after
	//     the nonce has been forgotten; (e) on the Redis session database: a replay during which the read of the nonce entry fails
	for _, backend := range []string{"", "redis"} {
		g := &c02Gen{rng: rng, subjects: []string{"alpha", "alpha2", "beta"}}
		cfg := g.newConfig(false)
		cfg.Backend = backend
		w := c02NewWorld(t, cfg)
		cfg.T = w.nowNs()
		out.emit(&cfg, "cfg")
		one := func() c02Op {
			for {
				op := g.s2sRequest(nil, w.nowMs())
				if len(op.VPs) == 1 {
					return op
				}
			}
		}
		if backend == "" {
			for _, ahead := range []int64{6000, 60000, 3600000, 86400000} {
				for f := 0; f < 2; f++ {
					g.forceCreated, g.forceExpires, g.forceFormat = c02Ptr(ahead), c02Ptr(int64(5000)), c02Ptr(f)
					op := one()
					op.Defects = []string{fmt.Sprintf("post-dated:%dms", ahead)}
					out.emit(&op, w.exec(&op))
					adv := c02Op{Op: "advance", Ms: 16000}
					out.emit(&adv, w.exec(&adv))
					again := op
					again.Defects = []string{"verbatim-replay"}
					again.DPoP = &c02DPoP{Kind: op.DPoP.Kind, Idx: op.DPoP.Idx}
					out.emit(&again, w.exec(&again))
				}
			}
		} else {
			for k := 0; k < 4; k++ {
				g.forceCreated, g.forceExpires, g.forceFormat = c02Ptr(int64(0)), c02Ptr(int64(5000)), c02Ptr(k%2)
				op := one()
				if k == 3 {
					op.Fault = "nonce-get" // a fault on a FRESH nonce: no token either, and nothing stored
				}
				out.emit(&op, w.exec(&op))
				again := op
				again.Defects, again.Fault = []string{"verbatim-replay"}, "nonce-get"
				again.DPoP = &c02DPoP{Kind: op.DPoP.Kind, Idx: op.DPoP.Idx}
				out.emit(&again, w.exec(&again))
				third := again
				third.Fault = ""
				third.DPoP = &c02DPoP{Kind: op.DPoP.Kind, Idx: op.DPoP.Idx}
				out.emit(&third, w.exec(&third))
			}
		}
		w.ctrl.Finish()
	}
	// (f) schedule exploration: two overlapping posts of the same authorization response, every preference sequence of length 4
	//     (all interleavings of up to 2 steps per request on the nonce entry); every code that comes back is redeemed
	{
		g := &c02Gen{rng: rng, subjects: []string{"alpha", "alpha2", "beta"}}
		cfg := g.newConfig(false)
		w := c02NewWorld(t, cfg)
		cfg.T = w.nowNs()
		out.emit(&cfg, "cfg")
		for pref := 0; pref < 16; pref++ {
			req, sess := g.authRequest(nil)
			line := w.exec(&req)
			out.emit(&req, line)
			if !strings.HasPrefix(line, "302 ") {
				continue
			}
			f := strings.Fields(line)
			sess.State, sess.Nonces = f[1][len("state="):], []string{f[2][len("nonce="):]}
			g.sessions = append(g.sessions, sess)
			race := g.authResponse(sess, nil, w.nowMs())
			race.Op, race.Schedule = "race", []int{pref & 1, pref >> 1 & 1, pref >> 2 & 1, pref >> 3 & 1}
			rl := w.exec(&race)
			out.emit(&race, rl)
			for _, x := range strings.FieldsFunc(rl, func(r rune) bool { return r == ' ' || r == '[' || r == ']' }) {
				if strings.HasPrefix(x, "code=") {
					g.codes = []c02GenCode{{Name: x[len("code="):], Session: sess}}
					c := g.codeRequest(nil)
					cl := w.exec(&c)
					out.emit(&c, cl)
					if strings.HasPrefix(cl, "200 token=") {
						in := c02Op{Op: "introspect", Token: strings.Fields(cl)[1][len("token="):]}
						out.emit(&in, w.exec(&in))
					}
				}
			}
		}
		// (g) values of the OTHER session stores presented as authorization code, with the right client id and PKCE verifier of
		//     the session they belong to: the state of a running session, its nonce, and (after completion) again the state
		for k := 0; k < 3; k++ {
			req, sess := g.authRequest(nil)
			line := w.exec(&req)
			out.emit(&req, line)
			if !strings.HasPrefix(line, "302 ") {
				continue
			}
			f := strings.Fields(line)
			sess.State, sess.Nonces = f[1][len("state="):], []string{f[2][len("nonce="):]}
			g.sessions = append(g.sessions, sess)
			redeem := func(value string) {
				v, c := sess.Verifier, sess.Spec.ClientID
				op := c02Op{Op: "code", Subject: sess.Spec.OwnSubject, Code: &value, Verifier: &v, ClientID: &c, DPoP: &c02DPoP{Kind: "absent"},
					Sha: []c02Sha{{In: v, Out: c02S256(v)}}, Defects: []string{"cross-store:" + value}}
				out.emit(&op, w.exec(&op))
			}
			switch k {
			case 0:
				redeem(sess.State)
			case 1:
				redeem(sess.Nonces[0])
			default:
				ar := g.authResponse(sess, nil, w.nowMs())
				out.emit(&ar, w.exec(&ar))
				redeem(sess.State)
			}
		}
		// (h) the token request of ANOTHER client whose id differs from the authorised client's only in letter case (or
		//     Unicode case folding), with the right code and PKCE verifier; every token that comes back is introspected
		{
			_, probe := g.authRequest(nil)
			nv := len(c02CaseVariants(probe.Spec.ClientID))
			for k := 0; k < nv; k++ {
				req, sess := g.authRequest(nil)
				if k%2 == 1 {
					// through the front door: the same parameters as a signed request object at the authorization endpoint
					g.toAuthz(&req, nil)
				}
				line := w.exec(&req)
				out.emit(&req, line)
				if i := strings.Index(line, "] 302 "); req.Op == "authz" && i >= 0 {
					line = line[i+2:]
				}
				if !strings.HasPrefix(line, "302 ") {
					continue
				}
				f := strings.Fields(line)
				sess.State, sess.Nonces = f[1][len("state="):], []string{f[2][len("nonce="):]}
				g.sessions = append(g.sessions, sess)
				code := ""
				for round := 0; round < 3 && code == ""; round++ {
					ar := g.authResponse(sess, nil, w.nowMs())
					al := w.exec(&ar)
					out.emit(&ar, al)
					if strings.HasPrefix(al, "200 code=") {
						code = strings.Fields(al)[1][len("code="):]
					} else if strings.HasPrefix(al, "200 next=") {
						sess.Nonces = append(sess.Nonces, strings.Fields(al)[2][len("nonce="):])
					} else {
						break
					}
				}
				if code == "" {
					continue
				}
				variants := c02CaseVariants(sess.Spec.ClientID)
				v, c := sess.Verifier, variants[k%len(variants)]
				op := c02Op{Op: "code", Subject: sess.Spec.OwnSubject, Code: &code, Verifier: &v, ClientID: &c, DPoP: &c02DPoP{Kind: "absent"},
					Sha: []c02Sha{{In: v, Out: c02S256(v)}}, Defects: []string{"wrong-client_id", "client_id-case-variant"}, HTTP: k%3 == 2}
				cl := w.exec(&op)
				out.emit(&op, cl)
				if strings.HasPrefix(cl, "200 token=") {
					for _, ext := range []bool{false, true} {
						in := c02Op{Op: "introspect", Token: strings.Fields(cl)[1][len("token="):], Extended: ext}
						out.emit(&in, w.exec(&in))
					}
				}
			}
		}
		// (i) the authorization endpoint: a valid signed request object by every delivery, then every SINGLE defect of the delivery /
		//     signature / client binding / dispatch alone (twice: the defects draw their variant), the rest of the request being valid
		{
			var grid [][]string
			for k := 0; k < 6; k++ {
				grid = append(grid, nil)
			}
			for rep := 0; rep < 2; rep++ {
				for _, d := range c02JarDefects {
					grid = append(grid, []string{d})
				}
			}
			for _, ds := range grid {
				req, _ := g.authRequest(nil)
				g.toAuthz(&req, ds)
				out.emit(&req, w.exec(&req))
			}
		}
		w.ctrl.Finish()
	}
	// (j) the server's own request objects, also of USER legs (method post): a world whose policy has an organization + user
	//     scope; for every leg of a full flow: the right fetch (post also with wallet nonce / issuer), the other method first,
	//     another tenant first, and always a second fetch
	{
		var g *c02Gen
		var cfg c02Op
		for try := 0; try < 40; try++ {
			g = &c02Gen{rng: rng, subjects: []string{"alpha", "alpha2", "beta"}}
			cfg = g.newConfig(false)
			both := false
			for _, p := range g.policy {
				both = both || len(p.Defs) > 1
			}
			if both {
				break
			}
		}
		w := c02NewWorld(t, cfg)
		cfg.T = w.nowNs()
		out.emit(&cfg, "cfg")
		fetch := func(ro *c02GenRO, variant int) {
			right := c02Op{Op: "reqobj", ID: ro.Name, Subject: ro.Subject, Method: "get"}
			if ro.Owner == "user" {
				right.Method = "post"
				if variant%2 == 0 {
					right.WalletNonce = c02Ptr("wn-1")
					right.WalletIssuer = c02Ptr([]string{"https://wallet.example", "https://self-issued.me/v2"}[variant/2%2])
				}
			}
			first := right
			switch variant % 3 {
			case 1:
				first.Defects = []string{"other-method"}
				if first.Method == "get" {
					first.Method = "post"
				} else {
					first.Method, first.WalletNonce, first.WalletIssuer = "get", nil, nil
				}
			case 2:
				first.Defects = []string{"other-tenant"}
				first.Subject = "beta"
				if ro.Subject == "beta" {
					first.Subject = "alpha"
				}
			}
			out.emit(&first, w.exec(&first))
			again := right
			again.Defects = []string{"second-fetch"}
			out.emit(&again, w.exec(&again))
		}
		variant := 0
		for flow := 0; flow < 9; flow++ {
			var req c02Op
			var sess *c02GenSession
			for try := 0; try < 40; try++ {
				req, sess = g.authRequest(nil)
				if len(sess.Spec.Required) > 1 || flow%3 == 2 {
					break
				}
			}
			line := w.exec(&req)
			g.noteROs(&req, line)
			out.emit(&req, line)
			if !strings.HasPrefix(line, "302 ") {
				continue
			}
			f := strings.Fields(line)
			sess.State, sess.Nonces = f[1][len("state="):], []string{f[2][len("nonce="):]}
			g.sessions = append(g.sessions, sess)
			for round := 0; round < 3; round++ {
				for _, ro := range g.ros {
					if !ro.Fetched {
						ro.Fetched = true
						fetch(ro, variant)
						variant++
					}
				}
				ar := g.authResponse(sess, nil, w.nowMs())
				al := w.exec(&ar)
				g.noteROs(&ar, al)
				out.emit(&ar, al)
				if !strings.HasPrefix(al, "200 next=") {
					break
				}
				sess.Nonces = append(sess.Nonces, strings.Fields(al)[2][len("nonce="):])
			}
		}
		w.ctrl.Finish()
	}
	// (k) the resource-server side of the key binding (ValidateDPoPProof), see zz_verif_c02dpop_test.go
	c02TargetedDPoP(t, out, rng)
	c02TargetedExpiry(t, out, rng)
	// (b)
	g := &c02Gen{rng: rng, subjects: []string{"alpha", "alpha2", "beta"}}
	cfg := g.newConfig(false)
	w := c02NewWorld(t, cfg)
	cfg.T = w.nowNs()
	out.emit(&cfg, "cfg")
	for _, d := range []int64{0, 2500, 4800} {
		for _, v := range []int64{2500, 5000} {
			for _, a := range []int64{6000, 9000, 9900, 10100, 11000, 14000, 14700, 15300, 16000} {
				g.forceCreated, g.forceExpires = c02Ptr(d), c02Ptr(v)
				var op c02Op
				for {
					op = g.s2sRequest(nil, w.nowMs())
					if len(op.VPs) == 1 {
						break
					}
				}
				op.Defects = []string{fmt.Sprintf("window:d=%d,v=%d,a=%d", d, v, a)}
				out.emit(&op, w.exec(&op))
				adv := c02Op{Op: "advance", Ms: a}
				out.emit(&adv, w.exec(&adv))
				again := op
				again.Defects = []string{"verbatim-replay"}
				again.DPoP = &c02DPoP{Kind: op.DPoP.Kind, Idx: op.DPoP.Idx}
				out.emit(&again, w.exec(&again))
				clear := c02Op{Op: "advance", Ms: 30000}
				out.emit(&clear, w.exec(&clear))
			}
		}
	}
	w.ctrl.Finish()
}

func TestVerifC02(t *testing.T) {
	outDir := os.Getenv("VERIF_OUT")
	if outDir == "" {
		t.Skip("VERIF_OUT not set")
	}
	seed, _ := strconv.ParseInt(os.Getenv("VERIF_SEED"), 10, 64)
	logrus.SetOutput(io.Discard)
	thorough := os.Getenv("VERIF_TIER") == "thorough"
	opsF, err := os.Create(filepath.Join(outDir, "ops.jsonl"))
	if err != nil {
		t.Fatal(err)
	}
	defer opsF.Close()
	implF, err := os.Create(filepath.Join(outDir, "impl.out"))
	if err != nil {
		t.Fatal(err)
	}
	defer implF.Close()
	out := &c02Out{ops: opsF, impl: implF}

	if replay := os.Getenv("VERIF_REPLAY"); replay != "" {
		c02RunOps(t, out, c02ReadOps(t, replay))
		return
	}
	if corpus := os.Getenv("VERIF_CORPUS"); corpus != "" {
		files, _ := filepath.Glob(filepath.Join(corpus, "*.jsonl"))
		sort.Strings(files)
		for _, f := range files {
			c02RunOps(t, out, c02ReadOps(t, f))
		}
	}
	c02Targeted(t, out, seed)
	worlds := 40
	if n, err := strconv.Atoi(os.Getenv("VERIF_WORLDS")); err == nil {
		worlds = n
	} else if thorough {
		worlds = 600
	}
	rng := rand.New(rand.NewSource(seed*7919 + 17))
	for wi := 0; wi < worlds; wi++ {
		g := &c02Gen{rng: rng, subjects: []string{"alpha", "alpha2", "beta"}}
		cfg := g.newConfig(wi%3 == 2)
		if wi%8 == 5 {
			cfg.Backend = "redis"
		}
		w := c02NewWorld(t, cfg)
		cfg.T = w.nowNs()
		out.emit(&cfg, "cfg")
		nOps := 12 + rng.Intn(25)
		for i := 0; i < nOps; i++ {
			var op c02Op
			var fresh, pendingSess *c02GenSession
			for _, sess := range g.sessions {
				if !sess.Used {
					fresh = sess
				}
			}
			switch r := rng.Intn(135); {
			case r >= 100 && fresh == nil && rng.Intn(3) > 0:
				if rng.Intn(3) == 0 {
					op = g.seed() // an arbitrary server state (also sessions no authorization request would create)
				} else {
					op, pendingSess = g.authRequest(g.subsetOf(c02AuthReqDefects, 2))
					if rng.Intn(2) == 0 {
						// the same request as a signed request object at the authorization endpoint
						op.Defects = g.subsetOf(c02AuthReqDefects, 1)
						if rng.Intn(3) > 0 {
							op, pendingSess = g.authRequest(nil)
						}
						g.toAuthz(&op, g.subsetOf(c02JarDefects, 2))
					}
				}
			case r >= 100 && r < 104 && fresh != nil && !w.redis:
				// two overlapping posts of the same (valid) response under a random schedule
				op = g.authResponse(fresh, nil, w.nowMs())
				op.Op, op.Schedule = "race", []int{rng.Intn(2), rng.Intn(2), rng.Intn(2), rng.Intn(2)}
				fresh.Used = true
			case r >= 100 && r < 118 && fresh != nil:
				op = g.authResponse(fresh, g.subsetOf(c02AuthDefects, 3), w.nowMs())
				fresh.Used = true
			case r >= 118 && r < 123 && len(g.sessions) > 0:
				op = g.authResponse(g.sessions[rng.Intn(len(g.sessions))], g.subsetOf(c02AuthDefects, 2), w.nowMs())
			case r >= 100 && g.unusedCode() && rng.Intn(2) == 0:
				op = g.codeRequest(g.subsetOf(c02CodeDefects, 3))
			case r >= 123 && (len(g.codes) > 0 || rng.Intn(4) == 0):
				op = g.codeRequest(g.subsetOf(c02CodeDefects, 3))
			case r >= 100:
				op = g.seed()
			case r < 50:
				op = g.s2sRequest(g.defectSubset(), w.nowMs())
			case r < 54 && len(g.lastVPs) > 0:
				op = g.s2sRequest([]string{"reused-nonce"}, w.nowMs())
			case r < 62 && len(g.accepted) > 0:
				// verbatim replay of a request that was accepted earlier (same presentations, same nonces)
				op = g.accepted[rng.Intn(len(g.accepted))]
				op.Defects = []string{"verbatim-replay"}
				op.Fault, op.HTTP = "", false
				op.DPoP = &c02DPoP{Kind: op.DPoP.Kind, Idx: op.DPoP.Idx}
			case r >= 76 && r < 80:
				op = g.dpopVal()
			case r < 80:
				op = c02Op{Op: "introspect", Extended: rng.Intn(3) == 0}
				switch {
				case len(g.issued) > 0 && rng.Intn(10) < 8:
					op.Token = g.issued[rng.Intn(len(g.issued))]
				case len(g.codes) > 0 && rng.Intn(3) == 0:
					op.Token = g.codes[rng.Intn(len(g.codes))].Name // a value of another store
				case len(g.sessions) > 0 && rng.Intn(3) == 0:
					sess := g.sessions[rng.Intn(len(g.sessions))]
					op.Token = sess.Nonces[rng.Intn(len(sess.Nonces))]
				case rng.Intn(2) == 0:
					op.Token = "bogus-token"
				default:
					op.Token = ""
				}
			case r < 92:
				op = c02Op{Op: "advance", Ms: c02Advances[rng.Intn(len(c02Advances))]}
				if rng.Intn(3) > 0 {
					op.Ms = c02Advances[rng.Intn(9)]
				}
			case r >= 98:
				op = g.polLoad()
			case r >= 93 && len(g.ros) > 0:
				op = g.roFetch()
			default:
				op = c02Op{Op: "probe", Store: "s2snonce", Key: "n0"}
				if len(g.usedNonces) > 0 {
					op.Key = g.usedNonces[rng.Intn(len(g.usedNonces))]
				}
				if len(g.issued) > 0 && rng.Intn(3) == 0 {
					op = c02Op{Op: "probe", Store: "token", Key: g.issued[rng.Intn(len(g.issued))]}
				}
				if len(g.codes) > 0 && rng.Intn(3) == 0 {
					op = c02Op{Op: "probe", Store: "code", Key: g.codes[rng.Intn(len(g.codes))].Name}
				}
				if len(g.sessions) > 0 && rng.Intn(3) == 0 {
					sess := g.sessions[rng.Intn(len(g.sessions))]
					op = c02Op{Op: "probe", Store: "oauthnonce", Key: sess.Nonces[rng.Intn(len(sess.Nonces))]}
					if rng.Intn(3) == 0 {
						op = c02Op{Op: "probe", Store: "state", Key: sess.State}
					}
				}
			}
			if (op.Op == "s2s" || op.Op == "code" || op.Op == "introspect" || op.Op == "authresp") && rng.Intn(4) == 0 {
				op.HTTP = true
			}
			if op.Op == "dpopval" && w.redis && rng.Intn(3) == 0 {
				op.Fault = "jti-get"
			}
			if op.Op == "s2s" && w.redis && rng.Intn(3) == 0 {
				// a transient read failure of the nonce entry: most useful during a replay, harmless otherwise
				op.Fault, op.HTTP = "nonce-get", false
			}
			if (op.Op == "s2s" || op.Op == "code") && op.Fault == "" && rng.Intn(8) == 0 {
				// the grant_type switch: the other grant's name, unsupported and near-miss names, the own name as control
				op.Grant = c02Ptr(g.pick(c02GrantTypes))
				op.ExtraForm = nil
			}
			line := w.exec(&op)
			if op.Op == "authz" && pendingSess != nil {
				if i := strings.Index(line, "] 302 "); i >= 0 {
					f := strings.Fields(line[i+2:])
					pendingSess.State = f[1][len("state="):]
					pendingSess.Nonces = []string{f[2][len("nonce="):]}
					g.sessions = append(g.sessions, pendingSess)
				}
			}
			if op.Op == "authreq" && pendingSess != nil && strings.HasPrefix(line, "302 ") {
				f := strings.Fields(line)
				pendingSess.State = f[1][len("state="):]
				pendingSess.Nonces = []string{f[2][len("nonce="):]}
				g.sessions = append(g.sessions, pendingSess)
			}
			if op.Op == "race" && op.State != nil {
				for _, sess := range g.sessions {
					if sess.State != *op.State {
						continue
					}
					for _, f := range strings.FieldsFunc(line, func(r rune) bool { return r == ' ' || r == '[' || r == ']' }) {
						if strings.HasPrefix(f, "code=") {
							g.codes = append(g.codes, c02GenCode{Name: f[len("code="):], Session: sess})
						}
						if strings.HasPrefix(f, "nonce=") {
							sess.Nonces = append(sess.Nonces, f[len("nonce="):])
							sess.Used = false
						}
					}
				}
			}
			if op.Op == "authresp" && op.State != nil {
				for _, sess := range g.sessions {
					if sess.State != *op.State {
						continue
					}
					if strings.HasPrefix(line, "200 code=") {
						g.codes = append(g.codes, c02GenCode{Name: strings.Fields(line)[1][len("code="):], Session: sess})
					}
					if strings.HasPrefix(line, "200 next=") {
						sess.Nonces = append(sess.Nonces, strings.Fields(line)[2][len("nonce="):])
						sess.Used = false
					}
				}
			}
			if op.Op == "code" && strings.HasPrefix(line, "200 token=") {
				g.issued = append(g.issued, strings.Fields(line)[1][len("token="):])
				g.dpv.note(g.issued[len(g.issued)-1], op.DPoP)
			}
			if op.Op == "s2s" {
				g.noteNonces(op)
				if strings.HasPrefix(line, "200 token=") {
					g.issued = append(g.issued, strings.Fields(line)[1][len("token="):])
					g.dpv.note(g.issued[len(g.issued)-1], op.DPoP)
					g.accepted = append(g.accepted, op)
				}
			}
			g.noteROs(&op, line)
			out.emit(&op, line)
		}
		w.ctrl.Finish()
	}
}


// TestVerifC02RealTime confirms the replay window on the REAL clock (no ageing): a presentation post-dated within the
// verifier's skew is accepted, the handler forgets its nonce after the nonce TTL, and the very same presentation is
// presented again while the verifier still accepts it. Only runs with VERIF_C02_REALTIME=<seconds to wait>.
func TestVerifC02RealTime(t *testing.T) {
	wait, err := strconv.ParseFloat(os.Getenv("VERIF_C02_REALTIME"), 64)
	if err != nil {
		t.Skip("VERIF_C02_REALTIME not set")
	}
	logrus.SetOutput(io.Discard)
	g := &c02Gen{rng: rand.New(rand.NewSource(1)), subjects: []string{"alpha", "alpha2", "beta"}}
	cfg := g.newConfig(false)
	w := c02NewWorld(t, cfg)
	g.forceCreated, g.forceExpires = c02Ptr(int64(4500)), c02Ptr(int64(5000))
	var op c02Op
	for {
		op = g.s2sRequest(nil, w.nowMs())
		if len(op.VPs) == 1 {
			break
		}
	}
	first := w.exec(&op)
	t0 := time.Now()
	time.Sleep(time.Duration(wait * float64(time.Second)))
	again := op
	again.DPoP = &c02DPoP{Kind: op.DPoP.Kind, Idx: op.DPoP.Idx}
	second := w.exec(&again)
	fmt.Printf("REALTIME first=%q after=%.1fs second=%q (created=now+4.5s expires=created+5s nonce=%s)\n", first, time.Since(t0).Seconds(), second, op.VPs[0].Nonce)
}
