//go:build verif

package iam

// C02 deepening round 3: the key binding on the resource-server side. The REAL ValidateDPoPProof (dpop.go) is called with
// really signed DPoP proofs (crypto/dpop New / GenerateProof / Sign with the world's ES256 keys, claims overridden where the
// generator wants a defect) for tokens the world issued; the model (NutsModel/C02/DPoP.lean) gets what dpop.Parse would read
// (parse verdict = generator ground truth, thumbprint name, htm, stripped htu, ath relation, jti) and keeps the jti store.

import (
	"context"
	"crypto/sha256"
	"encoding/base64"
	"encoding/json"
	"fmt"
	"math/rand"
	"net/http"
	"net/http/httptest"
	"net/url"
	"strings"
	"sync/atomic"
	"testing"
	"time"

	"github.com/lestrrat-go/jwx/v2/jwa"
	"github.com/lestrrat-go/jwx/v2/jwt"
	"github.com/nuts-foundation/nuts-node/crypto/dpop"
	"github.com/nuts-foundation/nuts-node/storage"
)

type c02DPoPVal struct {
	// generator input
	Key      int    `json:"key"`                 // the key that signs the proof (and is embedded in its header)
	ThumbKey int    `json:"thumb_key"`           // the key whose thumbprint the caller supplies (what introspection reported as cnf.jkt)
	ThumbVar string `json:"thumb_var,omitempty"` // "" | upper | padded | empty : a variant spelling of that thumbprint
	// ThumbFrom: the resource server's real procedure - the thumbprint is the cnf.jkt the REAL introspection endpoint reports for
	// this token (name) right now ("" when the answer is inactive or carries no cnf); ThumbKey / ThumbVar are not used then
	ThumbFrom string `json:"thumb_from,omitempty"`
	Htm      string `json:"htm"`                 // claims of the proof
	Htu      string `json:"htu"`
	Method   string `json:"method"` // what the resource server saw
	URL      string `json:"url"`
	Token    string `json:"token"`              // token NAME (tok#n) or a bogus value
	AthOf    string `json:"ath_of,omitempty"`   // the token (name) the proof's ath is computed over; "" = Token
	AthKind  string `json:"ath_kind,omitempty"` // "" (string) | absent | number | upper
	Jti      string `json:"jti"`
	Broken   string `json:"broken,omitempty"` // "" | garbage | empty | tampered | unsigned-edit
	// filled at execution, for the model
	Parsed bool    `json:"parsed"`
	PJkt   string  `json:"p_jkt,omitempty"`
	PHtu   *string `json:"p_htu,omitempty"` // strip(htu), absent = url.Parse error
	PAth   string  `json:"p_ath,omitempty"` // "absent" | "other" | "str"
	PAthV  string  `json:"p_ath_v,omitempty"`
	Thumb  string  `json:"thumb,omitempty"`
	SURL   *string `json:"s_url,omitempty"` // strip(url)
}

// c02Strip: what crypto/dpop strip computes (generator ground truth; a divergence shows as a correspondence difference)
func c02Strip(raw string) *string {
	u, err := url.Parse(raw)
	if err != nil {
		return nil
	}
	u.Scheme = "https"
	u.Host = strings.Split(u.Host, ":")[0]
	u.RawQuery = ""
	u.Fragment = ""
	s := u.String()
	return &s
}

func (w *c02World) realToken(name string) string {
	if r, ok := w.tokReal[name]; ok {
		return r
	}
	return name
}

func c02Ath(token string) string {
	h := sha256.Sum256([]byte(token))
	return base64.RawURLEncoding.EncodeToString(h[:])
}

func (w *c02World) keyThumb(i int) string {
	// the thumbprint as dpop.Parse / Match compute it: via a really signed and parsed proof
	req, _ := http.NewRequest("GET", "https://x.example", nil)
	s, err := dpop.New(*req).Sign(fmt.Sprintf("kid-%d", i), w.dpopKeys[i%len(w.dpopKeys)], jwa.ES256)
	if err != nil {
		w.t.Fatal(err)
	}
	p, err := dpop.Parse(s)
	if err != nil {
		w.t.Fatal(err)
	}
	tp, _ := p.Headers.JWK().Thumbprint(5)
	return base64.RawURLEncoding.EncodeToString(tp)
}

// introspectedThumb: cnf.jkt of the real (plain) introspection answer for the token, "" when inactive / not key-bound / error
func (w *c02World) introspectedThumb(name string) string {
	resp, err := w.w.IntrospectAccessToken(w.ctx("", "application/x-www-form-urlencoded"),
		IntrospectAccessTokenRequestObject{Body: &TokenIntrospectionRequest{Token: w.realToken(name)}})
	if err != nil {
		return ""
	}
	rec := httptest.NewRecorder()
	if err := resp.VisitIntrospectAccessTokenResponse(rec); err != nil {
		return ""
	}
	var body struct {
		Active bool `json:"active"`
		Cnf    *struct {
			Jkt string `json:"jkt"`
		} `json:"cnf"`
	}
	if json.Unmarshal(rec.Body.Bytes(), &body) != nil || !body.Active || body.Cnf == nil {
		return ""
	}
	return body.Cnf.Jkt
}

var c02DPoPReasons = []string{"failed to parse DPoP header", "jkt mismatch", "method mismatch", "invalid htu claim", "invalid url",
	"url mismatch", "missing ath claim", "ath/token claim mismatch", "jti already used"}

func (w *c02World) execDPoPVal(op *c02Op) string {
	d := op.DPV
	n := len(w.dpopKeys)
	// build the proof
	req, err := http.NewRequest("POST", "https://rs.example/placeholder", nil)
	if err != nil {
		return "bad-op"
	}
	tok := dpop.New(*req)
	_ = tok.Token.Set(dpop.HTMKey, d.Htm)
	_ = tok.Token.Set(dpop.HTUKey, d.Htu)
	_ = tok.Token.Set(jwt.JwtIDKey, d.Jti)
	athOf := d.AthOf
	if athOf == "" {
		athOf = d.Token
	}
	d.PAth, d.PAthV = "str", ""
	switch d.AthKind {
	case "absent":
		d.PAth = "absent"
	case "number":
		_ = tok.Token.Set(dpop.ATHKey, 42)
		d.PAth = "other"
	case "upper":
		_ = tok.Token.Set(dpop.ATHKey, strings.ToUpper(c02Ath(w.realToken(athOf))))
	default:
		_ = tok.Token.Set(dpop.ATHKey, c02Ath(w.realToken(athOf)))
	}
	if d.PAth == "str" {
		// the relation the model needs: is the claim the digest of the token under validation?
		claim, _ := tok.Token.Get(dpop.ATHKey)
		if s, ok := claim.(string); ok && s == c02Ath(w.realToken(d.Token)) {
			d.PAthV = "ath:" + d.Token
		} else {
			d.PAthV = "ath:another"
		}
	}
	proof, err := tok.Sign(fmt.Sprintf("kid-%d", d.Key), w.dpopKeys[d.Key%n], jwa.ES256)
	if err != nil {
		return "sign-failed"
	}
	d.Parsed = true
	switch d.Broken {
	case "garbage":
		proof, d.Parsed = "not.a.dpop", false
	case "empty":
		proof, d.Parsed = "", false
	case "tampered":
		// another signature: the last signature character replaced
		c := byte('A')
		if proof[len(proof)-5] == 'A' {
			c = 'B'
		}
		proof, d.Parsed = proof[:len(proof)-5]+string(c)+proof[len(proof)-4:], false
	case "unsigned-edit":
		// the payload re-encoded with another htm after signing
		parts := strings.Split(proof, ".")
		if raw, err := base64.RawURLEncoding.DecodeString(parts[1]); err == nil {
			parts[1] = base64.RawURLEncoding.EncodeToString([]byte(strings.Replace(string(raw), `"htm":"`, `"htm":"X`, 1)))
		}
		proof, d.Parsed = strings.Join(parts, "."), false
	}
	if d.Htu == "" || d.Htm == "" || d.Jti == "" {
		d.Parsed = false // dpop.Parse requires these claims
	}
	d.PJkt = fmt.Sprintf("jkt#%d", d.Key%n)
	d.PHtu = c02Strip(d.Htu)
	d.SURL = c02Strip(d.URL)
	thumb := w.keyThumb(d.ThumbKey % n)
	d.Thumb = fmt.Sprintf("jkt#%d", d.ThumbKey%n)
	if d.ThumbFrom != "" {
		thumb = w.introspectedThumb(d.ThumbFrom)
		d.Thumb = w.dpopJkt[thumb]
		d.ThumbVar = ""
	}
	switch d.ThumbVar {
	case "upper":
		if up := strings.ToUpper(thumb); up != thumb {
			thumb, d.Thumb = up, d.Thumb+"/upper"
		}
	case "padded":
		thumb, d.Thumb = thumb+"=", d.Thumb+"/padded"
	case "empty":
		thumb, d.Thumb = "", ""
	}
	if op.Fault == "jti-get" && w.redis {
		w.failNonceGet, w.failKeyPart = true, "nonceonce"
		defer func() { w.failNonceGet, w.failKeyPart = false, "" }()
	} else {
		op.Fault = ""
	}
	op.T = w.nowNs()
	return c02Recover(func() string {
		resp, err := w.w.ValidateDPoPProof(context.Background(), ValidateDPoPProofRequestObject{Body: &ValidateDPoPProofJSONRequestBody{
			DpopProof: proof, Method: d.Method, Thumbprint: thumb, Token: w.realToken(d.Token), Url: d.URL}})
		if err != nil {
			if strings.Contains(err.Error(), "injected read failure") {
				return "err:jti-store-error"
			}
			return c02Err(err)
		}
		r, ok := resp.(ValidateDPoPProof200JSONResponse)
		if !ok {
			return fmt.Sprintf("unexpected-response:%T", resp)
		}
		if r.Valid {
			if r.Reason != nil {
				return "valid-with-reason"
			}
			return "valid"
		}
		if r.Reason == nil {
			return "invalid:-"
		}
		for _, p := range c02DPoPReasons {
			if strings.HasPrefix(*r.Reason, p) {
				return "invalid:" + p
			}
		}
		return "invalid:?" + *r.Reason
	})
}

type c02DPVGen struct {
	seq    int
	used   []c02DPoPVal   // proofs validated so far in this world (for replays)
	tokKey map[string]int // token name -> index of the DPoP key it was bound to at issuance (absent = bearer token)
}

func (v *c02DPVGen) note(token string, d *c02DPoP) {
	if d != nil && d.Kind == "valid" {
		if v.tokKey == nil {
			v.tokKey = map[string]int{}
		}
		v.tokKey[token] = d.Idx
	}
}

var c02DPoPURLs = []string{"https://rs.example/api", "https://rs.example/api?x=1", "http://rs.example:8080/api#frag", "https://rs.example/API",
	"https://rs.example/api/", "https://RS.example/api", "https://other.example/api", "https://rs.example/%zz", "rs.example/api", "https://rs.example:8443/api"}
var c02DPoPMethods = []string{"POST", "GET", "post", "PUT"}

func (g *c02Gen) dpvBase() c02DPoPVal {
	g.dpv.seq++
	tok := "bogus-token"
	if len(g.issued) > 0 {
		tok = g.issued[g.rng.Intn(len(g.issued))]
	}
	k := g.rng.Intn(3)
	u := c02DPoPURLs[g.rng.Intn(3)]
	m := c02DPoPMethods[g.rng.Intn(2)]
	d := c02DPoPVal{Key: k, ThumbKey: k, Htm: m, Htu: u, Method: m, URL: c02DPoPURLs[g.rng.Intn(3)], Token: tok, Jti: fmt.Sprintf("jti-%d", g.dpv.seq)}
	if bound, ok := g.dpv.tokKey[tok]; ok && g.rng.Intn(3) > 0 {
		// the real procedure: thumbprint from the introspection of this very token, proof by the key it was bound to
		d.ThumbFrom, d.Key, d.ThumbKey = tok, bound, bound
	} else if len(g.issued) > 0 && g.rng.Intn(4) == 0 {
		d.ThumbFrom = tok // a bearer token (or a proof by whatever key): introspection reports no / another cnf
	}
	return d
}

var c02DPoPDefects = []string{"other-key", "thumb-upper", "thumb-padded", "thumb-empty", "other-method", "method-case", "other-url", "url-case", "url-path",
	"bad-htu", "bad-url", "ath-other-token", "ath-absent", "ath-number", "ath-upper", "garbage", "empty", "tampered", "unsigned-edit", "jti-reused",
	"replay-elsewhere", "no-htm"}

func (g *c02Gen) dpvApply(d *c02DPoPVal, defect string) {
	switch defect {
	case "other-key":
		d.ThumbKey = (d.Key + 1 + g.rng.Intn(2)) % 3
		if d.ThumbFrom != "" {
			d.Key = d.ThumbKey // the proof is made with another key than the one the token is bound to
		}
	case "thumb-upper":
		d.ThumbVar = "upper"
	case "thumb-padded":
		d.ThumbVar = "padded"
	case "thumb-empty":
		d.ThumbVar = "empty"
	case "other-method":
		d.Method = "PUT"
	case "method-case":
		d.Method = strings.ToLower(d.Htm)
	case "other-url":
		d.URL = "https://other.example/api"
	case "url-case":
		d.URL = g.pick([]string{"https://rs.example/API", "https://RS.example/api"})
	case "url-path":
		d.URL = g.pick([]string{"https://rs.example/api/", "https://rs.example/api/admin", "rs.example/api"})
	case "bad-htu":
		d.Htu = "https://rs.example/%zz"
	case "bad-url":
		d.URL = "https://rs.example/%zz"
	case "ath-other-token":
		d.AthOf = "another-token"
		if len(g.issued) > 1 {
			for _, t := range g.issued {
				if t != d.Token {
					d.AthOf = t
				}
			}
		}
	case "ath-absent":
		d.AthKind = "absent"
	case "ath-number":
		d.AthKind = "number"
	case "ath-upper":
		d.AthKind = "upper"
	case "garbage", "empty", "tampered", "unsigned-edit":
		d.Broken = defect
	case "jti-reused":
		if len(g.dpv.used) > 0 {
			d.Jti = g.dpv.used[g.rng.Intn(len(g.dpv.used))].Jti
		}
	case "replay-elsewhere":
		// a proof that was seen before, presented again (same jti) for another URL / method / token
		if len(g.dpv.used) > 0 {
			prev := g.dpv.used[g.rng.Intn(len(g.dpv.used))]
			d.Jti, d.Key, d.ThumbKey = prev.Jti, prev.Key, prev.Key
		}
	case "no-htm":
		d.Htm, d.Method = "", ""
	}
}

func (g *c02Gen) dpopVal() c02Op {
	d := g.dpvBase()
	var defects []string
	switch r := g.rng.Intn(10); {
	case r < 3:
	case r < 8:
		defects = []string{c02DPoPDefects[g.rng.Intn(len(c02DPoPDefects))]}
	default:
		defects = g.subsetOf(c02DPoPDefects, 3)
	}
	for _, x := range defects {
		g.dpvApply(&d, x)
	}
	g.dpv.used = append(g.dpv.used, d)
	return c02Op{Op: "dpopval", DPV: &d, Defects: defects}
}

// c02TargetedDPoP (k): one world, tokens issued with and without DPoP; for every token a right proof (valid), the same proof
// again (refused), then every SINGLE defect alone with a fresh jti, each followed by the right proof with the SAME jti (a refused
// validation must not have burned it); replays across the token lifetime (before / after the 15 minutes).
func c02TargetedDPoP(t *testing.T, out *c02Out, rng *rand.Rand) {
	g := &c02Gen{rng: rng, subjects: []string{"alpha", "alpha2", "beta"}}
	cfg := g.newConfig(false)
	w := c02NewWorld(t, cfg)
	cfg.T = w.nowNs()
	out.emit(&cfg, "cfg")
	for i := 0; i < 12 && len(g.issued) < 3; i++ {
		op := g.s2sRequest(nil, w.nowMs())
		op.DPoP = &c02DPoP{Kind: "valid", Idx: i % 3}
		line := w.exec(&op)
		out.emit(&op, line)
		if strings.HasPrefix(line, "200 ") {
			g.issued = append(g.issued, strings.Fields(line)[1][len("token="):])
			g.dpv.note(g.issued[len(g.issued)-1], op.DPoP)
		}
	}
	run := func(d c02DPoPVal, defects []string) string {
		op := c02Op{Op: "dpopval", DPV: &d, Defects: defects}
		line := w.exec(&op)
		out.emit(&op, line)
		g.dpv.used = append(g.dpv.used, d)
		return line
	}
	for _, defect := range c02DPoPDefects {
		base := g.dpvBase()
		if defect == "jti-reused" || defect == "replay-elsewhere" {
			run(base, nil)
			again := base
			if defect == "replay-elsewhere" {
				again.Htu, again.URL = "https://rs.example/elsewhere", "https://rs.example/elsewhere"
				again.Htm, again.Method = "DELETE", "DELETE"
			}
			run(again, []string{defect})
			continue
		}
		bad := base
		g.dpvApply(&bad, defect)
		run(bad, []string{defect})
		run(base, nil)                    // the refused validation did not burn the jti
		run(base, []string{"jti-reused"}) // and now it is burned
	}
	// the thumbprint taken from the real introspection answer: proof by the bound key, by each other key, for a bearer token
	for _, tok := range g.issued {
		bound, ok := g.dpv.tokKey[tok]
		for k := 0; k < 3; k++ {
			d := g.dpvBase()
			d.Token, d.ThumbFrom, d.Key, d.ThumbKey, d.AthOf = tok, tok, k, k, ""
			var defects []string
			if !ok {
				defects = []string{"bearer-token"}
			} else if k != bound {
				defects = []string{"other-key"}
			}
			run(d, defects)
		}
	}
	// the jti is remembered for the lifetime of an access token: replays before and after
	for _, ms := range []int64{1000, 890000, 8000, 2000} {
		first := g.dpvBase()
		run(first, nil)
		adv := c02Op{Op: "advance", Ms: ms}
		out.emit(&adv, w.exec(&adv))
		run(first, []string{"jti-reused"})
		adv2 := c02Op{Op: "advance", Ms: 898000 - ms}
		out.emit(&adv2, w.exec(&adv2))
		run(first, []string{"jti-reused"})
		adv3 := c02Op{Op: "advance", Ms: 4000}
		out.emit(&adv3, w.exec(&adv3))
		run(first, []string{"jti-after-expiry"})
	}
	w.ctrl.Finish()
}

// ---- wave 9 -------------------------------------------------------------------------------------------------------------

// execTokSkew: the state "between token expiration and pruning of the database" (the comment in introspectAccessToken): the stored
// record's Expiration lies op.Ms milliseconds BEFORE now while the store still returns the entry (re-put through the real store
// API, so the entry lives a full TTL from now). Introspection must answer inactive at every instant after Expiration.
func (w *c02World) execTokSkew(op *c02Op) string {
	op.T = w.nowNs()
	return c02Recover(func() string {
		var rec AccessToken
		if err := w.w.accessTokenServerStore().Get(w.realToken(op.Token), &rec); err != nil {
			return "absent"
		}
		rec.Expiration = time.Now().Add(-time.Duration(op.Ms) * time.Millisecond)
		if err := w.w.accessTokenServerStore().Put(w.realToken(op.Token), rec); err != nil {
			return "put-failed"
		}
		return "skewed"
	})
}

// execOnceOnly: two requests register the same fresh s2s nonce; each obtains its store through the REAL per-request GetStore on the
// real in-memory session database (as s2sNonceStore() does), over a gated go-cache client. Forced interleaving: request A is parked
// between the Get and the Put of its PutIfAbsent, then request B runs. With the database-wide mutex B cannot even read before A is
// done (B is observed blocked, A is released, B is told "not fresh"); if B gets through, both are told the nonce is fresh.
func (w *c02World) execOnceOnly(op *c02Op) string {
	op.T = w.nowNs()
	var phase atomic.Int32
	events := make(chan string, 16)
	releaseA := make(chan struct{})
	gate := func(method, key string) {
		if !strings.Contains(key, op.Key) {
			return
		}
		if phase.Load() == 0 && method == "Set" {
			events <- "A-at-Set"
			<-releaseA
			return
		}
		if phase.Load() == 1 && method == "Get" {
			events <- "B-at-Get"
		}
	}
	db := storage.NewVerifGatedCacheDB(gate)
	fresh := [2]bool{}
	done := [2]chan struct{}{make(chan struct{}), make(chan struct{})}
	request := func(i int) {
		defer close(done[i])
		st := db.GetStore(s2sMaxClockSkewForOnceOnly(), "s2s", "nonce")
		ok, err := st.PutIfAbsent(op.Key, true)
		fresh[i] = err == nil && ok
	}
	go request(0)
	select {
	case <-events:
	case <-done[0]:
		return "once-only A-never-parked"
	case <-time.After(10 * time.Second):
		return "once-only timeout"
	}
	phase.Store(1)
	go request(1)
	through := false
	select {
	case <-events:
		through = true
		<-done[1]
	case <-done[1]:
		through = true
	case <-time.After(300 * time.Millisecond):
		// B is kept out (it waits for the mutex A holds)
	}
	close(releaseA)
	<-done[0]
	<-done[1]
	n := 0
	for _, f := range fresh {
		if f {
			n++
		}
	}
	_ = through
	return fmt.Sprintf("once-only max-fresh=%d", n)
}

func s2sMaxClockSkewForOnceOnly() time.Duration { return time.Minute }

// c02TargetedExpiry (l): tokens whose record expired a fraction of a second ago but are still in the store: introspected at once
// (plain and extended, direct and over HTTP) - inside the same wall-clock second for most offsets; plus the once-only registration
// under real concurrency with per-request stores.
func c02TargetedExpiry(t *testing.T, out *c02Out, rng *rand.Rand) {
	g := &c02Gen{rng: rng, subjects: []string{"alpha", "alpha2", "beta"}}
	cfg := g.newConfig(false)
	w := c02NewWorld(t, cfg)
	cfg.T = w.nowNs()
	out.emit(&cfg, "cfg")
	for i := 0; i < 40 && len(g.issued) < 8; i++ {
		op := g.s2sRequest(nil, w.nowMs())
		line := w.exec(&op)
		out.emit(&op, line)
		if strings.HasPrefix(line, "200 ") {
			g.issued = append(g.issued, strings.Fields(line)[1][len("token="):])
		}
	}
	for i, tok := range g.issued {
		before := c02Op{Op: "introspect", Token: tok}
		out.emit(&before, w.exec(&before))
		sk := c02Op{Op: "tokskew", Token: tok, Ms: []int64{1, 20, 50, 120, 300, 450, 700, 999}[i%8]}
		out.emit(&sk, w.exec(&sk))
		for k := 0; k < 2; k++ {
			in := c02Op{Op: "introspect", Token: tok, Extended: k == 1, HTTP: i%2 == 1}
			out.emit(&in, w.exec(&in))
		}
	}
	for k := 0; k < 2; k++ {
		oo := c02Op{Op: "onceonly", Key: fmt.Sprintf("race-nonce-%d", k), Ms: 2}
		out.emit(&oo, w.exec(&oo))
	}
	w.ctrl.Finish()
}
