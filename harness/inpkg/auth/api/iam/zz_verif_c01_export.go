//go:build verif

package iam

import (
	"github.com/nuts-foundation/go-did/did"
	"github.com/nuts-foundation/go-did/vc"
)

// C01 (deepening round 3): add-only export of the two per-presentation checks of the S2S token handler's first loop, so that the C01
// harness (package verifier_test) can run them on generated envelopes.
func VerifValidatePresentationSigner(presentation vc.VerifiablePresentation, expected did.DID) (*did.DID, error) {
	return validatePresentationSigner(presentation, expected)
}

func VerifValidateS2SPresentationMaxValidity(presentation vc.VerifiablePresentation) error {
	return validateS2SPresentationMaxValidity(presentation)
}
