//go:build verif

package iam

// C02 deepening: the server's OWN request objects. Every OpenID4VP leg stores one (nonce + state inside) and hands the wallet a
// request_uri; the REAL RequestJWTByGet / RequestJWTByPost are called with the real ids taken from the redirects, a stub signer
// records the claims handed to jar.Sign (the real jar.Sign runs: DID parsing, key resolution).

import (
	"context"
	"fmt"
	"net/url"
	"sort"
	"strings"

	"github.com/nuts-foundation/nuts-node/auth/oauth"
	"github.com/nuts-foundation/nuts-node/crypto/dpop"
)

func init() {
	c02ErrTags = append(c02ErrTags, [][2]string{
		{"request object not found", "request-object-not-found"},
		{"used request_uri_method 'get' on a 'post' request_uri", "get-on-post-request_uri"},
		{"used request_uri_method 'post' on a 'get' request_uri", "post-on-get-request_uri"},
		{"unable to create Request Object", "sign-failed"},
	}...)
}

type c02JWTSigner struct{ w *c02World }

func (s c02JWTSigner) SignJWT(_ context.Context, claims map[string]interface{}, _ map[string]interface{}, kid string) (string, error) {
	s.w.lastSigned, s.w.lastSignedKid = claims, kid
	return "signed.request.object", nil
}

func (s c02JWTSigner) SignJWS(context.Context, []byte, map[string]interface{}, string, bool) (string, error) {
	return "", fmt.Errorf("not used")
}

func (s c02JWTSigner) SignDPoP(context.Context, dpop.DPoP, string) (string, error) {
	return "", fmt.Errorf("not used")
}

// noteRequestURI remembers the real id of the request object a redirect announces, under the name of the leg's nonce
func (w *c02World) noteRequestURI(u *url.URL) {
	nonce, ru := u.Query().Get("nonce"), u.Query().Get("request_uri")
	if nonce == "" || ru == "" {
		return
	}
	if w.roReal == nil {
		w.roReal = map[string]string{}
	}
	w.roReal["ro:"+w.nonceName(nonce)] = ru[strings.LastIndexByte(ru, '/')+1:]
}

type c02GenRO struct {
	Name    string
	Subject string
	Owner   string
	Fetched bool
}

// noteROs: the legs an operation opened (its answer names the fresh nonce and the wallet owner type)
func (g *c02Gen) noteROs(op *c02Op, line string) {
	if op.Op != "authreq" && op.Op != "authz" && op.Op != "authresp" && op.Op != "race" {
		return
	}
	f := strings.FieldsFunc(line, func(r rune) bool { return r == ' ' || r == '[' || r == ']' })
	owner := ""
	for _, x := range f {
		if strings.HasPrefix(x, "next=") {
			owner = x[len("next="):]
		}
		if strings.HasPrefix(x, "owner=") {
			owner = x[len("owner="):]
		}
	}
	for i, x := range f {
		if !strings.HasPrefix(x, "nonce=on#") {
			continue
		}
		o := owner
		// 302 state=.. nonce=.. owner=..  /  200 next=.. nonce=..
		if i > 0 && strings.HasPrefix(f[i-1], "next=") {
			o = f[i-1][len("next="):]
		}
		subject := op.Subject
		if op.Op != "authreq" && op.Op != "authz" && op.State != nil {
			for _, s := range g.sessions {
				if s.State == *op.State {
					subject = s.Spec.OwnSubject
				}
			}
		}
		g.ros = append(g.ros, &c02GenRO{Name: "ro:" + x[len("nonce="):], Subject: subject, Owner: o})
	}
}

func (g *c02Gen) roFetch() c02Op {
	rng := g.rng
	ro := g.ros[rng.Intn(len(g.ros))]
	for k := 0; k < 3 && ro.Fetched; k++ {
		ro = g.ros[rng.Intn(len(g.ros))]
	}
	op := c02Op{Op: "reqobj", ID: ro.Name, Subject: ro.Subject, Method: "get"}
	if ro.Owner == "user" {
		op.Method = "post"
	}
	switch rng.Intn(8) {
	case 0:
		op.Defects = []string{"other-method"}
		if op.Method == "get" {
			op.Method = "post"
		} else {
			op.Method = "get"
		}
	case 1:
		op.Defects = []string{"other-tenant"}
		for _, s := range g.subjects {
			if s != ro.Subject {
				op.Subject = s
			}
		}
	case 2:
		op.Defects = []string{"bogus-id"}
		op.ID = g.pick([]string{"ro:on#999", "", "ro:" + ro.Name, strings.ToUpper(ro.Name)})
	}
	if op.Method == "post" && rng.Intn(2) == 0 {
		op.WalletNonce = c02Ptr(fmt.Sprintf("wn-%d", rng.Intn(1000)))
		if rng.Intn(2) == 0 {
			op.WalletIssuer = c02Ptr(g.pick([]string{"https://wallet.example", "https://self-issued.me/v2", ""}))
		}
	}
	ro.Fetched = true
	return op
}

func (w *c02World) execReqObj(op *c02Op) string {
	id := op.ID
	if real, ok := w.roReal[op.ID]; ok {
		id = real
	}
	w.lastSigned = nil
	op.T = w.nowNs()
	return c02Recover(func() string {
		var err error
		if op.Method == "post" {
			body := &RequestJWTByPostFormdataRequestBody{WalletNonce: op.WalletNonce}
			if op.WalletIssuer != nil {
				body.WalletMetadata = &oauth.AuthorizationServerMetadata{Issuer: *op.WalletIssuer}
			}
			if op.WalletNonce == nil && op.WalletIssuer == nil {
				body = nil
			}
			_, err = w.w.RequestJWTByPost(context.Background(), RequestJWTByPostRequestObject{SubjectID: op.Subject, Id: id, Body: body})
		} else {
			_, err = w.w.RequestJWTByGet(context.Background(), RequestJWTByGetRequestObject{SubjectID: op.Subject, Id: id})
		}
		if err != nil {
			return c02Err(err)
		}
		if w.lastSigned == nil {
			return "ok-but-nothing-signed"
		}
		keys := []string{"aud", "client_id", "iss", "nonce", "response_mode", "response_type", "state", "wallet_nonce"}
		sort.Strings(keys)
		var parts []string
		for _, k := range keys {
			v, present := w.lastSigned[k]
			s := "-"
			if present {
				s = fmt.Sprint(v)
				switch k {
				case "nonce":
					s = w.nonceName(s)
				case "state":
					if name, ok := w.stateNames[s]; ok {
						s = name
					}
				}
			}
			parts = append(parts, k+"="+s)
		}
		out := "ok " + strings.Join(parts, " ")
		if !strings.HasPrefix(w.lastSignedKid, "did:web:as.example:iam:"+op.Subject+"#") {
			out += " SIGNED-WITH-KEY-OF:" + w.lastSignedKid
		}
		return out
	})
}
