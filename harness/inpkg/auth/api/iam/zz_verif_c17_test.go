//go:build verif

package iam

// C17 harness for the authorization-request-object consumer jar.validate (in-package: `jar` and `validate` are
// unexported). Uses the shared hostile generator of http/tokenV2 (overlaid export file). Every variant is validated
// under several client environments: the client publishes the signer's key under the kid (normal), publishes ANOTHER
// key under that kid, does not publish the kid, its configuration cannot be fetched, and a client_id mismatch.
// The attacker of this consumer has a DID of his own (the DID resolver knows his key) but is not the client.
// Injected with `go test -overlay`; nothing is written into /repo.

import (
	"bufio"
	"context"
	"crypto"
	"encoding/json"
	"errors"
	"math/rand"
	"os"
	"path/filepath"
	"strconv"
	"strings"
	"testing"
	"time"

	"github.com/lestrrat-go/jwx/v2/jwa"
	"github.com/lestrrat-go/jwx/v2/jwk"
	"github.com/lestrrat-go/jwx/v2/jwt"
	"github.com/nuts-foundation/nuts-node/auth"
	iamclient "github.com/nuts-foundation/nuts-node/auth/client/iam"
	"github.com/nuts-foundation/nuts-node/auth/oauth"
	"github.com/nuts-foundation/nuts-node/http/tokenV2"
	"github.com/nuts-foundation/nuts-node/vdr/resolver"
	"go.uber.org/mock/gomock"
)

type vJarOp struct {
	Op    string                 `json:"op"`
	C     string                 `json:"c"`
	Name  string                 `json:"name"`
	Class string                 `json:"class"`
	HAlg  string                 `json:"halg"`
	By    string                 `json:"by"`
	Envr  string                 `json:"env"`
	Info  tokenV2.VInfo          `json:"info"`
	V     map[string]interface{} `json:"v"`
}

func TestVerifC17Jar(t *testing.T) {
	outDir := os.Getenv("VERIF_OUT")
	if outDir == "" {
		t.Skip("VERIF_OUT not set")
	}
	seed, _ := strconv.ParseInt(os.Getenv("VERIF_SEED"), 10, 64)
	r := rand.New(rand.NewSource(seed*32452843 + 171))
	rounds := 2
	if os.Getenv("VERIF_TIER") == "thorough" {
		rounds = 8
	}
	if v, err := strconv.Atoi(os.Getenv("VERIF_ROUNDS")); err == nil {
		rounds = v
	}
	only := map[string]bool{}
	if p := os.Getenv("VERIF_REPLAY"); p != "" {
		b, _ := os.ReadFile(p)
		for _, line := range strings.Split(string(b), "\n") {
			var m struct{ C, Name string }
			if json.Unmarshal([]byte(line), &m) == nil && m.Name != "" {
				only[m.C+"|"+m.Name] = true
			}
		}
	}
	for k := range only { // replaying a step of a key history needs the earlier steps on the same object
		for _, ph := range []string{"@history-key-removed", "@history-key-restored"} {
			if strings.Contains(k, ph) {
				only[strings.Replace(k, ph, "", 1)] = true
				only[strings.Replace(k, ph, "@history-key-removed", 1)] = true
			}
		}
	}
	opsF, _ := os.Create(filepath.Join(outDir, "ops.jsonl"))
	implF, _ := os.Create(filepath.Join(outDir, "impl.out"))
	ops, impl := bufio.NewWriterSize(opsF, 1<<20), bufio.NewWriterSize(implF, 1<<20)
	defer func() { ops.Flush(); impl.Flush(); opsF.Close(); implF.Close() }()
	n := 0

	clients := []*tokenV2.VKey{tokenV2.VNewKey("p256", "alice"), tokenV2.VNewKey("ed", "bob"), tokenV2.VNewKey("rsa", "carol"), tokenV2.VNewKey("p521", "erin")}
	mallory := tokenV2.VNewKey("p256", "mallory") // has a DID of his own: the DID resolver knows his key, no client publishes it
	decoy := tokenV2.VNewKey("p256", "decoy")     // a key a client might publish under somebody's kid
	// the protocol's first key source: the DID resolver
	source := map[string]crypto.PublicKey{}
	for _, k := range append([]*tokenV2.VKey{mallory}, clients...) {
		k.SetKid("did:web:example.com:iam:" + k.KeyName() + "#key-1")
		source[k.KeyID()] = k.Public()
	}

	ctrl := gomock.NewController(t)
	mockIAMClient := iamclient.NewMockClient(ctrl)
	mockAuth := auth.NewMockAuthenticationServices(ctrl)
	mockAuth.EXPECT().IAMClient().Return(mockIAMClient).AnyTimes()
	mockKeyResolver := resolver.NewMockKeyResolver(ctrl)
	mockKeyResolver.EXPECT().ResolveKeyByID(gomock.Any(), gomock.Any(), resolver.AssertionMethod).DoAndReturn(
		func(kid string, _ *resolver.ResolveMetadata, _ resolver.RelationType) (crypto.PublicKey, error) {
			if k, ok := source[kid]; ok {
				return k, nil
			}
			return nil, resolver.ErrKeyNotFound
		}).AnyTimes()
	// the second key source: what the client publishes in its OpenID configuration; switched per environment
	var clientSet jwk.Set
	var configErr error
	mockIAMClient.EXPECT().OpenIDConfiguration(gomock.Any(), gomock.Any()).DoAndReturn(
		func(_ context.Context, _ string) (*oauth.OpenIDConfiguration, error) {
			if configErr != nil {
				return nil, configErr
			}
			return &oauth.OpenIDConfiguration{JWKs: clientSet}, nil
		}).AnyTimes()
	j := &jar{auth: mockAuth, keyResolver: mockKeyResolver}
	now := time.Now()

	tpOf := func(k jwk.Key) string {
		if k == nil {
			return ""
		}
		b, err := k.Thumbprint(crypto.SHA256)
		if err != nil {
			return ""
		}
		return hexOf(b[:8])
	}
	// the client's key set as (kid, thumbprint) entries in order, and the thumbprint of the key the DID resolver has for a kid: the
	// model does LookupKeyID + compareThumbprint itself (the `clientkey` verdict below is kept for the oracle only)
	descOf := func(s jwk.Set) []map[string]interface{} {
		d := []map[string]interface{}{}
		if s == nil {
			return d
		}
		for i := 0; i < s.Len(); i++ {
			k, _ := s.Key(i)
			d = append(d, map[string]interface{}{"kid": k.KeyID(), "tp": tpOf(k)})
		}
		return d
	}
	resolvedTp := func(kid string) string {
		if pk, ok := source[kid]; ok {
			if jk, err := jwk.FromRaw(pk); err == nil {
				return tpOf(jk)
			}
		}
		return ""
	}
	setOf := func(kid string, key jwk.Key) jwk.Set {
		s := jwk.NewSet()
		if key != nil {
			_ = key.Set(jwk.KeyIDKey, kid)
			_ = s.AddKey(key)
		}
		return s
	}

	// The long-lived object (jar / signature verifier / authz server) is used across a KEY HISTORY: after the main run every key is
	// removed from the key source and the valid tokens are presented again (must be refused: the verification key is what the
	// source returns NOW), then the keys are restored (accepted again).
	savedKeys := map[string]crypto.PublicKey{}
	for _, phase := range []string{"", "@history-key-removed", "@history-key-restored"} {
		phaseRounds := rounds
		switch phase {
		case "@history-key-removed":
			phaseRounds = 1
			for k, v := range source {
				savedKeys[k] = v
				delete(source, k)
			}
		case "@history-key-restored":
			phaseRounds = 1
			for k, v := range savedKeys {
				source[k] = v
			}
		}
		for round := 0; round < phaseRounds; round++ {
			for ki, signer := range clients {
				clientID := "https://example.com/oauth2/" + signer.KeyName()
				claims := map[string]interface{}{"iss": clientID, "client_id": clientID, "aud": "https://example.com/oauth2/verifier", "nonce": "n-1",
					"response_type": "code", "iat": now.Add(-time.Minute).Unix(), "nbf": now.Add(-time.Minute).Unix(), "exp": now.Add(time.Hour).Unix()}
				base := tokenV2.VNewBase(map[string]interface{}{"typ": "oauth-authz-req+jwt", "kid": signer.KeyID()}, tokenV2.VJSON(claims),
					signer, clients[(ki+1)%len(clients)], mallory)
				for _, v := range tokenV2.VHostile(r, base, 12) {
					v.Name = "r" + strconv.Itoa(round) + "-" + signer.KeyName() + "-" + v.Name
					if phase != "" { // key history on the long-lived object: only the plain valid token, after the key source changed
						if v.Class != "valid" || !strings.HasSuffix(v.Name, "-valid") {
							continue
						}
						v.Name += phase
						if phase == "@history-key-removed" {
							v.Class = "key-removed"
						}
					}
					info, _ := tokenV2.VAnalyse(v.Tok)
					// what the libraries / the DID resolver say (same calls ParseJWT makes)
					verd := map[string]interface{}{}
					signerKid := ""
					claimedClientID := ""
					if info.Parses && len(info.Sigs) == 1 {
						signerKid = info.Sigs[0].Kid
						key, ok := source[signerKid]
						verd["keyfound"] = ok
						if ok {
							verd["fits"] = tokenV2.VAlgFitsKey(info.Sigs[0].Alg, key)
							tok, err := jwt.ParseString(v.Tok, jwt.WithKey(jwa.SignatureAlgorithm(info.Sigs[0].Alg), key), jwt.WithVerify(true), jwt.WithValidate(true))
							verd["verified"] = err == nil
							if err == nil { // the client_id claim as the request-object parser reads it (claim parsing is jwx's business)
								if m, err := tok.AsMap(context.Background()); err == nil {
									claimedClientID = parseJWTClaims(m).get(oauth.ClientIDParam)
								}
							}
						}
					}
					type envr struct {
						name     string
						set      jwk.Set
						cfgErr   error
						clientID string
					}
					envs := []envr{
						{"client-publishes-signer-key", setOf(signerKid, signer.PublicJWK()), nil, clientID},
						{"client-publishes-other-key-under-kid", setOf(signerKid, decoy.PublicJWK()), nil, clientID},
						{"client-does-not-publish-kid", setOf("other-kid", signer.PublicJWK()), nil, clientID},
						{"client-config-unavailable", nil, errors.New("unreachable"), clientID},
						{"client-id-mismatch", setOf(signerKid, signer.PublicJWK()), nil, "https://example.com/oauth2/somebody-else"},
					}
					for _, e := range envs {
						if len(only) > 0 && !only["jar|"+v.Name+"@"+e.name] {
							continue
						}
						clientSet, configErr = e.set, e.cfgErr
						vv := map[string]interface{}{"clientid": e.clientID == claimedClientID, "configok": e.cfgErr == nil}
						for k, x := range verd {
							vv[k] = x
						}
						// does the client publish, under the signer kid, the very key the DID resolver returned?
						match := false
						if e.set != nil && signerKid != "" {
							if ck, ok := e.set.LookupKeyID(signerKid); ok {
								if pk, ok := source[signerKid]; ok {
									match = compareThumbprint(ck, pk) == nil
								}
							}
						}
						vv["clientkey"] = match
						vv["set"] = descOf(e.set)
						vv["signertp"] = resolvedTp(signerKid)
						res := "reject"
						func() {
							defer func() {
								if p := recover(); p != nil {
									res = "panic"
								}
							}()
							_, err := j.validate(context.Background(), v.Tok, e.clientID)
							if err == nil {
								res = "accept"
							} else if os.Getenv("VERIF_DEBUG") != "" {
								var oe oauth.OAuth2Error
								if errors.As(err, &oe) {
									t.Logf("%s@%s: %v / %v", v.Name, e.name, oe.Description, oe.InternalError)
								}
							}
						}()
						b, _ := json.Marshal(vJarOp{Op: "consume", C: "jar", Name: v.Name + "@" + e.name, Class: v.Class, HAlg: v.HAlg, By: v.By, Envr: e.name, Info: info, V: vv})
						ops.Write(b)
						ops.WriteByte('\n')
						impl.WriteString(res + "\n")
						n++
					}
				}
			}
		}
	}

	// ---- leg `jarset` (deepening round 3): the client's published key set as a LIST. The model computes LookupKeyID (first entry with
	// the kid) and compareThumbprint itself from (kid, thumbprint) entries; the harness only supplies thumbprints. Shapes: empty set,
	// the signer's kid absent / present once / present twice with the right key first or second, entries without kid, case and
	// white-space variants of the kid, the signer's KEY under other kids, other parties' kids, random sets. Tokens: the client's own
	// valid request, a request for the client's client_id signed by mallory under mallory's OWN kid (resolves through the DID
	// resolver, published by nobody), and one signed by mallory under the client's kid.
	type ent struct {
		kid string
		key *tokenV2.VKey
	}
	mkSet := func(es []ent) (jwk.Set, []map[string]interface{}) {
		s := jwk.NewSet()
		desc := []map[string]interface{}{}
		for _, e := range es {
			k := e.key.PublicJWK()
			if e.kid != "" {
				_ = k.Set(jwk.KeyIDKey, e.kid)
			}
			if err := s.AddKey(k); err != nil {
				continue
			}
			desc = append(desc, map[string]interface{}{"kid": k.KeyID(), "tp": tpOf(k)})
		}
		return s, desc
	}
	setRounds := 1
	if os.Getenv("VERIF_TIER") == "thorough" {
		setRounds = 4
	}
	for round := 0; round < setRounds; round++ {
		for ki, signer := range clients {
			clientID := "https://example.com/oauth2/" + signer.KeyName()
			other := clients[(ki+1)%len(clients)]
			claims := map[string]interface{}{"iss": clientID, "client_id": clientID, "aud": "https://example.com/oauth2/verifier", "nonce": "n-1",
				"response_type": "code", "iat": now.Add(-time.Minute).Unix(), "nbf": now.Add(-time.Minute).Unix(), "exp": now.Add(time.Hour).Unix()}
			pick := func(b tokenV2.VBase, want string) string {
				for _, v := range tokenV2.VHostile(r, b, 0) {
					if v.Name == want {
						return v.Tok
					}
				}
				return ""
			}
			toks := []struct{ name, class, by, tok string }{
				{"own", "valid", "signer", pick(tokenV2.VNewBase(map[string]interface{}{"typ": "oauth-authz-req+jwt", "kid": signer.KeyID()}, tokenV2.VJSON(claims), signer, other, mallory), "valid")},
				{"mallory-own-kid", "foreign-signer", "attacker", pick(tokenV2.VNewBase(map[string]interface{}{"typ": "oauth-authz-req+jwt", "kid": mallory.KeyID()}, tokenV2.VJSON(claims), mallory, other, signer), "valid")},
				{"other-client-own-kid", "foreign-signer", "other", pick(tokenV2.VNewBase(map[string]interface{}{"typ": "oauth-authz-req+jwt", "kid": other.KeyID()}, tokenV2.VJSON(claims), other, signer, mallory), "valid")},
			}
			for _, tk := range toks {
				if tk.tok == "" {
					t.Fatalf("jarset: no valid variant for %s", tk.name)
				}
				info, _ := tokenV2.VAnalyse(tk.tok)
				verd := map[string]interface{}{}
				signerKid, claimedClientID, signerTp := "", "", ""
				if info.Parses && len(info.Sigs) == 1 {
					signerKid = info.Sigs[0].Kid
					key, ok := source[signerKid]
					verd["keyfound"] = ok
					if ok {
						if jk, err := jwk.FromRaw(key); err == nil {
							signerTp = tpOf(jk)
						}
						verd["fits"] = tokenV2.VAlgFitsKey(info.Sigs[0].Alg, key)
						tok, err := jwt.ParseString(tk.tok, jwt.WithKey(jwa.SignatureAlgorithm(info.Sigs[0].Alg), key), jwt.WithVerify(true), jwt.WithValidate(true))
						verd["verified"] = err == nil
						if err == nil {
							if m, err := tok.AsMap(context.Background()); err == nil {
								claimedClientID = parseJWTClaims(m).get(oauth.ClientIDParam)
							}
						}
					}
				}
				var signerKey *tokenV2.VKey
				for _, k := range append([]*tokenV2.VKey{mallory}, clients...) {
					if k.KeyID() == signerKid {
						signerKey = k
					}
				}
				if signerKey == nil {
					t.Fatalf("jarset: unknown signer kid %q", signerKid)
				}
				K, S := signerKid, signerKey
				didOnly := strings.SplitN(K, "#", 2)[0]
				shapes := []struct {
					name string
					es   []ent
				}{
					{"empty", nil},
					{"only-right", []ent{{K, S}}},
					{"only-decoy-under-kid", []ent{{K, decoy}}},
					{"dup-decoy-then-right", []ent{{K, decoy}, {K, S}}},
					{"dup-right-then-decoy", []ent{{K, S}, {K, decoy}}},
					{"dup-decoy-decoy-right", []ent{{K, decoy}, {K, mallory}, {K, S}}},
					{"right-under-other-kid", []ent{{"other-kid", S}}},
					{"other-then-right", []ent{{"other-kid", decoy}, {K, S}}},
					{"others-then-decoy", []ent{{"other-kid", S}, {"kid-2", decoy}, {K, decoy}}},
					{"right-without-kid", []ent{{"", S}}},
					{"nokid-then-right", []ent{{"", decoy}, {K, S}}},
					{"kid-upper", []ent{{strings.ToUpper(K), S}}},
					{"kid-trailing-space", []ent{{K + " ", S}}},
					{"kid-did-only", []ent{{didOnly, S}}},
					{"kid-prefix-longer", []ent{{K + "0", S}}},
					{"clients-own-set", []ent{{signer.KeyID(), signer}}},
					{"clients-own-set-two-keys", []ent{{signer.KeyID() + "-old", decoy}, {signer.KeyID(), signer}}},
					{"all-parties-own-keys", []ent{{signer.KeyID(), signer}, {other.KeyID(), other}, {mallory.KeyID(), mallory}}},
					{"client-and-other", []ent{{signer.KeyID(), signer}, {other.KeyID(), other}}},
					{"swapped-kids", []ent{{K, signer}, {signer.KeyID(), S}}},
				}
				kidPool := []string{K, K, signer.KeyID(), mallory.KeyID(), other.KeyID(), "other-kid", "", strings.ToUpper(K)}
				keyPool := []*tokenV2.VKey{S, S, signer, mallory, other, decoy}
				for i := 0; i < 12; i++ {
					var es []ent
					for n := r.Intn(5); n > 0; n-- {
						es = append(es, ent{kidPool[r.Intn(len(kidPool))], keyPool[r.Intn(len(keyPool))]})
					}
					shapes = append(shapes, struct {
						name string
						es   []ent
					}{"random-" + strconv.Itoa(i), es})
				}
				for _, sh := range shapes {
					name := "s" + strconv.Itoa(round) + "-" + signer.KeyName() + "-" + tk.name + "@" + sh.name
					if len(only) > 0 && !only["jarset|"+name] {
						continue
					}
					set, desc := mkSet(sh.es)
					clientSet, configErr = set, nil
					vv := map[string]interface{}{"clientid": clientID == claimedClientID, "configok": true, "signertp": signerTp, "set": desc}
					for k, x := range verd {
						vv[k] = x
					}
					res := "reject:?"
					func() {
						defer func() {
							if p := recover(); p != nil {
								res = "panic"
							}
						}()
						_, err := j.validate(context.Background(), tk.tok, clientID)
						if err == nil {
							res = "accept"
						} else {
							var oe oauth.OAuth2Error
							if errors.As(err, &oe) {
								res = "reject:" + oe.Description
							}
						}
					}()
					b, _ := json.Marshal(vJarOp{Op: "consume", C: "jarset", Name: name, Class: tk.class, HAlg: info.Sigs[0].Alg, By: tk.by, Envr: sh.name, Info: info, V: vv})
					ops.Write(b)
					ops.WriteByte('\n')
					impl.WriteString(res + "\n")
					n++
				}
			}
		}
	}

	if n == 0 {
		t.Fatal("nothing generated")
	}
}

func hexOf(b []byte) string {
	const d = "0123456789abcdef"
	o := make([]byte, 0, 2*len(b))
	for _, x := range b {
		o = append(o, d[x>>4], d[x&15])
	}
	return string(o)
}
