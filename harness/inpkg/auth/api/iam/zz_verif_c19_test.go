//go:build verif

// C19 harness for auth/api/iam/openid4vp.go: `withCallbackURI` (compared with the Lean model: the unchecked
// `err.(oauth.OAuth2Error)`) and exploration (crash/timeout oracle + session digest) of the authorize-response handler
// HandleAuthorizeResponse with structure-aware mutants of vp_token / presentation_submission.
package iam

import (
	"context"
	"encoding/base64"
	"encoding/json"
	"errors"
	"fmt"
	mrand "math/rand"
	"net/url"
	"os"
	"testing"

	"github.com/nuts-foundation/nuts-node/http/user"
	"github.com/nuts-foundation/go-did/did"
	"github.com/nuts-foundation/go-did/vc"
	"github.com/nuts-foundation/nuts-node/auth/oauth"
	"github.com/nuts-foundation/nuts-node/vcr/holder"
	"github.com/nuts-foundation/nuts-node/vcr/pe"
	"go.uber.org/mock/gomock"
)

func TestVerifC19(t *testing.T) {
	dir := os.Getenv("VERIF_OUT")
	if dir == "" {
		t.Skip("VERIF_OUT not set")
	}
	o := c19Open(dir)
	defer o.close(dir)
	r := mrand.New(mrand.NewSource(c19Seed()*86028121 + 1))
	m := jmut{r}
	cb, _ := url.Parse("https://example.com/cb")

	// ---- withCallbackURI on every kind of error value
	runCallback := func(kind string) {
		var e error
		switch kind {
		case "oauth2":
			e = oauth.OAuth2Error{Code: oauth.InvalidRequest}
		case "raw":
			e = errors.New("invalid LD-proof for presentation")
		case "wrapped-oauth2":
			e = fmt.Errorf("wrapped: %w", oauth.OAuth2Error{Code: oauth.InvalidRequest})
		case "oauth2-pointer":
			e = &oauth.OAuth2Error{Code: oauth.InvalidRequest}
		}
		res := c19Guard(func() string {
			out := withCallbackURI(e, cb)
			var oe oauth.OAuth2Error
			if errors.As(out, &oe) && oe.RedirectURI != nil {
				return "ok:oauth2"
			}
			return "ok:other"
		})
		o.emit(map[string]any{"op": "callback", "err": kind}, c19Class(res))
	}

	walletOwnerMapping := pe.WalletOwnerMapping{
		pe.WalletOwnerOrganization: pe.PresentationDefinition{Id: "1", InputDescriptors: []*pe.InputDescriptor{
			{Id: "1", Constraints: &pe.Constraints{Fields: []pe.Field{{Path: []string{"$.type"}}}}}}},
	}
	session := OAuthSession{
		AuthorizationServerMetadata: &oauth.AuthorizationServerMetadata{ClientIdSchemesSupported: clientIdSchemesSupported},
		SessionID: "token", OwnSubject: &verifierSubject, ClientID: holderClientID, RedirectURI: "https://example.com/iam/holder/cb",
		Scope: "test", ClientState: "client-state", OpenID4VPVerifier: newPEXConsumer(walletOwnerMapping),
	}
	ctx := newTestClient(t)
	ctx.vcVerifier.EXPECT().VerifyVP(gomock.Any(), true, true, nil).Return(nil, nil).AnyTimes()
	ctx.jar.EXPECT().Create(gomock.Any(), gomock.Any(), gomock.Any(), gomock.Any()).AnyTimes()

	vpToken := `{"type":"VerifiablePresentation", "verifiableCredential":{"type":"VerifiableCredential", "credentialSubject":{"id":"did:web:example.com:iam:holder"}},"proof":{"challenge":"challenge","domain":"https://example.com/oauth2/verifier","proofPurpose":"assertionMethod","type":"JsonWebSignature2020","verificationMethod":"did:web:example.com:iam:holder#0"}}`
	submission := `{"id":"1", "definition_id":"1", "descriptor_map":[{"id":"1","format":"ldp_vc","path":"$.verifiableCredential"}]}`
	handler := func(in string) string {
		var req struct {
			Vp, Sub, State *string
			Subject       string
		}
		if json.Unmarshal([]byte(in), &req) != nil {
			return "err:harness"
		}
		putState(ctx, "state", session)
		putNonce(ctx, "challenge")
		before, _ := json.Marshal(getState(ctx, "state"))
		_, err := ctx.client.HandleAuthorizeResponse(context.Background(), HandleAuthorizeResponseRequestObject{
			Body:      &HandleAuthorizeResponseFormdataRequestBody{VpToken: req.Vp, PresentationSubmission: req.Sub, State: req.State},
			SubjectID: req.Subject,
		})
		if err != nil {
			after, _ := json.Marshal(getState(ctx, "state"))
			if string(before) != string(after) {
				return "STATE-CHANGED-ON-ERROR"
			}
			return "err"
		}
		return "ok"
	}
	mkIn := func(vp, sub, state *string, subject string) string {
		b, _ := json.Marshal(map[string]any{"Vp": vp, "Sub": sub, "State": state, "Subject": subject})
		return string(b)
	}
	st := "state"

	// ---- authorization request FROM a verifier (wallet side): by-value client_metadata / presentation_definition parameters
	reqCtx, _ := user.CreateTestSession(context.Background(), holderSubjectID)
	ctx.iamClient.EXPECT().PostError(gomock.Any(), gomock.Any(), gomock.Any(), gomock.Any()).Return("https://example.com/redirect", nil).AnyTimes()
	ctx.iamClient.EXPECT().PostAuthorizationResponse(gomock.Any(), gomock.Any(), gomock.Any(), gomock.Any(), gomock.Any()).Return("https://example.com/redirect", nil).AnyTimes()
	ctx.iamClient.EXPECT().ClientMetadata(gomock.Any(), gomock.Any()).Return(&oauth.OAuthClientMetadata{VPFormats: oauth.DefaultOpenIDSupportedFormats()}, nil).AnyTimes()
	// presentation_definition_uri: the body a remote verifier serves is decoded the way auth/client/iam's HTTPClient.doRequest does
	// (plain json.Unmarshal into a pe.PresentationDefinition); the harness chooses the body through remotePD
	remotePD := `{"id":"1"}`
	ctx.iamClient.EXPECT().PresentationDefinition(gomock.Any(), gomock.Any()).DoAndReturn(func(context.Context, string) (*pe.PresentationDefinition, error) {
		var pd pe.PresentationDefinition
		if err := json.Unmarshal([]byte(remotePD), &pd); err != nil {
			return nil, err
		}
		return &pd, nil
	}).AnyTimes()
	// the wallet: what holder.BuildSubmission does with the definition it is handed is to Match it against the wallet's credentials
	var walletVC vc.VerifiableCredential
	_ = json.Unmarshal([]byte(`{"@context":["https://www.w3.org/2018/credentials/v1"],"id":"did:web:example.com#1","type":["VerifiableCredential","NutsOrganizationCredential"],"issuer":"did:web:example.com","issuanceDate":"2024-01-01T00:00:00Z","credentialSubject":{"id":"did:web:example.com:iam:holder","organization":{"name":"x","city":"y"}}}`), &walletVC)
	ctx.wallet.EXPECT().BuildSubmission(gomock.Any(), gomock.Any(), gomock.Any(), gomock.Any(), gomock.Any()).DoAndReturn(
		func(_ context.Context, _ []did.DID, _ map[did.DID][]vc.VerifiableCredential, pd pe.PresentationDefinition, _ holder.BuildParams) (*vc.VerifiablePresentation, *pe.PresentationSubmission, error) {
			if _, _, err := pd.Match([]vc.VerifiableCredential{walletVC}); err != nil {
				return nil, nil, err
			}
			return nil, nil, errors.New("no credentials")
		}).AnyTimes()
	fromVerifier := func(in string) string {
		var params map[string]interface{}
		if json.Unmarshal([]byte(in), &params) != nil {
			return "err:harness"
		}
		remotePD = `{"id":"1"}`
		if r, ok := params["__remote_pd"].(string); ok { // (harness-only member: the body served at presentation_definition_uri)
			remotePD = r
			delete(params, "__remote_pd")
		}
		putState(ctx, "state", OAuthSession{SessionID: "token", OwnSubject: &holderSubjectID, RedirectURI: "https://example.com/iam/holder/cb", OtherDID: &verifierDID})
		_, err := ctx.client.handleAuthorizeRequestFromVerifier(reqCtx, holderSubjectID, oauthParameters(params), pe.WalletOwnerOrganization)
		if err != nil {
			return "err"
		}
		return "ok"
	}
	verifierParams := func(over map[string]any, del ...string) string {
		m := map[string]any{
			oauth.ClientIDParam: verifierDID.String(), oauth.ClientIDSchemeParam: entityClientIDScheme,
			oauth.ClientMetadataURIParam: "https://example.com/.well-known/authorization-server/iam/verifier", oauth.NonceParam: "nonce",
			oauth.PresentationDefUriParam: "https://example.com/iam/verifier/presentation_definition?scope=test", oauth.ResponseModeParam: responseModeDirectPost,
			oauth.ResponseURIParam: "https://example.com/iam/verifier/response", oauth.ResponseTypeParam: oauth.VPTokenResponseType, oauth.ScopeParam: "test", oauth.StateParam: "state",
		}
		for _, d := range del {
			delete(m, d)
		}
		for k, v := range over {
			m[k] = v
		}
		b, _ := json.Marshal(m)
		return string(b)
	}

	replay, isReplay := c19ReadOps()
	for _, op := range replay {
		switch op["op"] {
		case "callback":
			k, _ := op["err"].(string)
			runCallback(k)
		case "x.iam.handleAuthorizeRequestFromVerifier":
			in, _ := op["input"].(string)
			o.explore("iam.handleAuthorizeRequestFromVerifier", in, func() string { return fromVerifier(in) })
		case "x.iam.HandleAuthorizeResponse":
			in, _ := op["input"].(string)
			o.explore("iam.HandleAuthorizeResponse", in, func() string { return handler(in) })
		}
	}
	if isReplay {
		return
	}
	for _, k := range []string{"oauth2", "raw", "wrapped-oauth2", "oauth2-pointer"} {
		runCallback(k)
	}
	if res := handler(mkIn(&vpToken, &submission, &st, verifierSubject)); res != "ok" {
		t.Fatalf("valid authorize response is not accepted: %s", res)
	}
	run := func(in, kind string) {
		o.dist["authorize-response:"+kind]++
		o.explore("iam.HandleAuthorizeResponse", in, func() string { return handler(in) })
	}
	// missing members, wrong tenant, unknown state
	other := "other"
	for _, in := range []string{mkIn(nil, &submission, &st, verifierSubject), mkIn(&vpToken, nil, &st, verifierSubject), mkIn(&vpToken, &submission, nil, verifierSubject),
		mkIn(&vpToken, &submission, &other, verifierSubject), mkIn(&vpToken, &submission, &st, "unknown"), mkIn(&vpToken, &submission, &st, "")} {
		run(in, "request-shape")
	}
	// whole-value shapes of vp_token and presentation_submission (empty / single / nested-empty arrays, scalars, objects), with the
	// LIVE session state seeded before every call so that the input gets past the state lookup
	shapes := []string{`[]`, ` [ ] `, `[[]]`, `[[],[]]`, `[{}]`, `[null]`, `{}`, `null`, `""`, `"x"`, `5`, `true`, `[5]`, `["x"]`, `[` + vpToken + `]`, `[[` + vpToken + `]]`,
		`[` + vpToken + `,[]]`, `[` + vpToken + `,null]`, `[` + vpToken + `,` + vpToken + `]`, ``, ` `, `[`, `]`, "\x00"}
	// JWT presentations whose vp claim is absent / null while a jti is present (ParseEnvelope is the handler's first step)
	{
		b64 := base64.RawURLEncoding
		for _, claims := range []string{`{"jti":"x"}`, `{"jti":"x","vp":null}`, `{"jti":"x","vp":5}`, `{"vp":null}`, `{}`, `{"jti":null,"vp":{}}`} {
			shapes = append(shapes, b64.EncodeToString([]byte(`{"alg":"ES256","typ":"JWT","kid":"did:web:example.com:iam:holder#0"}`))+"."+b64.EncodeToString([]byte(claims))+"."+b64.EncodeToString(make([]byte, 64)))
		}
	}
	for _, sh := range shapes {
		v := sh
		run(mkIn(&v, &submission, &st, verifierSubject), "vp_token-shape")
		run(mkIn(&vpToken, &v, &st, verifierSubject), "submission-shape")
		run(mkIn(&v, &v, &st, verifierSubject), "both-shape")
	}
	// the malformed-proof cases of candidate #21: JSON-LD VP whose proof does not parse as exactly one LD proof
	for _, pf := range []string{`5`, `"x"`, `[]`, `[{},{}]`, `{"challenge":5}`, `{"domain":5,"challenge":"challenge"}`, `{"created":"x","challenge":"challenge"}`, `null`, `[null]`, `{"challenge":"challenge","domain":["a"]}`} {
		root, _ := jparse([]byte(vpToken))
		for i, k := range root.keys {
			if k == "proof" {
				root.kids[i] = jraw(pf)
			}
		}
		s := string(root.bytes())
		run(mkIn(&s, &submission, &st, verifierSubject), "malformed-ld-proof")
		two := "[" + vpToken + "," + s + "]"
		run(mkIn(&two, &submission, &st, verifierSubject), "malformed-ld-proof-second-vp")
	}
	// by-value parameters of every JSON shape (a JSON `null` unmarshals into a nil pointer without error)
	runFV := func(in, kind string) {
		o.dist["verifier-request:"+kind]++
		o.explore("iam.handleAuthorizeRequestFromVerifier", in, func() string { return fromVerifier(in) })
	}
	runFV(verifierParams(nil), "valid")
	validPD := `{"id":"1","input_descriptors":[{"id":"1","constraints":{"fields":[{"path":["$.type"]}]}}]}`
	validMD := `{"vp_formats":{"ldp_vp":{"proof_type":["JsonWebSignature2020"]}}}`
	for _, v := range []string{`null`, ` null `, `{}`, `[]`, `""`, `5`, `true`, `"x"`, `{"id":null}`, `{"input_descriptors":null}`, `{"input_descriptors":[null]}`, `{"vp_formats":null}`, `{"vp_formats":{"ldp_vp":null}}`, validPD, validMD} {
		runFV(verifierParams(map[string]any{oauth.PresentationDefParam: v}, oauth.PresentationDefUriParam), "presentation_definition-by-value")
		runFV(verifierParams(map[string]any{oauth.ClientMetadataParam: v}, oauth.ClientMetadataURIParam), "client_metadata-by-value")
		runFV(verifierParams(map[string]any{oauth.ClientMetadataParam: v, oauth.PresentationDefParam: v}, oauth.ClientMetadataURIParam, oauth.PresentationDefUriParam), "both-by-value")
	}
	// definitions that plain json.Unmarshal accepts but the PE schema forbids (nil pointers inside), inline and served remotely
	for _, v := range []string{`{"id":"1","input_descriptors":[null]}`, `{"id":"1","input_descriptors":[{"id":"1","constraints":null}]}`,
		`{"id":"1","input_descriptors":[{"id":"1","constraints":{"fields":[null]}}]}`, `{"id":"1","input_descriptors":[{"id":"1","constraints":{"fields":[{"path":["$.type"],"filter":null}]}}]}`,
		`{"id":"1","input_descriptors":[{"id":"1","constraints":{"fields":[{"path":null}]}}]}`, `{"id":"1","input_descriptors":[{"id":"1","constraints":{"fields":[{"path":["$.type"],"filter":{"type":"string","pattern":null}}]}}]}`,
		`{"id":"1","submission_requirements":[null],"input_descriptors":[{"id":"1","group":["A"],"constraints":{"fields":[{"path":["$.type"]}]}}]}`,
		`{"id":"1","submission_requirements":[{"rule":"pick","from":"A"}],"input_descriptors":[{"id":"1","group":["A"],"constraints":{"fields":[{"path":["$.type"]}]}}]}`,
		`{"id":"1","submission_requirements":[{"rule":"all","from_nested":[null]}],"input_descriptors":[{"id":"1","constraints":{"fields":[{"path":["$.type"]}]}}]}`,
		`{"id":"1","format":null,"input_descriptors":[{"id":"1","format":null,"constraints":{"fields":[{"path":["$.type"]}]}}]}`, `{"id":"1","input_descriptors":null}`, `{"id":"1","input_descriptors":[]}`, validPD} {
		runFV(verifierParams(map[string]any{oauth.PresentationDefParam: v}, oauth.PresentationDefUriParam), "pd-schema-invalid-inline")
	}
	// (the presentation_definition_uri path runs the REAL HTTP client in harness/inpkg/auth/client/iam)
	jsystematic([]byte(verifierParams(map[string]any{oauth.PresentationDefParam: validPD, oauth.ClientMetadataParam: validMD}, oauth.ClientMetadataURIParam, oauth.PresentationDefUriParam)),
		func(b []byte, kind string) { runFV(string(b), kind) })
	jsystematic([]byte(validPD), func(b []byte, kind string) {
		runFV(verifierParams(map[string]any{oauth.PresentationDefParam: string(b)}, oauth.PresentationDefUriParam), "pd:"+kind)
	})
	jsystematic([]byte(validMD), func(b []byte, kind string) {
		runFV(verifierParams(map[string]any{oauth.ClientMetadataParam: string(b)}, oauth.ClientMetadataURIParam), "md:"+kind)
	})

	jsystematic([]byte(vpToken), func(b []byte, kind string) { s := string(b); run(mkIn(&s, &submission, &st, verifierSubject), "vp:"+kind) })
	jsystematic([]byte(submission), func(b []byte, kind string) { s := string(b); run(mkIn(&vpToken, &s, &st, verifierSubject), "submission:"+kind) })
	n := c19Env("VERIF_N", 400)
	for i := 0; i < n; i++ {
		vp, sub := vpToken, submission
		if r.Intn(2) == 0 {
			b, _ := m.mutate([]byte(vpToken))
			vp = string(b)
		} else {
			b, _ := m.mutate([]byte(submission))
			sub = string(b)
		}
		if r.Intn(5) == 0 {
			vp = "[" + vp + "," + vpToken + "]"
		}
		run(mkIn(&vp, &sub, &st, verifierSubject), "rand")
	}
}
