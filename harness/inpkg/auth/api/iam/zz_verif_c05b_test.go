//go:build verif

package iam

// C05, request-level leg (op "forms"): sequences of token requests (every grant type, every subset of parameters, DPoP
// header absent / unparsable / valid) and OpenID4VP authorization responses (1-3 presentations; JWT nonce claim, LD-proof
// challenge and/or nonce, broken LD proof; state absent / unknown / of another flow) are served one after the other by the
// REAL HandleTokenRequest / handleAuthorizeResponseSubmission on the real session database (go-cache; miniredis with clock
// control).  Printed: the OAuth answer of every request and the one-time keys alive at the end.  The compiled Lean model
// (NutsModel/C05/Forms.lean) reads the same op.

import (
	"context"
	stdcrypto "crypto"
	"crypto/ecdsa"
	"crypto/elliptic"
	crand "crypto/rand"
	"encoding/base64"
	"encoding/json"
	"errors"
	"fmt"
	"math/rand"
	"net/http"
	"net/http/httptest"
	"os"
	"sort"
	"strings"
	"time"

	"github.com/labstack/echo/v4"
	"github.com/lestrrat-go/jwx/v2/jwa"
	"github.com/lestrrat-go/jwx/v2/jwt"
	"github.com/nuts-foundation/go-did/vc"
	"github.com/nuts-foundation/nuts-node/auth/oauth"
	"github.com/nuts-foundation/nuts-node/crypto/dpop"
	"github.com/nuts-foundation/nuts-node/storage"
)

type c05Pres struct {
	Fmt       string `json:"fmt"`
	Jwt       string `json:"jwt,omitempty"`
	Lderr     bool   `json:"lderr,omitempty"`
	Challenge string `json:"challenge,omitempty"`
	Nonce     string `json:"nonce,omitempty"`
}

type c05Form struct {
	Dt   int    `json:"dt"`
	T    string `json:"t"` // "token" | "response"
	// token endpoint
	Grant      string    `json:"grant,omitempty"`
	Code       *string   `json:"code,omitempty"`
	Verifier   *string   `json:"verifier,omitempty"`
	Client     *string   `json:"client,omitempty"`
	Assertion  *[]string `json:"assertion,omitempty"`
	Submission bool      `json:"submission,omitempty"`
	Scope      bool      `json:"scope,omitempty"`
	Dpop       string    `json:"dpop,omitempty"`
	// response endpoint
	State        *string    `json:"state,omitempty"`
	Vp           *[]c05Pres `json:"vp,omitempty"`
	UnknownState bool       `json:"unknownState,omitempty"`
	WrongTenant  bool       `json:"wrongTenant,omitempty"` // the session of the state belongs to another subject of this node
	// request object fetch ("reqobj"), landing page ("landing"), DPoP proof validation ("dpop")
	ID       string `json:"id,omitempty"`
	Subject  string `json:"subject,omitempty"`
	Post     bool   `json:"post,omitempty"`
	Token    string `json:"token,omitempty"`
	Jti      string `json:"jti,omitempty"`
	BadParse bool   `json:"badParse,omitempty"`
	BadMatch bool   `json:"badMatch,omitempty"`
	NoAth    bool   `json:"noAth,omitempty"`
	BadAth   bool   `json:"badAth,omitempty"`
}

type c05FormsOp struct {
	Op      string `json:"op"`
	Scn     string `json:"scn"`
	Backend string `json:"backend"`
	Pkce    struct {
		Method string `json:"method"`
		Good   string `json:"good"`
	} `json:"pkce"`
	Init []storage.VerifC05Init `json:"init"`
	Reqs []c05Form              `json:"reqs"`
}

var c05FormsPKCE = generatePKCEParams()

// descriptions are compared up to their first format verb / colon / quote
func c05DescHead(s string) string {
	if i := strings.IndexAny(s, "%:'"); i >= 0 {
		s = s[:i]
	}
	return strings.TrimSpace(s)
}

func c05Ans(err error, okDesc string) string {
	if err == nil {
		return "200"
	}
	var oe oauth.OAuth2Error
	if errors.As(err, &oe) {
		if okDesc != "" && oe.Description == okDesc {
			return "200"
		}
		return string(oe.Code) + "|" + c05DescHead(oe.Description)
	}
	return "other|" + c05DescHead(err.Error())
}

func c05LDRaw(p c05Pres) string {
	if p.Lderr {
		// two proofs: ParseLDProof wants exactly one
		return `{"@context":["https://www.w3.org/2018/credentials/v1"],"type":"VerifiablePresentation","proof":[{"type":"JsonWebSignature2020","challenge":"` + p.Challenge + `"},{"type":"JsonWebSignature2020"}]}`
	}
	fields := ""
	if p.Challenge != "" {
		fields += fmt.Sprintf(`"challenge":%q,`, p.Challenge)
	}
	if p.Nonce != "" {
		fields += fmt.Sprintf(`"nonce":%q,`, p.Nonce)
	}
	return `{"@context":["https://www.w3.org/2018/credentials/v1"],"type":"VerifiablePresentation","proof":{"type":"JsonWebSignature2020",` + fields +
		`"created":"2024-01-01T00:00:00Z","proofPurpose":"authentication","verificationMethod":"did:web:example.com#1","jws":"x"}}`
}

func c05VpToken(ps []c05Pres) string {
	var raws []string
	for _, p := range ps {
		if p.Fmt == "jwt" {
			raw := c05S2SPresentation("jwt", p.Jwt).Raw()
			if len(ps) > 1 {
				raw = `"` + raw + `"`
			}
			raws = append(raws, raw)
		} else {
			raw := c05LDRaw(p)
			if _, err := vc.ParseVerifiablePresentation(raw); err != nil {
				panic(err)
			}
			raws = append(raws, raw)
		}
	}
	if len(raws) == 1 {
		return raws[0]
	}
	return "[" + strings.Join(raws, ",") + "]"
}

var c05FormsDPoPCache = map[string]c05DPoP{}

// a correctly signed DPoP proof with the given jti; noAth: the ath claim is removed before signing
func c05FormsDPoP(id string, noAth bool) c05DPoP {
	if !noAth {
		return c05SignedDPoP(id)
	}
	if d, ok := c05FormsDPoPCache[id]; ok {
		return d
	}
	httpRequest, _ := http.NewRequest("POST", "https://server.example.com/token", nil)
	p := dpop.New(*httpRequest)
	_ = p.GenerateProof("token")
	_ = p.Token.Set(jwt.JwtIDKey, id)
	_ = p.Token.Remove(dpop.ATHKey)
	keyPair, _ := ecdsa.GenerateKey(elliptic.P256(), crand.Reader)
	if _, err := p.Sign("kid", keyPair, jwa.ES256); err != nil {
		panic(err)
	}
	tp, _ := p.Headers.JWK().Thumbprint(stdcrypto.SHA256)
	d := c05DPoP{proof: p.String(), thumbprint: base64.RawURLEncoding.EncodeToString(tp)}
	c05FormsDPoPCache[id] = d
	return d
}

const c05MultiSubmission = `{"id":"","definition_id":"","descriptor_map":[{"id":"1","path":"$[0]","format":"ldp_vp","path_nested":{"id":"1","path":"$.verifiableCredential","format":"ldp_vc"}}]}`

func c05RunForms(w *storage.VerifC05Writer, base *Wrapper, op c05FormsOp) {
	var b *storage.VerifC05Backend
	if op.Backend == "redis" {
		var err error
		if b, err = storage.VerifC05RedisBackend(nil, nil); err != nil {
			panic(err)
		}
	} else {
		b = storage.VerifC05MemBackend(nil, false, nil)
	}
	defer b.Close()
	wr := *base
	wr.storageEngine = c05Engine{Engine: base.storageEngine, db: b.DB}
	for _, i := range op.Init {
		var err error
		switch i.Kind {
		case "code":
			err = wr.oauthCodeStore().Put(i.ID, OAuthSession{ClientID: i.Val, OwnSubject: &verifierSubject, RedirectURI: "https://example.com/cb",
				Scope: "scope", OpenID4VPVerifier: &PEXConsumer{}, PKCEParams: PKCEParams{Challenge: c05FormsPKCE.Challenge, ChallengeMethod: op.Pkce.Method}})
		case "vpnonce":
			err = wr.oauthNonceStore().Put(i.ID, i.Val)
		case "s2s":
			err = wr.s2sNonceStore().Put(i.ID, true)
		case "jti":
			err = wr.useNonceOnceStore().Put(i.ID, struct{}{})
		case "reqobj": // val = subject|method
			parts := strings.SplitN(i.Val, "|", 2)
			u := wr.subjectToBaseURL(parts[0])
			err = wr.authzRequestObjectStore().Put(i.ID, jarRequest{Claims: oauthParameters{"a": "b"}, Client: u.String(), RequestURIMethod: parts[1]})
		case "redirect":
			err = wr.userRedirectStore().Put(i.ID, RedirectSession{SubjectID: holderSubjectID, AccessTokenRequest: RequestUserAccessTokenRequestObject{
				SubjectID: holderSubjectID, Body: &RequestUserAccessTokenJSONRequestBody{Scope: "first second", AuthorizationServer: "https://example.com/oauth2/verifier",
					PreauthorizedUser: &UserDetails{Id: "test", Name: "John Doe", Role: "Caregiver"}}}})
		}
		if err != nil {
			panic(err)
		}
	}
	for _, state := range []string{"clientA", "clientB"} {
		if err := wr.oauthClientStateStore().Put(state, OAuthSession{OwnSubject: &verifierSubject, RedirectURI: "https://example.com/cb", ClientState: state},
			storage.WithTTL(24*time.Hour)); err != nil {
			panic(err)
		}
	}
	if err := wr.oauthClientStateStore().Put("tenantB", OAuthSession{OwnSubject: &holderSubjectID, RedirectURI: "https://example.com/cb", ClientState: "tenantB"},
		storage.WithTTL(24*time.Hour)); err != nil {
		panic(err)
	}
	var answers, callSeqs []string
	var calls []string
	b.Gate.Calls = &calls
	oneTime := map[string]string{"oauth/code/": "code/", "oauth/nonce/": "vpnonce/", "s2s/nonce/": "s2s/",
		"oauth/requestobject/": "reqobj/", "user/redirect/": "redirect/", "nonceonce/": "jti/"}
	for _, f := range op.Reqs {
		f := f
		calls = calls[:0]
		if f.Dt > 0 && b.Advance != nil {
			b.Advance(time.Duration(f.Dt) * time.Second)
		}
		ans := func() (res string) {
			defer func() {
				if r := recover(); r != nil {
					res = fmt.Sprintf("panic:%v", r)
				}
			}()
			switch f.T {
			case "reqobj":
				var err error
				if f.Post {
					_, err = wr.RequestJWTByPost(context.Background(), RequestJWTByPostRequestObject{SubjectID: f.Subject, Id: f.ID})
				} else {
					_, err = wr.RequestJWTByGet(context.Background(), RequestJWTByGetRequestObject{SubjectID: f.Subject, Id: f.ID})
				}
				return c05Ans(err, "")
			case "landing":
				rec := httptest.NewRecorder()
				req := httptest.NewRequest(http.MethodGet, "/oauth2/holder/user", nil)
				q := req.URL.Query()
				q.Set("token", f.Token)
				req.URL.RawQuery = q.Encode()
				err := wr.handleUserLanding(echo.New().NewContext(req, rec))
				if err == nil && rec.Code == http.StatusForbidden {
					// the two refusals differ only in a debug log line: told apart by whether a token was sent
					if f.Token == "" {
						return "403|missing token"
					}
					return "403|token not found in store"
				}
				return "200" // accepted: it goes on to the user session (none here)
			case "dpop":
				d := c05FormsDPoP(f.Jti, f.NoAth)
				body := &ValidateDPoPProofJSONRequestBody{DpopProof: d.proof, Method: "POST", Thumbprint: d.thumbprint, Token: "token", Url: "https://server.example.com/token"}
				if f.BadParse {
					body.DpopProof = "not-a-dpop-proof"
				}
				if f.BadMatch {
					switch len(f.Jti) % 3 {
					case 0:
						body.Method = "GET"
					case 1:
						body.Url = "https://other.example.com/token"
					default:
						body.Thumbprint = "AAAA" + d.thumbprint[4:]
					}
				}
				if f.BadAth {
					body.Token = "another-token"
				}
				resp, err := wr.ValidateDPoPProof(nil, ValidateDPoPProofRequestObject{Body: body})
				if err != nil {
					return c05Ans(err, "")
				}
				v := resp.(ValidateDPoPProof200JSONResponse)
				if v.Valid {
					return "200"
				}
				reason := ""
				if v.Reason != nil {
					reason = *v.Reason
				}
				switch {
				case strings.HasPrefix(reason, "failed to parse DPoP header"):
					return "invalid|failed to parse DPoP header"
				case reason == "missing ath claim", reason == "ath/token claim mismatch", reason == "jti already used":
					return "invalid|" + c05DescHead(reason)
				}
				return "invalid|mismatch"
			}
			if f.T == "response" {
				body := &HandleAuthorizeResponseFormdataRequestBody{State: f.State}
				if f.Vp != nil {
					raw := "[]"
					if len(*f.Vp) > 0 {
						raw = c05VpToken(*f.Vp)
					}
					body.VpToken = &raw
				}
				_, err := wr.handleAuthorizeResponseSubmission(context.Background(), HandleAuthorizeResponseRequestObject{SubjectID: verifierSubject, Body: body})
				// the nonce check is followed by the check for the presentation_submission parameter, which these requests leave out
				return c05Ans(err, "missing presentation_submission")
			}
			hdr := http.Header{}
			switch f.Dpop {
			case "bad":
				hdr.Set("DPoP", "not-a-dpop-proof")
			case "good":
				hdr.Set("DPoP", c05SignedDPoP("forms-dpop").proof)
			}
			httpCtx := context.WithValue(context.Background(), httpRequestContextKey{}, &http.Request{Header: hdr})
			body := HandleTokenRequestFormdataRequestBody{GrantType: f.Grant, Code: f.Code, CodeVerifier: f.Verifier, ClientId: f.Client}
			subject := verifierSubject
			if f.Assertion != nil {
				subject = issuerSubjectID
				var raws []string
				for _, n := range *f.Assertion {
					raws = append(raws, c05S2SPresentation("", n).Raw())
				}
				raw := "[" + strings.Join(raws, ",") + "]"
				if len(raws) == 1 {
					raw = raws[0]
				}
				body.Assertion = &raw
				if f.Client != nil {
					cid := c05ClientID(*f.Client)
					body.ClientId = &cid
				}
			}
			if f.Submission {
				sub := c05S2S.submissionJSON
				if f.Assertion != nil && len(*f.Assertion) > 1 {
					sub = c05MultiSubmission
				}
				body.PresentationSubmission = &sub
			}
			if f.Scope {
				scope := c05Scope(true)
				body.Scope = &scope
			}
			_, err := wr.HandleTokenRequest(httpCtx, HandleTokenRequestRequestObject{SubjectID: subject, Body: &body})
			return c05Ans(err, "")
		}()
		answers = append(answers, ans)
		// the underlying store calls this request made on one-time-store keys, in order
		var seq []string
		for _, c := range calls {
			i := strings.Index(c, ":")
			for prefix, kind := range oneTime {
				if strings.HasPrefix(c[i+1:], prefix) {
					seq = append(seq, c[:i+1]+kind+strings.TrimPrefix(c[i+1:], prefix))
				}
			}
		}
		callSeqs = append(callSeqs, strings.Join(seq, ","))
	}
	b.Gate.Calls = nil
	var live []string
	for _, k := range b.Keys() {
		for prefix, kind := range map[string]string{"oauth/code/": "code/", "oauth/nonce/": "vpnonce/", "s2s/nonce/": "s2s/",
			"oauth/requestobject/": "reqobj/", "user/redirect/": "redirect/", "nonceonce/": "jti/"} {
			if strings.HasPrefix(k, prefix) {
				live = append(live, kind+strings.TrimPrefix(k, prefix))
			}
		}
	}
	sort.Strings(live)
	raw, _ := json.Marshal(op)
	var m map[string]interface{}
	_ = json.Unmarshal(raw, &m)
	w.Raw(m, fmt.Sprintf("forms ans=%s live=[%s] calls=[%s]", strings.Join(answers, ";"), strings.Join(live, ","), strings.Join(callSeqs, ";")))
}

func c05Pick(rng *rand.Rand, xs ...string) string { return xs[rng.Intn(len(xs))] }

func c05OptStr(rng *rand.Rand, absent int, xs ...string) *string {
	if rng.Intn(100) < absent {
		return nil
	}
	s := c05Pick(rng, xs...)
	return &s
}

func c05GenPres(rng *rand.Rand, nonces []string) c05Pres {
	n := func() string { return c05Pick(rng, nonces...) }
	switch rng.Intn(10) {
	case 0, 1:
		return c05Pres{Fmt: "jwt", Jwt: c05Pick(rng, n(), n(), "")}
	case 2:
		return c05Pres{Fmt: "ld", Lderr: true, Challenge: n()}
	case 3, 4:
		return c05Pres{Fmt: "ld", Nonce: n()}
	case 5:
		return c05Pres{Fmt: "ld", Challenge: n(), Nonce: n()}
	case 6:
		return c05Pres{Fmt: "ld"}
	}
	return c05Pres{Fmt: "ld", Challenge: n()}
}

func c05GenForms(rng *rand.Rand, idx int, backend string) c05FormsOp {
	op := c05FormsOp{Op: "forms", Scn: fmt.Sprintf("forms-%d", idx), Backend: backend}
	op.Pkce.Method = "S256"
	if rng.Intn(8) == 0 {
		op.Pkce.Method = c05Pick(rng, "plain", "s256", "")
	}
	op.Pkce.Good = c05FormsPKCE.Verifier
	codes := []string{"c1", "c2", "c1/", "oauth/code/c1"}
	nonces := []string{"n1", "n2", "n3", "c1"}
	s2s := []string{"x1", "x2", "x3"}
	for _, c := range codes[:2] {
		if rng.Intn(4) > 0 {
			op.Init = append(op.Init, storage.VerifC05Init{Kind: "code", ID: c, Val: c05Pick(rng, "clientA", "clientA", "clientB")})
		}
	}
	for _, n := range nonces[:3] {
		if rng.Intn(4) > 0 {
			op.Init = append(op.Init, storage.VerifC05Init{Kind: "vpnonce", ID: n, Val: c05Pick(rng, "clientA", "clientA", "clientB")})
		}
	}
	if rng.Intn(4) == 0 {
		op.Init = append(op.Init, storage.VerifC05Init{Kind: "s2s", ID: c05Pick(rng, s2s...)})
	}
	for _, id := range []string{"r1", "r2"} {
		if rng.Intn(3) > 0 {
			op.Init = append(op.Init, storage.VerifC05Init{Kind: "reqobj", ID: id, Val: c05Pick(rng, "holderA", "holderA", "holderB") + "|" + c05Pick(rng, "get", "get", "post", "GET")})
		}
	}
	for _, id := range []string{"t1", "t2"} {
		if rng.Intn(3) > 0 {
			op.Init = append(op.Init, storage.VerifC05Init{Kind: "redirect", ID: id, Val: ""})
		}
	}
	if rng.Intn(4) == 0 {
		op.Init = append(op.Init, storage.VerifC05Init{Kind: "jti", ID: c05Pick(rng, "j1", "j2"), Val: "{}"})
	}
	nreq := 3 + rng.Intn(4)
	for k := 0; k < nreq; k++ {
		f := c05Form{}
		if backend == "redis" && rng.Intn(3) == 0 {
			f.Dt = []int{1, 7, 14, 15, 16, 30, 59, 60, 61}[rng.Intn(9)]
		}
		switch x := rng.Intn(29); {
		case x >= 26: // landing page
			f.T = "landing"
			f.Token = c05Pick(rng, "t1", "t1", "t2", "t3", "", "redirect/t1")
		case x >= 23: // request object fetch
			f.T = "reqobj"
			f.ID = c05Pick(rng, "r1", "r1", "r2", "r3", "")
			f.Subject = c05Pick(rng, "holderA", "holderA", "holderA", "holderB")
			f.Post = rng.Intn(3) == 0
		case x >= 20: // DPoP proof validation
			f.T = "dpop"
			f.Jti = c05Pick(rng, "j1", "j1", "j2", "j3")
			switch rng.Intn(10) {
			case 0:
				f.BadParse = true
			case 1:
				f.BadMatch = true
			case 2:
				f.NoAth = true
			case 3:
				f.BadAth = true
			}
		case x < 9: // authorization code grant (and near misses of the grant type)
			f.T = "token"
			f.Grant = "authorization_code"
			if rng.Intn(12) == 0 {
				f.Grant = c05Pick(rng, "Authorization_Code", "authorization_code ", "AUTHORIZATION_CODE", "authorization-code")
			}
			f.Code = c05OptStr(rng, 8, "c1", "c1", "c1", "c2", "c2", codes[rng.Intn(len(codes))], "")
			f.Verifier = c05OptStr(rng, 15, c05FormsPKCE.Verifier, c05FormsPKCE.Verifier, c05FormsPKCE.Verifier, "wrong-"+c05FormsPKCE.Verifier, "")
			f.Client = c05OptStr(rng, 15, "clientA", "clientA", "clientA", "clientB", "clienta", "")
			f.Dpop = c05Pick(rng, "", "", "", "", "bad", "good")
		case x < 15: // authorization response
			f.T = "response"
			f.State = c05OptStr(rng, 6, "clientA", "clientA", "clientA", "clientB", "unknown-state", "tenantB")
			if f.State != nil && *f.State == "unknown-state" {
				f.UnknownState = true
			}
			if f.State != nil && *f.State == "tenantB" {
				f.WrongTenant = true
			}
			if rng.Intn(15) > 0 {
				var ps []c05Pres
				np := []int{1, 1, 1, 2, 2, 3, 0}[rng.Intn(7)]
				pool := nonces
				if rng.Intn(2) == 0 { // all presentations agree
					pool = []string{c05Pick(rng, nonces...)}
				}
				for i := 0; i < np; i++ {
					ps = append(ps, c05GenPres(rng, pool))
				}
				if ps == nil {
					ps = []c05Pres{}
				}
				f.Vp = &ps
			}
		case x < 19: // vp_token-bearer grant
			f.T = "token"
			f.Grant = "vp_token-bearer"
			var ns []string
			np := []int{1, 1, 2, 2, 3}[rng.Intn(5)]
			for i := 0; i < np; i++ {
				ns = append(ns, c05Pick(rng, "x1", "x1", "x2", "x3", "x3", ""))
			}
			if rng.Intn(12) > 0 {
				f.Assertion = &ns
			}
			f.Submission = rng.Intn(12) > 0
			f.Scope = rng.Intn(12) > 0
			f.Client = c05OptStr(rng, 8, "clientA", "clientB")
			f.Dpop = c05Pick(rng, "", "", "", "bad", "good")
		default: // other grant types; parameters of the other grants are present
			f.T = "token"
			f.Grant = c05Pick(rng, "urn:ietf:params:oauth:grant-type:pre-authorized_code", "urn:ietf:params:oauth:grant-type:pre-authorized_code", "URN:ietf:params:oauth:grant-type:pre-authorized_code", "refresh_token", "", "*", "vp_token", "client_credentials")
			f.Code = c05OptStr(rng, 30, "c1", "c2")
			f.Verifier = c05OptStr(rng, 30, c05FormsPKCE.Verifier)
			f.Client = c05OptStr(rng, 30, "clientA")
		}
		op.Reqs = append(op.Reqs, f)
		// now and then the honest holder of the secret just named comes right after (the replay the property is about)
		if rng.Intn(3) == 0 {
			if f.T == "token" && f.Grant == "authorization_code" && f.Code != nil {
				v, c := c05FormsPKCE.Verifier, "clientA"
				op.Reqs = append(op.Reqs, c05Form{T: "token", Grant: "authorization_code", Code: f.Code, Verifier: &v, Client: &c})
			} else if f.T == "reqobj" {
				op.Reqs = append(op.Reqs, c05Form{T: "reqobj", ID: f.ID, Subject: "holderA"})
			} else if f.T == "landing" || f.T == "dpop" {
				g := f
				g.Dt, g.BadParse, g.BadMatch, g.NoAth, g.BadAth = 0, false, false, false, false
				op.Reqs = append(op.Reqs, g)
			} else if f.T == "response" && f.Vp != nil {
				for _, p := range *f.Vp {
					if n := p.Challenge + p.Nonce + p.Jwt; n != "" && !p.Lderr && (p.Challenge == "" || p.Nonce == "") {
						st := "clientA"
						op.Reqs = append(op.Reqs, c05Form{T: "response", State: &st, Vp: &[]c05Pres{{Fmt: "ld", Challenge: n}}})
						break
					}
				}
			}
		}
	}
	return op
}

// c05Forms generates and runs the request sequences of one check run
func c05Forms(w *storage.VerifC05Writer, base *Wrapper, rng *rand.Rand, thorough bool) {
	n := 150
	if thorough {
		n = 600
	}
	for i := 0; i < n; i++ {
		backend := "mem"
		if i%4 == 3 {
			backend = "redis"
		}
		c05RunForms(w, base, c05GenForms(rng, i, backend))
	}
}

func c05ReplayForms(w *storage.VerifC05Writer, base *Wrapper, path string) {
	data, err := os.ReadFile(path)
	if err != nil {
		return
	}
	for _, line := range strings.Split(string(data), "\n") {
		var op c05FormsOp
		if json.Unmarshal([]byte(line), &op) == nil && op.Op == "forms" {
			c05RunForms(w, base, op)
		}
	}
}
