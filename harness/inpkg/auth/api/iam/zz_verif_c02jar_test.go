//go:build verif

package iam

// C02 deepening: the FRONT DOOR of the authorization-code flow on the real code - Wrapper.HandleAuthorizeRequest ->
// jar.Parse / jar.validate (RFC 9101 request objects, really signed ES256 JWTs, the real jwx parser) -> the response_type
// switch -> handleAuthorizeRequestFromHolder; and the grant_type switch of HandleTokenRequest (field `grant_type` of s2s / code ops).
// Scripted: IAMClient (request_uri fetches, OpenID configuration of the client) and the key resolver (kid -> key).

import (
	"context"
	"crypto"
	"errors"
	"fmt"
	"encoding/json"
	"net/http"
	"net/http/httptest"
	"net/url"
	"sort"
	"strings"
	"time"

	"github.com/lestrrat-go/jwx/v2/jwa"
	"github.com/lestrrat-go/jwx/v2/jwk"
	"github.com/lestrrat-go/jwx/v2/jws"
	"github.com/lestrrat-go/jwx/v2/jwt"
	"github.com/nuts-foundation/go-did/did"
	"github.com/nuts-foundation/nuts-node/auth/oauth"
	"github.com/nuts-foundation/nuts-node/vdr/resolver"
)

type c02PVal struct {
	K    string   `json:"k"`
	Kind string   `json:"kind"` // str | strs | other (what oauthParameters.get distinguishes)
	V    string   `json:"v,omitempty"`
	L    []string `json:"l,omitempty"`
}

type c02Fetch struct {
	In  string `json:"in"`
	OK  bool   `json:"ok"`
	Out string `json:"out,omitempty"` // token name or literal text
}

type c02KidKey struct {
	Kid   string `json:"kid"`
	Key   int    `json:"key"`
	Thumb string `json:"thumb"` // abstract thumbprint "K<key>": two real thumbprints are equal iff the key index is
}

type c02JarToken struct {
	Raw    string                 `json:"raw"` // the NAME the op uses; the compact JWT is signed at execution time
	Signer int                    `json:"signer"`
	Kid    string                 `json:"kid"`
	Tamper string                 `json:"tamper,omitempty"` // signature | expired | not-yet-valid
	Spec   map[string]interface{} `json:"claims_spec"`
	// the view the model gets (crypto.ParseJWT + AsMap are data): verdict from the spec, claims from the real jwx parser
	OK     bool      `json:"ok"`
	Thumb  string    `json:"thumb,omitempty"`
	Claims []c02PVal `json:"claims,omitempty"`
}

type c02JarConfig struct {
	Client string      `json:"client"`
	OK     bool        `json:"ok"`
	Keys   []c02KidKey `json:"keys,omitempty"`
}

type c02JarQ struct {
	Request          string      `json:"request,omitempty"`
	RequestURI       string      `json:"request_uri,omitempty"`
	RequestURIMethod string      `json:"request_uri_method,omitempty"`
	ClientID         string      `json:"client_id,omitempty"`
	Decoy            [][2]string `json:"decoy,omitempty"` // UNSIGNED query parameters next to the request object
}

func init() {
	c02ErrTags = append(c02ErrTags, [][2]string{
		{"claims 'request' and 'request_uri' are mutually exclusive", "request-and-request_uri"},
		{"failed to get Request Object", "fetch-failed"},
		{"unsupported request_uri_method", "unsupported"},
		{"authorization request are required to use signed request objects", "request-object-required"},
		{"request signature validation failed", "signature"},
		{"invalid client_id claim in signed authorization request", "client_id-claim"},
		{"failed to retrieve OpenID configuration", "openid-configuration"},
		{"client_id does not own signer key", "client-does-not-own-key"},
		{"key mismatch between OpenID configuration and signer key", "key-mismatch"},
		{"authorization endpoint is disabled", "authorization-endpoint-disabled"},
		{"invalid response_mode parameter", "invalid-response_mode"},
		{"missing response_uri parameter", "missing-response_uri"},
		{"not implemented yet", "not-implemented"},
		{"is not supported", "not-supported"},
	}...)
}

// ---------------------------------------------------------------------------------------------- scripted collaborators

type c02JarSpy struct {
	JAR
	w *c02World
}

func (s c02JarSpy) Parse(ctx context.Context, md oauth.AuthorizationServerMetadata, q url.Values) (oauthParameters, error) {
	s.w.inJar = true
	defer func() { s.w.inJar = false }()
	return s.JAR.Parse(ctx, md, q)
}

type c02KeyResolver struct{ w *c02World }

func (r c02KeyResolver) ResolveKeyByID(kid string, _ *resolver.ResolveMetadata, rt resolver.RelationType) (crypto.PublicKey, error) {
	if rt != resolver.AssertionMethod {
		r.w.jarCalls = append(r.w.jarCalls, fmt.Sprintf("RESOLVED-WITH-RELATION(%v)", rt))
	}
	if r.w.jarOp != nil {
		for _, e := range r.w.jarOp.Resolver {
			if e.Kid == kid {
				return r.w.dpopKeys[e.Key].Public(), nil
			}
		}
	}
	return nil, resolver.ErrKeyNotFound
}

func (r c02KeyResolver) ResolveKey(id did.DID, _ *time.Time, _ resolver.RelationType) (string, crypto.PublicKey, error) {
	return id.String() + "#0", r.w.dpopKeys[0].Public(), nil
}

func (w *c02World) jarFetch(table []c02Fetch, uri string) (string, error) {
	for _, e := range table {
		if e.In == uri {
			if !e.OK {
				return "", errors.New("scripted: fetch failed")
			}
			if raw, ok := w.jarReal[e.Out]; ok {
				return raw, nil
			}
			return e.Out, nil
		}
	}
	return "", errors.New("scripted: nothing at this request_uri")
}

func (w *c02World) jarRequestObjectByGet(_ context.Context, uri string) (string, error) {
	w.jarCalls = append(w.jarCalls, "get("+uri+")")
	if w.jarOp == nil {
		return "", errors.New("no jar op")
	}
	return w.jarFetch(w.jarOp.Get, uri)
}

func (w *c02World) jarRequestObjectByPost(_ context.Context, uri string, md oauth.AuthorizationServerMetadata) (string, error) {
	tag := "post("
	if w.jarOp == nil || md.Issuer != c02PublicURL+"/oauth2/"+w.jarOp.Subject {
		tag = "post-with-foreign-metadata("
	}
	w.jarCalls = append(w.jarCalls, tag+uri+")")
	if w.jarOp == nil {
		return "", errors.New("no jar op")
	}
	return w.jarFetch(w.jarOp.Post, uri)
}

// jarOpenIDConfiguration: the call jar.validate makes (the later call of nextOpenID4VPFlow keeps the world's default answer)
func (w *c02World) jarOpenIDConfiguration(issuer string) (*oauth.OpenIDConfiguration, error) {
	w.jarCalls = append(w.jarCalls, "config("+issuer+")")
	for _, c := range w.jarOp.Configs {
		if c.Client != issuer {
			continue
		}
		if !c.OK {
			return nil, errors.New("scripted: configuration fetch failed")
		}
		set := jwk.NewSet()
		for _, k := range c.Keys {
			key, err := jwk.FromRaw(w.dpopKeys[k.Key].Public())
			if err != nil {
				return nil, err
			}
			_ = key.Set(jwk.KeyIDKey, k.Kid)
			_ = set.AddKey(key)
		}
		return &oauth.OpenIDConfiguration{Issuer: issuer, JWKs: set, Metadata: oauth.EntityStatementMetadata{OpenIDProvider: oauth.AuthorizationServerMetadata{
			Issuer: issuer, AuthorizationEndpoint: issuer + "/authorize", ClientIdSchemesSupported: clientIdSchemesSupported}}}, nil
	}
	return nil, errors.New("scripted: unknown client")
}

// ---------------------------------------------------------------------------------------------- execution

// jarSign builds the compact JWT of a token spec and fills the view the model receives
func (w *c02World) jarSign(tk *c02JarToken, resolverTable []c02KidKey) string {
	tok := jwt.New()
	keys := make([]string, 0, len(tk.Spec))
	for k := range tk.Spec {
		keys = append(keys, k)
	}
	sort.Strings(keys)
	for _, k := range keys {
		if err := tok.Set(k, tk.Spec[k]); err != nil {
			w.t.Fatalf("jar claim %s: %v", k, err)
		}
	}
	switch tk.Tamper {
	case "expired":
		_ = tok.Set(jwt.ExpirationKey, time.Now().Add(-time.Hour))
	case "not-yet-valid":
		_ = tok.Set(jwt.NotBeforeKey, time.Now().Add(time.Hour))
	default:
		_ = tok.Set(jwt.ExpirationKey, time.Now().Add(time.Hour))
	}
	hdr := jws.NewHeaders()
	if tk.Kid != "" {
		_ = hdr.Set(jws.KeyIDKey, tk.Kid)
	}
	signed, err := jwt.Sign(tok, jwt.WithKey(jwa.ES256, w.dpopKeys[tk.Signer], jws.WithProtectedHeaders(hdr)))
	if err != nil {
		w.t.Fatalf("jar sign: %v", err)
	}
	raw := string(signed)
	if tk.Tamper == "signature" {
		i := strings.LastIndexByte(raw, '.') + 1
		c := byte('A')
		if raw[i] == 'A' {
			c = 'B'
		}
		raw = raw[:i] + string(c) + raw[i+1:]
	}
	// the view: verdict from the SPEC (signed by the key the resolver knows under this kid, untampered, inside its validity),
	// claims as the real jwx parser presents them (types!)
	tk.OK, tk.Thumb, tk.Claims = false, "", nil
	for _, e := range resolverTable {
		if e.Kid == tk.Kid {
			tk.Thumb = fmt.Sprintf("K%d", e.Key)
			tk.OK = e.Key == tk.Signer && tk.Tamper == "" && tk.Kid != ""
			break
		}
	}
	if parsed, err := jwt.ParseInsecure(signed); err == nil {
		if m, err := parsed.AsMap(context.Background()); err == nil {
			names := make([]string, 0, len(m))
			for k := range m {
				names = append(names, k)
			}
			sort.Strings(names)
			for _, k := range names {
				switch v := m[k].(type) {
				case string:
					tk.Claims = append(tk.Claims, c02PVal{K: k, Kind: "str", V: v})
				case []string:
					tk.Claims = append(tk.Claims, c02PVal{K: k, Kind: "strs", L: v})
				default:
					tk.Claims = append(tk.Claims, c02PVal{K: k, Kind: "other"})
				}
			}
		}
	}
	return raw
}

func (w *c02World) canonAuthorize(resp HandleAuthorizeRequestResponseObject, err error) string {
	if err != nil {
		var oe oauth.OAuth2Error
		if errors.As(err, &oe) && oe.Code == oauth.UnsupportedResponseType {
			r := ""
			if oe.RedirectURI != nil {
				r = oe.RedirectURI.String()
			}
			return "err:" + string(oe.Code) + "/redirect=" + r
		}
		return c02Err(err)
	}
	r, ok := resp.(HandleAuthorizeRequest302Response)
	if !ok {
		return fmt.Sprintf("unexpected-response:%T", resp)
	}
	u, err := url.Parse(r.Headers.Location)
	if err != nil {
		return "unparsable-redirect"
	}
	state := u.Query().Get("state")
	name, known := w.stateNames[state]
	if !known {
		name = fmt.Sprintf("st#%d", len(w.stateNames))
		w.stateNames[state] = name
		w.stateReal[name] = state
	}
	owner := "?"
	if pd, err := url.Parse(u.Query().Get("presentation_definition_uri")); err == nil {
		owner = pd.Query().Get("wallet_owner_type")
	}
	w.noteRequestURI(u)
	return fmt.Sprintf("302 state=%s nonce=%s owner=%s", name, w.nonceName(u.Query().Get("nonce")), owner)
}

// canonAuthorizeHTTP: the same canonical line from the HTTP answer (302 to the next leg, 302 back to the client with error
// parameters when the error carries a redirect URI, JSON error otherwise)
func (w *c02World) canonAuthorizeHTTP(status int, location string, body []byte) string {
	if status == http.StatusFound {
		u, err := url.Parse(location)
		if err != nil {
			return "unparsable-redirect"
		}
		if code := u.Query().Get("error"); code != "" {
			back := *u
			back.RawQuery = ""
			return w.canonAuthorize(nil, oauth.OAuth2Error{Code: oauth.ErrorCode(code), Description: u.Query().Get("error_description"), RedirectURI: &back})
		}
		return w.canonAuthorize(HandleAuthorizeRequest302Response{Headers: HandleAuthorizeRequest302ResponseHeaders{Location: location}}, nil)
	}
	var e struct {
		Error       string `json:"error"`
		Description string `json:"error_description"`
	}
	if err := json.Unmarshal(body, &e); err != nil || e.Error == "" {
		b := string(body)
		if len(b) > 80 {
			b = b[:80]
		}
		return fmt.Sprintf("http-%d:%s", status, b)
	}
	return w.canonAuthorize(nil, oauth.OAuth2Error{Code: oauth.ErrorCode(e.Error), Description: e.Description})
}

func (w *c02World) execAuthz(op *c02Op) string {
	if op.Q == nil {
		return "bad-authz-op"
	}
	w.jarReal = map[string]string{}
	for i := range op.Tokens {
		w.jarReal[op.Tokens[i].Raw] = w.jarSign(&op.Tokens[i], op.Resolver)
	}
	for i := range op.Configs {
		for k := range op.Configs[i].Keys {
			op.Configs[i].Keys[k].Thumb = fmt.Sprintf("K%d", op.Configs[i].Keys[k].Key)
		}
	}
	w.jarOp, w.jarCalls, w.authzEnabled = op, nil, op.Enabled
	defer func() { w.jarOp = nil }()
	q := url.Values{}
	set := func(k, v string) {
		if v != "" {
			q.Set(k, v)
		}
	}
	reqValue := op.Q.Request
	if raw, ok := w.jarReal[reqValue]; ok {
		reqValue = raw
	}
	set(oauth.RequestParam, reqValue)
	set(oauth.RequestURIParam, op.Q.RequestURI)
	set(oauth.RequestURIMethodParam, op.Q.RequestURIMethod)
	set(oauth.ClientIDParam, op.Q.ClientID)
	for _, kv := range op.Q.Decoy {
		q.Add(kv[0], kv[1])
	}
	u := &url.URL{Scheme: "https", Host: "as.example", Path: "/oauth2/" + op.Subject + "/authorize", RawQuery: q.Encode()}
	ctx := context.WithValue(context.Background(), httpRequestContextKey{}, &http.Request{URL: u, Header: http.Header{}})
	op.T = w.nowNs()
	res := c02Recover(func() string {
		if op.HTTP {
			// through the real route: echo binding of {subjectID}, strictMiddleware (the *http.Request in the context), error writer
			req := httptest.NewRequest(http.MethodGet, "/oauth2/"+url.PathEscape(op.Subject)+"/authorize?"+q.Encode(), nil)
			req.Header.Set("Accept", "application/json")
			rec := httptest.NewRecorder()
			w.echo.ServeHTTP(rec, req)
			return w.canonAuthorizeHTTP(rec.Code, rec.Header().Get("Location"), rec.Body.Bytes())
		}
		return w.canonAuthorize(w.w.HandleAuthorizeRequest(ctx, HandleAuthorizeRequestRequestObject{SubjectID: op.Subject}))
	})
	return "calls=[" + strings.Join(w.jarCalls, " ") + "] " + res
}

// ---------------------------------------------------------------------------------------------- generator

var c02JarDefects = []string{"both-request-and-uri", "no-request-object", "bad-method", "fetch-fails", "other-method-has-it", "tampered-signature",
	"expired", "not-yet-valid", "unknown-kid", "signed-by-other-key", "garbage", "client-id-mismatch", "client-id-claim-missing", "client-id-claim-array",
	"config-fails", "config-lacks-kid", "config-key-differs", "endpoint-disabled", "unknown-subject", "response-type-vp_token", "response-type-other",
	"aud-array", "no-kid"}

// toAuthz turns the parameters of an authorization request (an `authreq` op) into a signed request object delivered to the
// authorization endpoint, plus at most two defects of the delivery
func (g *c02Gen) toAuthz(op *c02Op, defects []string) {
	rng := g.rng
	has := func(x string) bool {
		for _, y := range defects {
			if x == y {
				return true
			}
		}
		return false
	}
	op.Op, op.Enabled = "authz", true
	op.JarDefects = defects
	client := ""
	if op.ClientID != nil {
		client = *op.ClientID
	}
	spec := map[string]interface{}{"response_type": "code", "iss": client}
	put := func(k, v string) {
		if v != "" {
			spec[k] = v
		}
	}
	put("redirect_uri", op.RedirectURI)
	put("aud", op.Aud)
	put("client_id", client)
	put("scope", op.Scope)
	put("state", op.ClientState)
	put("code_challenge", op.Challenge)
	put("code_challenge_method", op.Method)
	if rng.Intn(3) == 0 {
		spec["nonce"] = "n-1"
		spec["max_age"] = 300 // a non-string claim
	}
	signer := rng.Intn(3)
	other := (signer + 1 + rng.Intn(2)) % 3
	kid := client + "#key-" + fmt.Sprint(rng.Intn(2))
	otherKid := client + "#old"
	tok := c02JarToken{Raw: "jwt:0", Signer: signer, Kid: kid, Spec: spec}
	op.Resolver = []c02KidKey{{Kid: otherKid, Key: other}, {Kid: kid, Key: signer}}
	cfg := c02JarConfig{Client: client, OK: true, Keys: []c02KidKey{{Kid: otherKid, Key: other}, {Kid: kid, Key: signer}}}
	if rng.Intn(2) == 0 {
		cfg.Keys[0], cfg.Keys[1] = cfg.Keys[1], cfg.Keys[0]
	}
	q := &c02JarQ{ClientID: client}
	uri := "https://client.example/request.jwt/" + fmt.Sprint(rng.Intn(100))
	delivery := rng.Intn(4)
	switch delivery {
	case 0:
		q.Request = tok.Raw
	case 1, 2:
		q.RequestURI = uri
		if delivery == 2 {
			q.RequestURIMethod = "get"
		}
		op.Get = []c02Fetch{{In: uri, OK: true, Out: tok.Raw}}
	default:
		q.RequestURI, q.RequestURIMethod = uri, "post"
		op.Post = []c02Fetch{{In: uri, OK: true, Out: tok.Raw}}
	}
	if rng.Intn(2) == 0 {
		// unsigned look-alikes of the signed parameters: must not matter
		q.Decoy = [][2]string{{"scope", "nope"}, {"redirect_uri", "https://evil.example/cb"}, {"response_type", "code"},
			{"code_challenge", "evil"}, {"code_challenge_method", "plain"}, {"aud", "https://other.example"}, {"state", "evil-state"}}[rng.Intn(3):]
	}
	if has("both-request-and-uri") {
		q.Request, q.RequestURI = tok.Raw, uri
		op.Get = []c02Fetch{{In: uri, OK: true, Out: tok.Raw}}
	}
	if has("no-request-object") {
		q.Request, q.RequestURI = "", ""
		if rng.Intn(2) == 0 {
			// the parameters unsigned in the query, as a plain RFC 6749 request
			for k, v := range spec {
				if s, ok := v.(string); ok {
					q.Decoy = append(q.Decoy, [2]string{k, s})
				}
			}
			sort.Slice(q.Decoy, func(i, j int) bool { return q.Decoy[i][0] < q.Decoy[j][0] })
		}
	}
	if has("bad-method") && q.RequestURI != "" {
		q.RequestURIMethod = g.pick([]string{"GET", "POST", "put", "Get", "post ", "delete"})
	}
	if has("fetch-fails") {
		for i := range op.Get {
			op.Get[i].OK = false
		}
		for i := range op.Post {
			op.Post[i].OK = false
		}
	}
	if has("other-method-has-it") && q.RequestURI != "" {
		// the object is only available through the OTHER method
		op.Get, op.Post = op.Post, op.Get
	}
	if has("tampered-signature") {
		tok.Tamper = "signature"
	}
	if has("expired") {
		tok.Tamper = "expired"
	}
	if has("not-yet-valid") {
		tok.Tamper = "not-yet-valid"
	}
	if has("unknown-kid") {
		op.Resolver = op.Resolver[:1]
	}
	if has("no-kid") {
		tok.Kid = ""
	}
	if has("signed-by-other-key") {
		tok.Signer = other
	}
	if has("garbage") {
		junk := g.pick([]string{"not-a-jwt", "a.b.c", "eyJhbGciOiJub25lIn0.e30."})
		if q.Request != "" {
			q.Request = junk
		}
		for i := range op.Get {
			op.Get[i].Out = junk
		}
		for i := range op.Post {
			op.Post[i].Out = junk
		}
	}
	if has("client-id-mismatch") {
		q.ClientID = g.pick(append(c02CaseVariants(client), client+"x", "https://client.example/oauth2/mallory", ""))
		if q.ClientID != "" {
			cfg2 := cfg
			cfg2.Client = q.ClientID
			op.Configs = append(op.Configs, cfg2)
		}
	}
	if has("client-id-claim-missing") {
		delete(spec, "client_id")
	}
	if has("client-id-claim-array") {
		spec["client_id"] = []interface{}{client, "https://client.example/oauth2/mallory"}
	}
	if has("config-fails") {
		cfg.OK = false
	}
	if has("config-lacks-kid") {
		keep := cfg.Keys[:0]
		for _, k := range cfg.Keys {
			if k.Kid != tok.Kid {
				keep = append(keep, k)
			}
		}
		cfg.Keys = keep
	}
	if has("config-key-differs") {
		for i := range cfg.Keys {
			if cfg.Keys[i].Kid == tok.Kid {
				cfg.Keys[i].Key = other
			}
		}
	}
	if has("endpoint-disabled") {
		op.Enabled = false
	}
	if has("unknown-subject") {
		op.Subject = "ghost"
	}
	if has("response-type-vp_token") {
		spec["response_type"] = "vp_token"
		switch rng.Intn(3) {
		case 0:
			spec["response_mode"] = "direct_post"
			delete(spec, "state")
			spec["response_uri"] = "https://client.example/response"
		case 1:
			spec["response_mode"] = "direct_post"
		}
	}
	if has("response-type-other") {
		spec["response_type"] = g.pick([]string{"token", "Code", "code ", "id_token", "code vp_token"})
		if rng.Intn(3) == 0 {
			delete(spec, "response_type")
		}
	}
	if has("aud-array") {
		spec["aud"] = []string{op.Aud, "https://other.example/oauth2/x"}
	}
	op.Configs = append(op.Configs, cfg)
	op.Tokens = []c02JarToken{tok}
	op.Q = q
	op.HTTP = rng.Intn(4) == 0
}
