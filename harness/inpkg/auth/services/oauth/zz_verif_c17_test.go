//go:build verif

package oauth

// C17 harness for the v1 authorization server's JWT bearer grant: parseAndValidateJwtBearerToken (ParseJWT with the
// DID key resolver) followed by validateIssuer (the requester = `iss`). In-package (unexported methods); the mocks of
// the package's own tests are used through createContext. The DID key resolver is backed by a map that also knows an
// unrelated party (mallory) and look-alike parties whose DID textually extends / is a prefix of the issuer's.
// Also the second ParseJWT call site, IntrospectAccessToken (key must be one of this node's own keys).
// Injected with `go test -overlay`; nothing is written into /repo.

import (
	"bufio"
	"context"
	"crypto"
	"encoding/json"
	"errors"
	"math/rand"
	"os"
	"path/filepath"
	"strconv"
	"strings"
	"testing"
	"time"

	"github.com/lestrrat-go/jwx/v2/jwa"
	"github.com/lestrrat-go/jwx/v2/jwt"
	"github.com/nuts-foundation/go-did/did"
	"github.com/nuts-foundation/go-did/vc"
	"github.com/nuts-foundation/nuts-node/http/tokenV2"
	"github.com/nuts-foundation/nuts-node/jsonld"
	"github.com/nuts-foundation/nuts-node/vdr/resolver"
	"go.uber.org/mock/gomock"
)

type vAzOp struct {
	Op     string                 `json:"op"`
	C      string                 `json:"c"`
	Name   string                 `json:"name"`
	Class  string                 `json:"class"`
	HAlg   string                 `json:"halg"`
	By     string                 `json:"by"`
	Issuer string                 `json:"issuer"`
	Info   tokenV2.VInfo          `json:"info"`
	V      map[string]interface{} `json:"v"`
}

func TestVerifC17AuthzV1(t *testing.T) {
	outDir := os.Getenv("VERIF_OUT")
	if outDir == "" {
		t.Skip("VERIF_OUT not set")
	}
	seed, _ := strconv.ParseInt(os.Getenv("VERIF_SEED"), 10, 64)
	r := rand.New(rand.NewSource(seed*67867979 + 173))
	rounds := 1
	if os.Getenv("VERIF_TIER") == "thorough" {
		rounds = 5
	}
	if v, err := strconv.Atoi(os.Getenv("VERIF_ROUNDS")); err == nil {
		rounds = v
	}
	only := map[string]bool{}
	if p := os.Getenv("VERIF_REPLAY"); p != "" {
		b, _ := os.ReadFile(p)
		for _, line := range strings.Split(string(b), "\n") {
			var m struct{ C, Name string }
			if json.Unmarshal([]byte(line), &m) == nil && m.Name != "" {
				only[m.C+"|"+m.Name] = true
			}
		}
	}
	for k := range only { // replaying a step of a key history needs the earlier steps on the same object
		for _, ph := range []string{"@history-key-removed", "@history-key-restored"} {
			if strings.Contains(k, ph) {
				only[strings.Replace(k, ph, "", 1)] = true
				only[strings.Replace(k, ph, "@history-key-removed", 1)] = true
			}
		}
	}
	opsF, _ := os.Create(filepath.Join(outDir, "ops.jsonl"))
	implF, _ := os.Create(filepath.Join(outDir, "impl.out"))
	ops, impl := bufio.NewWriterSize(opsF, 1<<20), bufio.NewWriterSize(implF, 1<<20)
	defer func() { ops.Flush(); impl.Flush(); opsF.Close(); implF.Close() }()
	n := 0
	emit := func(op vAzOp, res string) {
		b, _ := json.Marshal(op)
		ops.Write(b)
		ops.WriteByte('\n')
		impl.WriteString(res + "\n")
		n++
	}

	didOf := func(k *tokenV2.VKey) string { // names "method~id" are parties of another DID method with the same method-specific id
		if i := strings.Index(k.KeyName(), "~"); i >= 0 {
			return "did:" + k.KeyName()[:i] + ":" + k.KeyName()[i+1:]
		}
		return "did:nuts:" + k.KeyName()
	}
	requesters := []*tokenV2.VKey{tokenV2.VNewKey("p256", "alice"), tokenV2.VNewKey("ed", "bob"), tokenV2.VNewKey("p384", "dave"), tokenV2.VNewKey("p521", "erin")}
	mallory := tokenV2.VNewKey("p256", "mallory")
	source := map[string]crypto.PublicKey{}
	register := func(k *tokenV2.VKey) {
		k.SetKid(didOf(k) + "#signing-key")
		source[k.KeyID()] = k.Public()
	}
	register(mallory)
	lookalikes := map[string][]*tokenV2.VKey{}
	for _, k := range requesters {
		register(k)
		for _, sfx := range []string{"2", ".attacker.net", ":sub"} {
			l := tokenV2.VNewKey("p256", k.KeyName()+sfx)
			register(l)
			lookalikes[k.KeyName()] = append(lookalikes[k.KeyName()], l)
		}
		for _, method := range []string{"web", "key", "NUTS", "nuts2"} { // same method-specific id, other method
			l := tokenV2.VNewKey("p256", method+"~"+k.KeyName())
			register(l)
			lookalikes[k.KeyName()] = append(lookalikes[k.KeyName()], l)
		}
		l := tokenV2.VNewKey("ed", k.KeyName()[:len(k.KeyName())-1])
		register(l)
		lookalikes[k.KeyName()] = append(lookalikes[k.KeyName()], l)
	}
	// this node's own keys (for token introspection): only alice's
	ownKeys := map[string]bool{requesters[0].KeyID(): true}

	tctx := createContext(t)
	tctx.keyResolver.EXPECT().ResolveKeyByID(gomock.Any(), gomock.Any(), resolver.NutsSigningKeyType).DoAndReturn(
		func(kid string, _ *resolver.ResolveMetadata, _ resolver.RelationType) (crypto.PublicKey, error) {
			if k, ok := source[kid]; ok {
				return k, nil
			}
			return nil, resolver.ErrKeyNotFound
		}).AnyTimes()
	orgCredential := vc.VerifiableCredential{}
	_ = json.Unmarshal([]byte(jsonld.TestOrganizationCredential), &orgCredential)
	tctx.nameResolver.EXPECT().Search(gomock.Any(), gomock.Any(), false, gomock.Any()).Return([]vc.VerifiableCredential{orgCredential}, nil).AnyTimes()
	// the node's key store; `storeFault` makes the lookup fail (outage / reference lookup error): (false, error), or — as some
	// back-ends do — (true, error)
	storeFault := ""
	tctx.keyStore.EXPECT().Exists(gomock.Any(), gomock.Any()).DoAndReturn(func(_ context.Context, kid string) (bool, error) {
		switch storeFault {
		case "false+error":
			return false, errors.New("key store unavailable")
		case "true+error":
			return true, errors.New("key store unavailable")
		}
		return ownKeys[kid], nil
	}).AnyTimes()
	srv := tctx.oauthService
	now := time.Now()

	// The long-lived object (jar / signature verifier / authz server) is used across a KEY HISTORY: after the main run every key is
	// removed from the key source and the valid tokens are presented again (must be refused: the verification key is what the
	// source returns NOW), then the keys are restored (accepted again).
	savedKeys := map[string]crypto.PublicKey{}
	for _, phase := range []string{"", "@history-key-removed", "@history-key-restored"} {
		phaseRounds := rounds
		switch phase {
		case "@history-key-removed":
			phaseRounds = 1
			for k, v := range source {
				savedKeys[k] = v
				delete(source, k)
			}
		case "@history-key-restored":
			phaseRounds = 1
			for k, v := range savedKeys {
				source[k] = v
			}
		}
		for round := 0; round < phaseRounds; round++ {
			for ki, signer := range requesters {
				issuer := didOf(signer)
				claims := map[string]interface{}{"iss": issuer, "sub": "did:nuts:authorizer", "aud": "http://oauth", "jti": "a005e81c-6749-4967-b01c-495228fcafb4",
					"iat": now.Unix(), "nbf": 0, "exp": now.Add(5 * time.Second).Unix(), "purposeOfUse": "unit-test"}
				hdr := map[string]interface{}{"typ": "JWT", "kid": signer.KeyID()}
				variants := tokenV2.VHostile(r, tokenV2.VNewBase(hdr, tokenV2.VJSON(claims), signer, requesters[(ki+1)%len(requesters)], mallory), 12)
				for _, l := range lookalikes[signer.KeyName()] {
					for _, v := range tokenV2.VHostile(r, tokenV2.VNewBase(hdr, tokenV2.VJSON(claims), signer, requesters[(ki+1)%len(requesters)], l), 0) {
						if v.By == "attacker" {
							v.Name, v.Class = "lookalike("+l.KeyName()+")-"+v.Name, "lookalike-did-"+v.Class
							variants = append(variants, v)
						}
					}
				}
				for _, v := range variants {
					v.Name = "r" + strconv.Itoa(round) + "-" + signer.KeyName() + "-" + v.Name
					if phase != "" { // key history on the long-lived object: only the plain valid token, after the key source changed
						if v.Class != "valid" || !strings.HasSuffix(v.Name, "-valid") {
							continue
						}
						v.Name += phase
						if phase == "@history-key-removed" {
							v.Class = "key-removed"
						}
					}
					info, _ := tokenV2.VAnalyse(v.Tok)
					verd := map[string]interface{}{}
					claimedIss := ""
					if info.Parses && len(info.Sigs) == 1 {
						key, ok := source[info.Sigs[0].Kid]
						verd["keyfound"] = ok
						verd["ownkey"] = ownKeys[info.Sigs[0].Kid]
						if ok {
							verd["fits"] = tokenV2.VAlgFitsKey(info.Sigs[0].Alg, key)
							tok, err := jwt.ParseString(v.Tok, jwt.WithKey(jwa.SignatureAlgorithm(info.Sigs[0].Alg), key), jwt.WithVerify(true), jwt.WithAcceptableSkew(srv.clockSkew))
							verd["verified"] = err == nil
							if err == nil {
								claimedIss = tok.Issuer()
								_, perr := did.ParseDID(claimedIss)
								verd["issparses"] = perr == nil
							}
						}
					}
					// ---- the grant: signature, then the requester (= iss) is established
					if len(only) == 0 || only["authzv1|"+v.Name] {
						res := "reject"
						func() {
							defer func() {
								if p := recover(); p != nil {
									res = "panic"
								}
							}()
							vctx := &validationContext{rawJwtBearerToken: v.Tok}
							if err := srv.parseAndValidateJwtBearerToken(vctx); err != nil {
								return
							}
							if err := srv.validateIssuer(vctx); err != nil {
								return
							}
							if vctx.requester == nil || vctx.requester.String() != claimedIss {
								res = "accept-other-requester"
								return
							}
							res = "accept"
						}()
						emit(vAzOp{Op: "consume", C: "authzv1", Name: v.Name, Class: v.Class, HAlg: v.HAlg, By: v.By, Issuer: claimedIss, Info: info, V: verd}, res)
					}
					// ---- introspection of an access token: only tokens signed by one of THIS node's keys
					for _, fault := range []string{"", "false+error", "true+error"} {
						name := v.Name
						if fault != "" { // faults only for the interesting shapes: properly signed tokens, own and foreign
							if !(v.Class == "valid" || v.Class == "other-party" || v.Class == "forged" || strings.HasPrefix(v.Class, "lookalike-did-forged")) {
								continue
							}
							name += "@store-" + fault
						}
						if len(only) > 0 && !only["introspect|"+name] {
							continue
						}
						storeFault = fault
						res := "reject"
						func() {
							defer func() {
								if p := recover(); p != nil {
									res = "panic"
								}
							}()
							if _, err := srv.IntrospectAccessToken(context.Background(), v.Tok); err == nil {
								res = "accept"
							}
						}()
						storeFault = ""
						vv := map[string]interface{}{"storefault": fault != ""}
						for k, x := range verd {
							vv[k] = x
						}
						if fault != "" { // whether the key is this node's cannot be established
							vv["ownkey"] = false
						}
						emit(vAzOp{Op: "consume", C: "introspect", Name: name, Class: v.Class, HAlg: v.HAlg, By: v.By, Issuer: claimedIss, Info: info, V: vv}, res)
					}
				}
			}
		}
	}

	if n == 0 {
		t.Fatal("nothing generated")
	}
}
