//go:build verif

package discovery

// C16 (deepening round) — NODE leg: the real Module.Configure on generated definition directories and server-id lists,
// then the real Module.Register / Get / Search on that node for served, merely known and unknown list ids with
// X-Forwarded-Host values, against NutsModel/C16/Node.lean. Writes nodeops.jsonl / nodeimpl.out.

import (
	"regexp"
	"bufio"
	"context"
	"crypto/ecdsa"
	"crypto/elliptic"
	crand "crypto/rand"
	"encoding/json"
	"errors"
	"fmt"
	"math/rand"
	"net/url"
	"os"
	"path/filepath"
	"sort"
	"strconv"
	"strings"
	"testing"
	"time"

	"github.com/nuts-foundation/go-did/vc"
	"github.com/nuts-foundation/nuts-node/core"
	"github.com/nuts-foundation/nuts-node/storage"
	"github.com/nuts-foundation/nuts-node/vcr"
	"github.com/nuts-foundation/nuts-node/vcr/verifier"
	"github.com/nuts-foundation/nuts-node/vdr/didsubject"
	"github.com/nuts-foundation/nuts-node/vdr/resolver"
	"go.uber.org/mock/gomock"
)

type vnParsed struct {
	ID           string   `json:"id"`
	MaxValidity  int      `json:"maxValidity"`
	DIDMethods   []string `json:"didMethods"`
	Endpoint     string   `json:"endpoint"`
	EndpointHost *string  `json:"endpointHost"` // url.Parse(endpoint).Host; null = parse error
}

type vnEntry struct {
	Name   string    `json:"name"`
	IsDir  bool      `json:"isDir"`
	ReadOk bool      `json:"readOk"`
	Parsed *vnParsed `json:"parsed"` // what the real ParseServiceDefinition made of the bytes; null = refused
	Intent string    `json:"intent"` // generator's word for the file (oracle): valid | duplicate | invalid | skipped | directory | dangling | link-to-dir
	WantID string    `json:"wantId,omitempty"`
	WantMax int      `json:"wantMax,omitempty"`
	WantMethods []string `json:"wantMethods,omitempty"`
}

type vnFwd struct {
	Header *string `json:"header"` // X-Forwarded-Host as the API puts it into the context; null = not set
	Host   *string `json:"host"`   // url.Parse(header).Host; null = parse error
}

type vnOp struct {
	Op        string                 `json:"op"`
	Now       int64                  `json:"now,omitempty"`
	T0        int64                  `json:"t0,omitempty"`
	Dir       string                 `json:"dir"`
	DirKind   string                 `json:"dirKind,omitempty"`
	Stat      string                 `json:"stat,omitempty"`
	ReadDirOk bool                   `json:"readDirOk"`
	Entries   []vnEntry              `json:"entries,omitempty"`
	ServerIDs []string               `json:"serverIds"`
	Sid       string                 `json:"sid,omitempty"`
	Fwd       *vnFwd                 `json:"fwd,omitempty"`
	VP        map[string]interface{} `json:"vp,omitempty"`
	Recipe    *vRecipe               `json:"recipe,omitempty"`
	Ts        *int                   `json:"ts"` // nget: the timestamp parameter; null = absent
	Class     string                 `json:"class,omitempty"`
	Cfg       int                    `json:"cfg,omitempty"`
	Query     []vnTerm               `json:"query,omitempty"`
	Index     []vnIndexEntry         `json:"index,omitempty"`
	CI        bool                   `json:"ci,omitempty"` // LIKE compares ASCII letters case-insensitively (SQLite)
	Seed      int64                  `json:"seed,omitempty"` // nconf: VERIF_SEED of the run (replay: VERIF_SEED=<seed> VERIF_NODE_ONLY=<cfg>)
}

// records what Module forwards to another node
type vnRecorder struct {
	calls []string
}

func (c *vnRecorder) Register(_ context.Context, endpoint string, _ vc.VerifiablePresentation) error {
	c.calls = append(c.calls, "register "+endpoint)
	return nil
}
func (c *vnRecorder) Get(_ context.Context, endpoint string, timestamp int) (map[string]vc.VerifiablePresentation, string, int, error) {
	c.calls = append(c.calls, fmt.Sprintf("get %s %d", endpoint, timestamp))
	return map[string]vc.VerifiablePresentation{}, "", 0, nil
}

type vnRunner struct {
	t    *testing.T
	rng  *rand.Rand
	ops  *bufio.Writer
	out  *bufio.Writer
	dir  string
	eng  storage.Engine
	w    *vWorld
	m    *Module
	rec  *vnRecorder
	all  []string // loaded ids, sorted
	defs map[string]vnParsed
	nOps int
	n    int
	seed int64
	cfgDir string
	cfgIDs []string
	// round 3: a second node (own database) that mirrors ALL lists of the configuration as a client of the first
	ceng storage.Engine
	cm   *Module
}

func (r *vnRunner) emit(op vnOp, line string) {
	b, err := json.Marshal(op)
	if err != nil {
		r.t.Fatal(err)
	}
	r.ops.Write(b)
	r.ops.WriteByte('\n')
	r.out.WriteString(line)
	r.out.WriteByte('\n')
	r.nOps++
}

var vnIDs = []string{"nA", "nB", "nC", "nD"}

func vnDoc(id string, max int, methods []string, endpoint string) string {
	ms := ""
	if len(methods) > 0 {
		b, _ := json.Marshal(methods)
		ms = `"did_methods": ` + string(b) + `,`
	}
	return `{"id": "` + id + `", ` + ms + ` "endpoint": "` + endpoint + `",
 "presentation_max_validity": ` + strconv.Itoa(max) + `,
 "presentation_definition": {"id": "pd_` + id + `", "input_descriptors": [
  {"id": "1", "constraints": {"fields": [{"id": "issuer_field", "path": ["$.issuer"], "filter": {"type": "string", "pattern": "did:example:authority"}}]}},
  {"id": "2", "constraints": {"fields": [{"id": "auth_server_url", "path": ["$.credentialSubject.authServerURL"]}]}}]}}`
}

func vnHost(s string) *string {
	u, err := url.Parse(s)
	if err != nil {
		return nil
	}
	h := u.Host
	return &h
}

func vnConfigErr(err error) string {
	if err == nil {
		return "ok"
	}
	s := err.Error()
	switch {
	case strings.Contains(s, "failed to load discovery defintions"):
		return "err:stat"
	case strings.Contains(s, "unable to read definitions directory"):
		return "err:read-dir"
	case strings.Contains(s, "unable to read service definition file"):
		return "err:read-file"
	case strings.Contains(s, "unable to parse service definition file"):
		return "err:parse"
	case strings.Contains(s, "duplicate service definition ID"):
		return "err:duplicate-id"
	case strings.Contains(s, "service definition '") && strings.Contains(s, "not found"):
		return "err:server-id-unknown"
	}
	return vErrClass(err)
}

// configure generates one definitions directory + config, runs the real Configure (and Start when it succeeded)
func (r *vnRunner) configure() bool {
	r.n++
	// every configuration has its own generator, so that one configuration can be re-run alone (VERIF_NODE_ONLY)
	r.rng = rand.New(rand.NewSource(r.seed*104729 + 1616 + int64(r.n)*7919))
	rng := r.rng
	if r.m != nil {
		_ = r.m.Shutdown()
		r.m = nil
	}
	base := filepath.Join(r.dir, "nodecfg")
	_ = os.RemoveAll(base)
	dir := filepath.Join(base, "defs")
	if err := os.MkdirAll(dir, 0o755); err != nil {
		r.t.Fatal(err)
	}
	var entries []vnEntry
	used := map[string]bool{}
	name := func(pref string) string {
		for {
			n := pref
			if used[n] {
				n = fmt.Sprintf("%s-%d", strings.TrimSuffix(pref, ".json"), rng.Intn(1000)) + ".json"
				if !strings.HasSuffix(pref, ".json") {
					n = fmt.Sprintf("%s-%d", pref, rng.Intn(1000))
				}
			}
			if !used[n] {
				used[n] = true
				return n
			}
		}
	}
	write := func(n, content string) {
		if err := os.WriteFile(filepath.Join(dir, n), []byte(content), 0o644); err != nil {
			r.t.Fatal(err)
		}
	}
	maxOf := map[string]int{"nA": 3000, "nB": 5000, "nC": 4000, "nD": 2500}
	methodsOf := map[string][]string{"nA": {"example"}, "nB": nil, "nC": {"example", "web"}, "nD": {"web"}}
	hosts := []string{"one.example", "two.example:8080"}
	var loaded []string
	for _, id := range vnIDs {
		if rng.Intn(5) == 0 {
			continue
		}
		max := maxOf[id] + 100*rng.Intn(3)
		ep := "http://" + hosts[rng.Intn(len(hosts))] + "/discovery/" + id
		if rng.Intn(12) == 0 {
			ep = "http://[bad/discovery/" + id // an endpoint url.Parse refuses (the schema does not)
		}
		fn := id + ".json"
		switch rng.Intn(4) {
		case 0:
			fn = fmt.Sprintf("%02d-service.json", rng.Intn(100))
		case 1:
			if !used[".json"] && rng.Intn(3) == 0 {
				fn = ".json" // HasSuffix(".json", ".json") holds
			}
		}
		fn = name(fn)
		write(fn, vnDoc(id, max, methodsOf[id], ep))
		entries = append(entries, vnEntry{Name: fn, ReadOk: true, Intent: "valid", WantID: id, WantMax: max, WantMethods: methodsOf[id]})
		loaded = append(loaded, id)
	}
	// files and directories the loader must skip
	for _, n := range []string{"README.md", "nA.JSON", "nB.json.bak", "json", "nC.jsonx", "definitions.yaml"} {
		if rng.Intn(3) == 0 {
			n = name(n)
			content := "not a definition"
			if rng.Intn(2) == 0 && len(loaded) > 0 {
				content = vnDoc(loaded[rng.Intn(len(loaded))], 1, nil, "http://skipped.example/x") // would be a duplicate if it were read
			}
			write(n, content)
			entries = append(entries, vnEntry{Name: n, ReadOk: true, Intent: "skipped"})
		}
	}
	if rng.Intn(3) == 0 {
		n := name("archive.json")
		if err := os.MkdirAll(filepath.Join(dir, n), 0o755); err != nil {
			r.t.Fatal(err)
		}
		write(filepath.Join(n, "inner.json"), "{}")
		entries = append(entries, vnEntry{Name: n, IsDir: true, ReadOk: false, Intent: "directory"})
	}
	// defects (each rarely, so that most configurations load)
	if rng.Intn(7) == 0 && len(loaded) > 0 {
		id := loaded[rng.Intn(len(loaded))]
		n := name(fmt.Sprintf("%s-copy.json", []string{"0", id, "zz"}[rng.Intn(3)]))
		write(n, vnDoc(id, 777, nil, "http://dup.example/discovery/"+id))
		entries = append(entries, vnEntry{Name: n, ReadOk: true, Intent: "duplicate", WantID: id})
	}
	if rng.Intn(8) == 0 {
		n := name([]string{"0-broken.json", "zz-broken.json", "nB-broken.json"}[rng.Intn(3)])
		write(n, []string{"{}", "not json", `{"id": "nX", "endpoint": "http://x.example/x", "presentation_max_validity": "long", "presentation_definition": {"id":"p","input_descriptors":[]}}`,
			`{"id": "nX", "presentation_max_validity": 10, "presentation_definition": {"id":"p","input_descriptors":[]}}`}[rng.Intn(4)])
		entries = append(entries, vnEntry{Name: n, ReadOk: true, Intent: "invalid"})
	}
	if rng.Intn(10) == 0 {
		n := name([]string{"0-dangling.json", "zz-dangling.json"}[rng.Intn(2)])
		if err := os.Symlink(filepath.Join(base, "nowhere"), filepath.Join(dir, n)); err != nil {
			r.t.Fatal(err)
		}
		entries = append(entries, vnEntry{Name: n, ReadOk: false, Intent: "dangling"})
	}
	if rng.Intn(12) == 0 {
		n := name("linked.json")
		_ = os.MkdirAll(filepath.Join(base, "elsewhere"), 0o755)
		if err := os.Symlink(filepath.Join(base, "elsewhere"), filepath.Join(dir, n)); err != nil {
			r.t.Fatal(err)
		}
		entries = append(entries, vnEntry{Name: n, ReadOk: false, Intent: "link-to-dir"}) // DirEntry.IsDir() is false for a symlink
	}
	sort.Slice(entries, func(i, j int) bool { return entries[i].Name < entries[j].Name }) // os.ReadDir: sorted by file name
	for i := range entries {
		e := &entries[i]
		if e.IsDir || !e.ReadOk {
			continue
		}
		data, err := os.ReadFile(filepath.Join(dir, e.Name))
		if err != nil {
			r.t.Fatal(err)
		}
		if d, err := ParseServiceDefinition(data); err == nil {
			ms := d.DIDMethods
			if ms == nil {
				ms = []string{}
			}
			e.Parsed = &vnParsed{ID: d.ID, MaxValidity: d.PresentationMaxValidity, DIDMethods: ms, Endpoint: d.Endpoint, EndpointHost: vnHost(d.Endpoint)}
		}
	}
	// the directory setting
	op := vnOp{Op: "nconf", T0: vNow(), Cfg: r.n, Seed: r.seed, Dir: dir, DirKind: "directory", Stat: "present", ReadDirOk: true, Entries: entries}
	switch p := rng.Intn(40); {
	case p == 0:
		op.Dir, op.DirKind, op.Stat, op.ReadDirOk = "", "unset", "absent", false
	case p == 1:
		op.Dir, op.DirKind, op.Stat, op.ReadDirOk = filepath.Join(base, "missing"), "missing", "absent", false
	case p == 2:
		op.Dir, op.DirKind, op.Stat, op.ReadDirOk = DefaultConfig().Definitions.Directory, "default-missing", "absent", false
	case p == 3:
		f := filepath.Join(base, "plainfile")
		if err := os.WriteFile(f, []byte("x"), 0o644); err != nil {
			r.t.Fatal(err)
		}
		op.Dir, op.DirKind, op.Stat, op.ReadDirOk = f, "plain-file", "present", false
	case p == 4:
		op.Dir, op.DirKind, op.Stat, op.ReadDirOk = filepath.Join(base, "plainfile-none", "x"), "missing-parent", "absent", false
	}
	// server ids
	op.ServerIDs = []string{}
	for _, id := range loaded {
		if rng.Intn(3) != 0 {
			op.ServerIDs = append(op.ServerIDs, id)
		}
	}
	if rng.Intn(9) == 0 {
		op.ServerIDs = append(op.ServerIDs, []string{"nZ", "na", "nA ", ""}[rng.Intn(4)])
	}
	if rng.Intn(6) == 0 && len(op.ServerIDs) > 0 {
		op.ServerIDs = append(op.ServerIDs, op.ServerIDs[0]) // listed twice
	}
	rng.Shuffle(len(op.ServerIDs), func(i, j int) { op.ServerIDs[i], op.ServerIDs[j] = op.ServerIDs[j], op.ServerIDs[i] })

	// the real node
	w := &vWorld{t: r.t, t0: op.T0, byRaw: map[string]*vBuilt{}, byID: map[string]*vBuilt{}, credPool: map[string]vc.VerifiableCredential{}, noise: map[string]string{}}
	r.w = w
	if err := vTables(r.eng.GetSQLDatabase()); err != nil {
		r.t.Fatal(err)
	}
	r.cfgDir, r.cfgIDs = op.Dir, op.ServerIDs
	if r.cm != nil {
		_ = r.cm.Shutdown()
		r.cm = nil
	}
	m := r.newNode()
	var cerr error
	cls := vRecover(func() error { cerr = m.Configure(core.TestServerConfig()); return nil })
	if cls == "ok" {
		cls = vnConfigErr(cerr)
	}
	line := "nconf " + cls
	ok := cls == "ok"
	r.all, r.defs = nil, map[string]vnParsed{}
	if ok {
		var allS, srvS []string
		for id, d := range m.allDefinitions {
			ms := strings.Join(d.DIDMethods, ",")
			if ms == "" {
				ms = "-"
			}
			allS = append(allS, fmt.Sprintf("%s=%s:%d:%s", id, d.ID, d.PresentationMaxValidity, ms))
			r.all = append(r.all, id)
			r.defs[id] = vnParsed{ID: d.ID, MaxValidity: d.PresentationMaxValidity, DIDMethods: d.DIDMethods, Endpoint: d.Endpoint}
			w.def = d
		}
		for id, d := range m.serverDefinitions {
			srvS = append(srvS, id+"="+d.ID)
		}
		sort.Strings(allS)
		sort.Strings(srvS)
		sort.Strings(r.all)
		line += " all=[" + strings.Join(allS, " ") + "] server=[" + strings.Join(srvS, " ") + "]"
		r.rec = &vnRecorder{}
		m.httpClient = r.rec
		if err := m.Start(); err != nil {
			r.t.Fatal(err)
		}
		r.m = m
	}
	r.emit(op, line)
	return ok && len(r.all) > 0
}

// newNode builds a Module the way the node does (Config() filled in), on the runner's database
func (r *vnRunner) newNode() *Module {
	w := r.w
	ctrl := gomock.NewController(r.t)
	mv := verifier.NewMockVerifier(ctrl)
	mv.EXPECT().VerifyVP(gomock.Any(), true, true, nil).DoAndReturn(
		func(p vc.VerifiablePresentation, _ bool, _ bool, _ *time.Time) ([]vc.VerifiableCredential, error) {
			if b := w.byRaw[p.Raw()]; b != nil && b.rec.VerifyS {
				return p.VerifiableCredential, nil
			}
			return nil, errors.New("verif: signature invalid")
		}).AnyTimes()
	mvcr := vcr.NewMockVCR(ctrl)
	mvcr.EXPECT().Verifier().Return(mv).AnyTimes()
	m := New(r.eng, mvcr, didsubject.NewMockManager(ctrl), resolver.NewMockDIDResolver(ctrl))
	cfg := m.Config().(*Config)
	*cfg = DefaultConfig()
	cfg.Client.RefreshInterval = 0
	cfg.Definitions.Directory = r.cfgDir
	cfg.Server.IDs = r.cfgIDs
	return m
}

// restart: the node goes down and comes back with the same configuration on the same database
func (r *vnRunner) restart() {
	_ = r.m.Shutdown()
	m := r.newNode()
	cls := vRecover(func() error {
		if err := m.Configure(core.TestServerConfig()); err != nil {
			return err
		}
		m.httpClient = r.rec
		return m.Start()
	})
	r.m = m
	r.emit(vnOp{Op: "nrestart", Now: vNow(), ServerIDs: []string{}}, "nrestart "+cls+r.lists())
}

func (r *vnRunner) lists() string {
	var sb strings.Builder
	for _, id := range r.all {
		var svc serviceRecord
		r.m.store.db.Find(&svc, "id = ?", id)
		var rows []presentationRecord
		r.m.store.db.Order("lamport_timestamp ASC").Find(&rows, "service_id = ?", id)
		seed := "-"
		if svc.Seed != "" {
			seed = "+"
		}
		var rs []string
		for _, row := range rows {
			rs = append(rs, r.w.rowString(row, true))
		}
		fmt.Fprintf(&sb, " | %s seed=%s ts=%d [%s]", id, seed, svc.LastLamportTimestamp, strings.Join(rs, " "))
	}
	return sb.String()
}

func (r *vnRunner) fwd() (context.Context, *vnFwd) {
	rng := r.rng
	ctx := context.Background()
	var h *string
	switch rng.Intn(9) {
	case 0, 1, 2:
		return ctx, &vnFwd{}
	case 3:
		h = to2("")
	case 4:
		h = to2("http://one.example")
	case 5:
		h = to2("http://two.example:8080/x")
	case 6:
		h = to2("one.example") // what http.go really sends: a bare host — url.Parse puts it into Path, Host stays ""
	case 7:
		h = to2("two.example:8080") // bare host:port: url.Parse fails (first path segment with colon)
	default:
		h = to2("http://three.example")
	}
	return context.WithValue(ctx, XForwardedHostContextKey{}, *h), &vnFwd{Header: h, Host: vnHost(*h)}
}

func to2(s string) *string { return &s }

func (r *vnRunner) sid() string {
	if r.rng.Intn(7) == 0 {
		return []string{"nZ", "", "na"}[r.rng.Intn(3)]
	}
	return r.all[r.rng.Intn(len(r.all))]
}

func (r *vnRunner) kind(err error) string {
	if err == nil {
		return "---"
	}
	k := []byte("---")
	if errors.Is(err, ErrInvalidPresentation) {
		k[0] = 'i'
	}
	if errors.Is(err, ErrDIDMethodsNotSupported) {
		k[1] = 'd'
	}
	if errors.Is(err, ErrServiceNotFound) {
		k[2] = 'n'
	}
	return string(k)
}

func (r *vnRunner) outcome(err error) string {
	switch {
	case len(r.rec.calls) > 0:
		s := "fwd:" + strings.Join(r.rec.calls, ";")
		r.rec.calls = nil
		if err != nil {
			s += ":" + vErrClass(err)
		}
		return s
	case errors.Is(err, ErrServiceNotFound):
		return "not-found"
	case errors.Is(err, errCyclicForwardingDetected):
		return "cycle"
	}
	return vErrClass(err)
}

var vnSubjects = []string{"did:example:s1", "did:example:s2", "did:web:example.com:s3"}

func (r *vnRunner) label() string { return "n" + strconv.Itoa(r.n) + "x" + strconv.Itoa(r.nOps) }

func (r *vnRunner) register() {
	rng := r.rng
	sid := r.sid()
	aud := sid
	subj := vnSubjects[rng.Intn(len(vnSubjects))]
	rec := vRecipe{Label: r.label(), Subject: subj, Format: "jwt", Aud: []string{aud}, Exp: i64(2000 + int64(rng.Intn(400))),
		Creds: []string{"org", "holder"}, VerifyS: true, VerifyC: true}
	class := "valid"
	switch p := rng.Intn(20); {
	case p < 5:
		// an expiry between the maximum validities of the lists: fine for one list, too long for another
		class = "exp-between-maxima"
		for {
			d := r.defs[r.all[rng.Intn(len(r.all))]]
			e := int64(d.MaxValidity) + []int64{-1, 1}[rng.Intn(2)]*(60+int64(rng.Intn(300)))
			far := true // never within a minute of any list's maximum: the comparison with the clock must not be a coin toss
			for _, o := range r.defs {
				if e-int64(o.MaxValidity) < 45 && int64(o.MaxValidity)-e < 45 {
					far = false
				}
			}
			if far {
				rec.Exp = &e
				break
			}
		}
	case p < 8:
		// addressed to ANOTHER list of this node (or to several)
		class = "addressed-to-other-list"
		other := r.all[rng.Intn(len(r.all))]
		rec.Aud = []string{other}
		if rng.Intn(3) == 0 {
			rec.Aud = []string{other, sid}
		}
	case p < 9:
		class, rec.VerifyS = "bad-signature", false
	case p < 10:
		class, rec.Creds = "pex-partial", []string{"org"}
	case p < 11:
		class, rec.Format = "not-jwt", "zero"
	case p < 12:
		class, rec.NoKid = "no-kid", true
	case p < 14:
		// a retraction of something this subject has (or has not) on THIS list / on another list of the node
		class = "retraction"
		rec.Retraction, rec.Creds = true, []string{}
		var rows []presentationRecord
		r.m.store.db.Find(&rows, "credential_subject_id = ?", subj)
		jti := "nothing"
		if len(rows) > 0 {
			jti = rows[rng.Intn(len(rows))].PresentationID
		}
		rec.RetractJTI = &jti
	case p < 15:
		// the same presentation again (already listed), on this or another list
		var rows []presentationRecord
		r.m.store.db.Find(&rows)
		if len(rows) > 0 {
			row := rows[rng.Intn(len(rows))]
			if b := r.w.byRaw[row.PresentationRaw]; b != nil {
				class = "resubmitted"
				rec = b.rec
			}
		}
	}
	if class == "valid" && rng.Intn(5) == 0 {
		class, rec.VerifyC = "valid-but-client-verifier-rejects", false // round 3: the client node's own VerifyVP says no
	}
	ctx, f := r.fwd()
	b := r.w.build(rec)
	now := vNow()
	var err error
	cls := vRecover(func() error { err = r.m.Register(ctx, sid, b.vp); return nil })
	out := cls
	if cls == "ok" {
		out = r.outcome(err)
	}
	r.emit(vnOp{Op: "nregister", Now: now, Sid: sid, Fwd: f, VP: b.model, Recipe: &rec, Class: class, ServerIDs: []string{}},
		"nreg "+out+" k="+r.kind(err)+r.lists())
}

// the client node asks the first node: what it serves it answers itself (real Module.Get), the rest is unreachable
type vnClientAdapter struct{ r *vnRunner }

func (a vnClientAdapter) Register(_ context.Context, _ string, _ vc.VerifiablePresentation) error {
	return errors.New("verif: not used")
}
func (a vnClientAdapter) Get(ctx context.Context, endpoint string, timestamp int) (map[string]vc.VerifiablePresentation, string, int, error) {
	id := endpoint[strings.LastIndex(endpoint, "/")+1:]
	if _, served := a.r.m.serverDefinitions[id]; !served {
		return nil, "", 0, errors.New("verif: " + id + " is not served by the other node")
	}
	return a.r.m.Get(context.Background(), id, timestamp)
}

var vnFailedID = regexp.MustCompile(`\(id=([^)]*)\)`)

// update: the real clientUpdater.update() of a second node that is configured with the same definitions directory and
// mirrors every list in ITS one sqlStore (own database); afterwards every list of the replica is printed
func (r *vnRunner) update() {
	if r.ceng == nil {
		r.ceng = storage.NewTestStorageEngine(r.t)
		if err := r.ceng.Start(); err != nil {
			r.t.Fatal(err)
		}
	}
	if r.cm == nil {
		if err := vTables(r.ceng.GetSQLDatabase()); err != nil {
			r.t.Fatal(err)
		}
		w := r.w
		ctrl := gomock.NewController(r.t)
		mv := verifier.NewMockVerifier(ctrl)
		mv.EXPECT().VerifyVP(gomock.Any(), true, true, nil).DoAndReturn(
			func(p vc.VerifiablePresentation, _ bool, _ bool, _ *time.Time) ([]vc.VerifiableCredential, error) {
				if b := w.byRaw[p.Raw()]; b != nil && b.rec.VerifyC {
					return p.VerifiableCredential, nil
				}
				return nil, errors.New("verif: signature invalid")
			}).AnyTimes()
		mvcr := vcr.NewMockVCR(ctrl)
		mvcr.EXPECT().Verifier().Return(mv).AnyTimes()
		cm := New(r.ceng, mvcr, didsubject.NewMockManager(ctrl), resolver.NewMockDIDResolver(ctrl))
		cfg := cm.Config().(*Config)
		*cfg = DefaultConfig()
		cfg.Client.RefreshInterval = 0
		cfg.Definitions.Directory = r.cfgDir
		if err := cm.Configure(core.TestServerConfig()); err != nil {
			r.t.Fatal(err)
		}
		cm.httpClient = vnClientAdapter{r}
		if err := cm.Start(); err != nil {
			r.t.Fatal(err)
		}
		r.cm = cm
	}
	now := vNow()
	var uerr error
	cls := vRecover(func() error { uerr = r.cm.clientUpdater.update(context.Background()); return nil })
	var failed []string
	if uerr != nil {
		for _, m := range vnFailedID.FindAllStringSubmatch(uerr.Error(), -1) {
			failed = append(failed, m[1])
		}
		if len(failed) == 0 {
			cls = "err:" + vErrClass(uerr)
		}
	}
	sort.Strings(failed)
	var sb strings.Builder
	for _, id := range r.all {
		var svc serviceRecord
		r.cm.store.db.Find(&svc, "id = ?", id)
		var rows []presentationRecord
		r.cm.store.db.Find(&rows, "service_id = ?", id)
		seed := "-"
		if svc.Seed != "" {
			seed = "+"
		}
		var rs []string
		for _, row := range rows {
			rs = append(rs, r.w.rowString(row, true))
		}
		sort.Strings(rs)
		fmt.Fprintf(&sb, " | %s seed=%s ts=%d [%s]", id, seed, svc.LastLamportTimestamp, strings.Join(rs, " "))
	}
	r.emit(vnOp{Op: "nupdate", Now: now, ServerIDs: []string{}}, "nupdate "+cls+" failed=["+strings.Join(failed, ",")+"]"+sb.String())
}

func (r *vnRunner) get() {
	rng := r.rng
	sid := r.sid()
	ctx, f := r.fwd()
	var tsp *int
	if rng.Intn(4) != 0 {
		v := rng.Intn(5) - 1
		tsp = &v
	}
	ts := 0
	if tsp != nil {
		ts = *tsp
	}
	var line string
	var err error
	cls := vRecover(func() error {
		ps, seed, last, e := r.m.Get(ctx, sid, ts)
		err = e
		if e == nil && len(r.rec.calls) == 0 {
			var es []string
			for k, p := range ps {
				n, _ := strconv.Atoi(k)
				es = append(es, fmt.Sprintf("%06d:%s", n, p.ID.String()))
			}
			sort.Strings(es)
			for i := range es {
				es[i] = strings.TrimLeft(es[i][:6], "0") + es[i][6:]
			}
			s := "-"
			if seed != "" {
				s = "+"
			}
			line = fmt.Sprintf("rows seed=%s ts=%d [%s]", s, last, strings.Join(es, " "))
		}
		return nil
	})
	if cls != "ok" {
		line = cls
	} else if line == "" {
		line = r.outcome(err)
	}
	r.emit(vnOp{Op: "nget", Now: vNow(), Sid: sid, Fwd: f, Ts: tsp, ServerIDs: []string{}}, "nget "+line+" k="+r.kind(err))
}

func (r *vnRunner) search() {
	sid := r.sid()
	var line string
	cls := vRecover(func() error {
		res, err := r.m.Search(sid, nil)
		if err != nil {
			if errors.Is(err, ErrServiceNotFound) {
				line = "not-found"
				return nil
			}
			return err
		}
		var es []string
		for _, x := range res {
			es = append(es, x.Presentation.ID.String())
		}
		sort.Strings(es)
		line = "[" + strings.Join(es, " ") + "]"
		return nil
	})
	if cls != "ok" {
		line = cls
	}
	r.emit(vnOp{Op: "nsearch", Now: vNow(), Sid: sid, ServerIDs: []string{}}, "nsearch "+line)
}

type vnCred struct {
	ID        string      `json:"id"`
	Issuer    string      `json:"issuer"`
	Type      *string     `json:"type"`
	SubjectID string      `json:"subjectId"`
	Props     []vnPropKV  `json:"props"`
}
type vnPropKV struct {
	P string `json:"p"`
	V string `json:"v"`
}
type vnIndexEntry struct {
	PID   string   `json:"pid"`
	Creds []vnCred `json:"creds"`
}
type vnTerm struct {
	K string `json:"k"`
	V string `json:"v"`
}

// searchq: Module.Search with a query (store.go applyQuery: wildcards, columns vs indexed properties, every term on ONE
// credential). What CredentialStore.Store indexed of the list's credentials is read from the tables and told to the model.
func (r *vnRunner) searchq() {
	rng := r.rng
	sid := r.sid()
	if rng.Intn(5) != 0 {
		// mostly a list that holds something
		var any []presentationRecord
		r.m.store.db.Find(&any)
		if len(any) > 0 {
			sid = any[rng.Intn(len(any))].ServiceID
		}
	}
	var rows []presentationRecord
	r.m.store.db.Preload("Credentials").Preload("Credentials.Credential").Preload("Credentials.Credential.Properties").Find(&rows, "service_id = ?", sid)
	index := []vnIndexEntry{}
	var subjects, urls []string
	for _, row := range rows {
		e := vnIndexEntry{PID: row.PresentationID, Creds: []vnCred{}}
		for _, c := range row.Credentials {
			vcx := vnCred{ID: c.Credential.ID, Issuer: c.Credential.Issuer, Type: c.Credential.Type, SubjectID: c.Credential.SubjectID, Props: []vnPropKV{}}
			for _, p := range c.Credential.Properties {
				vcx.Props = append(vcx.Props, vnPropKV{p.Path, p.Value})
				if strings.HasSuffix(p.Path, "authServerURL") {
					urls = append(urls, p.Value)
				}
			}
			sort.Slice(vcx.Props, func(i, j int) bool { return vcx.Props[i].P < vcx.Props[j].P })
			e.Creds = append(e.Creds, vcx)
			subjects = append(subjects, c.Credential.SubjectID)
		}
		sort.Slice(e.Creds, func(i, j int) bool { return e.Creds[i].ID < e.Creds[j].ID })
		index = append(index, e)
	}
	sort.Slice(index, func(i, j int) bool { return index[i].PID < index[j].PID })
	subj := vnSubjects[rng.Intn(len(vnSubjects))]
	if len(subjects) > 0 && rng.Intn(3) != 0 {
		subj = subjects[rng.Intn(len(subjects))]
	}
	url := "https://verif.example/oauth2/none"
	if len(urls) > 0 {
		url = urls[rng.Intn(len(urls))]
	}
	last := subj[strings.LastIndex(subj, ":")+1:]
	var q []vnTerm
	switch rng.Intn(22) {
	case 0:
		q = []vnTerm{{"credentialSubject.id", subj}}
	case 1:
		q = []vnTerm{{"credentialSubject.id", "did:example:*"}}
	case 2:
		q = []vnTerm{{"credentialSubject.id", "*:" + last}}
	case 3:
		q = []vnTerm{{"credentialSubject.id", "*example*"}}
	case 4:
		q = []vnTerm{{"issuer", "did:example:authority"}}
	case 5:
		q = []vnTerm{{"issuer", []string{"*", " * ", "**", "*:authority", " * ", "* "}[rng.Intn(6)]}}
	case 6:
		q = []vnTerm{{"issuer", "DID:EXAMPLE:AUTHORITY"}} // "=": exact
	case 7:
		q = []vnTerm{{"issuer", "DID:EXAMPLE:*"}} // LIKE: SQLite compares ASCII letters case-insensitively
	case 8:
		q = []vnTerm{{"credentialSubject.authServerURL", []string{"*", " * ", "* ", " *"}[rng.Intn(4)]}} // a lone asterisk, also padded: IS NOT NULL
	case 9:
		q = []vnTerm{{"credentialSubject.authServerURL", url[:len(url)/2] + "*"}}
	case 10:
		// issuer and authServerURL sit on DIFFERENT credentials: every term must hold of ONE credential
		q = []vnTerm{{"issuer", "did:example:authority"}, {"credentialSubject.authServerURL", "*"}}
	case 11:
		q = []vnTerm{{"issuer", subj}, {"credentialSubject.authServerURL", "*"}} // the self-issued credential has both
	case 12:
		q = []vnTerm{{"type", []string{"TestCredential", "*Credential", "Test*", "DiscoveryRegistrationCredential", "*"}[rng.Intn(5)]}}
	case 13:
		q = []vnTerm{{"credentialSubject.org", []string{"x", "y", "*", "X", " * ", " *"}[rng.Intn(6)]}}
	case 14:
		q = []vnTerm{{"credentialSubject.nothing", "*"}}
	case 15:
		q = []vnTerm{{"id", []string{"*", "did:example:authority#*", "*#org-*"}[rng.Intn(3)]}}
	case 16:
		q = []vnTerm{{"credentialSubject.id", "did:example:s_*"}} // "_" is LIKE's one-character wildcard
	case 17:
		q = []vnTerm{{"credentialSubject.id", "did:example:s_"}} // …but not of "="
	case 18:
		q = []vnTerm{{"credentialSubject.id", subj}, {"issuer", "did:example:authority"}, {"credentialSubject.org", "x"}}
	case 19:
		q = []vnTerm{{"credentialSubject.id", subj}, {"credentialSubject.org", "*"}, {"credentialSubject.authServerURL", "*"}}
	case 20:
		q = []vnTerm{{"credentialSubject.id", "a*b"}}
	default:
		q = []vnTerm{}
	}
	qm := map[string]string{}
	for _, t := range q {
		qm[t.K] = t.V
	}
	var line string
	cls := vRecover(func() error {
		res, err := r.m.Search(sid, qm)
		if err != nil {
			if errors.Is(err, ErrServiceNotFound) {
				line = "not-found"
				return nil
			}
			return err
		}
		var es []string
		for _, x := range res {
			es = append(es, x.Presentation.ID.String())
		}
		sort.Strings(es)
		line = "[" + strings.Join(es, " ") + "]"
		return nil
	})
	if cls != "ok" {
		line = cls
	}
	if q == nil {
		q = []vnTerm{}
	}
	r.emit(vnOp{Op: "nsearchq", Now: vNow(), Sid: sid, ServerIDs: []string{}, Query: q, Index: index, CI: true}, "nsearchq "+line)
}

func TestVerifC16Node(t *testing.T) {
	outDir := os.Getenv("VERIF_OUT")
	if outDir == "" {
		t.Skip("VERIF_OUT not set")
	}
	seed, _ := strconv.ParseInt(os.Getenv("VERIF_SEED"), 10, 64)
	nCfg, _ := strconv.Atoi(os.Getenv("VERIF_NODE_CONFIGS"))
	if nCfg == 0 {
		nCfg = 20
	}
	nOps, _ := strconv.Atoi(os.Getenv("VERIF_NODE_OPS"))
	if nOps == 0 {
		nOps = 14
	}
	var err error
	vKey, err = ecdsa.GenerateKey(elliptic.P256(), crand.Reader)
	if err != nil {
		t.Fatal(err)
	}
	opsF, err := os.Create(filepath.Join(outDir, "nodeops.jsonl"))
	if err != nil {
		t.Fatal(err)
	}
	defer opsF.Close()
	outF, err := os.Create(filepath.Join(outDir, "nodeimpl.out"))
	if err != nil {
		t.Fatal(err)
	}
	defer outF.Close()
	r := &vnRunner{t: t, ops: bufio.NewWriter(opsF), out: bufio.NewWriter(outF), dir: outDir, seed: seed}
	defer r.ops.Flush()
	defer r.out.Flush()
	r.eng = storage.NewTestStorageEngine(t)
	if err := r.eng.Start(); err != nil {
		t.Fatal(err)
	}
	only, _ := strconv.Atoi(os.Getenv("VERIF_NODE_ONLY"))
	for c := 0; c < nCfg; c++ {
		if only > 0 {
			r.n = only - 1
			c = nCfg
		}
		if !r.configure() {
			continue
		}
		for k := 0; k < nOps; k++ {
			switch p := r.rng.Intn(29); {
			case p >= 26:
				r.update()
			case p == 20:
				r.restart()
			case p > 20:
				r.searchq()
			case p < 12:
				r.register()
			case p < 18:
				r.get()
			default:
				r.search()
			}
		}
		for k := 0; k < 4; k++ { // the lists are filled by now
			r.searchq()
		}
		r.update()
		if r.rng.Intn(2) == 0 {
			r.register()
			r.update()
		}
	}
	t.Logf("C16 node: %d ops", r.nOps)
}
