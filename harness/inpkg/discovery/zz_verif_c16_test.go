//go:build verif

// C16 correspondence harness (in-package overlay, nothing is written into /repo).
// A real server Module and a real client Module (clientUpdater + sqlStore), each on its own SQLite database; HTTP is
// replaced by a direct adapter to the server Module's Get/Register. Generated histories of registrations (valid,
// refresh, every single defect), retractions (owner / other signer / unknown), server resets, polls, and polls with
// server events between the two reads of sqlStore.get (a gorm after-query callback on the server DB is the gate).
// After every op one canonical line: result class + full server list + client replica + client search result.
package discovery

import (
	"bufio"
	"context"
	"crypto/ecdsa"
	"crypto/elliptic"
	crand "crypto/rand"
	"encoding/json"
	"errors"
	"fmt"
	"math/rand"
	"os"
	"path/filepath"
	"sort"
	"strconv"
	"strings"
	"testing"
	"time"

	"github.com/lestrrat-go/jwx/v2/jwa"
	"github.com/lestrrat-go/jwx/v2/jwk"
	"github.com/lestrrat-go/jwx/v2/jws"
	"github.com/lestrrat-go/jwx/v2/jwt"
	ssi "github.com/nuts-foundation/go-did"
	"github.com/nuts-foundation/go-did/did"
	"github.com/nuts-foundation/go-did/vc"
	"github.com/nuts-foundation/nuts-node/core"
	"github.com/nuts-foundation/nuts-node/core/to"
	"github.com/nuts-foundation/nuts-node/discovery/api/server/client"
	"github.com/nuts-foundation/nuts-node/storage"
	"github.com/nuts-foundation/nuts-node/test"
	"github.com/nuts-foundation/nuts-node/vcr"
	"github.com/nuts-foundation/nuts-node/vcr/verifier"
	"github.com/nuts-foundation/nuts-node/vdr/didsubject"
	"github.com/nuts-foundation/nuts-node/vdr/resolver"
	"go.uber.org/mock/gomock"
	"gorm.io/gorm"
)

const vSvc = "verif_svc"

// a second list served by the same server (and copied by the same client): everything about vSvc must be independent of it
const vSvc2 = "verif_svc2"

// a third definition known to the client only; its server is unreachable (Get fails)
const vSvcDown = "verif_down"

// ---------- recipes: how a presentation is built (authoritative in replay files) ----------

type vRecipe struct {
	Label      string   `json:"label"`
	Subject    string   `json:"subject"`              // DID that signs
	Format     string   `json:"format"`               // "jwt" | "zero" (zero value, not a JWT)
	Iss        *string  `json:"iss,omitempty"`        // iss/sub claims (default: the signer; "" = no iss/sub claim at all)
	NoKid      bool     `json:"noKid,omitempty"`      // sign without kid header
	NoID       bool     `json:"noId,omitempty"`       // no jti
	JTI        string   `json:"jti,omitempty"`        // explicit jti (default subject#label)
	Aud        []string `json:"aud"`                  // audience
	Exp        *int64   `json:"exp"`                  // seconds relative to t0; nil = no exp claim
	Retraction bool     `json:"retraction,omitempty"` // adds RetractedVerifiablePresentation type
	RetractJTI *string  `json:"retractJti,omitempty"` // retract_jti claim (string)
	RetractNum bool     `json:"retractNum,omitempty"` // retract_jti claim is a number
	Creds      []string `json:"creds"`                // "org" | "orgShort" | "holder" | "foreign"
	VerifyS    bool     `json:"verifyS"`
	VerifyC    bool     `json:"verifyC"`
}

type vDefRecipe struct {
	MaxValidity int      `json:"maxValidity"`
	DIDMethods  []string `json:"didMethods"`
}

type vOp struct {
	Op     string                 `json:"op"`
	Now    int64                  `json:"now,omitempty"`
	T0     int64                  `json:"t0,omitempty"`
	Def    map[string]interface{} `json:"def,omitempty"`
	VP     map[string]interface{} `json:"vp,omitempty"`
	Recipe *vRecipe               `json:"recipe,omitempty"`
	DefR   *vDefRecipe            `json:"defRecipe,omitempty"`
	Hist   int                    `json:"hist,omitempty"`
	Class  string                 `json:"class,omitempty"` // generator's name for the op (distribution / oracle hints)
	Quiet  int                    `json:"quiet,omitempty"` // k-th consecutive poll with no server event since the previous poll
	Until  int64                  `json:"until,omitempty"` // sleep: until t0+Until (real clock)
	Added  int                    `json:"added"`           // cnoise: how many presentations of the OTHER service the client stored (each add prunes)
	Up     bool                   `json:"up"`              // verifier: the client node's verifier is available (true) / down (false)
	After  int                    `json:"after"`           // get: the timestamp asked for
	K      int                    `json:"k"`               // dfinish: which in-flight response (index) arrives
	Order  []string               `json:"order,omitempty"` // poll/pollB: ids in the order updateService stored them (Go map iteration)
}

// ---------- signing ----------

var vKey *ecdsa.PrivateKey

func vSign(subject string, claims map[string]interface{}, withKid bool) string {
	k, err := jwk.FromRaw(vKey)
	if err != nil {
		panic(err)
	}
	_ = k.Set(jwk.AlgorithmKey, jwa.ES256)
	if withKid {
		_ = k.Set(jwk.KeyIDKey, subject+"#0")
	}
	token := jwt.New()
	for key, v := range claims {
		if err := token.Set(key, v); err != nil {
			panic(err)
		}
	}
	hdr := jws.NewHeaders()
	_ = hdr.Set(jws.TypeKey, "JWT")
	b, err := jwt.Sign(token, jwt.WithKey(k.Algorithm(), k, jws.WithProtectedHeaders(hdr)))
	if err != nil {
		panic(err)
	}
	return string(b)
}

// ---------- world ----------

type vBuilt struct {
	rec   vRecipe
	vp    vc.VerifiablePresentation
	model map[string]interface{}
}

type vWorld struct {
	t        *testing.T
	server   *Module
	client   *Module
	def      ServiceDefinition
	t0       int64
	byRaw    map[string]*vBuilt // raw JWT -> built VP (kind lookup, verdicts)
	byID     map[string]*vBuilt
	seeds    []string
	gate     func() // armed: runs once after the first read of sqlStore.get on the server
	defDir     string
	defs       map[string]ServiceDefinition
	noise      map[string]string // other service: subject -> id of its presentation there (what the server must list for vSvc2)
	otherAdds  int               // presentations of the other service the client stored during the running update
	delayed    []*vDelayed
	inject     *vc.VerifiablePresentation // pollinject: an extra entry the adapter adds to the next response
	clientDown bool   // the client node's VerifyVP fails for everything (DID resolution / verifier outage)
	addOrder []string // presentation ids in the order the client stored them during the running updateService
	credPool map[string]vc.VerifiableCredential
}

// vDelayed is another poll of the same client whose response is in flight: its goroutine sits in the adapter, after the
// server answered, until the harness lets the response arrive (only one goroutine ever runs at a time)
type vDelayed struct {
	arrived chan struct{}
	release chan struct{}
	done    chan string
}

type vDelayKey struct{}

type vAdapter struct{ w *vWorld }

func (a vAdapter) Register(ctx context.Context, _ string, presentation vc.VerifiablePresentation) error {
	return a.w.server.Register(ctx, vSvc, presentation)
}
func (a vAdapter) Get(ctx context.Context, endpoint string, timestamp int) (map[string]vc.VerifiablePresentation, string, int, error) {
	id := endpoint[strings.LastIndex(endpoint, "/")+1:]
	if id == vSvcDown {
		return nil, "", 0, errors.New("verif: " + vSvcDown + " is unreachable")
	}
	ps, seed, ts, err := a.w.server.Get(ctx, id, timestamp)
	if err != nil {
		return nil, "", 0, err
	}
	if a.w.inject != nil && id == vSvc {
		ps["999999"] = *a.w.inject
	}
	if d, ok := ctx.Value(vDelayKey{}).(*vDelayed); ok && id == vSvc {
		close(d.arrived)
		<-d.release
	}
	// what api/server/api.go sends and api/server/client/http.go decodes: the JSON form of the response
	body, err := json.Marshal(client.PresentationsResponse{Entries: ps, Seed: seed, Timestamp: ts})
	if err != nil {
		return nil, "", 0, err
	}
	var res client.PresentationsResponse
	if err := json.Unmarshal(body, &res); err != nil {
		return nil, "", 0, err
	}
	return res.Entries, res.Seed, res.Timestamp, nil
}

// vWriteDefinitions writes the service definitions as JSON files, the way an operator configures them; the modules load
// them through Configure -> loadDefinitions -> ParseServiceDefinition (schema validation + decoding)
func vWriteDefinitions(t *testing.T, dir string, r vDefRecipe) {
	_ = os.RemoveAll(dir)
	if err := os.MkdirAll(dir, 0o755); err != nil {
		t.Fatal(err)
	}
	for _, id := range []string{vSvc, vSvc2, vSvcDown} {
		methods := ""
		if len(r.DIDMethods) > 0 {
			b, _ := json.Marshal(r.DIDMethods)
			methods = `"did_methods": ` + string(b) + `,`
		}
		doc := `{"id": "` + id + `", ` + methods + ` "endpoint": "http://verif.example/discovery/` + id + `",
 "presentation_max_validity": ` + strconv.Itoa(r.MaxValidity) + `,
 "presentation_definition": {"id": "pd_` + id + `", "input_descriptors": [
  {"id": "1", "constraints": {"fields": [{"id": "issuer_field", "path": ["$.issuer"], "filter": {"type": "string", "pattern": "did:example:authority"}}]}},
  {"id": "2", "constraints": {"fields": [{"id": "auth_server_url", "path": ["$.credentialSubject.authServerURL"]}]}}]}}`
		if err := os.WriteFile(filepath.Join(dir, id+".json"), []byte(doc), 0o644); err != nil {
			t.Fatal(err)
		}
	}
}

func vTables(db *gorm.DB) error {
	for _, tn := range []string{"discovery_service", "discovery_presentation", "discovery_credential", "credential", "credential_prop"} {
		if err := db.Exec("DELETE FROM " + tn).Error; err != nil {
			return err
		}
	}
	return nil // newSQLStore (Module.Start) creates the service records
}

func (w *vWorld) newModule(engine storage.Engine, isServer bool, verdict func(*vBuilt) bool) *Module {
	ctrl := gomock.NewController(w.t)
	mv := verifier.NewMockVerifier(ctrl)
	mv.EXPECT().VerifyVP(gomock.Any(), true, true, nil).DoAndReturn(
		func(p vc.VerifiablePresentation, _ bool, _ bool, _ *time.Time) ([]vc.VerifiableCredential, error) {
			b := w.byRaw[p.Raw()]
			if b != nil && verdict(b) {
				return p.VerifiableCredential, nil
			}
			return nil, errors.New("verif: signature invalid")
		}).AnyTimes()
	mvcr := vcr.NewMockVCR(ctrl)
	mvcr.EXPECT().Verifier().Return(mv).AnyTimes()
	m := New(engine, mvcr, didsubject.NewMockManager(ctrl), resolver.NewMockDIDResolver(ctrl))
	// configured and started the way the node does it: Config() filled in, Configure (loads the definition files), Start
	cfg := m.Config().(*Config)
	*cfg = DefaultConfig()
	cfg.Client.RefreshInterval = 0
	cfg.Definitions.Directory = w.defDir
	if isServer {
		cfg.Server.IDs = []string{vSvc, vSvc2}
	}
	if err := m.Configure(core.TestServerConfig()); err != nil {
		w.t.Fatal(err)
	}
	if m.publicURL == nil {
		m.publicURL = test.MustParseURL("https://verif.example")
	}
	m.httpClient = vAdapter{w} // the only substitution: HTTP transport -> direct call (+ JSON round trip)
	if err := m.Start(); err != nil {
		w.t.Fatal(err)
	}
	return m
}

// ---------- building presentations ----------

func (w *vWorld) cred(kind, subject string) vc.VerifiableCredential {
	key := kind + "|" + subject
	if c, ok := w.credPool[key]; ok {
		return c
	}
	sd := did.MustParseDID(subject)
	var c vc.VerifiableCredential
	withID := kind != "orgNoId"
	mk := func(issuer string, expRel int64) vc.VerifiableCredential {
		id := ssi.MustParseURI(issuer + "#" + kind + "-" + strings.ReplaceAll(subject, ":", "_"))
		exp := time.Unix(w.t0+expRel, 0)
		cs := map[string]interface{}{"id": subject, "org": "x"}
		idp := &id
		if !withID {
			idp = nil // a credential without `id` (no jti): an optional member as far as the data model goes
		}
		res, err := vc.CreateJWTVerifiableCredential(context.Background(), vc.VerifiableCredential{
			ID: idp, Type: []ssi.URI{ssi.MustParseURI("VerifiableCredential"), ssi.MustParseURI("TestCredential")},
			Issuer: ssi.MustParseURI(issuer), IssuanceDate: time.Unix(w.t0-1000, 0), ExpirationDate: &exp,
			CredentialSubject: []interface{}{cs},
		}, func(_ context.Context, claims map[string]interface{}, _ map[string]interface{}) (string, error) {
			return vSign(issuer, claims, true), nil
		})
		if err != nil {
			panic(err)
		}
		return *res
	}
	switch kind {
	case "org":
		c = mk("did:example:authority", 86400)
	case "orgShort":
		c = mk("did:example:authority", 1800)
	case "orgNoId":
		c = mk("did:example:authority", 86400)
	case "foreign":
		c = mk("did:example:nobody", 86400)
	case "orgBoth":
		// ONE credential that fulfils BOTH input descriptors (issued by the authority and carrying authServerURL)
		doc := `{"@context":["https://www.w3.org/2018/credentials/v1"],"id":"did:example:authority#both-` + strings.ReplaceAll(subject, ":", "_") +
			`","type":["VerifiableCredential","TestCredential"],"issuer":"did:example:authority","issuanceDate":"2024-01-01T00:00:00Z",` +
			`"credentialSubject":{"id":"` + subject + `","authServerURL":"https://verif.example/oauth2/x"}}`
		if err := json.Unmarshal([]byte(doc), &c); err != nil {
			panic(err)
		}
	case "holder":
		c = createHolderCredential(sd, map[string]interface{}{"authServerURL": "https://verif.example/oauth2/" + sd.ID})
	default:
		panic("unknown cred kind " + kind)
	}
	w.credPool[key] = c
	return c
}

func (w *vWorld) build(rec vRecipe) *vBuilt {
	b := &vBuilt{rec: rec}
	var creds []vc.VerifiableCredential
	for _, k := range rec.Creds {
		creds = append(creds, w.cred(k, rec.Subject))
	}
	if rec.Format == "zero" {
		b.vp = vc.VerifiablePresentation{}
	} else if rec.Format == "ld" {
		// the OTHER presentation format: a JSON-LD presentation with a proof by the subject's key (only JWTs may be listed)
		doc := `{"@context":["https://www.w3.org/2018/credentials/v1"],"id":"` + rec.Label + `","type":["VerifiablePresentation"],` +
			`"proof":{"type":"JsonWebSignature2020","verificationMethod":"` + rec.Subject + `#0","proofPurpose":"assertionMethod",` +
			`"created":"2024-01-01T00:00:00Z","domain":"` + vSvc + `","jws":"e30..c2ln"}}`
		p, err := vc.ParseVerifiablePresentation(doc)
		if err != nil {
			panic(err)
		}
		b.vp = *p
	} else {
		inner := vc.VerifiablePresentation{Type: []ssi.URI{ssi.MustParseURI("VerifiablePresentation")}, VerifiableCredential: creds}
		if rec.Retraction {
			inner.Type = append(inner.Type, retractionPresentationType)
		}
		jti := rec.JTI
		if jti == "" {
			jti = rec.Label
		}
		claims := map[string]interface{}{
			jwt.NotBeforeKey: w.t0 - 1000,
			"vlabel":         rec.Label, // makes every built JWT distinct
		}
		// the party behind a presentation is the SIGNER (DID of the kid header); iss/sub are just claims and may name
		// somebody else or be absent (VerifyVP does not compare them with the signer when there are no credentials)
		iss := rec.Subject
		if rec.Iss != nil {
			iss = *rec.Iss
		}
		if iss != "" {
			claims[jwt.IssuerKey], claims[jwt.SubjectKey] = iss, iss
		}
		if !rec.NoID {
			claims[jwt.JwtIDKey] = jti
		}
		if len(rec.Aud) > 0 {
			claims[jwt.AudienceKey] = rec.Aud
		}
		if rec.Exp != nil {
			claims[jwt.ExpirationKey] = time.Unix(w.t0+*rec.Exp, 0)
		}
		if rec.RetractNum {
			claims["retract_jti"] = 10
		} else if rec.RetractJTI != nil {
			claims["retract_jti"] = *rec.RetractJTI
		}
		claims["vp"] = inner
		p, err := vc.ParseVerifiablePresentation(vSign(rec.Subject, claims, !rec.NoKid))
		if err != nil {
			panic(err)
		}
		b.vp = *p
	}
	// what the model is told: read off the parsed presentation the same way the code reads it
	m := map[string]interface{}{"label": rec.Label, "verifyS": rec.VerifyS, "verifyC": rec.VerifyC}
	m["jwt"] = b.vp.Format() == vc.JWTPresentationProofFormat
	if b.vp.ID != nil {
		m["id"] = b.vp.ID.String()
	}
	aud := []string{}
	var credExps []interface{}
	if tok := b.vp.JWT(); tok != nil {
		aud = append(aud, tok.Audience()...)
		if e := tok.Expiration(); !e.IsZero() {
			m["exp"] = e.Unix()
		}
		if raw, ok := tok.Get("retract_jti"); ok {
			if s, ok := raw.(string); ok {
				m["retractJti"] = s
			}
		}
	}
	m["aud"] = aud
	if kid := vKid(b.vp); kid != nil {
		m["signer"] = []string{kid.String(), kid.Method}
	}
	m["retraction"] = b.vp.IsType(retractionPresentationType)
	credIds := []bool{}
	for _, c := range b.vp.VerifiableCredential {
		credIds = append(credIds, c.ID != nil)
		if c.ExpirationDate != nil {
			credExps = append(credExps, c.ExpirationDate.Unix())
		} else {
			credExps = append(credExps, nil)
		}
	}
	if credExps == nil {
		credExps = []interface{}{}
	}
	m["creds"] = credExps
	m["credIds"] = credIds
	// the PEX verdict told to the model: Match failed (-1), or how many of the PRESENTED credentials Match used to fulfil
	// the definition (one credential may fulfil several input descriptors, Match then returns it several times)
	matched, _, err := w.def.PresentationDefinition.Match(b.vp.VerifiableCredential)
	if err != nil {
		m["pex"] = -1
	} else {
		used := 0
		for _, pc := range b.vp.VerifiableCredential {
			for _, mc := range matched {
				if pc.ID != nil && mc.ID != nil && pc.ID.String() == mc.ID.String() && pc.Raw() == mc.Raw() {
					used++
					break
				}
			}
		}
		m["pex"] = used
		m["pexReturned"] = len(matched)
	}
	b.model = m
	if b.vp.Raw() != "" {
		w.byRaw[b.vp.Raw()] = b
	}
	if b.vp.ID != nil {
		w.byID[b.vp.ID.String()] = b
	}
	return b
}

// the signer as credential.PresentationSigner derives it is reproduced here from the kid header only to TELL the model;
// the implementation under test derives it itself
func vKid(p vc.VerifiablePresentation) *did.DID {
	if p.Format() != vc.JWTPresentationProofFormat {
		return nil
	}
	msg, err := jws.ParseString(p.Raw())
	if err != nil || len(msg.Signatures()) == 0 {
		return nil
	}
	kid := msg.Signatures()[0].ProtectedHeaders().KeyID()
	if kid == "" {
		return nil
	}
	u, err := did.ParseDIDURL(kid)
	if err != nil {
		return nil
	}
	return &u.DID
}

// ---------- canonical observation ----------

func (w *vWorld) seedName(s string) string {
	if s == "" {
		return "-"
	}
	for i, x := range w.seeds {
		if x == s {
			return "S" + strconv.Itoa(i+1)
		}
	}
	w.seeds = append(w.seeds, s)
	return "S" + strconv.Itoa(len(w.seeds))
}

func (w *vWorld) rowString(r presentationRecord, withTs bool) string {
	kind := "P"
	if b := w.byRaw[r.PresentationRaw]; b != nil && b.vp.IsType(retractionPresentationType) {
		kind = "R"
	}
	v := "u"
	if r.Validated {
		v = "v"
	}
	s := fmt.Sprintf("%s:%s:%d:%s:%s", r.CredentialSubjectID, r.PresentationID, r.PresentationExpiration-w.t0, kind, v)
	if withTs {
		s = strconv.Itoa(r.LamportTimestamp) + ":" + s
	}
	return s
}

func vErrClass(err error) string {
	if err == nil {
		return "ok"
	}
	s := err.Error()
	switch {
	case strings.Contains(s, "credential does not have an ID"):
		return "err:cred-no-id"
	case errors.Is(err, errUnsupportedPresentationFormat):
		return "err:format"
	case errors.Is(err, errPresentationWithoutID):
		return "err:no-id"
	case strings.Contains(s, "aud claim is missing or invalid"):
		return "err:aud"
	case errors.Is(err, errPresentationWithoutExpiration):
		return "err:no-exp"
	case strings.Contains(s, "valid for too long"):
		return "err:too-long"
	case errors.Is(err, ErrDIDMethodsNotSupported):
		return "err:did-method"
	case errors.Is(err, errRetractionContainsCredentials):
		return "err:retract-creds"
	case errors.Is(err, errInvalidRetractionJTIClaim):
		return "err:retract-jti"
	case errors.Is(err, errRetractionReferencesUnknownPresentation):
		return "err:retract-unknown"
	case errors.Is(err, errPresentationValidityExceedsCredentials):
		return "err:cred-exp"
	case strings.Contains(s, "doesn't match required presentation definition"):
		return "err:pex-nomatch"
	case errors.Is(err, errPresentationDoesNotFulfillDefinition):
		return "err:pex-partial"
	case strings.Contains(s, "presentation verification failed"):
		return "err:verify"
	case errors.Is(err, ErrPresentationAlreadyExists):
		return "err:exists"
	case strings.Contains(s, "no kid header") || strings.Contains(s, "cannot parse kid"):
		return "err:signer"
	}
	if len(s) > 80 {
		s = s[:80]
	}
	return "err:other:" + strings.Map(func(c rune) rune {
		if c == ' ' || c == '|' || c == '\n' || c == '\t' {
			return '_'
		}
		return c
	}, s)
}

func (w *vWorld) observe(cls string, now int64) string {
	var svc serviceRecord
	var sb strings.Builder
	sb.WriteString(cls)
	for i, m := range []*Module{w.server, w.client} {
		db := m.store.db
		svc = serviceRecord{}
		if err := db.Find(&svc, "id = ?", vSvc).Error; err != nil {
			w.t.Fatal(err)
		}
		var rows []presentationRecord
		if err := db.Order("lamport_timestamp ASC").Find(&rows, "service_id = ?", vSvc).Error; err != nil {
			w.t.Fatal(err)
		}
		var rs []string
		if i == 0 {
			sort.SliceStable(rows, func(a, b int) bool {
				if rows[a].LamportTimestamp != rows[b].LamportTimestamp {
					return rows[a].LamportTimestamp < rows[b].LamportTimestamp
				}
				if rows[a].CredentialSubjectID != rows[b].CredentialSubjectID {
					return rows[a].CredentialSubjectID < rows[b].CredentialSubjectID
				}
				return rows[a].PresentationID < rows[b].PresentationID
			})
			for _, r := range rows {
				rs = append(rs, w.rowString(r, true))
			}
			sb.WriteString(fmt.Sprintf(" | S seed=%s ts=%d [%s]", w.seedName(svc.Seed), svc.LastLamportTimestamp, strings.Join(rs, " ")))
		} else {
			sort.SliceStable(rows, func(a, b int) bool {
				if rows[a].CredentialSubjectID != rows[b].CredentialSubjectID {
					return rows[a].CredentialSubjectID < rows[b].CredentialSubjectID
				}
				return rows[a].PresentationID < rows[b].PresentationID
			})
			for _, r := range rows {
				rs = append(rs, w.rowString(r, false))
			}
			sb.WriteString(fmt.Sprintf(" | C seed=%s ts=%d [%s]", w.seedName(svc.Seed), svc.LastLamportTimestamp, strings.Join(rs, " ")))
		}
	}
	res, err := w.client.Search(vSvc, nil)
	if err != nil {
		w.t.Fatal(err)
	}
	var q []string
	for _, r := range res {
		sub := ""
		if k := vKid(r.Presentation); k != nil {
			sub = k.String()
		}
		q = append(q, sub+":"+r.Presentation.ID.String())
	}
	sort.Strings(q)
	sb.WriteString(" | Q [" + strings.Join(q, " ") + "]")
	return sb.String()
}

// ---------- the runner ----------

type vRunner struct {
	t       *testing.T
	engS    storage.Engine
	engC    storage.Engine
	w       *vWorld
	ops     *bufio.Writer
	out     *bufio.Writer
	rng     *rand.Rand
	nOps    int
	nextLbl int
	dir     string
	side    *bufio.Writer
}

func (r *vRunner) emit(op vOp, line string) {
	b, _ := json.Marshal(op)
	r.ops.Write(b)
	r.ops.WriteString("\n")
	r.out.WriteString(line + "\n")
	r.side.WriteString(r.sideLine() + "\n")
	r.nOps++
}

// sideLine: observations that are not part of the model but of the direct oracle: the OTHER service's rows on both nodes
// (must only change through operations on that service) and the client's search with a query
func (r *vRunner) sideLine() string {
	w := r.w
	if w == nil || w.server == nil || w.client == nil {
		return "{}"
	}
	ids := func(m *Module) []string {
		var rows []presentationRecord
		m.store.db.Find(&rows, "service_id = ?", vSvc2)
		out := []string{}
		for _, x := range rows {
			out = append(out, x.CredentialSubjectID+":"+x.PresentationID)
		}
		sort.Strings(out)
		return out
	}
	q2 := map[string][]string{}
	for _, sub := range vSubjects {
		res, err := w.client.Search(vSvc, map[string]string{"credentialSubject.id": sub})
		l := []string{}
		if err != nil {
			l = append(l, "error:"+err.Error())
		}
		for _, x := range res {
			signer := ""
			if k := vKid(x.Presentation); k != nil {
				signer = k.String()
			}
			l = append(l, signer+":"+x.Presentation.ID.String())
		}
		sort.Strings(l)
		q2[sub] = l
	}
	var svcs []serviceRecord
	w.client.store.db.Find(&svcs)
	b, _ := json.Marshal(map[string]interface{}{"s2S": ids(w.server), "s2C": ids(w.client), "q2": q2, "noise": w.noise})
	return string(b)
}

func vNow() int64 { return time.Now().Unix() }

func (r *vRunner) initHistory(hist int, dr vDefRecipe) {
	if r.w != nil {
		for _, d := range r.w.delayed { // never leave a poll in flight across histories
			close(d.release)
			<-d.done
		}
		r.w.delayed = nil
		_ = r.w.server.Shutdown()
		_ = r.w.client.Shutdown()
	}
	w := &vWorld{t: r.t, t0: vNow(), byRaw: map[string]*vBuilt{}, byID: map[string]*vBuilt{}, credPool: map[string]vc.VerifiableCredential{},
		noise: map[string]string{}, defDir: filepath.Join(r.dir, "definitions")}
	vWriteDefinitions(r.t, w.defDir, dr)
	if err := vTables(r.engS.GetSQLDatabase()); err != nil {
		r.t.Fatal(err)
	}
	if err := vTables(r.engC.GetSQLDatabase()); err != nil {
		r.t.Fatal(err)
	}
	w.server = w.newModule(r.engS, true, func(b *vBuilt) bool { return b.rec.VerifyS })
	w.client = w.newModule(r.engC, false, func(b *vBuilt) bool { return b.rec.VerifyC && !w.clientDown })
	w.defs = w.server.allDefinitions
	w.def = w.defs[vSvc]
	if len(w.server.serverDefinitions) != 2 || len(w.client.serverDefinitions) != 0 || len(w.client.allDefinitions) != 3 {
		r.t.Fatalf("definitions not wired as configured: server serves %d, client serves %d of %d", len(w.server.serverDefinitions), len(w.client.serverDefinitions), len(w.client.allDefinitions))
	}
	r.w = w
	methods := dr.DIDMethods
	if methods == nil {
		methods = []string{}
	}
	r.emit(vOp{Op: "init", T0: w.t0, Hist: hist, DefR: &dr,
		Def: map[string]interface{}{"id": vSvc, "maxValidity": dr.MaxValidity, "didMethods": methods}}, "init")
}

func vRecover(f func() error) (cls string) {
	defer func() {
		if p := recover(); p != nil {
			cls = fmt.Sprintf("panic:%v", p)
			if len(cls) > 100 {
				cls = cls[:100]
			}
			cls = strings.Map(func(c rune) rune {
				if c == ' ' || c == '|' || c == '\n' || c == '\t' {
					return '_'
				}
				return c
			}, cls)
		}
	}()
	return vErrClass(f())
}

// exec runs one op on the implementation and writes its op + line. src yields the following ops (for a gated poll).
func (r *vRunner) exec(op vOp, src func() (vOp, bool)) {
	w := r.w
	ctx := context.Background()
	op.Now = vNow()
	switch op.Op {
	case "register":
		b := w.build(*op.Recipe)
		op.VP = b.model
		sent := b.vp
		if b.vp.Raw() != "" {
			// what http.go posts and the API wrapper decodes
			body, err := json.Marshal(b.vp)
			if err != nil {
				r.t.Fatal(err)
			}
			var back vc.VerifiablePresentation
			if err := json.Unmarshal(body, &back); err != nil {
				r.t.Fatal(err)
			}
			sent = back
		}
		cls := vRecover(func() error { return w.server.Register(ctx, vSvc, sent) })
		r.emit(op, w.observe(cls, op.Now))
	case "reset":
		// the server loses its database and starts again (newSQLStore re-creates the service records)
		if err := vTables(r.engS.GetSQLDatabase()); err != nil {
			r.t.Fatal(err)
		}
		if _, err := newSQLStore(r.engS.GetSQLDatabase(), w.server.allDefinitions); err != nil {
			r.t.Fatal(err)
		}
		w.noise = map[string]string{}
		r.emit(op, w.observe("ok", op.Now))
	case "noise":
		// a registration on the OTHER list of the same server: for vSvc only its prune (all services) is visible
		rec := *op.Recipe
		b := w.build(rec)
		op.VP = b.model
		cls := vRecover(func() error { return w.server.Register(ctx, vSvc2, b.vp) })
		if cls == "ok" {
			w.noise[rec.Subject] = b.vp.ID.String()
			op.Added = 1
		}
		r.emit(op, w.observe("ok", op.Now)) // its own outcome is judged by the side oracle (the other list's rows)
	case "cnoise":
		// the client copies the OTHER list
		w.addOrder, w.otherAdds = nil, 0
		cls := vRecover(func() error { return w.client.clientUpdater.updateService(ctx, w.defs[vSvc2]) })
		op.Added = w.otherAdds
		r.emit(op, w.observe(cls, op.Now))
	case "pollall":
		// clientUpdater.update: every service the client knows, in Go's map order, one of them unreachable.
		// The other list was copied just before, so only vSvc has news.
		w.otherAdds = 0
		_ = vRecover(func() error { return w.client.clientUpdater.updateService(ctx, w.defs[vSvc2]) })
		_ = vRecover(func() error { return w.client.clientUpdater.updateService(ctx, w.defs[vSvc2]) })
		op.Added = w.otherAdds // each of them pruned the client's rows first
		w.addOrder, w.otherAdds = nil, 0
		cls := vRecover(func() error { return w.client.clientUpdater.update(ctx) })
		if strings.HasPrefix(cls, "err:other:") && strings.Contains(cls, vSvcDown) && !strings.Contains(cls, vSvc+")") {
			cls = "err:other-service-down"
		}
		op.Added += w.otherAdds // expected 0 (copied just before); whatever happens is for the comparison / oracle to judge
		op.Order = w.addOrder
		r.emit(op, w.observe(cls, op.Now))
	case "restartS", "restartC":
		// the node stops and starts again on the SAME database (Configure + Start as at boot): nothing persistent may change
		if len(w.delayed) > 0 {
			r.t.Fatalf("%s while a response is in flight", op.Op)
		}
		if op.Op == "restartS" {
			_ = w.server.Shutdown()
			w.server = w.newModule(r.engS, true, func(b *vBuilt) bool { return b.rec.VerifyS })
		} else {
			_ = w.client.Shutdown()
			w.client = w.newModule(r.engC, false, func(b *vBuilt) bool { return b.rec.VerifyC && !w.clientDown })
		}
		r.emit(op, w.observe("ok", op.Now))
	case "dstart":
		// another poll of the same client (updateService is not serialised): the server answers now, the response stays in flight
		d := &vDelayed{arrived: make(chan struct{}), release: make(chan struct{}), done: make(chan string, 1)}
		go func() {
			d.done <- vRecover(func() error {
				return w.client.clientUpdater.updateService(context.WithValue(ctx, vDelayKey{}, d), w.def)
			})
		}()
		<-d.arrived
		w.delayed = append(w.delayed, d)
		r.emit(op, w.observe("ok", op.Now))
	case "dfinish":
		if op.K >= len(w.delayed) {
			r.t.Fatalf("dfinish %d: only %d responses in flight", op.K, len(w.delayed))
		}
		d := w.delayed[op.K]
		w.delayed = append(w.delayed[:op.K:op.K], w.delayed[op.K+1:]...)
		w.addOrder = nil
		close(d.release)
		cls := <-d.done
		op.Order = w.addOrder
		r.emit(op, w.observe(cls, op.Now))
	case "pollinject":
		// a faulty / hostile discovery server hands out a presentation the real server would never list (here: with a
		// credential without id) next to what it really lists; the client stores before it verifies
		inj := w.build(*op.Recipe)
		op.VP = inj.model
		w.inject = &inj.vp
		w.addOrder = nil
		cls := vRecover(func() error { return w.client.clientUpdater.updateService(ctx, w.def) })
		w.inject = nil
		r.emit(op, w.observe(cls, op.Now))
	case "purge":
		// clientRegistrationManager.removeRevoked: nothing is revoked here, verification failures are not revocations
		cls := vRecover(func() error { return w.client.registrationManager.removeRevoked() })
		r.emit(op, w.observe(cls, op.Now))
	case "poll":
		w.addOrder = nil
		cls := vRecover(func() error { return w.client.clientUpdater.updateService(ctx, w.def) })
		op.Order = w.addOrder
		r.emit(op, w.observe(cls, op.Now))
	case "validate":
		cls := vRecover(func() error { return w.client.registrationManager.validate() })
		r.emit(op, w.observe(cls, op.Now))
	case "verifier":
		w.clientDown = !op.Up
		r.emit(op, w.observe("ok", op.Now))
	case "get":
		// the server's Get as a client sees it (no interleaving): seed, timestamp, entries keyed by timestamp
		var line string
		cls := vRecover(func() error {
			ps, seed, ts, err := w.server.Get(ctx, vSvc, op.After)
			if err != nil {
				return err
			}
			var es []string
			for k, p := range ps {
				n, _ := strconv.Atoi(k)
				es = append(es, fmt.Sprintf("%06d:%s", n, p.ID.String()))
			}
			sort.Strings(es)
			for i := range es {
				es[i] = strings.TrimLeft(es[i][:6], "0") + es[i][6:]
			}
			line = fmt.Sprintf("get after=%d seed=%s ts=%d [%s]", op.After, w.seedName(seed), ts, strings.Join(es, " "))
			return nil
		})
		if cls != "ok" {
			line = "get " + cls
		}
		r.emit(op, line)
	case "sleep":
		for vNow() < w.t0+op.Until {
			time.Sleep(50 * time.Millisecond)
		}
		op.Now = vNow()
		r.emit(op, w.observe("ok", op.Now))
	case "pollA":
		// the first read of sqlStore.get happens when updateService runs; nothing happens on either node between
		// this op and that read, so the state observed here is the state it reads
		r.emit(op, w.observe("ok", op.Now))
		fired := false
		w.gate = func() {
			fired = true
			for {
				mid, ok := src()
				if !ok || mid.Op == "pollB" {
					return
				}
				if mid.Op != "register" && mid.Op != "reset" {
					r.t.Fatalf("op %s cannot run between the two reads of get", mid.Op)
				}
				r.exec(mid, nil)
			}
		}
		w.addOrder = nil
		cls := vRecover(func() error { return w.client.clientUpdater.updateService(ctx, w.def) })
		w.gate = nil
		if !fired {
			r.t.Fatalf("gate did not fire during updateService")
		}
		nowB := vNow()
		r.emit(vOp{Op: "pollB", Now: nowB, Order: w.addOrder}, w.observe(cls, nowB))
	default:
		r.t.Fatalf("unknown op %q", op.Op)
	}
}

// ---------- generator ----------

var vSubjects = []string{"did:example:s1", "did:example:s2", "did:example:s3"}

func (r *vRunner) label() string {
	r.nextLbl++
	return "v" + strconv.Itoa(r.nextLbl)
}

func i64(v int64) *int64 { return &v }

// serverRows reads the server list (the generator aims retractions / duplicates at what is really there)
func (r *vRunner) serverRows() []presentationRecord {
	var rows []presentationRecord
	r.w.server.store.db.Order("lamport_timestamp ASC").Find(&rows, "service_id = ?", vSvc)
	return rows
}

func (r *vRunner) validRecipe(subject string) vRecipe {
	rng := r.rng
	creds := []string{"org", "holder"}
	if rng.Intn(2) == 0 {
		creds = []string{"holder", "org"}
	}
	return vRecipe{Label: r.label(), Subject: subject, Format: "jwt", Aud: []string{vSvc}, Exp: i64(3600 + int64(rng.Intn(600))),
		Creds: creds, VerifyS: true, VerifyC: rng.Intn(8) != 0 && !(r.w.clientDown && rng.Intn(3) == 0)}
}

// genServerOp returns a registration-like op (class says which kind)
func (r *vRunner) genServerOp(lastExp map[string]int64) vOp {
	rng := r.rng
	subj := vSubjects[rng.Intn(len(vSubjects))]
	rec := r.validRecipe(subj)
	// keep expiry monotone per subject unless the class says otherwise
	if e, ok := lastExp[subj]; ok && *rec.Exp < e {
		rec.Exp = i64(e + int64(rng.Intn(5)))
	}
	class := "valid"
	rows := r.serverRows()
	pick := rng.Intn(100)
	switch {
	case pick < 30:
		// valid (first registration or refresh)
		if rng.Intn(5) == 0 {
			class, rec.Aud = "valid-two-audiences", [][]string{{vSvc2, vSvc}, {vSvc, "x"}}[rng.Intn(2)]
		}
	case pick < 32:
		// the id another subject uses here: ids are per signer, so this is a registration like any other
		for _, row := range rows {
			if row.CredentialSubjectID != subj {
				class, rec.JTI = "valid-id-of-another-subject", row.PresentationID
				break
			}
		}
	case pick < 34:
		// the id this subject uses on the OTHER list of the server
		if id, ok := r.w.noise[subj]; ok {
			class, rec.JTI = "valid-id-used-on-other-list", id
		}
	case pick < 38:
		class, rec.Format = "defect:format", []string{"zero", "ld"}[rng.Intn(2)]
	case pick < 41:
		class, rec.NoID = "defect:no-id", true
	case pick < 44:
		class = "defect:aud"
		// nobody, another list of the same server, near misses of this list's id (prefix / case)
		rec.Aud = [][]string{{}, {vSvc2}, {"other_svc", "x"}, {vSvc + "_v2"}, {strings.ToUpper(vSvc)}, {"verif"}}[rng.Intn(6)]
	case pick < 46:
		class, rec.Exp = "defect:no-exp", nil
	case pick < 49:
		class, rec.Exp = "defect:too-long", i64(int64(r.w.def.PresentationMaxValidity)+600+int64(rng.Intn(100)))
	case pick < 51:
		class, rec.NoKid = "defect:no-kid", true
	case pick < 54:
		// another method, and near misses of the allowed method name (longer / shorter)
		class, rec.Subject = "defect:did-method", []string{"did:web:verif.example:x0", "did:web:verif.example:x1", "did:example2:x0", "did:exam:x0"}[rng.Intn(4)]
	case pick < 57:
		// outlives a credential; the sooner-expiring one first or AFTER one that does not expire at all
		class, rec.Creds = "defect:cred-exp", [][]string{{"orgShort", "holder"}, {"holder", "orgShort"}}[rng.Intn(2)]
		if rec.Creds[0] == "holder" {
			class = "defect:cred-exp-after-non-expiring"
		}
	case pick < 60:
		class = "defect:pex-nomatch"
		rec.Creds = [][]string{{}, {"foreign"}, {"holder"}, {"org"}}[rng.Intn(4)]
	case pick < 61:
		// one credential fulfils both input descriptors: alone it is a conforming presentation, with an arbitrary extra
		// credential next to it the extra one fulfils nothing ("all and only")
		switch rng.Intn(3) {
		case 0:
			class, rec.Creds = "valid-one-credential-for-both-descriptors", []string{"orgBoth"}
		case 1:
			class, rec.Creds = "defect:pex-extra-next-to-double-match", []string{"orgBoth", "foreign"}
		default:
			class, rec.Creds = "defect:pex-extra-next-to-double-match", []string{"foreign", "orgBoth"}
		}
	case pick < 63:
		class = "defect:pex-partial"
		rec.Creds = [][]string{{"org", "holder", "foreign"}, {"org", "holder", "orgShort"}}[rng.Intn(2)]
		if rec.Creds[2] == "orgShort" {
			rec.Exp = i64(1000 + int64(rng.Intn(100))) // below the short credential's expiry, so only PEX is at fault
			class = "defect:pex-partial-nonmono"
		}
	case pick < 66:
		class, rec.VerifyS = "defect:verify", false
	case pick < 68:
		// expired on arrival and (as the real verifier would) rejected
		class, rec.Exp, rec.VerifyS = "defect:expired-rejected", i64(-600-int64(rng.Intn(100))), false
	case pick < 70:
		// expired on arrival but let through by a lenient verifier: a subject of its own (s4), so that no live entry is
		// replaced by a shorter-lived one; exercises prune / search on expired rows
		class, rec.Subject = "expired-accepted", "did:example:s4"
		e := int64(-700 + rng.Intn(50))
		if le, ok := lastExp[rec.Subject]; ok && e < le {
			e = le + int64(rng.Intn(3))
		}
		rec.Exp = i64(e)
		lastExp[rec.Subject] = e
	case pick < 73:
		// the same presentation again
		if len(rows) > 0 {
			if b := r.w.byRaw[rows[rng.Intn(len(rows))].PresentationRaw]; b != nil {
				class, rec = "duplicate", b.rec
			}
		}
	case pick < 84:
		// retraction by the owner of an existing entry
		if len(rows) > 0 {
			row := rows[rng.Intn(len(rows))]
			class = "retract:owner"
			rec = vRecipe{Label: r.label(), Subject: row.CredentialSubjectID, Format: "jwt", Aud: []string{vSvc}, Retraction: true,
				Exp: i64(row.PresentationExpiration - r.w.t0 + int64(rng.Intn(5))), RetractJTI: to.Ptr(row.PresentationID),
				Creds: []string{}, VerifyS: true, VerifyC: true}
			if rng.Intn(6) == 0 {
				class, rec.VerifyS = "retract:owner-bad-signature", false
			} else if rng.Intn(5) == 0 {
				// a retraction is a presentation too: it must not be valid for longer than the maximum either
				class, rec.Exp = "retract:owner-valid-too-long", i64(int64(r.w.def.PresentationMaxValidity)+600+int64(rng.Intn(100)))
			}
		}
	case pick < 90:
		// retraction of somebody else's entry
		if len(rows) > 0 {
			row := rows[rng.Intn(len(rows))]
			other := vSubjects[rng.Intn(len(vSubjects))]
			if other != row.CredentialSubjectID {
				class = "retract:non-owner"
				rec = vRecipe{Label: r.label(), Subject: other, Format: "jwt", Aud: []string{vSvc}, Retraction: true, Exp: i64(3600 + int64(rng.Intn(600))),
					RetractJTI: to.Ptr(row.PresentationID), Creds: []string{}, VerifyS: true, VerifyC: true}
				// forged: signed by `other` with its own key (so the signature verifies), but the claims name the owner / nobody
				switch rng.Intn(3) {
				case 0:
					class, rec.Iss = "retract:non-owner-iss-names-owner", to.Ptr(row.CredentialSubjectID)
				case 1:
					class, rec.Iss = "retract:non-owner-no-iss", to.Ptr("")
				}
			}
		}
	case pick < 93:
		class = "retract:unknown"
		rec = vRecipe{Label: r.label(), Subject: subj, Format: "jwt", Aud: []string{vSvc}, Retraction: true, Exp: rec.Exp,
			RetractJTI: to.Ptr(subj + "#nothing"), Creds: []string{}, VerifyS: true, VerifyC: true}
	case pick < 95:
		class = "retract:with-creds"
		rec.Retraction, rec.RetractJTI = true, to.Ptr(subj+"#x")
	case pick < 96:
		// a credential without `id`: the credential store keys its records by it
		class = "defect:cred-no-id"
		rec.Creds = [][]string{{"orgNoId", "holder"}, {"holder", "orgNoId"}}[rng.Intn(2)]
	case pick < 97:
		class = "retract:no-jti"
		rec.Retraction, rec.Creds = true, []string{}
		switch rng.Intn(3) {
		case 0:
			rec.RetractJTI = to.Ptr("")
		case 1:
			rec.RetractNum = true
		}
	default:
		// two defects at once
		class = "defect:multi"
		rec.Aud = []string{"other_svc"}
		rec.VerifyS = false
		rec.Creds = []string{"foreign"}
	}
	return vOp{Op: "register", Recipe: &rec, Class: class}
}

func (r *vRunner) history(hist int, nOps int) {
	rng := r.rng
	dr := vDefRecipe{MaxValidity: 7200, DIDMethods: []string{"example"}}
	if rng.Intn(4) == 0 {
		dr.DIDMethods = nil // every DID method allowed
	}
	r.initHistory(hist, dr)
	lastExp := map[string]int64{}
	quiet := 0
	down := false
	var queue []vOp
	src := func() (vOp, bool) {
		if len(queue) == 0 {
			return vOp{}, false
		}
		o := queue[0]
		queue = queue[1:]
		return o, true
	}
	noteExp := func(o vOp) {
		// generator bookkeeping only: remember the expiry a subject last registered with (accepted or not does not matter)
		if o.Op == "register" && o.Class == "valid" || strings.HasPrefix(o.Class, "retract:owner") {
			if o.Recipe.Exp != nil && *o.Recipe.Exp > lastExp[o.Recipe.Subject] {
				lastExp[o.Recipe.Subject] = *o.Recipe.Exp
			}
		}
	}
	for i := 0; i < nOps; i++ {
		p := rng.Intn(100)
		switch {
		case p < 50:
			o := r.genServerOp(lastExp)
			noteExp(o)
			r.exec(o, nil)
			quiet = 0
		case p < 53:
			r.exec(vOp{Op: "reset", Class: "reset"}, nil)
			lastExp = map[string]int64{}
			quiet = 0
		case p < 56:
			// the other list of the same server gets an entry of one of our subjects (sometimes under the id it uses here)
			subj := vSubjects[rng.Intn(len(vSubjects))]
			rec := r.validRecipe(subj)
			rec.Aud = []string{vSvc2}
			if rows := r.serverRows(); len(rows) > 0 && rng.Intn(3) == 0 {
				for _, row := range rows {
					if row.CredentialSubjectID == subj {
						rec.JTI = row.PresentationID
					}
				}
			}
			r.exec(vOp{Op: "noise", Recipe: &rec, Class: "other-list-registration"}, nil)
		case p < 58:
			r.exec(vOp{Op: "cnoise", Class: "other-list-poll"}, nil)
		case p < 60:
			quiet++
			r.exec(vOp{Op: "pollall", Quiet: quiet, Class: "update-all-services"}, nil)
		case p < 61:
			r.exec(vOp{Op: "purge", Class: "remove-revoked"}, nil)
		case p < 62:
			r.exec(vOp{Op: []string{"restartS", "restartS", "restartC"}[rng.Intn(3)], Class: "node-restart"}, nil)
		case p < 66:
			// a second poller: its response is in flight while subjects refresh / retract and the first poller completes polls;
			// it is applied afterwards (the older response last)
			r.exec(vOp{Op: "dstart", Class: "overlapping-poll"}, nil)
			for k, n := 0, 1+rng.Intn(3); k < n; k++ {
				if rng.Intn(3) == 0 {
					r.exec(vOp{Op: "poll", Quiet: 1}, nil)
				} else {
					o := r.genServerOp(lastExp)
					if rng.Intn(2) == 0 {
						// favour a refresh of somebody who is listed
						if rows := r.serverRows(); len(rows) > 0 {
							row := rows[rng.Intn(len(rows))]
							if strings.HasPrefix(row.CredentialSubjectID, "did:example:s") && row.CredentialSubjectID != "did:example:s4" {
								rec := r.validRecipe(row.CredentialSubjectID)
								if e := row.PresentationExpiration - r.w.t0; *rec.Exp < e {
									rec.Exp = i64(e + 1)
								}
								o = vOp{Op: "register", Recipe: &rec, Class: "valid"}
							}
						}
					}
					noteExp(o)
					r.exec(o, nil)
				}
			}
			r.exec(vOp{Op: "dfinish", K: 0, Class: "overlapping-poll"}, nil)
			quiet = 0
		case p < 76:
			quiet++
			r.exec(vOp{Op: "poll", Quiet: quiet}, nil)
		case p < 84:
			// quiescent polls: the convergence oracle looks at the last one
			for k := 0; k < 2; k++ {
				quiet++
				r.exec(vOp{Op: "poll", Quiet: quiet}, nil)
			}
			if rng.Intn(3) == 0 && r.w.server.store != nil {
				// only when the list has a seed and a timestamp (else the client would take the server role for the entry)
				var svc serviceRecord
				r.w.server.store.db.Find(&svc, "id = ?", vSvc)
				live := true // an expired server row may be re-fetched in this poll: its turn relative to the injected entry is map order
				for _, row := range r.serverRows() {
					if row.PresentationExpiration <= vNow()+5 {
						live = false
					}
				}
				if svc.Seed != "" && live {
					rec := r.validRecipe("did:example:s5")
					class := "server-hands-out-credential-without-id"
					switch rng.Intn(4) {
					case 0: // round 3: what the loop of updateService would dereference — refused before anything is stored
						class, rec.NoID = "hostile:malformed-no-id", true
					case 1:
						class, rec.Format = "hostile:malformed-not-jwt", []string{"zero", "ld"}[rng.Intn(2)]
					default:
						rec.Creds = []string{"orgNoId", "holder"}
					}
					r.exec(vOp{Op: "pollinject", Recipe: &rec, Class: class}, nil)
				}
			}
		case p < 94:
			// a poll with server events between the two reads of get
			n := 1 + rng.Intn(3)
			queue = nil
			for k := 0; k < n; k++ {
				if rng.Intn(12) == 0 {
					queue = append(queue, vOp{Op: "reset", Class: "reset"})
					lastExp = map[string]int64{}
				} else {
					o := r.genServerOp(lastExp)
					noteExp(o)
					queue = append(queue, o)
				}
			}
			queue = append(queue, vOp{Op: "pollB"})
			r.exec(vOp{Op: "pollA"}, src)
			quiet = 0
		case p < 96:
			r.exec(vOp{Op: "validate"}, nil)
		case p < 98:
			// the client's verifier goes down (entries it downloads meanwhile stay unvalidated) or comes back, after which
			// the background validation has several pending entries, verifying and not, in arrival order
			down = !down
			r.exec(vOp{Op: "verifier", Up: !down, Class: "verifier-outage"}, nil)
			if !down {
				r.exec(vOp{Op: "validate"}, nil)
			}
		default:
			after := 0
			if rows := r.serverRows(); len(rows) > 0 && rng.Intn(3) != 0 {
				after = rows[rng.Intn(len(rows))].LamportTimestamp - rng.Intn(2)
			}
			r.exec(vOp{Op: "get", After: after}, nil)
		}
	}
	if down {
		r.exec(vOp{Op: "verifier", Up: true, Class: "verifier-outage"}, nil)
		r.exec(vOp{Op: "validate"}, nil)
	}
	// end of history: quiescent polls
	for k := 0; k < 2; k++ {
		quiet++
		r.exec(vOp{Op: "poll", Quiet: quiet}, nil)
	}
	// ...and then a DEFECTIVE / hostile server: next to what it really lists it hands out a forgery for a subject that
	// never registered: typed as a retraction but carrying credentials, a retraction naming somebody else's entry, a
	// retraction / registration whose signature the client's verifier rejects. The client stores it (it stores before it
	// verifies) but must never flag it validated nor return it from Search — not at once, not by the background validate().
	// (last ops of the history: the forged row stays in the replica, which a later convergence check would report)
	if r.w.server.store != nil && rng.Intn(2) == 0 {
		var svc serviceRecord
		r.w.server.store.db.Find(&svc, "id = ?", vSvc)
		live := true
		for _, row := range r.serverRows() {
			if row.PresentationExpiration <= vNow()+5 {
				live = false
			}
		}
		if svc.Seed != "" && live {
			rec := r.validRecipe("did:example:s6")
			rec.VerifyC = true
			class := ""
			switch rng.Intn(7) {
			case 5:
				// round 3: a hostile server hands out what the client's loop would dereference (no jti / not a JWT):
				// updateService must refuse it with an error BEFORE storing anything (guards of fix bb52a33)
				class, rec.NoID = "hostile:malformed-no-id", true
			case 6:
				class, rec.Format = "hostile:malformed-not-jwt", []string{"zero", "ld"}[rng.Intn(2)]
			case 0:
				class = "forged:retraction-with-credentials"
				rec.Retraction, rec.RetractJTI = true, to.Ptr(rec.Subject+"#"+rec.Label) // names itself: only the credentials are wrong
			case 1:
				class = "forged:retraction-with-credentials-unknown-jti"
				rec.Retraction, rec.RetractJTI = true, to.Ptr(rec.Subject+"#nothing")
			case 2:
				class = "forged:retraction-of-another-subjects-entry"
				rec.Retraction, rec.Creds = true, []string{}
				rec.RetractJTI = to.Ptr("did:example:s1#nothing")
				if rows := r.serverRows(); len(rows) > 0 {
					rec.RetractJTI = to.Ptr(rows[rng.Intn(len(rows))].PresentationID)
				}
			case 3:
				class = "forged:retraction-bad-signature"
				rec.Retraction, rec.Creds, rec.VerifyC = true, []string{}, false
				rec.RetractJTI = to.Ptr(rec.Subject + "#" + rec.Label)
			default:
				class = "forged:registration-bad-signature"
				rec.VerifyC = false
			}
			r.exec(vOp{Op: "pollinject", Recipe: &rec, Class: class}, nil)
			r.exec(vOp{Op: "validate", Class: "validate-after-forgery"}, nil)
		}
	}
}

// sleepHistory lets presentations expire on the real clock: short-lived ones (exp = t0+3) are registered in a fast first
// phase, then the harness sleeps past their expiry (t0+5) and goes on (registrations prune, polls, search).
// Every clock comparison in either phase is at least one second away from its boundary.
func (r *vRunner) sleepHistory(hist int) {
	rng := r.rng
	r.initHistory(hist, vDefRecipe{MaxValidity: 7200, DIDMethods: []string{"example"}})
	t0 := r.w.t0
	const short = int64(3)
	lastExp := map[string]int64{}
	quiet := 0
	n1 := 4 + rng.Intn(7)
	for i := 0; i < n1 && vNow() <= t0+1; i++ {
		switch p := rng.Intn(10); {
		case p < 6:
			subj := vSubjects[rng.Intn(len(vSubjects))]
			rec := r.validRecipe(subj)
			class := "valid"
			le, had := lastExp[subj]
			if (!had || le == short) && rng.Intn(3) != 0 {
				rec.Exp, class = i64(short), "valid-short-lived"
			} else if had && *rec.Exp < le {
				rec.Exp = i64(le + 1)
			}
			lastExp[subj] = *rec.Exp
			r.exec(vOp{Op: "register", Recipe: &rec, Class: class}, nil)
			quiet = 0
		case p < 9:
			quiet++
			r.exec(vOp{Op: "poll", Quiet: quiet}, nil)
		default:
			r.exec(vOp{Op: "validate"}, nil)
		}
	}
	r.exec(vOp{Op: "sleep", Until: 5, Class: "expire"}, nil)
	n2 := 5 + rng.Intn(8)
	for i := 0; i < n2; i++ {
		switch p := rng.Intn(10); {
		case p < 5:
			o := r.genServerOp(lastExp)
			if o.Recipe.Exp != nil {
				if rel := vNow() - t0; *o.Recipe.Exp > rel-60 && *o.Recipe.Exp < rel+60 {
					o.Recipe.Exp = i64(3600 + int64(rng.Intn(600))) // keep away from the clock
				}
			}
			if (o.Class == "valid" || strings.HasPrefix(o.Class, "retract:owner")) && o.Recipe.Exp != nil && *o.Recipe.Exp > lastExp[o.Recipe.Subject] {
				lastExp[o.Recipe.Subject] = *o.Recipe.Exp
			}
			r.exec(o, nil)
			quiet = 0
		case p < 9:
			quiet++
			r.exec(vOp{Op: "poll", Quiet: quiet}, nil)
		default:
			r.exec(vOp{Op: "validate"}, nil)
		}
	}
	for k := 0; k < 2; k++ {
		quiet++
		r.exec(vOp{Op: "poll", Quiet: quiet}, nil)
	}
}

// replayFile re-runs the ops of a file (recipes are authoritative; times are re-based on the current clock)
func (r *vRunner) replayFile(path string) {
	f, err := os.Open(path)
	if err != nil {
		r.t.Fatal(err)
	}
	defer f.Close()
	var ops []vOp
	sc := bufio.NewScanner(f)
	sc.Buffer(make([]byte, 1<<20), 1<<26)
	for sc.Scan() {
		line := strings.TrimSpace(sc.Text())
		if line == "" {
			continue
		}
		var o vOp
		if err := json.Unmarshal([]byte(line), &o); err != nil {
			r.t.Fatalf("replay %s: %v", path, err)
		}
		ops = append(ops, o)
	}
	i := 0
	src := func() (vOp, bool) {
		if i >= len(ops) {
			return vOp{}, false
		}
		o := ops[i]
		i++
		return o, true
	}
	for {
		o, ok := src()
		if !ok {
			break
		}
		switch o.Op {
		case "init":
			dr := vDefRecipe{MaxValidity: 7200, DIDMethods: []string{"example"}}
			if o.DefR != nil {
				dr = *o.DefR
			}
			r.initHistory(o.Hist, dr)
		case "pollB":
			r.t.Fatalf("replay %s: pollB without pollA", path)
		default:
			if r.w == nil {
				r.initHistory(0, vDefRecipe{MaxValidity: 7200, DIDMethods: []string{"example"}})
			}
			o.VP, o.Def = nil, nil
			r.exec(o, src)
		}
	}
}

func TestVerifC16(t *testing.T) {
	outDir := os.Getenv("VERIF_OUT")
	if outDir == "" {
		t.Skip("VERIF_OUT not set")
	}
	seed, _ := strconv.ParseInt(os.Getenv("VERIF_SEED"), 10, 64)
	nHist, _ := strconv.Atoi(os.Getenv("VERIF_HISTORIES"))
	if nHist == 0 {
		nHist = 10
	}
	nOps, _ := strconv.Atoi(os.Getenv("VERIF_OPS"))
	if nOps == 0 {
		nOps = 40
	}
	var err error
	vKey, err = ecdsa.GenerateKey(elliptic.P256(), crand.Reader)
	if err != nil {
		t.Fatal(err)
	}
	opsF, err := os.Create(filepath.Join(outDir, "ops.jsonl"))
	if err != nil {
		t.Fatal(err)
	}
	defer opsF.Close()
	outF, err := os.Create(filepath.Join(outDir, "impl.out"))
	if err != nil {
		t.Fatal(err)
	}
	defer outF.Close()
	sideF, err := os.Create(filepath.Join(outDir, "side.jsonl"))
	if err != nil {
		t.Fatal(err)
	}
	defer sideF.Close()
	r := &vRunner{t: t, ops: bufio.NewWriter(opsF), out: bufio.NewWriter(outF), side: bufio.NewWriter(sideF), dir: outDir,
		rng: rand.New(rand.NewSource(seed*7919 + 16))}
	defer r.ops.Flush()
	defer r.out.Flush()
	defer r.side.Flush()
	r.engS = storage.NewTestStorageEngine(t)
	if err := r.engS.Start(); err != nil {
		t.Fatal(err)
	}
	r.engC = storage.NewTestStorageEngine(t)
	if err := r.engC.Start(); err != nil {
		t.Fatal(err)
	}
	// the gate between the two reads of sqlStore.get: after the FIRST SELECT (service record or rows, whichever the source
	// reads first) that get() issues on the server DB while a gated poll is running
	err = r.engS.GetSQLDatabase().Callback().Query().After("gorm:after_query").Register("verif:gate", func(tx *gorm.DB) {
		if r.w != nil && r.w.gate != nil && tx.Statement != nil &&
			(tx.Statement.Table == "discovery_service" || tx.Statement.Table == "discovery_presentation") {
			g := r.w.gate
			r.w.gate = nil
			g()
		}
	})
	if err != nil {
		t.Fatal(err)
	}
	_ = core.TestServerConfig
	// the order in which updateService stores presentations (Go map iteration order) is observed on the client DB and told
	// to the model: presentations it skips are no-ops wherever they come, so the order of the stored ones decides the outcome
	err = r.engC.GetSQLDatabase().Callback().Create().After("gorm:create").Register("verif:order", func(tx *gorm.DB) {
		if r.w == nil || tx.Statement == nil || tx.Statement.Table != "discovery_presentation" {
			return
		}
		if rec, ok := tx.Statement.Dest.(*presentationRecord); ok {
			if rec.ServiceID == vSvc {
				r.w.addOrder = append(r.w.addOrder, rec.CredentialSubjectID+"|"+rec.PresentationID)
			} else {
				r.w.otherAdds++
			}
		}
	})
	if err != nil {
		t.Fatal(err)
	}

	if rp := os.Getenv("VERIF_REPLAY"); rp != "" {
		r.replayFile(rp)
		return
	}
	if cd := os.Getenv("VERIF_CORPUS"); cd != "" {
		files, _ := filepath.Glob(filepath.Join(cd, "*.jsonl"))
		sort.Strings(files)
		for _, f := range files {
			r.replayFile(f)
		}
	}
	nSleep, _ := strconv.Atoi(os.Getenv("VERIF_SLEEP_HISTORIES"))
	for h := 1; h <= nHist; h++ {
		r.history(h, nOps)
		if h <= nSleep {
			r.sleepHistory(100000 + h)
		}
	}
	t.Logf("C16: %d ops", r.nOps)
}
