//go:build verif

// C16 wire leg (in-package overlay of discovery/api/server): the REAL API wrapper (api.go) behind an echo router and the
// REAL HTTP client (api/server/client/http.go) in front of it, around a scripted discovery.Server that keeps lists.
// What the replica theorems assume of the transport is checked on every call: the server sees exactly the service and
// timestamp the client asked for, the client receives exactly the (entries, seed, timestamp) the server returned, a
// registration arrives as the presentation that was posted, and errors keep their class (400 invalid / 404 unknown / 500).
package server

import (
	"bufio"
	"context"
	"crypto/ecdsa"
	"crypto/elliptic"
	crand "crypto/rand"
	"encoding/json"
	"errors"
	"fmt"
	"math/rand"
	"net/http"
	"net/http/httptest"
	"os"
	"path/filepath"
	"sort"
	"strconv"
	"strings"
	"testing"
	"time"

	"github.com/labstack/echo/v4"
	"github.com/lestrrat-go/jwx/v2/jwa"
	"github.com/lestrrat-go/jwx/v2/jwk"
	"github.com/lestrrat-go/jwx/v2/jws"
	"github.com/lestrrat-go/jwx/v2/jwt"
	"github.com/nuts-foundation/go-did/vc"
	"github.com/nuts-foundation/nuts-node/core"
	"github.com/nuts-foundation/nuts-node/discovery"
	"github.com/nuts-foundation/nuts-node/discovery/api/server/client"
)

type vwEntry struct {
	ts  int
	raw string
}

type vwList struct {
	seed    string
	lastTs  int
	entries []vwEntry
}

// vwServer is the scripted discovery.Server: it records what it was asked and what it answered
type vwServer struct {
	lists    map[string]*vwList
	sawSvc   string
	sawAfter int
	sawRaw   string
	sent     string
	failWith error
}

func (s *vwServer) Register(_ context.Context, serviceID string, presentation vc.VerifiablePresentation) error {
	s.sawSvc, s.sawRaw = serviceID, presentation.Raw()
	if s.failWith != nil {
		return s.failWith
	}
	l, ok := s.lists[serviceID]
	if !ok {
		return discovery.ErrServiceNotFound
	}
	l.lastTs++
	l.entries = append(l.entries, vwEntry{l.lastTs, presentation.Raw()})
	return nil
}

func vwDigest(entries map[string]vc.VerifiablePresentation, seed string, ts int) string {
	var ks []string
	for k, p := range entries {
		id := ""
		if p.ID != nil {
			id = p.ID.String()
		}
		ks = append(ks, k+"="+id+"/"+strconv.Itoa(len(p.Raw())))
	}
	sort.Strings(ks)
	return fmt.Sprintf("seed=%s ts=%d [%s]", seed, ts, strings.Join(ks, " "))
}

func (s *vwServer) Get(_ context.Context, serviceID string, startAfter int) (map[string]vc.VerifiablePresentation, string, int, error) {
	s.sawSvc, s.sawAfter = serviceID, startAfter
	if s.failWith != nil {
		return nil, "", 0, s.failWith
	}
	l, ok := s.lists[serviceID]
	if !ok {
		return nil, "", 0, discovery.ErrServiceNotFound
	}
	res := map[string]vc.VerifiablePresentation{}
	for _, e := range l.entries {
		if e.ts > startAfter {
			p, err := vc.ParseVerifiablePresentation(e.raw)
			if err != nil {
				return nil, "", 0, err
			}
			res[strconv.Itoa(e.ts)] = *p
		}
	}
	s.sent = vwDigest(res, l.seed, l.lastTs)
	return res, l.seed, l.lastTs, nil
}

func vwPresentation(key *ecdsa.PrivateKey, subject, id string) vc.VerifiablePresentation {
	k, _ := jwk.FromRaw(key)
	_ = k.Set(jwk.AlgorithmKey, jwa.ES256)
	_ = k.Set(jwk.KeyIDKey, subject+"#0")
	token := jwt.New()
	_ = token.Set(jwt.IssuerKey, subject)
	_ = token.Set(jwt.JwtIDKey, id)
	_ = token.Set(jwt.ExpirationKey, time.Now().Add(time.Hour))
	_ = token.Set("vp", map[string]interface{}{"type": []string{"VerifiablePresentation"}})
	hdr := jws.NewHeaders()
	_ = hdr.Set(jws.TypeKey, "JWT")
	b, err := jwt.Sign(token, jwt.WithKey(k.Algorithm(), k, jws.WithProtectedHeaders(hdr)))
	if err != nil {
		panic(err)
	}
	p, err := vc.ParseVerifiablePresentation(string(b))
	if err != nil {
		panic(err)
	}
	return *p
}

func TestVerifC16Wire(t *testing.T) {
	outDir := os.Getenv("VERIF_OUT")
	if outDir == "" {
		t.Skip("VERIF_OUT not set")
	}
	seed, _ := strconv.ParseInt(os.Getenv("VERIF_SEED"), 10, 64)
	n, _ := strconv.Atoi(os.Getenv("VERIF_WIRE_OPS"))
	if n == 0 {
		n = 300
	}
	rng := rand.New(rand.NewSource(seed*104729 + 16))
	key, err := ecdsa.GenerateKey(elliptic.P256(), crand.Reader)
	if err != nil {
		t.Fatal(err)
	}
	f, err := os.Create(filepath.Join(outDir, "wire.out"))
	if err != nil {
		t.Fatal(err)
	}
	defer f.Close()
	out := bufio.NewWriter(f)
	defer out.Flush()

	srv := &vwServer{lists: map[string]*vwList{"alpha": {seed: "seed-alpha"}, "beta": {seed: "seed-beta"}, "empty": {}}}
	e := echo.New()
	e.HTTPErrorHandler = core.CreateHTTPErrorHandler()
	(&Wrapper{Server: srv}).Routes(e)
	ts := httptest.NewServer(e)
	defer ts.Close()
	httpClient := client.New(5 * time.Second)
	ctx := context.Background()
	services := []string{"alpha", "beta", "empty", "unknown", "big"}
	// wave 9: a list far longer than any plausible page size (a fresh client / a client starting over after a seed change asks
	// for everything after 0): the wrapper must hand on EVERY entry up to the timestamp it reports
	big := &vwList{seed: "seed-big"}
	bigRaw := vwPresentation(key, "did:example:w9", "wirebig").Raw()
	for k := 0; k < 300+rng.Intn(120); k++ {
		big.lastTs++
		if rng.Intn(25) != 0 { // timestamps of replaced entries are gone
			big.entries = append(big.entries, vwEntry{big.lastTs, bigRaw})
		}
	}
	srv.lists["big"] = big
	emit := func(m map[string]interface{}) {
		b, _ := json.Marshal(m)
		out.Write(b)
		out.WriteString("\n")
	}
	nextID := 0
	for i := 0; i < n; i++ {
		svc := services[rng.Intn(len(services))]
		url := ts.URL + "/discovery/" + svc
		srv.sawSvc, srv.sawAfter, srv.sawRaw, srv.sent, srv.failWith = "", -1, "", "", nil
		switch rng.Intn(16) {
		case 0:
			srv.failWith = errors.Join(discovery.ErrInvalidPresentation, errors.New("scripted"))
		case 1:
			srv.failWith = errors.New("scripted internal error")
		case 2:
			srv.failWith = discovery.ErrDIDMethodsNotSupported // on its own (not joined with ErrInvalidPresentation)
		case 3:
			srv.failWith = errors.Join(discovery.ErrInvalidPresentation, discovery.ErrDIDMethodsNotSupported)
		case 4:
			srv.failWith = fmt.Errorf("scripted wrap: %w", discovery.ErrServiceNotFound)
		case 5:
			srv.failWith = errors.Join(discovery.ErrServiceNotFound, discovery.ErrInvalidPresentation) // the FIRST case of the switch decides
		}
		fail := ""
		// which sentinels errors.Is finds in what the server returns (scripted failure, or ErrServiceNotFound for an unknown list)
		kindOf := func(err error) string {
			k := []byte("---")
			if errors.Is(err, discovery.ErrInvalidPresentation) {
				k[0] = 'i'
			}
			if errors.Is(err, discovery.ErrDIDMethodsNotSupported) {
				k[1] = 'd'
			}
			if errors.Is(err, discovery.ErrServiceNotFound) {
				k[2] = 'n'
			}
			return string(k)
		}
		kind := ""
		if srv.failWith != nil {
			fail = srv.failWith.Error()
			kind = kindOf(srv.failWith)
		} else if srv.lists[svc] == nil {
			kind = kindOf(discovery.ErrServiceNotFound)
		}
		if rng.Intn(8) == 0 {
			// GET written by hand: without the timestamp parameter, or with any integer (also negative)
			q, asked := "", interface{}(nil)
			if rng.Intn(2) == 0 {
				v := rng.Intn(7) - 3
				q, asked = "?timestamp="+strconv.Itoa(v), v
			}
			resp, err := http.Get(url + q)
			status := 0
			if err == nil {
				status = resp.StatusCode
				resp.Body.Close()
			}
			emit(map[string]interface{}{"op": "rawget", "service": svc, "asked": asked, "saw_service": srv.sawSvc, "saw_after": srv.sawAfter,
				"scripted_failure": fail, "kind": kind, "known": srv.lists[svc] != nil, "status": status, "err": ""})
			continue
		}
		if rng.Intn(2) == 0 {
			nextID++
			vp := vwPresentation(key, "did:example:w"+strconv.Itoa(rng.Intn(4)), "wire"+strconv.Itoa(nextID))
			err := httpClient.Register(ctx, url, vp)
			es := ""
			if err != nil {
				es = err.Error()
			}
			emit(map[string]interface{}{"op": "register", "service": svc, "posted": len(vp.Raw()), "arrived": len(srv.sawRaw), "same": vp.Raw() == srv.sawRaw,
				"saw_service": srv.sawSvc, "scripted_failure": fail, "kind": kind, "known": srv.lists[svc] != nil, "err": es})
		} else {
			asked := 0
			if l := srv.lists[svc]; l != nil && l.lastTs > 0 && rng.Intn(4) != 0 {
				asked = rng.Intn(l.lastTs + 2)
			}
			if svc == "big" && rng.Intn(3) != 0 {
				asked = rng.Intn(40) // a fresh client, or one starting over: more than 250 entries are due
			}
			entries, sd, tsGot, err := httpClient.Get(ctx, url, asked)
			es := ""
			got := ""
			if err != nil {
				es = err.Error()
			} else {
				got = vwDigest(entries, sd, tsGot)
			}
			// no gap: every entry of the scripted list with asked < timestamp <= the timestamp the client was told is in the answer
			missing, listed := 0, 0
			if l := srv.lists[svc]; l != nil && err == nil {
				for _, e := range l.entries {
					if e.ts > asked && e.ts <= tsGot {
						listed++
						if _, ok := entries[strconv.Itoa(e.ts)]; !ok {
							missing++
						}
					}
				}
			}
			emit(map[string]interface{}{"op": "get", "service": svc, "asked": asked, "saw_service": srv.sawSvc, "saw_after": srv.sawAfter,
				"missing": missing, "due": listed, "returned": len(entries),
				"sent": srv.sent, "got": got, "scripted_failure": fail, "kind": kind, "known": srv.lists[svc] != nil, "err": es})
		}
	}
}
