//go:build verif

// C19 exploration harness (crash/timeout oracle + store digest; the discovery MODEL belongs to C16) for the two places where the
// discovery module handles presentations from untrusted parties:
//   - server: Module.Register (public API) — service definitions with optional members absent × registration AND retraction
//     presentations whose signer / id / claims are missing, null or of another type (header and claims built by hand, unsigned JWTs:
//     everything explored here runs before or around the signature check, which is a permissive mock)
//   - client: clientUpdater.updateService on the presentations a REMOTE Discovery Server returns
package discovery

import (
	"context"
	"encoding/base64"
	"encoding/json"
	"fmt"
	mrand "math/rand"
	"os"
	"strings"
	"testing"
	"time"

	"github.com/nuts-foundation/go-did/vc"
	"github.com/nuts-foundation/nuts-node/storage"
	"go.uber.org/mock/gomock"
)

type c19Remote struct {
	presentations map[string]vc.VerifiablePresentation
	seed          string
	timestamp     int
}

func (f *c19Remote) Register(context.Context, string, vc.VerifiablePresentation) error { return nil }
func (f *c19Remote) Get(context.Context, string, int) (map[string]vc.VerifiablePresentation, string, int, error) {
	return f.presentations, f.seed, f.timestamp, nil
}

func TestVerifC19(t *testing.T) {
	dir := os.Getenv("VERIF_OUT")
	if dir == "" {
		t.Skip("VERIF_OUT not set")
	}
	o := c19Open(dir)
	defer o.close(dir)
	r := mrand.New(mrand.NewSource(c19Seed()*533000389 + 29))
	m := jmut{r}

	storageEngine := storage.NewTestStorageEngine(t)
	if err := storageEngine.Start(); err != nil {
		t.Fatal(err)
	}
	// service definitions: the test ones (testServiceID restricts did_methods, "other" does not) plus variants with optional members absent / zero
	defs := testDefinitions()
	variant := func(id string, f func(d *ServiceDefinition)) {
		d := defs[testServiceID]
		d.ID = id
		f(&d)
		defs[id] = d
	}
	variant("no-did-methods", func(d *ServiceDefinition) { d.DIDMethods = nil })
	variant("empty-did-methods", func(d *ServiceDefinition) { d.DIDMethods = []string{} })
	variant("no-max-validity", func(d *ServiceDefinition) { d.PresentationMaxValidity = 0 })
	variant("no-format", func(d *ServiceDefinition) { d.PresentationDefinition.Format = nil })
	variant("no-descriptors", func(d *ServiceDefinition) { d.PresentationDefinition.InputDescriptors = nil })
	mod, mocks := setupModule(t, storageEngine, func(module *Module) {
		module.config.Client.RefreshInterval = 0
		module.allDefinitions = defs
		module.serverDefinitions = defs
	})
	mocks.verifier.EXPECT().VerifyVP(gomock.Any(), gomock.Any(), gomock.Any(), gomock.Any()).Return(nil, nil).AnyTimes()
	var serviceIDs []string
	for id := range defs {
		serviceIDs = append(serviceIDs, id)
	}

	b64 := base64.RawURLEncoding
	mkJWT := func(header, claims string) string {
		return b64.EncodeToString([]byte(header)) + "." + b64.EncodeToString([]byte(claims)) + "." + b64.EncodeToString(make([]byte, 64))
	}
	count := func(serviceID string) int {
		ps, _, _, _ := mod.Get(context.Background(), serviceID, 0)
		return len(ps)
	}
	register := func(in string) string {
		var w struct {
			Service string
			VP      string
		}
		if json.Unmarshal([]byte(in), &w) != nil {
			return "err:harness"
		}
		p, err := vc.ParseVerifiablePresentation(w.VP)
		if err != nil {
			return "err:parse"
		}
		before := count(w.Service)
		if err := mod.Register(context.Background(), w.Service, *p); err != nil {
			if count(w.Service) != before {
				return "STATE-CHANGED-ON-ERROR"
			}
			if os.Getenv("C19_DEBUG") != "" {
				fmt.Println("DEBUG", w.Service, err)
			}
			return "err"
		}
		return "ok"
	}
	// client side: what updateService does with the presentations of a remote server
	update := func(in string) string {
		var w struct {
			Service string
			VPs     []string
		}
		if json.Unmarshal([]byte(in), &w) != nil {
			return "err:harness"
		}
		remote := &c19Remote{presentations: map[string]vc.VerifiablePresentation{}, seed: "seed", timestamp: len(w.VPs)}
		for i, raw := range w.VPs {
			p, err := vc.ParseVerifiablePresentation(raw)
			if err != nil {
				return "err:parse"
			}
			remote.presentations[fmt.Sprint(i+1)] = *p
		}
		updater := newClientUpdater(defs, mod.store, func(ServiceDefinition, vc.VerifiablePresentation) error { return nil }, remote)
		if err := updater.updateService(context.Background(), defs[w.Service]); err != nil {
			return "err"
		}
		return "ok"
	}
	eps := map[string]func(string) string{"discovery.Register": register, "discovery.client.updateService": update}
	replay, isReplay := c19ReadOps()
	for _, op := range replay {
		name, _ := op["op"].(string)
		if fn, ok := eps[strings.TrimPrefix(name, "x.")]; ok && strings.HasPrefix(name, "x.") {
			in, _ := op["input"].(string)
			o.explore(strings.TrimPrefix(name, "x."), in, func() string { return fn(in) })
		}
	}
	if isReplay {
		return
	}
	run := func(ep string, m map[string]any, kind string) {
		b, _ := json.Marshal(m)
		in := string(b)
		o.dist[ep+":"+kind]++
		fn := eps[ep]
		o.explore(ep, in, func() string { return fn(in) })
	}

	now := time.Now().Unix()
	alice := aliceDID.String()
	headers := []string{`{"alg":"ES256","typ":"JWT","kid":"` + alice + `#0"}`, `{"alg":"ES256","typ":"JWT"}`, `{"alg":"ES256","typ":"JWT","kid":""}`, `{"alg":"ES256","typ":"JWT","kid":"not a did"}`,
		`{"alg":"ES256","typ":"JWT","kid":5}`, `{"alg":"ES256","typ":"JWT","kid":null}`, `{"alg":"ES256","kid":"#0"}`, `{"alg":"ES256","typ":"JWT","kid":"did:example:alice"}`}
	vpTypes := []string{`["VerifiablePresentation"]`, `["VerifiablePresentation","RetractedVerifiablePresentation"]`, `"RetractedVerifiablePresentation"`, `[]`, `null`}
	mkClaimsAud := func(aud, jti, retract, vpType, exp string, cred string) string {
		c := fmt.Sprintf(`{"iss":"%s","sub":"%s","nbf":%d,"aud":"%s",`, alice, alice, now-10, aud)
		if exp != "-" {
			c += `"exp":` + exp + ","
		}
		if jti != "-" {
			c += `"jti":` + jti + ","
		}
		if retract != "-" {
			c += `"retract_jti":` + retract + ","
		}
		vp := `{"@context":["https://www.w3.org/2018/credentials/v1"],"type":` + vpType
		if cred != "" {
			vp += `,"verifiableCredential":[` + cred + `]`
		}
		return c + `"vp":` + vp + `}}`
	}
	mkClaims := func(jti, retract, vpType, exp string, cred string) string {
		return mkClaimsAud("other", jti, retract, vpType, exp, cred)
	}
	cred := `{"@context":["https://www.w3.org/2018/credentials/v1"],"id":"` + alice + `#c1","type":["VerifiableCredential","TestCredential"],"issuer":"did:example:authority","issuanceDate":"2024-01-01T00:00:00Z","credentialSubject":{"id":"` + alice + `","person":{"givenName":"Alice"}}}`
	jtis := []string{`"` + alice + `#1"`, "-", "null", "5", `""`}
	retracts := []string{"-", `"` + alice + `#1"`, "null", "5", `""`, `"x"`}
	exps := []string{fmt.Sprint(now + 3600), "-", "null", fmt.Sprint(now - 10), fmt.Sprint(now + 100000000)}
	var all []string
	for hi, h := range headers {
		for ti, vt := range vpTypes {
			for ji, jti := range jtis {
				for ri, rt := range retracts {
					for ei, exp := range exps {
						// every pair of dimensions fully, the rest rotating (quick); everything in thorough
						if !c19Thorough() && (hi+ti+ji+ri+ei)%5 != 0 && !(hi <= 1 && ti <= 1 && ei == 0) {
							continue
						}
						c := ""
						if ti == 0 {
							c = cred
						}
						sid := serviceIDs[(hi+ti+ji+ri+ei)%len(serviceIDs)]
						vp := mkJWT(h, mkClaimsAud(sid, jti, rt, vt, exp, c))
						all = append(all, vp)
						run("discovery.Register", map[string]any{"Service": sid, "VP": vp}, "jwt-matrix")
						if hi <= 1 && ei == 0 {
							for _, s2 := range []string{"other", "no-did-methods", testServiceID} {
								run("discovery.Register", map[string]any{"Service": s2, "VP": mkJWT(h, mkClaimsAud(s2, jti, rt, vt, exp, c))}, "jwt-matrix×definition")
							}
						}
					}
				}
			}
		}
	}
	// JSON-LD presentations (registration / retraction) with mutated proof and members
	ld := `{"@context":["https://www.w3.org/2018/credentials/v1","https://nuts.nl/credentials/v1"],"id":"` + alice + `#2","type":["VerifiablePresentation"],"holder":"` + alice + `","verifiableCredential":[` + cred + `],"proof":{"type":"JsonWebSignature2020","created":"` + time.Now().UTC().Format(time.RFC3339) + `","expires":"` + time.Now().Add(time.Hour).UTC().Format(time.RFC3339) + `","verificationMethod":"` + alice + `#0","proofPurpose":"assertionMethod","jws":"e30..c2ln"}}`
	jsystematic([]byte(ld), func(b []byte, kind string) {
		run("discovery.Register", map[string]any{"Service": serviceIDs[r.Intn(len(serviceIDs))], "VP": string(b)}, "jsonld:"+kind)
	})
	jsystematic([]byte(mkClaims(jtis[0], "-", vpTypes[0], exps[0], cred)), func(b []byte, kind string) {
		run("discovery.Register", map[string]any{"Service": "other", "VP": mkJWT(headers[0], string(b))}, "jwt-claims:"+kind)
	})
	n := c19Env("VERIF_N", 400)
	for i := 0; i < n/2; i++ {
		b, kind := m.mutate([]byte(mkClaims(jtis[0], retracts[r.Intn(2)], vpTypes[r.Intn(2)], exps[0], cred)))
		run("discovery.Register", map[string]any{"Service": serviceIDs[r.Intn(len(serviceIDs))], "VP": mkJWT(headers[r.Intn(2)], string(b))}, "rand:"+kind)
	}
	// client: lists a remote server returns (1-3 presentations drawn from everything above that parses)
	for i := 0; i+2 < len(all); i += 3 {
		run("discovery.client.updateService", map[string]any{"Service": serviceIDs[i%len(serviceIDs)], "VPs": all[i : i+1+i%3]}, "remote-list")
	}
	run("discovery.client.updateService", map[string]any{"Service": "other", "VPs": []string{}}, "remote-list")
	run("discovery.client.updateService", map[string]any{"Service": "other", "VPs": []string{ld}}, "remote-list")
}
