//go:build verif

package policy

// C12 producer probe: can a presentation definition with JSON null entries come out of the policy backend (hand-edited
// policy files), and does it reach PresentationDefinition.Match? Writes producers.policy.out (one line per variant).

import (
	"context"
	"fmt"
	"os"
	"path/filepath"
	"sort"
	"testing"
)

var zNullVariants = map[string]string{
	"descriptor-null":  `{"id":"x","input_descriptors":[null]}`,
	"requirement-null": `{"id":"x","input_descriptors":[{"id":"d","group":["A"],"constraints":{}}],"submission_requirements":[null]}`,
	"nested-null":      `{"id":"x","input_descriptors":[{"id":"d","group":["A"],"constraints":{}}],"submission_requirements":[{"rule":"all","from_nested":[null]}]}`,
}

func TestVerifC12Policy(t *testing.T) {
	outDir := os.Getenv("VERIF_OUT")
	if outDir == "" {
		t.Skip("VERIF_OUT not set")
	}
	lines := []string{}
	for name, def := range zNullVariants {
		for _, key := range []string{"organization", "user", "service"} {
			file := filepath.Join(t.TempDir(), "policy.json")
			os.WriteFile(file, []byte(`{"scope1":{"`+key+`":`+def+`}}`), 0o600)
			pdp := New()
			verdict := "rejected-at-load"
			if err := pdp.loadFromFile(file); err == nil {
				verdict = "loaded"
				mapping, err := pdp.PresentationDefinitions(context.Background(), "scope1")
				if err != nil {
					verdict = "loaded-but-not-served"
				} else {
					for _, pd := range mapping {
						verdict = func() (v string) {
							defer func() {
								if r := recover(); r != nil {
									v = "loaded:Match-panics"
								}
							}()
							if _, _, err := pd.Match(nil); err != nil {
								return "loaded:Match-error"
							}
							return "loaded:Match-ok"
						}()
					}
				}
			}
			lines = append(lines, fmt.Sprintf("policy-file key=%s %s -> %s", key, name, verdict))
		}
	}
	sort.Strings(lines)
	f, _ := os.Create(filepath.Join(outDir, "producers.policy.out"))
	defer f.Close()
	for _, l := range lines {
		fmt.Fprintln(f, l)
	}
}
