//go:build verif

package cmd

// C03 harness, part 6 (deepening round 3) — the operator command that moves the keys of a key DIRECTORY into another backend
// (crypto/cmd/cmd.go: fs2vault -> fsToOtherStorage -> exportToOtherStorage).
//   op fsexport : the real fsToOtherStorage on a generated directory tree (hostile file names, other separators, sub-directories,
//                 undecodable files) into a recording backend behind the REAL validating wrapper (as fs2VaultCommand builds it),
//                 with names already present and injected backend failures.
//   op fs2vault : the real cobra command `fs2vault <dir>` (config loading, LoadCryptoModule, vault.NewVaultKVStorage, wrapping)
//                 against a recording Vault stub on the loopback interface: which URL paths received key material?
// Output: exp_ops.jsonl / exp_impl.out; the model (NutsModel/C03/Export.lean) computes the same lines.

import (
	"bufio"
	"bytes"
	"context"
	"crypto"
	"crypto/ecdsa"
	"crypto/elliptic"
	crand "crypto/rand"
	"encoding/base64"
	"encoding/hex"
	"encoding/json"
	"errors"
	"fmt"
	"io"
	"io/fs"
	"math/rand"
	"net/http"
	"net/http/httptest"
	"os"
	"path/filepath"
	"sort"
	"strconv"
	"strings"
	"sync"
	"testing"

	"github.com/nuts-foundation/nuts-node/core"
	"github.com/nuts-foundation/nuts-node/crypto/storage/spi"
	"github.com/nuts-foundation/nuts-node/crypto/util"
)

type c03Tgt struct {
	order  []string
	m      map[string]crypto.PrivateKey
	faults map[string]bool
	n      int
}

func (t *c03Tgt) Name() string                            { return "c03-recording" }
func (t *c03Tgt) CheckHealth() map[string]core.Health     { return nil }
func (t *c03Tgt) ListPrivateKeys(context.Context) []spi.KeyNameVersion { return nil }
func (t *c03Tgt) NewPrivateKey(context.Context, string) (crypto.PublicKey, string, error) {
	return nil, "", errors.New("not used")
}
func (t *c03Tgt) GetPrivateKey(context.Context, string, string) (crypto.Signer, error) {
	return nil, spi.ErrNotFound
}
func (t *c03Tgt) PrivateKeyExists(_ context.Context, n string, _ string) (bool, error) {
	_, ok := t.m[n]
	return ok, nil
}
func (t *c03Tgt) DeletePrivateKey(context.Context, string) error { return errors.New("not used") }
func (t *c03Tgt) SavePrivateKey(_ context.Context, name string, key crypto.PrivateKey) error {
	t.n++
	if t.faults[name] {
		return errors.New("boom")
	}
	if _, ok := t.m[name]; ok {
		if t.n%2 == 0 {
			return fmt.Errorf("recording backend: %w", spi.ErrKeyAlreadyExists)
		}
		return spi.ErrKeyAlreadyExists
	}
	t.m[name] = key
	t.order = append(t.order, name)
	return nil
}

const c03ExpSuffix = "_private.pem"

func c03ExpName(r *rand.Rand) string {
	seeds := []string{"..", ".", "...", "%2e%2e", "%2E%2E%2Fx", "%2f", "%25", "%", "%zz", "a b", "did:web:example.com%3A8080:iam:u#0", "k", "#", ":", "a#b", "a?b", "a+b", "a~b", "a@b", "a\\b", "k1", "k2",
		"3f1c2a9e-5b7d-4c1a-9e2f-0a1b2c3d4e5f", "did:nuts:2pgo54Z3ytC5EdjBicuJPe5gHyAsjF6rVio1FadSX74j#GxL7A5XNFr_tHcBW_fKCndGGko8DKa2ivPgJAGR0krA", ".. ", "._.", "..#", "a%0Ab", "a;b", "a,b", "$x", "x=1&y"}
	if r.Intn(3) > 0 {
		return seeds[r.Intn(len(seeds))]
	}
	const alpha = "abcXYZ019_- :#.%~+"
	n := 1 + r.Intn(6)
	var sb strings.Builder
	for i := 0; i < n; i++ {
		sb.WriteByte(alpha[r.Intn(len(alpha))])
	}
	return sb.String()
}

// a generated tree: relative path -> content kind ("0".."5" = key number, "bad" = no PEM block)
func c03ExpTree(r *rand.Rand) map[string]string {
	tree := map[string]string{}
	n := 1 + r.Intn(6)
	kind := func() string {
		if r.Intn(6) == 0 {
			return "bad"
		}
		return strconv.Itoa(r.Intn(6))
	}
	if r.Intn(3) == 0 {
		// a well-formed key directory (the command's normal use): valid names only, every file a decodable key
		good := []string{"k1", "k2", "did:web:example.com%3A8080:iam:u#0", "3f1c2a9e-5b7d-4c1a-9e2f-0a1b2c3d4e5f", "a b", "a#b", "%2e%2e", "%2F", "._.", "...", "x.y_z-1", ":"}
		for i := 0; i < n; i++ {
			tree[good[r.Intn(len(good))]+c03ExpSuffix] = strconv.Itoa(r.Intn(6))
		}
		if r.Intn(4) == 0 {
			tree["readme.txt"] = "bad"
		}
		return tree
	}
	for i := 0; i < n; i++ {
		name := c03ExpName(r)
		switch r.Intn(12) {
		case 0:
			tree["sub/"+name+c03ExpSuffix] = kind() // listed under its base name, read from the top level
		case 1:
			tree[name+[]string{"-", "x", "."}[r.Intn(3)]+"private.pem"] = kind() // other separator byte
		case 2:
			tree[[]string{"readme.txt", "private.pem", "_private.pem", "k_private.pem.bak", "K_PRIVATE.PEM"}[r.Intn(5)]] = "bad"
		default:
			tree[name+c03ExpSuffix] = kind()
		}
	}
	return tree
}

func c03ExpMkTree(dir string, files []string, kinds map[string]string, pems []string) error {
	for _, rel := range files {
		p := filepath.Join(dir, filepath.FromSlash(rel))
		if err := os.MkdirAll(filepath.Dir(p), 0700); err != nil {
			return err
		}
		data := []byte("this is not a PEM file\n")
		if k, ok := kinds[rel]; ok && k != "bad" {
			i, _ := strconv.Atoi(k)
			data = []byte(pems[i%len(pems)])
		}
		if err := os.WriteFile(p, data, 0600); err != nil {
			return err
		}
	}
	return nil
}

func c03ExpWalk(dir string) []string {
	var l []string
	_ = filepath.Walk(dir, func(p string, info fs.FileInfo, err error) error {
		if err == nil && !info.IsDir() {
			rel, _ := filepath.Rel(dir, p)
			l = append(l, filepath.ToSlash(rel))
		}
		return nil
	})
	return l
}

func c03Hexes(l []string) []string {
	o := make([]string, len(l))
	for i, s := range l {
		o[i] = hex.EncodeToString([]byte(s))
	}
	return o
}

func c03Strs(v interface{}) []string {
	var o []string
	if a, ok := v.([]interface{}); ok {
		for _, x := range a {
			s, _ := x.(string)
			o = append(o, s)
		}
	}
	if a, ok := v.([]string); ok {
		return a
	}
	return o
}

func c03Unhexes(l []string) []string {
	o := make([]string, len(l))
	for i, s := range l {
		b, _ := hex.DecodeString(s)
		o[i] = string(b)
	}
	return o
}

type c03VaultStub struct {
	mu   sync.Mutex
	puts []string
}

func (s *c03VaultStub) ServeHTTP(w http.ResponseWriter, req *http.Request) {
	data, _ := io.ReadAll(req.Body)
	if bytes.Contains(data, []byte("PRIVATE KEY")) {
		s.mu.Lock()
		s.puts = append(s.puts, req.Method+":"+hex.EncodeToString([]byte(req.URL.Path)))
		s.mu.Unlock()
	}
	w.WriteHeader(http.StatusOK)
	_, _ = w.Write([]byte(`{"request_id":"d728876e-ea1e-8a58-f297-dcd4cd0a41bb","lease_id":"","renewable":false,"lease_duration":0,"data":{"keys":["x"]},"wrap_info":null,"warnings":null,"auth":null}`))
}

func TestVerifC03(t *testing.T) {
	out := os.Getenv("VERIF_OUT")
	if out == "" {
		t.Skip("VERIF_OUT not set")
	}
	seed, _ := strconv.ParseInt(os.Getenv("VERIF_SEED"), 10, 64)
	thorough := os.Getenv("VERIF_TIER") == "thorough"
	r := rand.New(rand.NewSource(seed*7919 + 29))
	scratch, err := os.MkdirTemp(out, "exp")
	if err != nil {
		t.Fatal(err)
	}
	defer os.RemoveAll(scratch)
	var keys []*ecdsa.PrivateKey
	var pems []string
	for i := 0; i < 6; i++ {
		k, _ := ecdsa.GenerateKey(elliptic.P256(), crand.Reader)
		p, _ := util.PrivateKeyToPem(k)
		keys = append(keys, k)
		pems = append(pems, p)
	}
	var preKeys []*ecdsa.PrivateKey
	for i := 0; i < 4; i++ {
		k, _ := ecdsa.GenerateKey(elliptic.P256(), crand.Reader)
		preKeys = append(preKeys, k)
	}
	keyID := func(k crypto.PrivateKey) string {
		ek, ok := k.(*ecdsa.PrivateKey)
		if !ok {
			return fmt.Sprintf("K?%T", k)
		}
		for i, c := range keys {
			if c.D.Cmp(ek.D) == 0 {
				return "K" + strconv.Itoa(i)
			}
		}
		for i, c := range preKeys {
			if c.D.Cmp(ek.D) == 0 {
				return "K" + strconv.Itoa(100+i)
			}
		}
		return "K?"
	}
	// canaries: the secret scalar of every key in decimal / hex / base64 forms and the PEM body: must not show up in what the
	// command prints or returns as error
	var canaries []string
	for i, k := range append(append([]*ecdsa.PrivateKey{}, keys...), preKeys...) {
		d := k.D.Bytes()
		canaries = append(canaries, k.D.String(), hex.EncodeToString(d), strings.ToUpper(hex.EncodeToString(d)), base64.RawURLEncoding.EncodeToString(d), base64.StdEncoding.EncodeToString(d))
		if i < len(pems) {
			ls := strings.Split(pems[i], "\n")
			if len(ls) > 2 {
				canaries = append(canaries, ls[1])
			}
		}
	}
	leak := func(texts ...string) string {
		for _, t := range texts {
			for _, c := range canaries {
				if len(c) > 16 && strings.Contains(t, c) {
					return " KEY-MATERIAL-IN-OUTPUT"
				}
			}
		}
		return ""
	}
	stub := &c03VaultStub{}
	srv := httptest.NewServer(stub)
	defer srv.Close()

	fo, _ := os.Create(filepath.Join(out, "exp_ops.jsonl"))
	fi, _ := os.Create(filepath.Join(out, "exp_impl.out"))
	defer fo.Close()
	defer fi.Close()
	wo, wi := bufio.NewWriterSize(fo, 1<<20), bufio.NewWriterSize(fi, 1<<20)
	defer wo.Flush()
	defer wi.Flush()
	nDir := 0
	mkdir := func(op map[string]interface{}) (string, string) {
		nDir++
		dir := filepath.Join(scratch, "d"+strconv.Itoa(nDir))
		files := c03Unhexes(c03Strs(op["files"]))
		kinds := map[string]string{}
		cn, ck := c03Unhexes(c03Strs(op["cnames"])), c03Strs(op["ckinds"])
		for i := range cn {
			if i < len(ck) {
				kinds[cn[i]+c03ExpSuffix] = ck[i]
			}
		}
		if err := os.MkdirAll(dir, 0700); err != nil {
			return dir, "mkdir:" + err.Error()
		}
		if err := c03ExpMkTree(dir, files, kinds, pems); err != nil {
			return dir, "mktree:" + err.Error()
		}
		if got := c03ExpWalk(dir); strings.Join(got, "\x00") != strings.Join(files, "\x00") {
			return dir, "walk-order-differs"
		}
		return dir, ""
	}
	errText := func(err error, dir string) string {
		if err == nil {
			return "-"
		}
		return "\"" + strings.ReplaceAll(err.Error(), dir, "$DIR") + "\""
	}
	emit := func(op map[string]interface{}) {
		b, _ := json.Marshal(op)
		wo.Write(b)
		wo.WriteByte('\n')
		kind, _ := op["op"].(string)
		line := func() (line string) {
			defer func() {
				if rv := recover(); rv != nil {
					line = fmt.Sprintf("%s panic:%v", kind, rv)
				}
			}()
			dir, bad := mkdir(op)
			defer os.RemoveAll(dir)
			if bad != "" {
				return kind + " harness:" + bad
			}
			switch kind {
			case "fsexport":
				tgt := &c03Tgt{m: map[string]crypto.PrivateKey{}, faults: map[string]bool{}}
				for i, n := range c03Unhexes(c03Strs(op["pre"])) {
					tgt.m[n] = preKeys[i%len(preKeys)]
					tgt.order = append(tgt.order, n)
				}
				for _, n := range c03Unhexes(c03Strs(op["faults"])) {
					tgt.faults[n] = true
				}
				// the target exactly as fs2VaultCommand hands it over (fact_fs2vault_target_wrapped pins that line)
				got, err := fsToOtherStorage(context.Background(), dir, spi.NewValidatedKIDBackendWrapper(tgt, spi.KidPattern))
				var ents []string
				for _, n := range tgt.order {
					ents = append(ents, hex.EncodeToString([]byte(n))+":"+keyID(tgt.m[n]))
				}
				return "fsexport keys=[" + strings.Join(c03Hexes(got), ",") + "] err=" + errText(err, dir) + " target=[" + strings.Join(ents, ",") + "]" + leak(errText(err, dir), strings.Join(got, "\n"))
			case "fs2vault":
				dataDir := filepath.Join(dir+"-data")
				defer os.RemoveAll(dataDir)
				t.Setenv("NUTS_CRYPTO_STORAGE", "vaultkv")
				t.Setenv("NUTS_CRYPTO_VAULT_ADDRESS", srv.URL)
				t.Setenv("NUTS_STRICTMODE", "false")
				t.Setenv("NUTS_DATADIR", dataDir)
				stub.mu.Lock()
				stub.puts = nil
				stub.mu.Unlock()
				outBuf := new(bytes.Buffer)
				cc := ServerCmd()
				for _, c := range cc.Commands() {
					c.Flags().AddFlagSet(core.FlagSet())
					c.Flags().AddFlagSet(FlagSet())
				}
				cc.SetOut(outBuf)
				cc.SetErr(io.Discard)
				cc.SilenceUsage = true
				cc.SilenceErrors = true
				cc.SetArgs([]string{"fs2vault", dir})
				err := cc.Execute()
				var printed []string
				for _, l := range strings.Split(outBuf.String(), "\n") {
					if strings.HasPrefix(l, "   ") {
						printed = append(printed, hex.EncodeToString([]byte(l[3:])))
					}
				}
				stub.mu.Lock()
				puts := append([]string(nil), stub.puts...)
				stub.mu.Unlock()
				return "fs2vault keys=[" + strings.Join(printed, ",") + "] err=" + errText(err, dir) + " puts=[" + strings.Join(puts, ",") + "]" + leak(errText(err, dir), outBuf.String())
			}
			return kind + " unknown-op"
		}()
		wi.WriteString(line)
		wi.WriteByte('\n')
	}
	replayFile := func(fn string) {
		f, err := os.Open(fn)
		if err != nil {
			return
		}
		defer f.Close()
		sc := bufio.NewScanner(f)
		sc.Buffer(make([]byte, 1<<20), 1<<26)
		for sc.Scan() {
			var op map[string]interface{}
			if json.Unmarshal(sc.Bytes(), &op) == nil && (op["op"] == "fsexport" || op["op"] == "fs2vault") {
				emit(op)
			}
		}
	}
	if rp := os.Getenv("VERIF_REPLAY"); rp != "" {
		replayFile(rp)
		return
	}
	if cd := os.Getenv("VERIF_CORPUS"); cd != "" {
		files, _ := filepath.Glob(filepath.Join(cd, "*.jsonl"))
		sort.Strings(files)
		for _, fn := range files {
			replayFile(fn)
		}
	}
	gen := func(kind string) map[string]interface{} {
		tree := c03ExpTree(r)
		var rels []string
		for rel := range tree {
			rels = append(rels, rel)
		}
		sort.Strings(rels)
		tmp := filepath.Join(scratch, "gen")
		_ = os.MkdirAll(tmp, 0700)
		_ = c03ExpMkTree(tmp, rels, nil, pems)
		files := c03ExpWalk(tmp)
		_ = os.RemoveAll(tmp)
		var cn, ck []string
		var listed []string
		for _, rel := range files {
			base := rel[strings.LastIndex(rel, "/")+1:]
			if strings.HasSuffix(base, "private.pem") && len(base) > len("private.pem")+1 {
				listed = append(listed, base[:len(base)-len("private.pem")-1])
			}
			if !strings.Contains(rel, "/") && strings.HasSuffix(rel, c03ExpSuffix) {
				cn = append(cn, strings.TrimSuffix(rel, c03ExpSuffix))
				ck = append(ck, tree[rel])
			}
		}
		op := map[string]interface{}{"op": kind, "files": c03Hexes(files), "cnames": c03Hexes(cn), "ckinds": ck}
		if kind == "fsexport" {
			var pre, faults []string
			seen := map[string]bool{}
			for _, n := range listed {
				if seen[n] {
					continue
				}
				seen[n] = true
				switch r.Intn(8) {
				case 0:
					pre = append(pre, n)
				case 1:
					faults = append(faults, n)
				}
			}
			if r.Intn(6) == 0 {
				pre = append(pre, "other-key")
			}
			op["pre"] = c03Hexes(pre)
			op["faults"] = c03Hexes(faults)
		}
		return op
	}
	n, nv := 500, 24
	if thorough {
		n, nv = 8000, 150
	}
	for i := 0; i < n; i++ {
		emit(gen("fsexport"))
	}
	for i := 0; i < nv; i++ {
		emit(gen("fs2vault"))
	}
}
