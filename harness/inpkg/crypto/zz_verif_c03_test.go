//go:build verif

package crypto

// C03 correspondence harness, part 3 (injected with `go test -overlay`; never lives in /repo):
//   (b) the key store state machine New / Link / Delete / Migrate / Sign* / Decrypt* / Resolve / Exists / List on the
//       REAL Crypto engine (SQLite key_reference table + the REAL fs backend behind the REAL validating wrapper),
//       oracle: a token signed for kid K verifies with exactly one of all public keys the store ever returned;
//   (c) SignJWS / SignJWT protected-header handling for generated header maps (jwk private / public / other kinds,
//       kid present / absent, typed and free headers) through the package functions, the engine and the in-memory
//       signer; DPoP / did:jwk classification of embedded JWKs;
//   (d) CANARY SCAN (exploration): private scalars, PEM bodies and JWK `d` values of every key the real store
//       generated, in hex / base64 / base64url / decimal, searched in every return value, error, log line, audit
//       record, SQL row, signed artefact and file NAME produced during (b) and (c). Result: ks_canary.json.
// Writes ks_ops.jsonl / ks_impl.out under VERIF_OUT. ops are written AFTER execution: `new` carries the key name the
// engine drew (uuid), which the model cannot know.

import (
	"bufio"
	"bytes"
	"context"
	"crypto"
	"crypto/ecdsa"
	"crypto/ed25519"
	"crypto/elliptic"
	crand "crypto/rand"
	"crypto/rsa"
	"crypto/x509"
	"encoding/base64"
	"encoding/hex"
	"encoding/json"
	"encoding/pem"
	"errors"
	"fmt"
	"math/big"
	"math/rand"
	"net/http"
	"net/url"
	"os"
	"path/filepath"
	"regexp"
	"sort"
	"strconv"
	"strings"
	"testing"

	"github.com/lestrrat-go/jwx/v2/jwa"
	"github.com/lestrrat-go/jwx/v2/jwk"
	"github.com/lestrrat-go/jwx/v2/jws"
	"github.com/lestrrat-go/jwx/v2/x25519"
	"github.com/nuts-foundation/go-did/did"
	"github.com/nuts-foundation/nuts-node/audit"
	"github.com/nuts-foundation/nuts-node/crypto/dpop"
	"github.com/nuts-foundation/nuts-node/core"
	"github.com/nuts-foundation/nuts-node/crypto/storage/spi"
	"github.com/nuts-foundation/nuts-node/storage"
	"github.com/nuts-foundation/nuts-node/vdr/didjwk"
	"github.com/sirupsen/logrus"
	"gorm.io/gorm"
)

type c03JWK struct {
	rawKey interface{}
	id     string
	key    jwk.Key
	raw    string // %T of the raw key
	secret bool   // JSON has d / k
	thumb  string
}

type c03Env struct {
	t       *testing.T
	root    string
	seq     int
	keyDir  string
	decoy   string
	auditCap *audit.CapturedLog
	engine  storage.Engine
	db      *gorm.DB
	client  *Crypto
	ktypes  map[int]string // key index -> "rsa" / "ed" (ECDSA otherwise)
	pubs    []string // key registry: PKIX DER (hex) of every public key the store returned, index = K<n>
	pubKeys []crypto.PublicKey
	jwks    []c03JWK
	pkgKey  *ecdsa.PrivateKey // signer for the package-level functions
	mem     MemoryJWTSigner
	memUnnamed MemoryJWTSigner // a JWK without key id (what GenerateJWK returns)
	// canary scan
	sinks    map[string]*bytes.Buffer
	canaries []c03Canary
	seenKeys map[string]bool
	nKeys    int
}

type c03Canary struct {
	key, kind, val string
}

func (e *c03Env) sink(label string, parts ...interface{}) {
	b := e.sinks[label]
	if b == nil {
		b = &bytes.Buffer{}
		e.sinks[label] = b
	}
	for _, p := range parts {
		switch v := p.(type) {
		case nil:
		case string:
			b.WriteString(v)
		case []byte:
			b.Write(v)
		case error:
			b.WriteString(v.Error())
		default:
			fmt.Fprintf(b, "%+v|%#v", v, v)
			if j, err := json.Marshal(v); err == nil {
				b.Write(j)
			}
		}
		b.WriteByte('\n')
	}
}

// a signed artefact: the token itself and its base64url-decoded segments
func (e *c03Env) sinkToken(tok string) {
	e.sink("tokens", tok)
	for _, seg := range strings.Split(tok, ".") {
		if d, err := base64.RawURLEncoding.DecodeString(seg); err == nil {
			e.sink("tokens", d)
		}
	}
}

func (e *c03Env) pubIndex(pk crypto.PublicKey) int {
	der, err := x509.MarshalPKIXPublicKey(pk)
	if err != nil {
		return -1
	}
	h := hex.EncodeToString(der)
	for i, p := range e.pubs {
		if p == h {
			return i
		}
	}
	e.pubs = append(e.pubs, h)
	e.pubKeys = append(e.pubKeys, pk)
	return len(e.pubs) - 1
}

func (e *c03Env) keyFiles() []string {
	ents, _ := os.ReadDir(e.keyDir)
	var r []string
	for _, en := range ents {
		r = append(r, en.Name())
	}
	sort.Strings(r)
	return r
}

// CALLER-SUPPLIED private material: what in-node callers may hand to the signing functions by mistake (a key pair in
// a jwk header instead of the public key). Only key types the node itself creates or holds (ECDSA, RSA, Ed25519).
func (e *c03Env) callerCanaries(label string, priv interface{}) {
	add := func(kind, v string) {
		if len(v) >= 16 {
			e.canaries = append(e.canaries, c03Canary{"caller/" + label, kind, v})
		}
	}
	encs := func(kind string, b []byte) {
		add(kind+":hex", hex.EncodeToString(b))
		add(kind+":HEX", strings.ToUpper(hex.EncodeToString(b)))
		add(kind+":b64", base64.StdEncoding.EncodeToString(b))
		add(kind+":b64raw", base64.RawStdEncoding.EncodeToString(b))
		add(kind+":b64url", base64.URLEncoding.EncodeToString(b))
		add(kind+":b64urlraw", base64.RawURLEncoding.EncodeToString(b))
	}
	num := func(kind string, n *big.Int) {
		if n != nil {
			encs(kind, n.Bytes())
			add(kind+":dec", n.String())
		}
	}
	switch pk := priv.(type) {
	case *ecdsa.PrivateKey:
		num("scalar", pk.D)
		encs("scalar-fixed", pk.D.FillBytes(make([]byte, (pk.Curve.Params().BitSize+7)/8)))
	case *rsa.PrivateKey:
		num("rsa-D", pk.D)
		for i, p := range pk.Primes {
			num("rsa-prime"+strconv.Itoa(i), p)
		}
		num("rsa-Dp", pk.Precomputed.Dp)
		num("rsa-Dq", pk.Precomputed.Dq)
		num("rsa-Qinv", pk.Precomputed.Qinv)
	case ed25519.PrivateKey:
		encs("ed25519-seed", pk.Seed())
		encs("ed25519-private", []byte(pk))
		var parts []string
		for _, x := range pk.Seed() {
			parts = append(parts, strconv.Itoa(int(x)))
		}
		add("ed25519-seed:slice", strings.Join(parts, " "))
	}
}

// the harness is the attacker's oracle: it reads the key files to learn the secrets it then searches for
func (e *c03Env) harvestCanaries() {
	for _, name := range e.keyFiles() {
		p := filepath.Join(e.keyDir, name)
		if e.seenKeys[p] {
			continue
		}
		data, err := os.ReadFile(p)
		if err != nil {
			continue
		}
		e.seenKeys[p] = true
		blk, _ := pem.Decode(data)
		if blk == nil {
			continue
		}
		e.nKeys++
		kn := fmt.Sprintf("seq%d/%s", e.seq, name)
		add := func(kind, v string) {
			if len(v) >= 16 {
				e.canaries = append(e.canaries, c03Canary{kn, kind, v})
			}
		}
		encs := func(kind string, b []byte) {
			add(kind+":hex", hex.EncodeToString(b))
			add(kind+":HEX", strings.ToUpper(hex.EncodeToString(b)))
			add(kind+":b64", base64.StdEncoding.EncodeToString(b))
			add(kind+":b64raw", base64.RawStdEncoding.EncodeToString(b))
			add(kind+":b64url", base64.URLEncoding.EncodeToString(b))
			add(kind+":b64urlraw", base64.RawURLEncoding.EncodeToString(b))
		}
		encs("pkcs8-der", blk.Bytes)
		for _, ln := range strings.Split(strings.TrimSpace(string(data)), "\n") {
			if !strings.HasPrefix(ln, "-----") {
				add("pem-line", ln)
			}
		}
		// renderings a formatting slip produces: big.Int %v / %d (decimal), %x, byte slices as "[1 2 3]" (%v) and hex
		num := func(kind string, n *big.Int) {
			if n == nil {
				return
			}
			encs(kind, n.Bytes())
			add(kind+":dec", n.String())
		}
		raw := func(kind string, b []byte) {
			encs(kind, b)
			var parts []string
			for _, x := range b {
				parts = append(parts, strconv.Itoa(int(x)))
			}
			add(kind+":slice", strings.Join(parts, " "))
			add(kind+":commas", strings.Join(parts, ","))
		}
		if k, err := x509.ParsePKCS8PrivateKey(blk.Bytes); err == nil {
			switch pk := k.(type) {
			case *rsa.PrivateKey:
				num("rsa-D", pk.D)
				for i, p := range pk.Primes {
					num("rsa-prime"+strconv.Itoa(i), p)
				}
				num("rsa-Dp", pk.Precomputed.Dp)
				num("rsa-Dq", pk.Precomputed.Dq)
				num("rsa-Qinv", pk.Precomputed.Qinv)
			case ed25519.PrivateKey:
				raw("ed25519-seed", pk.Seed())
				raw("ed25519-private", []byte(pk))
			}
			if ec, ok := k.(*ecdsa.PrivateKey); ok {
				encs("scalar", ec.D.Bytes())
				fixed := make([]byte, (ec.Curve.Params().BitSize+7)/8)
				encs("scalar-fixed", ec.D.FillBytes(fixed))
				add("scalar:dec", ec.D.String())
				if j, err := jwk.FromRaw(ec); err == nil {
					if m, err := json.Marshal(j); err == nil {
						var mm map[string]interface{}
						_ = json.Unmarshal(m, &mm)
						if d, ok := mm["d"].(string); ok {
							add("jwk-d", d)
						}
					}
				}
			}
		}
	}
}

// New / Resolve hand a crypto.PublicKey (= any) to callers that publish it: it must not be a private key
func c03PubFlag(pk crypto.PublicKey) string {
	switch pk.(type) {
	case nil, *ecdsa.PublicKey, *rsa.PublicKey, ed25519.PublicKey:
		return ""
	}
	return fmt.Sprintf(" RETURNED-NON-PUBLIC-KEY:%T", pk)
}

// a signed artefact must not carry secret JWK members in its header, and a jwk header must be the signing key
func c03TokenFlags(tok string) string {
	msg, err := jws.Parse([]byte(tok))
	if err != nil || len(msg.Signatures()) != 1 {
		return ""
	}
	ph := msg.Signatures()[0].ProtectedHeaders()
	jk := ph.JWK()
	if jk == nil {
		return ""
	}
	res := ""
	jb, _ := json.Marshal(jk)
	var mm map[string]interface{}
	_ = json.Unmarshal(jb, &mm)
	for _, k := range []string{"d", "k", "p", "q", "dp", "dq", "qi"} {
		if _, ok := mm[k]; ok {
			res = " JWK-HEADER-HAS-SECRET-MEMBER:" + k
			break
		}
	}
	if _, err := jws.Verify([]byte(tok), jws.WithKey(ph.Algorithm(), jk)); err != nil {
		res += " JWK-HEADER-IS-NOT-THE-SIGNING-KEY"
	}
	return res
}

func c03Num(v interface{}) float64 {
	switch x := v.(type) {
	case float64:
		return x
	case int:
		return float64(x)
	}
	return 0
}

func c03Err(err error) string {
	switch {
	case err == nil:
		return "ok"
	case errors.Is(err, ErrPrivateKeyNotFound):
		return "err:ErrPrivateKeyNotFound"
	case errors.Is(err, spi.ErrNotFound):
		return "err:spi.ErrNotFound"
	case strings.Contains(err.Error(), "invalid key ID"):
		return "err:invalid-key-id"
	case strings.Contains(err.Error(), "already exists"):
		return "err:key-exists"
	case errors.Is(err, gorm.ErrDuplicatedKey):
		return "err:duplicated-key"
	case strings.Contains(err.Error(), "c03-naming-error"):
		return "err:naming-func-error"
	case strings.Contains(err.Error(), "unsupported decryption key"):
		return "err:unsupported-key"
	case strings.Contains(err.Error(), "kid header not found"):
		return "err:no-kid-header"
	case strings.Contains(err.Error(), "refusing to sign JWS with private key in JWK header"), strings.Contains(err.Error(), "refusing to sign JWT with private key in JWK header"):
		return "err:private-jwk-refused"
	case strings.Contains(err.Error(), "unable to set header"):
		return "err:set-header"
	case strings.Contains(err.Error(), "invalid JWT headers"):
		return "err:invalid-jwt-headers"
	}
	return "err:other:" + regexp.MustCompile(`[^a-zA-Z0-9 :._-]`).ReplaceAllString(err.Error(), "?")
}

// outcome class + (for the classes whose text the engine words itself) the exact error text, key dir normalised
func (e *c03Env) errT(err error) string {
	c := c03Err(err)
	switch c {
	case "err:ErrPrivateKeyNotFound", "err:spi.ErrNotFound", "err:invalid-key-id", "err:duplicated-key", "err:unsupported-key", "err:no-kid-header":
		return c + " err=\"" + strings.ReplaceAll(err.Error(), e.keyDir, "$KEYDIR") + "\""
	}
	return c
}

func (e *c03Env) reset() {
	e.seq++
	// the REAL wiring: NewCryptoInstance(storage engine) + Configure(server config) — whatever backend and wrapper
	// crypto.go installs for storage type "fs" (odd sequences) or the non-strict default "" (even sequences)
	datadir := filepath.Join(e.root, fmt.Sprintf("seq%d", e.seq))
	e.keyDir = filepath.Join(datadir, "crypto")
	if err := e.db.Exec("delete from key_reference").Error; err != nil {
		e.t.Fatal(err)
	}
	c := NewCryptoInstance(e.engine)
	if e.seq%2 == 1 {
		c.config.Storage = "fs"
	}
	if err := c.Configure(core.ServerConfig{Datadir: datadir}); err != nil {
		e.t.Fatal(err)
	}
	e.client = c
	e.pubs, e.pubKeys = nil, nil
	e.ktypes = map[int]string{}
	// a decoy key file OUTSIDE the key directory (its sibling): the key name "../escape" would address it
	e.decoy = filepath.Join(filepath.Dir(e.keyDir), "escape_private.pem")
	if der, err := x509.MarshalPKCS8PrivateKey(e.pkgKey); err == nil {
		_ = os.WriteFile(e.decoy, pem.EncodeToMemory(&pem.Block{Type: "PRIVATE KEY", Bytes: der}), 0o600)
	}
}

// flags appended to an outcome line when something outside the key directory was touched (the model never prints them)
func (e *c03Env) decoyFlags() string {
	res := ""
	if _, err := os.Stat(e.decoy); err != nil {
		res = " DECOY-GONE"
	}
	return res + e.tmpFlags()
}

// the system temp dir (TMPDIR points into the sandbox) must never hold a PEM private key, not even after a failed save
func (e *c03Env) tmpFlags() string {
	td := filepath.Join(e.root, "tmpdir")
	found := 0
	_ = filepath.Walk(td, func(p string, info os.FileInfo, err error) error {
		if err == nil && !info.IsDir() && info.Size() < 1<<20 {
			if b, rerr := os.ReadFile(p); rerr == nil && strings.Contains(string(b), "PRIVATE KEY") {
				found++
				e.sink("files-outside-keydir", b)
				_ = os.Remove(p)
			}
		}
		return nil
	})
	if found > 0 {
		return fmt.Sprintf(" KEY-MATERIAL-OUTSIDE-KEY-DIR:tmpdir(%d)", found)
	}
	return ""
}

// which of all public keys the store ever returned verify this compact JWS
func (e *c03Env) verifiers(tok string) string {
	msg, err := jws.Parse([]byte(tok))
	if err != nil || len(msg.Signatures()) != 1 {
		return "UNPARSEABLE"
	}
	alg := msg.Signatures()[0].ProtectedHeaders().Algorithm()
	var ok []string
	for i, pk := range e.pubKeys {
		if _, err := jws.Verify([]byte(tok), jws.WithKey(alg, pk)); err == nil {
			ok = append(ok, "K"+strconv.Itoa(i))
		}
	}
	return "[" + strings.Join(ok, ",") + "]"
}

// the jwk header of a token: which key of the store it is the public half of (K<n>), or which preset JWK, and whether
// its JSON carries a secret member
func (e *c03Env) jwkOfToken(tok string) string {
	msg, err := jws.Parse([]byte(tok))
	if err != nil || len(msg.Signatures()) != 1 {
		return "UNPARSEABLE"
	}
	jk := msg.Signatures()[0].ProtectedHeaders().JWK()
	if jk == nil {
		return "- secret=0"
	}
	secret := "0"
	jb, _ := json.Marshal(jk)
	var mm map[string]interface{}
	_ = json.Unmarshal(jb, &mm)
	for _, k := range []string{"d", "k", "p", "q", "dp", "dq", "qi"} {
		if _, ok := mm[k]; ok {
			secret = "1"
		}
	}
	who := "other"
	var raw interface{}
	if err := jk.Raw(&raw); err == nil {
		if sg, ok := raw.(crypto.Signer); ok {
			raw = sg.Public()
		}
		if i := e.pubIndex(raw); i >= 0 && secret == "0" {
			who = "K" + strconv.Itoa(i)
		}
	}
	if who == "other" {
		if tp, err := jk.Thumbprint(crypto.SHA256); err == nil {
			for i := range e.jwks {
				if e.jwks[i].thumb == fmt.Sprintf("%x", tp) || e.jwks[i].thumb == base64.RawURLEncoding.EncodeToString(tp) {
					who = "preset:" + e.jwks[i].id
					if e.jwks[i].secret != (secret == "1") {
						continue
					}
					break
				}
			}
		}
	}
	return who + " secret=" + secret
}

// the audit records written since the last call, canonical: event:message;…  (also fed to the canary scan)
func (e *c03Env) drainAudit() string {
	var parts []string
	for _, en := range e.auditCap.Hook.AllEntries() {
		e.sink("audit", en.Message, fmt.Sprintf("%+v", en.Data))
		if s, err := en.String(); err == nil {
			e.sink("audit", s)
		}
		rec := fmt.Sprintf("%v:%s", en.Data["event"], en.Message)
		var extra []string
		for k := range en.Data {
			switch k {
			case "actor", "event", "module", "operation":
			default:
				extra = append(extra, k)
			}
		}
		if len(extra) > 0 { // an audit record carries the four standard fields only
			sort.Strings(extra)
			rec += "+UNEXPECTED-FIELDS:" + strings.Join(extra, ",")
		}
		parts = append(parts, rec)
	}
	e.auditCap.Hook.Reset()
	return " audit=[" + strings.Join(parts, ";") + "]"
}

func (e *c03Env) exec(op map[string]interface{}) (line string) {
	defer func() {
		if r := recover(); r != nil {
			line = fmt.Sprintf("%v panic:%v", op["op"], r)
			e.sink("returns", line)
		}
		a := e.drainAudit()
		switch op["op"] {
		case "new", "link", "delete", "migrate", "sign", "resolve", "decrypt", "decryptjwe", "dpopseq":
			if !strings.HasSuffix(line, " skipped") && !strings.Contains(line, "encrypt-failed") {
				line += a
			}
		case "signjws", "signjwt":
			// the record is worded with %s of the kid header: compared when that value is a string or absent
			// (package function) or always (key store / in-memory signer set it to the requested kid)
			modelled := op["via"] != "pkg"
			if !modelled {
				modelled = true
				hl, _ := op["headers"].([]interface{})
				for _, h := range hl {
					if m, _ := h.(map[string]interface{}); m != nil && m["n"] == "kid" && m["k"] != "str" {
						modelled = false
					}
				}
			}
			if modelled || strings.Contains(a, "UNEXPECTED-FIELDS") {
				line += a
			}
		}
	}()
	ctx := audit.TestContext()
	str := func(k string) string { s, _ := op[k].(string); return s }
	switch str("op") {
	case "reset":
		e.reset()
		return "reset"
	case "new":
		before := e.keyFiles()
		naming := StringNamingFunc(str("kid"))
		if op["kid"] == nil {
			naming = ErrorNamingFunc(errors.New("c03-naming-error"))
		}
		ref, pub, err := e.client.New(ctx, naming)
		e.sink("returns", ref, pub, err)
		// the key name the engine drew = the new file in the key directory
		seen := map[string]bool{}
		for _, f := range before {
			seen[f] = true
		}
		name := ""
		for _, f := range e.keyFiles() {
			if !seen[f] {
				name = strings.TrimSuffix(f, "_private.pem")
			}
		}
		op["keyName"] = name
		e.harvestCanaries()
		k := -1
		if pub != nil {
			k = e.pubIndex(pub)
		}
		if err != nil {
			return fmt.Sprintf("new %s key=K%d", c03Err(err), k) + c03PubFlag(pub)
		}
		res := fmt.Sprintf("new ok kid=%s name=%s ver=%s key=K%d", ref.KID, ref.KeyName, ref.Version, k) + c03PubFlag(pub)
		if ref.KeyName != name {
			res += " KEYNAME-IS-NOT-THE-NEW-FILE"
		}
		if !regexp.MustCompile(`^[0-9a-f]{8}-[0-9a-f]{4}-[0-9a-f]{4}-[0-9a-f]{4}-[0-9a-f]{12}$`).MatchString(name) {
			res += " KEYNAME-NOT-UUID"
		}
		return res + e.tmpFlags()
	case "link":
		err := e.client.Link(ctx, str("kid"), str("keyName"), str("version"))
		e.sink("returns", err)
		return "link " + e.errT(err)
	case "delete":
		err := e.client.Delete(ctx, str("kid"))
		e.sink("returns", err)
		return "delete " + e.errT(err) + e.decoyFlags()
	case "plant": // a key that did not come from New: saved through the backend's SPI (legacy key / import); the stores
		// hold every type util.PemToPrivateKey knows: ECDSA, RSA, Ed25519
		var kp crypto.Signer
		var gerr error
		switch str("ktype") {
		case "rsa":
			kp, gerr = rsa.GenerateKey(crand.Reader, 1024)
		case "ed":
			_, kp, gerr = ed25519.GenerateKey(crand.Reader)
		default:
			kp, gerr = spi.GenerateKeyPair()
		}
		if gerr != nil {
			return "plant keygen-failed"
		}
		err := e.client.backend.SavePrivateKey(ctx, str("keyName"), kp)
		e.sink("returns", err)
		if err != nil {
			c := e.errT(err)
			if strings.Contains(err.Error(), "file exists") {
				c = "err:key-exists"
			}
			return "plant " + c + e.decoyFlags()
		}
		e.harvestCanaries()
		idx := e.pubIndex(kp.Public())
		e.ktypes[idx] = str("ktype")
		return fmt.Sprintf("plant ok key=K%d", idx) + e.tmpFlags()
	case "migrate":
		err := e.client.Migrate()
		e.sink("returns", err)
		return "migrate " + c03Err(err)
	case "sign":
		kid := str("kid")
		var tok string
		var err error
		switch str("how") {
		case "jws":
			tok, err = e.client.SignJWS(ctx, []byte("payload"), map[string]interface{}{"typ": "x"}, kid, false)
		case "jwt":
			op["iss"], op["sub"] = "me", "you"
			tok, err = e.client.SignJWT(ctx, map[string]interface{}{"iss": "me", "sub": "you"}, nil, kid)
		default:
			u, _ := url.Parse("https://example.com/token")
			tok, err = e.client.SignDPoP(ctx, *dpop.New(http.Request{Method: "POST", URL: u}), kid)
		}
		e.sink("returns", err)
		if err != nil {
			return "sign " + str("how") + " " + e.errT(err)
		}
		e.sinkToken(tok)
		res := "sign " + str("how") + " ok verifies=" + e.verifiers(tok) + c03TokenFlags(tok)
		if msg, err := jws.Parse([]byte(tok)); err == nil && len(msg.Signatures()) == 1 {
			if _, err := jws.Verify([]byte(tok), jws.WithKey(msg.Signatures()[0].ProtectedHeaders().Algorithm(), &e.pkgKey.PublicKey)); err == nil {
				res += " SIGNED-WITH-DECOY-KEY-OUTSIDE-KEY-DIR"
			}
		}
		if msg, err := jws.Parse([]byte(tok)); err == nil && str("how") != "dpop" {
			if got := msg.Signatures()[0].ProtectedHeaders().KeyID(); got != kid {
				res += " KID-HEADER=" + got
			}
		}
		return res
	case "dpopseq":
		// the SAME dpop.DPoP handed to SignDPoP for several kids (retry / key rotation between two attempts), optionally
		// with a jwk header the caller already put on the token (public or PRIVATE JWK)
		u, _ := url.Parse("https://example.com/token")
		tok := dpop.New(http.Request{Method: "POST", URL: u})
		if id := str("preset"); id != "" {
			for i := range e.jwks {
				if e.jwks[i].id == id {
					_ = tok.Headers.Set(jws.JWKKey, e.jwks[i].key)
					op["presetRaw"] = e.jwks[i].raw
				}
			}
		}
		var parts []string
		kl, _ := op["kids"].([]interface{})
		for _, kv := range kl {
			kid, _ := kv.(string)
			t, err := e.client.SignDPoP(ctx, *tok, kid)
			e.sink("returns", err)
			if err != nil {
				parts = append(parts, e.errT(err))
				continue
			}
			e.sinkToken(t)
			parts = append(parts, "ok verifies="+e.verifiers(t)+" jwk="+e.jwkOfToken(t))
		}
		return "dpopseq " + strings.Join(parts, " | ")
	case "resolve":
		pk, err := e.client.Resolve(ctx, str("kid"))
		e.sink("returns", pk, err)
		if err != nil {
			return "resolve " + e.errT(err)
		}
		return fmt.Sprintf("resolve ok key=K%d", e.pubIndex(pk)) + c03PubFlag(pk)
	case "exists":
		ok, err := e.client.Exists(ctx, str("kid"))
		e.sink("returns", err)
		if err != nil {
			return "exists " + c03Err(err)
		}
		return fmt.Sprintf("exists %v", ok)
	case "list":
		l := e.client.List(ctx)
		e.sink("returns", l)
		sort.Strings(l)
		return "list [" + strings.Join(l, ",") + "]"
	case "files":
		var names []string
		for _, f := range e.keyFiles() {
			names = append(names, strings.TrimSuffix(f, "_private.pem"))
		}
		sort.Strings(names)
		e.sink("filenames", strings.Join(e.keyFiles(), "\n"))
		return "files [" + strings.Join(names, ",") + "]"
	case "decrypt", "decryptjwe":
		enc := c03Num(op["encFor"])
		if int(enc) >= len(e.pubKeys) {
			return str("op") + " skipped"
		}
		plain := []byte("c03 plaintext " + strconv.Itoa(e.seq))
		var got []byte
		var err error
		if str("op") == "decrypt" {
			pk, isEC := e.pubKeys[int(enc)].(*ecdsa.PublicKey)
			if !isEC {
				return "decrypt skipped"
			}
			ct, eerr := EciesEncrypt(pk, plain)
			if eerr != nil {
				return "decrypt encrypt-failed"
			}
			got, err = e.client.Decrypt(ctx, str("kid"), ct)
		} else {
			msg, eerr := EncryptJWE(plain, map[string]interface{}{"kid": str("kid")}, e.pubKeys[int(enc)])
			if eerr != nil {
				return "decryptjwe skipped"
			}
			var hdrs map[string]interface{}
			got, hdrs, err = e.client.DecryptJWE(ctx, msg)
			e.sink("returns", hdrs)
		}
		e.sink("returns", got, err)
		if err != nil {
			c := e.errT(err)
			if strings.HasPrefix(c, "err:other:") {
				// wrong key: ECIES "invalid message" / MAC failure, jwe "failed to decrypt"
				c = "err:wrong-key"
			}
			return str("op") + " " + c
		}
		if !bytes.Equal(got, plain) {
			return str("op") + " WRONG-PLAINTEXT"
		}
		return str("op") + " ok"
	case "signjws", "signjwt":
		return e.execHeaders(op)
	case "jwkclass":
		var j *c03JWK
		for i := range e.jwks {
			if e.jwks[i].id == str("id") {
				j = &e.jwks[i]
			}
		}
		if j == nil {
			return "jwkclass unknown"
		}
		// a DPoP proof carrying this JWK in its header (signed by an unrelated key: the private-key test comes first)
		hdr := jws.NewHeaders()
		_ = hdr.Set("typ", "dpop+jwt")
		_ = hdr.Set("jwk", j.key)
		tok, err := jws.Sign([]byte(`{"htm":"POST","htu":"https://x","iat":1,"jti":"j"}`), jws.WithKey(jwa.ES256, e.pkgKey, jws.WithProtectedHeaders(hdr)))
		if err != nil {
			return "jwkclass sign-failed:" + err.Error()
		}
		_, perr := dpop.Parse(string(tok))
		dp := perr != nil && strings.Contains(perr.Error(), "invalid jwk header")
		// did:jwk with this JWK
		jb, _ := json.Marshal(j.key)
		id, derr := did.ParseDID("did:jwk:" + base64.RawURLEncoding.EncodeToString(jb))
		dj := "parse-error"
		if derr == nil {
			doc, _, rerr := didjwk.NewResolver().Resolve(*id, nil)
			switch {
			case rerr == nil:
				dj = "resolved"
				if b, err := json.Marshal(doc); err == nil {
					e.sink("returns", b)
					if j.secret && (bytes.Contains(b, []byte(`"d":`)) || bytes.Contains(b, []byte(`"k":`))) {
						dj = "resolved-WITH-SECRET"
					}
				}
			case strings.Contains(rerr.Error(), "private keys are forbidden"):
				dj = "forbidden-private"
			default:
				dj = "error"
			}
		}
		return fmt.Sprintf("jwkclass %s dpop-private=%v didjwk=%s", j.id, dp, dj)
	}
	return "bad-op:" + str("op")
}

func (e *c03Env) execHeaders(op map[string]interface{}) string {
	ctx := audit.TestContext()
	str := func(k string) string { s, _ := op[k].(string); return s }
	headers := map[string]interface{}{}
	hl, _ := op["headers"].([]interface{})
	for _, h := range hl {
		m := h.(map[string]interface{})
		n, _ := m["n"].(string)
		switch m["k"] {
		case "str":
			headers[n], _ = m["v"].(string)
		case "strlist":
			headers[n] = []string{"custom"}
			if n == "crit" && m["v"] == "b64" {
				headers[n] = []string{"b64"}
			}
		case "jwk":
			for i := range e.jwks {
				if e.jwks[i].id == m["id"] {
					headers[n] = e.jwks[i].key
				}
			}
		default:
			switch m["ty"] {
			case "float64":
				headers[n] = 5.0
			case "bool":
				headers[n] = true
			case "boolfalse":
				headers[n] = false
			case "map":
				headers[n] = map[string]interface{}{"kty": "EC", "crv": "P-256", "x": "AA", "y": "AA", "d": "AA"}
			default:
				headers[n] = []interface{}{"a", 1.0}
			}
		}
	}
	kid := str("kid")
	detached, _ := op["detached"].(bool)
	var tok string
	var err error
	jwsMode := str("op") == "signjws"
	claims := map[string]interface{}{"iss": "me"}
	var memSigner *MemoryJWTSigner // set for in-memory ops that state the key id: the token must verify with THAT signer's key
	switch str("via") {
	case "pkg":
		if jwsMode {
			tok, err = SignJWS(ctx, []byte("payload"), headers, e.pkgKey, detached)
		} else {
			tok, err = SignJWT(ctx, e.pkgKey, jwa.ES256, claims, headers)
		}
	case "memory":
		ms := e.mem
		if id, has := op["memKeyId"].(string); has {
			memSigner = &ms
			if id == "" {
				ms = e.memUnnamed
			}
		}
		if jwsMode {
			tok, err = ms.SignJWS(ctx, []byte("payload"), headers, kid, detached)
		} else {
			tok, err = ms.SignJWT(ctx, claims, headers, kid)
		}
	default:
		if jwsMode {
			tok, err = e.client.SignJWS(ctx, []byte("payload"), headers, kid, detached)
		} else {
			tok, err = e.client.SignJWT(ctx, claims, headers, kid)
		}
	}
	e.sink("returns", err)
	pre := str("op") + " " + str("via") + " "
	if err != nil {
		return pre + c03Err(err)
	}
	e.sinkToken(tok)
	msg, perr := jws.Parse([]byte(tok))
	if perr != nil || len(msg.Signatures()) != 1 {
		return pre + "UNPARSEABLE"
	}
	ph := msg.Signatures()[0].ProtectedHeaders()
	am, _ := ph.AsMap(context.Background())
	var names []string
	for n := range am {
		if n != "alg" {
			names = append(names, n)
		}
	}
	sort.Strings(names)
	kidOut := "-"
	if _, ok := am["kid"]; ok {
		kidOut = ph.KeyID()
	}
	jwkOut, secret := "-", "0"
	if jk := ph.JWK(); jk != nil {
		jwkOut = "?"
		jb, _ := json.Marshal(jk)
		var mm map[string]interface{}
		_ = json.Unmarshal(jb, &mm)
		if _, ok := mm["d"]; ok {
			secret = "1"
		}
		if _, ok := mm["k"]; ok {
			secret = "1"
		}
		tp, _ := jk.Thumbprint(crypto.SHA256)
		for _, j := range e.jwks {
			if j.thumb == hex.EncodeToString(tp) && (secret == "1") == j.secret {
				jwkOut = j.id
			}
		}
	}
	vk := ""
	if memSigner != nil {
		vk = " vk=NOT-OWN"
		if pub, perr := memSigner.Key.PublicKey(); perr == nil {
			var rawPub interface{}
			if pub.Raw(&rawPub) == nil {
				opts := []jws.VerifyOption{jws.WithKey(jwa.ES256, rawPub)}
				if detached && jwsMode {
					opts = append(opts, jws.WithDetachedPayload([]byte("payload")))
				}
				if _, verr := jws.Verify([]byte(tok), opts...); verr == nil {
					vk = " vk=own"
				}
			}
		}
	}
	return pre + fmt.Sprintf("ok kid=%s jwk=%s secret=%s names=[%s]", kidOut, jwkOut, secret, strings.Join(names, ",")) + vk
}

func c03MakeJWKs(t *testing.T) []c03JWK {
	ec, _ := ecdsa.GenerateKey(elliptic.P256(), crand.Reader)
	ec384, _ := ecdsa.GenerateKey(elliptic.P384(), crand.Reader)
	rs, _ := rsa.GenerateKey(crand.Reader, 2048)
	edPub, edPriv, _ := ed25519.GenerateKey(crand.Reader)
	xPub, xPriv, _ := x25519.GenerateKey(crand.Reader)
	raws := []struct {
		id  string
		raw interface{}
	}{
		{"ecPriv", ec}, {"ecPub", &ec.PublicKey}, {"ec384Priv", ec384}, {"ec384Pub", &ec384.PublicKey},
		{"rsaPriv", rs}, {"rsaPub", &rs.PublicKey}, {"edPriv", edPriv}, {"edPub", edPub},
		{"xPriv", xPriv}, {"xPub", xPub}, {"oct", []byte("0123456789abcdef0123456789abcdef")},
	}
	var out []c03JWK
	for _, r := range raws {
		k, err := jwk.FromRaw(r.raw)
		if err != nil {
			t.Fatalf("jwk %s: %v", r.id, err)
		}
		var raw interface{}
		_ = k.Raw(&raw)
		jb, _ := json.Marshal(k)
		var mm map[string]interface{}
		_ = json.Unmarshal(jb, &mm)
		_, hasD := mm["d"]
		_, hasK := mm["k"]
		tp, _ := k.Thumbprint(crypto.SHA256)
		out = append(out, c03JWK{rawKey: r.raw, id: r.id, key: k, raw: fmt.Sprintf("%T", raw), secret: hasD || hasK, thumb: hex.EncodeToString(tp)})
	}
	return out
}

type c03Hook struct{ e *c03Env }

func (h c03Hook) Levels() []logrus.Level { return logrus.AllLevels }
func (h c03Hook) Fire(en *logrus.Entry) error {
	label := "log"
	if _, ok := en.Data["event"]; ok {
		label = "audit"
	}
	h.e.sink(label, en.Message, fmt.Sprintf("%+v", en.Data))
	if s, err := en.String(); err == nil {
		h.e.sink(label, s)
	}
	return nil
}

func (e *c03Env) dumpSQL() {
	var tables []string
	e.db.Raw("select name from sqlite_master where type='table'").Scan(&tables)
	for _, tb := range tables {
		rows, err := e.db.Raw("select * from " + tb).Rows()
		if err != nil {
			continue
		}
		cols, _ := rows.Columns()
		for rows.Next() {
			vals := make([]interface{}, len(cols))
			ptrs := make([]interface{}, len(cols))
			for i := range vals {
				ptrs[i] = &vals[i]
			}
			if rows.Scan(ptrs...) == nil {
				for _, v := range vals {
					switch x := v.(type) {
					case []byte:
						e.sink("sql", x)
					default:
						e.sink("sql", fmt.Sprint(x))
					}
				}
			}
		}
		rows.Close()
	}
}

func (e *c03Env) scan(out string) {
	type hit struct {
		Key, Kind, Sink, Context string
	}
	var hits []hit
	total := 0
	sizes := map[string]int{}
	// positive control: the scanner must find a planted canary
	control := false
	if len(e.canaries) > 0 {
		e.sink("zz-control", "xx"+e.canaries[len(e.canaries)/2].val+"yy")
	}
	// all file names anywhere under the sandbox
	_ = filepath.Walk(e.root, func(p string, info os.FileInfo, err error) error {
		if err == nil {
			e.sink("filenames", info.Name())
		}
		return nil
	})
	// multi-pattern search: index the canaries by their first 16 bytes, slide over each sink once
	const w = 16
	idx := map[string][]int{}
	for i, c := range e.canaries {
		idx[c.val[:w]] = append(idx[c.val[:w]], i)
	}
	hitSeen := map[string]bool{}
	for label, b := range e.sinks {
		s := b.String()
		sizes[label] = len(s)
		total += len(s)
		for i := 0; i+w <= len(s); i++ {
			cands, ok := idx[s[i:i+w]]
			if !ok {
				continue
			}
			for _, ci := range cands {
				c := e.canaries[ci]
				if strings.HasPrefix(s[i:], c.val) && !hitSeen[label+c.key+c.kind] {
					hitSeen[label+c.key+c.kind] = true
					lo, hi := i-40, i+20
					if lo < 0 {
						lo = 0
					}
					if hi > len(s) {
						hi = len(s)
					}
					if len(hits) < 2000 {
						hits = append(hits, hit{c.key, c.kind, label, strconv.Quote(s[lo:hi])})
					}
				}
			}
		}
	}
	// the planted control must be the one and only hit in the control sink; it is not reported as a finding
	var realHits []hit
	for _, h := range hits {
		if h.Sink == "zz-control" {
			control = true
		} else {
			realHits = append(realHits, h)
		}
	}
	hits = realHits
	delete(sizes, "zz-control")
	res := map[string]interface{}{
		"exploration": true, "keys": e.nKeys, "canaries": len(e.canaries), "bytes_scanned": total, "sinks": sizes,
		"hits": hits, "scanner_positive_control": control,
	}
	b, _ := json.MarshalIndent(res, "", " ")
	_ = os.WriteFile(filepath.Join(out, "ks_canary.json"), b, 0o644)
}

func TestVerifC03(t *testing.T) {
	out := os.Getenv("VERIF_OUT")
	if out == "" {
		t.Skip("VERIF_OUT not set")
	}
	seed, _ := strconv.ParseInt(os.Getenv("VERIF_SEED"), 10, 64)
	thorough := os.Getenv("VERIF_TIER") == "thorough"
	r := rand.New(rand.NewSource(seed*15485863 + 11))
	root := filepath.Join(out, "sandbox_ks")
	_ = os.RemoveAll(root)
	defer os.RemoveAll(root)
	e := &c03Env{t: t, root: root, sinks: map[string]*bytes.Buffer{}, seenKeys: map[string]bool{}}
	e.engine = storage.NewTestStorageEngine(t)
	if err := e.engine.Start(); err != nil {
		t.Fatal(err)
	}
	e.db = e.engine.GetSQLDatabase()
	// from here on the system temp dir is a watched directory inside the sandbox (the storage engine keeps the real one)
	if err := os.MkdirAll(filepath.Join(root, "tmpdir"), 0o700); err != nil {
		t.Fatal(err)
	}
	t.Setenv("TMPDIR", filepath.Join(root, "tmpdir"))
	e.jwks = c03MakeJWKs(t)
	e.pkgKey, _ = ecdsa.GenerateKey(elliptic.P256(), crand.Reader)
	memKey, _ := jwk.FromRaw(e.pkgKey)
	_ = memKey.Set(jwk.KeyIDKey, "mem#1")
	e.mem = MemoryJWTSigner{Key: memKey}
	unnamedRaw, _ := ecdsa.GenerateKey(elliptic.P256(), crand.Reader)
	unnamedKey, _ := jwk.FromRaw(unnamedRaw)
	e.memUnnamed = MemoryJWTSigner{Key: unnamedKey}
	e.callerCanaries("memUnnamed", unnamedRaw)
	for _, j := range e.jwks {
		e.callerCanaries(j.id, j.rawKey)
	}
	e.callerCanaries("pkgKey", e.pkgKey)
	// capture everything that is logged (standard logger at trace level, audit logger)
	logrus.SetLevel(logrus.TraceLevel)
	logrus.StandardLogger().AddHook(c03Hook{e})
	cap := audit.CaptureAuditLogs(t)
	e.auditCap = cap
	// the audit logger is private to package audit; CaptureAuditLogs installed a test hook whose entries we read at the end

	fo, _ := os.Create(filepath.Join(out, "ks_ops.jsonl"))
	fi, _ := os.Create(filepath.Join(out, "ks_impl.out"))
	wo, wi := bufio.NewWriterSize(fo, 1<<20), bufio.NewWriterSize(fi, 1<<20)
	defer func() { wo.Flush(); wi.Flush(); fo.Close(); fi.Close() }()
	emit := func(op map[string]interface{}) string {
		line := e.exec(op) // may add observed fields to op
		b, _ := json.Marshal(op)
		wo.Write(b)
		wo.WriteByte('\n')
		wi.WriteString(line)
		wi.WriteByte('\n')
		return line
	}
	finish := func() {
		e.drainAudit()
		e.dumpSQL()
		e.scan(out)
	}
	nameMap := map[string]string{}
	replayFile := func(fn string) {
		f, err := os.Open(fn)
		if err != nil {
			return
		}
		defer f.Close()
		sc := bufio.NewScanner(f)
		sc.Buffer(make([]byte, 1<<20), 1<<26)
		for sc.Scan() {
			var op map[string]interface{}
			if json.Unmarshal(sc.Bytes(), &op) == nil {
				switch op["op"] {
				case "kidmap", "kids", "entrypath", "save", "vaultpath", "vaultuse":
				case "apikey", "apilink", "apisignjwt", "apisignjws", "apidecrypt", "apiencval": // REST wrapper leg (crypto/api/v1 harness)
				case "configure": // wiring leg (zz_verif_c03cfg_test.go)
				case "new": // the engine draws a new uuid: remember old -> new for later link ops
					old, _ := op["keyName"].(string)
					emit(op)
					if n, _ := op["keyName"].(string); old != "" && n != "" {
						nameMap[old] = n
					}
				case "link":
					if n, ok := nameMap[fmt.Sprint(op["keyName"])]; ok {
						op["keyName"] = n
					}
					emit(op)
				default:
					emit(op)
				}
			}
		}
	}
	emit(map[string]interface{}{"op": "reset"})
	if rp := os.Getenv("VERIF_REPLAY"); rp != "" {
		replayFile(rp)
		finish()
		return
	}
	if cd := os.Getenv("VERIF_CORPUS"); cd != "" {
		files, _ := filepath.Glob(filepath.Join(cd, "*.jsonl"))
		sort.Strings(files)
		for _, fn := range files {
			replayFile(fn)
			emit(map[string]interface{}{"op": "reset"})
		}
	}

	// ---- (b) key store state machine
	kids := []string{"did:a#1", "did:b#1", "did:web:x%3A80:iam:u#0", "legacy key", "k3", "../kid", "",
		"did:a#10", "DID:A#1", "k", "did:_#1", "did:%", "did:a#1 "}
	badNames := []string{"missing-name", "../escape", "..", ".", "a/b", "%2e%2e", "/etc/passwd", "..%2Fx", "x\x00y", ""}
	nSeq, nOps := 36, 70
	if thorough {
		nSeq, nOps = 400, 120
	}
	for s := 0; s < nSeq; s++ {
		emit(map[string]interface{}{"op": "reset"})
		var names []string // key names the engine drew / that were planted in this sequence
		pick := func(l []string) string { return l[r.Intn(len(l))] }
		legacy := []string{"did:nuts:legacy#k1", "legacy key", "did:web:x%3A80:iam:u#0", "../escape", "..", "a/b", "k3"}
		anyKid := func(extra ...string) string { // kids, aliases, and (Migrate makes them kids) key names
			l := append(append([]string{}, kids...), extra...)
			if len(names) > 0 && r.Intn(5) == 0 {
				return pick(names)
			}
			return pick(l)
		}
		anyName := func() string {
			if len(names) > 0 && r.Intn(3) != 0 {
				return pick(names)
			}
			return pick(badNames)
		}
		for i := 0; i < nOps; i++ {
			x := r.Intn(100)
			switch {
			case x < 18 || i == 0:
				op := map[string]interface{}{"op": "new", "kid": pick(kids)}
				if r.Intn(8) == 0 {
					op["kid"] = nil
				}
				emit(op)
				if n, _ := op["keyName"].(string); n != "" {
					names = append(names, n)
				}
			case x < 24:
				n := pick(legacy)
				if r.Intn(2) == 0 {
					n = "imported-" + strconv.Itoa(r.Intn(4))
				}
				if emit(map[string]interface{}{"op": "plant", "keyName": n, "ktype": pick([]string{"ec", "rsa", "ed", "rsa", "ed"})}) == "plant ok key=K"+strconv.Itoa(len(e.pubKeys)-1) {
					names = append(names, n)
				}
			case x < 30:
				k := anyKid()
				if r.Intn(3) == 0 {
					k = "alias" + strconv.Itoa(r.Intn(3))
				}
				emit(map[string]interface{}{"op": "link", "kid": k, "keyName": anyName(), "version": pick([]string{"1", "1", "2", ""})})
			case x < 40:
				emit(map[string]interface{}{"op": "delete", "kid": anyKid("alias0", "alias1", "nobody")})
			case x < 62:
				emit(map[string]interface{}{"op": "sign", "how": pick([]string{"jws", "jwt", "dpop"}), "kid": anyKid("alias0", "alias1", "alias2", "nobody")})
			case x < 70:
				emit(map[string]interface{}{"op": "resolve", "kid": anyKid("alias0", "alias1", "nobody")})
			case x < 74:
				emit(map[string]interface{}{"op": "exists", "kid": pick(append(kids, "alias0", "nobody"))})
			case x < 78:
				emit(map[string]interface{}{"op": "list"})
			case x < 82:
				emit(map[string]interface{}{"op": "files"})
			case x < 90:
				var ecs []int // ECIES encrypts to ECDSA keys only
				for i, pk := range e.pubKeys {
					if _, ok := pk.(*ecdsa.PublicKey); ok {
						ecs = append(ecs, i)
					}
				}
				if len(ecs) > 0 {
					emit(map[string]interface{}{"op": "decrypt", "kid": anyKid("alias0", "alias1", "nobody"), "encFor": ecs[r.Intn(len(ecs))]})
				}
			case x < 96:
				var encs []int // JWE: ECDSA and RSA recipients
				for i, pk := range e.pubKeys {
					if _, ok := pk.(ed25519.PublicKey); !ok {
						encs = append(encs, i)
					}
				}
				if len(encs) > 0 {
					emit(map[string]interface{}{"op": "decryptjwe", "kid": anyKid("alias0", "nobody"), "encFor": encs[r.Intn(len(encs))]})
				}
			default:
				emit(map[string]interface{}{"op": "migrate"})
			}
		}
		emit(map[string]interface{}{"op": "list"})
		emit(map[string]interface{}{"op": "files"})
		// every kid ever used: who signs for it now
		for _, k := range append(append([]string{}, kids...), append([]string{"alias0", "alias1", "alias2"}, names...)...) {
			emit(map[string]interface{}{"op": "sign", "how": "jws", "kid": k})
			emit(map[string]interface{}{"op": "resolve", "kid": k})
		}
		// the same DPoP token signed for two or three kids in a row, with and without a jwk the caller pre-set on it
		for n := 0; n < 4; n++ {
			kl := []interface{}{anyKid("alias0", "nobody"), anyKid("alias1")}
			if r.Intn(3) == 0 {
				kl = append(kl, anyKid("alias0"))
			}
			emit(map[string]interface{}{"op": "dpopseq", "kids": kl, "preset": pick([]string{"", "", "ecPriv", "ecPub", "rsaPriv", "edPriv", "ec384Priv"})})
		}
		// every planted / drawn key name (Migrate made them kids): all operations incl. Decrypt with keys of every type
		emit(map[string]interface{}{"op": "migrate"})
		var ec0 = -1
		for i, pk := range e.pubKeys {
			if _, ok := pk.(*ecdsa.PublicKey); ok {
				ec0 = i
				break
			}
		}
		for _, k := range names {
			for _, how := range []string{"jws", "jwt", "dpop"} {
				emit(map[string]interface{}{"op": "sign", "how": how, "kid": k})
			}
			emit(map[string]interface{}{"op": "resolve", "kid": k})
			emit(map[string]interface{}{"op": "exists", "kid": k})
			if ec0 >= 0 {
				emit(map[string]interface{}{"op": "decrypt", "kid": k, "encFor": ec0})
				emit(map[string]interface{}{"op": "decryptjwe", "kid": k, "encFor": ec0})
			}
		}
		for _, k := range names {
			if r.Intn(2) == 0 {
				emit(map[string]interface{}{"op": "delete", "kid": k})
				emit(map[string]interface{}{"op": "sign", "how": "jws", "kid": k})
			}
		}
	}

	// ---- (c) header handling
	emit(map[string]interface{}{"op": "reset"})
	emit(map[string]interface{}{"op": "new", "kid": "did:hdr#1"})
	for _, j := range e.jwks {
		emit(map[string]interface{}{"op": "jwkclass", "id": j.id, "raw": j.raw})
	}
	hnames := []string{"kid", "typ", "cty", "alg", "jwk", "crit", "x5c", "jku", "x5t", "custom", "nonce", "x5t#S256", "x5u"}
	mkVal := func(n string) map[string]interface{} {
		m := map[string]interface{}{"n": n}
		x := r.Intn(10)
		switch {
		case n == "jwk" && x < 8:
			j := e.jwks[r.Intn(len(e.jwks))]
			m["k"], m["raw"], m["id"] = "jwk", j.raw, j.id
		case n == "alg" && x < 7:
			m["k"], m["v"] = "str", []string{"ES256", "RS256", "none", "HS256", "bogus", "EdDSA"}[r.Intn(6)]
		case n == "crit" && x < 7:
			m["k"] = "strlist"
		case x < 6:
			m["k"], m["v"] = "str", []string{"x", "did:other#9", "JWT", "application/json"}[r.Intn(4)]
		case x < 7:
			m["k"] = "strlist"
		default:
			m["k"], m["ty"] = "other", []string{"float64", "bool", "map", "list"}[r.Intn(4)]
		}
		return m
	}
	nHdr := 2500
	if thorough {
		nHdr = 40000
	}
	// every jwk kind alone and with a kid, through every entry point
	for _, j := range e.jwks {
		for _, via := range []string{"pkg", "store", "memory"} {
			for _, o := range []string{"signjws", "signjwt"} {
				kid := map[string]string{"pkg": "caller-kid", "store": "did:hdr#1", "memory": "mem#1"}[via]
				hs := []interface{}{map[string]interface{}{"n": "jwk", "k": "jwk", "raw": j.raw, "id": j.id}, map[string]interface{}{"n": "kid", "k": "str", "v": "forged"}}
				emit(map[string]interface{}{"op": o, "via": via, "found": true, "kid": kid, "headers": hs, "detached": false})
				emit(map[string]interface{}{"op": o, "via": via, "found": true, "kid": kid, "headers": hs[:1], "detached": true})
			}
		}
	}
	// the two in-tree callers' header shapes: JSON-LD proofs (vcr/signature: {b64:false, crit:[b64]}, detached) and
	// DAG transactions (network/dag/signing.go: cty, crit, custom headers, jwk = public key, or kid)
	for _, via := range []string{"pkg", "store", "memory"} {
		kid := map[string]string{"pkg": "caller-kid", "store": "did:hdr#1", "memory": "mem#1"}[via]
		ld := []interface{}{map[string]interface{}{"n": "b64", "k": "other", "ty": "boolfalse"}, map[string]interface{}{"n": "crit", "k": "strlist", "v": "b64"}}
		emit(map[string]interface{}{"op": "signjws", "via": via, "found": true, "kid": kid, "headers": ld, "detached": true})
		for _, j := range e.jwks {
			dag := []interface{}{map[string]interface{}{"n": "cty", "k": "str", "v": "application/did+json"}, map[string]interface{}{"n": "crit", "k": "strlist"},
				map[string]interface{}{"n": "sigt", "k": "other", "ty": "float64"}, map[string]interface{}{"n": "prevs", "k": "other", "ty": "list"},
				map[string]interface{}{"n": "jwk", "k": "jwk", "raw": j.raw, "id": j.id}}
			emit(map[string]interface{}{"op": "signjws", "via": via, "found": true, "kid": kid, "headers": dag, "detached": false})
			emit(map[string]interface{}{"op": "signjws", "via": via, "found": true, "kid": kid, "headers": append(append([]interface{}{}, ld...), dag[4]), "detached": true})
		}
	}
	for i := 0; i < nHdr; i++ {
		var hs []interface{}
		used := map[string]bool{}
		for k, n := 0, r.Intn(5); k < n; k++ {
			name := hnames[r.Intn(len(hnames))]
			if used[name] {
				continue
			}
			used[name] = true
			hs = append(hs, mkVal(name))
		}
		if r.Intn(3) == 0 && !used["jwk"] {
			hs = append(hs, mkVal("jwk"))
		}
		via := []string{"pkg", "store", "memory"}[r.Intn(3)]
		kid, found := "caller-kid", true
		switch via {
		case "store":
			kid = "did:hdr#1"
			if r.Intn(6) == 0 {
				kid, found = "nobody", false
			}
		case "memory":
			kid = "mem#1"
			if r.Intn(6) == 0 {
				kid, found = "other#2", false
			}
		}
		o := "signjws"
		if r.Intn(3) == 0 {
			o = "signjwt"
		}
		if hs == nil {
			hs = []interface{}{}
		}
		emit(map[string]interface{}{"op": o, "via": via, "found": found, "kid": kid, "headers": hs, "detached": r.Intn(4) == 0})
	}
	// the in-memory signer's own kid guard: named / unnamed key x requested kids (own id, empty, sibling spellings, a victim's kid)
	for _, memID := range []string{"mem#1", ""} {
		for _, kid := range []string{"mem#1", "", "other#2", "did:web:example.com:iam:victim#0", "MEM#1", "mem#1 ", "mem", "did:hdr#1"} {
			for _, o := range []string{"signjws", "signjwt"} {
				for _, hs := range [][]interface{}{{}, {map[string]interface{}{"n": "kid", "k": "str", "v": "did:web:example.com:iam:victim#0"}}} {
					emit(map[string]interface{}{"op": o, "via": "memory", "memKeyId": memID, "kid": kid, "headers": hs, "detached": o == "signjws" && kid == ""})
				}
			}
		}
	}
	finish()
	_ = big.NewInt
}
