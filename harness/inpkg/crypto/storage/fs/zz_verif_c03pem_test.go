//go:build verif

package fs

// C03 harness (deepening round 3) — crypto/util/pem.go: PemToPrivateKey / PemToPublicKey on DER bodies of every key kind
// wrapped in every block type (op "pemclass", executed by the fs leg). The x509 parsers' answers are inputs of the model:
// the harness obtains them by calling the parser that belongs to the block type on the same DER.

import (
	"crypto/ecdh"
	"crypto/ecdsa"
	"crypto/ed25519"
	"crypto/elliptic"
	crand "crypto/rand"
	"crypto/rsa"
	"crypto/x509"
	"encoding/pem"
	"errors"
	"fmt"
	"sync"

	"github.com/nuts-foundation/nuts-node/crypto/util"
)

var c03PemDerKinds = []string{"ecpkcs8", "ecsec1", "rsapkcs1", "rsapkcs8", "edpkcs8", "x25519pkcs8", "ecpkix", "rsapkcs1pub", "garbage", "nopem"}
var c03PemBlocks = []string{"PRIVATE KEY", "EC PRIVATE KEY", "RSA PRIVATE KEY", "PUBLIC KEY", "RSA PUBLIC KEY", "CERTIFICATE", "private key", "ENCRYPTED PRIVATE KEY", ""}

var c03PemOnce sync.Once
var c03PemDer map[string][]byte

func c03PemInit() {
	c03PemOnce.Do(func() {
		c03PemDer = map[string][]byte{}
		ec, _ := ecdsa.GenerateKey(elliptic.P256(), crand.Reader)
		rk, _ := rsa.GenerateKey(crand.Reader, 1024)
		_, ed, _ := ed25519.GenerateKey(crand.Reader)
		xk, _ := ecdh.X25519().GenerateKey(crand.Reader)
		c03PemDer["ecpkcs8"], _ = x509.MarshalPKCS8PrivateKey(ec)
		c03PemDer["ecsec1"], _ = x509.MarshalECPrivateKey(ec)
		if rk != nil {
			c03PemDer["rsapkcs1"] = x509.MarshalPKCS1PrivateKey(rk)
			c03PemDer["rsapkcs8"], _ = x509.MarshalPKCS8PrivateKey(rk)
			c03PemDer["rsapkcs1pub"] = x509.MarshalPKCS1PublicKey(&rk.PublicKey)
		}
		c03PemDer["edpkcs8"], _ = x509.MarshalPKCS8PrivateKey(ed)
		c03PemDer["x25519pkcs8"], _ = x509.MarshalPKCS8PrivateKey(xk)
		c03PemDer["ecpkix"], _ = x509.MarshalPKIXPublicKey(&ec.PublicKey)
		c03PemDer["garbage"] = []byte{0x30, 0x03, 0x02, 0x01, 0x00}
	})
}

func c03PemParsed(v interface{}, err error) string {
	if err != nil {
		return "err"
	}
	return fmt.Sprintf("ok:%T", v)
}

// what the parser belonging to the block type says about the DER (input of the model)
func c03PemInputs(der, block string) (priv, pub string) {
	c03PemInit()
	d := c03PemDer[der]
	priv, pub = "err", "err"
	switch block {
	case "RSA PRIVATE KEY":
		priv = c03PemParsed(x509.ParsePKCS1PrivateKey(d))
	case "EC PRIVATE KEY":
		priv = c03PemParsed(x509.ParseECPrivateKey(d))
	case "PRIVATE KEY":
		priv = c03PemParsed(x509.ParsePKCS8PrivateKey(d))
	case "PUBLIC KEY":
		pub = c03PemParsed(x509.ParsePKIXPublicKey(d))
	case "RSA PUBLIC KEY":
		pub = c03PemParsed(x509.ParsePKCS1PublicKey(d))
	}
	return
}

func c03PemClass(der, block string) string {
	c03PemInit()
	var blob []byte
	if der == "nopem" || block == "" {
		blob = []byte("-----BEGIN NOTHING\nno pem block in here\n")
	} else {
		blob = pem.EncodeToMemory(&pem.Block{Type: block, Bytes: c03PemDer[der]})
	}
	cls := func(v interface{}, isNil bool, err error, wrong error) string {
		switch {
		case err != nil && errors.Is(err, wrong):
			return "wrong-key"
		case err != nil:
			return "parse-err"
		case isNil:
			return "nil-nil"
		}
		return fmt.Sprintf("key:%T", v)
	}
	s, err := util.PemToPrivateKey(blob)
	p := cls(s, s == nil, err, util.ErrWrongPrivateKey)
	k, err2 := util.PemToPublicKey(blob)
	q := cls(k, k == nil, err2, util.ErrWrongPublicKey)
	return "pemclass priv=" + p + " pub=" + q
}
