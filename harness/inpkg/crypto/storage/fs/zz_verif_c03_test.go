//go:build verif

package fs

// C03 correspondence harness, part 1 (injected with `go test -overlay`; never lives in /repo):
// key-name validation (the REAL spi wrapper with spi.KidPattern) and the REAL file system backend.
//   kidmap    — accept bitmap of prefix+b for b = 0..255 (exhaustive 1/2(/3)-byte strings)
//   kids      — accept bits of generated path-like / percent-encoded / unicode names
//   entrypath — fileSystemBackend{dir}.getEntryPath(kid) as a string (pure; any bytes)
//   save      — wrapper(real backend in a temp dir).SavePrivateKey, where did the file land, delete again
// Writes fs_ops.jsonl / fs_impl.out under VERIF_OUT.

import (
	"bufio"
	"context"
	"crypto"
	"encoding/hex"
	"encoding/json"
	"fmt"
	"math/rand"
	"os"
	"path/filepath"
	"sort"
	"strconv"
	"strings"
	"testing"

	"github.com/nuts-foundation/nuts-node/core"
	"github.com/nuts-foundation/nuts-node/crypto/storage/spi"
)

type c03Stub struct{}

func (c03Stub) Name() string                                                     { return "stub" }
func (c03Stub) CheckHealth() map[string]core.Health                              { return nil }
func (c03Stub) NewPrivateKey(context.Context, string) (crypto.PublicKey, string, error) { return nil, "", nil }
func (c03Stub) GetPrivateKey(context.Context, string, string) (crypto.Signer, error)    { return nil, nil }
func (c03Stub) PrivateKeyExists(context.Context, string, string) (bool, error)          { return false, nil }
func (c03Stub) SavePrivateKey(context.Context, string, crypto.PrivateKey) error         { return nil }
func (c03Stub) ListPrivateKeys(context.Context) []spi.KeyNameVersion                    { return nil }
func (c03Stub) DeletePrivateKey(context.Context, string) error                          { return nil }

type c03Env struct {
	root     string
	validate spi.Storage   // the real wrapper around a stub: only validateKID runs
	listSeq  int
	backends []spi.Storage // the real wrapper around real fs backends (different spellings of root/keys)
	key      crypto.PrivateKey
}

func c03Accept(env *c03Env, name string) bool {
	_, err := env.validate.PrivateKeyExists(context.Background(), name, "1")
	return err == nil
}

func c03Files(root string) []string {
	var r []string
	_ = filepath.Walk(root, func(p string, info os.FileInfo, err error) error {
		if err == nil && !info.IsDir() {
			rel, _ := filepath.Rel(root, p)
			r = append(r, rel)
		}
		return nil
	})
	sort.Strings(r)
	return r
}

// files outside <root>/keys that hold a PEM private key (relative names, hex)
func c03KeyFilesOutside(root string) string {
	var l []string
	for _, f := range c03Files(root) {
		if strings.HasPrefix(f, "keys/") {
			continue
		}
		if b, err := os.ReadFile(filepath.Join(root, f)); err == nil && strings.Contains(string(b), "PRIVATE KEY") {
			l = append(l, filepath.Dir(f)+"/PEM")
		}
	}
	sort.Strings(l)
	if len(l) > 3 {
		l = l[:3]
	}
	return strings.Join(l, ",")
}

func c03Exec(env *c03Env, op map[string]interface{}) (line string) {
	defer func() {
		if r := recover(); r != nil {
			line = fmt.Sprintf("%v panic:%v", op["op"], r)
		}
	}()
	str := func(k string) string { s, _ := op[k].(string); return s }
	unhex := func(k string) string { b, _ := hex.DecodeString(str(k)); return string(b) }
	switch str("op") {
	case "kidmap":
		p := unhex("prefix")
		var sb strings.Builder
		for i := 0; i < 256; i += 4 {
			n := 0
			for j := 0; j < 4; j++ {
				n <<= 1
				if c03Accept(env, p+string([]byte{byte(i + j)})) {
					n |= 1
				}
			}
			sb.WriteString(strconv.FormatInt(int64(n), 16))
		}
		return "kidmap " + str("prefix") + " " + sb.String()
	case "kids":
		names, _ := op["names"].([]interface{})
		var sb strings.Builder
		for _, n := range names {
			b, _ := hex.DecodeString(n.(string))
			if c03Accept(env, string(b)) {
				sb.WriteByte('1')
			} else {
				sb.WriteByte('0')
			}
		}
		return "kids " + sb.String()
	case "pemclass":
		return c03PemClass(str("der"), str("block"))
	case "entrypath":
		return "entrypath " + hex.EncodeToString([]byte(fileSystemBackend{fspath: unhex("dir")}.getEntryPath(unhex("kid"), privateKeyEntry)))
	case "listnames":
		// a fresh key directory holding the given regular files (relative paths, sub-directories allowed): what the REAL
		// ListPrivateKeys makes of it
		env.listSeq++
		dir := filepath.Join(env.root, fmt.Sprintf("list%d", env.listSeq))
		defer os.RemoveAll(dir)
		be, err := NewFileSystemBackend(dir)
		if err != nil {
			return "listnames backend-error"
		}
		fl, _ := op["files"].([]interface{})
		for _, fv := range fl {
			fs_, _ := fv.(string)
			b, _ := hex.DecodeString(fs_)
			pth := filepath.Join(dir, string(b))
			if err := os.MkdirAll(filepath.Dir(pth), 0o700); err != nil {
				return "listnames cannot-create:" + err.Error()
			}
			if err := os.WriteFile(pth, []byte("x"), 0o600); err != nil {
				return "listnames cannot-create:" + err.Error()
			}
		}
		var names []string
		for _, kv := range be.ListPrivateKeys(context.Background()) {
			if kv.Version != "1" {
				names = append(names, "VERSION="+kv.Version)
			}
			names = append(names, "n:"+hex.EncodeToString([]byte(kv.KeyName)))
		}
		sort.Strings(names)
		return "listnames [" + strings.Join(names, ",") + "]"
	case "save":
		kid := unhex("kid")
		bi := 0
		switch x := op["b"].(type) {
		case float64:
			bi = int(x)
		case int:
			bi = x
		}
		be := env.backends[bi%len(env.backends)]
		before := c03Files(env.root)
		err := be.SavePrivateKey(context.Background(), kid, env.key)
		after := c03Files(env.root)
		if err != nil {
			cls := "other:" + err.Error()
			if strings.Contains(err.Error(), "invalid key ID") {
				cls = "invalid-key-id"
			}
			if len(after) != len(before) {
				cls += " BUT-FILES-CHANGED"
			}
			return "save err:" + cls
		}
		seen := map[string]bool{}
		for _, f := range before {
			seen[f] = true
		}
		var created []string
		for _, f := range after {
			if !seen[f] {
				created = append(created, filepath.Dir(f)+"/"+hex.EncodeToString([]byte(filepath.Base(f))))
			}
		}
		res := "save ok file=" + strings.Join(created, ",")
		// fault 1: the name is taken now — a second save must fail and leave NO file anywhere (key dir, temp dir, sandbox)
		mid := c03Files(env.root)
		if err2 := be.SavePrivateKey(context.Background(), kid, env.key); err2 == nil {
			res += " SECOND-SAVE-OVERWROTE-THE-KEY"
		} else if now := c03Files(env.root); len(now) != len(mid) {
			res += " FAILED-SAVE-LEFT-KEY-MATERIAL-OUTSIDE-KEY-DIR:" + c03KeyFilesOutside(env.root)
		}
		// fault 2: the key directory is gone — the save must fail and leave no file
		if gone, gerr := NewFileSystemBackend(filepath.Join(env.root, "gone", "keys")); gerr == nil {
			_ = os.RemoveAll(filepath.Join(env.root, "gone"))
			mid2 := c03Files(env.root)
			if err3 := spi.NewValidatedKIDBackendWrapper(gone, spi.KidPattern).SavePrivateKey(context.Background(), kid, env.key); err3 == nil {
				_ = os.RemoveAll(filepath.Join(env.root, "gone"))
			} else if now := c03Files(env.root); len(now) != len(mid2) {
				res += " FAILED-SAVE-LEFT-KEY-MATERIAL-OUTSIDE-KEY-DIR:" + c03KeyFilesOutside(env.root)
			}
		}
		for _, f := range c03Files(filepath.Join(env.root, "tmpdir")) {
			_ = os.Remove(filepath.Join(env.root, "tmpdir", f))
		}
		// the same name must find it and delete it again
		if ok, err := be.PrivateKeyExists(context.Background(), kid, "1"); !ok || err != nil {
			res += " NOT-FOUND-AGAIN"
		}
		if _, err := be.GetPrivateKey(context.Background(), kid, "1"); err != nil {
			res += " NOT-READABLE"
		}
		if err := be.DeletePrivateKey(context.Background(), kid); err != nil || len(c03Files(env.root)) != len(before) {
			res += " DELETE-FAILED"
		}
		return res
	}
	return "bad-op:" + str("op")
}

// ---- generators

const c03Alpha = "abcdefghijklmnopqrstuvwxyzABCDEFGHIJKLMNOPQRSTUVWXYZ0123456789_- :#."

var c03Hostile = []string{"/", "\\", "\x00", "%", "\n", "\t", "\r", "\x7f", "\x80", "\xff", "\xc0\xaf", "\xe2\x88\x95", "\xef\xbc\x8f", "\xef\xbc\x8e", "é", "€", "\u202e", "\u0301",
	"*", "?", "~", "$", "&", "|", ";", "'", "\"", "<", ">", "(", ")", "=", "+", ",", "@", "!", "`", "{", "}", "[", "]", "^"}

var c03Seeds = []string{"..", ".", "...", "../x", "../../etc/passwd", "/etc/passwd", "a/b", "a/../b", "....//", ".. ", " ..", "..%2F", "%2e%2e", "%2E%2E%2F", "%2e%2e%2fx", "%zz", "%", "%1", "a%", "%%", "%25",
	"%2", "%2g", "%G0", "%0G", "%ff", "%FF", "%00", "abc\n", "\nabc", "abc ", " ", "", "\\", "\t", "a\x00b", "CON", "nul", "a:b", "C:\\x", "~", "-", "_", "#", ":", ". .", "..#", "..:", "._private.pem",
	"x_private.pem", "../x_private.pem", "admin-token-signing-key", "did:nuts:2pgo54Z3ytC5EdjBicuJPe5gHyAsjF6rVio1FadSX74j#GxL7A5XNFr_tHcBW_fKCndGGko8DKa2ivPgJAGR0krA",
	"did:web:nodeA%3A10443:iam:aa00a18b-3d6d-46fd-867b-468819437d00#0", "did:web:example.com%3A8080:iam:..%2F..%2Fetc#0", "3f1c2a9e-5b7d-4c1a-9e2f-0a1b2c3d4e5f", "did:web:example.com:iam:../x#0",
	// DID-URL-shaped names: path segments, dot segments, query
	"did:web:x/../k#0", "did:web:x/../../k#0", "did:web:x/../../tmpdir/k#0", "did:web:x/../../outside/k?versionId=1#0", "did:web:example.com/iam/123?versionId=2#0",
	"did:web:example.com%3A8080/iam/../../../k#0", "did:web:x/..#0", "did:web:x/.#0", "did:web:x/a#0", "did:web:x?y=1#0", "did:nuts:abc/../..#k", "did:web:x/..%2F..#0"}

func c03Name(r *rand.Rand) string {
	rs := func(n int) string {
		b := make([]byte, n)
		for i := range b {
			b[i] = c03Alpha[r.Intn(len(c03Alpha))]
		}
		return string(b)
	}
	pct := func() string {
		const h = "0123456789abcdefABCDEFgG:@`/ "
		return "%" + string(h[r.Intn(len(h))]) + string(h[r.Intn(len(h))])
	}
	if r.Intn(10) == 0 { // DID URL shape: did:<method>:<id>(/<segment>)*[?query]#fragment with dot segments among the segments
		s := "did:" + []string{"web", "nuts", "x509", "key"}[r.Intn(4)] + ":" + []string{"x", "example.com", "example.com%3A8080", "a:b"}[r.Intn(4)]
		for i, n := 0, r.Intn(5); i < n; i++ {
			s += "/" + []string{"..", "..", ".", "iam", "tmpdir", "keys", "k", "%2e%2e", ""}[r.Intn(9)]
		}
		if r.Intn(3) == 0 {
			s += "?" + []string{"versionId=1", "a=b&c=d", ""}[r.Intn(3)]
		}
		return s + "#" + []string{"0", "k", "key-1", ""}[r.Intn(4)]
	}
	switch r.Intn(10) {
	case 0:
		return c03Seeds[r.Intn(len(c03Seeds))]
	case 1: // seed with one byte changed / inserted / removed
		s := []byte(c03Seeds[r.Intn(len(c03Seeds))])
		if len(s) == 0 {
			return rs(1 + r.Intn(3))
		}
		i := r.Intn(len(s))
		switch r.Intn(3) {
		case 0:
			s[i] = byte(r.Intn(256))
		case 1:
			s = append(s[:i], append([]byte{byte(r.Intn(256))}, s[i:]...)...)
		default:
			s = append(s[:i], s[i+1:]...)
		}
		return string(s)
	case 2, 3: // only allowed characters
		return rs(1 + r.Intn(40))
	case 4: // allowed characters and percent escapes (valid and invalid)
		var sb strings.Builder
		for i, n := 0, 1+r.Intn(8); i < n; i++ {
			if r.Intn(2) == 0 {
				sb.WriteString(pct())
			} else {
				sb.WriteString(rs(1 + r.Intn(5)))
			}
		}
		return sb.String()
	case 5: // allowed characters with one hostile element somewhere
		s := rs(r.Intn(12))
		i := r.Intn(len(s) + 1)
		return s[:i] + c03Hostile[r.Intn(len(c03Hostile))] + s[i:]
	case 6: // path shaped
		parts := []string{"..", ".", "", "a", "keys", "%2e%2e", "..%2F", rs(1 + r.Intn(4))}
		seps := []string{"/", "/", "\\", "%2F", "%2f", "%5C", ":", "\xe2\x88\x95"}
		var sb strings.Builder
		for i, n := 0, 1+r.Intn(5); i < n; i++ {
			if i > 0 {
				sb.WriteString(seps[r.Intn(len(seps))])
			}
			sb.WriteString(parts[r.Intn(len(parts))])
		}
		return sb.String()
	case 7: // random bytes
		b := make([]byte, 1+r.Intn(6))
		r.Read(b)
		return string(b)
	case 8: // dots and spaces
		const d = ". _-"
		b := make([]byte, 1+r.Intn(5))
		for i := range b {
			b[i] = d[r.Intn(len(d))]
		}
		return string(b)
	default: // long
		return rs(200 + r.Intn(900))
	}
}

var c03Dirs = []string{"/data/crypto", "/data/crypto/", "data/crypto", "./data//crypto/", "/", "//", ".", "..", "../k", "a/..", "/a/../..", "", "/data/./crypto/../crypto", "a//b/./c/", "../../x/", "/..", "./", "a/b/../../..", "\x00", "a\\b"}

func TestVerifC03(t *testing.T) {
	out := os.Getenv("VERIF_OUT")
	if out == "" {
		t.Skip("VERIF_OUT not set")
	}
	seed, _ := strconv.ParseInt(os.Getenv("VERIF_SEED"), 10, 64)
	thorough := os.Getenv("VERIF_TIER") == "thorough"
	r := rand.New(rand.NewSource(seed*7919 + 3))
	root := filepath.Join(out, "sandbox_fs")
	_ = os.RemoveAll(root)
	if err := os.MkdirAll(root, 0o700); err != nil {
		t.Fatal(err)
	}
	defer os.RemoveAll(root)
	// the system temp dir is part of the watched sandbox: a key file the backend writes "temporarily" shows up in c03Files
	if err := os.MkdirAll(filepath.Join(root, "tmpdir"), 0o700); err != nil {
		t.Fatal(err)
	}
	t.Setenv("TMPDIR", filepath.Join(root, "tmpdir"))
	env := &c03Env{root: root, validate: spi.NewValidatedKIDBackendWrapper(c03Stub{}, spi.KidPattern)}
	for _, sp := range []string{root + "/keys", root + "/x/../keys/", root + "//keys/."} {
		be, err := NewFileSystemBackend(sp)
		if err != nil {
			t.Fatal(err)
		}
		env.backends = append(env.backends, spi.NewValidatedKIDBackendWrapper(be, spi.KidPattern))
	}
	kp, err := spi.GenerateKeyPair()
	if err != nil {
		t.Fatal(err)
	}
	env.key = kp

	fo, _ := os.Create(filepath.Join(out, "fs_ops.jsonl"))
	fi, _ := os.Create(filepath.Join(out, "fs_impl.out"))
	wo, wi := bufio.NewWriterSize(fo, 1<<20), bufio.NewWriterSize(fi, 1<<20)
	defer func() { wo.Flush(); wi.Flush(); fo.Close(); fi.Close() }()
	emit := func(op map[string]interface{}) {
		b, _ := json.Marshal(op)
		wo.Write(b)
		wo.WriteByte('\n')
		wi.WriteString(c03Exec(env, op))
		wi.WriteByte('\n')
	}
	replayFile := func(fn string) {
		f, err := os.Open(fn)
		if err != nil {
			return
		}
		defer f.Close()
		sc := bufio.NewScanner(f)
		sc.Buffer(make([]byte, 1<<20), 1<<26)
		for sc.Scan() {
			var op map[string]interface{}
			if json.Unmarshal(sc.Bytes(), &op) == nil {
				switch op["op"] {
				case "kidmap", "kids", "entrypath", "save", "listnames", "pemclass":
					emit(op)
				}
			}
		}
	}
	if rp := os.Getenv("VERIF_REPLAY"); rp != "" {
		replayFile(rp)
		return
	}
	if cd := os.Getenv("VERIF_CORPUS"); cd != "" {
		files, _ := filepath.Glob(filepath.Join(cd, "*.jsonl"))
		sort.Strings(files)
		for _, fn := range files {
			replayFile(fn)
		}
	}
	hx := func(s string) string { return hex.EncodeToString([]byte(s)) }
	// exhaustive: all 1-byte and 2-byte strings (3-byte in the thorough tier)
	emit(map[string]interface{}{"op": "kidmap", "prefix": ""})
	for a := 0; a < 256; a++ {
		emit(map[string]interface{}{"op": "kidmap", "prefix": hx(string([]byte{byte(a)}))})
	}
	if thorough {
		for a := 0; a < 256; a++ {
			for b := 0; b < 256; b++ {
				emit(map[string]interface{}{"op": "kidmap", "prefix": hx(string([]byte{byte(a), byte(b)}))})
			}
		}
	}
	nNames, nPaths, nSaves := 120000, 20000, 2500
	if thorough {
		nNames, nPaths, nSaves = 1500000, 200000, 20000
	}
	if v, err := strconv.Atoi(os.Getenv("VERIF_NAMES")); err == nil {
		nNames = v
	}
	// every seed name first, then generated names, in batches of 100
	var batch []interface{}
	flush := func() {
		if len(batch) > 0 {
			emit(map[string]interface{}{"op": "kids", "names": batch})
			batch = nil
		}
	}
	for _, s := range c03Seeds {
		batch = append(batch, hx(s))
	}
	flush()
	for i := 0; i < nNames; i++ {
		batch = append(batch, hx(c03Name(r)))
		if len(batch) == 100 {
			flush()
		}
	}
	flush()
	for _, s := range c03Seeds {
		for _, d := range c03Dirs {
			emit(map[string]interface{}{"op": "entrypath", "dir": hx(d), "kid": hx(s)})
		}
	}
	for i := 0; i < nPaths; i++ {
		d := c03Dirs[r.Intn(len(c03Dirs))]
		if r.Intn(4) == 0 {
			parts := []string{"..", ".", "", "a", "b", "keys"}
			var p []string
			for j, n := 0, r.Intn(6); j < n; j++ {
				p = append(p, parts[r.Intn(len(parts))])
			}
			d = strings.Join(p, "/")
			if r.Intn(2) == 0 {
				d = "/" + d
			}
		}
		emit(map[string]interface{}{"op": "entrypath", "dir": hx(d), "kid": hx(c03Name(r))})
	}
	// real file creation: every seed, then generated names (mostly accepted ones; file name must fit NAME_MAX)
	saves := 0
	try := func(s string, b int) {
		if len(s) > 200 {
			return
		}
		emit(map[string]interface{}{"op": "save", "kid": hx(s), "b": b})
		saves++
	}
	for i, s := range c03Seeds {
		try(s, i)
	}
	for saves < nSaves {
		s := c03Name(r)
		if !c03Accept(env, s) && r.Intn(8) != 0 {
			continue
		}
		try(s, r.Intn(3))
	}
	// ListPrivateKeys: trees of files — proper key files of accepted names, near misses of the suffix, the suffix alone,
	// no separator, other separators, sub-directories, other extensions
	nLists := 300
	if thorough {
		nLists = 4000
	}
	sfx := string(privateKeyEntry)
	for i := 0; i < nLists; i++ {
		seen := map[string]bool{}
		var files []interface{}
		for j, n := 0, 1+r.Intn(6); j < n; j++ {
			name := c03Name(r)
			if !c03Accept(env, name) || len(name) > 100 || strings.ContainsAny(name, "/\x00") {
				name = []string{"k", "did:a#1", "3f1c2a9e-5b7d-4c1a-9e2f-0a1b2c3d4e5f", "a", "ab", "_"}[r.Intn(6)]
			}
			var f string
			switch r.Intn(12) {
			case 0:
				f = sfx
			case 1:
				f = "_" + sfx
			case 2:
				f = name + sfx // no separator
			case 3:
				f = name + "-" + sfx
			case 4:
				f = name + "_" + sfx[:len(sfx)-1]
			case 5:
				f = name + "_" + sfx + ".bak"
			case 6:
				f = "sub/" + name + "_" + sfx
			case 7:
				f = name + "_public.pem"
			case 8:
				f = name + "__" + sfx
			default:
				f = name + "_" + sfx
			}
			if f == "" || seen[strings.ToLower(f)] || seen[strings.ToLower(filepath.Base(f))] {
				continue
			}
			seen[strings.ToLower(f)], seen[strings.ToLower(filepath.Base(f))] = true, true
			files = append(files, hx(f))
		}
		if files == nil {
			files = []interface{}{}
		}
		emit(map[string]interface{}{"op": "listnames", "files": files})
	}
	// the PEM codec: every DER kind in every block type
	for _, der := range c03PemDerKinds {
		for _, block := range c03PemBlocks {
			pi, qi := c03PemInputs(der, block)
			emit(map[string]interface{}{"op": "pemclass", "der": der, "block": block, "privParsed": pi, "pubParsed": qi})
		}
	}
}
