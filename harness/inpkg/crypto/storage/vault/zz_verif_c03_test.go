//go:build verif

package vault

// C03 correspondence harness, part 2: the Vault backend's path construction (pure function privateKeyPath) together
// with the REAL validating wrapper. Writes vault_ops.jsonl / vault_impl.out under VERIF_OUT.
// Direct oracle (evaluated by props/C03.py on vault_impl.out): an accepted name must map to
// <clean prefix>/nuts-private-keys/<name>.

import (
	"bufio"
	"context"
	"crypto"
	"encoding/hex"
	"encoding/json"
	"fmt"
	"math/rand"
	"os"
	"path/filepath"
	"sort"
	"strconv"
	"strings"
	"testing"

	vault "github.com/hashicorp/vault/api"
	"github.com/nuts-foundation/nuts-node/core"
	"github.com/nuts-foundation/nuts-node/crypto/storage/spi"
)

type c03Stub struct{}

func (c03Stub) Name() string                                                            { return "stub" }
func (c03Stub) CheckHealth() map[string]core.Health                                     { return nil }
func (c03Stub) NewPrivateKey(context.Context, string) (crypto.PublicKey, string, error) { return nil, "", nil }
func (c03Stub) GetPrivateKey(context.Context, string, string) (crypto.Signer, error)    { return nil, nil }
func (c03Stub) PrivateKeyExists(context.Context, string, string) (bool, error)          { return false, nil }
func (c03Stub) SavePrivateKey(context.Context, string, crypto.PrivateKey) error         { return nil }
func (c03Stub) ListPrivateKeys(context.Context) []spi.KeyNameVersion                    { return nil }
func (c03Stub) DeletePrivateKey(context.Context, string) error                          { return nil }

var c03Wrapped = spi.NewValidatedKIDBackendWrapper(c03Stub{}, spi.KidPattern)

// a recording Vault client: every path the REAL vaultKVStorage methods send to Vault
type c03Client struct {
	store map[string]map[string]interface{}
	paths *[]string
}

func (c c03Client) ReadWithContext(_ context.Context, path string) (*vault.Secret, error) {
	*c.paths = append(*c.paths, path)
	if d, ok := c.store[path]; ok {
		return &vault.Secret{Data: d}, nil
	}
	return nil, nil
}
func (c c03Client) WriteWithContext(_ context.Context, path string, data map[string]interface{}) (*vault.Secret, error) {
	*c.paths = append(*c.paths, path)
	c.store[path] = data
	return &vault.Secret{Data: data}, nil
}
func (c c03Client) ReadWithDataWithContext(_ context.Context, path string, _ map[string][]string) (*vault.Secret, error) {
	*c.paths = append(*c.paths, path)
	return &vault.Secret{Data: c.store[path]}, nil
}
func (c c03Client) DeleteWithContext(_ context.Context, path string) (*vault.Secret, error) {
	*c.paths = append(*c.paths, path)
	delete(c.store, path)
	return &vault.Secret{}, nil
}

var c03Key, _ = spi.GenerateKeyPair()

// Save, Exists, Get, Delete of one key name through the REAL wrapper around the REAL vaultKVStorage
func c03Use(prefix, kid string) string {
	var paths []string
	cl := c03Client{store: map[string]map[string]interface{}{}, paths: &paths}
	be := spi.NewValidatedKIDBackendWrapper(vaultKVStorage{config: Config{PathPrefix: prefix}, client: cl}, spi.KidPattern)
	ctx := context.Background()
	cls := func(err error) string {
		switch {
		case err == nil:
			return "ok"
		case strings.Contains(err.Error(), "invalid key ID"):
			return "invalid-key-id"
		}
		return "other"
	}
	var res []string
	res = append(res, cls(be.SavePrivateKey(ctx, kid, c03Key)))
	ok, err := be.PrivateKeyExists(ctx, kid, "1")
	res = append(res, fmt.Sprintf("%s/%v", cls(err), ok))
	k, err := be.GetPrivateKey(ctx, kid, "1")
	same := k != nil && k.Public().(interface{ Equal(crypto.PublicKey) bool }).Equal(c03Key.Public())
	res = append(res, fmt.Sprintf("%s/%v", cls(err), same))
	res = append(res, cls(be.DeletePrivateKey(ctx, kid)))
	var hp []string
	for _, p := range paths {
		hp = append(hp, hex.EncodeToString([]byte(p)))
	}
	left := len(cl.store)
	return fmt.Sprintf("vaultuse res=%s paths=[%s] left=%d", strings.Join(res, ","), strings.Join(hp, ","), left)
}

func c03Exec(op map[string]interface{}) (line string) {
	defer func() {
		if r := recover(); r != nil {
			line = fmt.Sprintf("%v panic:%v", op["op"], r)
		}
	}()
	str := func(k string) string { s, _ := op[k].(string); return s }
	unhex := func(k string) string { b, _ := hex.DecodeString(str(k)); return string(b) }
	if str("op") == "vaultuse" {
		return c03Use(unhex("prefix"), unhex("kid"))
	}
	if str("op") != "vaultpath" {
		return "bad-op:" + str("op")
	}
	kid := unhex("kid")
	acc := "1"
	if _, err := c03Wrapped.PrivateKeyExists(context.Background(), kid, "1"); err != nil {
		acc = "0"
	}
	return "vaultpath acc=" + acc + " " + hex.EncodeToString([]byte(privateKeyPath(unhex("prefix"), kid)))
}

const c03Alpha = "abcdefghijklmnopqrstuvwxyzABCDEFGHIJKLMNOPQRSTUVWXYZ0123456789_- :#."

var c03Seeds = []string{"..", ".", "...", "../x", "../../etc/passwd", "/etc/passwd", "a/b", "a/../b", "a/", "a//", "/", "//", "", ".. ", " ..", "..%2F", "%2e%2e", "%2E%2E%2F", "%2e", "%", "a%", "abc\n", " ", "\\",
	"a\x00b", "..#", "..:", "-", "x", "admin-token-signing-key", "did:nuts:2pgo54Z3ytC5EdjBicuJPe5gHyAsjF6rVio1FadSX74j#GxL7A5XNFr", "did:web:nodeA%3A10443:iam:aa00a18b#0", "3f1c2a9e-5b7d-4c1a-9e2f-0a1b2c3d4e5f"}

var c03Prefixes = []string{"kv", "kv/", "/kv", "secret/data", "a/../kv", "./kv", "kv//x/", "..", "."}

func c03Name(r *rand.Rand) string {
	rs := func(n int) string {
		b := make([]byte, n)
		for i := range b {
			b[i] = c03Alpha[r.Intn(len(c03Alpha))]
		}
		return string(b)
	}
	switch r.Intn(6) {
	case 0:
		return c03Seeds[r.Intn(len(c03Seeds))]
	case 1:
		const d = "./ %2eE"
		b := make([]byte, 1+r.Intn(5))
		for i := range b {
			b[i] = d[r.Intn(len(d))]
		}
		return string(b)
	case 2:
		parts := []string{"..", ".", "", "a", "%2e%2e", rs(1 + r.Intn(4))}
		var p []string
		for i, n := 0, 1+r.Intn(4); i < n; i++ {
			p = append(p, parts[r.Intn(len(parts))])
		}
		return strings.Join(p, "/")
	case 3:
		b := make([]byte, 1+r.Intn(4))
		r.Read(b)
		return string(b)
	default:
		return rs(1 + r.Intn(30))
	}
}

func TestVerifC03(t *testing.T) {
	out := os.Getenv("VERIF_OUT")
	if out == "" {
		t.Skip("VERIF_OUT not set")
	}
	seed, _ := strconv.ParseInt(os.Getenv("VERIF_SEED"), 10, 64)
	thorough := os.Getenv("VERIF_TIER") == "thorough"
	r := rand.New(rand.NewSource(seed*104729 + 5))
	fo, _ := os.Create(filepath.Join(out, "vault_ops.jsonl"))
	fi, _ := os.Create(filepath.Join(out, "vault_impl.out"))
	wo, wi := bufio.NewWriterSize(fo, 1<<20), bufio.NewWriterSize(fi, 1<<20)
	defer func() { wo.Flush(); wi.Flush(); fo.Close(); fi.Close() }()
	emit := func(op map[string]interface{}) {
		b, _ := json.Marshal(op)
		wo.Write(b)
		wo.WriteByte('\n')
		wi.WriteString(c03Exec(op))
		wi.WriteByte('\n')
	}
	replayFile := func(fn string) {
		f, err := os.Open(fn)
		if err != nil {
			return
		}
		defer f.Close()
		sc := bufio.NewScanner(f)
		sc.Buffer(make([]byte, 1<<20), 1<<26)
		for sc.Scan() {
			var op map[string]interface{}
			if json.Unmarshal(sc.Bytes(), &op) == nil && (op["op"] == "vaultpath" || op["op"] == "vaultuse") {
				emit(op)
			}
		}
	}
	if rp := os.Getenv("VERIF_REPLAY"); rp != "" {
		replayFile(rp)
		return
	}
	if cd := os.Getenv("VERIF_CORPUS"); cd != "" {
		files, _ := filepath.Glob(filepath.Join(cd, "*.jsonl"))
		sort.Strings(files)
		for _, fn := range files {
			replayFile(fn)
		}
	}
	hx := func(s string) string { return hex.EncodeToString([]byte(s)) }
	for _, p := range c03Prefixes {
		for _, s := range c03Seeds {
			emit(map[string]interface{}{"op": "vaultpath", "prefix": hx(p), "kid": hx(s)})
		}
	}
	for _, p := range c03Prefixes {
		for _, s := range c03Seeds {
			emit(map[string]interface{}{"op": "vaultuse", "prefix": hx(p), "kid": hx(s)})
		}
	}
	nu := 3000
	if thorough {
		nu = 40000
	}
	for i := 0; i < nu; i++ {
		emit(map[string]interface{}{"op": "vaultuse", "prefix": hx(c03Prefixes[r.Intn(len(c03Prefixes))]), "kid": hx(c03Name(r))})
	}
	n := 20000
	if thorough {
		n = 300000
	}
	for i := 0; i < n; i++ {
		emit(map[string]interface{}{"op": "vaultpath", "prefix": hx(c03Prefixes[r.Intn(len(c03Prefixes))]), "kid": hx(c03Name(r))})
	}
}
