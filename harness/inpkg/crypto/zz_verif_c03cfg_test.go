//go:build verif

package crypto

// C03 harness, part 6 (deepening round 2) — backend WIRING: the REAL NewCryptoInstance + Configure for every storage
// setting (fs, vaultkv, azure-keyvault, external, "", unknown / case / blank variants) x strict mode x constructor
// behaviour (Vault token lookup answered with data / empty data / 404 / 403 by a loopback server, bad addresses, data
// dir that is a file, Azure URL / credential type variants), then a probe call on whatever backend was installed.
// Output: cfg_ops.jsonl / cfg_impl.out. The model (NutsModel/C03/Configure.lean) interprets the regenerated switch.

import (
	"bufio"
	"context"
	"crypto/ecdsa"
	"crypto/elliptic"
	crand "crypto/rand"
	"encoding/json"
	"fmt"
	"math/rand"
	"net/http"
	"net/http/httptest"
	"net/url"
	"os"
	"path/filepath"
	"reflect"
	"sort"
	"strconv"
	"strings"
	"sync"
	"testing"
	"time"

	vaultapi "github.com/hashicorp/vault/api"
	"github.com/nuts-foundation/nuts-node/core"
	"github.com/nuts-foundation/nuts-node/storage"
)

type c03CfgSrv struct {
	mu     sync.Mutex
	lookup string // data | empty | nil | err
	reqs   []string
}

func (s *c03CfgSrv) ServeHTTP(w http.ResponseWriter, req *http.Request) {
	s.mu.Lock()
	lk := s.lookup
	s.reqs = append(s.reqs, req.Method+" "+req.URL.Path)
	s.mu.Unlock()
	if strings.HasSuffix(req.URL.Path, "/auth/token/lookup-self") {
		w.Header().Set("Content-Type", "application/json")
		switch lk {
		case "data":
			w.Write([]byte(`{"data":{"id":"tok","ttl":0}}`))
		case "empty":
			w.Write([]byte(`{"data":{}}`))
		case "nil":
			w.WriteHeader(http.StatusNotFound)
			w.Write([]byte(`{"errors":[]}`))
		default:
			w.WriteHeader(http.StatusForbidden)
			w.Write([]byte(`{"errors":["permission denied"]}`))
		}
		return
	}
	w.WriteHeader(http.StatusNotFound)
}

func (s *c03CfgSrv) drain() []string {
	s.mu.Lock()
	defer s.mu.Unlock()
	l := s.reqs
	s.reqs = nil
	return l
}

type c03CfgEnv struct {
	t      *testing.T
	engine storage.Engine
	root   string
	srv    *c03CfgSrv
	url    string
	n      int
}

func (e *c03CfgEnv) canon(s string) string {
	s = strings.ReplaceAll(s, e.url, "$SRV")
	s = strings.ReplaceAll(s, strings.TrimPrefix(e.url, "http://"), "$SRVHOST")
	s = strings.ReplaceAll(s, "\n", "\\n")
	return strings.ReplaceAll(s, e.root, "$ROOT")
}

func c03CfgStr(op map[string]interface{}, k string) string { s, _ := op[k].(string); return s }

func (e *c03CfgEnv) exec(op map[string]interface{}) (line string) {
	defer func() {
		if r := recover(); r != nil {
			line = fmt.Sprintf("configure panic:%v", r)
		}
	}()
	e.n++
	storageType := c03CfgStr(op, "storage")
	strict, _ := op["strict"].(bool)
	datadir := filepath.Join(e.root, "d"+strconv.Itoa(e.n))
	if c03CfgStr(op, "datadir") == "file" { // the data dir is a regular file: MkdirAll(<file>/crypto) fails
		_ = os.WriteFile(datadir, []byte("x"), 0o600)
	}
	addr := func(kind string) string {
		switch kind {
		case "bad":
			return "::not a url::"
		case "empty":
			return ""
		}
		return e.url
	}
	e.srv.mu.Lock()
	e.srv.lookup = c03CfgStr(op, "vLookup")
	e.srv.mu.Unlock()

	c := NewCryptoInstance(e.engine)
	c.config.Storage = storageType
	c.config.Vault.Address = addr(c03CfgStr(op, "vAddr"))
	c.config.Vault.Token = "t"
	c.config.Vault.Timeout = 2 * time.Second
	c.config.Vault.PathPrefix = "kv"
	c.config.External.Address = addr(c03CfgStr(op, "extAddr"))
	c.config.External.Timeout = 2 * time.Second
	c.config.AzureKeyVault.URL = c03CfgStr(op, "azUrl")
	c.config.AzureKeyVault.Auth.Type = c03CfgStr(op, "azCred")
	c.config.AzureKeyVault.Timeout = 50 * time.Millisecond
	e.srv.drain()
	err := c.Configure(core.ServerConfig{Datadir: datadir, Strictmode: strict})
	cfgReqs := e.srv.drain()

	// ---- inputs of the model that third-party code decides (observed AFTER Configure, on the same configuration)
	switch storageType { // only the constructor Configure may have used is evaluated
	case "fs", "":
		if _, ferr := os.Stat(filepath.Join(datadir, "crypto")); ferr != nil {
			if merr := os.MkdirAll(filepath.Join(datadir, "crypto"), 0o700); merr != nil {
				op["fsErr"] = e.canon(merr.Error())
			} else {
				os.Remove(filepath.Join(datadir, "crypto"))
			}
		}
	case "external":
		if _, perr := url.ParseRequestURI(c.config.External.Address); perr != nil {
			op["extErr"] = e.canon(perr.Error())
		}
	case "vaultkv":
		vc, verr := vaultapi.NewClient(vaultapi.DefaultConfig())
		if verr == nil && c.config.Vault.Address != "" {
			if aerr := vc.SetAddress(c.config.Vault.Address); aerr != nil {
				op["vClientErr"] = e.canon(fmt.Errorf("vault address invalid: %w", aerr).Error())
			}
		}
		if verr == nil && op["vClientErr"] == nil && c03CfgStr(op, "vLookup") == "err" {
			vc.SetToken("t")
			_, lerr := vc.Logical().ReadWithContext(context.Background(), "auth/token/lookup-self")
			if lerr != nil {
				op["vLookupErr"] = e.canon(lerr.Error())
			}
			e.srv.drain()
		}
	}

	res := "ok"
	if err != nil {
		res = "err:" + e.canon(err.Error())
	}
	if c.backend == nil {
		if len(cfgReqs) > 0 && storageType != "vaultkv" {
			res += " UNEXPECTED-REQUESTS=" + strings.Join(cfgReqs, ",")
		}
		return "configure res=" + res + " backend=nil"
	}
	// ---- what was installed
	bt := fmt.Sprintf("%T", c.backend)
	wrapped, inner := bt == "spi.wrapper", bt
	if wrapped {
		v := reflect.ValueOf(c.backend)
		for i := 0; i < v.NumField(); i++ {
			if v.Type().Field(i).Name == "wrappedBackend" {
				inner = v.Field(i).Elem().Type().String()
			}
		}
	}
	// ---- probe: one call by key name on the installed backend
	probe := "probe=skip"
	if name, ok := op["probe"].(string); ok {
		ctx := context.Background()
		before := e.files(e.root)
		_, perr := c.backend.PrivateKeyExists(ctx, name, "")
		reqs := e.srv.drain()
		if perr != nil && strings.HasPrefix(perr.Error(), "invalid key ID: ") {
			probe = fmt.Sprintf("probe=refused reqs=%d", len(reqs))
		} else {
			probe = fmt.Sprintf("probe=forwarded reqs=%d", len(reqs))
			if inner == "*fs.fileSystemBackend" {
				key, _ := ecdsa.GenerateKey(elliptic.P256(), crand.Reader)
				serr := c.backend.SavePrivateKey(ctx, name, key)
				var created []string
				for _, f := range e.files(e.root) {
					if !c03CfgIn(before, f) {
						created = append(created, f)
					}
				}
				rel := "-"
				if len(created) == 1 {
					rel, _ = filepath.Rel(datadir, created[0])
				} else if len(created) > 1 {
					rel = "MANY:" + e.canon(strings.Join(created, ","))
				}
				if serr != nil {
					rel += " SAVE-ERR=" + e.canon(serr.Error())
				}
				probe += " file=" + rel
			}
		}
		for _, q := range reqs {
			if !strings.Contains(q, "/nuts-private-keys/") && !strings.Contains(q, "/secrets/") {
				probe += " ODD-REQUEST=" + q
			}
		}
	}
	return fmt.Sprintf("configure res=%s backend=wrapped:%v inner=%s %s", res, wrapped, inner, probe)
}

func c03CfgIn(l []string, s string) bool {
	for _, x := range l {
		if x == s {
			return true
		}
	}
	return false
}

// regular files below dir
func (e *c03CfgEnv) files(dir string) []string {
	var l []string
	filepath.Walk(dir, func(p string, info os.FileInfo, err error) error {
		if err == nil && info.Mode().IsRegular() && !strings.HasPrefix(filepath.Base(p), "cfg_") {
			l = append(l, p)
		}
		return nil
	})
	sort.Strings(l)
	return l
}

func TestVerifC03Cfg(t *testing.T) {
	out := os.Getenv("VERIF_OUT")
	if out == "" {
		t.Skip("VERIF_OUT not set")
	}
	seed, _ := strconv.ParseInt(os.Getenv("VERIF_SEED"), 10, 64)
	thorough := os.Getenv("VERIF_TIER") == "thorough"
	r := rand.New(rand.NewSource(seed*7919 + 303))
	e := &c03CfgEnv{t: t, engine: storage.NewTestStorageEngine(t), root: t.TempDir(), srv: &c03CfgSrv{}}
	ts := httptest.NewServer(e.srv)
	defer ts.Close()
	e.url = ts.URL
	os.Unsetenv("VAULT_ADDR")
	os.Unsetenv("VAULT_TOKEN")

	fo, _ := os.Create(filepath.Join(out, "cfg_ops.jsonl"))
	fi, _ := os.Create(filepath.Join(out, "cfg_impl.out"))
	wo, wi := bufio.NewWriter(fo), bufio.NewWriter(fi)
	defer func() { wo.Flush(); wi.Flush(); fo.Close(); fi.Close() }()
	emit := func(op map[string]interface{}) {
		line := e.exec(op)
		b, _ := json.Marshal(op)
		wo.Write(b)
		wo.WriteByte('\n')
		wi.WriteString(line)
		wi.WriteByte('\n')
	}
	replayFile := func(fn string) {
		f, err := os.Open(fn)
		if err != nil {
			return
		}
		defer f.Close()
		sc := bufio.NewScanner(f)
		sc.Buffer(make([]byte, 1<<20), 1<<26)
		for sc.Scan() {
			var op map[string]interface{}
			if json.Unmarshal(sc.Bytes(), &op) == nil && op["op"] == "configure" {
				for _, k := range []string{"fsErr", "extErr", "vClientErr", "vLookupErr"} { // observed fields are re-observed
					delete(op, k)
				}
				emit(op)
			}
		}
	}
	if rp := os.Getenv("VERIF_REPLAY"); rp != "" {
		replayFile(rp)
		return
	}
	if cd := os.Getenv("VERIF_CORPUS"); cd != "" {
		files, _ := filepath.Glob(filepath.Join(cd, "*.jsonl"))
		sort.Strings(files)
		for _, fn := range files {
			replayFile(fn)
		}
	}

	storages := []string{"fs", "", "vaultkv", "azure-keyvault", "external", // the five the switch lists
		"FS", "fs ", " fs", "Fs", "vault", "vaultKV", "azure", "azure-keyvault ", "External", "external ", "memory", "none", "fs\x00", "f", " "}
	validNames := []string{"k1", "did:web:example.com%3A8080:iam:u#0", "3f1c2a9e-5b7d-4c1a-9e2f-0a1b2c3d4e5f", "a.b", "...", "legacy_key-1", "x y"}
	badNames := []string{"../escape", "..", ".", "a/b", "/etc/passwd", "", "x\ty", "a\x00b", "..%2Fx/", "k1\n", "é"}
	pick := func(l []string) string { return l[r.Intn(len(l))] }
	probe := func(op map[string]interface{}, azure bool) {
		switch x := r.Intn(10); {
		case x < 5 || azure: // Azure: only refused names (a forwarded call would reach the SDK's credential chain)
			op["probe"] = pick(badNames)
		default:
			op["probe"] = pick(validNames)
		}
	}
	base := func(st string, strict bool) map[string]interface{} {
		return map[string]interface{}{"op": "configure", "storage": st, "strict": strict, "vLookup": "data", "vAddr": "ok", "extAddr": "ok",
			"azUrl": "https://127.0.0.1:9/", "azCred": "default", "datadir": "ok"}
	}
	rounds := 2
	if thorough {
		rounds = 12
	}
	for round := 0; round < rounds; round++ {
		for si, st := range storages {
			reps := 1
			if si < 5 {
				reps = 5 // the storages the switch lists: more constructor variants and probes
			} else if round%4 != 0 {
				continue
			}
			for k := 0; k < 2*reps; k++ {
				strict := k%2 == 1
				// (a) everything healthy
				op := base(st, strict)
				probe(op, st == "azure-keyvault")
				emit(op)
				// (b) one constructor fault / variant relevant to this storage
				op = base(st, strict)
				switch st {
				case "fs", "":
					op["datadir"] = "file"
				case "vaultkv":
					op["vLookup"] = pick([]string{"empty", "nil", "err", "data"})
					op["vAddr"] = pick([]string{"ok", "ok", "ok", "bad"})
				case "external":
					op["extAddr"] = pick([]string{"bad", "empty", "ok"})
				case "azure-keyvault":
					op["azUrl"] = pick([]string{"", "https://127.0.0.1:9/", "https://vault.example/"})
					op["azCred"] = pick([]string{"default", "managed_identity", "bogus", "", "Default", "managed_identity "})
				default: // unknown storage names: faults everywhere must not matter
					op["datadir"], op["vLookup"], op["extAddr"], op["azUrl"] = pick([]string{"ok", "file"}), pick([]string{"data", "err"}), pick([]string{"ok", "bad"}), pick([]string{"", "https://127.0.0.1:9/"})
				}
				probe(op, st == "azure-keyvault")
				emit(op)
			}
		}
	}
}
