//go:build verif

// C19 correspondence + exploration harness for crypto/dpop (Parse, HTU, HTM, Match, strip).
// Valid DPoP proofs are built by hand (ES256 over arbitrary header/claims JSON) so that every JSON member can be
// type-confused, dropped, duplicated…; the jwx observations the Lean model takes as data are recorded next to the call.
package dpop

import (
	"crypto"
	"crypto/ecdsa"
	"crypto/elliptic"
	"crypto/rand"
	"crypto/sha256"
	"encoding/base64"
	"encoding/json"
	"fmt"
	mrand "math/rand"
	"reflect"
	"net/url"
	"os"
	"slices"
	"strings"
	"testing"
	"time"

	"github.com/lestrrat-go/jwx/v2/jwk"
	"github.com/lestrrat-go/jwx/v2/jws"
	"github.com/lestrrat-go/jwx/v2/jwt"
	"github.com/nuts-foundation/nuts-node/crypto/jwx"
)

type c19Signer struct {
	key    *ecdsa.PrivateKey
	pubJWK string
	prvJWK string
	jkt    string
}

func c19NewSigner() *c19Signer {
	k, _ := ecdsa.GenerateKey(elliptic.P256(), rand.Reader)
	pub, _ := jwk.FromRaw(k.Public())
	prv, _ := jwk.FromRaw(k)
	pb, _ := json.Marshal(pub)
	vb, _ := json.Marshal(prv)
	tp, _ := pub.Thumbprint(crypto.SHA256)
	return &c19Signer{key: k, pubJWK: string(pb), prvJWK: string(vb), jkt: base64.RawURLEncoding.EncodeToString(tp)}
}

func (s *c19Signer) compact(header, payload []byte, goodSig bool) string {
	b64 := base64.RawURLEncoding
	in := b64.EncodeToString(header) + "." + b64.EncodeToString(payload)
	h := sha256.Sum256([]byte(in))
	r, ss, _ := ecdsa.Sign(rand.Reader, s.key, h[:])
	sig := make([]byte, 64)
	r.FillBytes(sig[:32])
	ss.FillBytes(sig[32:])
	if !goodSig {
		sig[5] ^= 0x40
	}
	return in + "." + b64.EncodeToString(sig)
}

func c19RefStrip(raw string) any {
	u, err := url.Parse(raw)
	if err != nil {
		return nil
	}
	u.Scheme = "https"
	u.Host = strings.Split(u.Host, ":")[0]
	u.RawQuery = ""
	u.Fragment = ""
	return u.String()
}

func c19ParseErrKind(err error) string {
	s := err.Error()
	if !strings.HasPrefix(s, ErrInvalidDPoP.Error()+": ") {
		return "lib" // errors.Join(ErrInvalidDPoP, <jwx error>)
	}
	s = strings.TrimPrefix(s, ErrInvalidDPoP.Error()+": ")
	for _, p := range [][2]string{{"invalid number of signatures", "nsig"}, {"invalid alg", "alg"}, {"invalid type", "typ"}, {"missing jwk header", "nojwk"},
		{"invalid jwk header", "privjwk"}, {"alg does not fit jwk", "algfit"}, {"missing iat claim", "iat"}, {"missing htu claim", "missing htu"}, {"invalid htu claim", "invalid htu"},
		{"missing htm claim", "missing htm"}, {"invalid htm claim", "invalid htm"}, {"missing jti claim", "jti"}, {"jti claim too long", "jtilong"}} {
		if strings.HasPrefix(s, p[0]) {
			return p[1]
		}
	}
	return "other:" + c19Short(s, 40)
}

func c19MatchErrKind(err error) string {
	s := err.Error()
	for _, p := range []string{"jkt mismatch", "method mismatch", "url mismatch", "invalid htu", "invalid url"} {
		if strings.Contains(s, p) {
			return p
		}
	}
	return "other:" + c19Short(s, 40)
}

func c19Claim(tok jwt.Token, key string) map[string]any {
	v, ok := tok.Get(key)
	if !ok {
		return map[string]any{"has": false}
	}
	return map[string]any{"has": true, "v": v}
}

// observe what jwx says about s (the data the model takes as input); "" second result = jwx itself misbehaved
func c19Observe(s string) (map[string]any, string) {
	in := map[string]any{"jwsOk": false, "nSigs": 0, "algSupported": false, "typ": "", "hasJwk": false, "jwkPrivate": false, "algFitsKey": true, "jwtOk": false,
		"iatZero": true, "htu": map[string]any{"has": false}, "htm": map[string]any{"has": false}, "jtiLen": 0}
	res := c19Guard(func() string {
		msg, err := jws.ParseString(s)
		if err != nil {
			return "done"
		}
		in["jwsOk"] = true
		in["nSigs"] = len(msg.Signatures())
		if len(msg.Signatures()) < 1 {
			return "done"
		}
		h := msg.Signatures()[0].ProtectedHeaders()
		in["algSupported"] = slices.Contains(jwx.SupportedAlgorithms, h.Algorithm())
		in["typ"] = h.Type()
		in["hasJwk"] = h.JWK() != nil
		if h.JWK() == nil {
			return "done"
		}
		in["jwkPrivate"] = jwkIsPrivateKey(h.JWK())
		in["algFitsKey"] = jwx.AlgorithmFitsKey(h.Algorithm(), h.JWK())
		if in["algFitsKey"] == false {
			return "done"
		}
		tok, err := jwt.ParseString(s, jwt.WithKey(h.Algorithm(), h.JWK()))
		if err != nil {
			return "done"
		}
		in["jwtOk"] = true
		in["iatZero"] = tok.IssuedAt().IsZero()
		in["htu"] = c19Claim(tok, HTUKey)
		in["htm"] = c19Claim(tok, HTMKey)
		in["jtiLen"] = len(tok.JwtID())
		return "done"
	})
	if res != "done" {
		return in, res
	}
	return in, ""
}

func c19RunDpop(o *c19Out, s, jkt, method, rawURL string, tag string) {
	in, libFail := c19Observe(s)
	if libFail != "" {
		// the library itself crashed or hung on this input: exploration finding, not a model case
		o.explore("dpop.jwx", s, func() string { return libFail })
		return
	}
	urls := map[string]any{rawURL: c19RefStrip(rawURL)}
	var tok *DPoP
	parse := c19Guard(func() string {
		t, err := Parse(s)
		if err != nil {
			return "err:" + c19ParseErrKind(err)
		}
		tok = t
		return "ok"
	})
	line := "parse=" + c19Class(parse)
	tpEq := false
	if parse == "ok" && tok != nil {
		var htuVal string
		htu := c19Guard(func() string { htuVal = tok.HTU(); return "ok:" + c19Show(htuVal) })
		htm := c19Guard(func() string { return "ok:" + c19Show(tok.HTM()) })
		if strings.HasPrefix(htu, "ok:") {
			urls[htuVal] = c19RefStrip(htuVal)
		}
		tp, _ := tok.Headers.JWK().Thumbprint(crypto.SHA256)
		tpEq = base64.RawURLEncoding.EncodeToString(tp) == jkt
		m := c19Guard(func() string {
			ok, err := tok.Match(jkt, method, rawURL)
			if err != nil {
				return "err:" + c19MatchErrKind(err)
			}
			return fmt.Sprintf("ok:%v", ok)
		})
		line += " htu=" + c19Class(htu) + " htm=" + c19Class(htm) + " match=" + c19Class(m)
	}
	// the ""-url is what strip sees when HTU() yields "" (checked assertion on a non-string)
	urls[""] = c19RefStrip("")
	o.dist["dpop:"+tag]++
	o.emit(map[string]any{"op": "dpop", "in": in, "tpEq": tpEq, "method": method, "url": rawURL, "urls": urls, "tok": c19Short(s, 4000)}, line)
}

var c19URLs = []string{"https://server.example.com/token", "https://server.example.com:443/token?x=1#frag", "http://server.example.com:8080/token",
	"://x", "://", "", "%zz", "http://a:b:c/", "http://[::1]:80/x", "http://[::1/x", "http://a/%2f", "\x7f", " http://a", "http://a b/", "http://a/\n",
	"https://server.example.com/token/", "HTTPS://SERVER.example.com/token", "//server.example.com/token", "/token", "server.example.com/token", "mailto:a@b", "http://%41/", "http://a%/",
	"https://user:pw@server.example.com/token", "http://:80/", "http://a:/", "1http://a", "http://a/" + strings.Repeat("x", 5000)}

func TestVerifC19(t *testing.T) {
	dir := os.Getenv("VERIF_OUT")
	if dir == "" {
		t.Skip("VERIF_OUT not set")
	}
	o := c19Open(dir)
	defer o.close(dir)
	r := mrand.New(mrand.NewSource(c19Seed()*7919 + 19))
	m := jmut{r}
	sg := c19NewSigner()
	other := c19NewSigner()
	now := time.Now().Unix()

	validHeader := func(jwkJSON string) []byte {
		return []byte(`{"alg":"ES256","typ":"dpop+jwt","jwk":` + jwkJSON + `}`)
	}
	validClaims := func() []byte {
		return []byte(fmt.Sprintf(`{"htm":"POST","htu":"https://server.example.com/token","jti":"%d","iat":%d,"ath":"fUHyO2r2Z3DZ53EsNrWBb0xWXoaNy59IiKCAqksmQEo"}`, r.Int63(), now))
	}

	// ---- corpus / replay first: ops carry the token and the Match arguments
	replay, isReplay := c19ReadOps()
	for _, op := range replay {
		switch op["op"] {
		case "dpop":
			tok, _ := op["tok"].(string)
			jkt, _ := op["jkt"].(string)
			method, _ := op["method"].(string)
			u, _ := op["url"].(string)
			if hc, ok := op["claims"].(string); ok { // witness given as claims JSON: sign it here
				tok = sg.compact(validHeader(sg.pubJWK), []byte(hc), true)
				jkt = sg.jkt
			}
			c19RunDpop(o, tok, jkt, method, u, "replay")
		case "dpop.strip":
			raw, _ := op["raw"].(string)
			res := c19Guard(func() string { return c19StripCall(raw) })
			o.emit(map[string]any{"op": "dpop.strip", "raw": raw, "urls": map[string]any{raw: c19RefStrip(raw)}}, "strip="+c19Class(res))
		}
	}
	if isReplay {
		return
	}

	nRand := c19Env("VERIF_N", 400)
	// ---- 1. valid instances × URL table
	for _, u := range c19URLs {
		c19RunDpop(o, sg.compact(validHeader(sg.pubJWK), validClaims(), true), sg.jkt, "POST", u, "valid-token,url-table")
		raw := u
		res := c19Guard(func() string { return c19StripCall(raw) })
		o.emit(map[string]any{"op": "dpop.strip", "raw": raw, "urls": map[string]any{raw: c19RefStrip(raw)}}, "strip="+c19Class(res))
	}
	// ---- 2. systematic single-member mutations of the claims and of the header
	jsystematic(validClaims(), func(b []byte, kind string) {
		c19RunDpop(o, sg.compact(validHeader(sg.pubJWK), b, true), sg.jkt, "POST", "https://server.example.com/token", "claims:"+kind)
	})
	jsystematic(validHeader(sg.pubJWK), func(b []byte, kind string) {
		c19RunDpop(o, sg.compact(b, validClaims(), true), sg.jkt, "POST", "https://server.example.com/token", "header:"+kind)
	})
	// htu claim = every URL of the table (strings that url.Parse rejects included)
	for _, u := range c19URLs {
		ub, _ := json.Marshal(u)
		cl := fmt.Sprintf(`{"htm":"POST","htu":%s,"jti":"j%d","iat":%d}`, ub, r.Int63(), now)
		c19RunDpop(o, sg.compact(validHeader(sg.pubJWK), []byte(cl), true), sg.jkt, "POST", "https://server.example.com/token", "htu-from-url-table")
	}
	// ---- 3. schema-valid but unusual combinations
	special := []struct{ hdr, cl, tag string; good bool; jkt string }{
		{string(validHeader(sg.prvJWK)), string(validClaims()), "private-jwk", true, sg.jkt},
		{string(validHeader(other.pubJWK)), string(validClaims()), "jwk-of-other-key", true, sg.jkt},
		{string(validHeader(sg.pubJWK)), string(validClaims()), "bad-signature", false, sg.jkt},
		{string(validHeader(sg.pubJWK)), string(validClaims()), "jkt-mismatch", true, other.jkt},
		{`{"alg":"none","typ":"dpop+jwt","jwk":` + sg.pubJWK + `}`, string(validClaims()), "alg-none", true, sg.jkt},
		{`{"alg":"HS256","typ":"dpop+jwt","jwk":` + sg.pubJWK + `}`, string(validClaims()), "alg-hs256", true, sg.jkt},
		{`{"alg":"ES256","typ":"dpop+jwt"}`, string(validClaims()), "no-jwk", true, sg.jkt},
		{`{"alg":"ES384","typ":"dpop+jwt","jwk":` + sg.pubJWK + `}`, string(validClaims()), "alg-curve-mismatch", true, sg.jkt},
		{`{"alg":"EdDSA","typ":"dpop+jwt","jwk":{"kty":"OKP","crv":"Ed25519","x":"` + base64.RawURLEncoding.EncodeToString(make([]byte, 32)) + `"}}`, string(validClaims()), "okp-32", true, sg.jkt},
		{`{"alg":"EdDSA","typ":"dpop+jwt","jwk":{"kty":"OKP","crv":"Ed25519","x":"` + base64.RawURLEncoding.EncodeToString(make([]byte, 33)) + `"}}`, string(validClaims()), "okp-33", true, sg.jkt},
		{`{"alg":"EdDSA","typ":"dpop+jwt","jwk":{"kty":"OKP","crv":"Ed25519","x":"` + base64.RawURLEncoding.EncodeToString(make([]byte, 31)) + `"}}`, string(validClaims()), "okp-31", true, sg.jkt},
		{`{"alg":"EdDSA","typ":"dpop+jwt","jwk":{"kty":"OKP","crv":"Ed25519","x":""}}`, string(validClaims()), "okp-0", true, sg.jkt},
		{`{"alg":"ES256","typ":"dpop+jwt","jwk":{"kty":"OKP","crv":"Ed25519","x":"` + base64.RawURLEncoding.EncodeToString(make([]byte, 32)) + `"}}`, string(validClaims()), "okp-with-es256", true, sg.jkt},
		{`{"alg":"ES256","typ":"JWT","jwk":` + sg.pubJWK + `}`, string(validClaims()), "typ-jwt", true, sg.jkt},
		{string(validHeader(sg.pubJWK)), fmt.Sprintf(`{"htm":"POST","htu":"https://a/","jti":"%s","iat":%d}`, strings.Repeat("j", 256), now), "jti-256", true, sg.jkt},
		{string(validHeader(sg.pubJWK)), fmt.Sprintf(`{"htm":"POST","htu":"https://a/","jti":"%s","iat":%d}`, strings.Repeat("j", 257), now), "jti-257", true, sg.jkt},
		{string(validHeader(sg.pubJWK)), fmt.Sprintf(`{"htm":"POST","htu":"https://a/","jti":"x","iat":%d,"exp":%d}`, now, now-1000), "expired", true, sg.jkt},
		{string(validHeader(sg.pubJWK)), fmt.Sprintf(`{"htm":"POST","htu":"https://a/","jti":"x","iat":%d,"nbf":%d}`, now, now+100000), "nbf-future", true, sg.jkt},
		{string(validHeader(sg.pubJWK)), fmt.Sprintf(`{"htm":"POST","htu":"https://a/","jti":"x","iat":0}`), "iat-zero", true, sg.jkt},
		{string(validHeader(sg.pubJWK)), fmt.Sprintf(`{"htm":5,"htu":5,"jti":"x","iat":%d}`, now), "htm-htu-numbers", true, sg.jkt},
		{string(validHeader(sg.pubJWK)), fmt.Sprintf(`{"htm":"POST","htu":"://x","jti":"x","iat":%d}`, now), "htu-unparsable", true, sg.jkt},
		{string(validHeader(sg.pubJWK)), fmt.Sprintf(`{"htm":"GET","htu":"https://server.example.com/token","jti":"x","iat":%d}`, now), "method-mismatch", true, sg.jkt},
		{string(validHeader(sg.pubJWK)), fmt.Sprintf(`{"htm":["POST"],"htu":{"a":1},"jti":"x","iat":%d}`, now), "htm-array-htu-object", true, sg.jkt},
		{string(validHeader(sg.pubJWK)), `not json`, "payload-not-json", true, sg.jkt},
		{string(validHeader(sg.pubJWK)), `[]`, "payload-array", true, sg.jkt},
		{string(validHeader(sg.pubJWK)), `null`, "payload-null", true, sg.jkt},
	}
	for _, sp := range special {
		c19RunDpop(o, sg.compact([]byte(sp.hdr), []byte(sp.cl), sp.good), sp.jkt, "POST", "https://server.example.com/token", "special:"+sp.tag)
	}
	// serialisation-level: JSON serialisation with 0/1/2 signatures, truncations, empty parts
	good := sg.compact(validHeader(sg.pubJWK), validClaims(), true)
	parts := strings.Split(good, ".")
	ser := []string{"", ".", "..", "...", parts[0] + "." + parts[1], parts[0] + "." + parts[1] + ".", "." + parts[1] + "." + parts[2], parts[0] + ".." + parts[2],
		good + ".", good + "." + parts[2], strings.ToUpper(good), good[:len(good)/2], "{}", "[]", "null", `{"payload":"` + parts[1] + `","signatures":[]}`,
		`{"payload":"` + parts[1] + `","signatures":[{"protected":"` + parts[0] + `","signature":"` + parts[2] + `"}]}`,
		`{"payload":"` + parts[1] + `","signatures":[{"protected":"` + parts[0] + `","signature":"` + parts[2] + `"},{"protected":"` + parts[0] + `","signature":"` + parts[2] + `"}]}`,
		`{"payload":"` + parts[1] + `","protected":"` + parts[0] + `","signature":"` + parts[2] + `"}`,
		`{"payload":5,"signatures":[{"protected":5,"signature":5}]}`, `{"payload":"` + parts[1] + `","signatures":[null]}`, `{"payload":"` + parts[1] + `","signatures":{}}`,
		" " + good, good + "\n", "\x00" + good}
	for i, s := range ser {
		c19RunDpop(o, s, sg.jkt, "POST", "https://server.example.com/token", fmt.Sprintf("serialisation:%d", i))
	}
	// ---- 4. random multi-mutations
	for i := 0; i < nRand; i++ {
		hdr, cl := validHeader(sg.pubJWK), validClaims()
		tag := ""
		switch r.Intn(3) {
		case 0:
			var k string
			cl, k = m.mutate(cl)
			tag = "rand-claims:" + k
		case 1:
			var k string
			hdr, k = m.mutate(hdr)
			tag = "rand-header:" + k
		default:
			var k1, k2 string
			cl, k1 = m.mutate(cl)
			hdr, k2 = m.mutate(hdr)
			tag = "rand-both:" + k1 + "+" + k2
			tag = "rand-both"
		}
		u := c19URLs[r.Intn(len(c19URLs))]
		if r.Intn(3) > 0 {
			u = "https://server.example.com/token"
		}
		method := []string{"POST", "GET", "", "post"}[r.Intn(4)]
		if r.Intn(3) > 0 {
			method = "POST"
		}
		c19RunDpop(o, sg.compact(hdr, cl, r.Intn(10) > 0), sg.jkt, method, u, tag)
	}
	// UnmarshalJSON wrapper (used when a DPoP travels inside JSON): exploration only
	for _, s := range []string{`"` + good + `"`, `"`, `""`, `5`, `null`, `"x`, `x"`, ``, `"a.b.c"`} {
		in := s
		o.explore("dpop.UnmarshalJSON", in, func() string {
			var d DPoP
			if err := d.UnmarshalJSON([]byte(in)); err != nil {
				return "err"
			}
			return "ok"
		})
	}
}

// c19StripCall calls strip whatever its result list is (string before the repair, (string, error) after it)
func c19StripCall(raw string) string {
	out := reflect.ValueOf(strip).Call([]reflect.Value{reflect.ValueOf(raw)})
	if len(out) == 2 && !out[1].IsNil() {
		return "err:url"
	}
	return "ok:" + c19Show(out[0].String())
}
