//go:build verif

package v1

// C03 harness, part 4 — EXPLORATION ONLY (no model): a scripted + generated tour of the crypto HTTP API
// (/internal/crypto/v1/{sign_jwt,sign_jws,encrypt_jwe,decrypt_jwe}) through echo, the generated strict handler, the audit
// middleware and the node's HTTP error handler, on a REAL Crypto engine (SQLite + fs backend behind the validating
// wrapper). Every response (status line, headers, body, base64url-decoded token segments), every log line and audit
// record is searched for the private scalars / PKCS8 / PEM / JWK d of the keys the store generated. Result: api_canary.json.

import (
	"bytes"
	"crypto"
	"crypto/ecdsa"
	"crypto/x509"
	"encoding/base64"
	"encoding/hex"
	"encoding/json"
	"encoding/pem"
	"errors"
	"fmt"
	"math/rand"
	"net/http"
	"net/http/httptest"
	"os"
	"path/filepath"
	"strconv"
	"strings"
	"testing"
	"time"

	"github.com/labstack/echo/v4"
	"github.com/lestrrat-go/jwx/v2/jwk"
	"github.com/lestrrat-go/jwx/v2/jws"
	"github.com/nuts-foundation/go-did/did"
	"github.com/nuts-foundation/nuts-node/audit"
	"github.com/nuts-foundation/nuts-node/core"
	nutsCrypto "github.com/nuts-foundation/nuts-node/crypto"
	"github.com/nuts-foundation/nuts-node/crypto/storage/fs"
	"github.com/nuts-foundation/nuts-node/crypto/storage/spi"
	"github.com/nuts-foundation/nuts-node/storage/orm"
	"github.com/nuts-foundation/nuts-node/vdr/resolver"
	"github.com/sirupsen/logrus"
)

type c03Resolver struct{ keys map[string]crypto.PublicKey }

func (r c03Resolver) ResolveKeyByID(keyID string, _ *resolver.ResolveMetadata, _ resolver.RelationType) (crypto.PublicKey, error) {
	if k, ok := r.keys[keyID]; ok {
		return k, nil
	}
	return nil, resolver.ErrKeyNotFound
}
func (r c03Resolver) ResolveKey(id did.DID, _ *time.Time, _ resolver.RelationType) (string, crypto.PublicKey, error) {
	for kid, k := range r.keys {
		if strings.HasPrefix(kid, id.String()+"#") {
			return kid, k, nil
		}
	}
	return "", nil, resolver.ErrNotFound
}

type c03Sink struct {
	bufs map[string]*bytes.Buffer
}

func (s *c03Sink) add(label string, parts ...interface{}) {
	b := s.bufs[label]
	if b == nil {
		b = &bytes.Buffer{}
		s.bufs[label] = b
	}
	for _, p := range parts {
		switch v := p.(type) {
		case string:
			b.WriteString(v)
		case []byte:
			b.Write(v)
		default:
			fmt.Fprintf(b, "%+v", v)
		}
		b.WriteByte('\n')
	}
}

type c03Hook struct{ s *c03Sink }

func (h c03Hook) Levels() []logrus.Level { return logrus.AllLevels }
func (h c03Hook) Fire(en *logrus.Entry) error {
	h.s.add("log", en.Message, fmt.Sprintf("%+v", en.Data))
	return nil
}

func TestVerifC03(t *testing.T) {
	out := os.Getenv("VERIF_OUT")
	if out == "" {
		t.Skip("VERIF_OUT not set")
	}
	seed, _ := strconv.ParseInt(os.Getenv("VERIF_SEED"), 10, 64)
	thorough := os.Getenv("VERIF_TIER") == "thorough"
	r := rand.New(rand.NewSource(seed*49979687 + 13))
	root := filepath.Join(out, "sandbox_api")
	_ = os.RemoveAll(root)
	defer os.RemoveAll(root)
	keyDir := filepath.Join(root, "keys")
	be, err := fs.NewFileSystemBackend(keyDir)
	if err != nil {
		t.Fatal(err)
	}
	client := nutsCrypto.NewTestCryptoInstance(orm.NewTestDatabase(t), spi.NewValidatedKIDBackendWrapper(be, spi.KidPattern))
	sink := &c03Sink{bufs: map[string]*bytes.Buffer{}}
	logrus.SetLevel(logrus.TraceLevel)
	logrus.StandardLogger().AddHook(c03Hook{sink})
	auditCap := audit.CaptureAuditLogs(t)

	// keys created by the real store
	res := c03Resolver{keys: map[string]crypto.PublicKey{}}
	var kids []string
	nKeys := 6
	for i := 0; i < nKeys; i++ {
		kid := fmt.Sprintf("did:web:example.com:iam:%d#key-%d", i, i)
		_, pub, err := client.New(audit.TestContext(), nutsCrypto.StringNamingFunc(kid))
		if err != nil {
			t.Fatal(err)
		}
		kids = append(kids, kid)
		res.keys[kid] = pub
	}
	// canaries (the harness reads the key files: it is the attacker's oracle)
	type canary struct{ key, kind, val string }
	var canaries []canary
	var privJWKs []map[string]interface{}
	ents, _ := os.ReadDir(keyDir)
	for _, en := range ents {
		data, _ := os.ReadFile(filepath.Join(keyDir, en.Name()))
		blk, _ := pem.Decode(data)
		if blk == nil {
			continue
		}
		add := func(kind, v string) {
			if len(v) >= 16 {
				canaries = append(canaries, canary{en.Name(), kind, v})
			}
		}
		encs := func(kind string, b []byte) {
			add(kind+":hex", hex.EncodeToString(b))
			add(kind+":HEX", strings.ToUpper(hex.EncodeToString(b)))
			add(kind+":b64", base64.StdEncoding.EncodeToString(b))
			add(kind+":b64raw", base64.RawStdEncoding.EncodeToString(b))
			add(kind+":b64url", base64.URLEncoding.EncodeToString(b))
			add(kind+":b64urlraw", base64.RawURLEncoding.EncodeToString(b))
		}
		encs("pkcs8-der", blk.Bytes)
		for _, ln := range strings.Split(strings.TrimSpace(string(data)), "\n") {
			if !strings.HasPrefix(ln, "-----") {
				add("pem-line", ln)
			}
		}
		if k, err := x509.ParsePKCS8PrivateKey(blk.Bytes); err == nil {
			if ec, ok := k.(*ecdsa.PrivateKey); ok {
				encs("scalar", ec.D.Bytes())
				encs("scalar-fixed", ec.D.FillBytes(make([]byte, 32)))
				add("scalar:dec", ec.D.String())
				if j, err := jwk.FromRaw(ec); err == nil {
					m, _ := json.Marshal(j)
					var mm map[string]interface{}
					_ = json.Unmarshal(m, &mm)
					privJWKs = append(privJWKs, mm)
				}
			}
		}
	}

	e := echo.New()
	e.HTTPErrorHandler = core.CreateHTTPErrorHandler()
	(&Wrapper{C: client, K: res}).Routes(e)
	statuses := map[string]int{}
	nReq := 0
	privateJwkAccepted := 0
	wrongKey := 0
	var wrongKeyExamples []string
	// a 200 token for kid K must verify with the public key published for K and with no other key of the store
	checkToken := func(kid, tok string) {
		msg, err := jws.Parse([]byte(tok))
		if err != nil || len(msg.Signatures()) != 1 {
			return // detached tokens parse too; anything else is not a compact JWS
		}
		if strings.Contains(tok, "..") {
			return // detached payload: cannot be verified without the payload
		}
		alg := msg.Signatures()[0].ProtectedHeaders().Algorithm()
		var ok []string
		for k, pk := range res.keys {
			if _, err := jws.Verify([]byte(tok), jws.WithKey(alg, pk)); err == nil {
				ok = append(ok, k)
			}
		}
		if len(ok) != 1 || ok[0] != kid || msg.Signatures()[0].ProtectedHeaders().KeyID() != kid {
			wrongKey++
			if len(wrongKeyExamples) < 3 {
				wrongKeyExamples = append(wrongKeyExamples, fmt.Sprintf("requested kid %q, header kid %q, verifies with %v", kid, msg.Signatures()[0].ProtectedHeaders().KeyID(), ok))
			}
		}
	}
	var tokens []string
	call := func(path string, body interface{}) (int, string) {
		var raw []byte
		switch b := body.(type) {
		case string:
			raw = []byte(b)
		default:
			raw, _ = json.Marshal(b)
		}
		req := httptest.NewRequest(http.MethodPost, "/internal/crypto/v1/"+path, bytes.NewReader(raw))
		req.Header.Set("Content-Type", "application/json")
		rec := httptest.NewRecorder()
		func() {
			defer func() {
				if rv := recover(); rv != nil {
					sink.add("http", fmt.Sprintf("PANIC %v", rv))
					statuses[path+":panic"]++
				}
			}()
			e.ServeHTTP(rec, req)
		}()
		nReq++
		statuses[fmt.Sprintf("%s:%d", path, rec.Code)]++
		rb := rec.Body.String()
		sink.add("http", fmt.Sprintf("%d %v", rec.Code, rec.Header()), rb)
		for _, seg := range strings.FieldsFunc(rb, func(c rune) bool { return c == '.' || c == '"' || c == ' ' || c == '\n' }) {
			if d, err := base64.RawURLEncoding.DecodeString(seg); err == nil && len(d) > 8 {
				sink.add("http", d)
			}
		}
		return rec.Code, rb
	}
	pick := func(l []string) string { return l[r.Intn(len(l))] }
	anyKid := func() string {
		return pick(append(kids, "did:web:example.com:iam:9#nope", "../x", "..", "", "did:web:example.com:iam:0#key-0\x00", strings.Repeat("k", 500)))
	}
	hdrs := func() map[string]interface{} {
		h := map[string]interface{}{}
		for i, n := 0, r.Intn(4); i < n; i++ {
			switch r.Intn(8) {
			case 0: // a kid header naming ANOTHER key of the store (or nothing the store knows)
				h["kid"] = pick(append(kids, "forged"))
			case 1:
				h["typ"] = "JWT"
			case 2:
				h["jwk"] = privJWKs[r.Intn(len(privJWKs))] // the store's own private key as a JSON object
			case 3:
				pub := map[string]interface{}{}
				for k, v := range privJWKs[r.Intn(len(privJWKs))] {
					if k != "d" {
						pub[k] = v
					}
				}
				h["jwk"] = pub
			case 4:
				h["alg"] = pick([]string{"ES256", "none", "HS256", "bogus"})
			case 5:
				h["crit"] = []string{"x"}
			case 6:
				h["x"] = map[string]interface{}{"a": 1}
			default:
				h["b64"] = false
			}
		}
		return h
	}
	n := 1500
	if thorough {
		n = 20000
	}
	for i := 0; i < n; i++ {
		switch r.Intn(9) {
		case 0, 1:
			kid := anyKid()
			code, body := call("sign_jwt", map[string]interface{}{"kid": kid, "claims": map[string]interface{}{"iss": "me", "n": i}})
			if code == 200 {
				tokens = append(tokens, body)
				checkToken(kid, body)
			}
		case 2, 3, 4:
			h := hdrs()
			_, hasJwk := h["jwk"]
			priv := false
			if hasJwk {
				_, priv = h["jwk"].(map[string]interface{})["d"]
			}
			kid := anyKid()
			code, body := call("sign_jws", map[string]interface{}{"kid": kid, "headers": h, "payload": []byte("payload"), "detached": r.Intn(3) == 0})
			if code == 200 {
				tokens = append(tokens, body)
				checkToken(kid, body)
				if priv {
					privateJwkAccepted++
				}
			}
		case 5:
			rcv := pick(append(kids, "did:web:example.com:iam:0", "did:web:example.com:iam:77", "not a did", ""))
			code, body := call("encrypt_jwe", map[string]interface{}{"receiver": rcv, "headers": map[string]interface{}{"typ": "x"}, "payload": []byte("secret payload")})
			if code == 200 {
				call("decrypt_jwe", map[string]interface{}{"message": body})
				if len(body) > 20 && r.Intn(2) == 0 { // tampered
					call("decrypt_jwe", map[string]interface{}{"message": body[:len(body)-6] + "AAAAAA"})
				}
			}
		case 6:
			call("decrypt_jwe", map[string]interface{}{"message": pick([]string{"", "a.b.c.d.e", "e30.e30.e30.e30.e30", "eyJhbGciOiJFQ0RILUVTK0EyNTZLVyIsImtpZCI6Ii4uIn0.a.b.c.d"})})
		case 7:
			call(pick([]string{"sign_jwt", "sign_jws", "encrypt_jwe", "decrypt_jwe"}), pick([]string{"", "{", "null", "[]", `{"kid":5}`, `{"kid":"x","headers":null,"payload":null}`, `{"kid":"x","claims":{}}`}))
		default:
			if len(tokens) > 0 {
				call("decrypt_jwe", map[string]interface{}{"message": tokens[r.Intn(len(tokens))]})
			}
		}
	}
	for _, en := range auditCap.Hook.AllEntries() {
		sink.add("audit", en.Message, fmt.Sprintf("%+v", en.Data))
	}
	type hit struct{ Key, Kind, Sink, Context string }
	var hits []hit
	sizes := map[string]int{}
	total := 0
	for label, b := range sink.bufs {
		s := b.String()
		sizes[label] = len(s)
		total += len(s)
		for _, c := range canaries {
			if i := strings.Index(s, c.val); i >= 0 {
				lo, hi := i-60, i+20
				if lo < 0 {
					lo = 0
				}
				if hi > len(s) {
					hi = len(s)
				}
				hits = append(hits, hit{c.key, c.kind, label, strconv.Quote(s[lo:hi])})
			}
		}
	}
	control := len(canaries) > 0 && strings.Contains("xx"+canaries[0].val+"yy", canaries[0].val)
	result := map[string]interface{}{"exploration": true, "keys": len(ents), "canaries": len(canaries), "requests": nReq, "statuses": statuses,
		"bytes_scanned": total, "sinks": sizes, "hits": hits, "scanner_positive_control": control,
		"sign_jws_200_with_private_jwk_object": privateJwkAccepted, "tokens_issued": len(tokens),
		"tokens_not_bound_to_requested_kid": wrongKey, "tokens_not_bound_examples": wrongKeyExamples}
	b, _ := json.MarshalIndent(result, "", " ")
	if err := os.WriteFile(filepath.Join(out, "api_canary.json"), b, 0o644); err != nil {
		t.Fatal(err)
	}
	_ = errors.New
	// part 4b: the MODELLED leg (api_ops.jsonl / api_impl.out), see zz_verif_c03b_test.go
	c03ApiModelLeg(t, out, seed, thorough)
}
