//go:build verif

package v1

// C03 harness, part 4b (deepening round) — MODELLED leg of the crypto REST wrapper: generated request bodies (absent /
// null / empty / present fields, JSON header objects incl. duplicate names, private JWK objects, forged kid headers)
// are POSTed through echo + the generated strict handler + the node's error handler to a REAL Crypto engine
// (SQLite + fs backend behind the validating wrapper) whose keys were created / linked by the ops of the same sequence.
// Output: api_ops.jsonl (what the Lean model NutsModel/C03/Api.lean is run on) and api_impl.out (status, problem detail,
// and for a 200: which key verifies the token + its protected header).

import (
	"bufio"
	"bytes"
	"crypto"
	"encoding/base64"
	"encoding/json"
	"fmt"
	"math/rand"
	"net/http"
	"net/http/httptest"
	"os"
	"path/filepath"
	"sort"
	"strings"
	"testing"

	"github.com/labstack/echo/v4"
	"github.com/lestrrat-go/jwx/v2/jwa"
	"github.com/lestrrat-go/jwx/v2/jws"
	"github.com/nuts-foundation/go-did/did"
	"github.com/nuts-foundation/nuts-node/audit"
	"github.com/nuts-foundation/nuts-node/core"
	nutsCrypto "github.com/nuts-foundation/nuts-node/crypto"
	"github.com/nuts-foundation/nuts-node/crypto/storage/fs"
	"github.com/nuts-foundation/nuts-node/crypto/storage/spi"
	"github.com/nuts-foundation/nuts-node/storage/orm"
)

type c03ApiLeg struct {
	t       *testing.T
	root    string
	seq     int
	keyDir  string
	client  *nutsCrypto.Crypto
	e       *echo.Echo
	pubs    []crypto.PublicKey // index = the model's key pair number
	names   []string           // key names drawn so far in this sequence
	nameMap map[string]string  // replay: recorded key name -> the name drawn now
	ops     *bufio.Writer
	impl    *bufio.Writer
	n       int
}

func (a *c03ApiLeg) line(op map[string]interface{}, res string) {
	b, _ := json.Marshal(op)
	a.ops.Write(b)
	a.ops.WriteByte('\n')
	a.impl.WriteString(strings.ReplaceAll(strings.ReplaceAll(res, "\n", "\\n"), a.keyDir, "$KEYDIR"))
	a.impl.WriteByte('\n')
	a.n++
}

func (a *c03ApiLeg) reset() {
	a.seq++
	a.keyDir = filepath.Join(a.root, fmt.Sprintf("s%d", a.seq), "keys")
	be, err := fs.NewFileSystemBackend(a.keyDir)
	if err != nil {
		a.t.Fatal(err)
	}
	a.client = nutsCrypto.NewTestCryptoInstance(orm.NewTestDatabase(a.t), spi.NewValidatedKIDBackendWrapper(be, spi.KidPattern))
	a.e = echo.New()
	a.e.HTTPErrorHandler = core.CreateHTTPErrorHandler()
	(&Wrapper{C: a.client, K: c03Resolver{keys: map[string]crypto.PublicKey{}}}).Routes(a.e)
	a.pubs, a.names = nil, nil
}

func c03Fld(op map[string]interface{}, k string) string {
	s, _ := op[k].(string)
	if s == "" {
		return "absent"
	}
	return s
}

// body member for a field: absent -> not written
func c03Member(sb *strings.Builder, name, fld, present, empty string) {
	var v string
	switch fld {
	case "null":
		v = "null"
	case "empty":
		v = empty
	case "present":
		v = present
	default:
		return
	}
	if sb.Len() > 1 {
		sb.WriteByte(',')
	}
	fmt.Fprintf(sb, "%q:%s", name, v)
}

func (a *c03ApiLeg) post(path, body string) (int, string) {
	req := httptest.NewRequest(http.MethodPost, "/internal/crypto/v1/"+path, strings.NewReader(body))
	req.Header.Set("Content-Type", "application/json")
	rec := httptest.NewRecorder()
	code, rb := 0, ""
	func() {
		defer func() {
			if rv := recover(); rv != nil {
				code, rb = -1, fmt.Sprintf("panic:%v", rv)
			}
		}()
		a.e.ServeHTTP(rec, req)
		code, rb = rec.Code, rec.Body.String()
	}()
	return code, rb
}

func c03Detail(body string) string {
	var p map[string]interface{}
	if json.Unmarshal([]byte(body), &p) != nil {
		return "NOT-A-PROBLEM-DOCUMENT:" + body
	}
	d, _ := p["detail"].(string)
	return d
}

func c03SignClass(d string) string {
	switch {
	case strings.HasPrefix(d, "unable to set header"):
		return "class:set-header"
	case strings.HasPrefix(d, "refusing to sign JWS with private key in JWK header"), strings.HasPrefix(d, "refusing to sign JWT with private key in JWK header"):
		return "class:private-jwk-refused"
	case strings.HasPrefix(d, "invalid JWT headers"):
		return "class:invalid-jwt-headers"
	}
	return d
}

// which keys of the sequence verify the token; the protected header
func (a *c03ApiLeg) token(tok string, payload []byte) string {
	parts := strings.Split(tok, ".")
	if len(parts) != 3 {
		return "200 NOT-A-COMPACT-JWS"
	}
	hb, err := base64.RawURLEncoding.DecodeString(parts[0])
	var hdr map[string]interface{}
	if err != nil || json.Unmarshal(hb, &hdr) != nil {
		return "200 HEADER-DOES-NOT-DECODE"
	}
	full := tok
	if parts[1] == "" {
		full = parts[0] + "." + base64.RawURLEncoding.EncodeToString(payload) + "." + parts[2]
	}
	alg, _ := hdr["alg"].(string)
	var ok []string
	for i, pk := range a.pubs {
		if pk == nil {
			continue
		}
		if _, err := jws.Verify([]byte(full), jws.WithKey(jwa.SignatureAlgorithm(alg), pk)); err == nil {
			ok = append(ok, fmt.Sprintf("K%d", i))
		}
	}
	key := "K?[" + strings.Join(ok, ",") + "]"
	if len(ok) == 1 {
		key = ok[0]
	}
	kid := "-"
	if v, has := hdr["kid"]; has {
		if s, isStr := v.(string); isStr {
			kid = s
		} else {
			kid = "?"
		}
	}
	jwkH := "-"
	if _, has := hdr["jwk"]; has {
		jwkH = "present"
	}
	var names []string
	for n := range hdr {
		if n != "alg" {
			names = append(names, n)
		}
	}
	sort.Strings(names)
	return fmt.Sprintf("200 key=%s kid=%s jwk=%s names=[%s]", key, kid, jwkH, strings.Join(names, ","))
}

func (a *c03ApiLeg) exec(op map[string]interface{}) {
	ctx := audit.TestContext()
	str := func(k string) string { s, _ := op[k].(string); return s }
	switch str("op") {
	case "reset":
		a.reset()
		a.line(op, "reset")
	case "apikey":
		before := map[string]bool{}
		ents, _ := os.ReadDir(a.keyDir)
		for _, en := range ents {
			before[en.Name()] = true
		}
		_, pub, err := a.client.New(ctx, nutsCrypto.StringNamingFunc(str("kid")))
		name := ""
		ents, _ = os.ReadDir(a.keyDir)
		for _, en := range ents {
			if !before[en.Name()] {
				name = strings.TrimSuffix(en.Name(), "_private.pem")
			}
		}
		if old := str("keyName"); old != "" && name != "" {
			a.nameMap[old] = name
		}
		op["keyName"] = name
		if err != nil {
			a.pubs = append(a.pubs, nil)
			a.line(op, "apikey err:"+err.Error())
			return
		}
		a.pubs = append(a.pubs, pub)
		a.names = append(a.names, name)
		a.line(op, fmt.Sprintf("apikey ok kid=%s key=K%d", str("kid"), len(a.pubs)-1))
	case "apilink":
		if n, ok := a.nameMap[str("keyName")]; ok {
			op["keyName"] = n
		}
		if err := a.client.Link(ctx, str("kid"), str("keyName"), str("version")); err != nil {
			a.line(op, "apilink err:"+err.Error())
			return
		}
		a.line(op, "apilink ok")
	case "apisignjwt", "apisignjws":
		jws_ := str("op") == "apisignjws"
		var sb strings.Builder
		sb.WriteByte('{')
		kb, _ := json.Marshal(str("kid"))
		c03Member(&sb, "kid", c03Fld(op, "kidF"), string(kb), `""`)
		payload := []byte(str("payload"))
		var flds []interface{}
		fld := func(n, f string) { flds = append(flds, map[string]interface{}{"n": n, "f": f}) }
		fld("Kid", c03Fld(op, "kidF"))
		var mh []interface{}
		if jws_ {
			// headers object written by hand: duplicate names are possible (the decoder keeps the last)
			var hs strings.Builder
			hs.WriteByte('{')
			hdr, _ := op["hdr"].([]interface{})
			for i, h := range hdr {
				hm, _ := h.(map[string]interface{})
				if i > 0 {
					hs.WriteByte(',')
				}
				raw, _ := hm["j"].(string)
				fmt.Fprintf(&hs, "%q:%s", hm["n"], raw)
				var v interface{}
				_ = json.Unmarshal([]byte(raw), &v)
				if s, ok := v.(string); ok {
					mh = append(mh, map[string]interface{}{"n": hm["n"], "k": "str", "v": s})
				} else {
					mh = append(mh, map[string]interface{}{"n": hm["n"], "k": "other", "ty": "json"})
				}
			}
			hs.WriteByte('}')
			c03Member(&sb, "headers", c03Fld(op, "headersF"), hs.String(), "{}")
			pb, _ := json.Marshal(payload)
			c03Member(&sb, "payload", c03Fld(op, "payloadF"), string(pb), `""`)
			if c03Fld(op, "payloadF") != "present" {
				payload = nil
			}
			if d, ok := op["detached"].(bool); ok {
				fmt.Fprintf(&sb, ",\"detached\":%v", d)
			}
			fld("Headers", c03Fld(op, "headersF"))
			fld("Payload", c03Fld(op, "payloadF"))
		} else {
			c03Member(&sb, "claims", c03Fld(op, "claimsF"), `{"iss":"me","n":1}`, "{}")
			fld("Claims", c03Fld(op, "claimsF"))
		}
		sb.WriteByte('}')
		op["flds"] = flds
		if mh == nil {
			mh = []interface{}{}
		}
		op["headers"] = mh
		op["body"] = sb.String()
		path := "sign_jwt"
		if jws_ {
			path = "sign_jws"
		}
		code, rb := a.post(path, sb.String())
		if code == 200 {
			a.line(op, str("op")+" "+a.token(rb, payload))
		} else {
			a.line(op, fmt.Sprintf("%s %d detail=%q", str("op"), code, c03SignClass(c03Detail(rb))))
		}
	case "apidecrypt":
		msg := str("raw")
		if str("msg") == "jwe" {
			idx := -1
			switch v := op["encFor"].(type) {
			case float64:
				idx = int(v)
			case int:
				idx = v
			}
			if idx < 0 || idx >= len(a.pubs) || a.pubs[idx] == nil {
				a.line(op, "apidecrypt SPEC-NAMES-NO-KEY")
				return
			}
			h := map[string]interface{}{}
			if str("hkid") != "" {
				h["kid"] = str("hkid")
			}
			m, err := nutsCrypto.EncryptJWE([]byte("plain text for key "+fmt.Sprint(idx)), h, a.pubs[idx])
			if err != nil {
				a.line(op, "apidecrypt ENCRYPT-FAILED:"+err.Error())
				return
			}
			msg = m
		}
		var sb strings.Builder
		sb.WriteByte('{')
		mb, _ := json.Marshal(msg)
		c03Member(&sb, "message", c03Fld(op, "messageF"), string(mb), `""`)
		sb.WriteByte('}')
		op["flds"] = []interface{}{map[string]interface{}{"n": "Message", "f": c03Fld(op, "messageF")}}
		code, rb := a.post("decrypt_jwe", sb.String())
		if code == 200 {
			var r struct {
				Body    []byte                 `json:"body"`
				Headers map[string]interface{} `json:"headers"`
			}
			_ = json.Unmarshal([]byte(rb), &r)
			a.line(op, "apidecrypt 200 key=K"+strings.TrimPrefix(string(r.Body), "plain text for key "))
			return
		}
		d := c03Detail(rb)
		const pfx = "failed to decrypt JWE: "
		if strings.HasPrefix(d, pfx) {
			rest := strings.TrimPrefix(d, pfx)
			if code == 500 && rest != "kid header not found" && !strings.HasPrefix(rest, "invalid key ID: ") && rest != "private key not found" {
				// wording of the jwx library: classified by what the harness sent
				if str("msg") == "jwe" {
					rest = "class:wrong-key"
				} else {
					rest = "class:parse-error"
				}
			}
			d = pfx + rest
		}
		a.line(op, fmt.Sprintf("apidecrypt %d detail=%q", code, d))
	case "apiencval":
		var sb strings.Builder
		sb.WriteByte('{')
		rb_, _ := json.Marshal(str("receiver"))
		c03Member(&sb, "receiver", c03Fld(op, "receiverF"), string(rb_), `""`)
		hj := "{" + strings.Join(func() []string {
			var l []string
			hdr, _ := op["hdr"].([]interface{})
			for _, h := range hdr {
				hm, _ := h.(map[string]interface{})
				l = append(l, fmt.Sprintf("%q:%s", hm["n"], hm["j"]))
			}
			return l
		}(), ",") + "}"
		c03Member(&sb, "headers", c03Fld(op, "headersF"), hj, "{}")
		c03Member(&sb, "payload", c03Fld(op, "payloadF"), `"cGF5bG9hZA=="`, `""`)
		sb.WriteByte('}')
		var mh []interface{}
		if c03Fld(op, "headersF") == "present" {
			hdr, _ := op["hdr"].([]interface{})
			for _, h := range hdr {
				hm, _ := h.(map[string]interface{})
				mh = append(mh, map[string]interface{}{"n": hm["n"], "k": "other", "ty": "json"})
			}
		}
		if mh == nil {
			mh = []interface{}{}
		}
		op["headers"] = mh
		op["flds"] = []interface{}{map[string]interface{}{"n": "Receiver", "f": c03Fld(op, "receiverF")},
			map[string]interface{}{"n": "Headers", "f": c03Fld(op, "headersF")}, map[string]interface{}{"n": "Payload", "f": c03Fld(op, "payloadF")}}
		_, perr := did.ParseDIDURL(str("receiver"))
		op["parseOk"] = perr == nil
		// the validate() method itself (the handler goes on to resolve a PUBLIC key: outside the key store)
		var req EncryptJweRequest
		if err := json.Unmarshal([]byte(sb.String()), &req); err != nil {
			a.line(op, "apiencval BODY-DOES-NOT-DECODE:"+err.Error())
			return
		}
		if err := req.validate(); err != nil {
			d := err.Error()
			if perr != nil && strings.HasPrefix(d, "invalid receiver: ") {
				d = "invalid receiver: " // the parser's own wording is not modelled
			}
			// through the handler: same text behind the handler's prefix, status of InvalidInputError
			code, rb := a.post("encrypt_jwe", sb.String())
			hd := c03Detail(rb)
			if perr != nil && strings.HasPrefix(hd, "invalid encrypt request: invalid receiver: ") {
				hd = "invalid encrypt request: invalid receiver: "
			}
			if hd != "invalid encrypt request: "+d {
				a.line(op, fmt.Sprintf("apiencval HANDLER-DIFFERS-FROM-VALIDATE %d %q vs %q", code, hd, d))
				return
			}
			a.line(op, fmt.Sprintf("apiencval %d detail=%q", code, hd))
			return
		}
		a.line(op, `apiencval 0 detail="validated"`)
	}
}

func c03ApiModelLeg(t *testing.T, out string, seed int64, thorough bool) {
	root := filepath.Join(out, "sandbox_api_model")
	_ = os.RemoveAll(root)
	defer os.RemoveAll(root)
	of, err := os.Create(filepath.Join(out, "api_ops.jsonl"))
	if err != nil {
		t.Fatal(err)
	}
	defer of.Close()
	imf, err := os.Create(filepath.Join(out, "api_impl.out"))
	if err != nil {
		t.Fatal(err)
	}
	defer imf.Close()
	a := &c03ApiLeg{t: t, root: root, ops: bufio.NewWriterSize(of, 1<<20), impl: bufio.NewWriterSize(imf, 1<<20), nameMap: map[string]string{}}
	defer a.ops.Flush()
	defer a.impl.Flush()
	known := map[string]bool{"reset": true, "apikey": true, "apilink": true, "apisignjwt": true, "apisignjws": true, "apidecrypt": true, "apiencval": true}
	replayFile := func(fn string) {
		f, err := os.Open(fn)
		if err != nil {
			return
		}
		defer f.Close()
		sc := bufio.NewScanner(f)
		sc.Buffer(make([]byte, 1<<20), 1<<26)
		started := false
		for sc.Scan() {
			var op map[string]interface{}
			if json.Unmarshal(sc.Bytes(), &op) != nil {
				continue
			}
			name, _ := op["op"].(string)
			if !known[name] || (name == "reset" && false) {
				continue
			}
			if !started && name != "reset" {
				a.exec(map[string]interface{}{"op": "reset"})
			}
			started = true
			a.exec(op)
		}
	}
	if rp := os.Getenv("VERIF_REPLAY"); rp != "" {
		replayFile(rp)
		return
	}
	if cd := os.Getenv("VERIF_CORPUS"); cd != "" {
		files, _ := filepath.Glob(filepath.Join(cd, "api-*.jsonl"))
		sort.Strings(files)
		for _, fn := range files {
			replayFile(fn)
		}
	}
	r := rand.New(rand.NewSource(seed*7919 + 3))
	pick := func(l []string) string { return l[r.Intn(len(l))] }
	flds := []string{"absent", "null", "empty", "present"}
	// mostly present, so that the later checks and the key store are reached
	fld := func() string {
		if r.Intn(5) == 0 {
			return pick(flds)
		}
		return "present"
	}
	privJWK := `{"kty":"EC","crv":"P-256","x":"MKBCTNIcKUSDii11ySs3526iDZ8AiTo7Tu6KPAqv7D4","y":"4Etl6SRW2YiLUrN5vfvVHuhp7x8PxltmWWlbbM4IFyM","d":"870MB6gfuTJ4HtUnUvYMyJpr5eUZNP4Bk43bVdj3eAE"}`
	pubJWK := `{"kty":"EC","crv":"P-256","x":"MKBCTNIcKUSDii11ySs3526iDZ8AiTo7Tu6KPAqv7D4","y":"4Etl6SRW2YiLUrN5vfvVHuhp7x8PxltmWWlbbM4IFyM"}`
	nSeq, nOps := 24, 40
	if thorough {
		nSeq, nOps = 300, 60
	}
	baseKids := []string{"did:web:example.com:iam:0#key-0", "did:a#1", "did:a#10", "DID:A#1", "did:b#1", "k", "did:%", "legacy key"}
	badNames := []string{"../escape", "..", "missing-name", "a/b", "%2e%2e"}
	for s := 0; s < nSeq; s++ {
		a.exec(map[string]interface{}{"op": "reset"})
		var kids []string // kids with a key created by New, index = key number
		used := map[string]bool{}
		nk := 1 + r.Intn(3)
		for i := 0; i < nk; i++ {
			kid := pick(baseKids)
			if used[kid] {
				continue
			}
			used[kid] = true
			kids = append(kids, kid)
			a.exec(map[string]interface{}{"op": "apikey", "kid": kid})
		}
		linked := []string{}
		anyKid := func() string {
			switch r.Intn(8) {
			case 0:
				return pick(baseKids) // maybe unknown in this sequence
			case 1:
				return pick([]string{"did:web:example.com:iam:9#nope", "../x", "..", "did:a#1 ", "did:a#"})
			case 2:
				if len(linked) > 0 {
					return pick(linked)
				}
			case 3: // a sibling spelling of a kid that HAS a key: must be an unknown kid to the wrapper and the key store
				k := pick(kids)
				if len(k) < 2 {
					return k + " "
				}
				return pick([]string{k + " ", " " + k, k + "\n", "\t" + k, strings.ToUpper(k), strings.ToLower(k), k + "0", k[:len(k)-1], strings.Replace(k, "#", "%23", 1), k + "#"})
			}
			return pick(kids)
		}
		for i := 0; i < nOps; i++ {
			switch r.Intn(12) {
			case 0: // re-point / bind a kid: to another key of the store, or to a name outside the namespace / without a key
				kid := pick(append([]string{"linked#1", "linked#2"}, kids...))
				name := pick(badNames)
				if r.Intn(2) == 0 && len(a.names) > 0 {
					name = pick(a.names)
				}
				linked = append(linked, kid)
				a.exec(map[string]interface{}{"op": "apilink", "kid": kid, "keyName": name, "version": "1"})
			case 1, 2:
				kf := fld()
				a.exec(map[string]interface{}{"op": "apisignjwt", "kidF": kf, "kid": anyKid(), "claimsF": fld()})
			case 3, 4, 5, 6, 7:
				var hdr []interface{}
				hf := fld()
				if hf == "present" {
					for j, n := 0, 1+r.Intn(4); j < n; j++ {
						name := pick([]string{"kid", "kid", "typ", "cty", "jwk", "jwk", "alg", "crit", "x", "x5c", "jku", "b64x"})
						var raw string
						switch r.Intn(7) {
						case 0:
							raw = privJWK
						case 1:
							raw = pubJWK
						case 2:
							raw = "5"
						case 3:
							raw = `["b64x"]`
						case 4:
							b, _ := json.Marshal(pick(append([]string{"forged", "ES256", "none", "JWT"}, kids...)))
							raw = string(b)
						case 5:
							raw = pick([]string{"true", "null", `{"a":1}`, `""`})
						default:
							raw = `"v"`
						}
						hdr = append(hdr, map[string]interface{}{"n": name, "j": raw})
					}
				}
				op := map[string]interface{}{"op": "apisignjws", "kidF": fld(), "kid": anyKid(), "headersF": hf, "hdr": hdr, "payloadF": fld(), "payload": "payload " + fmt.Sprint(i)}
				if hdr == nil {
					op["hdr"] = []interface{}{}
				}
				switch r.Intn(4) {
				case 0:
					op["detached"] = true
				case 1:
					op["detached"] = false
				}
				a.exec(op)
			case 8, 9:
				if r.Intn(3) == 0 {
					a.exec(map[string]interface{}{"op": "apidecrypt", "messageF": fld(), "msg": "garbage",
						"raw": pick([]string{"a.b.c.d.e", "not a jwe", "eyJhbGciOiJFQ0RILUVTK0EyNTZLVyIsImtpZCI6Ii4uIn0.a.b.c.d"})})
				} else {
					hk := anyKid()
					if r.Intn(8) == 0 {
						hk = ""
					}
					a.exec(map[string]interface{}{"op": "apidecrypt", "messageF": fld(), "msg": "jwe", "hkid": hk, "encFor": r.Intn(len(a.pubs))})
				}
			default:
				var hdr []interface{}
				if r.Intn(3) == 0 {
					hdr = append(hdr, map[string]interface{}{"n": pick([]string{"kid", "typ", "Kid"}), "j": `"x"`})
				}
				hf := fld()
				if hf == "present" && len(hdr) == 0 {
					hdr = append(hdr, map[string]interface{}{"n": "typ", "j": `"x"`})
				}
				if hdr == nil {
					hdr = []interface{}{}
				}
				a.exec(map[string]interface{}{"op": "apiencval", "receiverF": fld(), "receiver": pick(append([]string{"not a did", "did:web:example.com", "did:x", ":", "did:a#1#2"}, kids...)),
					"headersF": hf, "hdr": hdr, "payloadF": fld()})
			}
		}
	}
	_ = bytes.MinRead
}
