//go:build verif

package http

// C04 correspondence harness (in-package, injected with `go test -overlay`; nothing is written into /repo).
// Real http.Engine (Configure + Start) with token_v2 authentication, canary handlers, RAW TCP request lines
// (net/http clients only emit origin-form targets). Observed per request: status code, which canary ran,
// core.UserContextKey seen by it. Also a differential of `matchesPath` and `getBindFromPath`.

import (
	"bufio"
	"crypto/ecdsa"
	"crypto/ed25519"
	"crypto/elliptic"
	crand "crypto/rand"
	b64 "encoding/base64"
	"encoding/hex"
	"encoding/json"
	"fmt"
	"io"
	"math/rand"
	"net"
	"net/http/httptest"
	"net/url"
	"os"
	"path/filepath"
	"strconv"
	"strings"
	"sync"
	"testing"
	"time"

	"github.com/google/uuid"
	"github.com/labstack/echo/v4"
	"github.com/lestrrat-go/jwx/v2/jwa"
	"github.com/lestrrat-go/jwx/v2/jwk"
	"github.com/lestrrat-go/jwx/v2/jwt"
	"github.com/nuts-foundation/nuts-node/core"
	"github.com/nuts-foundation/nuts-node/test"
	"github.com/sirupsen/logrus"
	"golang.org/x/crypto/ssh"
)

type vc04Route struct {
	ID     int    `json:"id"`
	Method string `json:"m"`
	Path   string `json:"p"`
}

var vc04Routes = []vc04Route{
	{0, "GET", "/internal/x"},
	{1, "GET", "/internal/x/:id"},
	{2, "POST", "/internal/x/:id"},
	{3, "GET", "/internal"},
	{4, "GET", "/internal/deep/*"},
	{5, "GET", "/internal/p/:a/sub"},
	{6, "GET", "/internal/p/:a"},
	{7, "GET", "/status"},
	{8, "GET", "/metrics"},
	{9, "GET", "/health"},
	{10, "GET", "/public"},
	{11, "GET", "/public/:id"},
	{12, "GET", "/:seg/pub"},
	{13, "GET", "/Internal/case"},
	{14, "CONNECT", "/internal/c"},
	{15, "GET", "/status/sub/:id"},
	{16, "GET", "/"},
	{17, "DELETE", "/internal/x"},
	{18, "GET", "/METRICS/upper"},
	{19, "GET", "/internal/w/*"},
	{20, "DELETE", "/internal/vdr/v1/did/:did"},
	{21, "POST", "/internal/w/*"},
	{22, "OPTIONS", "/internal/x"},
	{23, "OPTIONS", "/internal/w/*"},
	{24, "TRACE", "/internal/x"},
	{25, "HEAD", "/internal/x"},
	{26, "PROPFIND", "/internal/x"},
	{27, "PUT", "/internal/x/:id"},
	{28, "PATCH", "/internal/x/:id"},
	{29, "OPTIONS", "/internal/vdr/v1/did/:did"},
	{30, "OPTIONS", "/public"},
	{31, "POST", "/internal/vdr/v1/did"},       // rate-limited by the engine's internal rate limiter (burst 30)
	{32, "POST", "/internal/vcr/v2/issuer/vc"}, // idem
	{33, "POST", "/public"},
	{34, "POST", "/public/:id"},
	{35, "PUT", "/internal/vdr/v1/did/:did"},                // rate-limited (PUT row of the table)
	{36, "GET", "/internal/vdr/v2/subject"},                 // a POST here is a 405 whose node path IS in the limiter's POST row
	{37, "POST", "/internal/vdr/v2/subject/:sid/service"},   // the table says :id — c.Path() differs, not limited
	{38, "POST", "/internal/didman/v1/did/:did/endpoint"},   // rate-limited, parameter in the middle
}

// request headers that proxies, browsers and frameworks give a meaning to: none of them may influence the guard
var vc04ExtraHeaders = []string{
	"Access-Control-Request-Method: POST", "Access-Control-Request-Method: DELETE", "Access-Control-Request-Headers: authorization",
	"Origin: https://evil.example", "Origin: null", "X-Forwarded-For: 127.0.0.1", "X-Forwarded-Host: localhost", "X-Forwarded-Proto: https",
	"X-Real-Ip: 127.0.0.1", "Forwarded: for=127.0.0.1;host=localhost", "Upgrade: h2c", "Upgrade: websocket", "X-Http-Method-Override: GET",
	"X-Original-Url: /public", "X-Rewrite-Url: /public", "Cookie: session=admin", "Proxy-Authorization: Bearer x", "Expect: 100-continue",
	"Referer: http://localhost/internal/x", "Sec-Fetch-Mode: cors", "Content-Type: application/json",
}

func vc04PickHeaders(r *rand.Rand) []string {
	if r.Intn(2) == 0 {
		return nil
	}
	n := 1 + r.Intn(3)
	var res []string
	seen := map[string]bool{}
	for i := 0; i < n; i++ {
		h := vc04ExtraHeaders[r.Intn(len(vc04ExtraHeaders))]
		k := h[:strings.Index(h, ":")]
		if !seen[k] && k != "Expect" {
			seen[k] = true
			res = append(res, h)
		}
	}
	return res
}

type vc04Obs struct {
	mu   sync.Mutex
	ran  int
	user string
}

var vc04Seen vc04Obs

type vc04Key struct {
	comment string
	jwk     jwk.Key
	alg     jwa.SignatureAlgorithm
	line    string
}

func vc04NewKey(t *testing.T, kind, comment string) vc04Key {
	var pub, priv interface{}
	var alg jwa.SignatureAlgorithm
	switch kind {
	case "ed":
		p, s, err := ed25519.GenerateKey(crand.Reader)
		if err != nil {
			t.Fatal(err)
		}
		pub, priv, alg = p, s, jwa.EdDSA
	default:
		s, err := ecdsa.GenerateKey(elliptic.P256(), crand.Reader)
		if err != nil {
			t.Fatal(err)
		}
		pub, priv, alg = &s.PublicKey, s, jwa.ES256
	}
	sshPub, err := ssh.NewPublicKey(pub)
	if err != nil {
		t.Fatal(err)
	}
	k, err := jwk.FromRaw(priv)
	if err != nil {
		t.Fatal(err)
	}
	_ = k.Set(jwk.KeyIDKey, ssh.FingerprintSHA256(sshPub))
	return vc04Key{comment: comment, jwk: k, alg: alg,
		line: fmt.Sprintf("%v %v %v", sshPub.Type(), b64.StdEncoding.EncodeToString(sshPub.Marshal()), comment)}
}

type vc04Claims struct {
	Jti *bool    `json:"jti"`
	Iat *int64   `json:"iat"`
	Nbf *int64   `json:"nbf"`
	Exp *int64   `json:"exp"`
	Aud []string `json:"aud"`
	Iss *string  `json:"iss"`
	Sub *string  `json:"sub"`
}

type vc04Sig struct {
	Alg  string   `json:"alg"`
	Hdrs []string `json:"hdrs"`
}

type vc04Tok struct {
	Parses   bool       `json:"parses"`
	Sigs     []vc04Sig  `json:"sigs"`
	Verifies []bool     `json:"verifies"`
	Claims   vc04Claims `json:"claims"`
}

// a credential of a named kind, the Authorization header carrying it, and what the libraries say about it
// (by construction: these are plain single-signature compact tokens; the tokenV2 harness checks the analysis
// against the real libraries for hostile shapes)
type vc04Cred struct {
	kind string
	hdr  string
	tok  vc04Tok
}

func vc04MakeCreds(t *testing.T, keys []vc04Key, attacker vc04Key, aud string, now time.Time) []vc04Cred {
	p := func(v int64) *int64 { return &v }
	s := func(v string) *string { return &v }
	tr := true
	mk := func(signer vc04Key, iss string, iat, nbf, exp time.Time, audience string) (string, vc04Claims) {
		tok, err := jwt.NewBuilder().Issuer(iss).Subject("subject-1").Audience([]string{audience}).IssuedAt(iat).NotBefore(nbf).
			Expiration(exp).JwtID(uuid.NewString()).Build()
		if err != nil {
			t.Fatal(err)
		}
		b, err := jwt.NewSerializer().Sign(jwt.WithKey(signer.alg, signer.jwk)).Serialize(tok)
		if err != nil {
			t.Fatal(err)
		}
		return string(b), vc04Claims{Jti: &tr, Iat: p(iat.Unix()), Nbf: p(nbf.Unix()), Exp: p(exp.Unix()), Aud: []string{audience}, Iss: s(iss), Sub: s("subject-1")}
	}
	ver := func(signer vc04Key) []bool {
		var r []bool
		for _, k := range keys {
			r = append(r, k.comment == signer.comment)
		}
		return r
	}
	one := func(k vc04Key) []vc04Sig { return []vc04Sig{{Alg: string(k.alg), Hdrs: []string{}}} }
	var out []vc04Cred
	out = append(out, vc04Cred{kind: "none", hdr: "", tok: vc04Tok{Sigs: []vc04Sig{}, Verifies: ver(attacker)}})
	for i, k := range keys {
		c, cl := mk(k, k.comment, now.Add(-time.Minute), now.Add(-time.Minute), now.Add(time.Hour), aud)
		out = append(out, vc04Cred{kind: fmt.Sprintf("valid%d", i), hdr: "Bearer " + c, tok: vc04Tok{Parses: true, Sigs: one(k), Verifies: ver(k), Claims: cl}})
		if i == 0 {
			out = append(out, vc04Cred{kind: "valid-lowercase-scheme", hdr: "bEARER\t" + c, tok: vc04Tok{Parses: true, Sigs: one(k), Verifies: ver(k), Claims: cl}})
			out = append(out, vc04Cred{kind: "basic-scheme", hdr: "Basic " + c, tok: vc04Tok{Parses: true, Sigs: one(k), Verifies: ver(k), Claims: cl}})
			out = append(out, vc04Cred{kind: "three-fields", hdr: "Bearer " + c + " x", tok: vc04Tok{Parses: true, Sigs: one(k), Verifies: ver(k), Claims: cl}})
		}
	}
	k0 := keys[0]
	c, cl := mk(k0, k0.comment, now.Add(-2*time.Hour), now.Add(-2*time.Hour), now.Add(-time.Hour), aud)
	out = append(out, vc04Cred{kind: "expired", hdr: "Bearer " + c, tok: vc04Tok{Parses: true, Sigs: one(k0), Verifies: ver(k0), Claims: cl}})
	c, cl = mk(k0, k0.comment, now.Add(-time.Minute), now.Add(-time.Minute), now.Add(time.Hour), "other-audience")
	out = append(out, vc04Cred{kind: "wrong-audience", hdr: "Bearer " + c, tok: vc04Tok{Parses: true, Sigs: one(k0), Verifies: ver(k0), Claims: cl}})
	c, cl = mk(k0, keys[1].comment, now.Add(-time.Minute), now.Add(-time.Minute), now.Add(time.Hour), aud)
	out = append(out, vc04Cred{kind: "issuer-of-other-key", hdr: "Bearer " + c, tok: vc04Tok{Parses: true, Sigs: one(k0), Verifies: ver(k0), Claims: cl}})
	c, cl = mk(k0, k0.comment, now.Add(-time.Minute), now.Add(-time.Minute), now.Add(30*time.Hour), aud)
	out = append(out, vc04Cred{kind: "too-long-lived", hdr: "Bearer " + c, tok: vc04Tok{Parses: true, Sigs: one(k0), Verifies: ver(k0), Claims: cl}})
	c, cl = mk(attacker, k0.comment, now.Add(-time.Minute), now.Add(-time.Minute), now.Add(time.Hour), aud)
	out = append(out, vc04Cred{kind: "attacker-key", hdr: "Bearer " + c, tok: vc04Tok{Parses: true, Sigs: one(attacker), Verifies: ver(attacker), Claims: cl}})
	out = append(out, vc04Cred{kind: "garbage", hdr: "Bearer invalid", tok: vc04Tok{Sigs: []vc04Sig{}, Verifies: ver(attacker)}})
	// headers that are non-empty but consist of (Unicode) white space only, or of a single field: zero / one field after strings.Fields
	for _, kv := range [][2]string{{"ws-nbsp", "\u00a0"}, {"ws-nel", "\u0085"}, {"ws-emspace", "\u2003"}, {"ws-ideographic", "\u3000"},
		{"ws-mixed", "\u00a0 \t\u2003\u3000"}, {"one-field", "Bearer"}, {"one-field-nbsp", "\u00a0Bearer\u00a0"}} {
		out = append(out, vc04Cred{kind: kv[0], hdr: kv[1], tok: vc04Tok{Sigs: []vc04Sig{}, Verifies: ver(attacker)}})
	}
	return out
}

type vc04Engine struct {
	name     string
	engine   *Engine
	intAddr  string
	pubAddr  string
	auth     bool
	shutdown func()
}

// core.ServerConfig handed to Configure by the next vc04StartEngine call (nil: the defaults — strict mode, did:web + did:nuts)
var vc04NextServerCfg *core.ServerConfig

func vc04StartEngine(t *testing.T, name string, sameAddr, auth bool, keysFile, aud string, routes []vc04Route) *vc04Engine {
	e := New(func() {}, nil)
	cfg := DefaultConfig()
	cfg.Internal.Address = fmt.Sprintf("127.0.0.1:%d", test.FreeTCPPort())
	if sameAddr {
		cfg.Public.Address = cfg.Internal.Address
	} else {
		cfg.Public.Address = fmt.Sprintf("127.0.0.1:%d", test.FreeTCPPort())
	}
	if auth {
		cfg.Internal.Auth = AuthConfig{Type: BearerTokenAuthV2, AuthorizedKeysPath: keysFile, Audience: aud}
	}
	if name == "F" || name == "G" { // request bodies are logged: the body logger reads the whole body in front of the token middleware
		cfg.Log = LogMetadataAndBodyLevel
	}
	e.config = cfg
	srvCfg := *core.NewServerConfig()
	if vc04NextServerCfg != nil {
		srvCfg, vc04NextServerCfg = *vc04NextServerCfg, nil
	}
	if err := e.Configure(srvCfg); err != nil {
		t.Fatalf("configure %s: %v", name, err)
	}
	for _, r := range routes {
		id := r.ID
		h := func(c echo.Context) error {
			vc04Seen.mu.Lock()
			vc04Seen.ran = id
			if u, ok := c.Get(core.UserContextKey).(string); ok {
				vc04Seen.user = "user:" + u
			} else {
				vc04Seen.user = "-"
			}
			vc04Seen.mu.Unlock()
			// the response itself names the handler and the user it saw (needed when requests overlap)
			c.Response().Header().Set("X-Verif-Ran", strconv.Itoa(id))
			if u, ok := c.Get(core.UserContextKey).(string); ok {
				c.Response().Header().Set("X-Verif-User", "user:"+u)
			}
			return c.NoContent(200)
		}
		e.Router().Add(r.Method, r.Path, h)
	}
	if err := e.Start(); err != nil {
		t.Fatal(err)
	}
	for _, a := range []string{cfg.Internal.Address, cfg.Public.Address} {
		ok := false
		for i := 0; i < 100 && !ok; i++ {
			if c, err := net.DialTimeout("tcp", a, 100*time.Millisecond); err == nil {
				c.Close()
				ok = true
			} else {
				time.Sleep(20 * time.Millisecond)
			}
		}
		if !ok {
			t.Fatalf("engine %s did not start on %s", name, a)
		}
	}
	return &vc04Engine{name: name, engine: e, intAddr: cfg.Internal.Address, pubAddr: cfg.Public.Address, auth: auth, shutdown: func() { _ = e.Shutdown() }}
}

// one raw request; returns the status code (0 = no parsable status line)
func vc04Raw(addr, method string, target []byte, authHdr string, extra []string) int {
	conn, err := net.DialTimeout("tcp", addr, 2*time.Second)
	if err != nil {
		return -1
	}
	defer conn.Close()
	_ = conn.SetDeadline(time.Now().Add(5 * time.Second))
	var sb strings.Builder
	sb.WriteString(method + " ")
	sb.Write(target)
	sb.WriteString(" HTTP/1.1\r\nHost: verif.test\r\nConnection: close\r\n")
	if authHdr != "" {
		sb.WriteString("Authorization: " + authHdr + "\r\n")
	}
	for _, h := range extra {
		sb.WriteString(h + "\r\n")
	}
	sb.WriteString("Content-Length: 0\r\n\r\n")
	if _, err := io.WriteString(conn, sb.String()); err != nil {
		return -2
	}
	line, err := bufio.NewReader(conn).ReadString('\n')
	if err != nil && line == "" {
		return 0
	}
	parts := strings.SplitN(strings.TrimSpace(line), " ", 3)
	if len(parts) < 2 {
		return 0
	}
	code, _ := strconv.Atoi(parts[1])
	_, _ = io.Copy(io.Discard, conn)
	return code
}

// one raw request whose header block is exactly `block` (one element per line)
func vc04RawBlock(addr, method string, target []byte, block []string) int {
	conn, err := net.DialTimeout("tcp", addr, 2*time.Second)
	if err != nil {
		return -1
	}
	defer conn.Close()
	_ = conn.SetDeadline(time.Now().Add(5 * time.Second))
	var sb strings.Builder
	sb.WriteString(method + " ")
	sb.Write(target)
	sb.WriteString(" HTTP/1.1\r\n")
	for _, h := range block {
		sb.WriteString(h + "\r\n")
	}
	sb.WriteString("\r\n")
	if _, err := io.WriteString(conn, sb.String()); err != nil {
		return -2
	}
	line, err := bufio.NewReader(conn).ReadString('\n')
	if err != nil && line == "" {
		return 0
	}
	parts := strings.SplitN(strings.TrimSpace(line), " ", 3)
	if len(parts) < 2 {
		return 0
	}
	code, _ := strconv.Atoi(parts[1])
	_, _ = io.Copy(io.Discard, conn)
	return code
}

// one raw request whose response HEADERS are read: status, the canary that answered and the user it saw. `pause` is called
// after the request head and the first body bytes were written and before the rest of the body is sent.
func vc04RawSlow(addr, method, path, authHdr string, body string, pause func()) string {
	conn, err := net.DialTimeout("tcp", addr, 2*time.Second)
	if err != nil {
		return "-1 ran=- -"
	}
	defer conn.Close()
	_ = conn.SetDeadline(time.Now().Add(10 * time.Second))
	var sb strings.Builder
	sb.WriteString(method + " " + path + " HTTP/1.1\r\nHost: verif.test\r\nConnection: close\r\nContent-Type: application/json\r\n")
	if authHdr != "" {
		sb.WriteString("Authorization: " + authHdr + "\r\n")
	}
	sb.WriteString("Content-Length: " + strconv.Itoa(len(body)) + "\r\n\r\n")
	half := len(body) / 2
	sb.WriteString(body[:half])
	if _, err := io.WriteString(conn, sb.String()); err != nil {
		return "-2 ran=- -"
	}
	if pause != nil {
		pause()
	}
	if _, err := io.WriteString(conn, body[half:]); err != nil {
		return "-2 ran=- -"
	}
	rd := bufio.NewReader(conn)
	line, err := rd.ReadString('\n')
	if err != nil && line == "" {
		return "0 ran=- -"
	}
	parts := strings.SplitN(strings.TrimSpace(line), " ", 3)
	code := 0
	if len(parts) >= 2 {
		code, _ = strconv.Atoi(parts[1])
	}
	ran, user := "-", "-"
	for {
		h, err := rd.ReadString('\n')
		h = strings.TrimSpace(h)
		if h == "" || err != nil {
			break
		}
		if v, ok := strings.CutPrefix(h, "X-Verif-Ran: "); ok {
			ran = v
		}
		if v, ok := strings.CutPrefix(h, "X-Verif-User: "); ok {
			user = v
		}
	}
	return fmt.Sprintf("%d ran=%s %s", code, ran, user)
}

// every authority candidate of the target (text between a `//` and the next `/`, `?` or the end) with the verdict
// of the real url.parseAuthority (through url.ParseRequestURI("http://" + candidate + "/"))
func vc04AuthorityVerdicts(method string, target []byte) map[string]bool {
	s := string(target)
	if method == "CONNECT" && !strings.HasPrefix(s, "/") {
		s = "http://" + s
	}
	res := map[string]bool{}
	for i := 0; i+1 < len(s); i++ {
		if s[i] == '/' && s[i+1] == '/' {
			rest := s[i+2:]
			if j := strings.IndexAny(rest, "/?"); j >= 0 {
				rest = rest[:j]
			}
			_, err := url.ParseRequestURI("http://" + rest + "/")
			res[hex.EncodeToString([]byte(rest))] = err == nil
		}
	}
	return res
}

// ---------------------------------------------------------------- generator

var vc04BasePaths = []string{
	"/internal/x", "/internal/x/42", "/internal", "/internal/", "/internal/deep/a/b", "/internal/deep/", "/internal/deep", "/internal/p/v/sub",
	"/internal/p/v", "/internal/p//sub", "/internal/x/a/b", "/internal/x/", "/internal/nope", "/status", "/metrics", "/health", "/status/sub/1",
	"/public", "/public/7", "/internal/pub", "/foo/pub", "/Internal/case", "/internal/case", "/INTERNAL/x", "/internal/c", "/", "/nothing",
	"/internalx", "/internal.x", "/METRICS/upper", "/metrics/upper", "/Status", "/HEALTH",
}

var vc04Authorities = []string{"x", "verif.test", "127.0.0.1:80", "localhost:8081", "evil.example", "[::1]:80", "user@h", "a:b", "h:80:90", "", "%41", "a b", "h%20x", "internal"}

func vc04MutatePath(r *rand.Rand, p string) string {
	b := []byte(p)
	n := []int{1, 1, 1, 2, 2, 3}[r.Intn(6)]
	// weights: structure-preserving mutations are frequent, destructive ones (malformed escape, CTL, delete, truncate) rare
	kinds := []int{0, 0, 0, 1, 1, 2, 2, 3, 3, 4, 4, 6, 6, 7, 7, 10, 10, 10, 5, 8, 9, 11}
	for k := 0; k < n && len(b) > 0; k++ {
		i := r.Intn(len(b))
		switch kinds[r.Intn(len(kinds))] {
		case 0: // percent-encode a byte (upper/lower hex)
			f := "%%%02X"
			if r.Intn(2) == 0 {
				f = "%%%02x"
			}
			b = append(b[:i], append([]byte(fmt.Sprintf(f, b[i])), b[i+1:]...)...)
		case 1: // encoded slash / dot / special byte inserted
			ins := []string{"%2F", "%2f", "%2E", "%00", "%25", "%3F", "%23", "%20", "%5C", "%FF"}[r.Intn(10)]
			b = append(b[:i], append([]byte(ins), b[i:]...)...)
		case 2: // duplicate slash
			b = append(b[:i], append([]byte("/"), b[i:]...)...)
		case 3: // dot segments
			ins := []string{"/./", "/../", "/.", "/..", "./", "../internal/"}[r.Intn(6)]
			b = append(b[:i], append([]byte(ins), b[i:]...)...)
		case 4: // case flip
			if b[i] >= 'a' && b[i] <= 'z' {
				b[i] -= 32
			} else if b[i] >= 'A' && b[i] <= 'Z' {
				b[i] += 32
			}
		case 5: // malformed escape
			ins := []string{"%", "%2", "%zz", "%G0", "%0g"}[r.Intn(5)]
			b = append(b[:i], append([]byte(ins), b[i:]...)...)
		case 6: // trailing slash
			b = append(b, '/')
		case 7: // odd but legal bytes
			ins := []string{";", ";a=b", "#", "#frag", "\\", "!", "'", "\"", "<", "|", "\x80", "\xc3\xa9", "+", "~", "@", ":"}[r.Intn(16)]
			b = append(b[:i], append([]byte(ins), b[i:]...)...)
		case 8: // control byte or space (net/http answers 400)
			ins := []string{"\t", "\x01", "\x7f", " "}[r.Intn(4)]
			b = append(b[:i], append([]byte(ins), b[i:]...)...)
		case 9: // delete a byte
			b = append(b[:i], b[i+1:]...)
		case 10: // encoded path separator variants of the first segment
			if strings.HasPrefix(string(b), "/internal") {
				b = append([]byte([]string{"/%69nternal", "/intern%61l", "/%2Finternal", "/internal%2F", "/.%2Finternal"}[r.Intn(5)]), b[len("/internal"):]...)
			}
		case 11: // truncate
			b = b[:i]
		}
	}
	return string(b)
}

// a random route table (engine D): exercises the router model (static / :param / * segments, leaf and inner
// params, priorities, backtracking) beyond the fixed canary set. First segments keep the bind clear.
func vc04RandomRoutes(r *rand.Rand, n int) []vc04Route {
	var res []vc04Route
	seen := map[string]bool{}
	for tries := 0; len(res) < n && tries < 400; tries++ {
		p := "/" + []string{"internal", "internal", "internal", "pub", "status"}[r.Intn(5)]
		depth := 1 + r.Intn(3)
		for d := 0; d < depth; d++ {
			switch k := r.Intn(10); {
			case k < 5:
				p += "/" + []string{"a", "b", "ab", "x", "internal"}[r.Intn(5)]
			case k < 8:
				p += "/:p" + strconv.Itoa(d)
			default:
				if d == depth-1 {
					p += "/*"
				} else {
					p += "/a"
				}
			}
		}
		m := []string{"GET", "GET", "GET", "POST"}[r.Intn(4)]
		// echo keeps ONE param name per tree position: normalise so that two routes never disagree on it
		if seen[m+" "+p] {
			continue
		}
		seen[m+" "+p] = true
		res = append(res, vc04Route{ID: 100 + len(res), Method: m, Path: p})
	}
	return res
}

// request paths that instantiate the patterns of a route table (params / any filled with various values)
func vc04BasePathsOf(r *rand.Rand, routes []vc04Route) []string {
	var res []string
	for _, rt := range routes {
		for k := 0; k < 4; k++ {
			var segs []string
			for _, sg := range strings.Split(strings.TrimPrefix(rt.Path, "/"), "/") {
				switch {
				case strings.HasPrefix(sg, ":"):
					segs = append(segs, []string{"v", "42", "a", "b", "", "ab", "x%2Fy"}[r.Intn(7)])
				case sg == "*":
					segs = append(segs, []string{"", "x", "x/y", "a/b/c"}[r.Intn(4)])
				default:
					segs = append(segs, sg)
				}
			}
			res = append(res, "/"+strings.Join(segs, "/"))
		}
		res = append(res, rt.Path+"/extra", strings.TrimSuffix(rt.Path, "/*"))
	}
	return res
}

// encoded-slash traversal INSIDE the last path parameter / wildcard of a route: echo dispatches on the escaped path
// (`x%2F..%2F..` is ONE segment), a guard that decodes and cleans the path would see it climb out of /internal
func vc04Traversal(r *rand.Rand) string {
	prefix := []string{"/internal/x/", "/internal/w/", "/internal/vdr/v1/did/", "/internal/deep/", "/internal/p/", "/internal/x/a/",
		"/status/sub/", "/public/"}[r.Intn(8)]
	slash := []string{"%2F", "%2f", "%2F", "/"}
	dots := []string{"..", "%2E%2E", "%2e%2e", "%2E.", ".%2e", "%2e%2E", "."}
	var sb strings.Builder
	sb.WriteString(prefix)
	sb.WriteString([]string{"x", "did:nuts:abc", "", "a", ".."}[r.Intn(5)])
	n := 1 + r.Intn(8)
	for i := 0; i < n; i++ {
		sb.WriteString(slash[r.Intn(len(slash))])
		sb.WriteString(dots[r.Intn(len(dots))])
	}
	switch r.Intn(6) {
	case 0:
		sb.WriteString("%2Fpublic")
	case 1:
		sb.WriteString("%2F")
	case 2:
		sb.WriteString("/sub")
	}
	return sb.String()
}

func vc04Query(r *rand.Rand) string {
	switch r.Intn(8) {
	case 0:
		return "?"
	case 1:
		return "?a=b"
	case 2:
		return "??"
	case 3:
		return "?/internal/x"
	case 4:
		return "?x=%zz"
	case 5:
		return "?a=b?c=d/"
	}
	return ""
}

// path SEGMENTS that look like (parts of) a request target — "://", "?" and "#", literal and %-encoded — in parameter and
// catch-all positions of /internal routes: a guard that "normalises" its input (strips a scheme/authority or a query) before
// the prefix test would lose the /internal prefix of the DECODED path while the router still dispatches on it
func vc04SchemeInSegment(r *rand.Rand) string {
	prefix := []string{"/internal/x/", "/internal/w/", "/internal/deep/", "/internal/vdr/v1/did/", "/internal/p/", "/internal/x/a/", "/internal/w/a/b/",
		"/public/", "/status/sub/"}[r.Intn(9)]
	seg := []string{"https:%2F%2Fexample.com", "urn:svc%3A%2F%2Fa", "http%3A%2F%2Fh", "x%3a%2f%2Fy", "HTTP:%2f%2FH%2Finternal", "a:%2F/b", "did:web:h%3A%2F%2Fx",
		"http://evil.example/x", "s://", "a%3A//b/c", "://", "%3A%2F%2F", "a%3Fb", "a%3fb=c", "id%3Fx=1%26y", "a%23b", "a%23frag%3Fq", "a%3Fq:%2F%2Fb",
		"https:%2F%2Fexample.com%3Fq%23f", "x:%2F%2F%2E%2E%2F%2E%2E"}[r.Intn(20)]
	p := prefix + seg
	switch r.Intn(6) {
	case 0:
		p += "/sub"
	case 1:
		p += "/"
	case 2:
		p = strings.Replace(p, "/internal/", "/internal/x/../", 1)
	}
	return p
}

func vc04Target(r *rand.Rand, method string, bases []string) []byte {
	p := bases[r.Intn(len(bases))]
	if k := r.Intn(16); k < 2 {
		p = vc04Traversal(r)
	} else if k < 4 {
		p = vc04SchemeInSegment(r)
	} else if r.Intn(2) == 0 {
		p = vc04MutatePath(r, p)
	}
	p += vc04Query(r)
	auth := vc04Authorities[r.Intn(5)] // mostly authorities the parser accepts
	if r.Intn(4) == 0 {
		auth = vc04Authorities[r.Intn(len(vc04Authorities))]
	}
	form := []int{0, 0, 0, 0, 0, 0, 1, 3, 3, 4, 5, 5, 6, 7, 8, 9, 10, 11, 12, 13, 14, 99, 99, 99, 99, 99, 99, 99, 99, 99, 99}[r.Intn(31)]
	if method == "CONNECT" && r.Intn(2) == 0 {
		form = 12 + r.Intn(3)
	}
	switch form {
	case 0, 1, 2:
		sch := []string{"http", "https", "HTTP", "hTTp", "ws", "x", "a+b-c.d", "h2c", "file"}[r.Intn(9)]
		return []byte(sch + "://" + auth + p)
	case 3:
		return []byte("http:" + p) // scheme, no authority: rooted path
	case 4:
		return []byte("x:" + strings.TrimPrefix(p, "/")) // opaque
	case 5:
		return []byte("/" + p) // leading double slash, no scheme
	case 6:
		return []byte(":" + p)
	case 7:
		return []byte("1http://" + auth + p)
	case 8:
		return []byte(strings.TrimPrefix(p, "/"))
	case 9:
		return []byte("*")
	case 10:
		return []byte("http://" + auth) // no path
	case 11:
		return []byte("http://" + auth + "?" + p)
	case 12:
		return []byte(auth)
	case 13:
		return []byte(auth + p)
	case 14:
		return []byte("localhost:80" + p)
	}
	return []byte(p)
}

type vc04Op struct {
	Op     string          `json:"op"`
	Eng    string          `json:"eng,omitempty"`
	Lis    string          `json:"lis,omitempty"`
	M      string          `json:"m,omitempty"`
	T      string          `json:"t,omitempty"` // hex of the request target bytes
	Show   string          `json:"show,omitempty"`
	AuthOK map[string]bool `json:"authok,omitempty"`
	Cred   string          `json:"cred,omitempty"`
	HX     []string        `json:"hx,omitempty"` // extra request headers
	Tag    string          `json:"tag,omitempty"`
	ReqA   *vc04Op         `json:"ra,omitempty"` // overlap: the slow request
	ReqB   *vc04Op         `json:"rb,omitempty"` // overlap: the request served while A is waiting for the rest of its body
	Hdr    string          `json:"hdr,omitempty"`
	Tok    *vc04Tok        `json:"tok,omitempty"`
	HBK    string          `json:"hbk,omitempty"`   // header-block leg: name of the shape (the lines are rebuilt from it on replay)
	HB     []string        `json:"hb,omitempty"`    // header-block leg: hex of ALL header lines of the request, as written
	Cands  []vc04Cand      `json:"cands,omitempty"` // header-block leg: what the libraries say about each header value that occurs in the block
	A      string          `json:"a,omitempty"`
	B      string          `json:"b,omitempty"`
	Strict bool            `json:"strict,omitempty"` // lim: core.ServerConfig.Strictmode
	Flag   bool            `json:"flag,omitempty"`   // lim: core.ServerConfig.InternalRateLimiter
	DM     []string        `json:"dm,omitempty"`     // lim: core.ServerConfig.DIDMethods
	Calls  []vc04LimCall   `json:"calls,omitempty"`  // lim: (method, c.Path()) of the requests handed to the installed middleware
}

type vc04Cand struct {
	V   string  `json:"v"` // hex of the header value
	Tok vc04Tok `json:"tok"`
}

// the header-block shapes: name -> (lines, credential kind the oracle judges the request by). T = a valid credential of key 0,
// G = garbage, X = an expired token. A request that carries T anywhere is judged as "valid0" (granting is ALLOWED, never demanded).
var vc04HeaderShapes = []string{"hb-lowercase-name", "hb-uppercase-name", "hb-mixed-name-no-blank", "hb-ows-around", "hb-first-valid-then-garbage",
	"hb-first-garbage-then-valid", "hb-first-empty-then-valid", "hb-expired-then-garbage", "hb-x-authorization", "hb-proxy-authorization",
	"hb-authorization-suffix", "hb-garbage-then-proxy-valid", "hb-two-values-comma", "hb-valid-after-other-headers", "hb-expired-then-valid-then-garbage",
	"hb-empty-value", "hb-blank-value", "hb-empty-then-garbage", "hb-garbage-twice", "hb-scheme-only-then-expired",
	"hb-space-before-colon", "hb-obs-fold", "hb-no-colon-line", "hb-empty-name", "hb-name-with-slash", "hb-fold-first-line", "hb-tab-before-colon",
	"hb-bad-line-after-valid", "hb-name-nonascii", "hb-value-ctl", "hb-name-underscore", "hb-block-starts-folded"}

func vc04HeaderBlock(shape string, credByKind map[string]vc04Cred) (lines []string, cands []vc04Cand, credKind string) {
	T, G, X := credByKind["valid0"].hdr, credByKind["garbage"].hdr, credByKind["expired"].hdr
	for _, k := range []string{"valid0", "garbage", "expired"} {
		cands = append(cands, vc04Cand{V: hex.EncodeToString([]byte(credByKind[k].hdr)), Tok: credByKind[k].tok})
	}
	credKind = "valid0"
	switch shape {
	case "hb-lowercase-name":
		lines = []string{"authorization: " + T}
	case "hb-uppercase-name":
		lines = []string{"AUTHORIZATION: " + T}
	case "hb-mixed-name-no-blank":
		lines = []string{"aUtHoRiZaTiOn:" + T}
	case "hb-ows-around":
		lines = []string{"Authorization: \t " + T + " \t "}
	case "hb-first-valid-then-garbage":
		lines = []string{"Authorization: " + T, "Authorization: " + G}
	case "hb-first-garbage-then-valid":
		lines = []string{"Authorization: " + G, "authorization: " + T}
	case "hb-first-empty-then-valid":
		lines = []string{"Authorization: ", "Authorization: " + T}
	case "hb-expired-then-garbage":
		lines, credKind = []string{"Authorization: " + X, "Authorization: " + G}, "expired"
	case "hb-x-authorization":
		lines, credKind = []string{"X-Authorization: " + T}, "none"
	case "hb-proxy-authorization":
		lines, credKind = []string{"Proxy-Authorization: " + T}, "none"
	case "hb-authorization-suffix":
		lines, credKind = []string{"Authorization-X: " + T, "Authorizatio: " + T}, "none"
	case "hb-garbage-then-proxy-valid":
		lines, credKind = []string{"Authorization: " + G, "Proxy-Authorization: " + T}, "garbage"
	case "hb-two-values-comma":
		lines = []string{"Authorization: " + T + ", Bearer x"}
	case "hb-valid-after-other-headers":
		lines = []string{"Cookie: session=admin", "X-Forwarded-For: 127.0.0.1", "Authorization: " + T, "Accept: */*"}
	case "hb-expired-then-valid-then-garbage":
		lines = []string{"Authorization: " + X, "Authorization: " + T, "Authorization: " + G}
	case "hb-space-before-colon":
		lines = []string{"Authorization : " + T}
	case "hb-tab-before-colon":
		lines = []string{"Authorization\t: " + T}
	case "hb-obs-fold":
		lines = []string{"Authorization: Bearer", " " + strings.TrimPrefix(T, "Bearer ")}
	case "hb-fold-first-line":
		lines = []string{"X-A: b", "\tcontinued", "Authorization: " + T}
	case "hb-no-colon-line":
		lines = []string{"Authorization " + T}
	case "hb-empty-name":
		lines = []string{": x", "Authorization: " + T}
	case "hb-name-with-slash":
		lines = []string{"Authorization/x: " + T, "Authorization: " + T}
	case "hb-bad-line-after-valid":
		lines = []string{"Authorization: " + T, "Bad Name: x"}
	case "hb-name-nonascii":
		lines = []string{"Authorizati\u00f6n: " + T, "Authorization: " + T}
	case "hb-value-ctl":
		lines = []string{"Authorization: " + T + "\x01"}
	case "hb-name-underscore":
		lines = []string{"Authorization_: " + T, "authorization: " + T}
	case "hb-empty-value":
		lines, credKind = []string{"Authorization:"}, "none"
	case "hb-blank-value":
		lines, credKind = []string{"Authorization: \t  "}, "none"
	case "hb-empty-then-garbage":
		lines, credKind = []string{"Authorization:", "Authorization: " + G}, "garbage"
	case "hb-garbage-twice":
		lines, credKind = []string{"Authorization: " + G, "AUTHORIZATION: " + G}, "garbage"
	case "hb-scheme-only-then-expired":
		lines, credKind = []string{"Authorization: Bearer", "Authorization: " + X}, "expired"
	case "hb-block-starts-folded":
		lines = []string{"Authorization: " + T}
	default:
		credKind = "none"
	}
	// the whole block as written on the wire
	full := append([]string{"Host: verif.test", "Connection: close"}, lines...)
	if shape == "hb-block-starts-folded" {
		full = append([]string{" folded"}, full...)
	}
	lines = append(full, "Content-Length: 0")
	return
}

type vc04LimCall struct {
	M string `json:"m"`
	P string `json:"p"` // hex
}

// records what applyRateLimiterMiddleware installs
type vc04RecRouter struct {
	core.EchoRouter
	mws []echo.MiddlewareFunc
}

func (r *vc04RecRouter) Use(m ...echo.MiddlewareFunc) { r.mws = append(r.mws, m...) }

// the REAL applyRateLimiterMiddleware + the middleware it installs, driven in-process: wiring decision, skipper, bucket
func vc04RunLim(op vc04Op) string {
	rec := &vc04RecRouter{}
	start := time.Now()
	Engine{}.applyRateLimiterMiddleware(rec, core.ServerConfig{Strictmode: op.Strict, InternalRateLimiter: op.Flag, DIDMethods: op.DM})
	if len(rec.mws) == 0 {
		return "off"
	}
	if len(rec.mws) != 1 {
		return fmt.Sprintf("installed-%d", len(rec.mws))
	}
	e := echo.New()
	var out []string
	for _, c := range op.Calls {
		p, _ := hex.DecodeString(c.P)
		req := httptest.NewRequest(c.M, "/", nil)
		rr := httptest.NewRecorder()
		ctx := e.NewContext(req, rr)
		ctx.SetPath(string(p))
		called := false
		err := rec.mws[0](func(echo.Context) error { called = true; return nil })(ctx)
		switch {
		case err != nil:
			out = append(out, "err")
		case called:
			out = append(out, "ok")
		default:
			out = append(out, strconv.Itoa(rr.Code))
		}
	}
	if time.Since(start) > 20*time.Second { // a token drips in every 28.8 s: a stalled machine voids the leg, it never fails it
		return "skipped"
	}
	return strings.Join(out, ",")
}

func TestVerifC04(t *testing.T) {
	outDir := os.Getenv("VERIF_OUT")
	if outDir == "" {
		t.Skip("VERIF_OUT not set")
	}
	logrus.SetOutput(io.Discard)
	if f, err := os.OpenFile(os.DevNull, os.O_WRONLY, 0); err == nil {
		os.Stderr = f // the audit logger is created lazily with os.Stderr
	}
	seed, _ := strconv.ParseInt(os.Getenv("VERIF_SEED"), 10, 64)
	r := rand.New(rand.NewSource(seed*7919 + 4))
	nReq := 9000
	if os.Getenv("VERIF_TIER") == "thorough" {
		nReq = 80000
	}
	if v := os.Getenv("VERIF_N"); v != "" {
		nReq, _ = strconv.Atoi(v)
	}

	keys := []vc04Key{vc04NewKey(t, "ed", "alice@verif"), vc04NewKey(t, "ec", "bob@verif")}
	attacker := vc04NewKey(t, "ed", "mallory@verif")
	dir := t.TempDir()
	keysFile := filepath.Join(dir, "authorized_keys")
	if err := os.WriteFile(keysFile, []byte(keys[0].line+"\n# comment\n"+keys[1].line+"\n"), 0o600); err != nil {
		t.Fatal(err)
	}
	const aud = "verif-aud"
	now := time.Now()
	hostname, _ := os.Hostname()
	creds := vc04MakeCreds(t, keys, attacker, aud, now)
	{ // a token for the default audience (host name) of engine E
		for _, c := range vc04MakeCreds(t, keys, attacker, hostname, now) {
			if c.kind == "valid0" {
				c.kind = "valid-aud-hostname"
				creds = append(creds, c)
			}
		}
	}
	credByKind := map[string]vc04Cred{}
	for _, c := range creds {
		credByKind[c.kind] = c
	}

	rndRoutes := vc04RandomRoutes(r, 14)
	rndBases := vc04BasePathsOf(r, rndRoutes)
	engines := map[string]*vc04Engine{
		"A": vc04StartEngine(t, "A", false, true, keysFile, aud, vc04Routes),  // two listeners, token auth
		"B": vc04StartEngine(t, "B", true, true, keysFile, aud, vc04Routes),   // one shared listener, token auth
		"C": vc04StartEngine(t, "C", false, false, keysFile, aud, vc04Routes), // two listeners, no auth
		"D": vc04StartEngine(t, "D", false, true, keysFile, aud, rndRoutes),   // two listeners, token auth, random route table
		"E": vc04StartEngine(t, "E", false, true, keysFile, "", vc04Routes),   // token auth, NO audience configured: the host name is enforced
		"F": vc04StartEngine(t, "F", false, true, keysFile, aud, vc04Routes),  // two listeners, token auth, http.log = metadata-and-body
		"G": vc04StartEngine(t, "G", true, true, keysFile, aud, vc04Routes),   // one shared listener, token auth, http.log = metadata-and-body
	}
	// the rate limiter legs: H two listeners + token auth, I one shared listener + token auth, J two listeners WITHOUT auth
	// (limiter installed: every request to a listed route uses the budget), K token auth with did:nuts disabled (no limiter)
	engines["H"] = vc04StartEngine(t, "H", false, true, keysFile, aud, vc04Routes)
	engines["I"] = vc04StartEngine(t, "I", true, true, keysFile, aud, vc04Routes)
	engines["J"] = vc04StartEngine(t, "J", false, false, keysFile, aud, vc04Routes)
	{
		sc := *core.NewServerConfig()
		sc.DIDMethods = []string{"web"}
		vc04NextServerCfg = &sc
		engines["K"] = vc04StartEngine(t, "K", false, true, keysFile, aud, vc04Routes)
	}
	defer func() {
		for _, e := range engines {
			e.shutdown()
		}
	}()

	opsF, _ := os.Create(filepath.Join(outDir, "ops.jsonl"))
	implF, _ := os.Create(filepath.Join(outDir, "impl.out"))
	defer opsF.Close()
	defer implF.Close()
	ops := bufio.NewWriter(opsF)
	impl := bufio.NewWriter(implF)
	defer ops.Flush()
	defer impl.Flush()
	emit := func(op interface{}, out string) {
		b, _ := json.Marshal(op)
		ops.Write(b)
		ops.WriteByte('\n')
		impl.WriteString(out + "\n")
	}

	// configuration line: what the model needs to know about the set-up (addresses are symbolic)
	type engCfg struct {
		Int  string `json:"int"`
		Pub  string `json:"pub"`
		Auth bool   `json:"auth"`
		RS   string `json:"rs"`
		Aud  string `json:"aud"`
		Lim  bool   `json:"lim"`
	}
	cfg := map[string]interface{}{"op": "cfg", "routesets": map[string][]vc04Route{"std": vc04Routes, "rnd": rndRoutes},
		"keys": []string{keys[0].comment, keys[1].comment}, "aud": aud, "now": now.Unix(),
		"engines": map[string]engCfg{"A": {"i", "p", true, "std", aud, true}, "B": {"s", "s", true, "std", aud, true}, "C": {"i", "p", false, "std", aud, true},
			"D": {"i", "p", true, "rnd", aud, true}, "E": {"i", "p", true, "std", hostname, true}, "F": {"i", "p", true, "std", aud, true}, "G": {"s", "s", true, "std", aud, true},
			"H": {"i", "p", true, "std", aud, true}, "I": {"s", "s", true, "std", aud, true}, "J": {"i", "p", false, "std", aud, true}, "K": {"i", "p", true, "std", aud, false}}}
	emit(cfg, "cfg")

	run := func(op vc04Op) string {
		switch op.Op {
		case "req":
			e := engines[op.Eng]
			if e == nil {
				return "bad-engine"
			}
			addr := e.intAddr
			if op.Lis == "pub" {
				addr = e.pubAddr
			}
			target, _ := hex.DecodeString(op.T)
			vc04Seen.mu.Lock()
			vc04Seen.ran, vc04Seen.user = -1, "-"
			vc04Seen.mu.Unlock()
			var code int
			if len(op.HB) > 0 { // header-block leg: the WHOLE header block, byte for byte
				var block []string
				for _, h := range op.HB {
					b, _ := hex.DecodeString(h)
					block = append(block, string(b))
				}
				code = vc04RawBlock(addr, op.M, target, block)
			} else {
				code = vc04Raw(addr, op.M, target, op.Hdr, op.HX)
			}
			vc04Seen.mu.Lock()
			defer vc04Seen.mu.Unlock()
			ran := "-"
			if vc04Seen.ran >= 0 {
				ran = strconv.Itoa(vc04Seen.ran)
			}
			return fmt.Sprintf("%d ran=%s %s", code, ran, vc04Seen.user)
		case "overlap":
			e := engines[op.Eng]
			if e == nil || op.ReqA == nil || op.ReqB == nil {
				return "bad-overlap"
			}
			addrOf := func(l string) string {
				if l == "pub" {
					return e.pubAddr
				}
				return e.intAddr
			}
			ta, _ := hex.DecodeString(op.ReqA.T)
			tb, _ := hex.DecodeString(op.ReqB.T)
			var respB string
			respA := vc04RawSlow(addrOf(op.ReqA.Lis), op.ReqA.M, string(ta), op.ReqA.Hdr, `{"slow":"body"}`, func() {
				time.Sleep(40 * time.Millisecond) // A's chain is composed, its body logger waits for the rest of the body
				respB = vc04RawSlow(addrOf(op.ReqB.Lis), op.ReqB.M, string(tb), op.ReqB.Hdr, "", nil)
				time.Sleep(10 * time.Millisecond)
			})
			return "A:" + respA + " | B:" + respB
		case "configure":
			e := New(func() {}, nil)
			cfg := DefaultConfig()
			cfg.Internal.Address, cfg.Public.Address = "127.0.0.1:1", "127.0.0.1:2"
			path := keysFile
			switch op.B {
			case "missing":
				path = filepath.Join(dir, "does-not-exist")
			case "garbage":
				path = filepath.Join(dir, "garbage_keys")
			case "empty":
				path = filepath.Join(dir, "empty_keys")
			}
			cfg.Internal.Auth = AuthConfig{Type: AuthType(op.A), AuthorizedKeysPath: path, Audience: aud}
			e.config = cfg
			if err := e.Configure(*core.NewServerConfig()); err != nil {
				return "error"
			}
			return "ok"
		case "lim":
			return vc04RunLim(op)
		case "skipped":
			return "skipped"
		case "matchesPath":
			a, _ := hex.DecodeString(op.A)
			b, _ := hex.DecodeString(op.B)
			return fmt.Sprintf("%v", matchesPath(string(a), string(b)))
		case "bindOf":
			a, _ := hex.DecodeString(op.A)
			return hex.EncodeToString([]byte((&MultiEcho{}).getBindFromPath(string(a))))
		}
		return "bad-op"
	}

	// replay / corpus first
	replayFile := func(p string) {
		b, err := os.ReadFile(p)
		if err != nil {
			return
		}
		for _, line := range strings.Split(string(b), "\n") {
			if strings.TrimSpace(line) == "" {
				continue
			}
			var op vc04Op
			if json.Unmarshal([]byte(line), &op) != nil || (op.Op != "req" && op.Op != "matchesPath" && op.Op != "bindOf" && op.Op != "configure" && op.Op != "overlap" && op.Op != "lim") {
				continue
			}
			if op.Op == "req" { // credentials are regenerated (keys are fresh each run): look the kind up
				c, ok := credByKind[op.Cred]
				if !ok {
					c = credByKind["none"]
				}
				tk := c.tok
				op.Hdr, op.Tok = c.hdr, &tk
				if op.HBK != "" {
					lines, cands, kind := vc04HeaderBlock(op.HBK, credByKind)
					op.HB = nil
					for _, l := range lines {
						op.HB = append(op.HB, hex.EncodeToString([]byte(l)))
					}
					op.Hdr, op.Tok, op.Cands, op.Cred = "", nil, cands, kind
				}
				tb, _ := hex.DecodeString(op.T)
				op.AuthOK = vc04AuthorityVerdicts(op.M, tb)
			}
			if op.Op == "overlap" {
				for _, h := range []*vc04Op{op.ReqA, op.ReqB} {
					if h == nil {
						continue
					}
					c, ok := credByKind[h.Cred]
					if !ok {
						c = credByKind["none"]
					}
					tk := c.tok
					h.Hdr, h.Tok, h.AuthOK = c.hdr, &tk, map[string]bool{}
				}
			}
			emit(op, run(op))
		}
	}
	if p := os.Getenv("VERIF_REPLAY"); p != "" {
		replayFile(p)
		return
	}
	if d := os.Getenv("VERIF_CORPUS"); d != "" {
		files, _ := filepath.Glob(filepath.Join(d, "*.jsonl"))
		for _, f := range files {
			replayFile(f)
		}
	}

	// Configure with every auth type spelling x authorized_keys file state: unknown types must be an error, never "no auth"
	_ = os.WriteFile(filepath.Join(dir, "garbage_keys"), []byte("this is not a key line\n"), 0o600)
	_ = os.WriteFile(filepath.Join(dir, "empty_keys"), []byte("# no keys\n\n"), 0o600)
	for _, typ := range []string{"", "token_v2", "token", "Token_v2", "TOKEN_V2", "token_v2 ", " token_v2", "token_v1", "tokenv2", "jwt", "none", "bearer", "off", "false", "0"} {
		for _, kf := range []string{"ok", "missing", "garbage", "empty"} {
			op := vc04Op{Op: "configure", A: typ, B: kf}
			emit(op, run(op))
		}
	}

	// a burst of UNAUTHENTICATED requests to rate-limited internal routes (more than the limiter's burst of 30), then
	// authenticated ones: every failure is a 401 and has no effect — in particular it does not use up the limiter's budget
	for _, en := range []string{"A", "B"} {
		for i := 0; i < 48; i++ {
			kind := []string{"none", "garbage", "expired", "attacker-key", "wrong-audience", "basic-scheme"}[i%6]
			c := credByKind[kind]
			tk := c.tok
			path := []string{"/internal/vdr/v1/did", "/internal/vcr/v2/issuer/vc"}[i%2]
			op := vc04Op{Op: "req", Eng: en, Lis: "int", M: "POST", T: hex.EncodeToString([]byte(path)), Show: strconv.QuoteToASCII(path),
				AuthOK: map[string]bool{}, Cred: c.kind, Hdr: c.hdr, Tok: &tk, Tag: "burst"}
			emit(op, run(op))
		}
		for i := 0; i < 4; i++ {
			c := credByKind["valid0"]
			tk := c.tok
			path := []string{"/internal/vdr/v1/did", "/internal/vcr/v2/issuer/vc"}[i%2]
			op := vc04Op{Op: "req", Eng: en, Lis: "int", M: "POST", T: hex.EncodeToString([]byte(path)), Show: strconv.QuoteToASCII(path),
				AuthOK: map[string]bool{}, Cred: c.kind, Hdr: c.hdr, Tok: &tk, Tag: "burst"}
			emit(op, run(op))
		}
	}

	// the header BLOCK of the request: name case, no blank after the colon, blanks/tabs around the value, several Authorization
	// lines in both orders, an empty first one, look-alike names (X-Authorization, Proxy-Authorization, Authorization-X) —
	// Header.Get("Authorization") is the value of the FIRST line with that (canonicalised) name
	for _, en := range []string{"A", "B", "C"} {
		for _, shape := range vc04HeaderShapes {
			for _, path := range []string{"/internal/x", "/internal/x/abc", "/public"} {
				lines, cands, kind := vc04HeaderBlock(shape, credByKind)
				var hb []string
				for _, l := range lines {
					hb = append(hb, hex.EncodeToString([]byte(l)))
				}
				op := vc04Op{Op: "req", Eng: en, Lis: "int", M: "GET", T: hex.EncodeToString([]byte(path)), Show: strconv.QuoteToASCII(path),
					AuthOK: map[string]bool{}, Cred: kind, HBK: shape, HB: hb, Cands: cands, Tag: "hb"}
				emit(op, run(op))
			}
		}
	}

	// the internal rate limiter BEHIND the guard (engines H, I, J, K): a seeded mix of requests to listed routes (POST and PUT rows,
	// a parameter in the middle, absolute-form targets, a 405 on a listed path, a route whose parameter is named differently) with
	// valid and invalid credentials, more than the burst of 30. Failures never touch the budget; after the budget is gone
	// failures are still 401 and unlisted routes are still served. A token drips in every 28.8 s: if a leg takes longer than
	// 20 s (stalled machine) it is voided (ops become "skipped"), never failed.
	for _, en := range []string{"H", "I", "J", "K"} {
		type shot struct{ lis, m, target, cred string }
		listed := []shot{{"int", "POST", "/internal/vdr/v1/did", ""}, {"int", "POST", "/internal/vcr/v2/issuer/vc", ""}, {"int", "PUT", "/internal/vdr/v1/did/did:nuts:abc", ""},
			{"int", "POST", "/internal/didman/v1/did/did:nuts:x/endpoint", ""}, {"int", "POST", "http://verif.test/internal/vdr/v1/did", ""},
			{"int", "POST", "/internal/vdr/v1/did?x=/public", ""}, {"int", "POST", "/internal/vdr/v2/subject", ""}}
		unlisted := []shot{{"int", "GET", "/internal/x", ""}, {"int", "POST", "/internal/x/7", ""}, {"int", "POST", "/internal/vdr/v2/subject/s1/service", ""},
			{"int", "DELETE", "/internal/vdr/v1/did/did:nuts:abc", ""}, {"int", "GET", "/internal/vdr/v2/subject", ""}, {"pub", "POST", "/internal/vdr/v1/did", ""},
			{"pub", "POST", "/public", ""}, {"int", "POST", "/internal/vdr/v1/did/", ""}, {"int", "POST", "/internal/vdr/v1/DID", ""}, {"int", "PATCH", "/internal/vdr/v1/did", ""}}
		good := []string{"valid0", "valid1", "valid-lowercase-scheme"}
		bad := []string{"none", "garbage", "expired", "attacker-key", "wrong-audience", "basic-scheme"}
		var legOps []vc04Op
		var legOut []string
		start := time.Now()
		n := 78
		for i := 0; i < n; i++ {
			var sh shot
			switch x := r.Intn(20); {
			case x < 11:
				sh = listed[r.Intn(len(listed))]
				sh.cred = good[r.Intn(len(good))]
			case x < 16:
				sh = listed[r.Intn(len(listed))]
				sh.cred = bad[r.Intn(len(bad))]
			case x < 19:
				sh = unlisted[r.Intn(len(unlisted))]
				sh.cred = good[r.Intn(len(good))]
			default:
				sh = unlisted[r.Intn(len(unlisted))]
				sh.cred = bad[r.Intn(len(bad))]
			}
			if i >= n-6 { // the tail, when the budget is gone: a failure, an unlisted route, a listed one
				sh = []shot{listed[0], unlisted[0], listed[1], unlisted[1], listed[2], listed[0]}[i-(n-6)]
				sh.cred = []string{"none", "valid0", "expired", "valid1", "attacker-key", "valid0"}[i-(n-6)]
			}
			if en == "I" && sh.lis == "pub" {
				sh.lis = "int"
			}
			c, ok := credByKind[sh.cred]
			if !ok {
				c = credByKind["none"]
			}
			tk := c.tok
			op := vc04Op{Op: "req", Eng: en, Lis: sh.lis, M: sh.m, T: hex.EncodeToString([]byte(sh.target)), Show: strconv.QuoteToASCII(sh.target),
				AuthOK: vc04AuthorityVerdicts(sh.m, []byte(sh.target)), Cred: c.kind, Hdr: c.hdr, Tok: &tk, Tag: "lim"}
			legOps = append(legOps, op)
			legOut = append(legOut, run(op))
		}
		void := time.Since(start) > 20*time.Second
		for i, op := range legOps {
			if void {
				emit(vc04Op{Op: "skipped", Eng: en, Tag: "lim"}, "skipped")
			} else {
				emit(op, legOut[i])
			}
		}
	}

	// in-process: the REAL applyRateLimiterMiddleware on every (strict mode, flag, DID methods) combination, and the middleware it
	// installs on sequences of (method, c.Path()) longer than the burst: listed paths, near misses, other methods
	{
		dms := [][]string{nil, {"web"}, {"nuts"}, {"web", "nuts"}, {"NUTS"}, {"nuts "}, {"web", "did:nuts"}, {"nuts", "nuts"}}
		paths := []string{"/internal/vcr/v2/issuer/vc", "/internal/vdr/v1/did", "/internal/vdr/v1/did/:did/verificationmethod", "/internal/didman/v1/did/:did/endpoint",
			"/internal/didman/v1/did/:did/compoundservice", "/internal/vdr/v2/subject", "/internal/vdr/v2/subject/:id/service", "/internal/vdr/v2/subject/:id/service/:serviceId",
			"/internal/vdr/v2/subject/:id/verificationmethod", "/internal/vdr/v1/did/:did", "/internal/didman/v1/did/:did/contactinfo",
			"", "/", "/internal", "/internal/vdr/v1/did/", "/internal/vdr/v1/DID", "/internal/vdr/v1/did/:id", "/internal/vdr/v2/subject/:sid/service", "/public", "/internal/vdr/v1",
			"/internal/vcr/v2/issuer/vc/:id", "internal/vdr/v1/did", "/internal/vdr/v2/subject/:id", "/internal/vdr/v1/did/*"}
		ms := []string{"POST", "POST", "POST", "PUT", "PUT", "GET", "DELETE", "PATCH", "post", "OPTIONS"}
		for _, strict := range []bool{false, true} {
			for _, flag := range []bool{false, true} {
				for _, dm := range dms {
					op := vc04Op{Op: "lim", Strict: strict, Flag: flag, DM: dm}
					for i, n := 0, 40+r.Intn(30); i < n; i++ {
						p := paths[r.Intn(len(paths))]
						if r.Intn(3) > 0 {
							p = paths[r.Intn(11)]
						}
						m := ms[r.Intn(len(ms))]
						if r.Intn(10) < 6 { // a listed (method, path) pair
							k := r.Intn(11)
							p, m = paths[k], map[bool]string{true: "POST", false: "PUT"}[k < 9]
						}
						op.Calls = append(op.Calls, vc04LimCall{M: m, P: hex.EncodeToString([]byte(p))})
					}
					emit(op, run(op))
				}
			}
		}
	}

	// two requests in flight at the same time (the first one's body arrives slowly; with http.log = metadata-and-body the body
	// logger in front of the token middleware waits for it): every pairing listener x listener x credential. Each request must
	// be answered exactly as if it were alone — by its own handler, on its own listener, with its own user.
	{
		type half struct{ lis, m, path, cred string }
		slow := []half{{"pub", "POST", "/public", "none"}, {"pub", "POST", "/public/7", "none"}, {"pub", "POST", "/public", "valid1"},
			{"int", "POST", "/internal/x/7", "none"}, {"int", "POST", "/internal/x/7", "valid0"}, {"int", "POST", "/internal/x/7", "expired"},
			{"pub", "POST", "/internal/x/7", "none"}, {"pub", "POST", "/nothing", "none"}}
		fast := []half{{"int", "GET", "/internal/x", "valid0"}, {"int", "GET", "/internal/x", "none"}, {"int", "GET", "/internal/x/9", "valid1"},
			{"pub", "GET", "/public", "none"}, {"pub", "GET", "/public/3", "valid0"}, {"int", "DELETE", "/internal/x", "valid0"}, {"int", "GET", "/status", "none"}}
		mkHalf := func(h half) *vc04Op {
			c := credByKind[h.cred]
			tk := c.tok
			return &vc04Op{Lis: h.lis, M: h.m, T: hex.EncodeToString([]byte(h.path)), Show: strconv.QuoteToASCII(h.path), AuthOK: map[string]bool{}, Cred: c.kind, Hdr: c.hdr, Tok: &tk}
		}
		for _, en := range []string{"F", "G", "A"} {
			for _, a := range slow {
				for _, b := range fast {
					if en == "G" && (a.lis == "pub" || b.lis == "pub") && r.Intn(2) == 0 {
						continue // one shared listener: pub = int, half of the duplicates are enough
					}
					if en == "A" && r.Intn(3) != 0 {
						continue // default log level: a third of the pairings (no client-controlled window there)
					}
					op := vc04Op{Op: "overlap", Eng: en, ReqA: mkHalf(a), ReqB: mkHalf(b)}
					emit(op, run(op))
				}
			}
		}
	}

	// matchesPath / getBindFromPath differential
	for i := 0; i < nReq/5; i++ {
		a := vc04MutatePath(r, vc04BasePaths[r.Intn(len(vc04BasePaths))]) + vc04Query(r)
		if i%4 == 0 { // decoded forms of scheme-in-segment paths: what the auth skipper hands to matchesPath
			if u, err := url.PathUnescape(vc04SchemeInSegment(r)); err == nil {
				a = u
			}
		}
		b := []string{"/internal", "/", "/internal/", "/status", "/metrics", "/health", "", "/a/b"}[r.Intn(8)]
		op := vc04Op{Op: "matchesPath", A: hex.EncodeToString([]byte(a)), B: hex.EncodeToString([]byte(b)), Show: strconv.QuoteToASCII(a)}
		emit(op, run(op))
		ascii := true
		for i := 0; i < len(a); i++ {
			ascii = ascii && a[i] < 0x80
		}
		if ascii {
			op = vc04Op{Op: "bindOf", A: hex.EncodeToString([]byte(a)), Show: strconv.QuoteToASCII(a)}
			emit(op, run(op))
		}
	}

	methods := []string{"GET", "GET", "GET", "GET", "GET", "POST", "CONNECT", "OPTIONS", "OPTIONS", "OPTIONS", "DELETE", "DELETE", "HEAD", "TRACE", "PROPFIND", "PUT", "PATCH", "BREW"}
	engNames := []string{"A", "A", "A", "B", "B", "C", "D", "D", "D", "E"}
	for i := 0; i < nReq; i++ {
		m := methods[r.Intn(len(methods))]
		en := engNames[r.Intn(len(engNames))]
		bases := vc04BasePaths
		if en == "D" {
			bases = rndBases
		}
		target := vc04Target(r, m, bases)
		c := creds[0]
		if r.Intn(3) == 0 || (en == "E" && r.Intn(2) == 0) {
			c = creds[r.Intn(len(creds))]
		}
		tk := c.tok
		hx := vc04PickHeaders(r)
		if m == "OPTIONS" && r.Intn(2) == 0 { // a CORS preflight shape
			hx = append([]string{"Origin: https://evil.example", "Access-Control-Request-Method: " + []string{"POST", "DELETE", "GET"}[r.Intn(3)]}, hx...)
			seen := map[string]bool{}
			var d []string
			for _, h := range hx {
				if k := h[:strings.Index(h, ":")]; !seen[k] {
					seen[k] = true
					d = append(d, h)
				}
			}
			hx = d
		}
		for _, lis := range []string{"int", "pub"} {
			if en == "B" && lis == "pub" {
				continue
			}
			op := vc04Op{Op: "req", Eng: en, Lis: lis, M: m, T: hex.EncodeToString(target), Show: strconv.QuoteToASCII(string(target)),
				AuthOK: vc04AuthorityVerdicts(m, target), Cred: c.kind, Hdr: c.hdr, Tok: &tk, HX: hx}
			emit(op, run(op))
		}
	}
}
