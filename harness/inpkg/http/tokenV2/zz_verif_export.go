//go:build verif

package tokenV2

// Generator of hostile token variants shared by the C04 / C17 harnesses (non-test file so that the in-package
// harness of another package — auth/api/iam — can use it through the exported wrappers at the end).
// Injected with `go test -overlay`; nothing is written into /repo.

import (
	"strconv"
	"crypto"
	"crypto/ecdsa"
	"crypto/ed25519"
	"crypto/elliptic"
	crand "crypto/rand"
	"crypto/rsa"
	"crypto/x509"
	b64 "encoding/base64"
	"encoding/json"
	"encoding/pem"
	"fmt"
	"math/rand"
	"sort"
	"strings"

	"github.com/lestrrat-go/jwx/v2/jwa"
	"github.com/lestrrat-go/jwx/v2/jwk"
	"github.com/lestrrat-go/jwx/v2/jws"
	"golang.org/x/crypto/ssh"
)

var vEnc = b64.RawURLEncoding

// ------------------------------------------------------------------ keys

type vKey struct {
	name    string
	priv    interface{}
	pub     interface{}
	alg     jwa.SignatureAlgorithm // the algorithm that fits the key
	kid     string
	sshLine string
}

func vNewKey(kind, name string) *vKey {
	k := &vKey{name: name}
	switch kind {
	case "ed":
		p, s, err := ed25519.GenerateKey(crand.Reader)
		if err != nil {
			panic(err)
		}
		k.priv, k.pub, k.alg = s, p, jwa.EdDSA
	case "p256", "p384", "p521":
		c, a := elliptic.P256(), jwa.ES256
		if kind == "p384" {
			c, a = elliptic.P384(), jwa.ES384
		}
		if kind == "p521" {
			c, a = elliptic.P521(), jwa.ES512
		}
		s, err := ecdsa.GenerateKey(c, crand.Reader)
		if err != nil {
			panic(err)
		}
		k.priv, k.pub, k.alg = s, &s.PublicKey, a
	case "rsa1024":
		s, err := rsa.GenerateKey(crand.Reader, 1024)
		if err != nil {
			panic(err)
		}
		k.priv, k.pub, k.alg = s, &s.PublicKey, jwa.RS512 // PSS with SHA-512 does not fit in 1024 bits
	case "rsa2041", "rsa2047", "rsa2049", "rsa2040": // moduli around the 2048-bit rule that are not a whole number of bytes
		bits, _ := strconv.Atoi(kind[3:])
		s, err := rsa.GenerateKey(crand.Reader, bits)
		if err != nil {
			panic(err)
		}
		if s.N.BitLen() != bits {
			panic("rsa modulus has not the requested bit length")
		}
		k.priv, k.pub, k.alg = s, &s.PublicKey, jwa.PS512
	case "rsa":
		s, err := rsa.GenerateKey(crand.Reader, 2048)
		if err != nil {
			panic(err)
		}
		k.priv, k.pub, k.alg = s, &s.PublicKey, jwa.PS512
	}
	sshPub, err := ssh.NewPublicKey(k.pub)
	if err != nil {
		panic(err)
	}
	k.kid = ssh.FingerprintSHA256(sshPub)
	k.sshLine = fmt.Sprintf("%v %v %v", sshPub.Type(), b64.StdEncoding.EncodeToString(sshPub.Marshal()), name)
	return k
}

func (k *vKey) pubJWK() jwk.Key  { j, _ := jwk.FromRaw(k.pub); return j }
func (k *vKey) privJWK() jwk.Key { j, _ := jwk.FromRaw(k.priv); return j }

// byte strings an attacker may try as HMAC secret when switching an asymmetric token to HS*
func (k *vKey) publicEncodings() map[string][]byte {
	res := map[string][]byte{}
	if der, err := x509.MarshalPKIXPublicKey(k.pub); err == nil {
		res["spki-der"] = der
		res["spki-pem"] = pem.EncodeToMemory(&pem.Block{Type: "PUBLIC KEY", Bytes: der})
	}
	if j, err := json.Marshal(k.pubJWK()); err == nil {
		res["jwk-json"] = j
	}
	if p, ok := k.pub.(ed25519.PublicKey); ok {
		res["raw"] = []byte(p)
	}
	res["empty"] = []byte{}
	return res
}

// ------------------------------------------------------------------ raw JWS construction

type vSig struct {
	hdr      map[string]interface{} // protected header exactly as serialised (alg included)
	signAlg  jwa.SignatureAlgorithm // algorithm actually used ("" = none: empty signature)
	signKey  interface{}
	unprot   map[string]interface{}
	forceSig string                    // when set: the signature value to serialise (not computed)
	signFn   func(input []byte) []byte // when set: computes the signature value (hand-made signatures)
	// filled by sign()
	protB64 string
	sigB64  string
}

func vJSON(v interface{}) []byte { b, _ := json.Marshal(v); return b }

func (s *vSig) sign(payloadB64 string) {
	s.protB64 = vEnc.EncodeToString(vJSON(s.hdr))
	s.sigB64 = ""
	if s.forceSig != "" {
		s.sigB64 = s.forceSig
		return
	}
	if s.signFn != nil {
		s.sigB64 = vEnc.EncodeToString(s.signFn([]byte(s.protB64 + "." + payloadB64)))
		return
	}
	if s.signAlg == "" {
		return
	}
	signer, err := jws.NewSigner(s.signAlg)
	if err != nil {
		return
	}
	sig, err := signer.Sign([]byte(s.protB64+"."+payloadB64), s.signKey)
	if err != nil {
		return
	}
	s.sigB64 = vEnc.EncodeToString(sig)
}

func vCompact(s *vSig, payload []byte) string {
	p := vEnc.EncodeToString(payload)
	s.sign(p)
	return s.protB64 + "." + p + "." + s.sigB64
}

func vGeneralJSON(sigs []*vSig, payload []byte, flattened bool) string {
	p := vEnc.EncodeToString(payload)
	var arr []map[string]interface{}
	for _, s := range sigs {
		s.sign(p)
		m := map[string]interface{}{"protected": s.protB64, "signature": s.sigB64}
		if s.unprot != nil {
			m["header"] = s.unprot
		}
		arr = append(arr, m)
	}
	if flattened && len(arr) == 1 {
		arr[0]["payload"] = p
		return string(vJSON(arr[0]))
	}
	if arr == nil {
		arr = []map[string]interface{}{}
	}
	return string(vJSON(map[string]interface{}{"payload": p, "signatures": arr}))
}

func vCopyHdr(h map[string]interface{}) map[string]interface{} {
	c := map[string]interface{}{}
	for k, v := range h {
		c[k] = v
	}
	return c
}

// ------------------------------------------------------------------ the hostile generator

// a valid token of some consumer kind: protected header (without alg), payload, the legitimate signer,
// another party known to the consumer's key source, and an attacker unknown to it
type vBase struct {
	hdr      map[string]interface{}
	payload  []byte
	signer   *vKey
	other    *vKey
	attacker *vKey
}

type vVariant struct {
	Name  string // stable name (replay key)
	Class string // what was done (drives the direct property oracle)
	HAlg  string // alg named in the (first) protected header
	By    string // who made a valid signature over the exact bytes: signer / other / attacker / nobody
	Tok   string
}

func (b vBase) sigFor(k *vKey) *vSig {
	h := vCopyHdr(b.hdr)
	h["alg"] = string(k.alg)
	if _, has := h["kid"]; has {
		h["kid"] = k.kid
	}
	return &vSig{hdr: h, signAlg: k.alg, signKey: k.priv}
}

func vFlip(s string, i int) string {
	const alpha = "ABCDEFGHIJKLMNOPQRSTUVWXYZabcdefghijklmnopqrstuvwxyz0123456789-_"
	b := []byte(s)
	idx := strings.IndexByte(alpha, b[i])
	b[i] = alpha[(idx+1+(i%7))%64]
	if b[i] == s[i] {
		b[i] = alpha[(idx+1)%64]
	}
	return string(b)
}

func vHostile(r *rand.Rand, b vBase, nFlips int) []vVariant {
	var out []vVariant
	add := func(name, class, by string, tok string, halg interface{}) {
		out = append(out, vVariant{Name: name, Class: class, By: by, Tok: tok, HAlg: fmt.Sprint(halg)})
	}
	natural := string(b.signer.alg)

	// 0. the valid token, compact
	valid := b.sigFor(b.signer)
	validCompact := vCompact(valid, b.payload)
	add("valid", "valid", "signer", validCompact, natural)

	// 1. alg -> none
	s := b.sigFor(b.signer)
	s.hdr["alg"] = "none"
	s.signAlg = ""
	add("alg-none-empty-sig", "alg-none", "nobody", vCompact(s, b.payload), "none")
	s = b.sigFor(b.signer)
	s.hdr["alg"] = "none"
	add("alg-none-keep-sig", "alg-none", "nobody", vCompact(s, b.payload), "none")
	for _, cs := range []string{"None", "NONE", "nOnE", ""} {
		s = b.sigFor(b.signer)
		s.hdr["alg"] = cs
		s.signAlg = ""
		add("alg-none-case-"+cs, "alg-none", "nobody", vCompact(s, b.payload), cs)
	}
	s = b.sigFor(b.signer)
	delete(s.hdr, "alg")
	add("alg-missing", "alg-none", "nobody", vCompact(s, b.payload), "")

	// 2. alg -> HS* keyed with public material of the legitimate key
	encs := b.signer.publicEncodings()
	var encNames []string
	for n := range encs {
		encNames = append(encNames, n)
	}
	sort.Strings(encNames)
	for _, hs := range []jwa.SignatureAlgorithm{jwa.HS256, jwa.HS384, jwa.HS512} {
		for _, n := range encNames {
			s = b.sigFor(b.signer)
			s.hdr["alg"] = string(hs)
			s.signAlg, s.signKey = hs, encs[n]
			add("alg-"+string(hs)+"-secret-"+n, "alg-hmac", "nobody", vCompact(s, b.payload), hs)
		}
	}

	// 3. header alg of another family / curve / hash while the signature is the natural one, and vice versa
	for _, a := range []string{"ES256", "ES384", "ES512", "PS256", "PS384", "PS512", "RS256", "RS384", "RS512", "EdDSA", "ES256K"} {
		if a == natural {
			continue
		}
		s = b.sigFor(b.signer)
		s.hdr["alg"] = a
		add("alg-claims-"+a, "alg-mismatch", "nobody", vCompact(s, b.payload), a)
	}
	// a weaker-but-fitting algorithm, properly signed (allowed only if the consumer's list says so)
	if _, ok := b.signer.priv.(*rsa.PrivateKey); ok {
		for _, a := range []jwa.SignatureAlgorithm{jwa.RS256, jwa.RS384, jwa.RS512, jwa.PS256, jwa.PS384, jwa.PS512} {
			s = b.sigFor(b.signer)
			s.hdr["alg"] = string(a)
			s.signAlg = a
			add("alg-proper-"+string(a), "alg-proper", "signer", vCompact(s, b.payload), a)
		}
	}

	// 3b. an ECDSA algorithm that does NOT fit the key's curve, PROPERLY signed with the private key (hash of the named
	// algorithm, the key's own curve): "mismatching curve". r||s in the key's coordinate size and in the algorithm's.
	if ecPriv, ok := b.signer.priv.(*ecdsa.PrivateKey); ok {
		keyBytes := (ecPriv.Curve.Params().BitSize + 7) / 8
		for _, a := range []struct {
			alg  string
			hash crypto.Hash
			size int
		}{{"ES256", crypto.SHA256, 32}, {"ES384", crypto.SHA384, 48}, {"ES512", crypto.SHA512, 66}} {
			if a.alg == natural {
				continue
			}
			a := a
			for _, half := range []int{keyBytes, a.size} {
				half := half
				s = b.sigFor(b.signer)
				s.hdr["alg"] = a.alg
				s.signFn = func(input []byte) []byte {
					h := a.hash.New()
					h.Write(input)
					r, ss, err := ecdsa.Sign(crand.Reader, ecPriv, h.Sum(nil))
					if err != nil {
						return nil
					}
					out := make([]byte, 2*half)
					rb, sb := r.Bytes(), ss.Bytes()
					if len(rb) > half || len(sb) > half {
						return nil
					}
					copy(out[half-len(rb):half], rb)
					copy(out[2*half-len(sb):], sb)
					return out
				}
				add(fmt.Sprintf("alg-curve-mismatch-%s-signed-halves%d", a.alg, half), "alg-curve-mismatch", "signer", vCompact(s, b.payload), a.alg)
			}
		}
	}

	// 3c. an embedded public jwk that carries an `alg` member of its own (RFC 7517 4.4) different from the header alg: a
	// consumer that verifies with the KEY's alg while allow-listing the HEADER's alg accepts a MAC keyed with public bytes
	{
		withAlg := func(alg string) jwk.Key { j := b.signer.pubJWK(); _ = j.Set(jwk.AlgorithmKey, alg); return j }
		for _, hs := range []jwa.SignatureAlgorithm{jwa.HS256, jwa.HS512} {
			for _, n := range encNames {
				s = b.sigFor(b.signer)
				s.hdr["jwk"] = withAlg(string(hs))
				s.signAlg, s.signKey = hs, encs[n]
				add("jwk-alg-"+string(hs)+"-mac-secret-"+n, "jwk-alg-hmac", "nobody", vCompact(s, b.payload), natural)
			}
		}
		if _, ok := b.signer.priv.(*rsa.PrivateKey); ok { // header PS*, key says RS256, RS256 signature by the real key
			s = b.sigFor(b.signer)
			s.hdr["jwk"] = withAlg("RS256")
			s.signAlg = jwa.RS256
			add("jwk-alg-RS256-header-"+natural, "jwk-alg-mismatch", "nobody", vCompact(s, b.payload), natural)
		}
		s = b.sigFor(b.signer)
		s.hdr["jwk"] = withAlg("none")
		s.signAlg = ""
		add("jwk-alg-none-empty-sig", "jwk-alg-hmac", "nobody", vCompact(s, b.payload), natural)
		s = b.sigFor(b.signer)
		s.hdr["jwk"] = withAlg(natural)
		add("jwk-alg-same-as-header", "embed-jwk-pub-legit", "signer", vCompact(s, b.payload), natural)
	}

	// 4. number of signatures (JSON serialisation)
	add("json-flattened-valid", "json-one-sig", "signer", vGeneralJSON([]*vSig{b.sigFor(b.signer)}, b.payload, true), natural)
	add("json-general-one-sig", "json-one-sig", "signer", vGeneralJSON([]*vSig{b.sigFor(b.signer)}, b.payload, false), natural)
	add("json-zero-sigs", "zero-sig", "nobody", vGeneralJSON(nil, b.payload, false), "")
	add("json-zero-sigs-dots", "zero-sig", "nobody", strings.Replace(vGeneralJSON(nil, b.payload, false), "{", `{"x":"..",`, 1), "")
	add("json-two-sigs-valid-attacker", "multi-sig", "signer", vGeneralJSON([]*vSig{b.sigFor(b.signer), b.sigFor(b.attacker)}, b.payload, false), natural)
	add("json-two-sigs-attacker-valid", "multi-sig", "signer", vGeneralJSON([]*vSig{b.sigFor(b.attacker), b.sigFor(b.signer)}, b.payload, false), string(b.attacker.alg))
	add("json-two-sigs-valid-valid", "multi-sig", "signer", vGeneralJSON([]*vSig{b.sigFor(b.signer), b.sigFor(b.signer)}, b.payload, false), natural)
	add("json-two-sigs-valid-other", "multi-sig", "signer", vGeneralJSON([]*vSig{b.sigFor(b.signer), b.sigFor(b.other)}, b.payload, false), natural)
	none := b.sigFor(b.signer)
	none.hdr["alg"] = "none"
	none.signAlg = ""
	add("json-two-sigs-valid-none", "multi-sig", "signer", vGeneralJSON([]*vSig{b.sigFor(b.signer), none}, b.payload, false), natural)
	// the first signature's protected header is the victim's with fields the victim never signed (other lc / prevs / extra
	// member) and a garbage value; the second is the genuine one: a consumer that reads signature #0's header while
	// the library is satisfied by ANY verifying signature takes unsigned headers for signed
	{
		forged := b.sigFor(b.signer)
		forged.hdr["lc"] = 4242
		forged.hdr["prevs"] = []string{strings.Repeat("ab", 32)}
		forged.hdr["x-forged"] = true
		forged.forceSig = vEnc.EncodeToString([]byte(strings.Repeat("garbage!", 8)))
		add("json-two-sigs-forgedhdr-valid", "multi-sig", "signer", vGeneralJSON([]*vSig{forged, b.sigFor(b.signer)}, b.payload, false), natural)
		forged2 := b.sigFor(b.signer)
		forged2.hdr["x-forged"] = true
		forged2.forceSig = ""
		forged2.signAlg = ""
		add("json-two-sigs-forgedhdr-emptysig-valid", "multi-sig", "signer", vGeneralJSON([]*vSig{forged2, b.sigFor(b.signer)}, b.payload, false), natural)
	}
	add("json-two-sigs-attacker-attacker", "multi-sig", "attacker", vGeneralJSON([]*vSig{b.sigFor(b.attacker), b.sigFor(b.attacker)}, b.payload, false), string(b.attacker.alg))
	add("json-two-sigs-valid-attacker-dots", "multi-sig", "signer",
		strings.Replace(vGeneralJSON([]*vSig{b.sigFor(b.signer), b.sigFor(b.attacker)}, b.payload, false), "{", `{"x":"..",`, 1), natural)
	unp := b.sigFor(b.signer)
	unp.unprot = map[string]interface{}{"kid": b.attacker.kid, "x": "a.b.c"}
	add("json-one-sig-unprotected-kid", "json-one-sig", "signer", vGeneralJSON([]*vSig{unp}, b.payload, false), natural)

	// 4b. JSON serialisation crafted so that a consumer which verifies over bytes.Split(token, ".")[0:2] checks the
	// signature over a fixed prefix `{"x":"a.b` that does not cover the payload at all (signed by the legitimate key)
	{
		const prefix = `{"x":"a.b`
		mk := func(n int) string {
			sg := b.sigFor(b.signer)
			prot := vEnc.EncodeToString(vJSON(sg.hdr))
			sig := ""
			if signer, err := jws.NewSigner(sg.signAlg); err == nil {
				if raw, err := signer.Sign([]byte(prefix), sg.signKey); err == nil {
					sig = vEnc.EncodeToString(raw)
				}
			}
			one := `{"protected":"` + prot + `","signature":"` + sig + `"}`
			arr := one
			for i := 1; i < n; i++ {
				arr += "," + one
			}
			forged := vEnc.EncodeToString([]byte(`{"forged":"payload not covered by any signature"}`))
			return prefix + `.c","payload":"` + forged + `","signatures":[` + arr + `]}`
		}
		add("json-split-confusion-one-sig", "split-confusion", "nobody", mk(1), natural)
		add("json-split-confusion-two-sigs", "split-confusion", "nobody", mk(2), natural)
	}

	// 5. keys supplied in headers
	type emb struct {
		name string
		set  func(h map[string]interface{}, k *vKey)
	}
	embeds := []emb{
		{"jwk-pub", func(h map[string]interface{}, k *vKey) { h["jwk"] = k.pubJWK() }},
		{"jwk-priv", func(h map[string]interface{}, k *vKey) { h["jwk"] = k.privJWK() }},
		{"jku", func(h map[string]interface{}, k *vKey) { h["jku"] = "https://attacker.example/jwks.json" }},
		{"x5u", func(h map[string]interface{}, k *vKey) { h["x5u"] = "https://attacker.example/cert.pem" }},
		{"x5c", func(h map[string]interface{}, k *vKey) {
			h["x5c"] = []string{b64.StdEncoding.EncodeToString([]byte("not-a-certificate"))}
		}},
	}
	for _, e := range embeds {
		// signed by the legitimate key, header added (key source unchanged if the consumer ignores the header)
		s = b.sigFor(b.signer)
		e.set(s.hdr, b.signer)
		add("embed-"+e.name+"-by-signer", "embed-"+e.name+"-legit", "signer", vCompact(s, b.payload), natural)
		// signed by the attacker, who supplies his own key through the header
		s = b.sigFor(b.attacker)
		e.set(s.hdr, b.attacker)
		add("embed-"+e.name+"-by-attacker", "embed-"+e.name+"-attacker", "attacker", vCompact(s, b.payload), string(b.attacker.alg))
		// signed by the attacker with the victim's kid and the attacker's key in the header
		s = b.sigFor(b.attacker)
		e.set(s.hdr, b.attacker)
		s.hdr["kid"] = b.signer.kid
		add("embed-"+e.name+"-by-attacker-victim-kid", "embed-"+e.name+"-attacker", "attacker", vCompact(s, b.payload), string(b.attacker.alg))
	}
	// `kid` header AND embedded jwk, the jwk's own kid member (attacker-chosen text) equal / unequal to the header kid
	innerKid := func(k *vKey, kid string) jwk.Key { j := k.pubJWK(); _ = j.Set(jwk.KeyIDKey, kid); return j }
	s = b.sigFor(b.attacker)
	s.hdr["jwk"], s.hdr["kid"] = innerKid(b.attacker, b.signer.kid), b.signer.kid
	add("kid-and-jwk-attacker-key-inner-kid-victim", "kid-jwk-confusion", "attacker", vCompact(s, b.payload), string(b.attacker.alg))
	s = b.sigFor(b.attacker)
	s.hdr["jwk"], s.hdr["kid"] = innerKid(b.attacker, b.attacker.kid), b.signer.kid
	add("kid-and-jwk-attacker-key-inner-kid-own", "kid-jwk-confusion", "attacker", vCompact(s, b.payload), string(b.attacker.alg))
	s = b.sigFor(b.attacker)
	s.hdr["jwk"], s.hdr["kid"] = innerKid(b.attacker, b.other.kid), b.other.kid
	add("kid-and-jwk-attacker-key-inner-kid-other", "kid-jwk-confusion", "attacker", vCompact(s, b.payload), string(b.attacker.alg))
	s = b.sigFor(b.signer)
	s.hdr["jwk"], s.hdr["kid"] = innerKid(b.signer, b.signer.kid), b.signer.kid
	add("kid-and-jwk-signer-key-inner-kid-same", "kid-and-jwk-legit", "signer", vCompact(s, b.payload), natural)
	s = b.sigFor(b.signer)
	s.hdr["jwk"], s.hdr["kid"] = innerKid(b.signer, "something-else"), b.signer.kid
	add("kid-and-jwk-signer-key-inner-kid-differs", "kid-and-jwk-legit", "signer", vCompact(s, b.payload), natural)
	s = b.sigFor(b.signer)
	s.hdr["jwk"] = map[string]interface{}{"kty": "oct", "k": vEnc.EncodeToString([]byte("secret"))}
	add("embed-jwk-symmetric", "embed-jwk-sym", "signer", vCompact(s, b.payload), natural)

	// 6. kid games
	s = b.sigFor(b.signer)
	s.hdr["kid"] = b.other.kid
	add("kid-of-other-party", "kid-other", "signer", vCompact(s, b.payload), natural)
	s = b.sigFor(b.attacker)
	s.hdr["kid"] = b.signer.kid
	add("kid-of-victim-signed-by-attacker", "forged", "attacker", vCompact(s, b.payload), string(b.attacker.alg))
	s = b.sigFor(b.attacker)
	add("signed-by-attacker-own-kid", "forged", "attacker", vCompact(s, b.payload), string(b.attacker.alg))
	s = b.sigFor(b.signer)
	delete(s.hdr, "kid")
	add("kid-removed", "kid-removed", "signer", vCompact(s, b.payload), natural)
	s = b.sigFor(b.other)
	add("signed-by-other-party-own-kid", "other-party", "other", vCompact(s, b.payload), string(b.other.alg))

	// 7. flipped bytes
	parts := strings.Split(validCompact, ".")
	for i := 0; i < nFlips; i++ {
		seg := r.Intn(3)
		if len(parts[seg]) == 0 {
			continue
		}
		pos := r.Intn(len(parts[seg]))
		p2 := []string{parts[0], parts[1], parts[2]}
		p2[seg] = vFlip(parts[seg], pos)
		class := "tampered"
		// a flip of the unused trailing bits of a segment's last character decodes to the same bytes: that is a
		// re-encoding of the same content, not a change of what was signed
		before, _ := vEnc.DecodeString(parts[seg])
		if after, err := vEnc.DecodeString(p2[seg]); err == nil && string(before) == string(after) {
			class = "reencoded"
		}
		by := "nobody"
		if class == "reencoded" {
			by = "signer"
		}
		add(fmt.Sprintf("flip-seg%d@%d", seg, pos), class, by, strings.Join(p2, "."), natural)
	}

	// 8. re-encodings of the compact form (same decoded content)
	pad := func(s string) string {
		for len(s)%4 != 0 {
			s += "="
		}
		return s
	}
	std := func(s string) string { return strings.NewReplacer("-", "+", "_", "/").Replace(s) }
	add("reenc-padded", "reencoded", "signer", pad(parts[0])+"."+pad(parts[1])+"."+pad(parts[2]), natural)
	add("reenc-padded-sig-only", "reencoded", "signer", parts[0]+"."+parts[1]+"."+pad(parts[2]), natural)
	add("reenc-std-alphabet", "reencoded", "signer", std(parts[0])+"."+std(parts[1])+"."+std(parts[2]), natural)
	add("reenc-fourth-segment", "reencoded", "signer", validCompact+".AAAA", natural)
	add("reenc-trailing-dot", "reencoded", "signer", validCompact+".", natural)
	add("reenc-leading-space", "reencoded", "signer", " "+validCompact, natural)
	add("reenc-trailing-newline", "reencoded", "signer", validCompact+"\n", natural)
	add("reenc-inner-newline", "reencoded", "signer", parts[0]+".\n"+parts[1]+"."+parts[2], natural)
	// CR / LF inside or after segments: Go's base64 decoders (Strict() too) and jwx skip them, the bytes are not the
	// canonical compact serialisation any more
	mid := func(p string, ins string) string { return p[:len(p)/2] + ins + p[len(p)/2:] }
	add("reenc-lf-inside-seg0", "reencoded", "signer", mid(parts[0], "\n")+"."+parts[1]+"."+parts[2], natural)
	add("reenc-crlf-inside-seg1", "reencoded", "signer", parts[0]+"."+mid(parts[1], "\r\n")+"."+parts[2], natural)
	add("reenc-lf-inside-seg2", "reencoded", "signer", parts[0]+"."+parts[1]+"."+mid(parts[2], "\n"), natural)
	add("reenc-cr-after-seg0", "reencoded", "signer", parts[0]+"\r."+parts[1]+"."+parts[2], natural)
	add("reenc-crlf-after-seg2", "reencoded", "signer", validCompact+"\r\n", natural)
	add("reenc-lf-every-64", "reencoded", "signer", func() string {
		var sb strings.Builder
		for i := 0; i < len(validCompact); i += 64 {
			e := i + 64
			if e > len(validCompact) {
				e = len(validCompact)
			}
			sb.WriteString(validCompact[i:e] + "\n")
		}
		return sb.String()
	}(), natural)
	add("reenc-two-segments", "truncated", "nobody", parts[0]+"."+parts[1], natural)
	add("reenc-empty-signature", "truncated", "nobody", parts[0]+"."+parts[1]+".", natural)
	// header re-serialised with different JSON spacing and signed again: a different but valid token
	s = b.sigFor(b.signer)
	p := vEnc.EncodeToString(b.payload)
	hb, _ := json.MarshalIndent(s.hdr, "", "  ")
	prot := vEnc.EncodeToString(hb)
	if signer, err := jws.NewSigner(s.signAlg); err == nil {
		if sig, err := signer.Sign([]byte(prot+"."+p), s.signKey); err == nil {
			add("reenc-header-json-spacing-resigned", "valid", "signer", prot+"."+p+"."+vEnc.EncodeToString(sig), natural)
		}
	}
	return out
}

// ------------------------------------------------------------------ analysis with the real libraries

type vSigInfo struct {
	Alg  string   `json:"alg"`
	Hdrs []string `json:"hdrs"` // which of jwk jku x5c x5u are present as tokenV2 reads them
	Kid  string   `json:"kid"`
	HasK bool     `json:"haskid"`
	Jwk  string   `json:"jwk"` // "", "pub", "priv", "sym"
	Typ  string   `json:"typ"`
}

type vInfo struct {
	Parses  bool       `json:"parses"`
	Sigs    []vSigInfo `json:"sigs"`
	SplitOK bool       `json:"split"`
}

func vJwkKind(k jwk.Key) string {
	if k == nil {
		return ""
	}
	if k.KeyType() == jwa.OctetSeq {
		return "sym"
	}
	var raw interface{}
	if err := k.Raw(&raw); err != nil {
		return "pub"
	}
	switch raw.(type) {
	case *rsa.PrivateKey, *ecdsa.PrivateKey, ed25519.PrivateKey:
		return "priv"
	}
	return "pub"
}

func vAnalyse(tok string) (vInfo, *jws.Message) {
	info := vInfo{Sigs: []vSigInfo{}}
	msg, err := jws.ParseString(tok)
	if err != nil {
		return info, nil
	}
	info.Parses = true
	_, _, _, err = jws.SplitCompact([]byte(tok))
	info.SplitOK = err == nil
	for _, s := range msg.Signatures() {
		h := s.ProtectedHeaders()
		si := vSigInfo{Alg: string(h.Algorithm()), Hdrs: []string{}, Kid: h.KeyID(), Typ: h.Type(), Jwk: vJwkKind(h.JWK())}
		_, si.HasK = h.Get(jws.KeyIDKey)
		if h.JWK() != nil {
			si.Hdrs = append(si.Hdrs, "jwk")
		}
		if h.JWKSetURL() != "" {
			si.Hdrs = append(si.Hdrs, "jku")
		}
		if h.X509CertChain() != nil {
			si.Hdrs = append(si.Hdrs, "x5c")
		}
		if h.X509URL() != "" {
			si.Hdrs = append(si.Hdrs, "x5u")
		}
		info.Sigs = append(info.Sigs, si)
	}
	return info, msg
}

// ------------------------------------------------------------------ exported wrappers (for harnesses of other packages)

type VKey = vKey
type VBase = vBase
type VVariant = vVariant
type VInfo = vInfo

func VNewKey(kind, name string) *vKey { return vNewKey(kind, name) }
func (k *vKey) SetKid(kid string)     { k.kid = kid }
func (k *vKey) KeyID() string         { return k.kid }
func (k *vKey) KeyName() string       { return k.name }
func (k *vKey) Public() interface{}   { return k.pub }
func (k *vKey) PublicJWK() jwk.Key    { return k.pubJWK() }
func VNewBase(hdr map[string]interface{}, payload []byte, signer, other, attacker *vKey) vBase {
	return vBase{hdr: hdr, payload: payload, signer: signer, other: other, attacker: attacker}
}
func VHostile(r *rand.Rand, b vBase, nFlips int) []vVariant { return vHostile(r, b, nFlips) }
func VAnalyse(tok string) (vInfo, *jws.Message)             { return vAnalyse(tok) }
func VJSON(v interface{}) []byte                            { return vJSON(v) }

// VAlgFitsKey : RFC 7518 3.4 re-stated — an ECDSA key goes with the algorithm of its curve only; other keys: true (jwx checks
// the family). The harness's own verdict, independent of crypto/jwx.AlgorithmFitsKey.
func VAlgFitsKey(alg string, key interface{}) bool {
	var bits int
	switch k := key.(type) {
	case ed25519.PublicKey: // EdDSA only, and only with a key of the right length
		return alg == "EdDSA" && len(k) == 32
	case jwk.OKPPublicKey:
		if k.Crv().String() == "Ed25519" {
			return alg == "EdDSA" && len(k.X()) == 32
		}
		return true
	case *ecdsa.PublicKey:
		bits = k.Curve.Params().BitSize
	case *ecdsa.PrivateKey:
		bits = k.Curve.Params().BitSize
	case jwk.ECDSAPublicKey:
		bits = map[string]int{"P-256": 256, "P-384": 384, "P-521": 521}[k.Crv().String()]
	default:
		return true
	}
	switch bits {
	case 256:
		return alg == "ES256"
	case 384:
		return alg == "ES384"
	case 521:
		return alg == "ES512"
	}
	return true
}
