//go:build verif

package tokenV2

// Shared harness of C04 (bearer-token decision differential, TestVerifC04Tok) and C17 (one generator of hostile
// token variants applied to every cheap consumer, TestVerifC17). In-package (needs the authorised key sets);
// injected with `go test -overlay`, nothing is written into /repo.

import (
	"bufio"
	"bytes"
	"crypto"
	"crypto/ecdsa"
	"crypto/ed25519"
	"crypto/elliptic"
	crand "crypto/rand"
	"crypto/rsa"
	b64 "encoding/base64"
	"encoding/hex"
	"encoding/json"
	"errors"
	"fmt"
	nutsJwx "github.com/nuts-foundation/nuts-node/crypto/jwx"
	"golang.org/x/crypto/ssh"
	"io"
	"math/big"
	"math/rand"
	"net/http"
	"net/http/httptest"
	"os"
	"path/filepath"
	"strconv"
	"strings"
	"testing"
	"time"
	"unicode"

	"github.com/google/uuid"
	"github.com/labstack/echo/v4"
	"github.com/lestrrat-go/jwx/v2/jwa"
	"github.com/lestrrat-go/jwx/v2/jwk"
	"github.com/lestrrat-go/jwx/v2/jws"
	"github.com/lestrrat-go/jwx/v2/jwt"
	"github.com/lestrrat-go/jwx/v2/x25519"
	"github.com/nuts-foundation/nuts-node/core"
	nutsCrypto "github.com/nuts-foundation/nuts-node/crypto"
	"github.com/nuts-foundation/nuts-node/crypto/dpop"
	"github.com/nuts-foundation/nuts-node/crypto/hash"
	"github.com/nuts-foundation/nuts-node/network/dag"
	"github.com/sirupsen/logrus"
)

type vClaims struct {
	Jti  *bool   `json:"jti"`
	JtiS *string `json:"jtis,omitempty"` // hex of the jti as the middleware reads it (a non-string jti is "")
	Iat *int64   `json:"iat"`
	Nbf *int64   `json:"nbf"`
	Exp *int64   `json:"exp"`
	Aud []string `json:"aud"`
	Iss *string  `json:"iss"`
	Sub *string  `json:"sub"`
}

func vClaimsOf(tok jwt.Token) vClaims {
	var c vClaims
	if tok == nil {
		return c
	}
	has := func(k string) bool { _, ok := tok.Get(k); return ok }
	if has(jwt.JwtIDKey) {
		js := ""
		if v, found := tok.Get(jwt.JwtIDKey); found {
			js, _ = v.(string)
		}
		err := uuid.Validate(js) // the library's strict verdict (Parse ignores the ends of the 38-byte form; repo fix 4b9197f)
		ok := err == nil
		c.Jti = &ok
		jh := hex.EncodeToString([]byte(js))
		c.JtiS = &jh
	}
	tm := func(k string, v time.Time) *int64 {
		if !has(k) {
			return nil
		}
		u := v.Unix()
		return &u
	}
	c.Iat, c.Nbf, c.Exp = tm(jwt.IssuedAtKey, tok.IssuedAt()), tm(jwt.NotBeforeKey, tok.NotBefore()), tm(jwt.ExpirationKey, tok.Expiration())
	if has(jwt.AudienceKey) {
		c.Aud = tok.Audience()
		if c.Aud == nil {
			c.Aud = []string{}
		}
	}
	if has(jwt.IssuerKey) {
		v := tok.Issuer()
		c.Iss = &v
	}
	if has(jwt.SubjectKey) {
		v := tok.Subject()
		c.Sub = &v
	}
	return c
}

// ------------------------------------------------------------------ output plumbing

type vOut struct {
	ops  *bufio.Writer
	impl *bufio.Writer
	n    int
}

func vOpen(t *testing.T) (*vOut, func()) {
	outDir := os.Getenv("VERIF_OUT")
	a, err := os.Create(filepath.Join(outDir, "ops.jsonl"))
	if err != nil {
		t.Fatal(err)
	}
	b, _ := os.Create(filepath.Join(outDir, "impl.out"))
	o := &vOut{ops: bufio.NewWriterSize(a, 1<<20), impl: bufio.NewWriterSize(b, 1<<20)}
	return o, func() { o.ops.Flush(); o.impl.Flush(); a.Close(); b.Close() }
}

func (o *vOut) emit(op interface{}, out string) {
	o.ops.Write(vJSON(op))
	o.ops.WriteByte('\n')
	o.impl.WriteString(out + "\n")
	o.n++
}

func vSilence() {
	logrus.SetOutput(io.Discard)
	if f, err := os.OpenFile(os.DevNull, os.O_WRONLY, 0); err == nil {
		os.Stderr = f // the audit logger is created lazily with os.Stderr
	}
}

func vEnvInt(name string, def int) int {
	if v := os.Getenv(name); v != "" {
		if n, err := strconv.Atoi(v); err == nil {
			return n
		}
	}
	return def
}

// replay selection: a file with one JSON object per line {"c": consumer, "name": variant name}; empty = everything
func vReplaySet() map[string]bool {
	res := map[string]bool{}
	var files []string
	if p := os.Getenv("VERIF_REPLAY"); p != "" {
		files = []string{p}
	}
	for _, f := range files {
		b, _ := os.ReadFile(f)
		for _, line := range strings.Split(string(b), "\n") {
			var m struct{ C, Name string }
			if json.Unmarshal([]byte(line), &m) == nil && m.Name != "" {
				res[m.C+"|"+m.Name] = true
			}
		}
	}
	return res
}

// ------------------------------------------------------------------ the bearer-token consumer

type vMW struct {
	impl *middlewareImpl
	keys []*vKey
	aud  string
	e    *echo.Echo
}

func vNewMW(t *testing.T, keys []*vKey, aud string) *vMW {
	var lines []string
	for _, k := range keys {
		lines = append(lines, k.sshLine)
	}
	m, err := New(nil, aud, []byte(strings.Join(lines, "\n")+"\n"))
	if err != nil {
		t.Fatal(err)
	}
	impl := m.(*middlewareImpl)
	if len(impl.authorizedKeys) != len(keys) {
		t.Fatalf("authorized keys: %d of %d parsed", len(impl.authorizedKeys), len(keys))
	}
	return &vMW{impl: impl, keys: keys, aud: aud, e: echo.New()}
}

// run the real middleware on an Authorization header value
func (m *vMW) run(authHdr string) string {
	req := httptest.NewRequest(http.MethodGet, "/internal/x", nil)
	if authHdr != "" {
		req.Header.Set("Authorization", authHdr)
	}
	rec := httptest.NewRecorder()
	c := m.e.NewContext(req, rec)
	called := false
	var user interface{}
	var err error
	panicked := func() (p bool) {
		defer func() {
			if recover() != nil {
				p = true
			}
		}()
		err = m.impl.checkConnectionAuthorization(c, func(c echo.Context) error {
			called = true
			user = c.Get(core.UserContextKey)
			return nil
		})
		return false
	}()
	if panicked {
		return "panic"
	}
	switch {
	case called && err == nil:
		return fmt.Sprintf("granted user:%v", user)
	case called:
		return fmt.Sprintf("granted-with-error %v", err)
	}
	var he *echo.HTTPError
	if errors.As(err, &he) && he.Code == http.StatusUnauthorized {
		if rec.Body.Len() != 0 || rec.Code != 200 {
			return "denied-but-wrote-response"
		}
		return "denied"
	}
	return fmt.Sprintf("other:%v", err)
}

type vTokAnalysis struct {
	Parses   bool       `json:"parses"`
	Sigs     []vSigInfo `json:"sigs"`
	Verifies []bool     `json:"verifies"`
	Claims   vClaims    `json:"claims"`
}

// what the libraries say about the credential the middleware will extract (strings.Fields(hdr)[1])
func (m *vMW) analyse(cred string) vTokAnalysis {
	info, _ := vAnalyse(cred)
	a := vTokAnalysis{Parses: info.Parses, Sigs: info.Sigs}
	var claims jwt.Token
	for _, ak := range m.impl.authorizedKeys {
		tok, err := jwt.ParseString(cred, jwt.WithKeySet(ak.jwkSet, jws.WithInferAlgorithmFromKey(true)), jwt.WithValidate(false))
		// "verifies with key i" includes: the header algorithm fits that key (harness's own RFC 7518 3.4 re-statement)
		if err == nil && len(info.Sigs) == 1 {
			if pk, perr := cryptoPublicKey(ak.key); perr != nil || !VAlgFitsKey(info.Sigs[0].Alg, pk) {
				err = errors.New("algorithm does not fit the key")
			}
		}
		a.Verifies = append(a.Verifies, err == nil)
		if err == nil && claims == nil {
			claims = tok
		}
	}
	a.Claims = vClaimsOf(claims)
	return a
}

type vTokOp struct {
	Op    string       `json:"op"`
	C     string       `json:"c"`
	Name  string       `json:"name"`
	Class string       `json:"class"`
	HAlg  string       `json:"halg"`
	By    string       `json:"by"`
	Hdr   string       `json:"hdr"`
	Keys  []string     `json:"keys"`
	Aud   string       `json:"aud"`
	Now   int64        `json:"now"`
	Tok   vTokAnalysis `json:"tok"`
}

func (m *vMW) op(v vVariant, hdr string, now time.Time) (vTokOp, string) {
	cred := ""
	if f := strings.Fields(hdr); len(f) == 2 {
		cred = f[1]
	}
	var names []string
	for _, k := range m.keys {
		names = append(names, k.name)
	}
	op := vTokOp{Op: "tok", C: "apitoken", Name: v.Name, Class: v.Class, HAlg: v.HAlg, By: v.By, Hdr: hdr, Keys: names, Aud: m.aud, Now: now.Unix(), Tok: m.analyse(cred)}
	ascii := true
	for i := 0; i < len(hdr); i++ {
		ascii = ascii && hdr[i] < 0x80
	}
	if len(hdr) > 300 && ascii { // keep ops small: the model only needs the scheme, the field count and the credential length
		op.Hdr = ""
	}
	return op, m.run(hdr)
}

// claims of a valid API token
func vAPIClaims(iss string, aud string, now time.Time) map[string]interface{} {
	return map[string]interface{}{"iss": iss, "sub": "operator-7", "aud": []string{aud}, "jti": uuid.NewString(),
		"iat": now.Add(-time.Minute).Unix(), "nbf": now.Add(-time.Minute).Unix(), "exp": now.Add(time.Hour).Unix()}
}

// TestVerifC04Tok : claim / header-shape mutations of the bearer token + the hostile structural variants
func TestVerifC04Tok(t *testing.T) {
	if os.Getenv("VERIF_OUT") == "" {
		t.Skip("VERIF_OUT not set")
	}
	vSilence()
	seed, _ := strconv.ParseInt(os.Getenv("VERIF_SEED"), 10, 64)
	r := rand.New(rand.NewSource(seed*104729 + 17))
	rounds := vEnvInt("VERIF_ROUNDS", map[bool]int{true: 12, false: 2}[os.Getenv("VERIF_TIER") == "thorough"])
	out, done := vOpen(t)
	defer done()
	only := vReplaySet()

	keys := []*vKey{vNewKey("ed", "alice@verif"), vNewKey("p256", "bob@verif"), vNewKey("rsa", "carol@verif")}
	attacker := vNewKey("ed", "mallory@verif")
	const aud = "verif-aud"
	mw := vNewMW(t, keys, aud)
	now := time.Now()
	const L = 1470 * 60

	var emitAt func(v vVariant, hdr string, at time.Time, force bool)
	emit := func(v vVariant, hdr string) { emitAt(v, hdr, now, false) }
	emitAt = func(v vVariant, hdr string, at time.Time, force bool) {
		if len(only) > 0 && !force && !only["apitoken|"+v.Name] {
			return
		}
		op, res := mw.op(v, hdr, at)
		// the model gets the header as sent unless it is long: then scheme + length only
		type long struct {
			vTokOp
			Scheme  string `json:"scheme"`
			NFields int    `json:"nfields"`
			CredLen int    `json:"credlen"`
		}
		f := strings.Fields(hdr)
		l := long{vTokOp: op, NFields: len(f)}
		if len(f) > 0 {
			l.Scheme = f[0]
		}
		if len(f) == 2 {
			l.CredLen = len(f[1])
		}
		out.emit(l, res)
	}

	for round := 0; round < rounds; round++ {
		for ki, k := range keys {
			other := keys[(ki+1)%len(keys)]
			base := vBase{hdr: map[string]interface{}{"typ": "JWT", "kid": k.kid}, signer: k, other: other, attacker: attacker}
			sign := func(claims map[string]interface{}) string {
				b := base
				b.payload = vJSON(claims)
				return vCompact(b.sigFor(k), b.payload)
			}
			tag := fmt.Sprintf("r%d-%s-", round, k.name[:strings.Index(k.name, "@")])

			// --- claim mutations (C04): each yields one token signed by the authorised key k
			type mut struct {
				name, class string
				f           func(c map[string]interface{})
			}
			nowU := now.Unix()
			muts := []mut{
				{"valid", "valid", func(c map[string]interface{}) {}},
				{"exp-zero", "lifetime-unbounded", func(c map[string]interface{}) { c["exp"] = 0 }},
				{"exp-zero-all-early", "lifetime-unbounded", func(c map[string]interface{}) { c["exp"], c["iat"], c["nbf"] = 0, 0, 0 }},
				{"exp-zero-negative-iat", "lifetime-unbounded", func(c map[string]interface{}) { c["exp"], c["iat"], c["nbf"] = 0, -10, -5 }},
				{"exp-zero-dates-rfc3339-1969", "lifetime-unbounded", func(c map[string]interface{}) {
					c["iat"], c["nbf"], c["exp"] = "1969-12-31T00:00:00Z", "1969-12-31T00:00:00Z", 0
				}},
				{"exp-epoch-rfc3339-dates-1969", "lifetime-unbounded", func(c map[string]interface{}) {
					c["iat"], c["nbf"], c["exp"] = "1969-12-31T00:00:00Z", "1969-12-31T00:00:00Z", "1970-01-01T00:00:00Z"
				}},
				{"exp-epoch-rfc3339-offset", "lifetime-unbounded", func(c map[string]interface{}) {
					c["iat"], c["nbf"], c["exp"] = "1969-06-01T12:00:00+02:00", "1969-06-01T12:00:00+02:00", "1970-01-01T01:00:00+01:00"
				}},
				{"exp-zero-nbf-rfc3339-1969-iat-number", "lifetime-unbounded", func(c map[string]interface{}) {
					c["iat"], c["nbf"], c["exp"] = "1960-01-01T00:00:00Z", "1969-12-31T23:59:59Z", 0.0
				}},
				{"exp-half-second-dates-1969", "lifetime-unbounded", func(c map[string]interface{}) {
					c["iat"], c["nbf"], c["exp"] = "1969-12-31T00:00:00Z", "1969-12-31T00:00:00Z", 0.5
				}},
				{"dates-rfc3339-valid", "valid", func(c map[string]interface{}) {
					c["iat"], c["nbf"] = now.Add(-time.Minute).UTC().Format(time.RFC3339), now.Add(-time.Minute).UTC().Format(time.RFC3339)
					c["exp"] = now.Add(time.Hour).UTC().Format(time.RFC3339)
				}},
				{"dates-rfc3339-expired", "expired", func(c map[string]interface{}) {
					c["iat"], c["nbf"] = now.Add(-3*time.Hour).UTC().Format(time.RFC3339), now.Add(-3*time.Hour).UTC().Format(time.RFC3339)
					c["exp"] = now.Add(-time.Hour).UTC().Format(time.RFC3339)
				}},
				{"exp-far-future-250y", "lifetime-too-long", func(c map[string]interface{}) { c["exp"] = nowU + int64(7889400000) }},
				{"exp-far-future-292y-plus-1d", "lifetime-too-long", func(c map[string]interface{}) { c["exp"] = nowU + int64(9240840655) }},
				{"exp-far-future-300y", "lifetime-too-long", func(c map[string]interface{}) { c["exp"] = nowU + int64(9467280000) }},
				{"exp-far-future-500y", "lifetime-too-long", func(c map[string]interface{}) { c["exp"] = nowU + int64(15778800000) }},
				{"exp-far-future-584y-minus-30d", "lifetime-too-long", func(c map[string]interface{}) { c["exp"] = nowU + int64(18442825200) }},
				{"exp-far-future-585y", "lifetime-too-long", func(c map[string]interface{}) { c["exp"] = nowU + int64(18461196000) }},
				{"exp-far-future-600y", "lifetime-too-long", func(c map[string]interface{}) { c["exp"] = nowU + int64(18934560000) }},
				{"exp-far-future-880y", "lifetime-too-long", func(c map[string]interface{}) { c["exp"] = nowU + int64(27770688000) }},
				{"exp-far-future-1000y", "lifetime-too-long", func(c map[string]interface{}) { c["exp"] = nowU + int64(31557600000) }},
				{"exp-far-future-1169y", "lifetime-too-long", func(c map[string]interface{}) { c["exp"] = nowU + int64(36890834400) }},
				{"exp-far-future-1500y", "lifetime-too-long", func(c map[string]interface{}) { c["exp"] = nowU + int64(47336400000) }},
				{"exp-far-future-5000y", "lifetime-too-long", func(c map[string]interface{}) { c["exp"] = nowU + int64(157788000000) }},
				{"exp-wrap-int64-ns-minus-1", "lifetime-too-long", func(c map[string]interface{}) {
					c["iat"], c["nbf"] = nowU-60, nowU-60
					c["exp"] = nowU - 60 + 9223372036
				}},
				{"exp-wrap-int64-ns-plus-1", "lifetime-too-long", func(c map[string]interface{}) {
					c["iat"], c["nbf"] = nowU-60, nowU-60
					c["exp"] = nowU - 60 + 9223372038
				}},
				{"exp-wrap-2x-plus-1h", "lifetime-too-long", func(c map[string]interface{}) {
					c["iat"], c["nbf"] = nowU-60, nowU-60
					c["exp"] = nowU - 60 + 2*9223372036 + 3600
				}},
				{"exp-past", "expired", func(c map[string]interface{}) { c["exp"] = nowU - 30 }},
				{"exp-now-minus-1", "expired", func(c map[string]interface{}) { c["exp"] = nowU - 1 }},
				{"nbf-future", "not-yet-valid", func(c map[string]interface{}) { c["nbf"] = nowU + 600; c["exp"] = nowU + 3600 }},
				{"iat-future", "not-yet-valid", func(c map[string]interface{}) { c["iat"], c["nbf"] = nowU+600, nowU+600; c["exp"] = nowU + 3600 }},
				{"iat-after-nbf", "iat-after-nbf", func(c map[string]interface{}) { c["iat"] = nowU - 10; c["nbf"] = nowU - 20 }},
				{"lifetime-max", "valid", func(c map[string]interface{}) { c["iat"], c["nbf"] = nowU-100, nowU-100; c["exp"] = nowU - 100 + L }},
				{"lifetime-max-plus-1", "lifetime-too-long", func(c map[string]interface{}) { c["iat"], c["nbf"] = nowU-100, nowU-100; c["exp"] = nowU - 100 + L + 1 }},
				{"lifetime-vs-iat-too-long", "lifetime-too-long", func(c map[string]interface{}) { c["iat"], c["nbf"] = nowU-4000, nowU-100; c["exp"] = nowU - 100 + L }},
				{"lifetime-year", "lifetime-too-long", func(c map[string]interface{}) { c["exp"] = nowU + 365*86400 }},
				{"aud-wrong", "wrong-aud", func(c map[string]interface{}) { c["aud"] = []string{"other"} }},
				{"aud-string-right", "valid", func(c map[string]interface{}) { c["aud"] = aud }},
				{"aud-string-wrong", "wrong-aud", func(c map[string]interface{}) { c["aud"] = "other" }},
				{"aud-multiple-incl", "valid", func(c map[string]interface{}) { c["aud"] = []string{"x", aud, "y"} }},
				{"aud-empty-list", "wrong-aud", func(c map[string]interface{}) { c["aud"] = []string{} }},
				{"aud-case", "wrong-aud", func(c map[string]interface{}) { c["aud"] = []string{strings.ToUpper(aud)} }},
				{"iss-other-key-owner", "iss-not-key-owner", func(c map[string]interface{}) { c["iss"] = other.name }},
				{"iss-unknown", "iss-not-key-owner", func(c map[string]interface{}) { c["iss"] = "nobody@verif" }},
				{"iss-empty", "iss-not-key-owner", func(c map[string]interface{}) { c["iss"] = "" }},
				{"iss-padded", "iss-not-key-owner", func(c map[string]interface{}) { c["iss"] = " " + k.name }},
				{"sub-empty", "empty-sub", func(c map[string]interface{}) { c["sub"] = "" }},
				{"jti-not-uuid", "jti-not-uuid", func(c map[string]interface{}) { c["jti"] = "token-1" }},
				{"jti-number", "jti-not-uuid", func(c map[string]interface{}) { c["jti"] = 7 }},
				{"jti-empty", "jti-not-uuid", func(c map[string]interface{}) { c["jti"] = "" }},
				{"jti-uuid-urn", "valid", func(c map[string]interface{}) { c["jti"] = "urn:uuid:" + uuid.NewString() }},
				{"jti-uuid-nodash", "valid", func(c map[string]interface{}) { c["jti"] = strings.ReplaceAll(uuid.NewString(), "-", "") }},
				{"jti-uuid-braces", "valid", func(c map[string]interface{}) { c["jti"] = "{" + uuid.NewString() + "}" }},
				{"jti-uuid-upper", "valid", func(c map[string]interface{}) { c["jti"] = strings.ToUpper(uuid.NewString()) }},
				{"jti-uuid-urn-upper", "valid", func(c map[string]interface{}) { c["jti"] = "URN:UUID:" + uuid.NewString() }},
				// text that merely CONTAINS a UUID is not a UUID
				{"jti-prefix-uuid", "jti-not-uuid", func(c map[string]interface{}) { c["jti"] = "batch-2024-" + uuid.NewString() }},
				{"jti-uuid-suffix", "jti-not-uuid", func(c map[string]interface{}) { c["jti"] = uuid.NewString() + "-retry-17" }},
				{"jti-uuid-suffix-9", "jti-not-uuid", func(c map[string]interface{}) { c["jti"] = uuid.NewString() + "-retry-17"[:9] }},
				{"jti-uuid-suffix-2", "jti-not-uuid", func(c map[string]interface{}) { c["jti"] = uuid.NewString() + "-1" }},
				{"jti-prefix-2-uuid", "jti-not-uuid", func(c map[string]interface{}) { c["jti"] = "id" + uuid.NewString() }},
				{"jti-prefix-9-uuid", "jti-not-uuid", func(c map[string]interface{}) { c["jti"] = "urn-uuid:" + uuid.NewString() }},
				{"jti-uuid-doubled", "jti-not-uuid", func(c map[string]interface{}) { c["jti"] = uuid.NewString() + uuid.NewString() }},
				{"jti-uuid-in-text", "jti-not-uuid", func(c map[string]interface{}) { c["jti"] = "alice' issued to root by " + uuid.NewString() + " --" }},
				{"jti-uuid-newline-uuid", "jti-not-uuid", func(c map[string]interface{}) { c["jti"] = uuid.NewString() + "\n" + uuid.NewString() }},
				{"jti-urn-braces", "jti-not-uuid", func(c map[string]interface{}) { c["jti"] = "urn:uuid:{" + uuid.NewString() + "}" }},
				{"jti-braces-nodash", "jti-not-uuid", func(c map[string]interface{}) { c["jti"] = "{" + strings.ReplaceAll(uuid.NewString(), "-", "") + "}" }},
				{"jti-uuid-short", "jti-not-uuid", func(c map[string]interface{}) { c["jti"] = uuid.NewString()[:35] }},
				{"jti-uuid-nonhex", "jti-not-uuid", func(c map[string]interface{}) { u := uuid.NewString(); c["jti"] = "g" + u[1:] }},
				{"jti-uuid-dash-moved", "jti-not-uuid", func(c map[string]interface{}) { u := uuid.NewString(); c["jti"] = u[:7] + "-" + u[7:8] + u[9:] }},
				{"jti-uuid-space-padded", "jti-not-uuid", func(c map[string]interface{}) { c["jti"] = " " + uuid.NewString() }},
				{"jti-array", "jti-not-uuid", func(c map[string]interface{}) { c["jti"] = []string{uuid.NewString()} }},
				// google/uuid v1.6.0 Parse does not look at the first and last byte of the 38-byte form; Validate does
				{"jti-uuid-38-any-ends", "jti-not-uuid", func(c map[string]interface{}) { c["jti"] = "x" + uuid.NewString() + "y" }},
				{"jti-uuid-38-text-ends", "jti-not-uuid", func(c map[string]interface{}) { c["jti"] = "'" + uuid.NewString() + ";" }},
				{"jti-uuid-38-open-brace-only", "jti-not-uuid", func(c map[string]interface{}) { c["jti"] = "{" + uuid.NewString() + "-" }},
				{"times-fractional", "valid", func(c map[string]interface{}) { c["iat"] = float64(nowU) - 60.5; c["nbf"] = float64(nowU) - 60.25 }},
				{"times-as-strings", "valid", func(c map[string]interface{}) { c["exp"] = strconv.FormatInt(nowU+3600, 10) }},
				{"extra-claims", "valid", func(c map[string]interface{}) { c["admin"] = true; c["scope"] = "all" }},
				{"payload-long-4096", "valid", nil},
				{"payload-long-4097", "cred-too-long", nil},
			}
			for _, f := range []string{"jti", "iat", "exp", "nbf", "aud", "iss", "sub"} {
				f := f
				muts = append(muts, mut{"missing-" + f, "missing-claim", func(c map[string]interface{}) { delete(c, f) }})
				muts = append(muts, mut{"null-" + f, "missing-claim", func(c map[string]interface{}) { c[f] = nil }})
			}
			for _, m := range muts {
				claims := vAPIClaims(k.name, aud, now)
				var tok string
				if m.f != nil {
					m.f(claims)
					tok = sign(claims)
				} else { // pad the credential to an exact length with a long extra claim
					want := 4096
					if m.class == "cred-too-long" {
						want = 4097
					}
					for pad := want - 700; pad < want+50; pad++ {
						claims["pad"] = strings.Repeat("p", pad)
						tok = sign(claims)
						if len(tok) >= want {
							break
						}
					}
					for try := 0; len(tok) != want && try < 2000; try++ { // ECDSA/RSA signature length is fixed in JWS; adjust pad
						claims["pad"] = strings.Repeat("p", len(claims["pad"].(string))-(len(tok)-want+2)/4*3-1+try%3)
						tok = sign(claims)
					}
					if len(tok) != want {
						continue
					}
				}
				emit(vVariant{Name: tag + "claims-" + m.name, Class: m.class, HAlg: string(k.alg), By: "signer"}, "Bearer "+tok)
			}

			// --- the SECOND kid of every authorised key (buildKeySet: JWK SHA-256 thumbprint next to the ssh fingerprint), the
			// thumbprint kid of ANOTHER authorised key (its owner did not sign), and of the attacker's key
			{
				thumb := func(key *vKey) string {
					j, err := jwk.FromRaw(key.pub)
					if err != nil || jwk.AssignKeyID(j, jwk.WithThumbprintHash(crypto.SHA256)) != nil {
						return "no-thumbprint"
					}
					return j.KeyID()
				}
				for _, kv := range []struct {
					name, class, kid, by string
				}{{"kid-jwk-thumbprint", "valid", thumb(k), "signer"}, {"kid-jwk-thumbprint-of-other-key", "forged", thumb(other), "kid-of-other-key"},
					{"kid-jwk-thumbprint-of-attacker", "forged", thumb(attacker), "kid-of-attacker"}} {
					b := base
					b.hdr = map[string]interface{}{"typ": "JWT", "kid": kv.kid}
					b.payload = vJSON(vAPIClaims(k.name, aud, now))
					sg := b.sigFor(k)
					sg.hdr["kid"] = kv.kid // sigFor puts the signer's ssh-fingerprint kid
					emit(vVariant{Name: tag + kv.name, Class: kv.class, HAlg: string(k.alg), By: kv.by}, "Bearer "+vCompact(sg, b.payload))
				}
			}

			// --- Authorization header shapes around a valid token
			valid := sign(vAPIClaims(k.name, aud, now))
			shapes := []struct{ name, class, hdr string }{
				{"hdr-none", "no-credential", ""},
				{"hdr-bearer-only", "no-credential", "Bearer"},
				{"hdr-bearer-space", "no-credential", "Bearer "},
				{"hdr-lower", "valid", "bearer " + valid},
				{"hdr-upper", "valid", "BEARER " + valid},
				{"hdr-tabs", "valid", "Bearer\t\t" + valid + "  "},
				{"hdr-basic", "no-credential", "Basic " + valid},
				{"hdr-three-fields", "no-credential", "Bearer " + valid + " extra"},
				{"hdr-token-only", "no-credential", valid},
				{"hdr-bearer-colon", "no-credential", "Bearer:" + valid},
				{"hdr-ws-nbsp-only", "no-credential", "\u00a0"},
				{"hdr-ws-nel-only", "no-credential", "\u0085"},
				{"hdr-ws-emspace-only", "no-credential", "\u2003\u2003"},
				{"hdr-ws-ideographic-only", "no-credential", "\u3000"},
				{"hdr-ws-mixed-only", "no-credential", "\u00a0\u2003 \t\u3000\u0085"},
				{"hdr-ws-vt-ff-only", "no-credential", "\v\f"},
				{"hdr-bearer-nbsp-token", "valid", "Bearer\u00a0" + valid},
				{"hdr-bearer-emspace-token", "valid", "Bearer\u2003" + valid},
				{"hdr-nbsp-bearer-token-nbsp", "valid", "\u00a0Bearer " + valid + "\u3000"},
				{"hdr-bearer-zwsp-token", "no-credential", "Bearer\u200b" + valid},
				{"hdr-bearer-invalid-utf8", "no-credential", "Bearer\xc2" + valid},
				{"hdr-1-byte", "no-credential", "B"},
				{"hdr-2-bytes", "no-credential", "Be"},
				{"hdr-4-bytes", "no-credential", "Bear"},
				{"hdr-5-bytes", "no-credential", "Beare"},
				{"hdr-6-bytes-bearer", "no-credential", "bearer"},
				{"hdr-7-bytes-bearer-x", "no-credential", "Bearerx"},
				{"hdr-1-byte-nonascii", "no-credential", "\xff"},
				{"hdr-garbage", "garbage", "Bearer invalid"},
				{"hdr-garbage-dots", "garbage", "Bearer a.b.c"},
				{"hdr-empty-json", "garbage", "Bearer {}"},
			}
			for _, s := range shapes {
				emit(vVariant{Name: tag + s.name, Class: s.class, HAlg: string(k.alg), By: "signer"}, s.hdr)
			}

			// --- hostile structural variants (shared generator with C17)
			b := base
			b.payload = vJSON(vAPIClaims(k.name, aud, now))
			for _, v := range vHostile(r, b, 24) {
				v.Name = tag + v.Name
				emit(v, "Bearer "+v.Tok)
			}
		}
	}
	// --- histories on ONE middleware instance: the same credentials presented again while the clock moves past exp / nbf.
	// The decision must be the one for (credential, clock) alone, whatever was presented (and granted) before.
	histWanted := len(only) == 0
	for k := range only {
		if strings.Contains(k, "history-") {
			histWanted = true
		}
	}
	if histWanted {
		for time.Now().Nanosecond() > 350_000_000 { // start early in a second: every phase stays clear of second boundaries
			time.Sleep(20 * time.Millisecond)
		}
		base := time.Now()
		mk := func(k *vKey, iat, nbf, exp int64) string {
			cl := vAPIClaims(k.name, aud, base)
			cl["iat"], cl["nbf"], cl["exp"] = iat, nbf, exp
			bb := vBase{hdr: map[string]interface{}{"typ": "JWT", "kid": k.kid}, payload: vJSON(cl), signer: k, other: keys[1], attacker: attacker}
			return vCompact(bb.sigFor(k), bb.payload)
		}
		bu := base.Unix()
		type htok struct {
			name, tok string
			classA    string // at base
			classB    string // 3 s later
		}
		hts := []htok{
			{"expires-in-2s-alice", mk(keys[0], bu-10, bu-10, bu+3), "valid", "expired"},
			{"expires-in-2s-bob", mk(keys[1], bu-10, bu-10, bu+3), "valid", "expired"},
			{"valid-from-2s", mk(keys[0], bu-10, bu+3, bu+3600), "not-yet-valid", "valid"},
			{"valid-for-an-hour", mk(keys[2], bu-10, bu-10, bu+3600), "valid", "valid"},
			{"expired-already", mk(keys[0], bu-100, bu-100, bu-5), "expired", "expired"},
		}
		present := func(phase string, rep int) {
			for _, h := range hts {
				for _, shape := range []string{"Bearer ", "bearer\t"} {
					class := h.classA
					if phase != "A" {
						class = h.classB
					}
					name := fmt.Sprintf("history-%s-%s%d-%s", h.name, phase, rep, strings.TrimSpace(shape))
					emitAt(vVariant{Name: name, Class: class, HAlg: "", By: "signer"}, shape+h.tok, time.Now(), true)
				}
			}
		}
		present("A", 1)
		present("A", 2)
		time.Sleep(time.Until(time.Unix(bu+5, 250_000_000))) // margins of >= 2 s around exp / nbf: safe on a loaded machine
		present("B", 1)
		present("B", 2)
	}

	// --- the jti grammar: the real uuid.Parse against the model's uuidParse on strings built around UUIDs
	if len(only) == 0 {
		hexd := "0123456789abcdefABCDEF"
		junk := []string{"", "x", "-", "{", "}", "{", "}", "'", ";", "id", "{}", "-1", "urn:uuid:", "URN:UUID:", "Urn:Uuid:", "urn-uuid:", "urn:uuid", "batch-", "-retry-17", " ", "\n", "\x00", "\u212a", "urn:uuid:{", "ſ"}
		for i := 0; i < 400; i++ {
			u := uuid.NewString()
			switch r.Intn(6) {
			case 0:
				u = strings.ToUpper(u)
			case 1:
				u = strings.ReplaceAll(u, "-", "")
			case 2: // one byte changed
				b := []byte(u)
				b[r.Intn(len(b))] = "-gG:{} zZ0fF"[r.Intn(12)]
				u = string(b)
			case 3: // one byte removed / added
				j := r.Intn(len(u))
				if r.Intn(2) == 0 {
					u = u[:j] + u[j+1:]
				} else {
					u = u[:j] + string(hexd[r.Intn(len(hexd))]) + u[j:]
				}
			}
			s := junk[r.Intn(len(junk))] + u + junk[r.Intn(len(junk))]
			if r.Intn(8) == 0 {
				s += uuid.NewString()
			}
			_, err := uuid.Parse(s)
			out.emit(map[string]interface{}{"op": "uuid", "s": hex.EncodeToString([]byte(s)), "show": strconv.QuoteToASCII(s)}, fmt.Sprintf("%v %v", err == nil, uuid.Validate(s) == nil))
		}
	}

	// --- hand-edited authorized_keys files: comments, blank lines, a weak RSA key, a key without user name, commented-out keys
	// (plain, after blanks/tabs, after a UTF-8 BOM / NBSP / a word, in CRLF files), inline comments, options, user names with
	// spaces, the same key twice. Which lines become authorised keys (= the model's parse of the same bytes), and who gets in.
	{
		type holder struct {
			key   *vKey
			iss   string // issuer a holder of that key would put in his token
			class string // for iss = e.iss
			owner string // user name the file gives that key ("" = none: not authorised)
		}
		ak := func(k *vKey, comment string) string {
			f := strings.Fields(k.sshLine)
			return strings.TrimSpace(f[0] + " " + f[1] + " " + comment)
		}
		synth := func(n *big.Int, comment string) string {
			pk, err := ssh.NewPublicKey(&rsa.PublicKey{N: n, E: 65537})
			if err != nil {
				t.Fatal(err)
			}
			return strings.TrimSpace(string(ssh.MarshalAuthorizedKey(pk))) + " " + comment
		}
		a, b, c := keys[0], keys[1], keys[2]
		weak, nocomment, ghost, opt := vNewKey("rsa1024", "weak@verif"), vNewKey("ed", "nobody@verif"), vNewKey("ed", "ghost@verif"), vNewKey("p256", "opt@verif")
		// RSA moduli just below / above the 2048-bit rule whose length is NOT a whole number of bytes (Size()*8 rounds them up)
		w2047, w2041, s2049 := vNewKey("rsa2047", "w2047@verif"), vNewKey("rsa2041", "w2041@verif"), vNewKey("rsa2049", "s2049@verif")
		hAlice := holder{a, "alice@verif", "valid", "alice@verif"}
		hGhost := holder{ghost, "ghost@verif", "key-commented-out", ""}
		const bom = "\xef\xbb\xbf"
		files := []struct {
			name    string
			content string
			holders []holder
		}{
			{"messy", strings.Join([]string{"#####", "  # ", ak(a, "alice@verif"), "", "   " + ak(b, "bob@verif") + "   # added by ops", ak(weak, "weak@verif"),
				ak(nocomment, ""), "#" + ak(ghost, "ghost@verif"), "\t" + ak(c, "carol with spaces") + " ", ak(a, "alice-dup@verif"),
				`no-port-forwarding,command="/bin/true" ` + ak(opt, "opt@verif")}, "\n") + "\n",
				[]holder{hAlice, {b, "bob@verif", "valid", "bob@verif"}, {weak, "weak@verif", "key-weak-rsa", ""}, {nocomment, "nobody@verif", "key-no-comment", ""},
					hGhost, {c, "carol with spaces", "valid", "carol with spaces"}, {a, "alice-dup@verif", "dup-key-second-name", "alice@verif"}, {opt, "opt@verif", "valid", "opt@verif"}}},
			{"rsa-thresholds", strings.Join([]string{ak(w2047, "w2047@verif"), ak(a, "alice@verif"), ak(w2041, "w2041@verif"), ak(s2049, "s2049@verif"), ak(c, "carol@verif")}, "\n") + "\n",
				[]holder{hAlice, {w2047, "w2047@verif", "key-weak-rsa", ""}, {w2041, "w2041@verif", "key-weak-rsa", ""}, {s2049, "s2049@verif", "valid", "s2049@verif"},
					{c, "carol@verif", "valid", "carol@verif"}}},
			// entries with SYNTHETIC RSA moduli on both sides of 2^2047 (nobody holds a private key for them: what matters is which
			// of them become authorised keys); the op carries each entry's key BLOB and the model measures the modulus itself
			{"rsa-synthetic-moduli", strings.Join([]string{synth(vPow2(2047, -1), "m2047ones@verif"), synth(vPow2(2047, 0), "m2048min@verif"), ak(a, "alice@verif"),
				synth(vPow2(2047, 1), "m2048min1@verif"), synth(vPow2(2040, 0), "m2041@verif"), synth(vPow2(2040, -1), "m2040ones@verif"), synth(vPow2(2048, -1), "m2048ones@verif"),
				synth(vPow2(2048, 0), "m2049@verif"), synth(vPow2(1023, 1), "m1024@verif"), synth(vPow2(2046, 12345), "m2047b@verif"), synth(vPow2(4095, 7), "m4096@verif"),
				synth(new(big.Int).Rand(r, vPow2(2047, 0)), "mrand-below@verif"), synth(new(big.Int).Add(vPow2(2047, 0), new(big.Int).Rand(r, vPow2(2047, 0))), "mrand-above@verif")}, "\n") + "\n",
				[]holder{hAlice}},
			{"commented-variants", strings.Join([]string{ak(a, "alice@verif"), "\t#" + ak(ghost, "ghost@verif"), "   #   " + ak(ghost, "ghost@verif"),
				"##" + ak(ghost, "ghost@verif"), "# " + ak(ghost, "ghost@verif") + " # twice"}, "\n"), []holder{hAlice, hGhost}},
			{"bom-commented-key-first", bom + "#" + ak(ghost, "ghost@verif") + "\n" + ak(a, "alice@verif") + "\n", []holder{hAlice, hGhost}},
			{"bom-comment-first", bom + "# keys\n" + ak(a, "alice@verif") + "\n#" + ak(ghost, "ghost@verif") + "\n", []holder{hAlice, hGhost}},
			{"bom-then-key", bom + ak(a, "alice@verif") + "\n", []holder{hAlice}},
			{"nbsp-commented-key", ak(a, "alice@verif") + "\n\u00a0#" + ak(ghost, "ghost@verif") + "\n", []holder{hAlice, hGhost}},
			{"word-commented-key", ak(a, "alice@verif") + "\nrevoked# " + ak(ghost, "ghost@verif") + "\n", []holder{hAlice, hGhost}},
			{"word-space-commented-key", ak(a, "alice@verif") + "\nrevoked #" + ak(ghost, "ghost@verif") + "\n", []holder{hAlice, hGhost}},
			{"crlf", "# keys\r\n" + ak(a, "alice@verif") + "\r\n#" + ak(ghost, "ghost@verif") + "\r\n" + ak(b, "bob@verif") + " # ops\r\n",
				[]holder{hAlice, hGhost, {b, "bob@verif", "valid", "bob@verif"}}},
			{"crlf-blank-line", ak(a, "alice@verif") + "\r\n\r\n#" + ak(ghost, "ghost@verif") + "\r\n", []holder{hAlice, hGhost}},
			{"cr-only-commented", ak(a, "alice@verif") + "\n\r#" + ak(ghost, "ghost@verif") + "\n", []holder{hAlice, hGhost}},
			{"inline-comment-no-space", ak(a, "alice@verif") + "#note\n#" + ak(ghost, "ghost@verif"), []holder{hAlice, hGhost}},
			{"option-with-hash", `command="echo #hi" ` + ak(opt, "opt@verif") + "\n" + ak(a, "alice@verif") + "\n", []holder{hAlice, {opt, "opt@verif", "valid-if-listed", "opt@verif"}}},
			{"comment-with-hash-name", ak(a, "alice#1@verif") + "\n", []holder{{a, "alice#1@verif", "name-cut-at-hash", "alice"}}},
			{"empty-file", "", nil},
			{"only-comments", "# a\n   # b\n\n", nil},
		}
		for _, f := range files {
			// the lines as parseAuthorizedKeys splits them, their pre-processed text and the ssh parser's verdict on it
			var desc []map[string]interface{}
			for _, raw := range strings.Split(f.content, "\n") {
				pre := strings.TrimRight(strings.TrimLeft(strings.SplitN(raw, "#", 2)[0], " \t"), " \t")
				d := map[string]interface{}{"raw": hex.EncodeToString([]byte(raw)), "pre": hex.EncodeToString([]byte(pre)), "v": nil}
				if pre != "" {
					pk, comment, _, rest, err := ssh.ParseAuthorizedKey([]byte(pre))
					if err != nil || rest != nil {
						d["v"] = map[string]interface{}{"err": true}
					} else {
						v := map[string]interface{}{"kind": "other", "bits": 0, "comment": strings.TrimSpace(comment), "blob": hex.EncodeToString(pk.Marshal())}
						if cp, ok := pk.(ssh.CryptoPublicKey); ok {
							switch k := cp.CryptoPublicKey().(type) {
							case *rsa.PublicKey:
								v["kind"], v["bits"] = "rsa", k.N.BitLen()
							case *ecdsa.PublicKey:
								v["kind"] = "ecdsa"
							case ed25519.PublicKey:
								v["kind"] = "ed25519"
							}
						}
						d["v"] = v
					}
				}
				desc = append(desc, d)
			}
			m2, err := New(nil, aud, []byte(f.content))
			if err != nil {
				if len(only) == 0 || only["akeys|"+f.name] {
					out.emit(map[string]interface{}{"op": "akeys", "file": f.name, "lines": desc}, "parse-error")
				}
				continue
			}
			impl2 := m2.(*middlewareImpl)
			var names []string
			var vkeys []*vKey
			for _, k := range impl2.authorizedKeys {
				names = append(names, k.comment)
				vkeys = append(vkeys, &vKey{name: k.comment})
			}
			if len(only) == 0 || only["akeys|"+f.name] {
				out.emit(map[string]interface{}{"op": "akeys", "file": f.name, "lines": desc}, strings.Join(names, "|"))
			}
			mw2 := &vMW{impl: impl2, keys: vkeys, aud: aud, e: mw.e}
			for _, e := range f.holders {
				k := e.key
				hdr := map[string]interface{}{"typ": "JWT", "kid": k.kid}
				for _, issVariant := range []string{e.iss, "alice@verif", ""} {
					bb := vBase{hdr: hdr, payload: vJSON(vAPIClaims(issVariant, aud, now)), signer: k, other: a, attacker: attacker}
					tok := vCompact(bb.sigFor(k), bb.payload)
					class := e.class
					switch {
					case e.owner == "": // not an authorised key, whatever issuer it claims
						if issVariant == "" {
							class = e.class + "+iss-empty"
						} else if issVariant != e.iss {
							class = e.class + "+iss-alice"
						}
					case issVariant == e.owner:
						class = "valid"
						if e.class == "valid-if-listed" || e.class == "name-cut-at-hash" {
							class = e.class // no demand either way
						}
					case issVariant == e.iss && e.class != "valid":
						class = e.class // dup-key-second-name, name-cut-at-hash …: no demand
					default:
						class = "iss-not-key-owner"
					}
					name := "akeys-" + f.name + "-" + strings.ReplaceAll(e.iss, " ", "_") + "-as-" + strings.ReplaceAll(issVariant, " ", "_")
					if len(only) > 0 && !only["apitoken|"+name] {
						continue
					}
					by := "signer"
					if strings.HasPrefix(class, "key-") {
						by = "unauthorised-key"
					}
					op, res := mw2.op(vVariant{Name: name, Class: class, HAlg: string(k.alg), By: by}, "Bearer "+tok, now)
					type long struct {
						vTokOp
						Scheme  string `json:"scheme"`
						NFields int    `json:"nfields"`
						CredLen int    `json:"credlen"`
						KBits   int    `json:"kbits,omitempty"` // bit length of the signing key's RSA modulus (the real key)
					}
					kbits := 0
					if rk, ok := k.pub.(*rsa.PublicKey); ok {
						kbits = rk.N.BitLen()
					}
					out.emit(long{vTokOp: op, Scheme: "Bearer", NFields: 2, CredLen: len(tok), KBits: kbits}, res)
				}
			}
		}
	}
	if out.n == 0 {
		t.Fatal("nothing generated")
	}
}

// vPow2 = 2^e + d
func vPow2(e uint, d int64) *big.Int {
	return new(big.Int).Add(new(big.Int).Lsh(big.NewInt(1), e), big.NewInt(d))
}

// ------------------------------------------------------------------ C17: the other consumers

type vConsumerOp struct {
	Op    string                 `json:"op"`
	C     string                 `json:"c"`
	Name  string                 `json:"name"`
	Class string                 `json:"class"`
	HAlg  string                 `json:"halg"`
	By    string                 `json:"by"`
	Info  vInfo                  `json:"info"`
	V     map[string]interface{} `json:"v"` // verdicts of the libraries / the key source, per consumer
}

type vResolver map[string]crypto.PublicKey

// vDelisted : kid -> transaction refs as of which the key is no longer in the signer's document (a key history)
var vDelisted = map[string]map[hash.SHA256Hash]bool{}

func (r vResolver) ResolvePublicKey(kid string, prevs []hash.SHA256Hash) (crypto.PublicKey, error) {
	for _, p := range prevs {
		if vDelisted[kid][p] {
			return nil, errors.New("key not found in the document as of the given transactions")
		}
	}
	if k, ok := r[kid]; ok {
		return k, nil
	}
	return nil, errors.New("key not found")
}

func vOK(err error) string {
	if err == nil {
		return "accept"
	}
	return "reject"
}

func vRecover(f func() string) (res string) {
	defer func() {
		if p := recover(); p != nil {
			res = "panic"
		}
	}()
	return f()
}

func TestVerifC17(t *testing.T) {
	if os.Getenv("VERIF_OUT") == "" {
		t.Skip("VERIF_OUT not set")
	}
	vSilence()
	seed, _ := strconv.ParseInt(os.Getenv("VERIF_SEED"), 10, 64)
	r := rand.New(rand.NewSource(seed*15485863 + 170))
	thorough := os.Getenv("VERIF_TIER") == "thorough"
	rounds := vEnvInt("VERIF_ROUNDS", map[bool]int{true: 16, false: 4}[thorough])
	nFlips := vEnvInt("VERIF_FLIPS", 60)
	out, done := vOpen(t)
	defer done()
	only := vReplaySet()

	signers := []*vKey{vNewKey("p256", "alice"), vNewKey("ed", "bob"), vNewKey("rsa", "carol"), vNewKey("p384", "dave"), vNewKey("p521", "erin")}
	attackers := []*vKey{vNewKey("p256", "mallory-ec"), vNewKey("ed", "mallory-ed")}
	// the protocol's key source: kid -> public key of the parties (never the attacker's)
	source := vResolver{}
	for _, k := range signers {
		k.kid = "did:nuts:" + k.name + "#key-1"
		source[k.kid] = k.pub
	}
	for _, k := range attackers {
		k.kid = "did:nuts:" + k.name + "#key-1"
	}
	keyFunc := func(kid string) (crypto.PublicKey, error) { return source.ResolvePublicKey(kid, nil) }
	dagVerifier := dag.NewTransactionSignatureVerifier(source)
	now := time.Now()

	// bearer-token consumer needs ssh style kids
	apiKeys := []*vKey{vNewKey("p256", "alice@verif"), vNewKey("ed", "bob@verif"), vNewKey("rsa", "carol@verif"), vNewKey("p384", "dave@verif"), vNewKey("p521", "erin@verif")}
	apiAttackers := []*vKey{vNewKey("p256", "mallory-ec@verif"), vNewKey("ed", "mallory-ed@verif")}
	mw := vNewMW(t, apiKeys, "verif-aud")

	want := func(c, name string) bool { return len(only) == 0 || only[c+"|"+name] }

	// ---------------- crypto/jwx.AlgorithmFitsKey itself: every key shape x every algorithm name, against the model's function
	algfitsWanted := len(only) == 0
	for k := range only {
		if strings.HasPrefix(k, "|") { // a replay line of an `algfits` op (no consumer)
			algfitsWanted = true
		}
	}
	if algfitsWanted {
		type shaped struct {
			name  string
			key   interface{}
			shape map[string]interface{}
		}
		var shapes []shaped
		for _, c := range []elliptic.Curve{elliptic.P224(), elliptic.P256(), elliptic.P384(), elliptic.P521()} {
			k, err := ecdsa.GenerateKey(c, crand.Reader)
			if err != nil {
				t.Fatal(err)
			}
			sh := map[string]interface{}{"kind": "ecdsa", "curve": c.Params().Name}
			shapes = append(shapes, shaped{"ecdsa-ptr-" + c.Params().Name, &k.PublicKey, sh}, shaped{"ecdsa-value-" + c.Params().Name, k.PublicKey, sh},
				shaped{"ecdsa-private-" + c.Params().Name, k, sh})
			if c.Params().Name != "P-224" { // jwk has no P-224
				pj, _ := jwk.FromRaw(&k.PublicKey)
				sj, _ := jwk.FromRaw(k)
				shapes = append(shapes, shaped{"jwk-ec-public-" + c.Params().Name, pj, sh}, shaped{"jwk-ec-private-" + c.Params().Name, sj, sh})
			}
		}
		edPub, _, _ := ed25519.GenerateKey(crand.Reader)
		for _, n := range []int{32, 31, 0, 33} {
			var k ed25519.PublicKey
			if n <= 32 {
				k = edPub[:n]
			} else {
				k = append(append(ed25519.PublicKey{}, edPub...), 0)
			}
			sh := map[string]interface{}{"kind": "ed25519", "len": n}
			kk := k
			shapes = append(shapes, shaped{"ed25519-" + strconv.Itoa(n), k, sh}, shaped{"ed25519-ptr-" + strconv.Itoa(n), &kk, sh})
		}
		okp, _ := jwk.FromRaw(edPub)
		shapes = append(shapes, shaped{"jwk-okp-ed25519", okp, map[string]interface{}{"kind": "ed25519", "len": 32}})
		rk, _ := rsa.GenerateKey(crand.Reader, 1024)
		other := map[string]interface{}{"kind": "other"}
		shapes = append(shapes, shaped{"rsa", &rk.PublicKey, other}, shaped{"bytes", []byte("secret"), other}, shaped{"nil", nil, other}, shaped{"string", "key", other})
		for _, sh := range shapes {
			for _, alg := range []string{"ES256", "ES384", "ES512", "ES256K", "EdDSA", "PS256", "PS384", "PS512", "RS256", "RS512", "HS256", "none", ""} {
				res := vRecover(func() string {
					return strconv.FormatBool(nutsJwx.AlgorithmFitsKey(jwa.SignatureAlgorithm(alg), sh.key))
				})
				out.emit(map[string]interface{}{"op": "algfits", "name": sh.name, "alg": alg, "shape": sh.shape}, res)
			}
		}
	}

	// ---------------- clause (e), INSIDE the embedded jwk header: which JWK objects dpop.jwkIsPrivateKey (Raw probes) and the type
	// switch of dag.parseSignatureParams refuse. The op carries what decides the jwx key type (kty, crv, `d` present); the
	// model computes the type, the private test over the REGENERATED probe sequence / rejected interfaces, and the outcome.
	{
		type vJk struct {
			name     string
			raw      json.RawMessage
			kty, crv string
			hasD     bool
			signer   *vKey // signs the token (the holder of the embedded key where that is possible)
		}
		describe := func(name string, raw []byte, signer *vKey) vJk {
			var m map[string]interface{}
			_ = json.Unmarshal(raw, &m)
			kty, _ := m["kty"].(string)
			crv, _ := m["crv"].(string)
			_, hasD := m["d"]
			return vJk{name: name, raw: raw, kty: kty, crv: crv, hasD: hasD, signer: signer}
		}
		fromRaw := func(name string, key interface{}, signer *vKey) vJk {
			j, err := jwk.FromRaw(key)
			if err != nil {
				t.Fatal(err)
			}
			return describe(name, vJSON(j), signer)
		}
		xPub, xPriv, err := x25519.GenerateKey(crand.Reader)
		if err != nil {
			t.Fatal(err)
		}
		var jks []vJk
		for _, k := range signers {
			jks = append(jks, fromRaw(k.name+"-public", k.pub, k), fromRaw(k.name+"-PRIVATE", k.priv, k))
		}
		jks = append(jks, fromRaw("x25519-public", xPub, signers[1]), fromRaw("x25519-PRIVATE", xPriv, signers[1]),
			fromRaw("oct", []byte("0123456789abcdef0123456789abcdef"), signers[0]),
			describe("unknown-kty", []byte(`{"kty":"XYZ","x":"AA"}`), signers[0]))
		// a public key that merely carries other private-looking members (not `d`)
		{
			var m map[string]interface{}
			_ = json.Unmarshal(fromRaw("", signers[0].pub, nil).raw, &m)
			m["dp"], m["k"] = "AQAB", "c2VjcmV0"
			jks = append(jks, describe("alice-public-with-dp-k-members", vJSON(m), signers[0]))
		}
		for _, jk := range jks {
			jk := jk
			jv := func(verd map[string]interface{}) map[string]interface{} {
				verd["jkty"], verd["jcrv"], verd["jhasd"] = jk.kty, jk.crv, jk.hasD
				return verd
			}
			// --- dpop.Parse
			if want("dpopj", jk.name) {
				dclaims := map[string]interface{}{"htm": "POST", "htu": "https://server.example/token", "jti": uuid.NewString(), "iat": now.Unix()}
				sg := &vSig{hdr: map[string]interface{}{"typ": "dpop+jwt", "alg": string(jk.signer.alg), "jwk": jk.raw}, signAlg: jk.signer.alg, signKey: jk.signer.priv}
				tok := vCompact(sg, vJSON(dclaims))
				info, msg := vAnalyse(tok)
				verd := jv(map[string]interface{}{})
				if info.Parses && len(info.Sigs) == 1 && msg.Signatures()[0].ProtectedHeaders().JWK() != nil {
					h := msg.Signatures()[0].ProtectedHeaders()
					tk, err := jwt.ParseString(tok, jwt.WithKey(h.Algorithm(), h.JWK()))
					verd["verified"] = err == nil
					verd["fits"] = VAlgFitsKey(string(h.Algorithm()), h.JWK())
					if err == nil {
						htu, ok1 := tk.Get("htu")
						htm, ok2 := tk.Get("htm")
						verd["claimsok"] = !tk.IssuedAt().IsZero() && ok1 && htu != "" && ok2 && htm != "" && tk.JwtID() != "" && len(tk.JwtID()) <= 256
					}
				}
				res := vRecover(func() string {
					_, err := dpop.Parse(tok)
					test := "passed"
					if !info.Parses {
						test = "noparse"
					} else if err != nil && strings.Contains(err.Error(), "invalid jwk header") {
						test = "refused"
					}
					return test + " " + vOK(err)
				})
				out.emit(vConsumerOp{Op: "consume", C: "dpopj", Name: jk.name, Class: "embedded-jwk-object", HAlg: string(jk.signer.alg), By: "signer", Info: info, V: verd}, res)
			}
			// --- dag.ParseTransaction + verifier (EdDSA is not an allowed transaction algorithm: those tokens are signed by alice)
			if want("dagtxj", jk.name) {
				sk := jk.signer
				if sk.alg == jwa.EdDSA {
					sk = signers[0]
				}
				hdr := map[string]interface{}{"alg": string(sk.alg), "cty": "application/did+json", "crit": []string{"sigt", "ver", "prevs", "lc"}, "sigt": now.Unix(), "ver": 2,
					"prevs": []string{hash.SHA256Sum([]byte("prev")).String()}, "lc": 1, "jwk": jk.raw}
				tok := vCompact(&vSig{hdr: hdr, signAlg: sk.alg, signKey: sk.priv}, []byte(hash.SHA256Sum([]byte("payload")).String()))
				info, msg := vAnalyse(tok)
				verd := jv(map[string]interface{}{"framing": vDagFramingOK([]byte(tok))})
				if info.Parses && len(info.Sigs) == 1 {
					h := msg.Signatures()[0].ProtectedHeaders()
					verd["otherok"] = vDagOtherHeadersOK(h, msg)
					var key interface{}
					if h.JWK() != nil {
						var raw interface{}
						if err := h.JWK().Raw(&raw); err == nil {
							key = raw
						}
					}
					verd["keyfound"] = key != nil
					if key != nil {
						verd["verified"] = vRecover(func() string { _, err := jws.Verify([]byte(tok), jws.WithKey(h.Algorithm(), key)); return vOK(err) }) == "accept"
						verd["fits"] = VAlgFitsKey(string(h.Algorithm()), key)
					}
				}
				res := vRecover(func() string {
					tx, err := dag.ParseTransaction([]byte(tok))
					test := "passed"
					if !info.Parses {
						test = "noparse"
					} else if err != nil && strings.Contains(err.Error(), "must not hold a private or symmetric key") {
						test = "refused"
					}
					if err != nil {
						return test + " reject"
					}
					return test + " " + vOK(dagVerifier(nil, tx))
				})
				out.emit(vConsumerOp{Op: "consume", C: "dagtxj", Name: jk.name, Class: "embedded-jwk-object", HAlg: string(sk.alg), By: "signer", Info: info, V: verd}, res)
			}
		}
	}

	for round := 0; round < rounds; round++ {
		for ki, k := range signers {
			other := signers[(ki+1)%len(signers)]
			attacker := attackers[(ki+round)%len(attackers)]
			tag := fmt.Sprintf("r%d-%s-", round, k.name)

			// ---------------- crypto.ParseJWT and crypto.ParseJWS : a JWT with kid
			claims := map[string]interface{}{"iss": "did:nuts:" + k.name, "sub": "did:nuts:" + k.name, "aud": "verifier", "jti": uuid.NewString(),
				"iat": now.Add(-time.Minute).Unix(), "nbf": now.Add(-time.Minute).Unix(), "exp": now.Add(time.Hour).Unix()}
			base := vBase{hdr: map[string]interface{}{"typ": "JWT", "kid": k.kid}, payload: vJSON(claims), signer: k, other: other, attacker: attacker}
			for _, v := range vHostile(r, base, nFlips) {
				v.Name = tag + v.Name
				info, msg := vAnalyse(v.Tok)
				// --- ParseJWT
				if want("parsejwt", v.Name) {
					verd := map[string]interface{}{}
					if info.Parses && len(info.Sigs) == 1 {
						key, err := keyFunc(info.Sigs[0].Kid)
						verd["keyfound"] = err == nil
						if err == nil {
							verd["fits"] = VAlgFitsKey(info.Sigs[0].Alg, key)
							_, err = jwt.ParseString(v.Tok, jwt.WithKey(jwa.SignatureAlgorithm(info.Sigs[0].Alg), key), jwt.WithVerify(true))
							verd["verified"] = err == nil
						}
					}
					res := vRecover(func() string { _, err := nutsCrypto.ParseJWT(v.Tok, keyFunc); return vOK(err) })
					out.emit(vConsumerOp{Op: "consume", C: "parsejwt", Name: v.Name, Class: v.Class, HAlg: v.HAlg, By: v.By, Info: info, V: verd}, res)
				}
				// --- ParseJWS
				if want("parsejws", v.Name) {
					verd := map[string]interface{}{}
					var found, verified []bool
					if info.Parses && info.SplitOK {
						h, body, _, _ := jws.SplitCompact([]byte(v.Tok))
						input := append(append(append([]byte{}, h...), '.'), body...)
						for i, s := range msg.Signatures() {
							key, err := keyFunc(info.Sigs[i].Kid)
							found = append(found, err == nil)
							ok := false
							if err == nil {
								if ver, err := jws.NewVerifier(jwa.SignatureAlgorithm(info.Sigs[i].Alg)); err == nil {
									ok = vRecover(func() string { return vOK(ver.Verify(input, s.Signature(), key)) }) == "accept"
								}
							}
							verified = append(verified, ok)
						}
					}
					verd["keyfound"], verd["verified"] = found, verified
					// what the library itself says about the (single) signature: jws.Verify over the parsed message
					if info.Parses && len(info.Sigs) == 1 {
						if key, err := keyFunc(info.Sigs[0].Kid); err == nil {
							verd["fits"] = VAlgFitsKey(info.Sigs[0].Alg, key)
							_, err := jws.Verify([]byte(v.Tok), jws.WithKey(jwa.SignatureAlgorithm(info.Sigs[0].Alg), key))
							verd["verifiedlib"] = err == nil
							if !info.SplitOK {
								verd["keyfound"] = []bool{true}
							}
						} else if !info.SplitOK {
							verd["keyfound"] = []bool{false}
						}
					}
					res := vRecover(func() string { _, err := nutsCrypto.ParseJWS([]byte(v.Tok), keyFunc); return vOK(err) })
					out.emit(vConsumerOp{Op: "consume", C: "parsejws", Name: v.Name, Class: v.Class, HAlg: v.HAlg, By: v.By, Info: info, V: verd}, res)
				}
			}

			// ---------------- dpop.Parse : typ dpop+jwt, embedded public jwk (mandated), no kid
			dclaims := map[string]interface{}{"htm": "POST", "htu": "https://server.example/token", "jti": uuid.NewString(), "iat": now.Unix()}
			dbase := vBase{hdr: map[string]interface{}{"typ": "dpop+jwt", "jwk": k.pubJWK()}, payload: vJSON(dclaims), signer: k, other: other, attacker: attacker}
			for _, v := range vHostile(r, dbase, nFlips) {
				v.Name = tag + v.Name
				if !want("dpop", v.Name) {
					continue
				}
				info, msg := vAnalyse(v.Tok)
				verd := map[string]interface{}{}
				if info.Parses && len(info.Sigs) == 1 && msg.Signatures()[0].ProtectedHeaders().JWK() != nil {
					h := msg.Signatures()[0].ProtectedHeaders()
					tok, err := jwt.ParseString(v.Tok, jwt.WithKey(h.Algorithm(), h.JWK()))
					verd["verified"] = err == nil
					verd["fits"] = VAlgFitsKey(string(h.Algorithm()), h.JWK())
					if err == nil {
						htu, ok1 := tok.Get("htu")
						htm, ok2 := tok.Get("htm")
						verd["claimsok"] = !tok.IssuedAt().IsZero() && ok1 && htu != "" && ok2 && htm != "" && tok.JwtID() != "" && len(tok.JwtID()) <= 256
					}
				}
				res := vRecover(func() string { _, err := dpop.Parse(v.Tok); return vOK(err) })
				out.emit(vConsumerOp{Op: "consume", C: "dpop", Name: v.Name, Class: v.Class, HAlg: v.HAlg, By: v.By, Info: info, V: verd}, res)
			}

			// ---------------- DAG transaction : ParseTransaction + signature verifier; kid form and jwk form
			if _, isEd := k.priv.(ed25519.PrivateKey); !isEd { // EdDSA is not an allowed transaction algorithm
				for _, form := range []string{"kid", "jwk"} {
					hdr := map[string]interface{}{"cty": "application/did+json", "crit": []string{"sigt", "ver", "prevs", "lc"}, "sigt": now.Unix(), "ver": 2,
						"prevs": []string{hash.SHA256Sum([]byte("prev")).String()}, "lc": 1}
					if form == "kid" {
						hdr["kid"] = k.kid
					} else {
						j := k.pubJWK()
						_ = j.Set(jwk.KeyIDKey, k.kid)
						hdr["jwk"] = j
					}
					tbase := vBase{hdr: hdr, payload: []byte(hash.SHA256Sum([]byte("payload")).String()), signer: k, other: other, attacker: attacker}
					for _, v := range vHostile(r, tbase, nFlips) {
						v.Name = tag + form + "-" + v.Name
						if !want("dagtx", v.Name) {
							continue
						}
						info, msg := vAnalyse(v.Tok)
						verd := map[string]interface{}{"framing": vDagFramingOK([]byte(v.Tok))}
						if info.Parses && len(info.Sigs) == 1 {
							h := msg.Signatures()[0].ProtectedHeaders()
							verd["otherok"] = vDagOtherHeadersOK(h, msg)
							var key interface{}
							if h.JWK() != nil {
								var raw interface{}
								if err := h.JWK().Raw(&raw); err == nil {
									key = raw
								}
							} else if pk, err := keyFunc(h.KeyID()); err == nil {
								key = pk
							}
							verd["keyfound"] = key != nil
							if key != nil {
								_, err := jws.Verify([]byte(v.Tok), jws.WithKey(h.Algorithm(), key))
								verd["verified"] = err == nil
								verd["fits"] = VAlgFitsKey(string(h.Algorithm()), key)
							}
						}
						res := vRecover(func() string {
							tx, err := dag.ParseTransaction([]byte(v.Tok))
							if err != nil {
								return "reject"
							}
							return vOK(dagVerifier(nil, tx))
						})
						out.emit(vConsumerOp{Op: "consume", C: "dagtx", Name: v.Name, Class: v.Class, HAlg: v.HAlg, By: v.By, Info: info, V: verd}, res)
					}
				}
			}

			// ---------------- internal-API bearer token
			ak := apiKeys[ki]
			abase := vBase{hdr: map[string]interface{}{"typ": "JWT", "kid": ak.kid}, payload: vJSON(vAPIClaims(ak.name, "verif-aud", now)), signer: ak,
				other: apiKeys[(ki+1)%len(apiKeys)], attacker: apiAttackers[(ki+round)%len(apiAttackers)]}
			for _, v := range vHostile(r, abase, nFlips) {
				v.Name = tag + v.Name
				if !want("apitoken", v.Name) {
					continue
				}
				hdr := "Bearer " + v.Tok
				f := strings.Fields(hdr)
				cred := ""
				if len(f) == 2 {
					cred = f[1]
				}
				a := mw.analyse(cred)
				info, _ := vAnalyse(cred)
				verd := map[string]interface{}{"nfields": len(f), "credlen": len(cred), "verifies": a.Verifies, "claims": a.Claims,
					"keys": []string{apiKeys[0].name, apiKeys[1].name, apiKeys[2].name, apiKeys[3].name, apiKeys[4].name}, "aud": "verif-aud", "now": now.Unix()}
				res := strings.SplitN(mw.run("Bearer "+v.Tok), " ", 2)[0]
				if res == "granted" {
					res = "accept"
				} else if res == "denied" {
					res = "reject"
				}
				out.emit(vConsumerOp{Op: "consume", C: "apitoken", Name: v.Name, Class: v.Class, HAlg: v.HAlg, By: v.By, Info: info, V: verd}, res)
			}
		}
	}
	// ---------------- key HISTORIES on the long-lived verifier: the same kid, listed in the signer's document as of some
	// transactions and removed as of later ones. The verification key is what the resolver says for (kid, prevs) NOW.
	{
		pListed, pRemoved := hash.SHA256Sum([]byte("prev")), hash.SHA256Sum([]byte("prev-after-key-removal"))
		for _, k := range signers {
			if _, isEd := k.priv.(ed25519.PrivateKey); isEd {
				continue
			}
			vDelisted[k.kid] = map[hash.SHA256Hash]bool{pRemoved: true}
			steps := []struct {
				name  string
				prevs []hash.SHA256Hash
			}{{"1-listed", []hash.SHA256Hash{pListed}}, {"2-removed", []hash.SHA256Hash{pRemoved}}, {"3-listed-again", []hash.SHA256Hash{pListed}},
				{"4-removed-two-prevs", []hash.SHA256Hash{pListed, pRemoved}}}
			for _, st := range steps {
				name := "history-" + k.name + "-" + st.name
				if len(only) > 0 {
					hist := false
					for o := range only {
						hist = hist || strings.HasPrefix(o, "dagtx|history-"+k.name)
					}
					if !hist {
						continue
					}
				}
				var ps []string
				for _, p := range st.prevs {
					ps = append(ps, p.String())
				}
				hdr := map[string]interface{}{"cty": "application/did+json", "crit": []string{"sigt", "ver", "prevs", "lc"}, "sigt": now.Unix(), "ver": 2,
					"prevs": ps, "lc": 1, "kid": k.kid}
				b := vBase{hdr: hdr, payload: []byte(hash.SHA256Sum([]byte("payload")).String()), signer: k, other: k, attacker: attackers[0]}
				tok := vCompact(b.sigFor(k), b.payload)
				info, msg := vAnalyse(tok)
				verd := map[string]interface{}{"framing": vDagFramingOK([]byte(tok))}
				h := msg.Signatures()[0].ProtectedHeaders()
				verd["otherok"] = vDagOtherHeadersOK(h, msg)
				pk, err := source.ResolvePublicKey(k.kid, st.prevs) // what the key source says NOW for (kid, prevs)
				verd["keyfound"] = err == nil
				if err == nil {
					_, verr := jws.Verify([]byte(tok), jws.WithKey(h.Algorithm(), pk))
					verd["verified"], verd["fits"] = verr == nil, VAlgFitsKey(string(h.Algorithm()), pk)
				}
				class := "valid"
				if err != nil {
					class = "key-removed-as-of-prevs"
				}
				res := vRecover(func() string {
					tx, err := dag.ParseTransaction([]byte(tok))
					if err != nil {
						return "reject"
					}
					return vOK(dagVerifier(nil, tx))
				})
				out.emit(vConsumerOp{Op: "consume", C: "dagtx", Name: name, Class: class, HAlg: string(k.alg), By: "signer", Info: info, V: verd}, res)
			}
		}
	}
	if out.n == 0 {
		t.Fatal("nothing generated")
	}
}

// dag.isJWSSerialization re-stated (unexported there; its body is pinned as a regenerated fact): a JSON object, or exactly
// three canonical unpadded base64url segments
func vDagFramingOK(input []byte) bool {
	if trimmed := bytes.TrimLeftFunc(input, unicode.IsSpace); len(trimmed) > 0 && trimmed[0] == '{' {
		return true
	}
	segments := bytes.Split(input, []byte{'.'})
	if len(segments) != 3 {
		return false
	}
	for _, segment := range segments {
		decoded, err := b64.RawURLEncoding.DecodeString(string(segment))
		if err != nil || b64.RawURLEncoding.EncodeToString(decoded) != string(segment) {
			return false
		}
	}
	return true
}

// the parse steps of dag.ParseTransaction that have nothing to do with the signature discipline (payload hash, cty, sigt,
// ver, prevs, pal, lc), re-stated on the parsed headers so that the model can take their conjunction as one verdict
func vDagOtherHeadersOK(h jws.Headers, msg *jws.Message) bool {
	if _, err := hash.ParseHex(string(msg.Payload())); err != nil {
		return false
	}
	if !strings.Contains(h.ContentType(), "/") {
		return false
	}
	num := func(k string) (float64, bool) {
		v, ok := h.Get(k)
		if !ok {
			return 0, false
		}
		f, ok := v.(float64)
		return f, ok
	}
	if _, ok := num("sigt"); !ok {
		return false
	}
	if v, ok := num("ver"); !ok || (dag.Version(v) != 1 && dag.Version(v) != 2) {
		return false
	}
	pv, ok := h.Get("prevs")
	if !ok {
		return false
	}
	ps, ok := pv.([]interface{})
	if !ok {
		return false
	}
	for _, p := range ps {
		s, ok := p.(string)
		if !ok {
			return false
		}
		if _, err := hash.ParseHex(s); err != nil {
			return false
		}
	}
	if raw, ok := h.Get("pal"); ok {
		l, ok := raw.([]interface{})
		if !ok {
			return false
		}
		for _, c := range l {
			if _, err := b64.StdEncoding.DecodeString(fmt.Sprintf("%s", c)); err != nil {
				return false
			}
		}
	}
	if _, ok := num("lc"); !ok {
		return false
	}
	return true
}
