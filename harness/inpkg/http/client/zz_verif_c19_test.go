//go:build verif

// C19 harness for http/client: every HTTP client the node constructs for outbound fetches on untrusted URLs (did:web, status lists, OpenID
// metadata, …) must give up on a server that stalls — after the headers, in the middle of the body, or dripping bytes for ever.
// Each constructor (and its WithRedirectCheck copy, which did:web uses) is pointed at stalling servers with a 300 ms timeout; the call
// including reading the body must end well within the 3 s watchdog ("timeout" outcome = the node would hang for ever).
package client

import (
	"crypto/tls"
	"encoding/json"
	"fmt"
	"io"
	"net/http"
	"net/http/httptest"
	"os"
	"testing"
	"time"
)

func TestVerifC19(t *testing.T) {
	dir := os.Getenv("VERIF_OUT")
	if dir == "" {
		t.Skip("VERIF_OUT not set")
	}
	o := c19Open(dir)
	defer o.close(dir)

	release := make(chan struct{})
	stall := func(w http.ResponseWriter, r *http.Request) {
		select {
		case <-release:
		case <-r.Context().Done():
		}
	}
	mux := http.NewServeMux()
	mux.HandleFunc("/never-answers", stall)
	mux.HandleFunc("/headers-then-stall", func(w http.ResponseWriter, r *http.Request) {
		w.Header().Set("Content-Type", "application/json")
		w.WriteHeader(200)
		w.(http.Flusher).Flush()
		stall(w, r)
	})
	mux.HandleFunc("/partial-body-then-stall", func(w http.ResponseWriter, r *http.Request) {
		w.Header().Set("Content-Type", "application/json")
		w.Header().Set("Content-Length", "1000")
		w.WriteHeader(200)
		w.Write([]byte(`{"id":"did:web:`))
		w.(http.Flusher).Flush()
		stall(w, r)
	})
	mux.HandleFunc("/slow-drip", func(w http.ResponseWriter, r *http.Request) {
		w.Header().Set("Content-Type", "application/json")
		w.WriteHeader(200)
		for {
			select {
			case <-release:
				return
			case <-r.Context().Done():
				return
			case <-time.After(50 * time.Millisecond):
				w.Write([]byte(" "))
				w.(http.Flusher).Flush()
			}
		}
	})
	mux.HandleFunc("/redirect-to-stall", func(w http.ResponseWriter, r *http.Request) { http.Redirect(w, r, "/headers-then-stall", http.StatusFound) })
	mux.HandleFunc("/ok", func(w http.ResponseWriter, r *http.Request) { w.Write([]byte(`{}`)) })
	server := httptest.NewServer(mux)
	defer func() {
		close(release)
		server.CloseClientConnections()
		server.Close()
	}()

	const timeout = 300 * time.Millisecond
	allow := func(req *http.Request, via []*http.Request) error { return nil }
	clients := map[string]func() *StrictHTTPClient{
		"New":                                func() *StrictHTTPClient { return New(timeout) },
		"NewWithCache":                       func() *StrictHTTPClient { return NewWithCache(timeout) },
		"NewWithTLSConfig":                   func() *StrictHTTPClient { return NewWithTLSConfig(timeout, &tls.Config{}) },
		"New.WithRedirectCheck":              func() *StrictHTTPClient { return New(timeout).WithRedirectCheck(allow) },
		"NewWithCache.WithRedirectCheck":     func() *StrictHTTPClient { return NewWithCache(timeout).WithRedirectCheck(allow) },
		"NewWithTLSConfig.WithRedirectCheck": func() *StrictHTTPClient { return NewWithTLSConfig(timeout, &tls.Config{}).WithRedirectCheck(allow) },
	}
	fetch := func(in string) string {
		var w struct{ Client, Path string }
		if json.Unmarshal([]byte(in), &w) != nil {
			return "err:harness"
		}
		mk, ok := clients[w.Client]
		if !ok {
			return "err:harness"
		}
		req, _ := http.NewRequest(http.MethodGet, server.URL+w.Path, nil)
		resp, err := mk().Do(req)
		if err != nil {
			return "err"
		}
		defer resp.Body.Close()
		if _, err := io.ReadAll(resp.Body); err != nil {
			return "err:body"
		}
		return "ok"
	}
	replay, isReplay := c19ReadOps()
	for _, op := range replay {
		if op["op"] == "x.httpclient.fetch" {
			in, _ := op["input"].(string)
			o.explore("httpclient.fetch", in, func() string { return fetch(in) })
		}
	}
	if isReplay {
		return
	}
	for name := range clients {
		for _, path := range []string{"/ok", "/never-answers", "/headers-then-stall", "/partial-body-then-stall", "/slow-drip", "/redirect-to-stall"} {
			b, _ := json.Marshal(map[string]string{"Client": name, "Path": path})
			in := string(b)
			o.dist[fmt.Sprintf("httpclient:%s", path)]++
			res := o.explore("httpclient.fetch", in, func() string { return fetch(in) })
			if path == "/ok" && res != "ok" {
				t.Fatalf("%s cannot fetch from the test server: %s", name, res)
			}
		}
	}
}
