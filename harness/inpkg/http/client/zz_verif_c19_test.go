//go:build verif

// C19 harness for http/client: every HTTP client the node constructs for outbound fetches on untrusted URLs (did:web, status lists, OpenID
// metadata, …) must give up on a server that stalls — after the headers, in the middle of the body, or dripping bytes for ever.
// Each constructor (and its WithRedirectCheck copy, which did:web uses) is pointed at stalling servers with a 300 ms timeout; the call
// including reading the body must end well within the 3 s watchdog ("timeout" outcome = the node would hang for ever).
package client

import (
	"bytes"
	"crypto/tls"
	"encoding/json"
	"fmt"
	"io"
	mrand "math/rand"
	"net/http"
	"net/http/httptest"
	"os"
	"strings"
	"testing"
	"time"
)

// ---- HTTP response cache (model NutsModel/C19/HttpCache.lean): the REAL CachingRoundTripper over a stub transport

type c19CacheReq struct {
	URL       string `json:"url"`
	Size      int    `json:"size"`
	Age       int    `json:"age"`       // max-age in seconds (multiples of 60: the order of the expiry list does not depend on how long the run takes)
	Cacheable bool   `json:"cacheable"` // false: Cache-Control: no-store
	Expired   bool   `json:"expired"`   // Expires one hour before Date: in the cache, but expired on arrival
}

type c19Origin struct {
	next  c19CacheReq
	calls int
}

func (t *c19Origin) RoundTrip(req *http.Request) (*http.Response, error) {
	t.calls++
	h := http.Header{}
	switch {
	case !t.next.Cacheable:
		h.Set("Cache-Control", "no-store")
	case t.next.Expired:
		d := time.Now().UTC()
		h.Set("Date", d.Format(http.TimeFormat))
		h.Set("Expires", d.Add(-time.Hour).Format(http.TimeFormat))
	default:
		h.Set("Cache-Control", fmt.Sprintf("max-age=%d", t.next.Age))
	}
	return &http.Response{StatusCode: 200, Header: h, Body: io.NopCloser(bytes.NewReader(make([]byte, t.next.Size))), Request: req}, nil
}

// c19CacheSeq runs one sequence of GET round trips on a fresh cache; one output line (the whole sequence is one guarded call:
// a hang in the cache keeps its mutex for ever)
func c19CacheSeq(o *c19Out, max int, reqs []c19CacheReq) {
	if c19Hung >= 3 {
		return // a hung call spins for ever on a CPU: three witnesses are enough, the rest of the leg is skipped
	}
	op := map[string]any{"op": "httpcache.seq", "max": max, "reqs": reqs}
	c19Mark(op)
	res := c19Guard(func() string {
		origin := &c19Origin{}
		rt := NewCachingTransport(origin, max)
		var parts []string
		for _, rq := range reqs {
			origin.next = rq
			before := origin.calls
			req, _ := http.NewRequest(http.MethodGet, "http://origin.example"+rq.URL, nil)
			resp, err := rt.RoundTrip(req)
			if err != nil {
				parts = append(parts, "err")
				continue
			}
			body, _ := io.ReadAll(resp.Body)
			hit := "miss"
			if origin.calls == before {
				hit = "hit"
			}
			var list []string
			sum, nList := 0, 0
			for e := rt.cache.head; e != nil && nList < 1000; e = e.next {
				list = append(list, fmt.Sprintf("%s:%d", e.requestURL.Path, len(e.responseData)))
				sum += len(e.responseData)
				nList++
			}
			idx := 0
			for _, l := range rt.cache.entriesByURL {
				idx += len(l)
			}
			line := fmt.Sprintf("%s cur=%d list=[%s] idx=%d", hit, rt.cache.currentSizeBytes, strings.Join(list, ","), idx)
			// direct oracles on the implementation's own state (httpcache_size_invariant; no orphans)
			if rt.cache.currentSizeBytes != sum || rt.cache.currentSizeBytes > max || idx != nList {
				line += fmt.Sprintf(" INVARIANT-BROKEN(sum=%d max=%d list=%d)", sum, max, nList)
			}
			if hit == "miss" && len(body) != rq.Size {
				line += " INVARIANT-BROKEN(body)"
			}
			parts = append(parts, line)
		}
		return strings.Join(parts, " | ")
	})
	o.emit(op, c19Class(res))
}

func c19CacheLeg(o *c19Out, replay []map[string]any, isReplay bool) {
	for _, op := range replay {
		if op["op"] == "httpcache.seq" {
			b, _ := json.Marshal(op)
			var w struct {
				Max  int           `json:"max"`
				Reqs []c19CacheReq `json:"reqs"`
			}
			if json.Unmarshal(b, &w) == nil {
				c19CacheSeq(o, w.Max, w.Reqs)
			}
		}
	}
	if isReplay {
		return
	}
	r := mrand.New(mrand.NewSource(c19Seed()*104729 + 7))
	const max = 100
	sizes := []int{0, 1, 30, 49, 50, 51, 99, 100, 101, 200}
	urls := []string{"/a", "/b", "/c", "/d", "/e"}
	one := func(kind string, reqs ...c19CacheReq) {
		o.dist["httpcache.seq:"+kind]++
		c19CacheSeq(o, max, reqs)
	}
	// a single response of every size around maxBytes on the empty cache, then the same after one / two small entries
	for _, sz := range []int{0, 1, 99, 100, 101} {
		one("single", c19CacheReq{URL: "/a", Size: sz, Age: 120, Cacheable: true})
		one("after-small", c19CacheReq{URL: "/a", Size: 1, Age: 60, Cacheable: true}, c19CacheReq{URL: "/b", Size: sz, Age: 120, Cacheable: true})
		one("after-small-later", c19CacheReq{URL: "/a", Size: 1, Age: 180, Cacheable: true}, c19CacheReq{URL: "/b", Size: sz, Age: 120, Cacheable: true})
		one("fills-exactly", c19CacheReq{URL: "/a", Size: 100 - sz%100, Age: 60, Cacheable: true}, c19CacheReq{URL: "/b", Size: sz % 100, Age: 120, Cacheable: true}, c19CacheReq{URL: "/c", Size: 1, Age: 180, Cacheable: true})
		one("expired-then", c19CacheReq{URL: "/a", Size: 10, Cacheable: true, Expired: true}, c19CacheReq{URL: "/b", Size: sz, Age: 120, Cacheable: true}, c19CacheReq{URL: "/a", Size: 10, Age: 60, Cacheable: true})
	}
	// many small entries with non-monotone expiry (the insert scan that does not advance), then one that needs all the room
	var many []c19CacheReq
	for i, age := range []int{300, 60, 240, 120, 180, 60, 300, 120} {
		many = append(many, c19CacheReq{URL: fmt.Sprintf("/s%d", i), Size: 12, Age: age, Cacheable: true})
	}
	for _, sz := range []int{3, 4, 5, 50, 99, 100} {
		one("many-small-then", append(append([]c19CacheReq{}, many...), c19CacheReq{URL: "/big", Size: sz, Age: 150, Cacheable: true}, c19CacheReq{URL: "/s1", Size: 12, Age: 60, Cacheable: true})...)
	}
	n := c19Env("VERIF_N", 500)
	for i := 0; i < n; i++ {
		var reqs []c19CacheReq
		for k := r.Intn(9) + 1; k > 0; k-- {
			rq := c19CacheReq{URL: urls[r.Intn(len(urls))], Size: sizes[r.Intn(len(sizes))], Age: 60 * (1 + r.Intn(6)), Cacheable: r.Intn(8) != 0, Expired: r.Intn(8) == 0}
			if r.Intn(3) == 0 {
				rq.Size = r.Intn(60)
			}
			reqs = append(reqs, rq)
		}
		one("rand", reqs...)
	}
}

func TestVerifC19(t *testing.T) {
	dir := os.Getenv("VERIF_OUT")
	if dir == "" {
		t.Skip("VERIF_OUT not set")
	}
	o := c19Open(dir)
	defer o.close(dir)

	release := make(chan struct{})
	stall := func(w http.ResponseWriter, r *http.Request) {
		select {
		case <-release:
		case <-r.Context().Done():
		}
	}
	mux := http.NewServeMux()
	mux.HandleFunc("/never-answers", stall)
	mux.HandleFunc("/headers-then-stall", func(w http.ResponseWriter, r *http.Request) {
		w.Header().Set("Content-Type", "application/json")
		w.WriteHeader(200)
		w.(http.Flusher).Flush()
		stall(w, r)
	})
	mux.HandleFunc("/partial-body-then-stall", func(w http.ResponseWriter, r *http.Request) {
		w.Header().Set("Content-Type", "application/json")
		w.Header().Set("Content-Length", "1000")
		w.WriteHeader(200)
		w.Write([]byte(`{"id":"did:web:`))
		w.(http.Flusher).Flush()
		stall(w, r)
	})
	mux.HandleFunc("/slow-drip", func(w http.ResponseWriter, r *http.Request) {
		w.Header().Set("Content-Type", "application/json")
		w.WriteHeader(200)
		for {
			select {
			case <-release:
				return
			case <-r.Context().Done():
				return
			case <-time.After(50 * time.Millisecond):
				w.Write([]byte(" "))
				w.(http.Flusher).Flush()
			}
		}
	})
	mux.HandleFunc("/redirect-to-stall", func(w http.ResponseWriter, r *http.Request) { http.Redirect(w, r, "/headers-then-stall", http.StatusFound) })
	mux.HandleFunc("/ok", func(w http.ResponseWriter, r *http.Request) { w.Write([]byte(`{}`)) })
	server := httptest.NewServer(mux)
	defer func() {
		close(release)
		server.CloseClientConnections()
		server.Close()
	}()

	const timeout = 300 * time.Millisecond
	allow := func(req *http.Request, via []*http.Request) error { return nil }
	clients := map[string]func() *StrictHTTPClient{
		"New":                                func() *StrictHTTPClient { return New(timeout) },
		"NewWithCache":                       func() *StrictHTTPClient { return NewWithCache(timeout) },
		"NewWithTLSConfig":                   func() *StrictHTTPClient { return NewWithTLSConfig(timeout, &tls.Config{}) },
		"New.WithRedirectCheck":              func() *StrictHTTPClient { return New(timeout).WithRedirectCheck(allow) },
		"NewWithCache.WithRedirectCheck":     func() *StrictHTTPClient { return NewWithCache(timeout).WithRedirectCheck(allow) },
		"NewWithTLSConfig.WithRedirectCheck": func() *StrictHTTPClient { return NewWithTLSConfig(timeout, &tls.Config{}).WithRedirectCheck(allow) },
	}
	fetch := func(in string) string {
		var w struct{ Client, Path string }
		if json.Unmarshal([]byte(in), &w) != nil {
			return "err:harness"
		}
		mk, ok := clients[w.Client]
		if !ok {
			return "err:harness"
		}
		req, _ := http.NewRequest(http.MethodGet, server.URL+w.Path, nil)
		resp, err := mk().Do(req)
		if err != nil {
			return "err"
		}
		defer resp.Body.Close()
		if _, err := io.ReadAll(resp.Body); err != nil {
			return "err:body"
		}
		return "ok"
	}
	replay, isReplay := c19ReadOps()
	c19CacheLeg(o, replay, isReplay)
	for _, op := range replay {
		if op["op"] == "x.httpclient.fetch" {
			in, _ := op["input"].(string)
			o.explore("httpclient.fetch", in, func() string { return fetch(in) })
		}
	}
	if isReplay {
		return
	}
	for name := range clients {
		for _, path := range []string{"/ok", "/never-answers", "/headers-then-stall", "/partial-body-then-stall", "/slow-drip", "/redirect-to-stall"} {
			b, _ := json.Marshal(map[string]string{"Client": name, "Path": path})
			in := string(b)
			o.dist[fmt.Sprintf("httpclient:%s", path)]++
			res := o.explore("httpclient.fetch", in, func() string { return fetch(in) })
			if path == "/ok" && res != "ok" {
				t.Fatalf("%s cannot fetch from the test server: %s", name, res)
			}
		}
	}
}
