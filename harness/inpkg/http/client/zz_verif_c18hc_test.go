//go:build verif

// C18 (deepening round) correspondence harness for the stateful HTTP response cache (http/client/caching.go) that
// did:web resolution shares with the rest of the node: the REAL responseCache.get / insert / pop /
// removeExpiredEntries and CachingRoundTripper.RoundTrip (as repaired by /repo commit b991549) are driven with generated operation sequences on look-alike
// URLs; after every step the whole internal state (currentSizeBytes, linked list, entriesByURL) is dumped.
// One op line = one cache instance.  Time: one unit = 1/1000 minute relative to the start of the case; direct
// inserts carry explicit expiry offsets (whole minutes, past or future), RoundTrip answers carry max-age.
package client

import (
	"bufio"
	"bytes"
	"encoding/json"
	"fmt"
	"io"
	"math"
	"math/rand"
	"net/http"
	"net/url"
	"os"
	"path/filepath"
	"sort"
	"strconv"
	"strings"
	"testing"
	"time"
)

type hcURL struct {
	Scheme string `json:"scheme"`
	User   string `json:"user"`
	Host   string `json:"host"`
	Path   string `json:"path"`
	Query  string `json:"query"`
	Frag   string `json:"frag"`
}

func (u hcURL) text() string {
	s := u.Scheme + "://"
	if u.User != "" {
		s += u.User + "@"
	}
	s += u.Host + u.Path
	if u.Query != "" {
		s += "?" + u.Query
	}
	if u.Frag != "" {
		s += "#" + u.Frag
	}
	return s
}

type hcAns struct {
	Fail bool   `json:"fail,omitempty"`
	Sz   int    `json:"sz"`
	Ca   *int64 `json:"ca,omitempty"` // expiry the cache-control library is expected to compute (units), absent = not cacheable
	CC   string `json:"cc"`
}

type hcStep struct {
	K   string `json:"k"` // ins | lnk | get | pop | rt
	U   hcURL  `json:"u"`
	Us  string `json:"us,omitempty"` // URL.String() of the parsed URL (library), for the oracle
	M   string `json:"m,omitempty"`
	Sz  int    `json:"sz,omitempty"`
	Exp int64  `json:"exp,omitempty"`
	Now int64  `json:"now,omitempty"`
	Ans *hcAns `json:"ans,omitempty"`
}

type hcOp struct {
	Op    string   `json:"op"`
	Tag   string   `json:"tag"`
	Max   int      `json:"max"`
	Steps []hcStep `json:"steps"`
}

// ---------- generator

var hcBase = hcURL{Scheme: "https", Host: "h.example", Path: "/p/did.json"}

func hcVariants() []hcURL {
	v := func(f func(*hcURL)) hcURL { u := hcBase; f(&u); return u }
	return []hcURL{
		hcBase, hcBase,
		v(func(u *hcURL) { u.Scheme = "http" }),
		v(func(u *hcURL) { u.Host = "h.example:8443" }),
		v(func(u *hcURL) { u.User = "u" }),
		v(func(u *hcURL) { u.Query = "a=1" }),
		v(func(u *hcURL) { u.Query = "a=2" }),
		v(func(u *hcURL) { u.Frag = "f" }),
		v(func(u *hcURL) { u.Host = "H.example" }),
		v(func(u *hcURL) { u.Path = "/p/did.json/" }),
		v(func(u *hcURL) { u.Path = "/p/DID.json" }),
		v(func(u *hcURL) { u.Host = "other.example" }),
		v(func(u *hcURL) { u.Path = "/.well-known/did.json" }),
	}
}

func hcGenCase(r *rand.Rand) hcOp {
	vars := hcVariants()
	op := hcOp{Op: "hc", Max: []int{20, 24, 40, 64, 100, 1000}[r.Intn(6)]}
	pool := vars
	if r.Intn(3) == 0 { // few URLs: many entries per key
		pool = vars[:2+r.Intn(3)]
	}
	n := 2 + r.Intn(9)
	mixed := r.Intn(4) == 0
	kinds := map[string]int{}
	for i := 0; i < n; i++ {
		st := hcStep{U: pool[r.Intn(len(pool))], M: "GET", Now: int64(i + 1)}
		if r.Intn(8) == 0 {
			st.M = []string{"POST", "HEAD"}[r.Intn(2)]
		}
		sz := 6 + r.Intn(14)
		switch r.Intn(16) {
		case 0: // exactly the capacity / just below / above
			sz = op.Max - r.Intn(3) + 1
			if sz < 6 {
				sz = 6
			}
		case 1:
			sz = 6 + r.Intn(40)
		}
		k := r.Intn(10)
		switch {
		case k < 3:
			st.K = "ins"
			st.Sz = sz
			st.Exp = int64([]int{-300, -90, -30, -10, 30, 90, 150, 300}[r.Intn(8)]) * 1000
		case k < 6:
			st.K = "get"
		case k < 9:
			st.K = "rt"
			cc := []string{"max-age=1200", "max-age=1800", "max-age=2400", "max-age=3000", "max-age=7200", "max-age=86400", "no-store", "", "private, max-age=1800"}[r.Intn(9)]
			a := &hcAns{Sz: sz, CC: cc}
			if strings.HasPrefix(cc, "max-age=") {
				sec, _ := strconv.Atoi(cc[8:])
				ca := st.Now + int64(sec/60)*1000
				a.Ca = &ca
			}
			if r.Intn(12) == 0 {
				a = &hcAns{Fail: true}
			}
			st.Ans = a
		default:
			if mixed && r.Intn(2) == 0 {
				st.K = "lnk" // a list state as the design intends it (several linked entries, ordered): built by hand
				st.Sz = sz
				st.Exp = int64([]int{-300, -90, -30, 30, 90, 150}[r.Intn(6)]) * 1000
			} else {
				st.K = "pop"
			}
		}
		kinds[st.K]++
		op.Steps = append(op.Steps, st)
	}
	op.Tag = "hc"
	if kinds["lnk"] > 0 {
		op.Tag = "hc-linked"
	}
	return op
}

func hcGenerate(seed int64, thorough bool) []hcOp {
	r := rand.New(rand.NewSource(seed*7919 + 18))
	n := 1500
	if thorough {
		n = 40000
	}
	u := hcBase
	past, fut := int64(-30000), int64(90000)
	fixed := []hcOp{
		// (pre-b991549: an entry displaced by a later insert stayed in entriesByURL after its expiry; a body of exactly the
		// cache size made insert spin for ever)
		{Op: "hc", Tag: "hc-fixed", Max: 100, Steps: []hcStep{{K: "ins", U: u, M: "GET", Sz: 8, Exp: past}, {K: "ins", U: hcVariants()[5], M: "GET", Sz: 8, Exp: fut}, {K: "get", U: u, M: "GET", Now: 3}}},
		// a body of exactly the cache size
		{Op: "hc", Tag: "hc-fixed", Max: 24, Steps: []hcStep{{K: "ins", U: u, M: "GET", Sz: 24, Exp: fut}}},
		{Op: "hc", Tag: "hc-fixed", Max: 24, Steps: []hcStep{{K: "ins", U: u, M: "GET", Sz: 23, Exp: fut}, {K: "get", U: u, M: "GET", Now: 2}, {K: "get", U: u, M: "HEAD", Now: 3}}},
	}
	ops := fixed
	for i := 0; i < n; i++ {
		ops = append(ops, hcGenCase(r))
	}
	return ops
}

func hcNormalize(op *hcOp) {
	for i := range op.Steps {
		st := &op.Steps[i]
		if st.K == "pop" {
			continue
		}
		if u, err := url.Parse(st.U.text()); err == nil {
			st.Us = u.String()
		}
	}
}

// ---------- executor

type hcStub struct {
	ans *hcAns
	nid *int
	hit bool
}

func (s *hcStub) RoundTrip(req *http.Request) (*http.Response, error) {
	s.hit = true
	if s.ans == nil || s.ans.Fail {
		return nil, fmt.Errorf("transport failure")
	}
	body := "n"
	if req.Method == http.MethodGet && s.ans.Ca != nil {
		body = fmt.Sprintf("e%d.", *s.nid)
		*s.nid++
	}
	for len(body) < s.ans.Sz {
		body += "x"
	}
	h := http.Header{}
	if s.ans.CC != "" {
		h.Set("Cache-Control", s.ans.CC)
	}
	h.Set("Date", time.Now().UTC().Format(http.TimeFormat))
	return &http.Response{StatusCode: 200, Header: h, Body: io.NopCloser(strings.NewReader(body)), Request: req}, nil
}

func hcID(data []byte) int {
	if len(data) < 2 || data[0] != 'e' {
		return -1
	}
	i := bytes.IndexByte(data, '.')
	if i < 0 {
		return -1
	}
	n, err := strconv.Atoi(string(data[1:i]))
	if err != nil {
		return -1
	}
	return n
}

func hcDump(c *responseCache, base time.Time) string {
	var lst []string
	seen := 0
	for e := c.head; e != nil && seen < 64; e = e.next {
		min := e.expirationTime.Sub(base).Minutes()
		lst = append(lst, fmt.Sprintf("%d@%d", hcID(e.responseData), int(math.Floor((min+5)/10))*10))
		seen++
	}
	type ip struct{ id, pos int }
	var all []ip
	for _, sl := range c.entriesByURL {
		for i, e := range sl {
			all = append(all, ip{hcID(e.responseData), i})
		}
	}
	sort.Slice(all, func(i, j int) bool { return all[i].id < all[j].id })
	m := make([]string, len(all))
	for i, a := range all {
		m[i] = fmt.Sprintf("%d:%d", a.id, a.pos)
	}
	return fmt.Sprintf("%d/%s/%s", c.currentSizeBytes, strings.Join(lst, "."), strings.Join(m, "."))
}

// hcReturns runs fn and reports whether it returned.  The calls take microseconds; the generous limit only ends a call
// that spins for ever (the pre-b991549 make-room loop did).  After the first such call no further case is executed (the
// spinning goroutine cannot be stopped and holds a CPU until the process ends).
var hcHung bool

func hcReturns(fn func()) bool {
	done := make(chan struct{})
	go func() {
		defer func() { recover(); close(done) }()
		fn()
	}()
	select {
	case <-done:
		return true
	case <-time.After(60 * time.Second):
		hcHung = true
		return false
	}
}

func hcEntry(st hcStep, id int, base time.Time) *cacheEntry {
	u, _ := url.Parse(st.U.text())
	body := fmt.Sprintf("e%d.", id)
	for len(body) < st.Sz {
		body += "x"
	}
	return &cacheEntry{responseData: []byte(body), requestURL: u, requestMethod: st.M, requestRawQuery: u.RawQuery,
		expirationTime: base.Add(time.Duration(st.Exp) * time.Minute / 1000), responseStatus: 200, responseHeaders: http.Header{}}
}

func hcExec(op hcOp) (line string) {
	var outs []string
	if hcHung {
		return "hc skipped-after-hang"
	}
	defer func() {
		if r := recover(); r != nil {
			line = "hc " + strings.Join(append(outs, fmt.Sprintf("panic:%v", r)), ";")
		}
	}()
	nid := 0
	stub := &hcStub{nid: &nid}
	tr := NewCachingTransport(stub, op.Max)
	c := tr.cache
	base := time.Now()
	for _, st := range op.Steps {
		var req *http.Request
		if st.K != "pop" {
			var err error
			req, err = http.NewRequest(st.M, st.U.text(), nil)
			if err != nil {
				outs = append(outs, "bad-url")
				break
			}
		}
		switch st.K {
		case "ins":
			if len(fmt.Sprintf("e%d.", nid)) > st.Sz {
				outs = append(outs, "bad-size")
				return "hc " + strings.Join(outs, ";")
			}
			ent := hcEntry(st, nid, base)
			if !hcReturns(func() { c.insert(ent) }) {
				outs = append(outs, "ins:hang")
				return "hc " + strings.Join(outs, ";")
			}
			nid++
			outs = append(outs, "ins:ok "+hcDump(c, base))
		case "lnk":
			e := hcEntry(st, nid, base)
			nid++
			// link into the list keeping it ordered by expiry (behind every entry that does not expire later), register in the map
			if c.head == nil || c.head.expirationTime.After(e.expirationTime) {
				e.next = c.head
				c.head = e
			} else {
				cur := c.head
				for cur.next != nil && !cur.next.expirationTime.After(e.expirationTime) {
					cur = cur.next
				}
				e.next = cur.next
				cur.next = e
			}
			k := e.requestURL.String()
			c.entriesByURL[k] = append(c.entriesByURL[k], e)
			c.currentSizeBytes += len(e.responseData)
			outs = append(outs, "lnk "+hcDump(c, base))
		case "get":
			resp := c.get(req)
			o := "get:miss"
			if resp != nil {
				b, _ := io.ReadAll(resp.Body)
				o = fmt.Sprintf("get:hit%d", hcID(b))
			}
			outs = append(outs, o+" "+hcDump(c, base))
		case "pop":
			c.pop()
			outs = append(outs, "pop "+hcDump(c, base))
		case "rt":
			stub.ans, stub.hit = st.Ans, false
			before := nid
			var resp *http.Response
			var err error
			if !hcReturns(func() { resp, err = tr.RoundTrip(req) }) {
				outs = append(outs, "rt:hang")
				return "hc " + strings.Join(outs, ";")
			}
			if err == nil && resp == nil {
				outs = append(outs, "rt:panic")
				return "hc " + strings.Join(outs, ";")
			}
			var o string
			switch {
			case err != nil:
				o = "rt:err"
			case !stub.hit:
				b, _ := io.ReadAll(resp.Body)
				o = fmt.Sprintf("rt:hit%d", hcID(b))
			default:
				b, _ := io.ReadAll(resp.Body)
				if len(b) != st.Ans.Sz {
					o = fmt.Sprintf("rt:body-length-%d", len(b))
					break
				}
				stored := false
				if nid > before {
					for _, sl := range c.entriesByURL {
						for _, e := range sl {
							if hcID(e.responseData) == before {
								stored = true
							}
						}
					}
				}
				o = fmt.Sprintf("rt:net:%v", stored)
			}
			outs = append(outs, o+" "+hcDump(c, base))
		default:
			outs = append(outs, "bad-step:"+st.K)
		}
	}
	return "hc " + strings.Join(outs, ";")
}

// ---------- entry point

func hcReadOps(path string) []hcOp {
	f, err := os.Open(path)
	if err != nil {
		panic(err)
	}
	defer f.Close()
	var ops []hcOp
	sc := bufio.NewScanner(f)
	sc.Buffer(make([]byte, 1<<20), 1<<26)
	for sc.Scan() {
		t := strings.TrimSpace(sc.Text())
		if t == "" || strings.HasPrefix(t, "#") {
			continue
		}
		var op hcOp
		if err := json.Unmarshal([]byte(t), &op); err != nil {
			panic(fmt.Sprintf("bad op line %q: %v", t, err))
		}
		ops = append(ops, op)
	}
	return ops
}

func TestVerifC18(t *testing.T) {
	out := os.Getenv("VERIF_OUT")
	if out == "" {
		t.Skip("VERIF_OUT not set")
	}
	seed, _ := strconv.ParseInt(os.Getenv("VERIF_SEED"), 10, 64)
	thorough := os.Getenv("VERIF_TIER") == "thorough"
	var ops []hcOp
	if rp := os.Getenv("VERIF_REPLAY"); rp != "" {
		ops = hcReadOps(rp)
	} else {
		if dir := os.Getenv("VERIF_CORPUS"); dir != "" {
			files, _ := filepath.Glob(filepath.Join(dir, "*.jsonl"))
			sort.Strings(files)
			for _, f := range files {
				ops = append(ops, hcReadOps(f)...)
			}
		}
		ops = append(ops, hcGenerate(seed, thorough)...)
	}
	fo, err := os.Create(filepath.Join(out, "ops.jsonl"))
	if err != nil {
		t.Fatal(err)
	}
	fi, err := os.Create(filepath.Join(out, "impl.out"))
	if err != nil {
		t.Fatal(err)
	}
	wo, wi := bufio.NewWriter(fo), bufio.NewWriter(fi)
	for _, op := range ops {
		hcNormalize(&op)
		b, _ := json.Marshal(op)
		wo.Write(b)
		wo.WriteByte('\n')
		wi.WriteString(hcExec(op))
		wi.WriteByte('\n')
	}
	wo.Flush()
	wi.Flush()
	fo.Close()
	fi.Close()
}
