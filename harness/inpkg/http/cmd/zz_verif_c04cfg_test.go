//go:build verif

package cmd

// C04 (deepening round): configuration text -> http.Config -> what Engine.Configure does about authentication.
// Runs the REAL chain core.FlagSet + http/cmd.FlagSet -> pflag.Parse -> core.ServerConfig.Load (file, environment, command line)
// -> InjectIntoEngine(http.Engine) -> Engine.Configure on generated YAML files, environment variables and arguments.

import (
	"bufio"
	"encoding/json"
	"fmt"
	"io"
	"math/rand"
	"os"
	"path/filepath"
	"sort"
	"strconv"
	"strings"
	"testing"

	"github.com/nuts-foundation/nuts-node/core"
	"github.com/nuts-foundation/nuts-node/http"
	"github.com/sirupsen/logrus"
)

type vcfgLeaf struct {
	K string   `json:"k"`
	S *string  `json:"s,omitempty"` // scalar
	L []string `json:"l,omitempty"` // list
}

type vcfgOp struct {
	Op      string      `json:"op"`
	File    []vcfgLeaf  `json:"file"`
	HasFile bool        `json:"hasfile"`
	Env     [][2]string `json:"env"`
	Flags   [][2]string `json:"flags"`
	OKPaths []string    `json:"okpaths"`
}

func vcfgNest(leaves []vcfgLeaf) map[string]interface{} {
	root := map[string]interface{}{}
	for _, lf := range leaves {
		parts := strings.Split(lf.K, ".")
		m := root
		for _, p := range parts[:len(parts)-1] {
			sub, ok := m[p].(map[string]interface{})
			if !ok {
				sub = map[string]interface{}{}
				m[p] = sub
			}
			m = sub
		}
		if lf.S != nil {
			m[parts[len(parts)-1]] = *lf.S
		} else {
			m[parts[len(parts)-1]] = lf.L
		}
	}
	return root
}

func vcfgRun(dir string, op vcfgOp) (res string) {
	defer func() {
		if r := recover(); r != nil {
			res = fmt.Sprintf("panic:%v", r)
		}
	}()
	for _, e := range os.Environ() {
		if k := strings.SplitN(e, "=", 2)[0]; strings.HasPrefix(strings.ToUpper(k), "NUTS_") {
			os.Unsetenv(k)
		}
	}
	for _, e := range op.Env {
		os.Setenv(e[0], e[1])
	}
	defer func() {
		for _, e := range op.Env {
			os.Unsetenv(e[0])
		}
	}()
	var args []string
	if op.HasFile {
		b, _ := json.Marshal(vcfgNest(op.File)) // JSON is YAML (flow style)
		p := filepath.Join(dir, "nuts.yaml")
		_ = os.WriteFile(p, b, 0o600)
		args = append(args, "--configfile="+p)
	} else {
		args = append(args, "--configfile="+filepath.Join(dir, "absent.yaml"))
		_ = os.Remove(filepath.Join(dir, "absent.yaml"))
		_ = os.WriteFile(filepath.Join(dir, "absent.yaml"), []byte("{}"), 0o600)
	}
	for _, f := range op.Flags {
		args = append(args, "--"+f[0]+"="+f[1])
	}
	flags := core.FlagSet()
	flags.AddFlagSet(FlagSet())
	flags.SetOutput(io.Discard)
	if err := flags.Parse(args); err != nil {
		return "flag-error"
	}
	cfg := core.NewServerConfig()
	if err := cfg.Load(flags); err != nil {
		return "load-error"
	}
	e := http.New(func() {}, nil)
	if err := cfg.InjectIntoEngine(e); err != nil {
		return "inject-error"
	}
	c := e.Config().(*http.Config)
	conf := "ok"
	if err := e.Configure(*cfg); err != nil {
		conf = "error"
	}
	// fields in hex (values contain commas, backslashes, blanks)
	return fmt.Sprintf("type=%x aud=%x keys=%x int=%x pub=%x log=%x configure=%s", string(c.Internal.Auth.Type), c.Internal.Auth.Audience,
		c.Internal.Auth.AuthorizedKeysPath, c.Internal.Address, c.Public.Address, string(c.Log), conf)
}

func TestVerifC04Cfg(t *testing.T) {
	outDir := os.Getenv("VERIF_OUT")
	if outDir == "" {
		t.Skip("VERIF_OUT not set")
	}
	logrus.SetOutput(io.Discard)
	if f, err := os.OpenFile(os.DevNull, os.O_WRONLY, 0); err == nil {
		os.Stderr = f // the audit logger is created lazily with os.Stderr
	}
	seed, _ := strconv.ParseInt(os.Getenv("VERIF_SEED"), 10, 64)
	r := rand.New(rand.NewSource(seed*15485863 + 404))
	n := 500
	if os.Getenv("VERIF_TIER") == "thorough" {
		n = 5000
	}
	dir := t.TempDir()
	okKeys := filepath.Join(dir, "authorized_keys")
	_ = os.WriteFile(okKeys, []byte("ssh-ed25519 AAAAC3NzaC1lZDI1NTE5AAAAIDYjM2bvl2zQ8Gvwbj7Xlx7HEw4DG2BFQOLiL6trwLuz alice@verif\n"), 0o600)
	emptyKeys := filepath.Join(dir, "empty_keys")
	_ = os.WriteFile(emptyKeys, []byte("# none\n"), 0o600)
	garbage := filepath.Join(dir, "garbage_keys")
	_ = os.WriteFile(garbage, []byte("not a key\n"), 0o600)
	okPaths := []string{okKeys, emptyKeys}

	opsF, _ := os.Create(filepath.Join(outDir, "ops.jsonl"))
	implF, _ := os.Create(filepath.Join(outDir, "impl.out"))
	defer opsF.Close()
	defer implF.Close()
	ops, impl := bufio.NewWriter(opsF), bufio.NewWriter(implF)
	defer ops.Flush()
	defer impl.Flush()
	emit := func(op vcfgOp) {
		op.Op, op.OKPaths = "cfgload", okPaths
		sort.Slice(op.Env, func(i, j int) bool { return op.Env[i][0] < op.Env[j][0] })
		out := vcfgRun(dir, op)
		b, _ := json.Marshal(op)
		ops.Write(b)
		ops.WriteByte('\n')
		impl.WriteString(out + "\n")
	}
	if p := os.Getenv("VERIF_REPLAY"); p != "" {
		b, _ := os.ReadFile(p)
		for _, line := range strings.Split(string(b), "\n") {
			var op vcfgOp
			if strings.TrimSpace(line) == "" || json.Unmarshal([]byte(line), &op) != nil || op.Op != "cfgload" {
				continue
			}
			// key file paths of the recorded run live in another temp dir: map them by base name
			fix := func(s string) string {
				for _, k := range []string{okKeys, emptyKeys, garbage} {
					if filepath.Base(s) == filepath.Base(k) && s != "" {
						return k
					}
				}
				return s
			}
			for i := range op.File {
				if op.File[i].S != nil {
					v := fix(*op.File[i].S)
					op.File[i].S = &v
				}
			}
			for i := range op.Env {
				op.Env[i][1] = fix(op.Env[i][1])
			}
			for i := range op.Flags {
				op.Flags[i][1] = fix(op.Flags[i][1])
			}
			emit(op)
		}
		return
	}

	types := []string{"", "token_v2", "token_v2", "token_v2", "token", "Token_v2", "TOKEN_V2", "none", "off", "token_v2 ", " token_v2", "a,b", "token_v2,", ",token_v2", `token_v2\,x`, "x, y", `\,`, "jwt"}
	keyPaths := []string{okKeys, okKeys, emptyKeys, garbage, filepath.Join(dir, "missing"), "", "relative/keys"}
	auds := []string{"", "nuts", "verif-aud", "a,b", " spaced "}
	addrs := []string{"127.0.0.1:8081", ":8080", "localhost:1323", "", "127.0.0.1:8081", "a,b"}
	logs := []string{"nothing", "metadata", "metadata-and-body", "debug", ""}
	pools := map[string][]string{"internal.auth.type": types, "internal.auth.authorizedkeyspath": keyPaths, "internal.auth.audience": auds,
		"internal.address": addrs, "public.address": addrs, "log": logs}
	keys := []string{"internal.auth.type", "internal.auth.authorizedkeyspath", "internal.auth.audience", "internal.address", "public.address", "log"}
	envName := func(k string) string {
		name := "NUTS_HTTP_" + strings.ToUpper(strings.ReplaceAll(k, ".", "_"))
		switch r.Intn(8) {
		case 0: // mixed case behind the prefix: the key is lower-cased
			name = "NUTS_http_" + strings.ReplaceAll(k, ".", "_")
		case 1: // lower-case prefix: not a nuts variable
			name = "nuts_HTTP_" + strings.ToUpper(strings.ReplaceAll(k, ".", "_"))
		case 2: // no prefix
			name = "HTTP_" + strings.ToUpper(strings.ReplaceAll(k, ".", "_"))
		}
		return name
	}
	for i := 0; i < n; i++ {
		op := vcfgOp{HasFile: r.Intn(5) > 0}
		pSrc := []int{2, 3, 4}[r.Intn(3)] // 1 in pSrc that a source names a key
		for _, k := range keys {
			pool := pools[k]
			if k == "internal.auth.type" && r.Intn(3) > 0 || r.Intn(pSrc) == 0 {
				if op.HasFile {
					v := pool[r.Intn(len(pool))]
					if r.Intn(9) == 0 {
						op.File = append(op.File, vcfgLeaf{K: "http." + k, L: []string{v, "second"}})
					} else {
						op.File = append(op.File, vcfgLeaf{K: "http." + k, S: &v})
					}
				}
			}
			if r.Intn(pSrc) == 0 {
				op.Env = append(op.Env, [2]string{envName(k), pool[r.Intn(len(pool))]})
			}
			if r.Intn(pSrc+1) == 0 {
				op.Flags = append(op.Flags, [2]string{"http." + k, pool[r.Intn(len(pool))]})
			}
		}
		if r.Intn(6) == 0 { // keys nobody registered
			v := "token_v2"
			op.File = append(op.File, vcfgLeaf{K: "http.internal.auth.typ", S: &v})
			op.Env = append(op.Env, [2]string{"NUTS_HTTP_INTERNAL_AUTHTYPE", "token_v2"})
		}
		if !op.HasFile {
			op.File = nil
		}
		emit(op)
	}
}
