//go:build verif

package vdr

// C13 wiring leg (injected with `go test -overlay`; never lives in /repo).
// FULL STACK: the real vdr.Module built by NewVDR + Configure + Start (this is where the method managers are registered
// and where the rollback loop is started), the real network/DAG (so the did:nuts documents reach the didstore through the
// real ambassador), the real didstore, SQLite. For each operation kind and each cut (stop before the k-th Commit call /
// before the clean-up transaction) it runs: create, operation with the stop, +2 min, then the sweep THROUGH
// Module.rollbackLoop (its start-up call), then a retry. One line per scenario; the oracle is in props/C13.py.

import (
	"context"
	"encoding/json"
	"fmt"
	"os"
	"path/filepath"
	"sort"
	"strings"
	"testing"
	"time"

	"github.com/nuts-foundation/go-did/did"
	"github.com/nuts-foundation/nuts-node/audit"
	"github.com/nuts-foundation/nuts-node/core"
	"github.com/nuts-foundation/nuts-node/crypto"
	"github.com/nuts-foundation/nuts-node/events"
	"github.com/nuts-foundation/nuts-node/network"
	"github.com/nuts-foundation/nuts-node/pki"
	"github.com/nuts-foundation/nuts-node/storage"
	"github.com/nuts-foundation/nuts-node/storage/orm"
	"github.com/nuts-foundation/nuts-node/test"
	"github.com/nuts-foundation/nuts-node/test/io"
	"github.com/nuts-foundation/nuts-node/vdr/didnuts/didstore"
	"github.com/nuts-foundation/nuts-node/vdr/didsubject"
	"github.com/nuts-foundation/nuts-node/vdr/resolver"
	"github.com/sirupsen/logrus"
	"go.uber.org/mock/gomock"
	"gorm.io/gorm"
)

type c13wStop struct{}

type c13wInj struct {
	k, n, calls int
	armed       bool
	order       []string
}

type c13wDeco struct {
	didsubject.MethodManager
	name string
	inj  *c13wInj
}

func (d *c13wDeco) Commit(ctx context.Context, e orm.DIDChangeLog) error {
	in := d.inj
	in.order = append(in.order, d.name)
	if in.armed && in.k == in.calls {
		panic(c13wStop{})
	}
	in.calls++
	err := d.MethodManager.Commit(ctx, e)
	if in.armed && in.k == in.n && in.calls == in.n && err == nil {
		panic(c13wStop{})
	}
	return err
}

type c13wLine struct {
	Kind      string   `json:"kind"`
	K         int      `json:"k"`
	Order     []string `json:"order"`
	Stopped   bool     `json:"stopped"`
	Wiring    string   `json:"wiring"`
	LogBefore int64    `json:"log_before"`
	LogAfter  int64    `json:"log_after"`
	LoopSwept bool     `json:"loop_swept"`
	Before    []string `json:"before"` // per DID (nuts, web): "<method> v=<versions> <state>"
	Stop      []string `json:"stop"`
	After     []string `json:"after"`
	NutsNet   string   `json:"nuts_net"` // what the network/didstore shows for the did:nuts DID after the sweep
	Retry     string   `json:"retry"`
	Final     []string `json:"final"`
}

func c13wState(t *testing.T, db *gorm.DB, m didsubject.Manager, subject string) []string {
	dids, err := m.ListDIDs(audit.TestContext(), subject)
	if err != nil {
		return []string{"nosubject"}
	}
	var out []string
	for _, id := range dids {
		var versions []int
		if err := db.Table("did_document_version").Where("did = ?", id.String()).Order("version").Pluck("version", &versions).Error; err != nil {
			t.Fatal(err)
		}
		doc, _, err := didsubject.Resolver{DB: db}.Resolve(id, &resolver.ResolveMetadata{AllowDeactivated: true})
		state := "notfound"
		if err == nil {
			var types []string
			for _, s := range doc.Service {
				types = append(types, s.Type)
			}
			sort.Strings(types)
			state = fmt.Sprintf("keys=%d svcs=%s deact=%v", len(doc.VerificationMethod), strings.Join(types, ","), resolver.IsDeactivated(*doc))
		}
		out = append(out, fmt.Sprintf("%s v=%v %s", id.Method, versions, state))
	}
	return out
}

func TestVerifC13W(t *testing.T) {
	logrus.SetLevel(logrus.PanicLevel)
	outDir := os.Getenv("VERIF_OUT")
	if outDir == "" {
		t.Skip("VERIF_OUT not set")
	}
	testDir := io.TestDirectory(t)
	nutsConfig := core.TestServerConfig(func(config *core.ServerConfig) {
		config.Strictmode = false
		config.Datadir = testDir
		config.DIDMethods = []string{"web", "nuts"}
	})
	storageEngine := storage.NewTestStorageEngine(t)
	cryptoInstance := crypto.NewCryptoInstance(storageEngine)
	must := func(err error) {
		if err != nil {
			t.Fatal(err)
		}
	}
	must(cryptoInstance.Configure(nutsConfig))
	didStore := didstore.TestStore(t, storageEngine)
	eventPublisher := events.NewTestManager(t)
	pkiValidator := pki.New()
	must(pkiValidator.Configure(nutsConfig))
	networkCfg := network.DefaultConfig()
	networkCfg.GrpcAddr = fmt.Sprintf("localhost:%d", test.FreeTCPPort())
	nutsNetwork := network.NewNetworkInstance(networkCfg, didStore, cryptoInstance, eventPublisher, storageEngine.GetProvider("network"), pkiValidator)
	pkiMock := pki.NewMockValidator(gomock.NewController(t))
	module := NewVDR(cryptoInstance, nutsNetwork, didStore, eventPublisher, storageEngine, pkiMock)
	must(module.Configure(nutsConfig))
	must(nutsNetwork.Configure(nutsConfig))
	must(module.Start())
	t.Cleanup(func() { _ = module.Shutdown() })
	must(nutsNetwork.Start())
	t.Cleanup(func() { _ = nutsNetwork.Shutdown() })

	db := storageEngine.GetSQLDatabase()
	ctx := audit.TestContext()
	manager := module.Manager.(*didsubject.SqlManager)
	var wiring []string
	for name, mm := range manager.MethodManagers {
		wiring = append(wiring, fmt.Sprintf("%s:%T", name, mm))
	}
	sort.Strings(wiring)
	real := map[string]didsubject.MethodManager{}
	for name, mm := range manager.MethodManagers {
		real[name] = mm
	}
	inj := &c13wInj{}
	arm := func(on bool, k int) {
		*inj = c13wInj{k: k, n: len(real), armed: on}
		for name, mm := range real {
			manager.MethodManagers[name] = &c13wDeco{MethodManager: mm, name: name, inj: inj}
		}
	}
	count := func() int64 {
		var c int64
		must(db.Model(&orm.DIDChangeLog{}).Count(&c).Error)
		return c
	}
	svc := did.Service{Type: "T-A", ServiceEndpoint: "https://example.com/A"}
	doOp := func(kind, subject string) error {
		switch kind {
		case "create":
			_, _, err := module.Create(ctx, didsubject.DefaultCreationOptions().With(didsubject.SubjectCreationOption{Subject: subject}))
			return err
		case "addsvc":
			_, err := module.CreateService(ctx, subject, svc)
			return err
		case "addkey":
			_, err := module.AddVerificationMethod(ctx, subject, orm.AssertionKeyUsage())
			return err
		case "deact":
			return module.Deactivate(ctx, subject)
		}
		t.Fatalf("kind %s", kind)
		return nil
	}

	f, err := os.Create(filepath.Join(outDir, "wiring.jsonl"))
	must(err)
	defer f.Close()
	n := 0
	for _, kind := range []string{"create", "addsvc", "addkey", "deact"} {
		for k := 0; k <= len(real); k++ {
			n++
			subject := fmt.Sprintf("w%d", n)
			line := c13wLine{Kind: kind, K: k, Wiring: strings.Join(wiring, ",")}
			arm(false, 0)
			if kind != "create" {
				must(doOp("create", subject))
			}
			line.Before = c13wState(t, db, module, subject)
			arm(true, k)
			func() {
				defer func() {
					if r := recover(); r != nil {
						if _, ok := r.(c13wStop); ok {
							line.Stopped = true
							return
						}
						panic(r)
					}
				}()
				_ = doOp(kind, subject)
			}()
			line.Order = append([]string{}, inj.order...)
			arm(false, 0)
			line.Stop = c13wState(t, db, module, subject)
			line.LogBefore = count()
			// two minutes later …
			must(db.Exec("UPDATE did_document_version SET updated_at = updated_at - 120, created_at = created_at - 120").Error)
			// … the node (re)starts its rollback loop: the REAL loop code on the REAL wired manager, with a context of our own
			loopCtx, cancel := context.WithCancel(context.Background())
			loopModule := &Module{Manager: module.Manager, ctx: loopCtx}
			done := make(chan struct{})
			go func() { defer close(done); loopModule.rollbackLoop() }()
			deadline := time.Now().Add(20 * time.Second)
			for count() != 0 && time.Now().Before(deadline) {
				time.Sleep(5 * time.Millisecond)
			}
			line.LoopSwept = count() == 0
			cancel()
			select {
			case <-done:
			case <-time.After(20 * time.Second):
				line.LoopSwept = false
				line.Retry = "loop-did-not-stop"
			}
			line.LogAfter = count()
			line.After = c13wState(t, db, module, subject)
			line.NutsNet = "-"
			if dids, err := module.ListDIDs(ctx, subject); err == nil {
				for _, id := range dids {
					if id.Method == "nuts" {
						doc, _, err := didStore.Resolve(id, &resolver.ResolveMetadata{AllowDeactivated: true})
						if err != nil {
							line.NutsNet = "err"
						} else {
							var types []string
							for _, s := range doc.Service {
								types = append(types, s.Type)
							}
							line.NutsNet = fmt.Sprintf("keys=%d svcs=%s deact=%v", len(doc.VerificationMethod), strings.Join(types, ","), resolver.IsDeactivated(*doc))
						}
					}
				}
			}
			if line.Retry == "" {
				if err := doOp(kind, subject); err != nil {
					msg := err.Error()
					if len(msg) > 70 {
						msg = msg[len(msg)-70:]
					}
					line.Retry = "err:" + msg
				} else {
					line.Retry = "ok"
				}
			}
			line.Final = c13wState(t, db, module, subject)
			b, _ := json.Marshal(line)
			f.Write(append(b, '\n'))
		}
	}
}
